#!/bin/bash
# MANIFEST.setup_cmd: build the whole Coq development from files on disk (offline), byte-check the harness.
set -e
cd "$(dirname "$0")"
export PYTHONDONTWRITEBYTECODE=1
if [ -f harness/gen_tables.py ]; then
  PYTHONPATH="${VERIF_REPO:-/repo}:$PWD/harness" PYTHONHASHSEED=0 /venv/bin/python -W ignore harness/gen_tables.py
fi
PYTHONPATH="$PWD/harness" /venv/bin/python -W ignore -c "from vlib.core import ensure_makefile; ensure_makefile()"
cd coq
timeout 3000 make -f Makefile.coq -j16 > /tmp/verif-setup-build.log 2>&1 || { tail -50 /tmp/verif-setup-build.log; exit 1; }
cd ..
/venv/bin/python -W ignore -c "import compileall,sys; sys.exit(0 if compileall.compile_dir('harness', quiet=1, legacy=False, optimize=0) else 1)" || true
find harness -name __pycache__ -type d -exec rm -rf {} + 2>/dev/null || true
echo setup ok
