#!/bin/bash
# MANIFEST.setup_cmd: regenerate the tables from /repo, build the whole Coq development from files on disk (offline),
# byte-check the harness.  Fails if any registered property's theorem file (or anything it needs) does not build.
set -e
cd "$(dirname "$0")"
export PYTHONDONTWRITEBYTECODE=1
LOG=$PWD/coq/.setup-build.log
if [ -f harness/gen_tables.py ]; then
  PYTHONPATH="${VERIF_REPO:-/repo}:$PWD/harness" PYTHONHASHSEED=0 /venv/bin/python -W ignore harness/gen_tables.py
fi
PYTHONPATH="$PWD/harness" /venv/bin/python -W ignore -c "from vlib.core import ensure_makefile; ensure_makefile()"
cd coq
timeout 3000 make -f Makefile.coq -j16 -k > "$LOG" 2>&1 || true
cd ..
missing=""
for p in $(/venv/bin/python -c "import json; print(' '.join(c['property_id'] for c in json.load(open('MANIFEST.json'))['checks']))"); do
  [ -f "coq/Props/$p.vo" ] || missing="$missing $p"
done
if [ -n "$missing" ]; then
  echo "setup: theorem files of registered properties did not build:$missing"; grep -B2 -A12 "Error" "$LOG" | head -80; exit 1
fi
/venv/bin/python -W ignore -c "import compileall,sys; sys.exit(0 if compileall.compile_dir('harness', quiet=1, legacy=False, optimize=0) else 1)" || true
find harness -name __pycache__ -type d -exec rm -rf {} + 2>/dev/null || true
echo setup ok
