#!/venv/bin/python
"""writes design.d/SEEDS.md: one row per confirmed seeded change (seeded/<id>/meta.json) with what caught it"""
import glob, json, os, re
H = os.path.dirname(os.path.dirname(os.path.abspath(__file__)))
rows = []
for d in sorted(glob.glob(os.path.join(H, "seeded", "C*-*"))):
    m = json.load(open(os.path.join(d, "meta.json")))
    sid = os.path.basename(d)
    what = m.get("breaks") or m.get("summary") or ""
    needs = m.get("needs", "")
    chk = m.get("check", {})
    if chk:
        caught = chk.get("exit") == 1
        how = chk.get("caught_by", "")
        layers = []
        if "proof_broken" in how or "translator" in how: layers.append("proof obligation")
        mm = re.search(r"disagree=(\d+)", how)
        if mm and int(mm.group(1)) > 0: layers.append(f"correspondence ({mm.group(1)} cases)")
        if "failing input" in how: layers.append("oracle (replay)")
        if "no-failing-input-found" in chk.get("violation_lines", ""): layers.append("no failing input found")
        res = ("caught: " + ", ".join(layers)) if caught else "MISSED"
    else:
        res = m.get("check_result", "?")
    def cut(s, n): 
        s = " ".join(str(s).split()); return s if len(s) <= n else s[:n-1] + "…"
    rows.append(f"| {sid} | {cut(what, 260)} | {cut(needs, 220)} | {cut(res, 200)} |")
text = ("# Seeded changes (independent sub-agents; each confirmed by the coordinator with tools/seed_run.sh)\n\n"
        "Each change applies alone to /repo HEAD, passes the full existing test suite (346 passed, 6 pre-existing failures), and\n"
        "comes with a demonstration that fails with it and passes without it (seeded/<id>/patch.diff, demo.py, meta.json).\n"
        "The last column is the outcome of `VERIF_REPO=<patched worktree> ./check <prop> --tier quick` at the time recorded in\n"
        "meta.json (re-run after strengthening where the first run missed).\n\n"
        "| seed | what it breaks | what it needs to manifest | check |\n|---|---|---|---|\n" + "\n".join(rows) + "\n")
open(os.path.join(H, "design.d", "SEEDS.md"), "w").write(text)
print(len(rows), "seeds")
