#!/venv/bin/python
"""writes /verif/MANIFEST.json from the table below (kept in one place so it stays valid)"""
import json, os
HERE = os.path.dirname(os.path.dirname(os.path.abspath(__file__)))
ALL = [f"C{i:02d}" for i in range(1, 21)]
TB = ("Trusted: Coq 8.16.1 kernel + vm_compute (no native_compute), no axioms unless named in the evidence file's "
      "print_assumptions; the hand-written Gallina model is tied to /repo by the correspondence run of the same check "
      "(model evaluated inside Coq on generated cases vs the implementation); float rounding, numpy/libm/GEOS/lxml/"
      "protobuf/matplotlib are outside the model (DESIGN 4, 6). ")
CHECKS = {
 "C16": dict(
   text="full: Interval/AngleInterval decision procedures proved equivalent to their set semantics over all of Q "
        "(every float is a rational): C16_contains_point, C16_contains_interval, C16_overlaps, C16_intersection, "
        "C16_add/sub/mul_image/div (image sets, never Err, start<=end), C16_round, C16_ctor_rejects/accepts, "
        "C16_angle_contains (exists k), C16_angle_contains_interval, C16_angle_ctor_total, C16_angle_shift, loop termination; "
        "the model is the source: C16_model_is_source_interval / _angle prove every function of Model/Interval.v equal to the "
        "Gallina text generated on every run from commonroad/common/util.py + validity.py by symbolic execution "
        "(harness/vlib/py2coq.py -> Gen/Src_util.v: constructors with their setters' asserts, contains / overlaps / "
        "intersection / arithmetic / round / comparisons, the while loops of make_valid_orientation(_interval) as fuelled "
        "fixpoints, AngleInterval constructor / contains / shift), so a semantic change of the source breaks a proof obligation",
   technique="machine-checked proof in Coq 8.16 of a Gallina model proved equal to a translation of the Python source "
             "regenerated on every run (py2coq) + differential correspondence model-vs-implementation (vm_compute) + "
             "property-oracle search for a failing input",
   note="model exact over Q, implementation rounded: end points compared within 1e-9, decisions nearer than 1e-9 to a "
        "boundary excluded (counted in evidence). Python round modelled as exact round-half-even. py2coq is fail-closed (an "
        "untranslatable construct => the broken obligation is reported); float division by zero is a guard in the translated "
        "text (src_div is proved equal to the model for divisors <> 0 only... see C16_model_is_source_interval).",
   design="5/C16"),
}
import glob
for f in sorted(glob.glob(os.path.join(HERE, "manifest.d", "C*.json"))):
    CHECKS[os.path.basename(f)[:3]] = json.load(open(f))
NOT_BUILT = "check not built yet in this round (planned, DESIGN 7.1); nothing is claimed"
def main():
    checks = []
    for p in ALL:
        if p not in CHECKS: continue
        c = CHECKS[p]
        checks.append({
          "property_id": p,
          "quick_cmd": f"./check {p} --tier quick",
          "thorough_cmd": f"./check {p} --tier thorough",
          "evidence_file": f"/verif/evidence/{p}.json",
          "replay_cmd_template": f"./check {p} --replay {{path}}",
          "engine": "coq+corr+search",
          "level_claimed": {"category": "proof", "text": c["text"], "design_ref": c["design"]},
          "level_note": TB + c["note"],
          "technique": c.get("technique", "machine-checked proof in Coq 8.16 of a Gallina model + differential correspondence model-vs-implementation (vm_compute) + property-oracle search for a failing input"),
        })
    m = {
      "version": 1,
      "setup_cmd": "./setup.sh",
      "hooks": {"guard": "COMMONROAD_IO_VERIF", "enable": "no source hooks: checks only set COMMONROAD_IO_VERIF=1 in the environment; observations go through public attributes",
                "baseline_off_cmd": "cd /repo && env -u COMMONROAD_IO_VERIF /venv/bin/python -m pytest -ra -q -p no:cacheprovider --timeout=900 --continue-on-collection-errors",
                "source_commits": [], "add_only": True},
      "engines": [
        {"name": "coq", "path": "coq/", "serves_properties": sorted(CHECKS), "kind_free_text": "Coq 8.16.1 development: Model/ (executable Gallina), Proofs/, Props/ (theorem statements + Print Assumptions), Corr/ (correspondence relations), Gen/ (tables regenerated from /repo each run)"},
        {"name": "corr", "path": "harness/", "serves_properties": sorted(CHECKS), "kind_free_text": "correspondence harness: generates cases, runs the implementation, writes Cases/*.v, evaluates the model with vm_compute, compares inside Coq"},
        {"name": "search", "path": "harness/props/", "serves_properties": sorted(CHECKS), "kind_free_text": "independent Python oracle of each property statement run against the implementation; supplies the failing input (replay)"},
      ],
      "checks": checks,
      "notes": "See DESIGN.md. known_findings.json lists recorded findings and fixed: entries. VERIF_REPO overrides /repo (used to run checks against scratch worktrees).",
      "not_applicable": [{"property_id": p, "reason": NOT_BUILT} for p in ALL if p not in CHECKS],
    }
    json.dump(m, open(os.path.join(HERE, "MANIFEST.json"), "w"), indent=1)
    import jsonschema  # noqa
main()
