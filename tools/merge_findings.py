#!/venv/bin/python
"""merges fixes/*.findings.json (written by the per-property builders) into known_findings.json (coordinator only)"""
import glob, json, os
H = os.path.dirname(os.path.dirname(os.path.abspath(__file__)))
p = os.path.join(H, "known_findings.json")
d = json.load(open(p))
have = {(f["property"], f["signature"]) for f in d["findings"]}
for fn in sorted(glob.glob(os.path.join(H, "fixes", "*.findings.json"))):
    for f in json.load(open(fn)):
        if (f["property"], f["signature"]) not in have:
            d["findings"].append(f); have.add((f["property"], f["signature"]))
d["findings"].sort(key=lambda f: (f["property"], f["signature"]))
json.dump(d, open(p, "w"), indent=1)
print(len(d["findings"]), "findings;", len(d["fixed"]), "fixed")
