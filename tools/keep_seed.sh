#!/bin/bash
# tools/keep_seed.sh <prop> <src dir> <n> "<caught by>"   -> /verif/seeded/<prop>-<n>/
P=$1; S=$2; N=$3; C=$4
D=/verif/seeded/$P-$N; mkdir -p $D; cp $S/patch.diff $S/demo.py $D/
/venv/bin/python - "$S/meta.json" "$D/meta.json" "$P" "$C" <<'PY'
import json,sys
m=json.load(open(sys.argv[1])); m["property"]=sys.argv[3]; m["confirmed_by_coordinator"]="applied alone in a scratch worktree: demo fails with / passes without the patch; related tests pass with the patch (tools/try_seed.sh)"; m["check_result"]=sys.argv[4]
json.dump(m,open(sys.argv[2],"w"),indent=1)
PY
