#!/bin/bash
# tools/soak.sh "<seeds>" "<props>" : quick tier of each property for each seed; prints one line per run
for s in $1; do for p in $2; do
  out=$(VERIF_SEED=$s ./check $p --tier quick 2>&1); rc=$?
  echo "seed=$s $p exit=$rc $(echo "$out" | grep -E 'done tier' | sed 's/.*evaluations/evaluations/')"
  if [ $rc -ne 0 ]; then echo "$out" | grep -E "VIOLATION|failing input|proof_broken|Traceback|Error" | cut -c1-400 | head -8; fi
done; done
