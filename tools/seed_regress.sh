#!/bin/bash
# tools/seed_regress.sh [<seed ids...>]  — re-run every kept seeded change against the current checks.
# For each seeded/<id>/patch.diff: scratch worktree of /repo HEAD under /var/tmp/regress, apply, quick check of the
# seed's property with VERIF_REPO pointing at it, one result line, worktree removed.  Run it from a /verif checkout whose
# Coq development is built (./setup.sh); meant for `vp run -- bash -c "./setup.sh && tools/seed_regress.sh"`.
# Exit 0 iff every seed is reported (check exit 1 with a VIOLATION line).
HERE=$(cd "$(dirname "$0")/.." && pwd)
cd "$HERE" || exit 2
ids="$*"; [ -z "$ids" ] && ids=$(ls seeded | sort)
missed=0
for id in $ids; do
  P=${id%-*}; WT=/var/tmp/regress/$$/$id
  mkdir -p "$(dirname "$WT")"
  git -C /repo worktree add -q --detach "$WT" HEAD || { echo "$id WORKTREE FAILED"; continue; }
  if ! git -C "$WT" apply "$HERE/seeded/$id/patch.diff" 2>/dev/null; then
    echo "$id APPLY FAILED (patch no longer applies to /repo HEAD)"
  else
    out=$(VERIF_REPO=$WT ./check "$P" --tier quick 2>&1); rc=$?
    nv=$(echo "$out" | grep -c '^VIOLATION')
    how=$(echo "$out" | grep -E "failing input|proof_broken|corr .*disagree|no-failing-input-found" | head -2 | cut -c1-200 | tr '\n' '|')
    if [ $rc -eq 1 ] && [ "$nv" -gt 0 ]; then echo "$id caught exit=$rc violations=$nv $how";
    elif grep -q '"note_after_repairs": "NEUTRALISED' "$HERE/seeded/$id/meta.json" 2>/dev/null; then
      echo "$id neutralised by a later fix: commit (its demo passes on the repaired tree with the patch); check exit=$rc"
    else echo "$id MISSED exit=$rc violations=$nv $how"; missed=$((missed+1)); fi
  fi
  git -C /repo worktree remove --force "$WT"
done
rmdir /var/tmp/regress/$$ 2>/dev/null
echo "seed_regress: missed=$missed"
[ $missed -eq 0 ]
