#!/bin/bash
# tools/seed_run.sh <prop> <worktree> <seed dir with patch.diff demo.py meta.json> <n>
# Confirms a seeded change (demo fails with / passes without the patch, full test suite still 346 passed with it),
# runs the property's quick check against the patched worktree, and stores everything as /verif/seeded/<prop>-<n>/.
P=$1; WT=$2; D=$3; N=$4
OUT=/verif/seeded/$P-$N; LOG=$(mktemp /var/tmp/seedrun.XXXXXX)
run_demo() { (cd "$D" && PYTHONPATH=$WT PYTHONHASHSEED=0 MPLBACKEND=Agg timeout 600 /venv/bin/python -W ignore demo.py >/dev/null 2>&1); echo $?; }
cd "$WT" && git checkout -q -- . && git clean -qfd
d0=$(run_demo)
git apply "$D/patch.diff" || { echo "$P-$N APPLY FAILED"; exit 2; }
d1=$(run_demo)
tests=$(cd "$WT" && PYTHONPATH=$WT timeout 1500 /venv/bin/python -W ignore -m pytest -q -p no:cacheprovider --timeout=900 -W ignore 2>&1 | tail -1)
(cd ${VERIF_HOME:-/verif} && VERIF_REPO=$WT ./check $P --tier quick > $LOG 2>&1); rc=$?
viol=$(grep -E "^VIOLATION" $LOG | head -3 | tr '\n' ' ')
how=$(grep -E "failing input|proof_broken|corr .*disagree|correspondence broke" $LOG | head -4 | cut -c1-260 | tr '\n' '|')
cd "$WT" && git checkout -q -- . && git clean -qfd
echo "$P-$N demo(clean)=$d0 demo(patched)=$d1 tests='$tests' check_exit=$rc $viol"
echo "   $how"
mkdir -p $OUT && cp "$D/patch.diff" "$D/demo.py" $OUT/
/venv/bin/python - "$D/meta.json" "$OUT/meta.json" "$P" "$d0" "$d1" "$tests" "$rc" "$viol" "$how" <<'PY'
import json,sys
a=sys.argv
try: m=json.load(open(a[1]))
except Exception: m={}
m.update({"property":a[3],"confirmed":{"demo_exit_clean":int(a[4]),"demo_exit_patched":int(a[5]),"full_test_suite_with_patch":a[6],
  "how":"tools/seed_run.sh: patch applied alone in a scratch worktree of /repo HEAD; demo run with and without; full pytest run with the patch"},
  "check":{"cmd":"VERIF_REPO=<worktree> ./check %s --tier quick"%a[3],"exit":int(a[7]),"violation_lines":a[8],"caught_by":a[9]}})
json.dump(m,open(a[2],"w"),indent=1)
PY
rm -f $LOG
