#!/bin/bash
# tools/try_seed.sh <prop> <worktree> <dir with patch.diff demo.py> [pytest paths...]
# applies the patch in the scratch worktree, runs demo (must fail), the check (should report VIOLATION), tests,
# then reverts and runs the demo again (must pass).
P=$1; WT=$2; D=$3; shift 3
cd "$WT" && git checkout -q -- . && git apply "$D/patch.diff" || { echo "APPLY FAILED"; exit 2; }
PYTHONPATH=$WT PYTHONHASHSEED=0 MPLBACKEND=Agg /venv/bin/python -W ignore "$D/demo.py" >/dev/null 2>&1; echo "demo with patch: exit $? (expect !=0)"
if [ $# -gt 0 ]; then (cd "$WT" && PYTHONPATH=$WT /venv/bin/python -m pytest -q -p no:cacheprovider --timeout=900 "$@" 2>&1 | tail -1); fi
(cd /verif && VERIF_REPO=$WT ./check $P --tier quick 2>&1 | grep -E "VIOLATION|done tier|failing input|proof_broken|corr cases" | head -8)
cd "$WT" && git checkout -q -- .
PYTHONPATH=$WT PYTHONHASHSEED=0 MPLBACKEND=Agg /venv/bin/python -W ignore "$D/demo.py" >/dev/null 2>&1; echo "demo without patch: exit $? (expect 0)"
