(* Proofs/Goal.v — lemmas about Model/Goal.v (C08). *)
From Coq Require Import QArith ZArith Bool List Lia Lqa.
From CR Require Import Base.QMod Model.Interval Proofs.Interval Model.Goal.
Import ListNotations.
Open Scope Q_scope.

Notation IIn := CR.Proofs.Interval.In.

Section GoalProofs.
  Variable tau : Q.
  Hypothesis tau_pos : 0 < tau.
  Variables pos shape : Type.
  Variable inside : shape -> pos -> bool.
  Variable hypot : Q -> Q -> Q.
  Variable atan2 : Q -> Q -> Q.

  Notation gstate := (gstate shape).
  Notation state := (state pos).
  Notation harmonize := (@harmonize pos shape hypot atan2).
  Notation reached1 := (@reached1 tau pos shape inside hypot atan2).
  Notation reached_list := (@reached_list tau pos shape inside hypot atan2).
  Notation is_reached := (@is_reached tau pos shape inside hypot atan2).
  Notation scan := (@scan tau pos shape inside hypot atan2).
  Notation goal_reached := (@goal_reached tau pos shape inside hypot atan2).

  (* ---- the specification side: what a state's speed and heading are ---- *)
  (* speed: the stored velocity; for a state that stores both velocity components (point mass) hypot(vx, vy) *)
  Definition speed (s : state) : option Q :=
    match s_vel s, s_vely s with
    | Some vx, Some vy => Some (hypot vx vy)
    | Some v, None => Some v
    | None, _ => None
    end.
  (* heading: the stored orientation; for a state without one that stores both velocity components
     (point mass) atan2(vy, vx) *)
  Definition heading (s : state) : option Q :=
    match s_orient s with
    | Some o => Some o
    | None => match s_vel s, s_vely s with
              | Some vx, Some vy => Some (atan2 vy vx)
              | _, _ => None
              end
    end.

  Definition opt_sat {A B} (g : option A) (s : option B) (P : A -> B -> Prop) : Prop :=
    match g with None => True | Some a => exists b, s = Some b /\ P a b end.

  (* goal state g is satisfied by s in every attribute it constrains *)
  Definition sat (g : gstate) (s : state) : Prop :=
    opt_sat (g_time g) (s_time s) (fun I t => IIn I t) /\
    opt_sat (g_pos g) (s_pos s) (fun shp p => inside shp p = true) /\
    opt_sat (g_orient g) (heading s) (fun I th => AIn tau I th) /\
    opt_sat (g_vel g) (speed s) (fun I v => IIn I v).

  (* the state has every attribute the goal state constrains (DESIGN 2.7) *)
  Definition needs {A B} (g : option A) (s : option B) : Prop := has g = true -> has s = true.
  Definition admissible (g : gstate) (s : state) : Prop :=
    needs (g_time g) (s_time s) /\ needs (g_pos g) (s_pos s) /\
    needs (g_orient g) (heading s) /\ needs (g_vel g) (speed s).
  (* orientation intervals are well formed and shorter than the period *)
  Definition wf_goal (g : gstate) : Prop :=
    forall I, g_orient g = Some I -> WF I /\ hi I - lo I < tau.

  (* ---- harmonize ---- *)
  Lemma harm_time s g : s_time (harmonize s g) = s_time s.
  Proof. destruct s as [t p o [v|] [vy|]]; unfold Goal.harmonize; simpl; try reflexivity.
         destruct (has (g_orient g) || has (g_vel g)); reflexivity. Qed.
  Lemma harm_pos s g : s_pos (harmonize s g) = s_pos s.
  Proof. destruct s as [t p o [v|] [vy|]]; unfold Goal.harmonize; simpl; try reflexivity.
         destruct (has (g_orient g) || has (g_vel g)); reflexivity. Qed.
  Lemma harm_orient s g : has (g_orient g) = true -> s_orient (harmonize s g) = heading s.
  Proof. intro H. destruct s as [t p [o|] [v|] [vy|]]; unfold Goal.harmonize, heading; simpl; rewrite ?H; reflexivity. Qed.
  Lemma harm_vel s g : has (g_vel g) = true -> s_vel (harmonize s g) = speed s.
  Proof. intro H. destruct s as [t p o [v|] [vy|]]; unfold Goal.harmonize, speed; simpl; rewrite ?H, ?orb_true_r; reflexivity. Qed.

  Lemma sub1_needs {A B} (g : option A) (s : option B) : sub1 g s = true <-> needs g s.
  Proof. unfold sub1, needs. destruct g, s; simpl; intuition congruence. Qed.

  Lemma sub1_harm_orient s g : sub1 (g_orient g) (s_orient (harmonize s g)) = true <-> needs (g_orient g) (heading s).
  Proof.
    destruct (has (g_orient g)) eqn:E.
    - rewrite harm_orient by exact E. apply sub1_needs.
    - unfold sub1, needs. rewrite E. simpl. intuition congruence.
  Qed.
  Lemma sub1_harm_vel s g : sub1 (g_vel g) (s_vel (harmonize s g)) = true <-> needs (g_vel g) (speed s).
  Proof.
    destruct (has (g_vel g)) eqn:E.
    - rewrite harm_vel by exact E. apply sub1_needs.
    - unfold sub1, needs. rewrite E. simpl. intuition congruence.
  Qed.

  Lemma fields_subset_iff g s : fields_subset g (harmonize s g) = true <-> admissible g s.
  Proof.
    unfold fields_subset, admissible. rewrite !andb_true_iff, harm_time, harm_pos.
    rewrite sub1_harm_orient, sub1_harm_vel, !sub1_needs. tauto.
  Qed.

  Lemma chk_spec {A B} (g : option A) (s : option B) test (P : A -> B -> Prop) :
    (forall a b, g = Some a -> test a b = true <-> P a b) -> needs g s ->
    (chk g s test = true <-> opt_sat g s P).
  Proof.
    intros HP Hn. unfold chk, opt_sat, needs in *. destruct g as [a|]; [|tauto].
    destruct s as [b|]; [| simpl in Hn; specialize (Hn eq_refl); discriminate].
    rewrite (HP a b eq_refl). split.
    - intro H. exists b. auto.
    - intros [b' [E H]]. inversion E; subst; auto.
  Qed.

  (* one goal state: never the error value on admissible inputs, and true exactly when satisfied *)
  Lemma reached1_spec g s : wf_goal g -> admissible g s ->
    exists b, reached1 g s = Ok b /\ (b = true <-> sat g s).
  Proof.
    intros Hwf Hadm. unfold Goal.reached1.
    pose proof (proj2 (fields_subset_iff g s) Hadm) as Hfs. rewrite Hfs.
    eexists. split; [reflexivity|].
    destruct Hadm as (Ht & Hp & Ho & Hv).
    rewrite !andb_true_iff. unfold sat.
    rewrite harm_time, harm_pos.
    rewrite (chk_spec (g_time g) (s_time s) contains_pt (fun I t => IIn I t)); [| intros; apply contains_pt_spec | exact Ht].
    rewrite (chk_spec (g_pos g) (s_pos s) inside (fun shp p => inside shp p = true)); [| intros; tauto | exact Hp].
    assert (Eo : chk (g_orient g) (s_orient (harmonize s g)) (acontains tau) = true <->
                 opt_sat (g_orient g) (heading s) (fun I th => AIn tau I th)).
    { destruct (g_orient g) as [I|] eqn:E.
      - assert (Hh : has (g_orient g) = true) by (rewrite E; reflexivity).
        rewrite harm_orient by exact Hh. apply chk_spec.
        + intros a b Ea. inversion Ea; subst a.
          destruct (Hwf I E) as [W L]. apply acontains_spec; assumption.
        + exact Ho.
      - simpl. tauto. }
    assert (Ev : chk (g_vel g) (s_vel (harmonize s g)) contains_pt = true <->
                 opt_sat (g_vel g) (speed s) (fun I v => IIn I v)).
    { destruct (g_vel g) as [I|] eqn:E.
      - assert (Hh : has (g_vel g) = true) by (rewrite E; reflexivity).
        rewrite harm_vel by exact Hh. apply chk_spec.
        + intros; apply contains_pt_spec.
        + exact Hv.
      - simpl. tauto. }
    rewrite Eo, Ev. tauto.
  Qed.

  (* ValueError exactly when the state lacks an attribute the goal state constrains *)
  Lemma reached1_err g s : reached1 g s = Err <-> ~ admissible g s.
  Proof.
    unfold Goal.reached1. rewrite <- fields_subset_iff.
    destruct (fields_subset g (harmonize s g)); split; intro H; try discriminate; try reflexivity.
    exfalso. apply H. reflexivity.
  Qed.

  Lemma reached_list_spec G s : Forall wf_goal G -> (forall g, List.In g G -> admissible g s) ->
    exists bs, reached_list G s = Ok bs /\
               (existsb (fun b => b) bs = true <-> exists g, List.In g G /\ sat g s).
  Proof.
    induction G as [|g G IH]; intros Hwf Hadm.
    - exists []. split; [reflexivity|]. simpl. split; [discriminate | intros [g [[] _]]].
    - inversion Hwf as [|? ? Hg HG]; subst.
      destruct (reached1_spec g s Hg (Hadm g (or_introl eq_refl))) as [b [Eb Hb]].
      destruct (IH HG (fun g' H => Hadm g' (or_intror H))) as [bs [Ebs Hbs]].
      exists (b :: bs). simpl. rewrite Eb, Ebs. split; [reflexivity|].
      rewrite orb_true_iff, Hb, Hbs. split.
      + intros [H | [g' [Hin H]]]; [exists g | exists g']; auto.
      + intros [g' [[E | Hin] H]]; [subst; auto | right; exists g'; auto].
  Qed.

  Lemma is_reached_spec G s : Forall wf_goal G -> (forall g, List.In g G -> admissible g s) ->
    exists b, is_reached G s = Ok b /\ (b = true <-> exists g, List.In g G /\ sat g s).
  Proof.
    intros Hwf Hadm. destruct (reached_list_spec G s Hwf Hadm) as [bs [E H]].
    unfold Goal.is_reached. rewrite E. eexists; split; [reflexivity | exact H].
  Qed.

  Lemma reached_list_err G s : reached_list G s = Err <-> exists g, List.In g G /\ ~ admissible g s.
  Proof.
    induction G as [|g G IH]; simpl.
    - split; [discriminate | intros [g [[] _]]].
    - destruct (reached1 g s) as [b|] eqn:E1.
      + assert (Hg : admissible g s).
        { destruct (fields_subset g (harmonize s g)) eqn:F.
          - apply fields_subset_iff; exact F.
          - unfold Goal.reached1 in E1. rewrite F in E1. discriminate. }
        destruct (reached_list G s) as [bs|] eqn:E2.
        * split; [discriminate|]. intros [g' [[Eg | Hin] Hn]]; [subst; contradiction|].
          assert (X : @Err (list bool) = Err) by reflexivity.
          destruct IH as [_ IH2]. assert (C : Ok bs = @Err (list bool)) by (apply IH2; exists g'; auto).
          discriminate.
        * split; [|reflexivity]. intros _. destruct IH as [IH1 _].
          destruct (IH1 eq_refl) as [g' [Hin Hn]]. exists g'; auto.
      + split; [|reflexivity]. intros _. exists g. split; [auto|]. apply reached1_err. exact E1.
  Qed.

  Lemma is_reached_err G s : is_reached G s = Err <-> exists g, List.In g G /\ ~ admissible g s.
  Proof.
    rewrite <- reached_list_err. unfold Goal.is_reached.
    destruct (reached_list G s); split; intro H; try discriminate; reflexivity.
  Qed.

  (* a point-mass state (velocity, velocity_y stored, no stored orientation) against one goal state that
     constrains all four attributes: the heading tested is atan2(vy, vx), the speed hypot(vx, vy) *)
  Lemma pm_state_iff T S O V t p vx vy : WF O -> hi O - lo O < tau ->
    (is_reached [ {| g_time := Some T; g_pos := Some S; g_orient := Some O; g_vel := Some V |} ]
                {| s_time := Some t; s_pos := Some p; s_orient := None; s_vel := Some vx; s_vely := Some vy |}
     = Ok true)
    <-> (IIn T t /\ inside S p = true /\ AIn tau O (atan2 vy vx) /\ IIn V (hypot vx vy)).
  Proof.
    intros W L.
    set (g := {| g_time := Some T; g_pos := Some S; g_orient := Some O; g_vel := Some V |}).
    set (s := {| s_time := Some t; s_pos := Some p; s_orient := None; s_vel := Some vx; s_vely := Some vy |}).
    destruct (is_reached_spec [g] s) as [b [E H]].
    - constructor; [|constructor]. intros I EI. inversion EI; subst. auto.
    - intros g' [Eg|[]]. subst g'. repeat split; intros _; reflexivity.
    - rewrite E. split.
      + intro Eb. inversion Eb; subst b. destruct (proj1 H eq_refl) as [g' [[Eg|[]] Hs]]. subst g'.
        destruct Hs as ((t' & Et & Ht) & (p' & Ep & Hp) & (o' & Eo & Ho) & (v' & Ev & Hv)).
        simpl in *. inversion Et; inversion Ep; inversion Eo; inversion Ev; subst. auto.
      + intros (Ht & Hp & Ho & Hv). f_equal. apply H. exists g. split; [left; reflexivity|].
        repeat split; simpl; eexists; (split; [reflexivity|]); assumption.
  Qed.

  (* ---- goal_reached ---- *)
  Lemma goal_reached_snoc G l s :
    goal_reached G (l ++ [s]) =
    match is_reached G s with
    | Err => Err
    | Ok true => Ok (true, Z.of_nat (List.length l))
    | Ok false => goal_reached G l
    end.
  Proof.
    unfold Goal.goal_reached. rewrite rev_unit, app_length. simpl.
    replace (Z.of_nat (List.length l + 1) - 1)%Z with (Z.of_nat (List.length l)) by lia.
    destruct (is_reached G s) as [[|]|]; reflexivity.
  Qed.

  Lemma goal_reached_spec G states : (forall s, List.In s states -> is_reached G s <> Err) ->
    exists b j, goal_reached G states = Ok (b, j) /\
      (b = true -> (0 <= j)%Z /\ exists s, nth_error states (Z.to_nat j) = Some s /\ is_reached G s = Ok true) /\
      (b = false -> j = (-1)%Z /\ forall s, List.In s states -> is_reached G s = Ok false).
  Proof.
    induction states as [|s l IH] using rev_ind; intro Hne.
    - exists false, (-1)%Z. split; [reflexivity|]. split; [discriminate|]. intros _. split; [reflexivity|]. intros s [].
    - rewrite goal_reached_snoc.
      assert (Hs : is_reached G s <> Err) by (apply Hne; apply in_or_app; right; left; reflexivity).
      destruct (is_reached G s) as [[|]|] eqn:E; [| |congruence].
      + exists true, (Z.of_nat (List.length l)). split; [reflexivity|]. split; [|discriminate].
        intros _. split; [lia|]. exists s. rewrite Nat2Z.id. split; [|exact E].
        rewrite nth_error_app2 by lia. rewrite Nat.sub_diag. reflexivity.
      + destruct IH as [b [j [Eg [Ht Hf]]]].
        { intros s' Hin. apply Hne. apply in_or_app; left; exact Hin. }
        exists b, j. split; [exact Eg|]. split.
        * intro Hb. destruct (Ht Hb) as [Hj [s' [Hn Hr]]]. split; [exact Hj|]. exists s'. split; [|exact Hr].
          rewrite nth_error_app1; [exact Hn|]. apply nth_error_Some. congruence.
        * intro Hb. destruct (Hf Hb) as [Hj Hall]. split; [exact Hj|].
          intros s' Hin. apply in_app_or in Hin. destruct Hin as [Hin | [Es | []]]; [auto | subst; exact E].
  Qed.

  Lemma goal_reached_iff G states : (forall s, List.In s states -> is_reached G s <> Err) ->
    exists b j, goal_reached G states = Ok (b, j) /\
      (b = true <-> exists s, List.In s states /\ is_reached G s = Ok true).
  Proof.
    intro Hne. destruct (goal_reached_spec G states Hne) as [b [j [E [Ht Hf]]]].
    exists b, j. split; [exact E|]. split.
    - intro Hb. destruct (Ht Hb) as [_ [s [Hn Hr]]]. exists s. split; [|exact Hr]. eapply nth_error_In; eauto.
    - intros [s [Hin Hr]]. destruct b; [reflexivity|]. destruct (Hf eq_refl) as [_ Hall].
      rewrite (Hall s Hin) in Hr. discriminate.
  Qed.
  Lemma is_reached_total G s : Forall wf_goal G -> (forall g, List.In g G -> admissible g s) ->
    is_reached G s <> Err.
  Proof. intros W A. destruct (is_reached_spec G s W A) as [b [E _]]. rewrite E. discriminate. Qed.

  (* goal_reached on a trajectory all of whose states are admissible: never the error value; (true, j) with
     state j reaching the goal iff some state satisfies some goal state; otherwise (false, -1) *)
  Lemma goal_reached_adm G states : Forall wf_goal G ->
    (forall s g, List.In s states -> List.In g G -> admissible g s) ->
    exists b j, goal_reached G states = Ok (b, j) /\
      (b = true <-> exists s g, List.In s states /\ List.In g G /\ sat g s) /\
      (b = true -> (0 <= j)%Z /\ exists s g, nth_error states (Z.to_nat j) = Some s /\ List.In g G /\ sat g s) /\
      (b = false -> j = (-1)%Z).
  Proof.
    intros W A.
    assert (Hne : forall s, List.In s states -> is_reached G s <> Err).
    { intros s Hs. apply is_reached_total; [exact W | intros g Hg; apply A; assumption]. }
    assert (Hsat : forall s, List.In s states -> (is_reached G s = Ok true <-> exists g, List.In g G /\ sat g s)).
    { intros s Hs. destruct (is_reached_spec G s W (fun g Hg => A s g Hs Hg)) as [b [E H]]. rewrite E.
      rewrite <- H. split; intro X; [inversion X; reflexivity | subst; reflexivity]. }
    destruct (goal_reached_spec G states Hne) as [b [j [E [Ht Hf]]]].
    exists b, j. split; [exact E|]. split; [|split].
    - split.
      + intro Hb. destruct (Ht Hb) as [_ [s [Hn Hr]]]. assert (Hin := nth_error_In _ _ Hn).
        destruct (proj1 (Hsat s Hin) Hr) as [g [Hg Hs]]. exists s, g. auto.
      + intros [s [g [Hs [Hg Hsg]]]]. destruct b; [reflexivity|]. destruct (Hf eq_refl) as [_ Hall].
        assert (X : is_reached G s = Ok true) by (apply Hsat; [exact Hs | exists g; auto]).
        rewrite (Hall s Hs) in X. discriminate.
    - intro Hb. destruct (Ht Hb) as [Hj [s [Hn Hr]]]. split; [exact Hj|].
      destruct (proj1 (Hsat s (nth_error_In _ _ Hn)) Hr) as [g [Hg Hs]]. exists s, g. auto.
    - intro Hb. apply (Hf Hb).
  Qed.
End GoalProofs.
