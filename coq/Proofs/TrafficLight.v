(* Proofs/TrafficLight.v — lemmas about Model/TrafficLight.v (C17). *)
From Coq Require Import ZArith List Bool Lia.
From CR Require Import Model.TrafficLight.
Import ListNotations.
Open Scope Z_scope.

Definition all_pos (ds : list Z) : Prop := Forall (fun d => 0 < d) ds.

Lemma sum_nonneg ds : all_pos ds -> 0 <= sum ds.
Proof. induction 1; simpl; lia. Qed.

Lemma sum_pos ds : all_pos ds -> ds <> [] -> 0 < sum ds.
Proof. intros H N. destruct H; [congruence|]. simpl. pose proof (sum_nonneg l H0). lia. Qed.

Lemma last_indep (l : list Z) a b : l <> [] -> last l a = last l b.
Proof.
  induction l as [|x l IHl]; intro Hn; [congruence|]. destruct l as [|y l]; [reflexivity|].
  change (last (x :: y :: l) a) with (last (y :: l) a).
  change (last (x :: y :: l) b) with (last (y :: l) b). apply IHl. discriminate.
Qed.

Lemma last_cumsum ds : forall acc, last (cumsum_from acc ds) acc = acc + sum ds.
Proof.
  induction ds as [|d r IH]; intro acc; [simpl; lia|].
  change (cumsum_from acc (d :: r)) with ((acc + d) :: cumsum_from (acc + d) r).
  change (sum (d :: r)) with (d + sum r).
  destruct r as [|d2 r2].
  - simpl. lia.
  - specialize (IH (acc + d)).
    change (cumsum_from (acc + d) (d2 :: r2)) with ((acc + d + d2) :: cumsum_from (acc + d + d2) r2) in *.
    change (last ((acc + d) :: (acc + d + d2) :: cumsum_from (acc + d + d2) r2) acc)
      with (last ((acc + d + d2) :: cumsum_from (acc + d + d2) r2) acc).
    rewrite (last_indep _ acc (acc + d)); [|discriminate]. rewrite IH. lia.
Qed.

Lemma last_map_shift (l : list Z) o d : last (map (fun s => s + o) l) (d + o) = last l d + o.
Proof.
  induction l as [|x l IH]; [reflexivity|]. destruct l; [reflexivity|].
  change (last (map (fun s => s + o) (x :: z :: l)) (d + o)) with (last (map (fun s => s + o) (z :: l)) (d + o)).
  rewrite IH. reflexivity.
Qed.

Lemma last_step_total o ds : last_step o ds = o + sum ds.
Proof.
  unfold last_step, init_steps.
  destruct (cumsum_from 0 ds) as [|z l] eqn:E.
  - destruct ds; simpl in E; [simpl; lia|discriminate].
  - change (last (o :: map (fun s => s + o) (z :: l)) o) with (last (map (fun s => s + o) (z :: l)) o).
    pose proof (last_map_shift (z :: l) o 0) as H. simpl (0 + o) in H. rewrite H, <- E, last_cumsum. lia.
Qed.

(* the first cumulative sum exceeding r is the window found by the linear scan *)
Lemma first_true_window ds : forall acc r, acc <= r -> r < acc + sum ds ->
  first_true (map (fun c => r <? c) (cumsum_from acc ds)) = Some (find_window (r - acc) ds).
Proof.
  induction ds as [|d rest IH]; intros acc r H1 H2; simpl in *; [lia|].
  destruct (r <? acc + d) eqn:E.
  - assert (E2 : r - acc <? d = true) by (apply Z.ltb_lt; apply Z.ltb_lt in E; lia). rewrite E2. reflexivity.
  - assert (E2 : r - acc <? d = false) by (apply Z.ltb_ge; apply Z.ltb_ge in E; lia). rewrite E2.
    apply Z.ltb_ge in E. rewrite (IH (acc + d) r); [|lia|lia]. replace (r - (acc + d)) with (r - acc - d) by lia.
    reflexivity.
Qed.

Lemma find_window_lt ds : forall r, 0 <= r < sum ds -> (find_window r ds < length ds)%nat.
Proof.
  induction ds as [|d rest IH]; intros r H; simpl in *; [lia|].
  destruct (r <? d) eqn:E; [lia|]. apply Z.ltb_ge in E. specialize (IH (r - d)). lia.
Qed.

(* the window inequalities: prefix i <= r < prefix i + d_i, and they determine i uniquely *)
Lemma find_window_bounds ds : all_pos ds -> forall r, 0 <= r < sum ds ->
  let i := find_window r ds in
  prefix i ds <= r < prefix i ds + nth i ds 0.
Proof.
  induction 1 as [|d rest Hd Hall IH]; intros r H; simpl in *; [lia|].
  destruct (r <? d) eqn:E.
  - apply Z.ltb_lt in E. unfold prefix; simpl. lia.
  - apply Z.ltb_ge in E. specialize (IH (r - d) ltac:(lia)). unfold prefix in *; simpl. lia.
Qed.

Lemma window_unique ds : all_pos ds -> forall r i, (i < length ds)%nat ->
  prefix i ds <= r < prefix i ds + nth i ds 0 -> find_window r ds = i.
Proof.
  induction 1 as [|d rest Hd Hall IH]; intros r i Hi H; simpl in *; [lia|].
  destruct i as [|i].
  - unfold prefix in H; simpl in H. assert (E : r <? d = true) by (apply Z.ltb_lt; lia). rewrite E. reflexivity.
  - unfold prefix in H; simpl in H.
    assert (0 <= sum (firstn i rest)).
    { apply sum_nonneg. unfold all_pos. apply Forall_forall. intros x Hx.
      eapply Forall_forall in Hall; [exact Hall|]. eapply firstn_incl || idtac. exact (In_firstn_In _ _ _ Hx) || idtac.
      revert Hx. clear. revert i. induction rest; intros [|i]; simpl; try tauto. intros [->|H]; auto. right. eapply IHrest. exact H. }
    assert (E : r <? d = false) by (apply Z.ltb_ge; lia). rewrite E. f_equal.
    apply IH; [lia|]. unfold prefix. lia.
Qed.

Lemma nth_error_map_colour els i : (i < length els)%nat ->
  option_map colour (nth_error els i) = Some (colour (nth i els {| colour := 0; duration := 0 |})).
Proof.
  revert i. induction els as [|e r IH]; intros [|i] H; simpl in *; try lia; [reflexivity|]. apply IH. lia.
Qed.

(* main lemma: the coded computation returns the colour of the window containing (t - o) mod D *)
Lemma state_at_spec els o t : els <> [] -> all_pos (map duration els) ->
  let ds := map duration els in
  let D := sum ds in
  let r := (t - o) mod D in
  0 <= r < D /\
  state_at els o t = Some (colour (nth (find_window r ds) els {| colour := 0; duration := 0 |})).
Proof.
  intros Hne Hpos ds D r.
  assert (HD : 0 < D).
  { apply sum_pos; [exact Hpos|]. unfold ds. destruct els; [congruence|discriminate]. }
  assert (Hr : 0 <= r < D) by (apply Z.mod_pos_bound; exact HD).
  split; [exact Hr|].
  unfold state_at. fold ds. rewrite last_step_total. replace (o + sum ds - o) with D by (unfold D; lia).
  assert (E0 : D =? 0 = false) by (apply Z.eqb_neq; lia). rewrite E0. fold r.
  unfold init_steps. simpl map.
  assert (E1 : r + o <? o = false) by (apply Z.ltb_ge; lia). rewrite E1.
  unfold argmax. simpl first_true.
  rewrite map_map.
  assert (Em : map (fun x => r + o <? x + o) (cumsum_from 0 ds) = map (fun c => r <? c) (cumsum_from 0 ds)).
  { apply map_ext. intro x. destruct (r <? x) eqn:A.
    - apply Z.ltb_lt. apply Z.ltb_lt in A. lia.
    - apply Z.ltb_ge. apply Z.ltb_ge in A. lia. }
  rewrite Em, (first_true_window ds 0 r); [|lia|unfold D in Hr; lia].
  replace (r - 0) with r by lia.
  set (i := find_window r ds).
  assert (Hi : (i < length els)%nat).
  { unfold i. pose proof (find_window_lt ds r Hr) as H. unfold ds in H at 2. rewrite map_length in H. exact H. }
  replace (Z.of_nat (S i) - 1) with (Z.of_nat i) by lia.
  unfold pyindex.
  assert (E2 : (0 <=? Z.of_nat i) && (Z.of_nat i <? Z.of_nat (length els)) = true).
  { apply andb_true_iff. split; [apply Z.leb_le; lia|apply Z.ltb_lt; lia]. }
  rewrite E2, Nat2Z.id. apply nth_error_map_colour. exact Hi.
Qed.

Lemma state_at_periodic els o t k : els <> [] -> all_pos (map duration els) ->
  state_at els o (t + k * sum (map duration els)) = state_at els o t.
Proof.
  intros Hne Hpos.
  destruct (state_at_spec els o t Hne Hpos) as [_ E1].
  destruct (state_at_spec els o (t + k * sum (map duration els)) Hne Hpos) as [_ E2].
  rewrite E1, E2.
  replace (t + k * sum (map duration els) - o) with (t - o + k * sum (map duration els)) by lia.
  rewrite Z_mod_plus_full. reflexivity.
Qed.

Definition dflt := {| colour := 0; duration := 0 |}.

Lemma state_at_window els o t : els <> [] -> all_pos (map duration els) ->
  let ds := map duration els in
  let r := (t - o) mod (sum ds) in
  exists i : nat, (i < length els)%nat /\ prefix i ds <= r < prefix i ds + nth i ds 0 /\
                  state_at els o t = Some (colour (nth i els dflt)).
Proof.
  intros Hne Hpos ds r. destruct (state_at_spec els o t Hne Hpos) as [Hr E].
  exists (find_window r ds). split; [|split].
  - pose proof (find_window_lt ds r Hr) as H. unfold ds in H at 2. rewrite map_length in H. exact H.
  - apply find_window_bounds; assumption.
  - exact E.
Qed.

Lemma window_iff ds : all_pos ds -> forall r i, 0 <= r < sum ds -> (i < length ds)%nat ->
  (find_window r ds = i <-> prefix i ds <= r < prefix i ds + nth i ds 0).
Proof.
  intros Hpos r i Hr Hi. split.
  - intro E. subst i. apply find_window_bounds; assumption.
  - apply window_unique; assumption.
Qed.

Lemma light_agrees els o t : light_state_at els o t = state_at els o t.
Proof. reflexivity. Qed.
