(* Proofs/SrcIdRemove.v — the removal methods of Scenario as parsed on every run (Gen/Src_idremove.v), run by the
   interpreter of Model/IdRemoveSrc.v, compute exec o of Model/IdPool.v for every removal operation and Replace, on every
   state.  Proved on the parsed programs themselves. *)
From Coq Require Import ZArith List Bool.
Import ListNotations.
From CR Require Import Base.G2Fold Model.IdPool Proofs.IdPool Model.IdRemoveSrc Gen.Src_idremove.
Open Scope Z_scope.

Lemma seq_ret_r (a : M) s : (a ;; ret) s = a s.
Proof. unfold seq, ret. destruct (a s) as [s1 [e|]]; reflexivity. Qed.
Lemma seq_ext (a a' b b' : M) s : a s = a' s -> (forall s1, b s1 = b' s1) -> (a ;; b) s = (a' ;; b') s.
Proof. intros Ha Hb. unfold seq. rewrite Ha. destruct (a' s) as [s1 [e|]]; [reflexivity|apply Hb]. Qed.
Lemma loop_ext {A} (f g : A -> M) : (forall a s, f a s = g a s) -> forall l s, loop f l s = loop g l s.
Proof.
  intros H l. induction l as [|a r IH]; intro s; cbn [loop]; [reflexivity|].
  apply seq_ext; [apply H|exact IH].
Qed.
Lemma loop_map {A B} (h : A -> B) (f : B -> M) : forall l s, loop f (map h l) s = loop (fun a => f (h a)) l s.
Proof.
  induction l as [|a r IH]; intro s; cbn [loop map]; [reflexivity|].
  apply seq_ext; [reflexivity|exact IH].
Qed.

Ltac mclose :=
  repeat first [ reflexivity | apply seq_ret_r | progress (change (ret ;; ?a) with a)
               | (apply seq_ext; [reflexivity|intro]) ].

(* ---- single elements *)
Lemma src_sign_single z s : run_single (rs_sign src_removal) z [] s = remove_sign z s.
Proof.
  unfold run_single, remove_sign. cbn [rs_sign src_removal rm_body rstmts_run rstmt_run net_remove].
  apply seq_ext; [reflexivity|]. intro s1. apply seq_ret_r.
Qed.
Lemma src_light_single z s : run_single (rs_light src_removal) z [] s = remove_light z s.
Proof.
  unfold run_single, remove_light. cbn [rs_light src_removal rm_body rstmts_run rstmt_run net_remove].
  apply seq_ext; [reflexivity|]. intro s1. apply seq_ret_r.
Qed.
Lemma src_inter_single x s : run_single (rs_inter src_removal) (x_id x) (x_incs x) s = remove_inter x s.
Proof.
  unfold run_single, remove_inter. cbn [rs_inter src_removal rm_body rstmts_run rstmt_run net_remove].
  apply seq_ext; [reflexivity|]. intro s1. apply seq_ext; [reflexivity|]. intro s2. apply seq_ret_r.
Qed.
Lemma src_obstacle_single z s : run_obstacle (rs_obstacle src_removal) z s = remove_obstacle z s.
Proof.
  unfold run_obstacle, remove_obstacle.
  cbn [rs_obstacle src_removal om_branches run_branches obst rstmts_run rstmt_run].
  destruct (mem z (statics s)); [|destruct (mem z (dynamics s)); [|destruct (mem z (envs s)); [|destruct (mem z (phantoms s))]]];
    try reflexivity; mclose.
Qed.

(* ---- lists *)
Lemma src_sign_list l s : run_list (rs_sign src_removal) (map (fun z => (z, [])) l) s = loop remove_sign l s.
Proof.
  unfold run_list. cbn [rs_sign src_removal rm_list]. rewrite loop_map. apply loop_ext. intros z s1. cbn [fst snd].
  first [apply src_sign_single | exact (src_sign_single z s1)].
Qed.
Lemma src_light_list l s : run_list (rs_light src_removal) (map (fun z => (z, [])) l) s = loop remove_light l s.
Proof.
  unfold run_list. cbn [rs_light src_removal rm_list]. rewrite loop_map. apply loop_ext. intros z s1. cbn [fst snd].
  first [apply src_light_single | exact (src_light_single z s1)].
Qed.
Lemma src_inter_list l s : run_list (rs_inter src_removal) (map inter_view l) s = loop remove_inter l s.
Proof.
  unfold run_list. cbn [rs_inter src_removal rm_list]. rewrite loop_map. apply loop_ext. intros x s1.
  unfold inter_view. cbn [fst snd]. first [apply src_inter_single | exact (src_inter_single x s1)].
Qed.
Lemma src_obstacle_list l s : run_obstacles (rs_obstacle src_removal) l s = loop remove_obstacle l s.
Proof.
  unfold run_obstacles. cbn [rs_obstacle src_removal om_list]. apply loop_ext. intros z s1. apply src_obstacle_single.
Qed.

(* ---- remove_lanelet *)
Lemma src_lanelets ls refs s : run_lanelets (rs_lanelet src_removal) ls refs s = remove_lanelets ls refs s.
Proof.
  unfold run_lanelets, remove_lanelets. cbn [rs_lanelet src_removal lm_hanging_first lm_body]. rewrite andb_true_r.
  apply seq_ext; [reflexivity|]. intro s1. apply loop_ext. intros l s2.
  cbn [rstmts_run rstmt_run net_remove]. mclose.
Qed.
Lemma src_lanelet_default : lm_default_refs (rs_lanelet src_removal) = true.
Proof. reflexivity. Qed.

(* ---- erase_lanelet_network, replace_lanelet_network *)
Lemma src_erase s :
  eruns (rs_lanelet src_removal) (rs_sign src_removal) (rs_light src_removal) (rs_inter src_removal)
        (rs_erase src_removal) s = erase s.
Proof.
  unfold erase. cbn [rs_erase src_removal eruns].
  apply seq_ext.
  { unfold erun. rewrite src_lanelet_default. apply loop_ext. intros l s1. apply src_lanelets. }
  intro s1. apply seq_ext. { unfold erun. apply loop_ext. intros z s2. apply src_sign_single. }
  intro s2. apply seq_ext. { unfold erun. apply loop_ext. intros z s3. apply src_light_single. }
  intro s3. apply seq_ext. { unfold erun. apply loop_ext. intros x s4. apply src_inter_single. }
  intro s4. apply seq_ret_r.
Qed.
Lemma src_replace n s :
  pruns (rs_lanelet src_removal) (rs_sign src_removal) (rs_light src_removal) (rs_inter src_removal)
        (rs_erase src_removal) n (rs_replace src_removal) s = (erase ;; add_one (ANet n) []) s.
Proof.
  cbn [rs_replace src_removal pruns prun]. apply seq_ext; [apply src_erase|]. intro s1. apply seq_ret_r.
Qed.

(* ---- every operation *)
Theorem src_exec_is_model o s : src_exec src_removal o s = exec o s.
Proof.
  destruct o; cbn [src_exec exec]; try reflexivity.
  - apply src_obstacle_single.
  - apply src_obstacle_list.
  - apply src_lanelets.
  - apply src_lanelets.
  - apply src_sign_single.
  - apply src_sign_list.
  - apply src_light_single.
  - apply src_light_list.
  - apply src_inter_single.
  - apply src_inter_list.
  - apply src_replace.
Qed.
Theorem src_step_is_model s o : src_step src_removal s o = step s o.
Proof. destruct o; cbn [src_step step]; try reflexivity; rewrite src_exec_is_model; reflexivity. Qed.

(* ---- the invariant and the freeing of ids, restated on the parsed methods *)
Theorem src_step_inv s o : Inv s -> ok s o = true -> Inv (fst (src_step src_removal s o)).
Proof. intros H K. rewrite src_step_is_model. exact (step_inv s o H K). Qed.
Theorem src_reachable_inv ops : all_ok step ok ops init = true -> Inv (run (src_step src_removal) ops init).
Proof.
  intro H. replace (run (src_step src_removal) ops init) with (run step ops init); [exact (reachable_inv ops H)|].
  clear H. unfold run. generalize init. induction ops as [|o r IH]; intro s0; cbn [fold_left]; [reflexivity|].
  rewrite src_step_is_model. apply IH.
Qed.

