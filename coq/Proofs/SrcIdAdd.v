(* Proofs/SrcIdAdd.v — Scenario.add_objects and _lanelet_network_object_ids as parsed on every run (Gen/Src_idadd.v),
   run by the interpreter of Model/IdAddSrc.v, compute add_one and its list form of Model/IdPool.v on every argument and
   state; with Proofs/SrcIdRemove.v every operation of the model except Generate (Proofs/SrcIdPool.v) is executed by
   parsed methods.  Proved on the parsed program itself (branches in another order still prove). *)
From Coq Require Import ZArith List Bool.
Import ListNotations.
From CR Require Import Base.G2Fold Model.IdPool Proofs.IdPool Model.IdRemoveSrc Gen.Src_idremove Proofs.SrcIdRemove.
From CR Require Import Model.IdAddSrc Gen.Src_idadd.
Open Scope Z_scope.

Lemma src_net_ids n : nids_run (ad_net_ids src_add) n = net_ids n.
Proof.
  unfold nids_run, net_ids. cbn [ad_net_ids src_add flat_map nid_part]. rewrite ?app_nil_r, <- ?app_assoc. reflexivity.
Qed.

Lemma mark_one_network z s : network (fst (mark_one z s)) = network s.
Proof. unfold mark_one. destruct (counter s); cbn -[mem]; destruct (mem z (idset s)); reflexivity. Qed.
Lemma loop_mark_network ids : forall s, network (fst (loop mark_one ids s)) = network s.
Proof.
  induction ids as [|z r IH]; intro s; cbn [loop]; [reflexivity|]. unfold seq.
  pose proof (mark_one_network z s) as H. destruct (mark_one z s) as [s1 [e|]]; cbn [fst] in *; [exact H|].
  rewrite IH. exact H.
Qed.
Lemma mark_all_network ids s : network (fst (mark_all ids s)) = network s.
Proof. unfold mark_all. destruct (free_all ids s); [apply loop_mark_network|reflexivity]. Qed.

Lemma src_add_one a lids s : run_add src_add a lids s = add_one a lids s.
Proof.
  destruct a as [o|n].
  - destruct o as [l|z|z|x|r z]; [| | | |destruct r];
      unfold run_add; cbn [kind_of ad_branches src_add find fst snd akind_eqb];
      cbn [astmts_run astmt_run main_id add_one]; mclose.
  - (* the network: the ids released are those of the network held when the call starts *)
    unfold run_add; cbn [kind_of ad_branches src_add find fst snd akind_eqb];
      cbn [astmts_run astmt_run main_id add_one].
    pose proof src_net_ids as HN. unfold src_add in HN.
    pose proof (mark_all_network (net_ids n) s) as H.
    unfold seq. rewrite HN. destruct (mark_all (net_ids n) s) as [s1 [e|]]; [reflexivity|]. cbn [fst] in H.
    rewrite HN, H. destruct (loop id_discard (net_ids (network s)) s1) as [s2 [e|]]; reflexivity.
Qed.
Lemma src_add_list l lids s : run_add_list src_add l lids s = loop (fun a => add_one a lids) l s.
Proof.
  unfold run_add_list. cbn [ad_list_recursive src_add]. apply loop_ext. intros a s1. apply src_add_one.
Qed.

(* ---- every operation of the model *)
Theorem src_exec_all_is_model o s : src_exec_all src_removal src_add o s = exec o s.
Proof.
  destruct o; cbn [src_exec_all]; try apply src_exec_is_model.
  - apply src_add_one.
  - apply src_add_list.
Qed.
Definition src_step_all (s : st) (o : op) : st * res :=
  match o with
  | Generate => step s o
  | _ => match src_exec_all src_removal src_add o s with (s1, None) => (s1, RUnit) | (s1, Some e) => (s1, RErr e) end
  end.
Theorem src_step_all_is_model s o : src_step_all s o = step s o.
Proof. destruct o; cbn [src_step_all step]; try reflexivity; rewrite src_exec_all_is_model; reflexivity. Qed.
Theorem src_all_reachable_inv ops : all_ok step ok ops init = true -> Inv (run src_step_all ops init).
Proof.
  intro H. replace (run src_step_all ops init) with (run step ops init); [exact (reachable_inv ops H)|].
  clear H. unfold run. generalize init. induction ops as [|o r IH]; intro s0; cbn [fold_left]; [reflexivity|].
  rewrite src_step_all_is_model. apply IH.
Qed.
