(* Proofs/XsdCheck.v — C03: static conformance of a writer table with a schema type, together with the
   value-level condition "schema-expressible", implies that the XSD validator of Model/XsdCheck.v accepts
   the rendered output of the generic writer (structure, occurrence bounds, attributes, leaf texts).
   Part 1: leaf texts.  Part 2: greedy matching of counted blocks.  Part 3: records / alternatives / the
   mutual induction over the format. *)
From Coq Require Import QArith ZArith NArith String Ascii List Bool Lia Decimal DecimalString DecimalZ DecimalPos.
From CR Require Import Model.Codec Model.XsdCheck Proofs.Codec Proofs.Order.
Import ListNotations.
Open Scope string_scope.
Open Scope list_scope.

(* ================================================================== Part 1: leaf texts *)
Fixpoint no_ws (s : string) : bool :=
  match s with EmptyString => true | String c r => negb (is_ws c) && no_ws r end.

Lemma ltrim_id s : no_ws s = true -> ltrim s = s.
Proof. destruct s as [|c r]; simpl; [reflexivity|]. intro H. apply andb_prop in H. destruct H as [H _].
  destruct (is_ws c); [discriminate|reflexivity]. Qed.

Lemma rtrim_id s : no_ws s = true -> rtrim s = s.
Proof. induction s as [|c r IH]; simpl; [reflexivity|]. intro H. apply andb_prop in H. destruct H as [H1 H2].
  rewrite (IH H2). destruct (is_ws c); [discriminate|reflexivity]. Qed.

Lemma trim_id s : no_ws s = true -> trim s = s.
Proof. intro H. unfold trim. rewrite (ltrim_id _ H). apply rtrim_id. exact H. Qed.

Definition is_digit_char (c : ascii) : bool :=
  existsb (Ascii.eqb c) ["0"; "1"; "2"; "3"; "4"; "5"; "6"; "7"; "8"; "9"]%char.
Fixpoint digits_only (s : string) : bool :=
  match s with EmptyString => true | String c r => is_digit_char c && digits_only r end.

Lemma digit_not_ws c : is_digit_char c = true -> is_ws c = false.
Proof.
  unfold is_digit_char. simpl. intro H.
  repeat (apply orb_prop in H; destruct H as [H|H]; [apply Ascii.eqb_eq in H; subst; reflexivity|]).
  discriminate.
Qed.

Lemma digits_no_ws s : digits_only s = true -> no_ws s = true.
Proof. induction s as [|c r IH]; simpl; [reflexivity|]. intro H. apply andb_prop in H. destruct H as [H1 H2].
  rewrite (digit_not_ws _ H1), (IH H2). reflexivity. Qed.

Lemma uint_digits d : digits_only (NilEmpty.string_of_uint d) = true.
Proof. induction d; simpl; try reflexivity; exact IHd. Qed.

Lemma nz_uint_digits d : digits_only (NilZero.string_of_uint d) = true.
Proof. destruct d; try reflexivity; simpl; apply uint_digits. Qed.

Lemma Ztext_no_ws z : no_ws (Ztext z) = true.
Proof.
  unfold Ztext. destruct z as [|p|p]; simpl.
  - reflexivity.
  - apply digits_no_ws. apply nz_uint_digits.
  - apply digits_no_ws. apply nz_uint_digits.
Qed.

Lemma strip_plus_digits s : digits_only s = true -> strip_plus s = s.
Proof.
  destruct s as [|c r]; [reflexivity|]. simpl. intro H. apply andb_prop in H. destruct H as [H _].
  unfold is_digit_char in H. simpl in H.
  repeat (apply orb_prop in H; destruct H as [H|H]; [apply Ascii.eqb_eq in H; subst; reflexivity|]).
  discriminate.
Qed.

Lemma int_value_Ztext z : int_value (Ztext z) = Some z.
Proof.
  unfold int_value, Ztext.
  assert (Hs : strip_plus (NilZero.string_of_int (Z.to_int z)) = NilZero.string_of_int (Z.to_int z)).
  { destruct z as [|p|p]; simpl; try reflexivity. apply strip_plus_digits. apply nz_uint_digits. }
  rewrite Hs. rewrite NilZero.isi.
  - simpl. f_equal. apply DecimalZ.of_to.
  - destruct z as [|p|p]; simpl; try discriminate. intro H. inversion H as [H1]. revert H1. apply Unsigned.to_uint_nonnil.
  - destruct z as [|p|p]; simpl; try discriminate. intro H. inversion H as [H1]. revert H1. apply Unsigned.to_uint_nonnil.
Qed.

Lemma accepts_int st z :
  match st_prim st with PInteger | PNonNeg | PPos => true | _ => false end = true ->
  int_prim_ok (st_prim st) z && facets_ok st (inject_Z z) = true ->
  accepts st (Ztext z) = true.
Proof.
  intros Hp H. unfold accepts. rewrite (trim_id _ (Ztext_no_ws z)), int_value_Ztext.
  destruct (st_prim st); try discriminate; exact H.
Qed.

Lemma accepts_bool (st : stype) (b : bool) :
  match st_prim st with PBoolean => true | _ => false end = true ->
  accepts st (if b then "true" else "false") = true.
Proof. intro Hp. unfold accepts. destruct (st_prim st); try discriminate. destruct b; reflexivity. Qed.

(* ================================================================== Part 2: counted blocks vs content models *)
Definition expand (bs : list (string * nat)) : list string := flat_map (fun b => repeat (fst b) (snd b)) bs.

Lemma expand_app a b : expand (a ++ b) = expand a ++ expand b.
Proof. unfold expand. apply flat_map_app. Qed.

Lemma in_expand t bs : In t (expand bs) -> exists n, In (t, n) bs /\ (0 < n)%nat.
Proof.
  induction bs as [|[u n] bs IH]; simpl; [tauto|]. intro H. apply in_app_or in H. destruct H as [H|H].
  - apply repeat_spec in H as E. subst. exists n. split; [left; reflexivity|]. destruct n; [destruct H|lia].
  - destruct (IH H) as [m [Hm Hp]]. exists m. split; [right; exact Hm|exact Hp].
Qed.

Lemma span_in_app g xs ys :
  (forall t, In t xs -> in_group g t = true) -> (forall t, In t ys -> in_group g t = false) ->
  span_in g (xs ++ ys) = (List.length xs, ys).
Proof.
  induction xs as [|x xs IH]; intros Hx Hy; simpl.
  - destruct ys as [|y ys]; [reflexivity|]. simpl. rewrite (Hy y (or_introl eq_refl)). reflexivity.
  - rewrite (Hx x (or_introl eq_refl)). rewrite IH; [reflexivity| |exact Hy]. intros t Ht. apply Hx. right. exact Ht.
Qed.

(* split the blocks where the tags of later groups begin *)
Fixpoint btake (p : string -> bool) (bs : list (string * nat)) : list (string * nat) :=
  match bs with [] => [] | b :: r => if p (fst b) then [] else b :: btake p r end.
Fixpoint bdrop (p : string -> bool) (bs : list (string * nat)) : list (string * nat) :=
  match bs with [] => [] | b :: r => if p (fst b) then bs else bdrop p r end.

Lemma btake_bdrop p bs : bs = btake p bs ++ bdrop p bs.
Proof. induction bs as [|b r IH]; simpl; [reflexivity|]. destruct (p (fst b)); simpl; [reflexivity|f_equal; exact IH]. Qed.
Lemma btake_false p bs : forall b, In b (btake p bs) -> p (fst b) = false.
Proof. induction bs as [|b r IH]; simpl; [tauto|]. destruct (p (fst b)) eqn:E; simpl; [tauto|].
  intros c [H|H]; [subst; exact E|apply IH; exact H]. Qed.
Lemma bdrop_tags p bs : map fst (bdrop p bs) = drop_until p (map fst bs).
Proof. induction bs as [|b r IH]; simpl; [reflexivity|]. destruct (p (fst b)); [reflexivity|exact IH]. Qed.

Lemma count_in_app g a b : count_in g (a ++ b) = (count_in g a + count_in g b)%nat.
Proof. unfold count_in. induction a as [|x a IH]; simpl; [reflexivity|]. rewrite IH. destruct (in_group g (fst x)); lia. Qed.

Lemma count_in_none g bs : (forall b, In b bs -> in_group g (fst b) = false) -> count_in g bs = 0%nat.
Proof. unfold count_in. induction bs as [|x bs IH]; simpl; [reflexivity|]. intro H.
  rewrite (H x (or_introl eq_refl)). apply IH. intros b Hb. apply H. right. exact Hb. Qed.

Lemma count_in_all g bs : (forall b, In b bs -> snd b = 0%nat \/ in_group g (fst b) = true) ->
  count_in g bs = List.length (expand bs).
Proof.
  unfold count_in. induction bs as [|x bs IH]; simpl; [reflexivity|]. intro H.
  rewrite app_length, repeat_length. fold (count_in g bs) in *. 
  rewrite IH by (intros b Hb; apply H; right; exact Hb).
  destruct (H x (or_introl eq_refl)) as [E|E]; rewrite E; [destruct (in_group g (fst x)); lia|reflexivity].
Qed.

Lemma in_any_cons g gs t : in_any (g :: gs) t = in_group g t || in_any gs t.
Proof. reflexivity. Qed.

Lemma counts_fit_split gs bs : counts_fit gs bs = true ->
  (forall b, In b bs -> snd b = 0%nat \/ in_any gs (fst b) = true) /\
  (forall g, In g gs -> range_ok g (count_in g bs) = true).
Proof.
  unfold counts_fit. intro H. apply andb_prop in H. destruct H as [A B]. rewrite forallb_forall in A, B. split.
  - intros b Hb. specialize (A b Hb). apply orb_prop in A. destruct A as [A|A]; [left; apply Nat.eqb_eq; exact A|right; exact A].
  - exact B.
Qed.
Lemma counts_fit_join gs bs :
  (forall b, In b bs -> snd b = 0%nat \/ in_any gs (fst b) = true) ->
  (forall g, In g gs -> range_ok g (count_in g bs) = true) -> counts_fit gs bs = true.
Proof.
  intros A B. unfold counts_fit. apply andb_true_intro. split; apply forallb_forall.
  - intros b Hb. destruct (A b Hb) as [E|E]; [rewrite E; reflexivity|rewrite E; apply orb_true_r].
  - exact B.
Qed.

(* greedy matching succeeds on the children emitted in table order when the table order conforms and the
   counts fit: no backtracking is ever needed *)
Theorem seq_complete : forall gs bs, order_ok gs (map fst bs) = true -> counts_fit gs bs = true ->
  match_seq gs (expand bs) = true.
Proof.
  induction gs as [|g gs IH]; intros bs Ho Hc.
  - simpl. destruct (counts_fit_split _ _ Hc) as [A _].
    assert (E : expand bs = []).
    { destruct (expand bs) as [|t r] eqn:E; [reflexivity|].
      assert (Ht : In t (expand bs)) by (rewrite E; left; reflexivity).
      destruct (in_expand _ _ Ht) as [n [Hn Hp]]. destruct (A _ Hn) as [Z|Z]; simpl in Z; [lia|discriminate]. }
    rewrite E. reflexivity.
  - simpl in Ho. apply andb_prop in Ho. destruct Ho as [Ho1 Ho2].
    destruct (counts_fit_split _ _ Hc) as [A B].
    set (pre := btake (in_any gs) bs). set (rest := bdrop (in_any gs) bs).
    assert (Ebs : bs = pre ++ rest) by apply btake_bdrop.
    assert (Hrest : map fst rest = drop_until (in_any gs) (map fst bs)) by apply bdrop_tags.
    rewrite <- Hrest in Ho1, Ho2. rewrite forallb_forall in Ho1.
    assert (Rg : forall b, In b rest -> in_group g (fst b) = false).
    { intros b Hb. specialize (Ho1 (fst b) (in_map fst _ _ Hb)). apply negb_true_iff in Ho1. exact Ho1. }
    assert (Pg : forall b, In b pre -> snd b = 0%nat \/ in_group g (fst b) = true).
    { intros b Hb. assert (Hb' : In b bs) by (rewrite Ebs; apply in_or_app; left; exact Hb).
      destruct (A b Hb') as [Z|Z]; [left; exact Z|]. right. rewrite in_any_cons in Z.
      rewrite (btake_false _ _ b Hb) in Z. rewrite orb_false_r in Z. exact Z. }
    assert (Pl : forall g', In g' gs -> forall b, In b pre -> in_group g' (fst b) = false).
    { intros g' Hg' b Hb. pose proof (btake_false _ _ b Hb) as F. unfold in_any in F.
      destruct (in_group g' (fst b)) eqn:E; [|reflexivity].
      assert (X : existsb (fun g0 => in_group g0 (fst b)) gs = true) by (apply existsb_exists; exists g'; split; assumption).
      rewrite X in F. discriminate. }
    simpl. rewrite Ebs, expand_app.
    rewrite span_in_app.
    + apply andb_true_intro. split.
      * rewrite <- (count_in_all g pre Pg).
        assert (Ec : count_in g bs = count_in g pre).
        { rewrite Ebs at 1. rewrite count_in_app, (count_in_none g rest Rg). lia. }
        rewrite <- Ec. apply B. left. reflexivity.
      * apply IH; [exact Ho2|]. apply counts_fit_join.
        -- intros b Hb. assert (Hb' : In b bs) by (rewrite Ebs; apply in_or_app; right; exact Hb).
           destruct (A b Hb') as [Z|Z]; [left; exact Z|]. right. rewrite in_any_cons, (Rg b Hb) in Z. exact Z.
        -- intros g' Hg'. assert (Ec : count_in g' bs = count_in g' rest).
           { rewrite Ebs at 1. rewrite count_in_app, (count_in_none g' pre (Pl g' Hg')). lia. }
           rewrite <- Ec. apply B. right. exact Hg'.
    + intros t Ht. destruct (in_expand _ _ Ht) as [n [Hn Hp]]. destruct (Pg _ Hn) as [Z|Z]; simpl in Z; [lia|exact Z].
    + intros t Ht. destruct (in_expand _ _ Ht) as [n [Hn Hp]]. apply (Rg _ Hn).
Qed.

Lemma filter_repeat (p : string -> bool) t n :
  filter p (repeat t n) = if p t then repeat t n else [].
Proof. induction n as [|n IH]; simpl; [destruct (p t); reflexivity|]. rewrite IH. destruct (p t); reflexivity. Qed.

Lemma count_tags_expand g bs : count_tags g (expand bs) = count_in g bs.
Proof.
  unfold count_tags, count_in. induction bs as [|b bs IH]; simpl; [reflexivity|].
  rewrite filter_app, app_length, IH, filter_repeat. destruct (in_group g (fst b)); [rewrite repeat_length|]; reflexivity.
Qed.

Theorem all_complete gs bs : counts_fit gs bs = true -> match_all gs (expand bs) = true.
Proof.
  intro Hc. destruct (counts_fit_split _ _ Hc) as [A B]. unfold match_all. apply andb_true_intro. split; apply forallb_forall.
  - intros t Ht. destruct (in_expand _ _ Ht) as [n [Hn Hp]]. destruct (A _ Hn) as [Z|Z]; simpl in Z; [lia|exact Z].
  - intros g Hg. rewrite count_tags_expand. apply B. exact Hg.
Qed.

(* a tag that belongs to a group of the content model has a type *)
Lemma in_group_elem_type g t : in_group g t = true -> exists ty, elem_type t (g_elems g) = Some ty.
Proof.
  unfold in_group. induction (g_elems g) as [|[u ty] es IH]; simpl; [discriminate|]. intro H.
  destruct (String.eqb u t); [eexists; reflexivity|]. simpl in H. apply IH. exact H.
Qed.
Lemma in_any_groups_type gs t : in_any gs t = true -> exists ty, groups_type t gs = Some ty.
Proof.
  induction gs as [|g gs IH]; simpl; [discriminate|]. intro H. apply orb_prop in H.
  destruct (elem_type t (g_elems g)) as [ty|] eqn:E; [eexists; reflexivity|].
  destruct H as [H|H]; [destruct (in_group_elem_type _ _ H) as [ty E']; congruence|apply IH; exact H].
Qed.
Lemma in_any_alts_type alts gs t : In gs alts -> in_any gs t = true -> exists ty, alts_type t alts = Some ty.
Proof.
  induction alts as [|a alts IH]; simpl; [tauto|]. intros Hin H.
  destruct (groups_type t a) as [ty|] eqn:E; [eexists; reflexivity|].
  destruct Hin as [Hin|Hin]; [subst; destruct (in_any_groups_type _ _ H) as [ty E']; congruence|apply IH; assumption].
Qed.

(* the content model accepts the expanded blocks; every contributing tag has a child type *)
Theorem content_complete c bs : order_conform c (map fst bs) = true -> counts_ok c bs = true ->
  content_ok c (expand bs) = true /\ (forall t, In t (expand bs) -> exists ty, child_type c t = Some ty).
Proof.
  destruct c as [alts|gs|sn]; simpl; intros Ho Hc; [| |discriminate].
  - apply existsb_exists in Hc. destruct Hc as [gs [Hin Hc]]. rewrite forallb_forall in Ho. split.
    + apply existsb_exists. exists gs. split; [exact Hin|]. apply seq_complete; [apply Ho; exact Hin|exact Hc].
    + intros t Ht. destruct (in_expand _ _ Ht) as [n [Hn Hp]]. destruct (counts_fit_split _ _ Hc) as [A _].
      destruct (A _ Hn) as [Z|Z]; simpl in Z; [lia|]. eapply in_any_alts_type; eassumption.
  - split; [apply all_complete; exact Hc|].
    intros t Ht. destruct (in_expand _ _ Ht) as [n [Hn Hp]]. destruct (counts_fit_split _ _ Hc) as [A _].
    destruct (A _ Hn) as [Z|Z]; simpl in Z; [lia|]. apply in_any_groups_type. exact Z.
Qed.

(* ================================================================== Part 3: the writer's output is accepted *)
Lemma mapM_inv {A B} (f : A -> option B) : forall l g, mapM f l = Some g ->
  List.length g = List.length l /\ (forall k, In k g -> exists x, In x l /\ f x = Some k).
Proof.
  induction l as [|a l IH]; intros g H; simpl in H.
  - inversion H; subst. split; [reflexivity|intros k []].
  - destruct (f a) as [y|] eqn:Ey; [|discriminate]. destruct (mapM f l) as [ys|] eqn:El; [|discriminate].
    inversion H; subst. destruct (IH ys eq_refl) as [L I]. split; [simpl; f_equal; exact L|].
    intros k [Hk|Hk]; [subst; exists a; split; [left; reflexivity|exact Ey]|].
    destruct (I k Hk) as [x [Hx Fx]]. exists x. split; [right; exact Hx|exact Fx].
Qed.

(* which values a field writes *)
Definition field_val (m : mult) (v v' : val) : Prop :=
  match m, v with
  | MReq, _ => v' = v
  | MOpt, VSome x => v' = x
  | MMany, VList l => In v' l
  | _, _ => False
  end.

Lemma write_fields_cons t m f rest v vs ks : write_fields (FCons t m f rest) (v :: vs) = Some ks ->
  exists g ks', ks = g ++ ks' /\ write_fields rest vs = Some ks' /\ List.length g = count_of m v /\
                (forall k, In k g -> exists v', write f t v' = Some k /\ field_val m v v').
Proof.
  simpl. intro H. destruct m.
  - destruct (write f t v) as [x|] eqn:Ex; [|discriminate].
    destruct (write_fields rest vs) as [ks'|] eqn:Er; [|discriminate]. injection H as Hk.
    exists [x], ks'. repeat split; auto. intros k [Hk'|[]]. subst k. exists v. split; [exact Ex|reflexivity].
  - destruct v; try discriminate.
    + destruct (write_fields rest vs) as [ks'|] eqn:Er; [|discriminate]. injection H as Hk.
      exists [], ks'. repeat split; auto. intros k [].
    + destruct (write f t v) as [x|] eqn:Ex; [|discriminate].
      destruct (write_fields rest vs) as [ks'|] eqn:Er; [|discriminate]. injection H as Hk.
      exists [x], ks'. repeat split; auto. intros k [Hk'|[]]. subst k. exists v. split; [exact Ex|reflexivity].
  - destruct v; try discriminate.
    destruct (mapM (write f t) vs0) as [g|] eqn:Eg; [|discriminate].
    destruct (write_fields rest vs) as [ks'|] eqn:Er; [|discriminate]. injection H as Hk.
    destruct (mapM_inv _ _ _ Eg) as [L I].
    exists g, ks'. repeat split; auto. intros k Hk'. destruct (I k Hk') as [x [Hx Fx]]. exists x. split; [exact Fx|exact Hx].
Qed.

Lemma write_fields_nil_vs t m f rest ks : write_fields (FCons t m f rest) [] = Some ks -> False.
Proof. simpl. discriminate. Qed.

Section Main.
Variable sch : schema.
Variable numtext : Q -> string.
(* the number printer: plain decimal notation, and a positive number is not printed as zero *)
Hypothesis Hnum : forall q, exists r, dec_value (trim (numtext q)) = Some r /\ (0 < q -> 0 < r)%Q.

Notation render := (render numtext).
Notation atom_text := (atom_text numtext).
Notation attr_pairs := (attr_pairs numtext).

Lemma leaf_accepts k st a : leaf_ok k st = true -> kind_ok k a = true -> leaf_expr st a = true ->
  accepts st (atom_text a) = true.
Proof.
  intros Hk Hka He. destruct k, a; simpl in Hka; try discriminate; simpl in *.
  - (* number *)
    destruct st as [p en mex mn mx]; simpl in *.
    destruct p; try discriminate. simpl in Hk.
    destruct en; [discriminate|]. destruct mn; [discriminate|]. destruct mx; [discriminate|]. simpl in Hk.
    unfold accepts; simpl. destruct (Hnum q) as [r [E P]]. rewrite E.
    unfold facets_ok; simpl. rewrite !andb_true_r. destruct mex as [m|]; [|reflexivity]. simpl in *.
    apply Qeq_bool_iff in Hk. apply negb_true_iff in He.
    assert (Hq : (0 < q)%Q). { destruct (Qlt_le_dec 0 q) as [L|L]; [exact L|]. apply Qle_bool_iff in L. congruence. }
    specialize (P Hq). apply andb_true_intro. split.
    + apply Qle_bool_iff. rewrite Hk. apply Qlt_le_weak. exact P.
    + apply negb_true_iff. destruct (Qeq_bool m r) eqn:Eq; [|reflexivity]. apply Qeq_bool_iff in Eq.
      rewrite <- Eq, Hk in P. exfalso. apply (Qlt_irrefl 0). exact P.
  - (* integer *) apply accepts_int; assumption.
  - (* string *) exact He.
  - (* boolean *) apply accepts_bool. exact Hk.
Qed.

Definition rkids (ks : list tree) : list xtree := map render (filter (fun k => negb (is_attr_leaf k)) ks).

Lemma render_node g ks : render (Node g ks) = XE g (attr_pairs ks) (rkids ks) EmptyString.
Proof.
  simpl. f_equal. unfold rkids. induction ks as [|k r IH]; [reflexivity|].
  simpl. destruct (is_attr_leaf k); simpl; [exact IH|f_equal; exact IH].
Qed.

Lemma xtag_render k : xtag (render k) = tag_of k.
Proof. destruct k; reflexivity. Qed.

Lemma rkids_app a b : rkids (a ++ b) = rkids a ++ rkids b.
Proof. unfold rkids. rewrite filter_app, map_app. reflexivity. Qed.
Lemma attr_pairs_app a b : attr_pairs (a ++ b) = attr_pairs a ++ attr_pairs b.
Proof. induction a as [|k a IH]; [reflexivity|]. simpl. destruct k as [g ks|g x]; [exact IH|].
  destruct (is_attr_tag g); simpl; [f_equal|]; exact IH. Qed.

Lemma attr_leaf_tag k : is_attr_leaf k = true -> is_attr_tag (tag_of k) = true.
Proof. destruct k; simpl; [discriminate|tauto]. Qed.

Lemma write_leaf k t v x : write (FLeaf k) t v = Some x -> exists a, v = VAtom a /\ x = Leaf t a /\ kind_ok k a = true.
Proof. simpl. destruct v; try discriminate. destruct (kind_ok k a) eqn:E; [|discriminate]. intro H. inversion H. eauto. Qed.

(* ---- shape of the children of a written record *)
Lemma fields_shape decl : forall fs vs ks, attr_fields_ok sch decl fs = true -> write_fields fs vs = Some ks ->
  map xtag (rkids ks) = expand (blocks fs vs) /\ (forall k, In k ks -> is_attr_leaf k = is_attr_tag (tag_of k)).
Proof.
  induction fs as [|t m f rest IH]; intros vs ks Ha Hw.
  - simpl in Hw. destruct vs; [|discriminate]. inversion Hw; subst. split; [reflexivity|intros k []].
  - destruct vs as [|v vs]; [destruct (write_fields_nil_vs _ _ _ _ _ Hw)|].
    destruct (write_fields_cons _ _ _ _ _ _ _ Hw) as [g [ks' [E [Hr [L I]]]]]. subst ks.
    simpl in Ha. apply andb_prop in Ha. destruct Ha as [Ha1 Ha2].
    destruct (IH vs ks' Ha2 Hr) as [T C]. rewrite rkids_app, map_app, T. simpl.
    assert (Tg : forall k, In k g -> tag_of k = t).
    { intros k Hk. destruct (I k Hk) as [v' [W _]]. eapply write_tag. exact W. }
    destruct (is_attr_tag t) eqn:At.
    + (* attribute field: its children are leaves, none is an element *)
      assert (Lf : forall k, In k g -> is_attr_leaf k = true).
      { intros k Hk. destruct (I k Hk) as [v' [W _]]. destruct f; try discriminate.
        destruct (write_leaf _ _ _ _ W) as [a [_ [Ek _]]]. subst k. simpl. exact At. }
      assert (Eg : rkids g = []).
      { unfold rkids. clear -Lf. induction g as [|k g IHg]; [reflexivity|]. simpl.
        rewrite (Lf k (or_introl eq_refl)). simpl. apply IHg. intros k' Hk'. apply Lf. right. exact Hk'. }
      rewrite Eg. split; [reflexivity|].
      intros k Hk. apply in_app_or in Hk. destruct Hk as [Hk|Hk]; [|apply C; exact Hk].
      rewrite (Lf k Hk), (Tg k Hk). symmetry. exact At.
    + assert (Lf : forall k, In k g -> is_attr_leaf k = false).
      { intros k Hk. destruct (is_attr_leaf k) eqn:El; [|reflexivity]. apply attr_leaf_tag in El.
        rewrite (Tg k Hk) in El. congruence. }
      assert (Eg : map xtag (rkids g) = repeat t (count_of m v)).
      { rewrite <- L. unfold rkids. clear -Lf Tg. induction g as [|k g IHg]; [reflexivity|]. simpl.
        rewrite (Lf k (or_introl eq_refl)). simpl. rewrite xtag_render, (Tg k (or_introl eq_refl)). f_equal.
        apply IHg; intros k' Hk'; [apply Tg|apply Lf]; right; exact Hk'. }
      simpl. rewrite Eg. split; [reflexivity|].
      intros k Hk. apply in_app_or in Hk. destruct Hk as [Hk|Hk]; [|apply C; exact Hk].
      rewrite (Lf k Hk), (Tg k Hk). symmetry. exact At.
Qed.

(* ---- attributes *)
Lemma in_attr_pairs n v : forall ks, In (n, v) (attr_pairs ks) ->
  exists g a, In (Leaf g a) ks /\ is_attr_tag g = true /\ n = attr_name g /\ v = atom_text a.
Proof.
  induction ks as [|k ks IH]; simpl; [tauto|]. destruct k as [g kk|g a].
  - intro H. destruct (IH H) as [g' [a' [X Y]]]. exists g', a'. split; [right; exact X|exact Y].
  - destruct (is_attr_tag g) eqn:E.
    + intros [H|H].
      * inversion H; subst. exists g, a. repeat split; auto.
      * destruct (IH H) as [g' [a' [X Y]]]. exists g', a'. split; [right; exact X|exact Y].
    + intro H. destruct (IH H) as [g' [a' [X Y]]]. exists g', a'. split; [right; exact X|exact Y].
Qed.

Lemma expr_field_val ct t m f v ty' v' : field_type ct t = Some ty' ->
  match field_type ct t with
  | Some ty' => match m, v with
                | MReq, _ => expressible sch ty' f v
                | MOpt, VSome v' => expressible sch ty' f v'
                | MMany, VList l => forallb (expressible sch ty' f) l
                | _, _ => true
                end
  | None => true
  end = true -> field_val m v v' -> expressible sch ty' f v' = true.
Proof.
  intros E H F. rewrite E in H. destruct m; simpl in F.
  - subst. exact H.
  - destruct v; try tauto. subst. exact H.
  - destruct v; try tauto. rewrite forallb_forall in H. apply H. exact F.
Qed.

Lemma attrs_accepted ct : forall fs vs ks, attr_fields_ok sch (c_attrs ct) fs = true ->
  expr_fields sch ct fs vs = true -> write_fields fs vs = Some ks ->
  forall g a, In (Leaf g a) ks -> is_attr_tag g = true ->
  exists sn, attr_decl (attr_name g) (c_attrs ct) = Some sn /\ simple_accepts sch sn (atom_text a) = true.
Proof.
  induction fs as [|t m f rest IH]; intros vs ks Ha He Hw g a Hin Hat.
  - simpl in Hw. destruct vs; [|discriminate]. inversion Hw; subst. destruct Hin.
  - destruct vs as [|v vs]; [destruct (write_fields_nil_vs _ _ _ _ _ Hw)|].
    destruct (write_fields_cons _ _ _ _ _ _ _ Hw) as [gr [ks' [E [Hr [L I]]]]]. subst ks.
    simpl in Ha. apply andb_prop in Ha. destruct Ha as [Ha1 Ha2].
    simpl in He. apply andb_prop in He. destruct He as [He1 He2].
    apply in_app_or in Hin. destruct Hin as [Hin|Hin]; [|eapply IH; eassumption].
    destruct (I _ Hin) as [v' [W Fv]]. pose proof (write_tag _ _ _ _ W) as Tg. simpl in Tg. subst t.
    rewrite Hat in Ha1. destruct f as [k| |]; try discriminate.
    destruct (attr_decl (attr_name g) (c_attrs ct)) as [sn|] eqn:Ed; [|discriminate].
    destruct (lookup sn (s_simple sch)) as [st|] eqn:Es; [|discriminate].
    exists sn. split; [reflexivity|].
    destruct (write_leaf _ _ _ _ W) as [a' [Ev [Ek Kk]]]. inversion Ek; subst a'. subst v'.
    assert (Ft : field_type ct g = Some (TS sn)). { unfold field_type. rewrite Hat, Ed. reflexivity. }
    pose proof (expr_field_val ct g m (FLeaf k) v (TS sn) (VAtom a) Ft He1 Fv) as X.
    simpl in X. rewrite Es in X. unfold simple_accepts. rewrite Es. eapply leaf_accepts; eassumption.
Qed.

Lemma attr_tag_at n : is_attr_tag (String "@" n) = true.
Proof. unfold is_attr_tag. simpl. destruct n; reflexivity. Qed.

Lemma required_written decl n : forall fs vs ks, attr_fields_ok sch decl fs = true -> has_req_field n fs = true ->
  write_fields fs vs = Some ks -> has_attr n (attr_pairs ks) = true.
Proof.
  induction fs as [|t m f rest IH]; intros vs ks Ha Hq Hw; [discriminate|].
  destruct vs as [|v vs]; [destruct (write_fields_nil_vs _ _ _ _ _ Hw)|].
  destruct (write_fields_cons _ _ _ _ _ _ _ Hw) as [gr [ks' [E [Hr [L I]]]]]. subst ks.
  simpl in Ha. apply andb_prop in Ha. destruct Ha as [Ha1 Ha2].
  rewrite attr_pairs_app. unfold has_attr. rewrite existsb_app. simpl in Hq. apply orb_prop in Hq. destruct Hq as [Hq|Hq].
  - apply andb_prop in Hq. destruct Hq as [Et Em]. apply String.eqb_eq in Et. subst t. destruct m; try discriminate.
    simpl in L. destruct gr as [|k gr]; [discriminate|]. destruct (I k (or_introl eq_refl)) as [v' [W _]].
    rewrite attr_tag_at in Ha1. destruct f as [k0| |]; try discriminate.
    destruct (write_leaf _ _ _ _ W) as [a [_ [Ek _]]]. subst k. simpl. rewrite attr_tag_at. simpl.
    rewrite String.eqb_refl. reflexivity.
  - fold (has_attr n (attr_pairs ks')). rewrite (IH vs ks' Ha2 Hq Hr). apply orb_true_r.
Qed.

(* ---- the statement proved by mutual induction over the format *)
Definition P_fmt (f : fmt) : Prop := forall ty tag v t,
  conforms sch ty f = true -> expressible sch ty f v = true -> write f tag v = Some t ->
  valid_el sch ty (render t) = true.
Definition P_fields (fs : fields) : Prop := forall ct vs ks,
  conforms_fields sch (c_content ct) fs = true -> expr_fields sch ct fs vs = true -> write_fields fs vs = Some ks ->
  forall k, In k ks -> is_attr_tag (tag_of k) = false ->
  forall ty', child_type (c_content ct) (tag_of k) = Some ty' -> valid_el sch ty' (render k) = true.
Definition P_alts (al : alts) : Prop := forall g i v t,
  conforms_alts sch g al = true -> expr_alt sch g al i v = true -> write_alt al i v = Some t ->
  exists ty', elem_type (tag_of t) (g_elems g) = Some ty' /\ valid_el sch ty' (render t) = true /\
              is_attr_tag (tag_of t) = false.

Definition extra_ok (decl : list (string * string * bool)) (extra : list (string * string)) : bool :=
  forallb (fun p => match attr_decl (fst p) decl with
                    | Some st => simple_accepts sch st (snd p)
                    | None => false
                    end) extra.

(* a record against a complex type *)
Lemma rec_valid fs : P_fields fs -> forall given n ct tag vs ks extra c,
  lookup n (s_complex sch) = Some ct ->
  rec_content sch given (TC n) fs = Some c -> conforms_fields sch c fs = true ->
  counts_ok (c_content ct) (blocks fs vs) = true -> expr_fields sch ct fs vs = true ->
  write_fields fs vs = Some ks ->
  map fst extra = given -> extra_ok (c_attrs ct) extra = true ->
  valid_el sch (TC n) (add_attrs extra (render (Node tag ks))) = true.
Proof.
  intros IH given n ct tag vs ks extra c Hl Hrc Hcf Hco Hef Hw Hgiven Hextra.
  unfold rec_content in Hrc. rewrite Hl in Hrc.
  assert (Hc : c = c_content ct /\ attr_fields_ok sch (c_attrs ct) fs = true /\
               req_attrs_ok given (c_attrs ct) fs = true /\ order_conform c (elem_tags fs) = true /\
               (forall sn, c <> CSimple sn)).
  { destruct (c_content ct) as [alts|gs|sn] eqn:Ec; try discriminate;
      match type of Hrc with (if ?b then _ else _) = _ => destruct b eqn:Eb; [|discriminate] end;
      inversion Hrc; subst c;
      apply andb_prop in Eb; destruct Eb as [Eb E4]; apply andb_prop in Eb; destruct Eb as [Eb E3];
      apply andb_prop in Eb; destruct Eb as [E1 E2]; repeat split; auto; intros sn; discriminate. }
  destruct Hc as [Ec [Haf [Hreq [Hord Hns]]]]. subst c.
  destruct (fields_shape (c_attrs ct) fs vs ks Haf Hw) as [Tags Leafs].
  assert (Btags : map fst (blocks fs vs) = elem_tags fs).
  { clear -Hw. revert vs ks Hw. induction fs as [|t m f rest IHf]; intros vs ks Hw; [destruct vs; reflexivity|].
    destruct vs as [|v vs]; [destruct (write_fields_nil_vs _ _ _ _ _ Hw)|].
    destruct (write_fields_cons _ _ _ _ _ _ _ Hw) as [gr [ks' [E [Hr _]]]]. simpl.
    destruct (is_attr_tag t); simpl; [|f_equal]; eapply IHf; exact Hr. }
  rewrite <- Btags in Hord.
  destruct (content_complete _ _ Hord Hco) as [Cok Ctype].
  rewrite render_node. simpl. rewrite Hl.
  (* attributes *)
  assert (Hattrs : attrs_ok sch (c_attrs ct) (attr_pairs ks ++ extra) = true).
  { unfold attrs_ok. apply andb_true_intro. split.
    - rewrite forallb_app. apply andb_true_intro. split; [|exact Hextra].
      apply forallb_forall. intros [a v] Hin. simpl.
      destruct (in_attr_pairs _ _ _ Hin) as [g [x [Hg [Hat [En Ev]]]]]. subst a v.
      destruct (attrs_accepted ct fs vs ks Haf Hef Hw g x Hg Hat) as [sn [Ed Es]]. rewrite Ed. exact Es.
    - apply forallb_forall. intros [[a st] req] Hin. destruct req; [|reflexivity]. simpl.
      unfold req_attrs_ok in Hreq. rewrite forallb_forall in Hreq. specialize (Hreq _ Hin). simpl in Hreq.
      unfold has_attr. rewrite existsb_app. apply orb_prop in Hreq. destruct Hreq as [Hg|Hf].
      + apply orb_true_iff. right. apply existsb_exists in Hg. destruct Hg as [x [Hx Ex]]. apply String.eqb_eq in Ex. subst x.
        rewrite <- Hgiven in Hx. apply in_map_iff in Hx. destruct Hx as [p [Ep Hp]].
        apply existsb_exists. exists p. split; [exact Hp|]. rewrite Ep. apply String.eqb_refl.
      + apply orb_true_iff. left. exact (required_written (c_attrs ct) a fs vs ks Haf Hf Hw). }
  rewrite Hattrs. simpl.
  (* children *)
  assert (Hkids : forallb (fun k => match child_type (c_content ct) (xtag k) with
                                    | Some ty' => valid_el sch ty' k
                                    | None => false
                                    end) (rkids ks) = true).
  { apply forallb_forall. intros x Hx. unfold rkids in Hx. apply in_map_iff in Hx. destruct Hx as [k [Ek Hk]].
    apply filter_In in Hk. destruct Hk as [Hk Hna]. apply negb_true_iff in Hna. subst x.
    rewrite xtag_render.
    assert (Hin : In (tag_of k) (expand (blocks fs vs))).
    { rewrite <- Tags. apply in_map_iff. exists (render k). split; [apply xtag_render|].
      unfold rkids. apply in_map. apply filter_In. split; [exact Hk|]. rewrite Hna. reflexivity. }
    destruct (Ctype _ Hin) as [ty' Ety]. rewrite Ety.
    apply (IH ct vs ks Hcf Hef Hw k Hk); [|exact Ety]. rewrite <- (Leafs k Hk). exact Hna. }
  rewrite <- Tags in Cok. clear Ctype Hord Hco Hcf IH Hef.
  revert Cok Hkids Hns. destruct (c_content ct) as [alts|gs|sn]; intros Cok Hkids Hns;
    [| |exfalso; eapply Hns; reflexivity]; simpl in Cok, Hkids |- *; rewrite Cok, Hkids; reflexivity.
Qed.

Lemma conforms_leaf_eq ty k :
  conforms sch ty (FLeaf k) = match leaf_type sch ty with Some st => leaf_ok k st | None => false end.
Proof. reflexivity. Qed.
Lemma conforms_rec_eq ty fs :
  conforms sch ty (FRec fs) =
  match ty with
  | TS n => match fs with FNil => simple_accepts sch n EmptyString | _ => false end
  | TC _ => match rec_content sch [] ty fs with Some c => conforms_fields sch c fs | None => false end
  end.
Proof. reflexivity. Qed.
Lemma conforms_any_eq ty al :
  conforms sch ty (FAny al) =
  match ty with
  | TC n => match lookup n (s_complex sch) with
            | Some ct => match c_attrs ct, c_content ct with
                         | [], CAlt [[g]] => conforms_alts sch g al
                         | _, _ => false
                         end
            | None => false
            end
  | TS _ => false
  end.
Proof. reflexivity. Qed.

Theorem write_valid_mutual :
  (forall f, P_fmt f) /\ (forall fs, P_fields fs) /\ (forall al, P_alts al).
Proof.
  apply fmt_mutind.
  - (* leaf *)
    intros k ty tag v t Hc He Hw. destruct (write_leaf _ _ _ _ Hw) as [a [Ev [Et Hk]]]. subst v t.
    rewrite conforms_leaf_eq in Hc. simpl in He. destruct (leaf_type sch ty) as [st|] eqn:Elt; [|discriminate].
    pose proof (leaf_accepts _ _ _ Hc Hk He) as Acc. simpl. unfold leaf_type in Elt. destruct ty as [n|n].
    + unfold simple_accepts. rewrite Elt. exact Acc.
    + destruct (lookup n (s_complex sch)) as [ct|]; [|discriminate].
      destruct (c_attrs ct); [|discriminate]. destruct (c_content ct) as [| |sn]; try discriminate.
      simpl. unfold simple_accepts. rewrite Elt. exact Acc.
  - (* record *)
    intros fs IH ty tag v t Hc He Hw. destruct v; try discriminate. simpl in Hw.
    destruct (write_fields fs vs) as [ks|] eqn:Ew; [|discriminate]. inversion Hw; subst t. clear Hw.
    destruct ty as [n|n].
    + rewrite conforms_rec_eq in Hc. destruct fs; [|discriminate]. simpl in Ew. destruct vs; [|discriminate]. inversion Ew; subst ks.
      simpl. exact Hc.
    + rewrite conforms_rec_eq in Hc. destruct (rec_content sch [] (TC n) fs) as [c|] eqn:Erc; [|discriminate].
      simpl in He. destruct (lookup n (s_complex sch)) as [ct|] eqn:El; [|discriminate].
      apply andb_prop in He. destruct He as [He1 He2].
      pose proof (rec_valid fs IH [] n ct tag vs ks [] c El Erc Hc He1 He2 Ew eq_refl eq_refl) as X.
      unfold add_attrs in X. rewrite render_node in *. rewrite app_nil_r in X. exact X.
  - (* alternatives *)
    intros al IH ty tag v t Hc He Hw. destruct v; try discriminate. simpl in Hw.
    destruct (write_items (write_alt al) vs) as [ks|] eqn:Ew; [|discriminate]. inversion Hw; subst t. clear Hw.
    rewrite conforms_any_eq in Hc. destruct ty as [n|n]; [discriminate|]. simpl in He.
    destruct (lookup n (s_complex sch)) as [ct|] eqn:El; [|discriminate].
    destruct (c_attrs ct) eqn:Eat; [|discriminate].
    destruct (c_content ct) as [alts| |] eqn:Ec; try discriminate.
    destruct alts as [|gs alts]; [discriminate|]. destruct gs as [|g gs]; [discriminate|].
    destruct gs; [|discriminate]. destruct alts; [|discriminate].
    apply andb_prop in He. destruct He as [Hr Hi]. rewrite forallb_forall in Hi.
    assert (K : forall k, In k ks -> exists ty', elem_type (tag_of k) (g_elems g) = Some ty' /\
                  valid_el sch ty' (render k) = true /\ is_attr_tag (tag_of k) = false).
    { clear -Ew Hi IH Hc. revert ks Ew. induction vs as [|it vs IHv]; intros ks Ew; simpl in Ew.
      - inversion Ew; subst. intros k [].
      - destruct it; try discriminate. destruct (write_alt al i it) as [x|] eqn:Ex; [|discriminate].
        destruct (write_items (write_alt al) vs) as [xs|] eqn:Exs; [|discriminate]. inversion Ew; subst ks.
        intros k [Hk|Hk].
        + subst k. apply (IH g i it x Hc); [|exact Ex]. exact (Hi (VAlt i it) (or_introl eq_refl)).
        + apply (IHv (fun y Hy => Hi y (or_intror Hy)) xs eq_refl k Hk). }
    assert (Len : List.length ks = List.length vs).
    { clear -Ew. revert ks Ew. induction vs as [|it vs IHv]; intros ks Ew; simpl in Ew.
      - inversion Ew; reflexivity.
      - destruct it; try discriminate. destruct (write_alt al i it); [|discriminate].
        destruct (write_items (write_alt al) vs) as [xs|]; [|discriminate]. inversion Ew; subst. simpl. f_equal. apply IHv. reflexivity. }
    assert (NoAttr : forall k, In k ks -> is_attr_leaf k = false).
    { intros k Hk. destruct (K k Hk) as [_ [_ [_ Z]]]. destruct (is_attr_leaf k) eqn:E; [|reflexivity].
      apply attr_leaf_tag in E. congruence. }
    assert (Rk : rkids ks = map render ks).
    { unfold rkids. f_equal. clear -NoAttr. induction ks as [|k ks IHk]; [reflexivity|]. simpl.
      rewrite (NoAttr k (or_introl eq_refl)). simpl. f_equal. apply IHk. intros k' Hk'. apply NoAttr. right. exact Hk'. }
    assert (Ap : attr_pairs ks = []).
    { clear -NoAttr. induction ks as [|k ks IHk]; [reflexivity|]. simpl. pose proof (NoAttr k (or_introl eq_refl)) as Z.
      destruct k as [g kk|g a]; simpl in Z; [|rewrite Z]; apply IHk; intros k' Hk'; apply NoAttr; right; exact Hk'. }
    rewrite render_node. simpl. rewrite El, Eat, Ec, Ap, Rk. simpl.
    assert (Tg : forall t, In t (map xtag (map render ks)) -> in_group g t = true).
    { intros t Ht. apply in_map_iff in Ht. destruct Ht as [x [Ex Hx]]. apply in_map_iff in Hx. destruct Hx as [k [Ek Hk]].
      subst x t. rewrite xtag_render. destruct (K k Hk) as [ty' [Ety _]].
      unfold in_group. clear -Ety. induction (g_elems g) as [|[u ty] es IHe]; simpl in *; [discriminate|].
      destruct (String.eqb u (tag_of k)); [reflexivity|]. simpl. apply IHe. exact Ety. }
    pose proof (span_in_app g (map xtag (map render ks)) [] Tg (fun t F => match F with end)) as Sp.
    rewrite app_nil_r in Sp. rewrite Sp. rewrite !map_length, Len, Hr. simpl.
    apply forallb_forall. intros x Hx. apply in_map_iff in Hx. destruct Hx as [k [Ek Hk]]. subst x.
    rewrite xtag_render. destruct (K k Hk) as [ty' [Ety [V _]]]. rewrite Ety. exact V.
  - (* FNil *)
    intros ct vs ks _ _ Hw. simpl in Hw. destruct vs; [|discriminate]. inversion Hw; subst. intros k [].
  - (* FCons *)
    intros t m f IHf rest IHr ct vs ks Hc He Hw k Hk Hna ty' Ety.
    destruct vs as [|v vs]; [destruct (write_fields_nil_vs _ _ _ _ _ Hw)|].
    destruct (write_fields_cons _ _ _ _ _ _ _ Hw) as [gr [ks' [E [Hr [L I]]]]]. subst ks.
    simpl in Hc. apply andb_prop in Hc. destruct Hc as [Hc1 Hc2].
    simpl in He. apply andb_prop in He. destruct He as [He1 He2].
    apply in_app_or in Hk. destruct Hk as [Hk|Hk]; [|exact (IHr ct vs ks' Hc2 He2 Hr k Hk Hna ty' Ety)].
    destruct (I k Hk) as [v' [W Fv]]. pose proof (write_tag _ _ _ _ W) as Tg. rewrite Tg in *.
    rewrite Hna in Hc1. rewrite Ety in Hc1.
    assert (Ft : field_type ct t = Some ty'). { unfold field_type. rewrite Hna. exact Ety. }
    pose proof (expr_field_val ct t m f v ty' v' Ft He1 Fv) as X.
    exact (IHf ty' t v' k Hc1 X W).
  - (* ANil *) intros g i v t _ He. simpl in He. destruct i; discriminate.
  - (* ACons *)
    intros t f IHf rest IHr g i v x Hc He Hw. simpl in Hc. apply andb_prop in Hc. destruct Hc as [Hc Hc3].
    apply andb_prop in Hc. destruct Hc as [Hc1 Hc2]. apply negb_true_iff in Hc1.
    destruct i as [|j]; simpl in He, Hw.
    + destruct (elem_type t (g_elems g)) as [ty'|] eqn:Ety; [|discriminate].
      pose proof (write_tag _ _ _ _ Hw) as Tg. exists ty'. rewrite Tg. repeat split; auto.
      exact (IHf ty' t v x Hc2 He Hw).
    + exact (IHr g j v x Hc3 He Hw).
Qed.
End Main.

(* ================================================================== the theorems *)
Definition num_printer_ok (numtext : Q -> string) : Prop :=
  forall q, exists r, dec_value (trim (numtext q)) = Some r /\ (0 < q -> 0 < r)%Q.

(* element level: static conformance + schema-expressible value => the validator accepts what is written *)
Theorem write_valid sch numtext : num_printer_ok numtext -> forall f ty tag v t,
  conforms sch ty f = true -> expressible sch ty f v = true -> write f tag v = Some t ->
  valid_el sch ty (render numtext t) = true.
Proof. intros Hn f. exact (proj1 (write_valid_mutual sch numtext Hn) f). Qed.

Definition doc_extra_ok (sch : schema) (extra : list (string * string)) : bool :=
  match s_root_type sch with
  | TC n => match lookup n (s_complex sch) with
            | Some ct => extra_ok sch (c_attrs ct) extra
            | None => false
            end
  | TS _ => false
  end.

(* document level: everything [validates] checks except the identity constraints *)
Theorem doc_valid_structure sch numtext : num_printer_ok numtext -> forall f v t extra,
  conforms_doc sch (map fst extra) f = true -> doc_extra_ok sch extra = true ->
  expressible sch (s_root_type sch) f v = true -> write f (s_root sch) v = Some t ->
  validates_structure sch (add_attrs extra (render numtext t)) = true.
Proof.
  intros Hn f v t extra Hc Hx He Hw. unfold conforms_doc in Hc. destruct f as [|fs|]; try discriminate.
  destruct v; try discriminate. simpl in Hw. destruct (write_fields fs vs) as [ks|] eqn:Ew; [|discriminate].
  inversion Hw; subst t. clear Hw. unfold doc_extra_ok in Hx.
  destruct (s_root_type sch) as [n|n] eqn:Er; [discriminate|].
  destruct (rec_content sch (map fst extra) (TC n) fs) as [c|] eqn:Erc; [|discriminate].
  destruct (lookup n (s_complex sch)) as [ct|] eqn:El; [|discriminate].
  simpl in He. rewrite El in He. apply andb_prop in He. destruct He as [He1 He2].
  unfold validates_structure. rewrite Er. apply andb_true_intro. split.
  - simpl. apply String.eqb_refl.
  - exact (rec_valid sch numtext Hn fs (proj1 (proj2 (write_valid_mutual sch numtext Hn)) fs)
             (map fst extra) n ct (s_root sch) vs ks extra c El Erc Hc He1 He2 Ew eq_refl Hx).
Qed.

(* ================================================================== float_to_str prints an xs:decimal *)
From CR Require Import Model.DecStr.
Definition dchar (d : Z) : ascii :=
  match d with
  | 0 => "0" | 1 => "1" | 2 => "2" | 3 => "3" | 4 => "4" | 5 => "5" | 6 => "6" | 7 => "7" | 8 => "8" | 9 => "9"
  | _ => "?"
  end%Z%char.
Definition dstr (l : list Z) : string := fold_right (fun d s => String (dchar d) s) EmptyString l.
(* the text of a decimal digit record: [-]ip.fp *)
Definition dec_text (x : dec) : string :=
  ((if neg x then "-" else "") ++ dstr (ip x) ++ String "." (dstr (fp x)))%string.

Lemma digit_cases d : is_digit d = true ->
  (d = 0 \/ d = 1 \/ d = 2 \/ d = 3 \/ d = 4 \/ d = 5 \/ d = 6 \/ d = 7 \/ d = 8 \/ d = 9)%Z.
Proof. unfold is_digit. intro H. apply andb_prop in H. destruct H as [A B]. apply Z.leb_le in A, B. lia. Qed.

Ltac digit_split H :=
  destruct (digit_cases _ H) as [E|[E|[E|[E|[E|[E|[E|[E|[E|E]]]]]]]]]; subst.

Lemma dstr_uint l : digits_ok l = true -> exists u, NilEmpty.uint_of_string (dstr l) = Some u.
Proof.
  induction l as [|d l IH]; simpl; [eexists; reflexivity|]. intro H. apply andb_prop in H. destruct H as [H1 H2].
  destruct (IH H2) as [u Eu]. rewrite Eu. digit_split H1; simpl; eexists; reflexivity.
Qed.

Lemma dstr_no_ws l : digits_ok l = true -> no_ws (dstr l) = true.
Proof.
  induction l as [|d l IH]; simpl; [reflexivity|]. intro H. apply andb_prop in H. destruct H as [H1 H2].
  rewrite (IH H2). digit_split H1; reflexivity.
Qed.

Lemma split_dot_dstr l rest : digits_ok l = true ->
  split_dot (dstr l ++ String "." rest) = (dstr l, Some rest).
Proof.
  induction l as [|d l IH]; simpl; [reflexivity|]. intro H. apply andb_prop in H. destruct H as [H1 H2].
  rewrite (IH H2). digit_split H1; reflexivity.
Qed.

Lemma no_ws_app a b : no_ws a = true -> no_ws b = true -> no_ws (a ++ b) = true.
Proof. induction a as [|c a IH]; simpl; [tauto|]. intros H Hb. apply andb_prop in H. destruct H as [H1 H2].
  rewrite H1, (IH H2 Hb). reflexivity. Qed.

Theorem plain_decimal_text x : plain_decimal x = true -> exists r, dec_value (trim (dec_text x)) = Some r.
Proof.
  unfold plain_decimal. intro H. apply andb_prop in H. destruct H as [H Hne]. apply andb_prop in H. destruct H as [Hi Hf].
  assert (Hnw : no_ws (dec_text x) = true).
  { unfold dec_text. apply no_ws_app; [destruct (neg x); reflexivity|]. apply no_ws_app; [apply dstr_no_ws; exact Hi|].
    simpl. apply dstr_no_ws. exact Hf. }
  rewrite (trim_id _ Hnw). unfold dec_text.
  destruct (ip x) as [|d0 il] eqn:Eip; [discriminate|]. clear Hne.
  assert (Sd : split_dot (dstr (d0 :: il) ++ String "." (dstr (fp x))) = (dstr (d0 :: il), Some (dstr (fp x))))
    by (apply split_dot_dstr; exact Hi).
  destruct (dstr_uint _ Hi) as [u Eu]. destruct (dstr_uint _ Hf) as [w Ew].
  assert (Hd0 : is_digit d0 = true) by (simpl in Hi; apply andb_prop in Hi; tauto).
  destruct (neg x).
  - assert (Ss : strip_sign ("-" ++ dstr (d0 :: il) ++ String "." (dstr (fp x))) =
                 (true, (dstr (d0 :: il) ++ String "." (dstr (fp x)))%string)) by reflexivity.
    unfold dec_value. rewrite Ss. cbv beta iota. rewrite Sd. cbv beta iota. rewrite Eu, Ew.
    simpl is_empty. simpl andb. cbv iota. eexists; reflexivity.
  - assert (Ss : strip_sign ("" ++ dstr (d0 :: il) ++ String "." (dstr (fp x))) =
                 (false, (dstr (d0 :: il) ++ String "." (dstr (fp x)))%string)).
    { simpl. digit_split Hd0; reflexivity. }
    unfold dec_value. rewrite Ss. cbv beta iota. rewrite Sd. cbv beta iota. rewrite Eu, Ew.
    simpl is_empty. simpl andb. cbv iota. eexists; reflexivity.
Qed.

(* hence the text float_to_str produces for a plain decimal is accepted by xs:decimal *)
Corollary float_to_str_text_decimal d x : plain_decimal x = true ->
  accepts (mk_stype PDecimal None None None None) (dec_text (float_to_str d x)) = true.
Proof.
  intro H. assert (Hp : plain_decimal (float_to_str d x) = true).
  { unfold plain_decimal in *. simpl. apply andb_prop in H. destruct H as [H Hne]. apply andb_prop in H. destruct H as [Hi Hf].
    rewrite Hi, Hne. simpl. rewrite andb_true_r. clear -Hf. revert d. induction (fp x) as [|a l IH]; intros d; destruct d; simpl; try reflexivity.
    simpl in Hf. apply andb_prop in Hf. destruct Hf as [A B]. rewrite A. simpl. apply IH. exact B. }
  destruct (plain_decimal_text _ Hp) as [r Er]. unfold accepts. simpl. rewrite Er. reflexivity.
Qed.
