(* Proofs/XsdC03.v — C03: the generic theorems of Proofs/XsdCheck.v instantiated with the two GENERATED
   tables: the writer's format table (Gen/XmlFmt.v, module W) and the schema translated from the shipped
   XSD (Gen/Xsd2020a.v).  The side conditions are closed by vm_compute on the tables. *)
From Coq Require Import QArith ZArith String List Bool.
From CR Require Import Model.Codec Model.XsdCheck Proofs.XsdCheck Gen.XmlFmt Gen.Xsd2020a.
Import ListNotations.
Open Scope string_scope.
Open Scope list_scope.

(* the writer's table conforms to the schema: order inside every sequence type, tag -> type, leaf kinds vs
   simple types, declared / required attributes (the root's date is supplied outside the table) *)
Lemma conforms_xml : conforms_doc xsd2020a ["date"] W.xml_root = true.
Proof. vm_compute. reflexivity. Qed.

(* the element tables conform on their own too (used for element-level statements) *)
Definition element_rows : list (string * fmt) :=
  [("lanelet", W.f_lanelet); ("trafficSign", W.f_trafficSign); ("trafficLight", W.f_trafficLight);
   ("intersection", W.f_intersection); ("staticObstacle", W.f_staticObstacle);
   ("dynamicObstacle", W.f_dynamicObstacle); ("phantomObstacle", W.f_phantomObstacle);
   ("environmentObstacle", W.f_environmentObstacle); ("planningProblem", W.f_planningProblem);
   ("location", W.f_location); ("tag", W.f_scenarioTags); ("rectangle", W.f_rectangle); ("circle", W.f_circle);
   ("polygon", W.f_polygon); ("point", W.f_point); ("shape", W.f_shape)].
Lemma elements_conform : forallb (fun r => conforms xsd2020a (TC (fst r)) (snd r)) element_rows = true.
Proof. vm_compute. reflexivity. Qed.

Theorem xml_valid_structure numtext : num_printer_ok numtext -> forall v t d,
  simple_accepts xsd2020a "xs:date" d = true ->
  expressible xsd2020a (TC "<commonRoad>") W.xml_root v = true ->
  write W.xml_root "commonRoad" v = Some t ->
  validates_structure xsd2020a (add_attrs [("date", d)] (render numtext t)) = true.
Proof.
  intros Hn v t d Hd He Hw.
  apply (doc_valid_structure xsd2020a numtext Hn W.xml_root v t [("date", d)]).
  - exact conforms_xml.
  - unfold doc_extra_ok. simpl. unfold extra_ok. simpl. rewrite Hd. reflexivity.
  - exact He.
  - exact Hw.
Qed.

Theorem xml_element_valid numtext : num_printer_ok numtext -> forall n f, In (n, f) element_rows ->
  forall tag v t, expressible xsd2020a (TC n) f v = true -> write f tag v = Some t ->
  valid_el xsd2020a (TC n) (render numtext t) = true.
Proof.
  intros Hn n f Hin tag v t He Hw. pose proof elements_conform as C. rewrite forallb_forall in C.
  specialize (C _ Hin). simpl in C. eapply write_valid; eassumption.
Qed.

(* ---- non-vacuity and sensitivity of the side condition *)
Definition rect_val : val := VRec [VAtom (ANum 4.5); VAtom (ANum 2); VSome (VAtom (ANum (-1 # 3))); VNone].
Lemma rect_expressible : expressible xsd2020a (TC "rectangle") W.f_rectangle rect_val = true.
Proof. vm_compute. reflexivity. Qed.
Lemma rect_zero_not_expressible :
  expressible xsd2020a (TC "rectangle") W.f_rectangle (VRec [VAtom (ANum 0); VAtom (ANum 2); VNone; VNone]) = false.
Proof. vm_compute. reflexivity. Qed.
(* a table that emits width before length does not conform; nor one that prints a flag where a decimal is due;
   nor one that lacks the required id attribute *)
Lemma swapped_table_rejected :
  conforms xsd2020a (TC "rectangle")
    (FRec (FCons "width" MReq (FLeaf KNum) (FCons "length" MReq (FLeaf KNum) FNil))) = false.
Proof. vm_compute. reflexivity. Qed.
Lemma wrong_leaf_kind_rejected :
  conforms xsd2020a (TC "circle") (FRec (FCons "radius" MReq (FLeaf KBool) FNil)) = false.
Proof. vm_compute. reflexivity. Qed.
Lemma missing_id_rejected :
  conforms xsd2020a (TC "environmentObstacle")
    (FRec (FCons "type" MReq (FLeaf KStr) (FCons "shape" MReq W.f_shape FNil))) = false.
Proof. vm_compute. reflexivity. Qed.
(* a polygon with two points is outside the expressible domain (the schema wants three) *)
Lemma polygon_two_points_not_expressible :
  expressible xsd2020a (TC "polygon") W.f_polygon
    (VRec [VList [VRec [VAtom (ANum 0); VAtom (ANum 0)]; VRec [VAtom (ANum 1); VAtom (ANum 0)]]]) = false.
Proof. vm_compute. reflexivity. Qed.

Lemma validator_discriminates :
  valid_el xsd2020a (TC "rectangle") (XE "rectangle" [] [XE "length" [] [] "4.5"; XE "width" [] [] "2"] "") = true /\
  valid_el xsd2020a (TC "rectangle") (XE "rectangle" [] [XE "length" [] [] "1e-05"; XE "width" [] [] "2"] "") = false /\
  valid_el xsd2020a (TC "rectangle") (XE "rectangle" [] [XE "length" [] [] "4.5"] "") = false /\
  valid_el xsd2020a (TC "rectangle") (XE "rectangle" [] [XE "width" [] [] "2"; XE "length" [] [] "4.5"] "") = false.
Proof. vm_compute. repeat split; reflexivity. Qed.
