(* Proofs/Codec.v — the generic round-trip theorem of Model/Codec.v:
   for a well-formed table (tags of one record / one alternative list pairwise distinct),
   whatever the writer emits the reader maps back to the value written. *)
From Coq Require Import QArith ZArith String List Bool Lia.
From CR Require Import Model.Codec.
Import ListNotations.
Open Scope string_scope.
Open Scope list_scope.

Scheme fmt_ind2 := Induction for fmt Sort Prop
  with fields_ind2 := Induction for fields Sort Prop
  with alts_ind2 := Induction for alts Sort Prop.
Combined Scheme fmt_mutind from fmt_ind2, fields_ind2, alts_ind2.

Lemma existsb_eqb_In x l : existsb (String.eqb x) l = true <-> In x l.
Proof.
  rewrite existsb_exists. split.
  - intros [y [H E]]. apply String.eqb_eq in E. subst. exact H.
  - intro H. exists x. split; [exact H|apply String.eqb_refl].
Qed.

Lemma distinct_cons x l : distinct (x :: l) = true -> ~ In x l /\ distinct l = true.
Proof.
  simpl. intro H. apply andb_true_iff in H. destruct H as [A B]. split; [|exact B].
  intro HI. apply existsb_eqb_In in HI. rewrite HI in A. discriminate.
Qed.

Lemma findall_app t a b : findall t (a ++ b) = findall t a ++ findall t b.
Proof. unfold findall. apply filter_app. Qed.

Lemma findall_none t l : (forall x, In x l -> tag_of x <> t) -> findall t l = [].
Proof.
  induction l as [|x l IH]; intro H; [reflexivity|]. unfold findall in *. simpl.
  destruct (String.eqb (tag_of x) t) eqn:E.
  - apply String.eqb_eq in E. exfalso. apply (H x); [left; reflexivity|exact E].
  - apply IH. intros y Hy. apply H. right. exact Hy.
Qed.

Lemma findall_all t l : (forall x, In x l -> tag_of x = t) -> findall t l = l.
Proof.
  induction l as [|x l IH]; intro H; [reflexivity|]. unfold findall in *. simpl.
  rewrite (H x (or_introl eq_refl)), String.eqb_refl. f_equal. apply IH. intros y Hy. apply H. right. exact Hy.
Qed.

(* mapM of a writer followed by mapM of its reader *)
Lemma mapM_roundtrip {A B} (w : A -> option B) (r : B -> option A) (P : B -> Prop) :
  (forall a b, w a = Some b -> r b = Some a /\ P b) ->
  forall l ks, mapM w l = Some ks -> mapM r ks = Some l /\ (forall x, In x ks -> P x).
Proof.
  intros H l. induction l as [|a l IH]; intros ks E; simpl in E.
  - inversion E; subst. split; [reflexivity|intros x []].
  - destruct (w a) as [b|] eqn:Ea; [|discriminate]. destruct (mapM w l) as [bs|] eqn:El; [|discriminate].
    inversion E; subst. destruct (H _ _ Ea) as [Hr Hp]. destruct (IH _ eq_refl) as [Hm Hq].
    split.
    + simpl. rewrite Hr, Hm. reflexivity.
    + intros x [Hx|Hx]; [subst; exact Hp|apply Hq; exact Hx].
Qed.

Lemma nth_alt_in al : forall i tg f, nth_alt al i = Some (tg, f) -> In tg (alt_tags al).
Proof.
  induction al as [|t f r IH]; intros i tg f0 H; simpl in *; [discriminate|].
  destruct i; [inversion H; subst; left; reflexivity|right; eapply IH; exact H].
Qed.

(* the reader finds the alternative the writer used *)
Lemma read_alt_nth al : forall k i tg f x, distinct (alt_tags al) = true ->
  nth_alt al i = Some (tg, f) -> tag_of x = tg ->
  read_alt al k x = option_map (VAlt (k + i)) (read f x).
Proof.
  induction al as [|t f r IH]; intros k i tg f0 x Hd Hn Ht; simpl in *; [discriminate|].
  apply distinct_cons in Hd. destruct Hd as [Hni Hd].
  destruct i as [|j].
  - inversion Hn; subst. rewrite String.eqb_refl, Nat.add_0_r. reflexivity.
  - assert (Hneq : String.eqb (tag_of x) t = false).
    { apply String.eqb_neq. intro E. apply Hni. rewrite <- E, Ht. eapply nth_alt_in. exact Hn. }
    rewrite Hneq. rewrite (IH (S k) j tg f0 x Hd Hn Ht). replace (S k + j)%nat with (k + S j)%nat by lia. reflexivity.
Qed.

Definition P_fmt (f : fmt) : Prop :=
  wf f = true -> forall tag v t, write f tag v = Some t -> read f t = Some v /\ tag_of t = tag.

Definition P_fields (fs : fields) : Prop :=
  wf_fields fs = true -> distinct (field_tags fs) = true ->
  forall vs ks pre, write_fields fs vs = Some ks ->
    (forall x, In x pre -> ~ In (tag_of x) (field_tags fs)) ->
    read_fields fs (pre ++ ks) = Some vs /\ (forall x, In x ks -> In (tag_of x) (field_tags fs)).

Definition P_alts (al : alts) : Prop :=
  wf_alts al = true -> forall i v t, write_alt al i v = Some t ->
    exists tg f, nth_alt al i = Some (tg, f) /\ tag_of t = tg /\ read f t = Some v.

Lemma write_items_roundtrip al : P_alts al -> wf_alts al = true -> distinct (alt_tags al) = true ->
  forall items ks, write_items (write_alt al) items = Some ks -> mapM (read_alt al O) ks = Some items.
Proof.
  intros HP Hwf Hd. induction items as [|it items IH]; intros ks E; simpl in E.
  - inversion E; subst. reflexivity.
  - destruct it as [| | | | |i v]; try discriminate.
    destruct (write_alt al i v) as [x|] eqn:Ex; [|discriminate].
    destruct (write_items (write_alt al) items) as [xs|] eqn:Exs; [|discriminate].
    inversion E; subst. simpl.
    destruct (HP Hwf _ _ _ Ex) as [tg [f [Hn [Ht Hr]]]].
    rewrite (read_alt_nth al O i tg f x Hd Hn Ht), Hr. simpl. rewrite (IH _ eq_refl). reflexivity.
Qed.

Theorem codec_mutual :
  (forall f, P_fmt f) /\ (forall fs, P_fields fs) /\ (forall al, P_alts al).
Proof.
  apply fmt_mutind.
  - (* FLeaf *)
    intros k _ tag v t H. destruct v; simpl in H; try discriminate.
    destruct (kind_ok k a) eqn:E; [|discriminate]. inversion H; subst. simpl. rewrite E. auto.
  - (* FRec *)
    intros fs IH Hwf tag v t H. simpl in Hwf. apply andb_true_iff in Hwf. destruct Hwf as [Hd Hw].
    destruct v; simpl in H; try discriminate.
    destruct (write_fields fs vs) as [ks|] eqn:E; [|discriminate]. inversion H; subst. simpl.
    destruct (IH Hw Hd vs ks [] E) as [Hr _]; [intros x []|]. simpl in Hr. rewrite Hr. auto.
  - (* FAny *)
    intros al IH Hwf tag v t H. simpl in Hwf. apply andb_true_iff in Hwf. destruct Hwf as [Hd Hw].
    destruct v; simpl in H; try discriminate.
    destruct (write_items (write_alt al) vs) as [ks|] eqn:E; [|discriminate]. inversion H; subst. simpl.
    rewrite (write_items_roundtrip al IH Hw Hd _ _ E). auto.
  - (* FNil *)
    intros _ _ vs ks pre H _. destruct vs; simpl in H; [|discriminate]. inversion H; subst.
    split; [reflexivity|intros x []].
  - (* FCons *)
    intros t m f IHf rest IHr Hwf Hd vs ks pre H Hpre.
    simpl in Hwf. apply andb_true_iff in Hwf. destruct Hwf as [Hwf_f Hwf_r].
    simpl in Hd. pose proof (distinct_cons _ _ Hd) as [Hnt Hdr].
    destruct vs as [|v vs']; [simpl in H; discriminate|].
    (* the group written for this field: all its elements carry tag t and read back to v *)
    assert (Hgrp : exists g ks', ks = g ++ ks' /\ write_fields rest vs' = Some ks' /\
                   (forall x, In x g -> tag_of x = t) /\
                   (match m with
                    | MReq => match g with x :: _ => read f x | [] => None end
                    | MOpt => match g with x :: _ => option_map VSome (read f x) | [] => Some VNone end
                    | MMany => option_map VList (mapM (read f) g)
                    end = Some v)).
    { simpl in H.
      destruct m.
      - destruct (write f t v) as [x|] eqn:Ex; [|discriminate].
        destruct (write_fields rest vs') as [ks'|] eqn:Er; [|discriminate]. injection H as Hk.
        destruct (IHf Hwf_f _ _ _ Ex) as [Hr Ht].
        exists [x], ks'. split; [symmetry; exact Hk|]. split; [reflexivity|]. split; [|exact Hr].
        intros y [Hy|[]]. rewrite <- Hy. exact Ht.
      - destruct v; try discriminate.
        + destruct (write_fields rest vs') as [ks'|] eqn:Er; [|discriminate]. injection H as Hk.
          exists [], ks'. split; [symmetry; exact Hk|]. split; [reflexivity|]. split; [intros y []|reflexivity].
        + destruct (write f t v) as [x|] eqn:Ex; [|discriminate].
          destruct (write_fields rest vs') as [ks'|] eqn:Er; [|discriminate]. injection H as Hk.
          destruct (IHf Hwf_f _ _ _ Ex) as [Hr Ht].
          exists [x], ks'. split; [symmetry; exact Hk|]. split; [reflexivity|]. split.
          * intros y [Hy|[]]. rewrite <- Hy. exact Ht.
          * rewrite Hr. reflexivity.
      - destruct v; try discriminate.
        destruct (mapM (write f t) vs) as [g|] eqn:Eg; [|discriminate].
        destruct (write_fields rest vs') as [ks'|] eqn:Er; [|discriminate]. injection H as Hk.
        destruct (mapM_roundtrip (write f t) (read f) (fun x => tag_of x = t)
                    (fun a b Hab => IHf Hwf_f t a b Hab) _ _ Eg) as [Hm Ht].
        exists g, ks'. split; [symmetry; exact Hk|]. split; [reflexivity|]. split; [exact Ht|].
        rewrite Hm. reflexivity. }
    destruct Hgrp as [g [ks' [Eks [Er [Hg Hv]]]]]. subst ks.
    (* the remaining fields, read with (pre ++ g) as foreign prefix *)
    assert (Hpre' : forall x, In x (pre ++ g) -> ~ In (tag_of x) (field_tags rest)).
    { intros x Hx. apply in_app_or in Hx. destruct Hx as [Hx|Hx].
      - intro Hi. apply (Hpre x Hx). simpl. right. exact Hi.
      - rewrite (Hg x Hx). exact Hnt. }
    destruct (IHr Hwf_r Hdr vs' ks' (pre ++ g) Er Hpre') as [Hrr Htags].
    split.
    + simpl.
      assert (Efind : findall t (pre ++ g ++ ks') = g).
      { rewrite !findall_app.
        rewrite (findall_none t pre).
        2:{ intros x Hx E. apply (Hpre x Hx). simpl. left. symmetry. exact E. }
        rewrite (findall_all t g Hg).
        rewrite (findall_none t ks').
        2:{ intros x Hx E. apply Hnt. rewrite <- E. apply Htags. exact Hx. }
        rewrite app_nil_r. reflexivity. }
      rewrite Efind, Hv. rewrite app_assoc, Hrr. reflexivity.
    + intros x Hx. apply in_app_or in Hx. destruct Hx as [Hx|Hx].
      * simpl. left. symmetry. apply Hg. exact Hx.
      * simpl. right. apply Htags. exact Hx.
  - (* ANil *)
    intros _ i v t H. simpl in H. discriminate.
  - (* ACons *)
    intros t f IHf rest IHr Hwf i v x H. simpl in Hwf. apply andb_true_iff in Hwf. destruct Hwf as [Hwf_f Hwf_r].
    destruct i as [|j]; simpl in H.
    + destruct (IHf Hwf_f _ _ _ H) as [Hr Ht]. exists t, f. simpl. auto.
    + destruct (IHr Hwf_r _ _ _ H) as [tg [f' [Hn [Ht Hr]]]]. exists tg, f'. simpl. auto.
Qed.

(* the round-trip theorem *)
Theorem roundtrip f : wf f = true -> forall tag v t, write f tag v = Some t -> read f t = Some v.
Proof.
  intros Hwf tag v t H. destruct codec_mutual as [Hf _]. destruct (Hf f Hwf tag v t H) as [Hr _]. exact Hr.
Qed.

(* nothing is dropped or duplicated: the written tree is determined by the value, and equal trees read equal *)
Corollary write_injective f : wf f = true -> forall tag v1 v2 t,
  write f tag v1 = Some t -> write f tag v2 = Some t -> v1 = v2.
Proof.
  intros Hwf tag v1 v2 t H1 H2. pose proof (roundtrip f Hwf _ _ _ H1) as R1.
  pose proof (roundtrip f Hwf _ _ _ H2) as R2. congruence.
Qed.
