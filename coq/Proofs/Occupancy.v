(* Proofs/Occupancy.v -- lemmas about Model/Occupancy.v (property C04). *)
From Coq Require Import QArith Qabs ZArith Bool List Lia Lqa Qminmax.
From CR Require Import Base.QMod Model.Interval Model.Transform Model.Shapes Model.Occupancy.
Import ListNotations.
