(* Proofs/Occupancy.v -- lemmas about Model/Occupancy.v (property C04). *)
From Coq Require Import QArith Qabs ZArith Bool List Lia Lqa Qminmax Permutation.
From CR Require Import Base.QMod Model.Interval Model.Transform Proofs.Transform Model.Shapes Model.Scene
  Proofs.Shapes Model.Occupancy.
Import ListNotations.

(* ================================================================== (i) dispatch *)
Section DispatchP.
  Open Scope Z_scope.
  Variables S R : Type.
  Variable tstep : S -> Z.
  Variable place : S -> R.

  Notation occ := (occ R).
  Notation obstacle := (obstacle S R).
  Notation lookup := (@lookup R).
  Notation state_at_time_step := (@state_at_time_step S).
  Notation occupancy_set := (occupancy_set S R tstep place).
  Notation occupancy_at_time := (occupancy_at_time S R tstep place).
  Notation state_at_time := (state_at_time S R tstep).

  (* what it means that an occupancy is stored for the time step t *)
  Definition key_covers (k : tkey) (t : Z) : Prop :=
    match k with TStep u => u = t | TItv a b => a <= t <= b end.

  Lemma key_matches_spec k t : key_matches k t = true <-> key_covers k t.
  Proof.
    destruct k as [u|a b]; simpl.
    - apply Z.eqb_eq.
    - rewrite andb_true_iff, !Z.leb_le. tauto.
  Qed.

  Lemma key_matches_false k t : key_matches k t = false <-> ~ key_covers k t.
  Proof. rewrite <- key_matches_spec. destruct (key_matches k t); split; congruence. Qed.

  (* Prediction.occupancy_at_time_step returns the FIRST stored occupancy whose key covers t *)
  Lemma lookup_some l t o : lookup l t = Some o <->
    exists pre post, l = pre ++ o :: post /\ key_covers (o_time o) t /\
                     Forall (fun x => ~ key_covers (o_time x) t) pre.
  Proof.
    induction l as [|x r IH]; simpl.
    - split; [discriminate|]. intros [pre [post [H _]]]. destruct pre; discriminate.
    - destruct (key_matches (o_time x) t) eqn:E.
      + split.
        * intro H. inversion H; subst. exists [], r. repeat split; [apply key_matches_spec; exact E | constructor].
        * intros [pre [post [H [Hk Hpre]]]]. destruct pre as [|y pre]; simpl in H; inversion H; subst; [reflexivity|].
          inversion Hpre as [|? ? Hy _]; subst. apply key_matches_spec in E. contradiction.
      + rewrite IH. split.
        * intros [pre [post [H [Hk Hpre]]]]. exists (x :: pre), post. subst. repeat split; auto.
          constructor; [apply key_matches_false; exact E | exact Hpre].
        * intros [pre [post [H [Hk Hpre]]]]. destruct pre as [|y pre]; simpl in H; inversion H; subst.
          -- apply key_matches_false in E. contradiction.
          -- inversion Hpre; subst. exists pre, post. auto.
  Qed.

  Lemma lookup_none l t : lookup l t = None <-> Forall (fun x => ~ key_covers (o_time x) t) l.
  Proof.
    induction l as [|x r IH]; simpl; [split; [constructor | reflexivity]|].
    destruct (key_matches (o_time x) t) eqn:E.
    - split; [discriminate|]. intro H. inversion H as [|? ? Hx _]; subst. apply key_matches_spec in E. contradiction.
    - rewrite IH. split; intro H.
      + constructor; [apply key_matches_false; exact E | exact H].
      + inversion H; assumption.
  Qed.

  (* whatever lookup returns is one of the stored occupancies and covers t *)
  Lemma lookup_sound l t o : lookup l t = Some o -> In o l /\ key_covers (o_time o) t.
  Proof.
    intro H. apply lookup_some in H. destruct H as [pre [post [E [Hk _]]]]. subst. split; [|exact Hk].
    apply in_or_app. right. left. reflexivity.
  Qed.

  (* ---- Trajectory.state_at_time_step *)
  Lemma state_at_time_step_some (tr : traj S) t s : state_at_time_step tr t = Some s <->
    t_init tr <= t /\ nth_error (t_states tr) (Z.to_nat (t - t_init tr)) = Some s.
  Proof.
    unfold Occupancy.state_at_time_step.
    destruct (Z.leb_spec (t_init tr) t) as [H1|H1]; simpl.
    - destruct (Z.ltb_spec t (t_init tr + Z.of_nat (List.length (t_states tr)))) as [H2|H2].
      + tauto.
      + split; [discriminate|]. intros [_ H]. exfalso.
        assert (Hn : nth_error (t_states tr) (Z.to_nat (t - t_init tr)) <> None) by congruence.
        apply nth_error_Some in Hn. lia.
    - split; [discriminate|]. lia.
  Qed.

  Lemma state_at_time_step_defined (tr : traj S) t : (exists s, state_at_time_step tr t = Some s) <->
    t_init tr <= t < t_init tr + Z.of_nat (List.length (t_states tr)).
  Proof.
    split.
    - intros [s H]. apply state_at_time_step_some in H. destruct H as [H1 H2].
      assert (Hn : nth_error (t_states tr) (Z.to_nat (t - t_init tr)) <> None) by congruence.
      apply nth_error_Some in Hn. lia.
    - intros [H1 H2]. destruct (nth_error (t_states tr) (Z.to_nat (t - t_init tr))) as [s|] eqn:E.
      + exists s. apply state_at_time_step_some. auto.
      + apply nth_error_None in E. lia.
  Qed.

  Lemma state_at_time_step_none (tr : traj S) t : state_at_time_step tr t = None <->
    t < t_init tr \/ t_init tr + Z.of_nat (List.length (t_states tr)) <= t.
  Proof.
    destruct (state_at_time_step tr t) as [s|] eqn:E.
    - split; [discriminate|]. intro H. assert (Hd : exists s, state_at_time_step tr t = Some s) by (exists s; exact E).
      apply state_at_time_step_defined in Hd. lia.
    - split; [|reflexivity]. intros _.
      destruct (Z.lt_ge_cases t (t_init tr)) as [|H1]; [left; assumption|].
      destruct (Z.lt_ge_cases t (t_init tr + Z.of_nat (List.length (t_states tr)))) as [H2|]; [|right; lia].
      exfalso. assert (Hd : exists s, state_at_time_step tr t = Some s) by (apply state_at_time_step_defined; lia).
      destruct Hd as [s Hs]. congruence.
  Qed.

  (* DESIGN 2.7: trajectories with consecutive time steps (state i carries time step t_init + i) *)
  Fixpoint consec (t : Z) (l : list S) : bool :=
    match l with [] => true | s :: r => Z.eqb (tstep s) t && consec (t + 1) r end.
  Definition consecutive (tr : traj S) : bool := consec (t_init tr) (t_states tr).

  Lemma consec_nth : forall l t i s, consec t l = true -> nth_error l i = Some s -> tstep s = t + Z.of_nat i.
  Proof.
    induction l as [|x r IH]; intros t i s Hc Hn; [destruct i; discriminate|].
    simpl in Hc. apply andb_true_iff in Hc. destruct Hc as [Hx Hr]. apply Z.eqb_eq in Hx.
    destruct i as [|i]; simpl in Hn.
    - inversion Hn; subst. lia.
    - rewrite (IH _ _ _ Hr Hn). lia.
  Qed.

  (* the state returned for t is the one whose time step is t *)
  Lemma state_at_time_step_consecutive tr t s : consecutive tr = true ->
    (state_at_time_step tr t = Some s <-> In s (t_states tr) /\ tstep s = t).
  Proof.
    intro Hc. rewrite state_at_time_step_some. split.
    - intros [H1 H2]. split; [eapply nth_error_In; exact H2|].
      rewrite (consec_nth _ _ _ _ Hc H2). lia.
    - intros [Hin Ht]. apply In_nth_error in Hin. destruct Hin as [i Hi].
      pose proof (consec_nth _ _ _ _ Hc Hi) as E. split; [lia|].
      replace (Z.to_nat (t - t_init tr)) with i by lia. exact Hi.
  Qed.

  Lemma state_at_time_step_consecutive_none tr t : consecutive tr = true ->
    (state_at_time_step tr t = None <-> forall s, In s (t_states tr) -> tstep s <> t).
  Proof.
    intro Hc. split.
    - intros H s Hin Ht. assert (E : state_at_time_step tr t = Some s)
        by (apply state_at_time_step_consecutive; auto). congruence.
    - intro H. destruct (state_at_time_step tr t) as [s|] eqn:E; [|reflexivity].
      apply state_at_time_step_consecutive in E; [|exact Hc]. destruct E as [Hin Ht]. exfalso. exact (H s Hin Ht).
  Qed.

  (* ---- TrajectoryPrediction: the occupancy found for t is the shape placed at the first state with time step t *)
  Definition occ_of (t : Z) (s : S) : occ := {| o_time := TStep t; o_region := place s |}.

  Lemma lookup_occupancy_set_find : forall l t,
    lookup (map (fun s => {| o_time := TStep (tstep s); o_region := place s |}) l) t =
    option_map (occ_of t) (find (fun s => Z.eqb (tstep s) t) l).
  Proof.
    induction l as [|x r IH]; intro t; simpl; [reflexivity|].
    destruct (Z.eqb_spec (tstep x) t) as [E|E]; [|apply IH].
    simpl. unfold occ_of. rewrite E. reflexivity.
  Qed.

  Lemma find_consec : forall l t0 t, consec t0 l = true ->
    find (fun s => Z.eqb (tstep s) t) l = if Z.leb t0 t then nth_error l (Z.to_nat (t - t0)) else None.
  Proof.
    induction l as [|x r IH]; intros t0 t Hc; simpl.
    - destruct (Z.leb t0 t); [|reflexivity]. destruct (Z.to_nat (t - t0)); reflexivity.
    - simpl in Hc. apply andb_true_iff in Hc. destruct Hc as [Hx Hr]. apply Z.eqb_eq in Hx. rewrite Hx.
      destruct (Z.eqb_spec t0 t) as [E|E].
      + subst t. rewrite Z.leb_refl. replace (Z.to_nat (t0 - t0)) with O by lia. reflexivity.
      + rewrite (IH _ _ Hr). destruct (Z.leb_spec t0 t) as [H1|H1].
        * destruct (Z.leb_spec (t0 + 1) t) as [H2|H2]; [|lia].
          replace (Z.to_nat (t - t0)) with (Datatypes.S (Z.to_nat (t - (t0 + 1)))) by lia. reflexivity.
        * destruct (Z.leb_spec (t0 + 1) t) as [H2|H2]; [lia|reflexivity].
  Qed.

  Lemma traj_occupancy_is_placed_state tr t : consecutive tr = true ->
    pred_occupancy_at S R tstep place (PrTraj tr) t = option_map (occ_of t) (state_at_time_step tr t).
  Proof.
    intro Hc. simpl. unfold Occupancy.occupancy_set. rewrite lookup_occupancy_set_find.
    rewrite (find_consec _ _ _ Hc). unfold Occupancy.state_at_time_step.
    destruct (Z.leb_spec (t_init tr) t) as [H1|H1]; simpl; [|reflexivity].
    destruct (Z.ltb_spec t (t_init tr + Z.of_nat (List.length (t_states tr)))) as [H2|H2]; [reflexivity|].
    assert (E : nth_error (t_states tr) (Z.to_nat (t - t_init tr)) = None) by (apply nth_error_None; lia).
    rewrite E. reflexivity.
  Qed.

  (* ---- per obstacle.  [has_states o]: the obstacle's occupancies are computed from states (static, dynamic
     without prediction or with a trajectory prediction of consecutive time steps) *)
  Definition state_based (o : obstacle) : bool :=
    match o with
    | Static _ _ _ => true
    | Dynamic _ _ _ None => true
    | Dynamic _ _ _ (Some (PrTraj tr)) => consecutive tr
    | _ => false
    end.

  (* THE statement: the occupancy at t is the obstacle's shape placed at its state at t, and None when it has none *)
  Lemma occupancy_is_placed_state o t : state_based o = true ->
    occupancy_at_time o t = option_map (occ_of t) (state_at_time o t).
  Proof.
    destruct o as [i ty init|i ty init [[tr|l]|]|i p|i ty reg]; simpl; try discriminate; intro Hc.
    - reflexivity.
    - destruct (Z.eqb t (tstep init)); [reflexivity|]. destruct (Z.ltb (tstep init) t); [|reflexivity].
      exact (traj_occupancy_is_placed_state tr t Hc).
    - destruct (Z.eqb t (tstep init)); [reflexivity|]. destruct (Z.ltb (tstep init) t); reflexivity.
  Qed.

  (* for dynamic obstacles the state returned for t is the one whose time step is t *)
  Lemma dynamic_state_time i ty init pred t s : state_based (Dynamic i ty init pred) = true ->
    state_at_time (Dynamic i ty init pred) t = Some s -> tstep s = t.
  Proof.
    simpl. destruct (Z.eqb_spec t (tstep init)) as [E|E].
    - intros _ H. inversion H; subst. reflexivity.
    - destruct pred as [[tr|l]|]; try discriminate. intros Hc.
      destruct (Z.ltb (tstep init) t); [|discriminate]. intro H.
      apply (state_at_time_step_consecutive tr t s Hc) in H. tauto.
  Qed.

  (* which state: the initial one at its own time step, the trajectory's afterwards, none before / beyond *)
  Lemma dynamic_state_dispatch i ty init tr t : consecutive tr = true ->
    state_at_time (Dynamic i ty init (Some (PrTraj tr))) t =
      if Z.eqb t (tstep init) then Some init
      else if Z.ltb (tstep init) t && Z.leb (t_init tr) t && Z.ltb t (t_init tr + Z.of_nat (List.length (t_states tr)))
           then nth_error (t_states tr) (Z.to_nat (t - t_init tr)) else None.
  Proof.
    intros _. simpl. destruct (Z.eqb t (tstep init)); [reflexivity|].
    destruct (Z.ltb (tstep init) t); [|reflexivity]. reflexivity.
  Qed.

  (* None outside the horizon, something inside *)
  Lemma dynamic_occupancy_none_iff i ty init tr t : consecutive tr = true ->
    (occupancy_at_time (Dynamic i ty init (Some (PrTraj tr))) t = None <->
     t < tstep init \/ (tstep init < t /\ (t < t_init tr \/ t_init tr + Z.of_nat (List.length (t_states tr)) <= t))).
  Proof.
    intro Hc. rewrite (occupancy_is_placed_state (Dynamic i ty init (Some (PrTraj tr))) t Hc). simpl.
    destruct (Z.eqb_spec t (tstep init)) as [E|E]; simpl.
    - split; [discriminate|]. lia.
    - destruct (Z.ltb_spec (tstep init) t) as [H|H].
      + destruct (state_at_time_step tr t) as [s|] eqn:Es; simpl.
        * split; [discriminate|]. intro H'. exfalso.
          assert (Hn : state_at_time_step tr t = None) by (apply state_at_time_step_none; lia). congruence.
        * apply state_at_time_step_none in Es. split; [|reflexivity]. intros _. right. lia.
      + split; [|reflexivity]. intros _. left. lia.
  Qed.

  Lemma dynamic_no_prediction i ty init t :
    occupancy_at_time (Dynamic i ty init None) t =
      if Z.eqb t (tstep init) then Some (occ_of t init) else None.
  Proof. simpl. destruct (Z.eqb t (tstep init)); [reflexivity|]. destruct (Z.ltb (tstep init) t); reflexivity. Qed.

  (* set-based prediction: initial occupancy at t0, the first stored occupancy covering t afterwards, None before;
     no state other than the initial one *)
  Lemma dynamic_set_based i ty init l t :
    occupancy_at_time (Dynamic i ty init (Some (PrSet l))) t =
      (if Z.eqb t (tstep init) then Some (occ_of t init) else if Z.ltb (tstep init) t then lookup l t else None) /\
    state_at_time (Dynamic i ty init (Some (PrSet l))) t = (if Z.eqb t (tstep init) then Some init else None).
  Proof. simpl. split; reflexivity. Qed.

  Lemma phantom_dispatch i p t :
    occupancy_at_time (Phantom i p) t = match p with Some l => lookup l t | None => None end /\
    state_at_time (Phantom i p) t = None.
  Proof. simpl. split; reflexivity. Qed.

  (* static and environment obstacles: the same region at all times, never None *)
  Lemma static_same_region i ty init t :
    occupancy_at_time (Static i ty init) t = Some (occ_of t init) /\ state_at_time (Static i ty init) t = Some init.
  Proof. simpl. split; reflexivity. Qed.
  Lemma environment_same_region i ty reg t :
    occupancy_at_time (Env i ty reg) t = Some {| o_time := TStep t; o_region := reg |}.
  Proof. reflexivity. Qed.
  Lemma time_invariant_region o t t' : ob_role S R o = RStatic \/ ob_role S R o = REnvironment ->
    option_map (@o_region R) (occupancy_at_time o t) = option_map (@o_region R) (occupancy_at_time o t') /\
    occupancy_at_time o t <> None.
  Proof.
    destruct o; simpl; intros [H|H]; try discriminate; split; try reflexivity; discriminate.
  Qed.

  (* ---- histories: after update_initial_state the obstacle occupies the shape placed at the NEW initial state at the
     new initial time step and nothing else; after a following update_prediction the general statement applies *)
  Lemma after_update_initial_state i ty init p st t :
    occupancy_at_time (update_initial_state S R (Dynamic i ty init p) st) t =
      (if Z.eqb t (tstep st) then Some (occ_of t st) else None) /\
    state_at_time (update_initial_state S R (Dynamic i ty init p) st) t = (if Z.eqb t (tstep st) then Some st else None).
  Proof.
    simpl. destruct (Z.eqb t (tstep st)); [split; reflexivity|]. destruct (Z.ltb (tstep st) t); split; reflexivity.
  Qed.
  Lemma after_set_initial_state_static i ty init st t :
    occupancy_at_time (set_initial_state S R (Static i ty init) st) t = Some (occ_of t st).
  Proof. reflexivity. Qed.
  Lemma after_update_then_prediction i ty init p st tr t : consecutive tr = true ->
    let o := set_prediction S R (update_initial_state S R (Dynamic i ty init p) st) (Some (PrTraj tr)) in
    occupancy_at_time o t = option_map (occ_of t) (state_at_time o t) /\
    state_at_time o (tstep st) = Some st.
  Proof.
    intros Hc o. split.
    - apply occupancy_is_placed_state. exact Hc.
    - simpl. rewrite Z.eqb_refl. reflexivity.
  Qed.

  (* ---- scenario level *)
  Lemma fold_snoc {A B} (f : list B -> A -> list B) (g : A -> list B) :
    (forall acc o, f acc o = acc ++ g o) -> forall l a, fold_left f l a = a ++ flat_map g l.
  Proof.
    intros H. induction l as [|x r IH]; intro a; simpl; [rewrite app_nil_r; reflexivity|].
    rewrite IH, H, <- app_assoc. reflexivity.
  Qed.

  (* Scenario.obstacles lists every stored obstacle exactly once *)
  Lemma all_obstacles_perm (obs : list obstacle) : Permutation (all_obstacles S R obs) obs.
  Proof.
    unfold all_obstacles, is_role. induction obs as [|o r IH]; [constructor|].
    simpl. destruct (ob_role S R o); simpl.
    - constructor. exact IH.
    - symmetry. apply Permutation_cons_app. symmetry. exact IH.
    - symmetry. rewrite 2!app_assoc. apply Permutation_cons_app. rewrite <- 2!app_assoc. symmetry. exact IH.
    - symmetry. rewrite app_assoc. apply Permutation_cons_app. rewrite <- app_assoc. symmetry. exact IH.
  Qed.

  Definition occ_sel (r : option role) (t : Z) (o : obstacle) : list (Z * occ) :=
    if role_ok S R r o then match occupancy_at_time o t with Some oc => [(ob_id S R o, oc)] | None => [] end else [].

  Lemma occupancies_at_time_step_eq obs t r :
    occupancies_at_time_step S R tstep place obs t r =
      if Z.leb 0 t then Ok (flat_map (occ_sel r t) (all_obstacles S R obs)) else Err.
  Proof.
    unfold Occupancy.occupancies_at_time_step. destruct (Z.leb 0 t); [|reflexivity]. f_equal.
    rewrite (fold_snoc _ (occ_sel r t)); [reflexivity|].
    intros acc o. unfold occ_sel. destruct (role_ok S R r o); [|rewrite app_nil_r; reflexivity].
    destruct (occupancy_at_time o t); [reflexivity | rewrite app_nil_r; reflexivity].
  Qed.

  (* exactly the per-obstacle answers: one entry for every obstacle of the requested role that has an occupancy *)
  Lemma occupancies_at_time_step_spec obs t r : 0 <= t ->
    exists l, occupancies_at_time_step S R tstep place obs t r = Ok l /\
              Permutation l (flat_map (occ_sel r t) obs) /\
              (forall i oc, In (i, oc) l <->
                 exists o, In o obs /\ ob_id S R o = i /\ role_ok S R r o = true /\ occupancy_at_time o t = Some oc).
  Proof.
    intro Ht. rewrite occupancies_at_time_step_eq. destruct (Z.leb_spec 0 t) as [_|H]; [|lia].
    eexists. split; [reflexivity|]. split.
    - apply Permutation_flat_map. apply all_obstacles_perm.
    - intros i oc. rewrite in_flat_map. split.
      + intros [o [Hin H]]. exists o. split; [eapply Permutation_in; [apply all_obstacles_perm | exact Hin]|].
        unfold occ_sel in H. destruct (role_ok S R r o); [|contradiction].
        destruct (occupancy_at_time o t) as [oc'|]; [|contradiction].
        destruct H as [H|[]]. inversion H; subst. auto.
      + intros [o [Hin [Hi [Hr Ho]]]]. exists o.
        split; [eapply Permutation_in; [symmetry; apply all_obstacles_perm | exact Hin]|].
        unfold occ_sel. rewrite Hr, Ho, Hi. left. reflexivity.
  Qed.

  Lemma occupancies_at_time_step_negative obs t r : t < 0 -> occupancies_at_time_step S R tstep place obs t r = Err.
  Proof. intro H. rewrite occupancies_at_time_step_eq. destruct (Z.leb_spec 0 t); [lia|reflexivity]. Qed.

  Definition type_sel (r : option role) (ty : option Z) (o : obstacle) : list Z :=
    if role_ok S R r o && type_ok S R ty o then [ob_id S R o] else [].

  Lemma obstacles_by_role_and_type_spec obs r ty :
    Permutation (obstacles_by_role_and_type S R obs r ty) (flat_map (type_sel r ty) obs) /\
    (forall i, In i (obstacles_by_role_and_type S R obs r ty) <->
       exists o, In o obs /\ ob_id S R o = i /\ role_ok S R r o = true /\ type_ok S R ty o = true).
  Proof.
    unfold Occupancy.obstacles_by_role_and_type.
    rewrite (fold_snoc _ (type_sel r ty)).
    2:{ intros acc o. unfold type_sel. destruct (role_ok S R r o && type_ok S R ty o); [reflexivity | rewrite app_nil_r; reflexivity]. }
    simpl. split; [apply Permutation_flat_map; apply all_obstacles_perm|].
    intro i. rewrite in_flat_map. split.
    - intros [o [Hin H]]. exists o. split; [eapply Permutation_in; [apply all_obstacles_perm | exact Hin]|].
      unfold type_sel in H. destruct (role_ok S R r o && type_ok S R ty o) eqn:E; [|contradiction].
      apply andb_true_iff in E. destruct H as [H|[]]. tauto.
    - intros [o [Hin [Hi [Hr Hty]]]]. exists o.
      split; [eapply Permutation_in; [symmetry; apply all_obstacles_perm | exact Hin]|].
      unfold type_sel. rewrite Hr, Hty. left. exact Hi.
  Qed.

  Lemma in_filter_role r (o : obstacle) obs : In o (filter (is_role S R r) obs) <-> In o obs /\ ob_role S R o = r.
  Proof.
    rewrite filter_In. unfold is_role. destruct (ob_role S R o), r; simpl; split; intros [H1 H2]; split; auto; discriminate.
  Qed.

  (* obstacle_states_at_time_step: the states of exactly the static and dynamic obstacles that have one at t *)
  Lemma obstacle_states_at_time_step_spec obs t : 0 <= t ->
    exists l, obstacle_states_at_time_step S R tstep obs t = Ok l /\
      (forall i s, In (i, s) l <->
         exists o, In o obs /\ ob_id S R o = i /\ (ob_role S R o = RStatic \/ ob_role S R o = RDynamic) /\
                   state_at_time o t = Some s).
  Proof.
    intro Ht. unfold Occupancy.obstacle_states_at_time_step. destruct (Z.leb_spec 0 t) as [_|H]; [|lia].
    eexists. split; [reflexivity|].
    rewrite (fold_snoc _ (fun o => match o with Static i _ init => [(i, init)] | _ => [] end)).
    2:{ intros acc o. destruct o; try (rewrite app_nil_r); reflexivity. }
    rewrite (fold_snoc _ (fun o => match state_at_time o t with Some s => [(ob_id S R o, s)] | None => [] end)).
    2:{ intros acc o. destruct (state_at_time o t); try (rewrite app_nil_r); reflexivity. }
    simpl. intros i s. rewrite in_app_iff, !in_flat_map. split.
    - intros [[o [Hin H]]|[o [Hin H]]]; apply in_filter_role in Hin; destruct Hin as [Hin Hr]; exists o.
      + destruct (state_at_time o t) as [s'|] eqn:E; [|contradiction]. destruct H as [H|[]]. inversion H; subst. auto.
      + destruct o; try contradiction. destruct H as [H|[]]. inversion H; subst. simpl. auto.
    - intros [o [Hin [Hi [[Hr|Hr] Hs]]]].
      + right. exists o. split; [apply in_filter_role; auto|]. destruct o; try discriminate. simpl in *.
        inversion Hs; subst. left. reflexivity.
      + left. exists o. split; [apply in_filter_role; auto|]. rewrite Hs, Hi. left. reflexivity.
  Qed.
  Lemma obstacle_states_at_time_step_negative obs t : t < 0 -> obstacle_states_at_time_step S R tstep obs t = Err.
  Proof. intro H. unfold Occupancy.obstacle_states_at_time_step. destruct (Z.leb_spec 0 t); [lia|reflexivity]. Qed.

  (* obstacles_by_position_intervals *)
  Variable rcenter : R -> option (Q * Q).
  Variable spos : S -> option (Q * Q).
  Variable inside : Q * Q -> bool.

  (* the per-obstacle criterion: the centre of the occupancy at t (dynamic, phantom), of the initial position
     (static), of the stored shape (environment) lies in the box; a region without a centre always counts *)
  Definition pos_sel (t : Z) (o : obstacle) : bool :=
    match o with
    | Static _ _ init => match spos init with Some c => inside c | None => true end
    | Env _ _ reg => match rcenter reg with None => true | Some c => inside c end
    | _ => match occupancy_at_time o t with Some oc => centre_ok R rcenter inside oc | None => false end
    end.

  Lemma by_position_spec obs roles t i :
    In i (by_position S R tstep place rcenter spos inside obs roles t) <->
    exists o, In o obs /\ ob_id S R o = i /\ existsb (role_eqb (ob_role S R o)) roles = true /\ pos_sel t o = true.
  Proof.
    unfold by_position.
    assert (P : forall r (f : obstacle -> bool), In i ((if existsb (role_eqb r) roles
                   then fold_left (fun acc o => if f o then acc ++ [ob_id S R o] else acc) (filter (is_role S R r) obs) []
                   else [])) <->
                exists o, In o obs /\ ob_id S R o = i /\ ob_role S R o = r /\ existsb (role_eqb r) roles = true /\ f o = true).
    { intros r f. destruct (existsb (role_eqb r) roles).
      - rewrite (fold_snoc _ (fun o => if f o then [ob_id S R o] else [])).
        2:{ intros acc o. destruct (f o); [reflexivity | rewrite app_nil_r; reflexivity]. }
        simpl. rewrite in_flat_map. split.
        + intros [o [Hin H]]. apply in_filter_role in Hin. destruct Hin. exists o. destruct (f o); [|contradiction].
          destruct H as [H|[]]. auto.
        + intros [o [Hin [Hi [Hr [_ Hf]]]]]. exists o. split; [apply in_filter_role; auto|]. rewrite Hf. left. exact Hi.
      - split; [contradiction|]. intros [o [_ [_ [_ [H _]]]]]. discriminate. }
    rewrite !in_app_iff, !P. split.
    - intros [H|[H|[H|H]]]; destruct H as [o [Hin [Hi [Hr [He Hf]]]]]; exists o; rewrite Hr;
        (split; [exact Hin|]; split; [exact Hi|]; split; [exact He|]); destruct o; try discriminate; exact Hf.
    - intros [o [Hin [Hi [He Hp]]]]. destruct o as [j ty init|j ty init pr|j pr|j ty reg].
      + right. right. left. exists (Static j ty init). auto.
      + left. exists (Dynamic j ty init pr). auto.
      + right. left. exists (Phantom j pr). auto.
      + right. right. right. exists (Env j ty reg). auto.
  Qed.
End DispatchP.

(* ================================================================== (ii) placement for exact states *)
Open Scope Q_scope.

Lemma Forall2_map_same {A B} (Rl : B -> B -> Prop) (f g : A -> B) (l : list A) :
  (forall x, Rl (f x) (g x)) -> Forall2 Rl (map f l) (map g l).
Proof. intro H. induction l; simpl; constructor; auto. Qed.

(* the coefficient choice of rotation_translation_matrix ((1,0) when the angle is exactly 0) is invisible when
   the oracle values are exact at 0: cos 0 = 1, sin 0 = 0 *)
Definition exact_at_zero (a c s : Q) : Prop := a == 0 -> c == 1 /\ s == 0.

Lemma coef_rt_exact a c s : exact_at_zero a c s -> fst (coef_rt a c s) == c /\ snd (coef_rt a c s) == s.
Proof.
  intro H. unfold coef_rt. destruct (Qeq_bool a 0) eqn:E; simpl.
  - apply Qeq_bool_iff in E. destruct (H E) as [Hc Hs]. split; symmetry; assumption.
  - split; reflexivity.
Qed.

(* Rectangle.vertices: centre + R(orientation) corner, for the five stored corners *)
Lemma rect_vertices_closed l w ctr o c s : exact_at_zero o c s ->
  Forall2 pt_eq (rect_vertices l w ctr o c s) (map (fun k => padd ctr (rot c s k)) (rect_corners l w)).
Proof.
  intro H. destruct (coef_rt_exact _ _ _ H) as [E1 E2].
  unfold rect_vertices, rotate_translate_pts. apply Forall2_map_same. intros [x y]. destruct ctr as [cx cy].
  unfold pt_eq, mapply, rotation_translation_matrix, padd, rot, px, py; simpl.
  rewrite E1, E2. split; ring.
Qed.

Section PlaceP.
  Variable tau : Q.
  Hypothesis tau_pos : 0 < tau.
  Variable fuel : nat.
  Variable pos : pt.
  Variables th c s : Q.          (* the state's orientation and the oracle values cos th, sin th *)

  Notation rtl := (rotate_translate_local tau fuel pos th c s).

  (* a placed vertex: rotated about the reference point g by th, then shifted by pos *)
  Lemma place_vertex_coords g v :
    px (place_vertex g pos c s v) == px g + (c * (px v - px g) - s * (py v - py g)) + px pos /\
    py (place_vertex g pos c s v) == py g + (s * (px v - px g) + c * (py v - py g)) + py pos.
  Proof. destruct g, v, pos. unfold place_vertex, padd, pneg, rot, px, py; simpl. split; ring. Qed.

  (* ... which is R(th) v + pos when the reference point is the origin *)
  Lemma place_vertex_origin g v : pt_eq g (0, 0) -> pt_eq (place_vertex g pos c s v) (padd (rot c s v) pos).
  Proof.
    destruct g as [gx gy], v, pos. unfold pt_eq, place_vertex, padd, pneg, rot, px, py; simpl.
    intros [Hx Hy]. rewrite Hx, Hy. split; ring.
  Qed.

  (* what "sh' is sh placed at (pos, th)" means, shape kind by shape kind and member-wise through groups *)
  Inductive placed : shape -> shape -> Prop :=
  | PlRect l w ctr o o' : (exists k : Z, o' == o + th + inject_Z k * tau) -> - tau <= o' <= tau ->
                          placed (Rect l w ctr o) (Rect l w (padd ctr pos) o')
  | PlCirc r ctr : placed (Circ r ctr) (Circ r (padd ctr pos))
  | PlPoly vs : placed (Poly vs) (Poly (map (place_vertex (centroid vs) pos c s) vs))
  | PlGroup ms ms' : Forall2 placed ms ms' -> placed (Group ms) (Group ms').

  Lemma rtl_group_go ms :
    (fix go (l : list shape) : res (list shape) :=
       match l with
       | [] => Ok []
       | x :: r => do y <- rtl x; do ys <- go r; Ok (y :: ys)
       end) ms = mapM rtl ms.
  Proof. induction ms as [|x r IH]; [reflexivity|]. simpl. rewrite IH. reflexivity. Qed.

  Lemma rtl_group ms : rtl (Group ms) =
    if valid_orientation tau th then do ms' <- mapM rtl ms; Ok (Group ms') else Err.
  Proof. simpl. rewrite rtl_group_go. reflexivity. Qed.

  Lemma rtl_placed : forall sh sh', rtl sh = Ok sh' -> placed sh sh'.
  Proof.
    induction sh as [l w ctr o|r ctr|vs|ms IH] using shape_ind'; intros sh' H.
    - simpl in H. apply bind_ok in H. destruct H as [o' [E H]].
      destruct (valid_orientation tau o'); [|discriminate]. inversion H; subst.
      unfold shift_orient in E. destruct (make_valid_orientation tau fuel (o + th)) as [y|] eqn:Ey; [|discriminate].
      inversion E; subst. destruct (mvo_spec tau tau_pos _ _ _ Ey) as [A B]. constructor; assumption.
    - simpl in H. inversion H; subst. constructor.
    - simpl in H. destruct (valid_orientation tau th); [|discriminate]. inversion H; subst. constructor.
    - rewrite rtl_group in H. destruct (valid_orientation tau th); [|discriminate].
      apply bind_ok in H. destruct H as [ms' [E H]]. inversion H; subst. constructor.
      eapply mapM_Forall2; [|exact E]. exact IH.
  Qed.

  (* the call raises only on an invalid angle / invalid rectangle orientation *)
  Lemma rtl_total : (3 <= fuel)%nat -> valid_orientation tau th = true ->
    forall sh, valid_shape tau sh = true -> exists sh', rtl sh = Ok sh'.
  Proof.
    intros Hf Hth. induction sh as [l w ctr o|r ctr|vs|ms IH] using shape_ind'; intro V.
    - simpl in V. destruct (shift_orient_total tau tau_pos fuel th Hf Hth o V) as [o' E]. simpl. rewrite E. simpl.
      unfold shift_orient in E. destruct (make_valid_orientation tau fuel (o + th)) as [y|] eqn:Ey; [|discriminate].
      inversion E; subst. destruct (mvo_spec tau tau_pos _ _ _ Ey) as [_ [B1 B2]].
      assert (Vo : valid_orientation tau o' = true).
      { unfold valid_orientation. rewrite andb_true_iff, !Qle_bool_iff. split; assumption. }
      rewrite Vo. eexists; reflexivity.
    - simpl. eexists; reflexivity.
    - simpl. rewrite Hth. eexists; reflexivity.
    - rewrite rtl_group, Hth. simpl in V.
      destruct (mapM_total rtl ms) as [ms' E].
      { rewrite forallb_forall in V. rewrite Forall_forall in *. intros x Hx. apply IH; auto. }
      rewrite E. simpl. eexists; reflexivity.
  Qed.

  (* rectangle: the corners of the placed rectangle are the placed corners of the rectangle (rotation about its
     centre), given the addition theorem for the oracle values of orientation + th *)
  Lemma rect_vertices_placed l w ctr o co so o' c' s' :
    exact_at_zero o co so -> exact_at_zero o' c' s' -> c' == co * c - so * s -> s' == so * c + co * s ->
    Forall2 pt_eq (rect_vertices l w (padd ctr pos) o' c' s')
                  (map (place_vertex ctr pos c s) (rect_vertices l w ctr o co so)).
  Proof.
    intros H0 H1 Hc Hs. destruct (coef_rt_exact _ _ _ H0) as [E1 E2]. destruct (coef_rt_exact _ _ _ H1) as [E3 E4].
    unfold rect_vertices, rotate_translate_pts. rewrite map_map. apply Forall2_map_same. intros [x y].
    destruct ctr as [cx cy], pos as [tx ty].
    unfold pt_eq, place_vertex, mapply, rotation_translation_matrix, padd, pneg, rot, px, py; simpl.
    rewrite E1, E2, E3, E4, Hc, Hs. split; ring.
  Qed.
End PlaceP.

(* ================================================================== (iii) enclosure for uncertain states *)
Lemma abs_mul_le a x B : - B <= x -> x <= B -> - (Qabs a * B) <= a * x /\ a * x <= Qabs a * B.
Proof.
  intros H1 H2. destruct (Qlt_le_dec a 0) as [Ha|Ha].
  - rewrite (Qabs_neg a) by lra. split; nra.
  - rewrite (Qabs_pos a) by lra. split; nra.
Qed.

Lemma sq_nonneg z : 0 <= z * z.
Proof. destruct (Qlt_le_dec z 0); nra. Qed.

Lemma sq_le_abs a b : 0 <= b -> a * a <= b * b -> - b <= a /\ a <= b.
Proof. intros. split; nra. Qed.

Definition in_box (b : box) (p : pt) : Prop :=
  b_minx b <= px p /\ px p <= b_maxx b /\ b_miny b <= py p /\ py p <= b_maxy b.
(* p rotated about c0 with coefficients (c, s) *)
Definition rot_about (c0 : pt) (c s : Q) (p : pt) : pt := padd c0 (rot c s (padd p (pneg c0))).

(* the positions a position measurement admits: the exact point; a Rectangle / Polygon region: every point that,
   rotated by -psi_d about the region's centre, lies within the measured bounds of the rotated region (which holds
   for every point of the region when the bounds are those of the rotated region); a Circle region: the disc *)
Definition pos_admissible (pm : pos_meas) (cd sd : Q) (p : pt) : Prop :=
  match pm with
  | PMExact p0 => pt_eq p p0
  | PMBox c0 b => in_box b (rot_about c0 cd (- sd) p)
  | PMCirc c0 r => 0 <= r /\ dist2 p c0 <= r * r
  | PMGroup => False
  end.

(* the algebraic facts about the oracle values that the enclosure formula relies on *)
Record orc_ok (off_v : pt) (orc : enc_oracle) : Prop := {
  ok_unit_d : cos_d orc * cos_d orc + sin_d orc * sin_d orc == 1;
  ok_half : 0 <= sin_half orc;
  ok_norm : 0 <= norm_off orc;
  ok_norm2 : norm_off orc * norm_off orc == px off_v * px off_v + py off_v * py off_v
}.
(* an admissible deviation delta = th - psi_d of the orientation, |delta| <= delta_psi, through its cos / sin:
   l cos d + w sin d does not exceed its value at delta_psi_l = min(delta_psi, arctan(w/l)) (likewise with l, w
   swapped), and sin^2(d/2) <= sin^2(delta_psi/2) *)
Record dev_ok (l_v w_v : Q) (orc : enc_oracle) (cdl sdl : Q) : Prop := {
  dev_unit : cdl * cdl + sdl * sdl == 1;
  dev_len : l_v * Qabs cdl + w_v * Qabs sdl <= l_v * cos_l orc + w_v * sin_l orc;
  dev_wid : w_v * Qabs cdl + l_v * Qabs sdl <= w_v * cos_w orc + l_v * sin_w orc;
  dev_half : 2 - 2 * cdl <= 4 * (sin_half orc * sin_half orc)
}.

(* part of dev_len that IS algebra.  saturated case (delta_psi >= arctan(w/l)): delta_psi_l = arctan(w/l), whose
   cos / sin are l/d, w/d with d = sqrt(l^2 + w^2); then the bound holds for every unit vector (Cauchy-Schwarz) *)
Lemma dev_len_saturated l w d cl sl a b :
  0 <= l -> 0 <= w -> 0 < d -> d * d == l * l + w * w -> cl * d == l -> sl * d == w ->
  a * a + b * b == 1 -> l * Qabs a + w * Qabs b <= l * cl + w * sl.
Proof.
  intros Hl Hw Hd Hdd Hcl Hsl Hu.
  assert (E : l * cl + w * sl == d).
  { assert (E1 : d * (l * cl + w * sl) == d * d).
    { rewrite Hdd. setoid_replace (d * (l * cl + w * sl)) with (l * (cl * d) + w * (sl * d)) by ring.
      rewrite Hcl, Hsl. ring. }
    apply (Qmult_inj_l _ _ d); [lra | exact E1]. }
  rewrite E.
  assert (Ha : Qabs a * Qabs a == a * a).
  { destruct (Qlt_le_dec a 0); [rewrite (Qabs_neg a) by lra | rewrite (Qabs_pos a) by lra]; ring. }
  assert (Hb : Qabs b * Qabs b == b * b).
  { destruct (Qlt_le_dec b 0); [rewrite (Qabs_neg b) by lra | rewrite (Qabs_pos b) by lra]; ring. }
  pose proof (Qabs_nonneg a) as Na. pose proof (Qabs_nonneg b) as Nb.
  set (x := Qabs a) in *. set (y := Qabs b) in *.
  assert (S : (l * x + w * y) * (l * x + w * y) <= d * d).
  { assert (I : (l * x + w * y) * (l * x + w * y) + (l * y - w * x) * (l * y - w * x)
                == (l * l + w * w) * (x * x + y * y)) by ring.
    assert (P : 0 <= (l * y - w * x) * (l * y - w * x)) by apply sq_nonneg.
    rewrite Ha, Hb, Hu in I. lra. }
  apply sq_le_abs in S; lra.
Qed.
(* unsaturated case (delta_psi < arctan(w/l)): delta_psi_l = delta_psi with cos / sin (c2, s2), where
   w c2 - l s2 >= 0 (tan delta_psi <= w/l); an angle d = delta_psi - e, 0 <= e, has cos d = c2 ce + s2 se,
   sin d = s2 ce - c2 se (subtraction theorem) with ce <= 1, 0 <= se *)
Lemma dev_len_unsaturated l w c2 s2 ce se a b :
  ce <= 1 -> 0 <= se -> 0 <= l * c2 + w * s2 -> 0 <= w * c2 - l * s2 ->
  a == c2 * ce + s2 * se -> b == s2 * ce - c2 * se -> l * a + w * b <= l * c2 + w * s2.
Proof.
  intros H1 H2 H3 H4 Ha Hb. rewrite Ha, Hb.
  setoid_replace (l * (c2 * ce + s2 * se) + w * (s2 * ce - c2 * se))
    with (ce * (l * c2 + w * s2) - se * (w * c2 - l * s2)) by ring.
  nra.
Qed.

Lemma box_len_eq b u : in_box b u -> box_len b == b_maxx b - b_minx b /\ box_wid b == b_maxy b - b_miny b.
Proof.
  intros [H1 [H2 [H3 H4]]]. unfold box_len, box_wid. rewrite !Qabs_pos by lra. split; reflexivity.
Qed.

Section EnclosureP.
  Variable orc : enc_oracle.
  Notation cd := (cos_d orc).
  Notation sd := (sin_d orc).

  (* position part: in the frame of the returned rectangle the admissible positions deviate from
     centre + offset_s by at most (l_s/2, w_s/2) *)
  Definition pos_params (pm : pos_meas) : Q * Q * pt * pt :=
    match pm with
    | PMExact p => (0, 0, p, (0, 0))
    | PMBox c0 b => (box_len b, box_wid b, c0, padd (box_mid b) (pneg c0))
    | PMCirc c0 r => (2 * r, 2 * r, c0, (0, 0))
    | PMGroup => (0, 0, (0, 0), (0, 0))
    end.

  Lemma pos_part pm p l_s w_s ctr off_s :
    cd * cd + sd * sd == 1 -> pos_admissible pm cd sd p -> pos_params pm = (l_s, w_s, ctr, off_s) ->
    let dx := px p - px ctr in let dy := py p - py ctr in
    (- ((1 # 2) * l_s) <= cd * dx + sd * dy - px off_s /\ cd * dx + sd * dy - px off_s <= (1 # 2) * l_s) /\
    (- ((1 # 2) * w_s) <= - sd * dx + cd * dy - py off_s /\ - sd * dx + cd * dy - py off_s <= (1 # 2) * w_s).
  Proof.
    intros Hu Ha Hp. destruct pm as [p0|c0 b|c0 r|]; simpl in Hp; inversion Hp; subst; clear Hp; simpl in *.
    - destruct Ha as [Hx Hy]. unfold px, py in *. simpl. rewrite Hx, Hy. split; split; ring_simplify; lra.
    - pose proof (box_len_eq _ _ Ha) as [El Ew]. rewrite El, Ew.
      destruct Ha as [H1 [H2 [H3 H4]]]. destruct p as [x y], ctr as [cx cy].
      unfold rot_about, box_mid, padd, pneg, rot, px, py in *; simpl in *.
      split; split; lra.
    - destruct Ha as [Hr Hd]. destruct p as [x y], ctr as [cx cy]. unfold dist2, px, py in *; simpl in *.
      set (dx := x - cx) in *. set (dy := y - cy) in *.
      assert (I : (cd * dx + sd * dy) * (cd * dx + sd * dy) + (- sd * dx + cd * dy) * (- sd * dx + cd * dy)
                  == (cd * cd + sd * sd) * (dx * dx + dy * dy)) by ring.
      rewrite Hu in I.
      assert (P1 : 0 <= (cd * dx + sd * dy) * (cd * dx + sd * dy)) by apply sq_nonneg.
      assert (P2 : 0 <= (- sd * dx + cd * dy) * (- sd * dx + cd * dy)) by apply sq_nonneg.
      assert (S1 : (cd * dx + sd * dy) * (cd * dx + sd * dy) <= r * r) by lra.
      assert (S2 : (- sd * dx + cd * dy) * (- sd * dx + cd * dy) <= r * r) by lra.
      apply sq_le_abs in S1; [|exact Hr]. apply sq_le_abs in S2; [|exact Hr]. split; split; lra.
    - contradiction.
  Qed.

  (* rotating the offset of the bounding-box centre by the deviation moves it by at most arc *)
  Lemma arc_part off_v cdl sdl : orc_ok off_v orc -> cdl * cdl + sdl * sdl == 1 ->
    2 - 2 * cdl <= 4 * (sin_half orc * sin_half orc) ->
    let arc := 2 * norm_off orc * sin_half orc in
    let qx := (cdl - 1) * px off_v - sdl * py off_v in
    let qy := sdl * px off_v + (cdl - 1) * py off_v in
    (- arc <= qx /\ qx <= arc) /\ (- arc <= qy /\ qy <= arc).
  Proof.
    intros [_ Hh Hn Hn2] Hu Hd arc qx qy.
    set (n := norm_off orc) in *. set (h := sin_half orc) in *. set (ox := px off_v) in *. set (oy := py off_v) in *.
    assert (I : qx * qx + qy * qy == (2 - 2 * cdl) * (n * n)).
    { unfold qx, qy. rewrite Hn2.
      setoid_replace ((2 - 2 * cdl) * (ox * ox + oy * oy))
        with ((cdl * cdl + sdl * sdl + 1 - 2 * cdl) * (ox * ox + oy * oy)) by (rewrite Hu; ring).
      ring. }
    assert (Pn : 0 <= n * n) by apply sq_nonneg.
    assert (B : (2 - 2 * cdl) * (n * n) <= arc * arc).
    { unfold arc. setoid_replace (2 * n * h * (2 * n * h)) with (4 * (h * h) * (n * n)) by ring. nra. }
    assert (Pa : 0 <= arc) by (unfold arc; nra).
    assert (P1 : 0 <= qx * qx) by apply sq_nonneg. assert (P2 : 0 <= qy * qy) by apply sq_nonneg.
    assert (S1 : qx * qx <= arc * arc) by lra. assert (S2 : qy * qy <= arc * arc) by lra.
    apply sq_le_abs in S1; [|exact Pa]. apply sq_le_abs in S2; [|exact Pa]. tauto.
  Qed.

  (* a point of the bounding box, rotated by the deviation about the box centre, stays within the widened extents *)
  Lemma dev_part b u cdl sdl : in_box b u -> dev_ok (box_len b) (box_wid b) orc cdl sdl ->
    let l_v := box_len b in let w_v := box_wid b in
    let l_psi := Qabs ((1 - cos_l orc) * l_v - sin_l orc * w_v) in
    let w_psi := Qabs ((1 - cos_w orc) * w_v - sin_w orc * l_v) in
    let ex := px u - px (box_mid b) in let ey := py u - py (box_mid b) in
    (- ((1 # 2) * (l_v + l_psi)) <= cdl * ex - sdl * ey /\ cdl * ex - sdl * ey <= (1 # 2) * (l_v + l_psi)) /\
    (- ((1 # 2) * (w_v + w_psi)) <= sdl * ex + cdl * ey /\ sdl * ex + cdl * ey <= (1 # 2) * (w_v + w_psi)).
  Proof.
    intros Hb [_ Hl Hw _]. pose proof (box_len_eq _ _ Hb) as [El Ew]. intros l_v w_v l_psi w_psi ex ey.
    pose proof (Qle_Qabs (- ((1 - cos_l orc) * l_v - sin_l orc * w_v))) as A1. rewrite Qabs_opp in A1. fold l_psi in A1.
    pose proof (Qle_Qabs (- ((1 - cos_w orc) * w_v - sin_w orc * l_v))) as A2. rewrite Qabs_opp in A2. fold w_psi in A2.
    fold l_v w_v in Hl, Hw, El, Ew.
    destruct Hb as [H1 [H2 [H3 H4]]].
    assert (Bx : - ((1 # 2) * l_v) <= ex /\ ex <= (1 # 2) * l_v).
    { unfold ex, box_mid, px, py in *; simpl. lra. }
    assert (By : - ((1 # 2) * w_v) <= ey /\ ey <= (1 # 2) * w_v).
    { unfold ey, box_mid, px, py in *; simpl. lra. }
    destruct Bx as [Bx1 Bx2]. destruct By as [By1 By2].
    pose proof (abs_mul_le cdl ex _ Bx1 Bx2) as [C1 C2]. pose proof (abs_mul_le sdl ey _ By1 By2) as [C3 C4].
    pose proof (abs_mul_le sdl ex _ Bx1 Bx2) as [C5 C6]. pose proof (abs_mul_le cdl ey _ By1 By2) as [C7 C8].
    set (ac := Qabs cdl) in *. set (asn := Qabs sdl) in *.
    split; split; lra.
  Qed.

  (* MAIN: polygon / rectangle shapes (bounding box b, centre of rotation ref) *)
  Theorem enclosure1_encloses b ref pm om L W C psi :
    enclosure1 (box_len b) (box_wid b) ref (padd (box_mid b) (pneg ref)) pm om orc = Ok (Rect L W C psi) ->
    orc_ok (padd (box_mid b) (pneg ref)) orc ->
    forall u p cdl sdl,
      in_box b u -> pos_admissible pm cd sd p -> dev_ok (box_len b) (box_wid b) orc cdl sdl ->
      in_rect L W C cd sd (place_vertex ref p (cd * cdl - sd * sdl) (sd * cdl + cd * sdl) u).
  Proof.
    intros He Hok u p cdl sdl Hu Hp Hdev.
    pose proof (ok_unit_d _ _ Hok) as Hud.
    destruct (pos_params pm) as [[[l_s w_s] ctr] off_s] eqn:Epp.
    pose proof (pos_part pm p l_s w_s ctr off_s Hud Hp Epp) as Hpos. cbv zeta in Hpos.
    pose proof (arc_part _ cdl sdl Hok (dev_unit _ _ _ _ _ Hdev) (dev_half _ _ _ _ _ Hdev)) as Harc. cbv zeta in Harc.
    pose proof (dev_part b u cdl sdl Hu Hdev) as Hd. cbv zeta in Hd.
    assert (EL : L == l_s + box_len b + Qabs ((1 - cos_l orc) * box_len b - sin_l orc * box_wid b)
                      + 2 * (2 * norm_off orc * sin_half orc) /\
                 W == w_s + box_wid b + Qabs ((1 - cos_w orc) * box_wid b - sin_w orc * box_len b)
                      + 2 * (2 * norm_off orc * sin_half orc) /\
                 C = padd (padd ctr ref) (rot cd sd (padd off_s (padd (box_mid b) (pneg ref))))).
    { unfold enclosure1 in He. destruct pm as [p0|c0 bb|c0 r|]; simpl in Epp; inversion Epp; subst;
        try discriminate; inversion He; subst; repeat split; reflexivity. }
    destruct EL as [EL [EW EC]]. subst C. clear He Epp.
    set (l_psi := Qabs ((1 - cos_l orc) * box_len b - sin_l orc * box_wid b)) in *.
    set (w_psi := Qabs ((1 - cos_w orc) * box_wid b - sin_w orc * box_len b)) in *.
    set (arc := 2 * norm_off orc * sin_half orc) in *.
    set (l_v := box_len b) in *. set (w_v := box_wid b) in *.
    destruct u as [ux uy], p as [x y], ctr as [cx cy], ref as [rx ry], off_s as [osx osy].
    remember (box_mid b) as mid eqn:Emid. destruct mid as [mx my].
    unfold in_rect, place_vertex, padd, pneg, rot, px, py in *; cbn [fst snd] in *.
    set (A := cd * (x - cx) + sd * (y - cy)) in *. set (A' := - sd * (x - cx) + cd * (y - cy)) in *.
    set (ex := ux - mx) in *. set (ey := uy - my) in *.
    set (ovx := mx - rx) in *. set (ovy := my - ry) in *.
    set (U := cd * (rx + ((cd * cdl - sd * sdl) * (ux + - rx) - (sd * cdl + cd * sdl) * (uy + - ry)) + x
                    + - (cx + rx + (cd * (osx + (mx + - rx)) - sd * (osy + (my + - ry)))))
              + sd * (ry + ((sd * cdl + cd * sdl) * (ux + - rx) + (cd * cdl - sd * sdl) * (uy + - ry)) + y
                      + - (cy + ry + (sd * (osx + (mx + - rx)) + cd * (osy + (my + - ry)))))).
    set (V := - sd * (rx + ((cd * cdl - sd * sdl) * (ux + - rx) - (sd * cdl + cd * sdl) * (uy + - ry)) + x
                    + - (cx + rx + (cd * (osx + (mx + - rx)) - sd * (osy + (my + - ry)))))
              + cd * (ry + ((sd * cdl + cd * sdl) * (ux + - rx) + (cd * cdl - sd * sdl) * (uy + - ry)) + y
                      + - (cy + ry + (sd * (osx + (mx + - rx)) + cd * (osy + (my + - ry)))))).
    assert (EU : U == (A - osx) + (cdl * ex - sdl * ey) + ((cdl - 1) * ovx - sdl * ovy)).
    { transitivity ((A - osx) + (cdl * ex - sdl * ey) + ((cdl - 1) * ovx - sdl * ovy)
                    + (cd * cd + sd * sd - 1) * (cdl * (ux - rx) - sdl * (uy - ry) - (osx + ovx))).
      - unfold U, A, ex, ey, ovx, ovy. ring.
      - rewrite Hud. ring. }
    assert (EV : V == (A' - osy) + (sdl * ex + cdl * ey) + (sdl * ovx + (cdl - 1) * ovy)).
    { transitivity ((A' - osy) + (sdl * ex + cdl * ey) + (sdl * ovx + (cdl - 1) * ovy)
                    + (cd * cd + sd * sd - 1) * (sdl * (ux - rx) + cdl * (uy - ry) - (osy + ovy))).
      - unfold V, A', ex, ey, ovx, ovy. ring.
      - rewrite Hud. ring. }
    subst ovx ovy. destruct Hpos as [[? ?] [? ?]], Harc as [[? ?] [? ?]], Hd as [[? ?] [? ?]].
    split; apply Qabs_Qle_condition; rewrite ?EU, ?EV, ?EL, ?EW; split; lra.
  Qed.

  (* MAIN: circle shapes; a disc does not care about the orientation *)
  Theorem enclosure1_encloses_circle r ctr0 pm om L W C psi :
    enclosure1 (2 * r) (2 * r) ctr0 (0, 0) pm om orc = Ok (Rect L W C psi) ->
    orc_ok (0, 0) orc -> 0 <= r ->
    forall p e, pos_admissible pm cd sd p -> px e * px e + py e * py e <= r * r ->
      in_rect L W C cd sd (padd (padd ctr0 p) e).
  Proof.
    intros He Hok Hr p e Hp Hee.
    pose proof (ok_unit_d _ _ Hok) as Hud.
    destruct (pos_params pm) as [[[l_s w_s] ctr] off_s] eqn:Epp.
    pose proof (pos_part pm p l_s w_s ctr off_s Hud Hp Epp) as Hpos. cbv zeta in Hpos.
    assert (EL : L == l_s + 2 * r + Qabs ((1 - cos_l orc) * (2 * r) - sin_l orc * (2 * r))
                      + 2 * (2 * norm_off orc * sin_half orc) /\
                 W == w_s + 2 * r + Qabs ((1 - cos_w orc) * (2 * r) - sin_w orc * (2 * r))
                      + 2 * (2 * norm_off orc * sin_half orc) /\
                 C = padd (padd ctr ctr0) (rot cd sd (padd off_s (0, 0)))).
    { unfold enclosure1 in He. destruct pm as [p0|c0 bb|c0 r0|]; simpl in Epp; inversion Epp; subst;
        try discriminate; inversion He; subst; repeat split; reflexivity. }
    destruct EL as [EL [EW EC]]. subst C. clear He Epp.
    pose proof (Qabs_nonneg ((1 - cos_l orc) * (2 * r) - sin_l orc * (2 * r))) as N1.
    pose proof (Qabs_nonneg ((1 - cos_w orc) * (2 * r) - sin_w orc * (2 * r))) as N2.
    set (l_psi := Qabs ((1 - cos_l orc) * (2 * r) - sin_l orc * (2 * r))) in *.
    set (w_psi := Qabs ((1 - cos_w orc) * (2 * r) - sin_w orc * (2 * r))) in *.
    assert (Parc : 0 <= 2 * norm_off orc * sin_half orc).
    { pose proof (ok_half _ _ Hok). pose proof (ok_norm _ _ Hok). nra. }
    set (arc := 2 * norm_off orc * sin_half orc) in *.
    destruct e as [ex ey], p as [x y], ctr as [cx cy], ctr0 as [rx ry], off_s as [osx osy].
    unfold in_rect, padd, pneg, rot, px, py in *; cbn [fst snd] in *.
    set (A := cd * (x - cx) + sd * (y - cy)) in *. set (A' := - sd * (x - cx) + cd * (y - cy)) in *.
    set (g := cd * ex + sd * ey). set (g' := - sd * ex + cd * ey).
    assert (I : g * g + g' * g' == (cd * cd + sd * sd) * (ex * ex + ey * ey)) by (unfold g, g'; ring).
    rewrite Hud in I.
    assert (P1 : 0 <= g * g) by apply sq_nonneg. assert (P2 : 0 <= g' * g') by apply sq_nonneg.
    assert (S1 : g * g <= r * r) by lra. assert (S2 : g' * g' <= r * r) by lra.
    apply sq_le_abs in S1; [|exact Hr]. apply sq_le_abs in S2; [|exact Hr].
    set (U := cd * (rx + x + ex + - (cx + rx + (cd * (osx + 0) - sd * (osy + 0))))
              + sd * (ry + y + ey + - (cy + ry + (sd * (osx + 0) + cd * (osy + 0))))).
    set (V := - sd * (rx + x + ex + - (cx + rx + (cd * (osx + 0) - sd * (osy + 0))))
              + cd * (ry + y + ey + - (cy + ry + (sd * (osx + 0) + cd * (osy + 0))))).
    assert (EU : U == (A - osx) + g).
    { transitivity ((A - osx) + g + (cd * cd + sd * sd - 1) * (- osx)).
      - unfold U, A, g. ring.
      - rewrite Hud. ring. }
    assert (EV : V == (A' - osy) + g').
    { transitivity ((A' - osy) + g' + (cd * cd + sd * sd - 1) * (- osy)).
      - unfold V, A', g'. ring.
      - rewrite Hud. ring. }
    destruct Hpos as [[? ?] [? ?]], S1 as [? ?], S2 as [? ?].
    clear I P1 P2 Hee. clearbody U V g g' A A' l_psi w_psi arc.
    split; apply Qabs_Qle_condition; rewrite ?EU, ?EV, ?EL, ?EW; split; lra.
  Qed.
End EnclosureP.

(* what enclosure1 returns, and when it raises: only for a ShapeGroup as position region *)
Lemma enclosure1_shape l_v w_v ref off pm om orc :
  (pm = PMGroup /\ enclosure1 l_v w_v ref off pm om orc = Err) \/
  (exists L W C, enclosure1 l_v w_v ref off pm om orc = Ok (Rect L W C (psi_of om))).
Proof.
  destruct pm; [right|right|right|left; split; reflexivity]; unfold enclosure1; simpl; eexists _, _, _; reflexivity.
Qed.

(* shape groups: member by member, every member's region is that member's own enclosure *)
Lemma enclosure_group_go pm om (ms : list (shape_meas * enc_oracle)) :
  (fix go (l : list (shape_meas * enc_oracle)) : res (list shape) :=
     match l with
     | [] => Ok []
     | mo :: r => do y <- enclosure (fst mo) pm om (snd mo); do ys <- go r; Ok (y :: ys)
     end) ms = mapM (fun mo => enclosure (fst mo) pm om (snd mo)) ms.
Proof. induction ms as [|x r IH]; [reflexivity|]. simpl. rewrite IH. reflexivity. Qed.

Lemma enclosure_group_memberwise ms pm om orc sh :
  enclosure (SMGroup ms) pm om orc = Ok sh ->
  exists shs, sh = Group shs /\ Forall2 (fun mo y => enclosure (fst mo) pm om (snd mo) = Ok y) ms shs.
Proof.
  simpl. rewrite enclosure_group_go. intro H. apply bind_ok in H. destruct H as [shs [E H]]. inversion H; subst.
  exists shs. split; [reflexivity|]. eapply mapM_all; [|exact E]. intros x y Hxy. exact Hxy.
Qed.

(* ---- the bounding box computed from the vertices contains every vertex *)
Lemma box_add_grows b p q : in_box b q -> in_box (box_add b p) q.
Proof.
  unfold in_box, box_add; simpl. intros [H1 [H2 [H3 H4]]].
  pose proof (Q.le_min_l (b_minx b) (px p)). pose proof (Q.le_min_l (b_miny b) (py p)).
  pose proof (Q.le_max_l (b_maxx b) (px p)). pose proof (Q.le_max_l (b_maxy b) (py p)).
  repeat split; lra.
Qed.
Lemma box_add_new b p : in_box (box_add b p) p.
Proof.
  unfold in_box, box_add; simpl.
  pose proof (Q.le_min_r (b_minx b) (px p)). pose proof (Q.le_min_r (b_miny b) (py p)).
  pose proof (Q.le_max_r (b_maxx b) (px p)). pose proof (Q.le_max_r (b_maxy b) (py p)).
  repeat split; lra.
Qed.
Lemma fold_box_add_contains : forall r b q, in_box b q \/ List.In q r -> in_box (fold_left box_add r b) q.
Proof.
  induction r as [|x r IH]; intros b q H; simpl.
  - destruct H as [H|[]]. exact H.
  - apply IH. destruct H as [H|[H|H]].
    + left. apply box_add_grows. exact H.
    + subst. left. apply box_add_new.
    + right. exact H.
Qed.
Lemma bbox_contains vs b v : bbox vs = Some b -> List.In v vs -> in_box b v.
Proof.
  destruct vs as [|p r]; [discriminate|]. simpl. intros H Hin. inversion H; subst. clear H.
  apply fold_box_add_contains. destruct Hin as [E|Hin]; [left|right; exact Hin].
  subst. unfold in_box, bbox1; simpl. repeat split; lra.
Qed.

(* a rectangle is convex: with two points it contains the segment between them, so a polygon whose vertices are
   inside lies inside *)
Lemma in_rect_convex l w ctr c s x y t : 0 <= t -> t <= 1 -> in_rect l w ctr c s x -> in_rect l w ctr c s y ->
  in_rect l w ctr c s ((1 - t) * px x + t * px y, (1 - t) * py x + t * py y).
Proof.
  intros H0 H1 [Hx1 Hx2] [Hy1 Hy2]. destruct x as [x1 x2], y as [y1 y2], ctr as [c1 c2].
  unfold in_rect, padd, pneg, px, py in *; cbn [fst snd] in *.
  apply Qabs_Qle_condition in Hx1, Hx2, Hy1, Hy2.
  destruct Hx1 as [A1 A2], Hx2 as [A3 A4], Hy1 as [B1 B2], Hy2 as [B3 B4].
  set (u1 := c * (x1 + - c1) + s * (x2 + - c2)) in *. set (v1 := c * (y1 + - c1) + s * (y2 + - c2)) in *.
  set (u2 := - s * (x1 + - c1) + c * (x2 + - c2)) in *. set (v2 := - s * (y1 + - c1) + c * (y2 + - c2)) in *.
  assert (E1 : c * ((1 - t) * x1 + t * y1 + - c1) + s * ((1 - t) * x2 + t * y2 + - c2) == (1 - t) * u1 + t * v1)
    by (unfold u1, v1; ring).
  assert (E2 : - s * ((1 - t) * x1 + t * y1 + - c1) + c * ((1 - t) * x2 + t * y2 + - c2) == (1 - t) * u2 + t * v2)
    by (unfold u2, v2; ring).
  clearbody u1 v1 u2 v2.
  split; apply Qabs_Qle_condition; rewrite ?E1, ?E2; split; nra.
Qed.

(* corollaries of the main enclosure theorem with the bounds computed from the shape itself *)
Theorem enclosure_encloses_polygon orc vs b pm om L W C psi :
  bbox vs = Some b ->
  enclosure (SMBox b (centroid vs)) pm om orc = Ok (Rect L W C psi) ->
  orc_ok (padd (box_mid b) (pneg (centroid vs))) orc ->
  forall v p cdl sdl,
    List.In v vs -> pos_admissible pm (cos_d orc) (sin_d orc) p -> dev_ok (box_len b) (box_wid b) orc cdl sdl ->
    in_rect L W C (cos_d orc) (sin_d orc)
      (place_vertex (centroid vs) p (cos_d orc * cdl - sin_d orc * sdl) (sin_d orc * cdl + cos_d orc * sdl) v).
Proof.
  intros Hb He Hok v p cdl sdl Hin Hp Hdev. simpl in He.
  eapply enclosure1_encloses; eauto. eapply bbox_contains; eauto.
Qed.

Theorem enclosure_encloses_rectangle orc l w ctr o co so b pm om L W C psi :
  bbox (rect_vertices l w ctr o co so) = Some b ->
  enclosure (SMBox b ctr) pm om orc = Ok (Rect L W C psi) ->
  orc_ok (padd (box_mid b) (pneg ctr)) orc ->
  forall v p cdl sdl,
    List.In v (rect_vertices l w ctr o co so) -> pos_admissible pm (cos_d orc) (sin_d orc) p ->
    dev_ok (box_len b) (box_wid b) orc cdl sdl ->
    in_rect L W C (cos_d orc) (sin_d orc)
      (place_vertex ctr p (cos_d orc * cdl - sin_d orc * sdl) (sin_d orc * cdl + cos_d orc * sdl) v).
Proof.
  intros Hb He Hok v p cdl sdl Hin Hp Hdev. simpl in He.
  eapply enclosure1_encloses; eauto. eapply bbox_contains; eauto.
Qed.

(* ---- admissible positions of a polygonal / rectangular region: with the bounds computed from the region's own
   vertices rotated by -psi_d about its centre, every vertex of the region is admissible, and so is every convex
   combination of admissible positions (hence every point of a convex region) *)
Lemma region_vertex_admissible c0 cd sd vs b v :
  bbox (map (rot_about c0 cd (- sd)) vs) = Some b -> List.In v vs -> pos_admissible (PMBox c0 b) cd sd v.
Proof. intros Hb Hin. simpl. eapply bbox_contains; [exact Hb|]. apply in_map. exact Hin. Qed.

Lemma pos_admissible_convex c0 b cd sd p q t : 0 <= t -> t <= 1 ->
  pos_admissible (PMBox c0 b) cd sd p -> pos_admissible (PMBox c0 b) cd sd q ->
  pos_admissible (PMBox c0 b) cd sd ((1 - t) * px p + t * px q, (1 - t) * py p + t * py q).
Proof.
  intros H0 H1. simpl. destruct p as [p1 p2], q as [q1 q2], c0 as [c1 c2].
  unfold in_box, rot_about, padd, pneg, rot, px, py; cbn [fst snd].
  set (u1 := c1 + (cd * (p1 + - c1) - - sd * (p2 + - c2))). set (v1 := c1 + (cd * (q1 + - c1) - - sd * (q2 + - c2))).
  set (u2 := c2 + (- sd * (p1 + - c1) + cd * (p2 + - c2))). set (v2 := c2 + (- sd * (q1 + - c1) + cd * (q2 + - c2))).
  intros [A1 [A2 [A3 A4]]] [B1 [B2 [B3 B4]]].
  assert (E1 : c1 + (cd * ((1 - t) * p1 + t * q1 + - c1) - - sd * ((1 - t) * p2 + t * q2 + - c2)) == (1 - t) * u1 + t * v1)
    by (unfold u1, v1; ring).
  assert (E2 : c2 + (- sd * ((1 - t) * p1 + t * q1 + - c1) + cd * ((1 - t) * p2 + t * q2 + - c2)) == (1 - t) * u2 + t * v2)
    by (unfold u2, v2; ring).
  clearbody u1 v1 u2 v2. rewrite E1, E2. repeat split; nra.
Qed.

(* ---- heading of a state *)
Lemma heading_stored atan2f st o : s_ori st = Some o -> heading atan2f st = Some o.
Proof. unfold heading. intro H. rewrite H. reflexivity. Qed.
Lemma heading_point_mass atan2f st vx vy : s_ori st = None -> s_vec st = Some (vx, vy) ->
  heading atan2f st = Some (OExact (atan2f vy vx)).
Proof. unfold heading. intros H1 H2. rewrite H1, H2. reflexivity. Qed.

Lemma occupancy_exact_eq tau fuel cosf sinf atan2f sh st p th :
  s_pos st = Some (PPoint p) -> heading atan2f st = Some (OExact th) ->
  occupancy_exact tau fuel cosf sinf atan2f sh st = rotate_translate_local tau fuel p th (cosf th) (sinf th) sh /\
  is_uncertain atan2f st = false.
Proof. unfold occupancy_exact, is_uncertain. intros H1 H2. rewrite H1, H2. split; reflexivity. Qed.

(* ================================================================== non-vacuity *)
Open Scope Z_scope.
(* a dynamic obstacle, initial state at 2, trajectory of three states starting at 4 (a gap at 3): the hypotheses
   [state_based] / [consecutive] hold and the dispatch gives the expected answers *)
Example dispatch_nonvacuous :
  let o := Dynamic (R := Z) 7 0 (2, 20) (Some (PrTraj {| t_init := 4; t_states := [(4, 40); (5, 50); (6, 60)] |})) in
  state_based (Z * Z) Z fst o = true /\
  map (fun t => option_map (@o_region Z) (occupancy_at_time (Z * Z) Z fst snd o t)) [1; 2; 3; 4; 5; 6; 7]
    = [None; Some 20; None; Some 40; Some 50; Some 60; None] /\
  map (state_at_time (Z * Z) Z fst o) [1; 2; 3; 4; 6; 7] = [None; Some (2, 20); None; Some (4, 40); Some (6, 60); None].
Proof. vm_compute. repeat split. Qed.

Open Scope Q_scope.
(* an enclosure instance in which every hypothesis of the main theorem holds with a genuine deviation (3-4-5 angles) *)
Definition ex_orc : enc_oracle :=
  {| cos_l := 4 # 5; sin_l := 3 # 5; cos_w := 4 # 5; sin_w := 3 # 5; cos_d := 3 # 5; sin_d := 4 # 5;
     norm_off := 5; sin_half := 1 # 3 |}.
Definition ex_box : box := {| b_minx := 0; b_miny := 0; b_maxx := 6; b_maxy := 8 |}.
Example enclosure_nonvacuous :
  exists L W C psi,
    enclosure1 (box_len ex_box) (box_wid ex_box) (0, 0) (padd (box_mid ex_box) (pneg (0, 0)))
               (PMBox (1, 2) {| b_minx := 0; b_miny := 1; b_maxx := 2; b_maxy := 3 |})
               (OMItv {| lo := 0; hi := 1 |}) ex_orc = Ok (Rect L W C psi) /\
    orc_ok (padd (box_mid ex_box) (pneg (0, 0))) ex_orc /\
    in_box ex_box (6, 8) /\
    pos_admissible (PMBox (1, 2) {| b_minx := 0; b_miny := 1; b_maxx := 2; b_maxy := 3 |}) (3 # 5) (4 # 5) (1, 2) /\
    dev_ok (box_len ex_box) (box_wid ex_box) ex_orc (4 # 5) (- (3 # 5)) /\ ~ (4 # 5) == 1.
Proof.
  eexists _, _, _, _. split; [reflexivity|]. split; [|split; [|split; [|split]]].
  - constructor; vm_compute; try reflexivity; discriminate.
  - unfold in_box; simpl. repeat split; vm_compute; discriminate.
  - unfold pos_admissible, in_box; simpl. repeat split; vm_compute; discriminate.
  - constructor; vm_compute; try reflexivity; discriminate.
  - vm_compute. discriminate.
Qed.
