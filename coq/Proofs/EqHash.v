(* Proofs/EqHash.v — generic theorems about the eq/hash interpreters of Model/EqHash.v, proved once for
   every spec table; the per-table side conditions are booleans closed by vm_compute in Props/C12.v. *)
From Coq Require Import QArith Qabs Qround ZArith List Bool String Lia Lqa Permutation.
From CR Require Import Base.QMod Model.Interval Proofs.Interval Model.EqHash.
Import ListNotations.
Open Scope Q_scope.

(* ------------------------------------------------------------------ induction over nested values *)
Section ValueInd.
  Variable P : value -> Prop.
  Hypothesis HNone : P VNone.
  Hypothesis HBool : forall b, P (VBool b).
  Hypothesis HInt : forall z, P (VInt z).
  Hypothesis HNum : forall q, P (VNum q).
  Hypothesis HStr_ : forall s, P (VStr s).
  Hypothesis HEnum : forall s, P (VEnum s).
  Hypothesis HArr : forall s d, P (VArr s d).
  Hypothesis HList : forall l, Forall P l -> P (VList l).
  Hypothesis HSet : forall l, Forall P l -> P (VSet l).
  Hypothesis HKey : forall v, P v -> P (VKey v).
  Hypothesis HObj : forall c fs, Forall (fun p => P (snd p)) fs -> P (VObj c fs).

  Fixpoint value_ind' (v : value) : P v :=
    match v with
    | VNone => HNone
    | VBool b => HBool b
    | VInt z => HInt z
    | VNum q => HNum q
    | VStr s => HStr_ s
    | VEnum s => HEnum s
    | VArr s d => HArr s d
    | VList l => HList l ((fix go (l : list value) : Forall P l :=
                             match l with [] => Forall_nil _ | a :: r => Forall_cons _ (value_ind' a) (go r) end) l)
    | VSet l => HSet l ((fix go (l : list value) : Forall P l :=
                           match l with [] => Forall_nil _ | a :: r => Forall_cons _ (value_ind' a) (go r) end) l)
    | VKey w => HKey w (value_ind' w)
    | VObj c fs => HObj c fs ((fix go (l : list (string * value)) : Forall (fun p => P (snd p)) l :=
                                 match l with
                                 | [] => Forall_nil _
                                 | p :: r => Forall_cons _ (value_ind' (snd p)) (go r)
                                 end) fs)
    end.
End ValueInd.

(* ------------------------------------------------------------------ peq unfolded *)
Definition incl_b (l l' : list value) : bool := forallb (fun a => existsb (fun b => peq a b) l') l.
Definition incl_b' (l l' : list value) : bool := forallb (fun b => existsb (fun a => peq a b) l) l'.
Definition field_eqb (p q : string * value) : bool := String.eqb (fst p) (fst q) && peq (snd p) (snd q).

Lemma peq_list l l' : peq (VList l) (VList l') = list_eqb peq l l'.
Proof. revert l'. induction l as [|a r IH]; destruct l' as [|b r']; simpl; auto. f_equal. apply IH. Qed.

Lemma peq_set l l' : peq (VSet l) (VSet l') = incl_b l l' && incl_b' l l'.
Proof. reflexivity. Qed.

Lemma peq_obj c fs c' fs' : peq (VObj c fs) (VObj c' fs') = String.eqb c c' && list_eqb field_eqb fs fs'.
Proof.
  simpl. f_equal. revert fs'. induction fs as [|[a v] r IH]; destruct fs' as [|[a' v'] r']; simpl; auto.
  unfold field_eqb at 1. simpl. f_equal. apply IH.
Qed.

Lemma peq_key a b : peq (VKey a) (VKey b) = peq a b.
Proof. reflexivity. Qed.

Lemma list_eqb_refl {A} (e : A -> A -> bool) l : Forall (fun a => e a a = true) l -> list_eqb e l l = true.
Proof. induction 1; simpl; auto. rewrite H, IHForall. reflexivity. Qed.

Lemma list_eqb_sym {A} (e : A -> A -> bool) l :
  Forall (fun a => forall b, e a b = e b a) l -> forall l', list_eqb e l l' = list_eqb e l' l.
Proof.
  induction 1 as [|a r Ha _ IH]; destruct l' as [|b r']; simpl; auto. rewrite Ha, IH. reflexivity.
Qed.

Lemma list_eqb_Forall2 {A} (e : A -> A -> bool) l l' :
  list_eqb e l l' = true <-> Forall2 (fun a b => e a b = true) l l'.
Proof.
  revert l'. induction l as [|a r IH]; destruct l' as [|b r']; simpl; split; intro H;
    try discriminate; try constructor; try (inversion H; fail).
  - apply andb_true_iff in H. tauto.
  - apply IH. apply andb_true_iff in H. tauto.
  - inversion H; subst. apply andb_true_iff. split; auto. apply IH. auto.
Qed.

Lemma Qeq_bool_sym a b : Qeq_bool a b = Qeq_bool b a.
Proof.
  destruct (Qeq_bool a b) eqn:E; symmetry.
  - apply Qeq_bool_iff. symmetry. apply Qeq_bool_iff. exact E.
  - destruct (Qeq_bool b a) eqn:E'; auto. apply Qeq_bool_iff in E'. symmetry in E'.
    apply Qeq_bool_iff in E'. congruence.
Qed.

Lemma num_case x : (exists a, as_num x = Some a) \/ as_num x = None.
Proof. destruct (as_num x); eauto. Qed.

Lemma peq_num x y a : as_num x = Some a ->
  peq x y = match as_num y with Some b => Qeq_bool a b | None => false end.
Proof. destruct x; simpl; intro H; try discriminate; inversion H; subst; reflexivity. Qed.

Lemma peq_num_r x y : as_num x = None -> (exists b, as_num y = Some b) -> peq x y = false.
Proof.
  intros Hx [b Hy]. destruct x; simpl in Hx; try discriminate; destruct y; simpl in Hy; try discriminate; reflexivity.
Qed.

(* ------------------------------------------------------------------ == is reflexive and symmetric *)
Lemma peq_refl : forall x, peq x x = true.
Proof.
  induction x using value_ind'; try reflexivity.
  - simpl. destruct b; reflexivity.
  - simpl. apply Qeq_bool_iff. reflexivity.
  - simpl. apply Qeq_bool_iff. reflexivity.
  - simpl. apply String.eqb_refl.
  - simpl. apply String.eqb_refl.
  - simpl. apply andb_true_iff. split; apply list_eqb_refl.
    + apply Forall_forall. intros. apply Z.eqb_refl.
    + apply Forall_forall. intros. apply Qeq_bool_iff. reflexivity.
  - rewrite peq_list. apply list_eqb_refl. exact H.
  - rewrite peq_set. apply andb_true_iff. rewrite Forall_forall in H. split.
    + unfold incl_b. apply forallb_forall. intros a Ha. apply existsb_exists. exists a. split; auto.
    + unfold incl_b'. apply forallb_forall. intros a Ha. apply existsb_exists. exists a. split; auto.
  - simpl. exact IHx.
  - rewrite peq_obj. rewrite String.eqb_refl. simpl. apply list_eqb_refl.
    eapply Forall_impl; [|exact H]. intros p Hp. unfold field_eqb. rewrite String.eqb_refl. exact Hp.
Qed.

Lemma existsb_ext_in {A} (f g : A -> bool) l : (forall a, List.In a l -> f a = g a) -> existsb f l = existsb g l.
Proof.
  induction l as [|a r IH]; simpl; intro H; auto. rewrite (H a) by auto. rewrite IH; auto.
Qed.
Lemma forallb_ext_in {A} (f g : A -> bool) l : (forall a, List.In a l -> f a = g a) -> forallb f l = forallb g l.
Proof.
  induction l as [|a r IH]; simpl; intro H; auto. rewrite (H a) by auto. rewrite IH; auto.
Qed.

Lemma peq_sym : forall x y, peq x y = peq y x.
Proof.
  induction x using value_ind'; intro y.
  - destruct y; reflexivity.
  - rewrite (peq_num (VBool b) y _ eq_refl). destruct (num_case y) as [[c Hc]|Hc].
    + rewrite (peq_num y _ c Hc), Hc. simpl. apply Qeq_bool_sym.
    + rewrite Hc. symmetry. apply peq_num_r; simpl; eauto.
  - rewrite (peq_num (VInt z) y _ eq_refl). destruct (num_case y) as [[c Hc]|Hc].
    + rewrite (peq_num y _ c Hc), Hc. simpl. apply Qeq_bool_sym.
    + rewrite Hc. symmetry. apply peq_num_r; simpl; eauto.
  - rewrite (peq_num (VNum q) y _ eq_refl). destruct (num_case y) as [[c Hc]|Hc].
    + rewrite (peq_num y _ c Hc), Hc. simpl. apply Qeq_bool_sym.
    + rewrite Hc. symmetry. apply peq_num_r; simpl; eauto.
  - destruct y; try reflexivity. simpl. apply String.eqb_sym.
  - destruct y; try reflexivity. simpl. apply String.eqb_sym.
  - destruct y; try reflexivity. simpl. f_equal; apply list_eqb_sym; apply Forall_forall; intros.
    + apply Z.eqb_sym.
    + apply Qeq_bool_sym.
  - destruct y; try reflexivity. rewrite !peq_list. apply list_eqb_sym. exact H.
  - destruct y; try reflexivity. rewrite !peq_set. rewrite Forall_forall in H.
    rewrite andb_comm. unfold incl_b, incl_b'. f_equal.
    + apply forallb_ext_in. intros b Hb. apply existsb_ext_in. intros a Ha. apply H. exact Ha.
    + apply forallb_ext_in. intros a Ha. apply existsb_ext_in. intros b Hb. apply H. exact Ha.
  - destruct y; try reflexivity. simpl. apply IHx.
  - destruct y; try reflexivity. rewrite !peq_obj. f_equal; [apply String.eqb_sym|].
    apply list_eqb_sym. eapply Forall_impl; [|exact H]. intros p Hp q. unfold field_eqb.
    rewrite Hp. f_equal. apply String.eqb_sym.
Qed.

(* x == x ; (x == y) = (y == x), for every table *)
Theorem eqv_refl T x : eqv T x x = true.
Proof. apply peq_refl. Qed.

Theorem eqv_sym T x y : eqv T x y = eqv T y x.
Proof. apply peq_sym. Qed.

(* ------------------------------------------------------------------ rounding to 10 decimals *)
Lemma Qlt_bool_false a b : Qlt_bool a b = false -> b <= a.
Proof.
  intro H. apply Qnot_lt_le. intro Hlt. apply Qlt_bool_iff in Hlt. congruence.
Qed.

Lemma rhe_half y : Qabs (inject_Z (round_half_even y) - y) <= 1 # 2.
Proof.
  unfold round_half_even.
  pose proof (Qfloor_le y) as Hlo. pose proof (Qlt_floor y) as Hhi.
  set (f := Qfloor y) in *. rewrite inject_Z_plus in Hhi. change (inject_Z 1) with 1 in Hhi.
  apply Qabs_Qle_condition.
  destruct (Qlt_bool (y - inject_Z f) (1 # 2)) eqn:E1.
  - apply Qlt_bool_iff in E1. split; lra.
  - apply Qlt_bool_false in E1.
    destruct (Qlt_bool (1 # 2) (y - inject_Z f)) eqn:E2.
    + apply Qlt_bool_iff in E2. rewrite inject_Z_plus. change (inject_Z 1) with 1. split; lra.
    + apply Qlt_bool_false in E2. destruct (Z.even f).
      * split; lra.
      * rewrite inject_Z_plus. change (inject_Z 1) with 1. split; lra.
Qed.

Definition eps10 : Q := 1 # (10 ^ 10).
Definition num_close (a b : Q) : Prop := Qabs (a - b) <= eps10.

Lemma ten10_pos : 0 < ten10.
Proof. unfold ten10. reflexivity. Qed.

(* round10 x = round10 y  ->  |x - y| <= 1e-10 : what a comparison after rounding can still tell apart *)
Lemma r10_close x y : r10 x = r10 y -> num_close x y.
Proof.
  unfold r10, num_close. intro H.
  pose proof (rhe_half (x * ten10)) as Hx. pose proof (rhe_half (y * ten10)) as Hy.
  rewrite H in Hx. set (k := inject_Z (round_half_even (y * ten10))) in *.
  apply Qabs_Qle_condition in Hx. apply Qabs_Qle_condition in Hy.
  apply Qabs_Qle_condition.
  assert (E : eps10 * ten10 == 1) by reflexivity.
  pose proof ten10_pos as Hp.
  assert (Hd : -(1) <= (x - y) * ten10 /\ (x - y) * ten10 <= 1) by (split; lra).
  destruct Hd as [Hd1 Hd2].
  split.
  - apply Qmult_le_r with (z := ten10); [exact Hp|]. lra.
  - apply Qmult_le_r with (z := ten10); [exact Hp|]. lra.
Qed.

Lemma round10_eq_close x y : round10 x == round10 y -> num_close x y.
Proof.
  unfold round10. intro H. apply r10_close.
  pose proof ten10_pos as Hp.
  assert (E : inject_Z (r10 x) == inject_Z (r10 y)).
  { assert (Hx : inject_Z (r10 x) == inject_Z (r10 x) / ten10 * ten10) by (field; lra).
    assert (Hy : inject_Z (r10 y) == inject_Z (r10 y) / ten10 * ten10) by (field; lra).
    rewrite Hx, Hy, H. reflexivity. }
  apply eq_sym. apply eq_sym. unfold Qeq in E. simpl in E. lia.
Qed.

Lemma r10_comp x y : x == y -> r10 x = r10 y.
Proof.
  intro H. unfold r10. apply Z.le_antisymm; apply rhe_mono; rewrite H; lra.
Qed.

Lemma round10_comp x y : x == y -> round10 x == round10 y.
Proof. intro H. unfold round10. rewrite (r10_comp x y H). reflexivity. Qed.

Lemma round10_near a : Qabs (round10 a - a) <= eps10 * (1 # 2).
Proof.
  unfold round10. pose proof (rhe_half (a * ten10)) as H. fold (r10 a) in H.
  apply Qabs_Qle_condition in H. apply Qabs_Qle_condition.
  pose proof ten10_pos as Hp. destruct H as [H1 H2].
  assert (E : eps10 * ten10 == 1) by reflexivity.
  assert (Hx : inject_Z (r10 a) / ten10 * ten10 == inject_Z (r10 a)) by (field; lra).
  split; apply Qmult_le_r with (z := ten10); try exact Hp; lra.
Qed.

(* ------------------------------------------------------------------ == unfolded on objects *)
Fixpoint epairs (T : table) (sp : fspec) (fs : list (string * value)) : list value :=
  match fs with
  | [] => []
  | (a, w) :: r =>
      if is_ignored (ekind_of sp a) then epairs T sp r
      else VList [VStr a; enorm (ekind_of sp a) (nfe T w)] :: epairs T sp r
  end.

Lemma nfe_obj T c fs sp : spec_of T c = Some sp ->
  nfe T (VObj c fs) = VObj (family_of T c) [(EmptyString, VSet (epairs T sp fs))].
Proof.
  intro H. simpl. rewrite H. do 4 f_equal.
  induction fs as [|[a w] r IH]; simpl; auto. rewrite IH. reflexivity.
Qed.

Lemma epairs_in T sp fs a v : List.In (a, v) fs -> is_ignored (ekind_of sp a) = false ->
  List.In (VList [VStr a; enorm (ekind_of sp a) (nfe T v)]) (epairs T sp fs).
Proof.
  induction fs as [|[a' w] r IH]; simpl; intros Hin Hk; [contradiction|].
  destruct Hin as [E|Hin].
  - inversion E; subst. rewrite Hk. left. reflexivity.
  - destruct (is_ignored (ekind_of sp a')); [|right]; apply IH; auto.
Qed.

Lemma epairs_inv T sp fs p : List.In p (epairs T sp fs) ->
  exists a v, List.In (a, v) fs /\ is_ignored (ekind_of sp a) = false /\
              p = VList [VStr a; enorm (ekind_of sp a) (nfe T v)].
Proof.
  induction fs as [|[a' w] r IH]; simpl; intro H; [contradiction|].
  destruct (is_ignored (ekind_of sp a')) eqn:E.
  - destruct (IH H) as (a & v & ? & ? & ?). exists a, v. auto.
  - destruct H as [H|H].
    + exists a', w. auto.
    + destruct (IH H) as (a & v & ? & ? & ?). exists a, v. auto.
Qed.

Lemma eqv_obj_family T c fs c' fs' sp sp' :
  spec_of T c = Some sp -> spec_of T c' = Some sp' -> eqv T (VObj c fs) (VObj c' fs') = true ->
  sp' = sp /\ family_of T c = family_of T c' /\
  peq (VSet (epairs T sp fs)) (VSet (epairs T sp fs')) = true.
Proof.
  intros Hs Hs' H. unfold eqv in H. rewrite (nfe_obj _ _ _ _ Hs), (nfe_obj _ _ _ _ Hs') in H.
  rewrite peq_obj in H. apply andb_true_iff in H. destruct H as [Hf H].
  apply String.eqb_eq in Hf. unfold spec_of in Hs, Hs'. rewrite Hf in Hs. rewrite Hs in Hs'. inversion Hs'; subst.
  split; auto. split; auto. simpl in H. unfold field_eqb in H. simpl in H.
  rewrite andb_true_r in H. exact H.
Qed.

(* ------------------------------------------------------------------ == is sensitive to every compared attribute *)
Definition attr_close (T : table) (k : ekind) (v v' : value) : Prop :=
  match k with
  | KIgnored => True
  | KPy => eqv T v v' = true
  | KStr => match as_num v, as_num v' with Some a, Some b => a == b | _, _ => True end
  | KAsSet | KNoneEmpty => eqv T (enorm k v) (enorm k v') = true
  | KArr10 =>
      match v, v' with
      | VArr s d, VArr s' d' => s = s' /\ Forall2 num_close d d'
      | _, _ => eqv T v v' = true
      end
  | KState =>
      match v, v' with
      | VArr s d, VArr s' d' => s = s' /\ Forall2 num_close d d'
      | _, _ => match as_num v, as_num v' with
                | Some a, Some b => num_close a b
                | _, _ => eqv T v v' = true
                end
      end
  end.

Lemma list_eqb_Z_eq s s' : list_eqb Z.eqb s s' = true -> s = s'.
Proof.
  revert s'. induction s as [|a r IH]; destruct s' as [|b r']; simpl; intro H; try discriminate; auto.
  apply andb_true_iff in H. destruct H as [H1 H2]. apply Z.eqb_eq in H1. subst. f_equal. auto.
Qed.

Lemma rounded_close d d' : list_eqb Qeq_bool (map round10 d) (map round10 d') = true -> Forall2 num_close d d'.
Proof.
  revert d'. induction d as [|a r IH]; destruct d' as [|b r']; simpl; intro H; try discriminate; constructor.
  - apply andb_true_iff in H. destruct H as [H _]. apply Qeq_bool_iff in H. apply round10_eq_close. exact H.
  - apply IH. apply andb_true_iff in H. tauto.
Qed.

Lemma arr_rounded_close s d s' d' :
  peq (round_arr (VArr s d)) (round_arr (VArr s' d')) = true -> s = s' /\ Forall2 num_close d d'.
Proof.
  simpl. intro H. apply andb_true_iff in H. destruct H as [H1 H2]. split.
  - apply list_eqb_Z_eq. exact H1.
  - apply rounded_close. exact H2.
Qed.

Lemma num_close_eq a b : a == b -> num_close a b.
Proof.
  intro H. unfold num_close. apply Qabs_Qle_condition. unfold eps10. split.
  - assert (a - b == 0) by lra. rewrite H0. discriminate.
  - assert (a - b == 0) by lra. rewrite H0. discriminate.
Qed.

Lemma num_close_round_l a b : round10 a == b -> num_close a b.
Proof.
  intro H. pose proof (round10_near a) as Hn. unfold num_close.
  apply Qabs_Qle_condition in Hn. apply Qabs_Qle_condition.
  assert (0 <= eps10) by (unfold eps10; discriminate). split; lra.
Qed.

Lemma num_close_round_r a b : a == round10 b -> num_close a b.
Proof.
  intro H. pose proof (round10_near b) as Hn. unfold num_close.
  apply Qabs_Qle_condition in Hn. apply Qabs_Qle_condition.
  assert (0 <= eps10) by (unfold eps10; discriminate). split; lra.
Qed.

Lemma nfe_set T l : nfe T (VSet l) = VSet (map (nfe T) l).
Proof. reflexivity. Qed.
Lemma nfe_list T l : nfe T (VList l) = VList (map (nfe T) l).
Proof. reflexivity. Qed.

Lemma nfe_obj_shape T c fs : exists c' fs', nfe T (VObj c fs) = VObj c' fs'.
Proof. simpl. destruct (spec_of T c); eauto. Qed.

Ltac nfobj T :=
  unfold eqv;
  repeat match goal with
         | |- context [nfe T (VObj ?c ?f)] =>
             let E := fresh "E" in destruct (nfe_obj_shape T c f) as (? & ? & E); rewrite !E
         end.

Lemma enorm_close T k v v' :
  peq (enorm k (nfe T v)) (enorm k (nfe T v')) = true -> attr_close T k v v'.
Proof.
  destruct k; simpl; auto.
  - (* KArr10 *)
    destruct v; destruct v'; try (intro H; exact H); try (apply arr_rounded_close);
      nfobj T; simpl; intro H; exact H || discriminate H.
  - (* KState *)
    destruct v; destruct v'; try (intro H; exact H); try (apply arr_rounded_close);
      try (simpl; intro H; apply Qeq_bool_iff in H; first
             [ apply num_close_eq; exact H | apply num_close_round_l; exact H | apply num_close_round_r; exact H
             | apply round10_eq_close; exact H ]);
      nfobj T; simpl; intro H; exact H || discriminate H.
  - (* KAsSet *)
    destruct v; destruct v'; nfobj T; simpl; auto.
  - (* KNoneEmpty *)
    destruct v; destruct v'; nfobj T; simpl; auto.
  - (* KStr *)
    destruct v; destruct v'; simpl; auto; try (intro H; discriminate H);
      intro H; try rewrite andb_true_r in H; apply Qeq_bool_iff in H; exact H.
Qed.

Lemma incl_b_in l l' a : incl_b l l' = true -> List.In a l -> exists b, List.In b l' /\ peq a b = true.
Proof.
  unfold incl_b. intros H Ha. rewrite forallb_forall in H. specialize (H a Ha).
  apply existsb_exists in H. exact H.
Qed.

Lemma incl_b'_in l l' b : incl_b' l l' = true -> List.In b l' -> exists a, List.In a l /\ peq a b = true.
Proof.
  unfold incl_b'. intros H Hb. rewrite forallb_forall in H. specialize (H b Hb).
  apply existsb_exists in H. exact H.
Qed.

Lemma peq_pair a X a' X' : peq (VList [VStr a; X]) (VList [VStr a'; X']) = true -> a = a' /\ peq X X' = true.
Proof.
  simpl. intro H. apply andb_true_iff in H. destruct H as [H1 H2]. apply String.eqb_eq in H1.
  rewrite andb_true_r in H2. auto.
Qed.

(* x == y = true: every attribute that __eq__ compares is close in the sense of its kind *)
Theorem eq_sensitive T c fs c' fs' sp sp' :
  spec_of T c = Some sp -> spec_of T c' = Some sp' ->
  eqv T (VObj c fs) (VObj c' fs') = true ->
  forall a v, List.In (a, v) fs -> is_ignored (ekind_of sp a) = false ->
  exists v', List.In (a, v') fs' /\ attr_close T (ekind_of sp a) v v'.
Proof.
  intros Hs Hs' H a v Hin Hk.
  destruct (eqv_obj_family _ _ _ _ _ _ _ Hs Hs' H) as (-> & _ & Hset).
  rewrite peq_set in Hset. apply andb_true_iff in Hset. destruct Hset as [Hi _].
  destruct (incl_b_in _ _ _ Hi (epairs_in T sp fs a v Hin Hk)) as (p & Hp & Hpe).
  destruct (epairs_inv _ _ _ _ Hp) as (a' & v' & Hin' & Hk' & ->).
  apply peq_pair in Hpe. destruct Hpe as [<- Hpe].
  exists v'. split; auto. apply enorm_close. exact Hpe.
Qed.

(* side condition: every constructor-visible attribute (generated table A) is compared by some kind *)
Definition covers (T : table) (A : list (string * list string)) : bool :=
  forallb (fun ca => match spec_of T (fst ca) with
                     | None => false
                     | Some sp => forallb (fun a => negb (is_ignored (ekind_of sp a))) (snd ca)
                     end) A.

(* classes with per-instance attributes (State family): every attribute whatsoever is compared *)
Definition all_compared (sp : fspec) : bool :=
  negb (is_ignored (f_eq_default sp)) && forallb (fun p => negb (is_ignored (snd p))) (f_eq sp).

Lemma assoc_in {A} k (l : list (string * A)) v : assoc k l = Some v -> List.In (k, v) l.
Proof.
  induction l as [|[k' v'] r IH]; simpl; intro H; [discriminate|].
  destruct (String.eqb k k') eqn:E.
  - apply String.eqb_eq in E. inversion H; subst. auto.
  - right. auto.
Qed.

Lemma all_compared_spec sp a : all_compared sp = true -> is_ignored (ekind_of sp a) = false.
Proof.
  unfold all_compared, ekind_of. intro H. apply andb_true_iff in H. destruct H as [H1 H2].
  destruct (assoc a (f_eq sp)) eqn:E.
  - apply assoc_in in E. rewrite forallb_forall in H2. specialize (H2 _ E). simpl in H2.
    apply negb_true_iff. exact H2.
  - apply negb_true_iff. exact H1.
Qed.

Theorem eq_sensitive_visible T A : covers T A = true ->
  forall c attrs, List.In (c, attrs) A ->
  forall fs c' fs' sp', spec_of T c' = Some sp' -> eqv T (VObj c fs) (VObj c' fs') = true ->
  forall a v, List.In a attrs -> List.In (a, v) fs ->
  exists sp v', spec_of T c = Some sp /\ ekind_of sp a <> KIgnored /\
                List.In (a, v') fs' /\ attr_close T (ekind_of sp a) v v'.
Proof.
  intros Hc c attrs Hin fs c' fs' sp' Hs' H a v Ha Hv.
  unfold covers in Hc. rewrite forallb_forall in Hc. specialize (Hc _ Hin). simpl in Hc.
  destruct (spec_of T c) as [sp|] eqn:Hs; [|discriminate].
  rewrite forallb_forall in Hc. specialize (Hc _ Ha). apply negb_true_iff in Hc.
  destruct (eq_sensitive T c fs c' fs' sp sp' Hs Hs' H a v Hv Hc) as (v' & ? & ?).
  exists sp, v'. repeat split; auto. intro E. rewrite E in Hc. discriminate.
Qed.

(* contrapositive: one compared attribute that is not close makes the objects unequal *)
Corollary eq_differs T c fs c' fs' sp sp' a v :
  spec_of T c = Some sp -> spec_of T c' = Some sp' ->
  List.In (a, v) fs -> is_ignored (ekind_of sp a) = false ->
  (forall v', List.In (a, v') fs' -> ~ attr_close T (ekind_of sp a) v v') ->
  eqv T (VObj c fs) (VObj c' fs') = false.
Proof.
  intros Hs Hs' Hin Hk Hn. destruct (eqv T (VObj c fs) (VObj c' fs')) eqn:E; auto.
  destruct (eq_sensitive _ _ _ _ _ _ _ Hs Hs' E a v Hin Hk) as (v' & Hv' & Hc).
  exfalso. exact (Hn v' Hv' Hc).
Qed.

(* ------------------------------------------------------------------ == does not depend on set insertion order *)
Definition idlist_kind (T : table) (c a : string) : bool :=
  match spec_of T c with
  | Some sp => match ekind_of sp a with KAsSet | KNoneEmpty => true | _ => false end
  | None => false
  end.

(* "the same value up to the order of set elements (anywhere inside) and of lists compared as sets" *)
Inductive vperm (T : table) : value -> value -> Prop :=
| vp_refl x : vperm T x x
| vp_list l l' : vperms T l l' -> vperm T (VList l) (VList l')
| vp_set l l1 l' : vperms T l l1 -> Permutation l1 l' -> vperm T (VSet l) (VSet l')
| vp_obj c fs fs' : vpermf T c fs fs' -> vperm T (VObj c fs) (VObj c fs')
with vperms (T : table) : list value -> list value -> Prop :=
| vps_nil : vperms T [] []
| vps_cons a b r r' : vperm T a b -> vperms T r r' -> vperms T (a :: r) (b :: r')
with vpermf (T : table) : string -> list (string * value) -> list (string * value) -> Prop :=
| vpf_nil c : vpermf T c [] []
| vpf_cons c a v v' r r' : vperm T v v' -> vpermf T c r r' -> vpermf T c ((a, v) :: r) ((a, v') :: r')
| vpf_ids c a l l' r r' : idlist_kind T c a = true -> Permutation l l' -> vpermf T c r r' ->
                          vpermf T c ((a, VList l) :: r) ((a, VList l') :: r').

Scheme vperm_mind := Induction for vperm Sort Prop
  with vperms_mind := Induction for vperms Sort Prop
  with vpermf_mind := Induction for vpermf Sort Prop.
Combined Scheme vperm_mutind from vperm_mind, vperms_mind, vpermf_mind.

Lemma pointwise_set l l' : Forall2 (fun a b => peq a b = true) l l' -> peq (VSet l) (VSet l') = true.
Proof.
  intro H. rewrite peq_set. apply andb_true_iff. split.
  - unfold incl_b. apply forallb_forall. intros a Ha. apply existsb_exists.
    induction H; [contradiction|]. destruct Ha as [<-|Ha].
    + exists y. split; auto. left; auto.
    + destruct (IHForall2 Ha) as (b & ? & ?). exists b. split; auto. right; auto.
  - unfold incl_b'. apply forallb_forall. intros b Hb. apply existsb_exists.
    induction H; [contradiction|]. destruct Hb as [<-|Hb].
    + exists x. split; auto. left; auto.
    + destruct (IHForall2 Hb) as (a & ? & ?). exists a. split; auto. right; auto.
Qed.

Lemma perm_set l l' : Permutation l l' -> peq (VSet l) (VSet l') = true.
Proof.
  intro H. rewrite peq_set. apply andb_true_iff. split.
  - unfold incl_b. apply forallb_forall. intros a Ha. apply existsb_exists. exists a. split.
    + eapply Permutation_in; eauto.
    + apply peq_refl.
  - unfold incl_b'. apply forallb_forall. intros b Hb. apply existsb_exists. exists b. split.
    + eapply Permutation_in; [apply Permutation_sym|]; eauto.
    + apply peq_refl.
Qed.

Lemma set_trans_perm l l1 l' :
  Forall2 (fun a b => peq a b = true) l l1 -> Permutation l1 l' -> peq (VSet l) (VSet l') = true.
Proof.
  intros H HP. pose proof (pointwise_set _ _ H) as Hs. rewrite peq_set in *.
  apply andb_true_iff in Hs. destruct Hs as [H1 H2]. apply andb_true_iff. split.
  - unfold incl_b. apply forallb_forall. intros a Ha. apply existsb_exists.
    destruct (incl_b_in _ _ _ H1 Ha) as (b & Hb & ?). exists b. split; auto. eapply Permutation_in; eauto.
  - unfold incl_b'. apply forallb_forall. intros b Hb. apply existsb_exists.
    apply (Permutation_in _ (Permutation_sym HP)) in Hb.
    destruct (incl_b'_in _ _ _ H2 Hb) as (a & Ha & ?). exists a. auto.
Qed.

Lemma enorm_list_cases k l :
  enorm k (VList l) = VList l \/ enorm k (VList l) = VSet l.
Proof. destruct k; simpl; auto. Qed.

Lemma enorm_set k l : enorm k (VSet l) = VSet l.
Proof. destruct k; reflexivity. Qed.

Lemma enorm_obj k c fs : enorm k (VObj c fs) = VObj c fs.
Proof. destruct k; reflexivity. Qed.

Lemma vperm_sound T :
  (forall x y, vperm T x y -> forall k, peq (enorm k (nfe T x)) (enorm k (nfe T y)) = true) /\
  (forall l l', vperms T l l' -> Forall2 (fun a b => peq a b = true) (map (nfe T) l) (map (nfe T) l')) /\
  (forall c fs fs', vpermf T c fs fs' ->
     (spec_of T c = None ->
      Forall2 (fun p q => field_eqb p q = true)
              (map (fun p => (fst p, nfe T (snd p))) fs) (map (fun p => (fst p, nfe T (snd p))) fs')) /\
     forall sp, spec_of T c = Some sp ->
                Forall2 (fun a b => peq a b = true) (epairs T sp fs) (epairs T sp fs')).
Proof.
  apply vperm_mutind.
  - intros x k. apply peq_refl.
  - intros l l' _ IH k. rewrite !nfe_list.
    destruct k; cbv beta iota delta [enorm round_arr];
      try (rewrite peq_list; apply list_eqb_Forall2; exact IH); apply pointwise_set; exact IH.
  - intros l l1 l' _ IH HP k. rewrite !nfe_set, !enorm_set.
    eapply set_trans_perm; [exact IH|]. apply Permutation_map. exact HP.
  - intros c fs fs' _ [IH1 IH2] k.
    destruct (spec_of T c) as [sp|] eqn:Hs.
    + rewrite !(nfe_obj _ _ _ _ Hs), !enorm_obj, peq_obj, String.eqb_refl.
      cbn [list_eqb andb]. unfold field_eqb. cbn [fst snd]. rewrite String.eqb_refl, andb_true_r.
      apply pointwise_set. apply IH2. reflexivity.
    + cbn [nfe]. rewrite Hs. rewrite !enorm_obj, peq_obj, String.eqb_refl. cbn [andb].
      apply list_eqb_Forall2. apply IH1. reflexivity.
  - constructor.
  - intros a b r r' _ IHa _ IHr. cbn [map]. constructor; [apply (IHa KPy)|exact IHr].
  - intros c. split; intros; constructor.
  - intros c a v v' r r' _ IHv _ [IH1 IH2]. split.
    + intro Hn. cbn [map fst snd]. constructor; auto. unfold field_eqb. cbn [fst snd].
      rewrite String.eqb_refl. apply (IHv KPy).
    + intros sp Hs. cbn [epairs]. destruct (is_ignored (ekind_of sp a)); [apply IH2; auto|].
      constructor; [|apply IH2; auto]. rewrite peq_list. cbn [list_eqb]. cbn [peq].
      rewrite String.eqb_refl, andb_true_r. apply IHv.
  - intros c a l l' r r' Hk HP _ [IH1 IH2]. unfold idlist_kind in Hk. split.
    + intro Hn. rewrite Hn in Hk. discriminate.
    + intros sp Hs. rewrite Hs in Hk. cbn [epairs].
      destruct (ekind_of sp a) eqn:Ek; try discriminate; cbn [is_ignored];
        (constructor; [|apply IH2; auto]); rewrite peq_list; cbn [list_eqb]; cbn [peq];
        rewrite String.eqb_refl, andb_true_r; rewrite !nfe_list; cbv beta iota delta [enorm round_arr];
        apply perm_set; apply Permutation_map; exact HP.
Qed.

(* objects holding the same values compare equal whatever the insertion order of their sets was *)
Theorem eq_perm_invariant T x y : vperm T x y -> eqv T x y = true.
Proof. intro H. exact (proj1 (vperm_sound T) x y H KPy). Qed.
