(* Proofs/SrcIdHang.v — Scenario.remove_hanging_lanelet_members as parsed on every run (Gen/Src_idhang.v), run by the
   interpreter of Model/IdHangSrc.v with the parsed remove_traffic_sign / remove_traffic_light (Gen/Src_idremove.v),
   computes remove_hanging of Model/IdPool.v on every lanelet list and state; hence remove_lanelet executed entirely by
   parsed methods is remove_lanelets. *)
From Coq Require Import ZArith List Bool.
Import ListNotations.
From CR Require Import Base.G2Fold Model.IdPool Proofs.IdPool Model.IdRemoveSrc Gen.Src_idremove Proofs.SrcIdRemove.
From CR Require Import Model.IdHangSrc Gen.Src_idhang.
Open Scope Z_scope.

Lemma src_hanging_sel ls n :
  (hsel_run (hp_signs src_hanging) ls n, hsel_run (hp_lights src_hanging) ls n) = hanging ls n.
Proof. reflexivity. Qed.

Theorem src_hanging_is_model ls s :
  run_hanging src_hanging (rs_sign src_removal) (rs_light src_removal) ls s = remove_hanging ls s.
Proof.
  unfold run_hanging, remove_hanging. rewrite <- src_hanging_sel.
  cbn [hp_calls src_hanging hcalls].
  apply seq_ext; [apply src_sign_list|]. intro s1.
  rewrite seq_ret_r. apply src_light_list.
Qed.

Theorem src_lanelets_full ls refs s :
  run_lanelets_full src_hanging (rs_sign src_removal) (rs_light src_removal) (rs_lanelet src_removal) ls refs s
  = remove_lanelets ls refs s.
Proof.
  rewrite <- src_lanelets. unfold run_lanelets_full, run_lanelets.
  apply seq_ext; [|reflexivity].
  destruct (refs && lm_hanging_first (rs_lanelet src_removal)); [apply src_hanging_is_model|reflexivity].
Qed.

Lemma erun_full_eq e s :
  erun_full src_hanging (rs_lanelet src_removal) (rs_sign src_removal) (rs_light src_removal) (rs_inter src_removal) e s
  = erun (rs_lanelet src_removal) (rs_sign src_removal) (rs_light src_removal) (rs_inter src_removal) e s.
Proof.
  destruct e as [k|]; [destruct k|]; try reflexivity.
  unfold erun_full, erun. apply loop_ext. intros l s1. rewrite src_lanelets_full, src_lanelets. reflexivity.
Qed.
Theorem src_erase_full s :
  eruns_full src_hanging (rs_lanelet src_removal) (rs_sign src_removal) (rs_light src_removal) (rs_inter src_removal)
             (rs_erase src_removal) s = erase s.
Proof.
  rewrite <- src_erase. generalize (rs_erase src_removal) s. intro l.
  induction l as [|e r IH]; intro s0; cbn [eruns_full eruns]; [reflexivity|].
  apply seq_ext; [apply erun_full_eq|exact IH].
Qed.

