(* Proofs/Writers.v — lemmas about Model/Writers.v (property C15). *)
From Coq Require Import List Bool Arith Lia.
From CR Require Import Model.Writers.
Import ListNotations.

Section Maps.
  Context {B : Type}.
  Lemma lookup_update_same k (v : B) l : lookup k (update k v l) = Some v.
  Proof.
    induction l as [|[k' v'] r IH]; simpl.
    - rewrite Nat.eqb_refl. reflexivity.
    - destruct (Nat.eqb k k') eqn:E; simpl; [rewrite Nat.eqb_refl; reflexivity|]. rewrite E. exact IH.
  Qed.
  Lemma lookup_update_other k k' (v : B) l : k <> k' -> lookup k (update k' v l) = lookup k l.
  Proof.
    intros N. induction l as [|[k2 v2] r IH]; simpl.
    - destruct (Nat.eqb k k') eqn:E; [apply Nat.eqb_eq in E; contradiction|reflexivity].
    - destruct (Nat.eqb k' k2) eqn:E2; simpl.
      + apply Nat.eqb_eq in E2. subst k2.
        destruct (Nat.eqb k k') eqn:E; [apply Nat.eqb_eq in E; contradiction|reflexivity].
      + destruct (Nat.eqb k k2); [reflexivity|exact IH].
  Qed.
End Maps.

Section Writers.
  Variable A : Type.
  Variables key value node bytes : Type.
  Variable key_eqb : key -> key -> bool.
  Variable header : A -> list (key * value).
  Variable objects : A -> nat -> list node.
  Variable problems : A -> nat -> list node.
  Variable ser_xml : list (key * value) -> list node -> bytes.
  Variable pb_header pb_objects pb_problems : A -> list node.
  Variable ser_pb : list node -> bytes.

  Notation world := (world A key value node bytes).
  Notation wstate := (wstate A key value node).
  Notation step := (step A key value node bytes key_eqb header objects problems ser_xml pb_header pb_objects
                         pb_problems ser_pb).
  Notation run := (run A key value node bytes key_eqb header objects problems ser_xml pb_header pb_objects
                       pb_problems ser_pb).
  Notation write_call := (write_call A key value node bytes key_eqb header objects problems ser_xml pb_header
                                     pb_objects pb_problems ser_pb).
  Notation render := (render A key value node bytes key_eqb header objects problems ser_xml pb_header pb_objects
                             pb_problems ser_pb).
  Notation inputs_in := (inputs_in A key value node bytes).
  Notation inputs_of := (inputs_of A).
  Notation file_exists := (file_exists A key value node bytes).
  Notation files := (files A key value node bytes).
  Notation writers := (writers A key value node bytes).

  Definition inputs_ws (ws : wstate) : fmt * nat * A := (w_fmt _ _ _ _ ws, w_prec _ _ _ _ ws, w_args _ _ _ _ ws).

  (* one write call of the repaired code: the bytes are [render] of the writer's own inputs, whatever
     the global precision and whatever tree the writer still holds from earlier calls *)
  Lemma write_call_repaired (s : world) w (ws : wstate) path pp :
    let '(f, p, a) := inputs_ws ws in
    let (s', o) := write_call repaired s w ws path pp in
    o = OWritten path (render f p a pp) /\
    lookup path (files s') = Some (render f p a pp) /\
    (forall q, q <> path -> lookup q (files s') = lookup q (files s)) /\
    (forall w', inputs_in s' w' = if Nat.eqb w' w then Some (f, p, a) else inputs_in s w').
  Proof.
    destruct ws as [f p a at_ k]. unfold inputs_ws, write_call, render, Writers.inputs_in. simpl.
    destruct f; simpl.
    - repeat split.
      + destruct pp; rewrite ?app_nil_r; reflexivity.
      + rewrite lookup_update_same. destruct pp; rewrite ?app_nil_r; reflexivity.
      + intros q N. apply lookup_update_other. assumption.
      + intros w'. destruct (Nat.eqb w' w) eqn:E.
        * apply Nat.eqb_eq in E. subst. rewrite lookup_update_same. reflexivity.
        * apply Nat.eqb_neq in E. rewrite (lookup_update_other _ _ _ _ E). reflexivity.
    - repeat split.
      + destruct pp; rewrite <- ?app_assoc, ?app_nil_r; reflexivity.
      + rewrite lookup_update_same. destruct pp; rewrite <- ?app_assoc, ?app_nil_r; reflexivity.
      + intros q N. apply lookup_update_other. assumption.
      + intros w'. destruct (Nat.eqb w' w) eqn:E.
        * apply Nat.eqb_eq in E. subst. rewrite lookup_update_same. reflexivity.
        * apply Nat.eqb_neq in E. rewrite (lookup_update_other _ _ _ _ E). reflexivity.
  Qed.

  (* a write call never changes any writer's constructor inputs (under either version of the code) *)
  Lemma write_call_inputs fx (s : world) w (ws : wstate) path pp :
    lookup w (writers s) = Some ws ->
    forall w', inputs_in (fst (write_call fx s w ws path pp)) w' = inputs_in s w'.
  Proof.
    intros L w'. unfold write_call, Writers.inputs_in.
    destruct (w_fmt _ _ _ _ ws) eqn:F; simpl;
      (destruct (Nat.eqb w' w) eqn:E;
       [apply Nat.eqb_eq in E; subst; rewrite lookup_update_same, L; simpl; rewrite ?F; reflexivity
       |apply Nat.eqb_neq in E; rewrite (lookup_update_other _ _ _ _ E); reflexivity]).
  Qed.

  Lemma step_inputs fx (s : world) o w :
    inputs_in (fst (step fx s o)) w =
    match o with
    | New w' f p a => if Nat.eqb w w' then Some (f, p, a) else inputs_in s w
    | _ => inputs_in s w
    end.
  Proof.
    destruct o as [w' f p a|w' path m|w' path m]; simpl.
    - unfold Writers.inputs_in. simpl. destruct (Nat.eqb w w') eqn:E.
      + apply Nat.eqb_eq in E. subst. rewrite lookup_update_same. reflexivity.
      + apply Nat.eqb_neq in E. rewrite (lookup_update_other _ _ _ _ E). reflexivity.
    - destruct (lookup w' (writers s)) as [ws|] eqn:L; [|reflexivity].
      destruct (skips _ m); [reflexivity|]. apply write_call_inputs. assumption.
    - destruct (lookup w' (writers s)) as [ws|] eqn:L; [|reflexivity].
      destruct (skips _ m); [reflexivity|]. apply write_call_inputs. assumption.
  Qed.

  (* the inputs a writer has after a history are those of its latest construction *)
  Lemma run_inputs fx h : forall (s : world) w, inputs_in (run fx h s) w = inputs_of h w (inputs_in s w).
  Proof.
    induction h as [|o r IH]; intros s w; [reflexivity|].
    unfold Writers.run in *. simpl. rewrite IH. rewrite step_inputs.
    destruct o; reflexivity.
  Qed.

  Lemma inputs_in_lookup (s : world) w f p a :
    inputs_in s w = Some (f, p, a) -> exists ws, lookup w (writers s) = Some ws /\ inputs_ws ws = (f, p, a).
  Proof.
    unfold Writers.inputs_in. destruct (lookup w (writers s)) as [ws|]; [|discriminate].
    intros [= <- <- <-]. exists ws. split; reflexivity.
  Qed.

  (* ---------------------------------------------------------------- the property *)
  Theorem write_history_independent :
    forall (h : list (op A)) (s0 : world) w path m f p a (pp : bool),
      inputs_of h w (inputs_in s0 w) = Some (f, p, a) ->
      let s := run repaired h s0 in
      skips (file_exists path s) m = false ->
      let (s', o) := step repaired s (if pp then Write w path m else WriteScenario w path m) in
      o = OWritten path (render f p a pp) /\
      lookup path (files s') = Some (render f p a pp) /\
      (forall q, q <> path -> lookup q (files s') = lookup q (files s)) /\
      (forall w', inputs_in s' w' = inputs_in s w').
  Proof.
    intros h s0 w path m f p a pp H s K.
    assert (I : inputs_in s w = Some (f, p, a)) by (unfold s; rewrite run_inputs; exact H).
    destruct (inputs_in_lookup _ _ _ _ _ I) as (ws & L & E).
    pose proof (write_call_repaired s w ws path pp) as W. rewrite E in W.
    destruct pp; simpl; rewrite L, K;
      (destruct (write_call repaired s w ws path _) as [s' o]; destruct W as (W1 & W2 & W3 & W4);
       repeat split; try assumption;
       intros w'; rewrite W4; destruct (Nat.eqb w' w) eqn:Q; [apply Nat.eqb_eq in Q; subst; symmetry; exact I|reflexivity]).
  Qed.

  (* SKIP (or a user answering "n") on an existing file: nothing at all changes - no file, no
     writer, not even the global precision - under either version of the code *)
  Theorem skip_untouched :
    forall fx (s : world) w path m (pp : bool),
      skips (file_exists path s) m = true ->
      fst (step fx s (if pp then Write w path m else WriteScenario w path m)) = s /\
      (snd (step fx s (if pp then Write w path m else WriteScenario w path m)) = OSkipped \/
       snd (step fx s (if pp then Write w path m else WriteScenario w path m)) = ONoWriter).
  Proof.
    intros fx s w path m pp K. destruct pp; simpl; destruct (lookup w (writers s)); rewrite ?K; simpl; auto.
  Qed.
  Lemma skips_skip (s : world) path : file_exists path s = true -> skips (file_exists path s) Skip = true.
  Proof. intros ->. reflexivity. Qed.
  (* and with a missing file, or mode ALWAYS, the call is never skipped *)
  Lemma skips_always b : skips b Always = false.
  Proof. destruct b; reflexivity. Qed.
  Lemma skips_missing m : skips false m = false.
  Proof. reflexivity. Qed.

  (* two writers constructed with the same inputs write the same bytes, wherever they stand in
     whatever histories *)
  Corollary same_inputs_same_bytes :
    forall h1 h2 (s1 s2 : world) w1 w2 p1 p2 m1 m2 f p a (pp : bool),
      inputs_of h1 w1 (inputs_in s1 w1) = Some (f, p, a) ->
      inputs_of h2 w2 (inputs_in s2 w2) = Some (f, p, a) ->
      skips (file_exists p1 (run repaired h1 s1)) m1 = false ->
      skips (file_exists p2 (run repaired h2 s2)) m2 = false ->
      exists b,
        snd (step repaired (run repaired h1 s1) (if pp then Write w1 p1 m1 else WriteScenario w1 p1 m1)) = OWritten p1 b /\
        snd (step repaired (run repaired h2 s2) (if pp then Write w2 p2 m2 else WriteScenario w2 p2 m2)) = OWritten p2 b.
  Proof.
    intros h1 h2 s1 s2 w1 w2 p1 p2 m1 m2 f p a pp H1 H2 K1 K2.
    pose proof (write_history_independent h1 s1 w1 p1 m1 f p a pp H1 K1) as T1.
    pose proof (write_history_independent h2 s2 w2 p2 m2 f p a pp H2 K2) as T2.
    exists (render f p a pp).
    destruct (step repaired (run repaired h1 s1) _) as [x1 o1]. destruct (step repaired (run repaired h2 s2) _) as [x2 o2].
    simpl. split; [apply T1|apply T2].
  Qed.

  (* every file of every reachable world is the rendering of some writer inputs *)
  Definition rendered (s : world) : Prop :=
    forall q b, lookup q (files s) = Some b -> exists f p a pp, b = render f p a pp.
  Lemma step_rendered (s : world) o : rendered s -> rendered (fst (step repaired s o)).
  Proof.
    intros R. destruct o as [w f p a|w path m|w path m]; simpl; try exact R.
    - destruct (lookup w (writers s)) as [ws|] eqn:L; [|exact R].
      destruct (skips _ m); [exact R|].
      pose proof (write_call_repaired s w ws path true) as W. destruct (inputs_ws ws) as [[f p] a].
      destruct (write_call repaired s w ws path true) as [s' o]. destruct W as (_ & W2 & W3 & _). simpl.
      intros q b Hq. destruct (Nat.eq_dec q path) as [->|N].
      + rewrite W2 in Hq. inversion Hq. eauto.
      + rewrite (W3 q N) in Hq. exact (R q b Hq).
    - destruct (lookup w (writers s)) as [ws|] eqn:L; [|exact R].
      destruct (skips _ m); [exact R|].
      pose proof (write_call_repaired s w ws path false) as W. destruct (inputs_ws ws) as [[f p] a].
      destruct (write_call repaired s w ws path false) as [s' o]. destruct W as (_ & W2 & W3 & _). simpl.
      intros q b Hq. destruct (Nat.eq_dec q path) as [->|N].
      + rewrite W2 in Hq. inversion Hq. eauto.
      + rewrite (W3 q N) in Hq. exact (R q b Hq).
  Qed.
  Theorem files_are_renderings : forall h (s : world), rendered s -> rendered (run repaired h s).
  Proof.
    induction h as [|o r IH]; intros s R; [exact R|]. unfold Writers.run in *. simpl. apply IH, step_rendered, R.
  Qed.
End Writers.

(* ------------------------------------------------------------------ the code as it was found *)
Module Refuted.
  Import Sym.
  Definition third (l : list (out bytes)) : option (out bytes) := nth_error l 2.

  (* without the per-call tree, a second write of one writer emits every element twice *)
  Example accumulating_tree_refuted :
    let fx := {| reset_root := false; own_precision := true |} in
    let h := [New 0 XML 4 7; Write 0 0 Always; Write 0 1 Always] in
    third (trace fx h empty) =
      Some (OWritten 1 ([(0, 7); (1, 7)], [(PObjects, 7, 4); (PProblems, 7, 4); (PObjects, 7, 4); (PProblems, 7, 4)]))
    /\ render XML 4 7 true = ([(0, 7); (1, 7)], [(PObjects, 7, 4); (PProblems, 7, 4)]).
  Proof. split; vm_compute; reflexivity. Qed.

  (* with the process-global precision, a writer constructed in between decides the precision *)
  Example global_precision_refuted :
    let fx := {| reset_root := true; own_precision := false |} in
    let h := [New 0 XML 4 7; New 1 XML 2 8; Write 0 0 Always] in
    third (trace fx h empty) = Some (OWritten 0 (render XML 2 7 true))
    /\ bytes_eqb (render XML 2 7 true) (render XML 4 7 true) = false.
  Proof. split; vm_compute; reflexivity. Qed.

  (* the same two histories under the repaired code *)
  Example repaired_examples :
    third (trace repaired [New 0 XML 4 7; Write 0 0 Always; Write 0 1 Always] empty) = Some (OWritten 1 (render XML 4 7 true))
    /\ third (trace repaired [New 0 XML 4 7; New 1 XML 2 8; Write 0 0 Always] empty) = Some (OWritten 0 (render XML 4 7 true))
    /\ nth_error (trace repaired [New 0 PB 4 7; Write 0 0 Always; Write 1 0 Skip; Write 0 0 Skip] empty) 3 = Some OSkipped.
  Proof. repeat split; vm_compute; reflexivity. Qed.
End Refuted.
