(* Proofs/IdPool.v — lemmas about Model/IdPool.v (C09).  Ids are counted: [cnt z l] is the number of
   occurrences of z in l; the invariant says that every id occurs in the contents exactly as often as in the
   id set, and at most once. *)
From Coq Require Import ZArith List Bool Lia Permutation.
Import ListNotations.
From CR Require Import Base.G2Fold Model.IdPool.
Open Scope Z_scope.

Definition cnt (z : Z) (l : list Z) : nat := count_occ Z.eq_dec l z.
Definition ind (b : bool) : nat := if b then 1%nat else 0%nat.
Arguments cnt : simpl never.
Arguments inter_ids : simpl never.

(* ------------------------------------------------------------------ lists *)
Lemma mem_In z l : mem z l = true <-> In z l.
Proof.
  unfold mem. rewrite existsb_exists. split.
  - intros [x [H E]]. apply Z.eqb_eq in E. subst. exact H.
  - intros H. exists z. split; [exact H | apply Z.eqb_refl].
Qed.
Lemma mem_nIn z l : mem z l = false <-> ~ In z l.
Proof. rewrite <- mem_In. destruct (mem z l); split; congruence. Qed.

Lemma cnt_nil z : cnt z [] = 0%nat. Proof. reflexivity. Qed.
Lemma cnt_cons z x l : cnt z (x :: l) = (ind (Z.eqb x z) + cnt z l)%nat.
Proof.
  unfold cnt. simpl. destruct (Z.eq_dec x z) as [E|E].
  - subst. rewrite Z.eqb_refl. reflexivity.
  - apply Z.eqb_neq in E. rewrite E. reflexivity.
Qed.
Lemma cnt_app z a b : cnt z (a ++ b) = (cnt z a + cnt z b)%nat.
Proof. apply count_occ_app. Qed.
Lemma cnt_In z l : In z l <-> (1 <= cnt z l)%nat.
Proof. unfold cnt. rewrite (count_occ_In Z.eq_dec). lia. Qed.
Lemma cnt_nIn z l : ~ In z l <-> cnt z l = 0%nat.
Proof. rewrite cnt_In. lia. Qed.
Lemma cnt_mem z l : mem z l = true <-> (1 <= cnt z l)%nat.
Proof. rewrite mem_In. apply cnt_In. Qed.
Lemma cnt_mem_false z l : mem z l = false <-> cnt z l = 0%nat.
Proof. rewrite mem_nIn. apply cnt_nIn. Qed.

Lemma cnt_sdel z i l : cnt z (sdel i l) = if z =? i then 0%nat else cnt z l.
Proof.
  unfold sdel. induction l as [|x r IH]; simpl.
  - destruct (z =? i); reflexivity.
  - destruct (x =? i) eqn:E; simpl.
    + rewrite cnt_cons, IH. apply Z.eqb_eq in E. subst x.
      destruct (z =? i) eqn:F; [reflexivity|]. rewrite Z.eqb_sym, F. reflexivity.
    + rewrite !cnt_cons, IH. destruct (z =? i) eqn:F; [|reflexivity].
      apply Z.eqb_eq in F. subst z. rewrite E. reflexivity.
Qed.
Lemma sdel_nIn i l : ~ In i l -> sdel i l = l.
Proof.
  unfold sdel. induction l as [|x r IH]; simpl; intros H; [reflexivity|].
  destruct (x =? i) eqn:E.
  - apply Z.eqb_eq in E. subst. exfalso. apply H. now left.
  - simpl. f_equal. apply IH. intros K. apply H. now right.
Qed.
Lemma In_sdel y i l : In y (sdel i l) <-> In y l /\ y <> i.
Proof.
  unfold sdel. rewrite filter_In, negb_true_iff, Z.eqb_neq. tauto.
Qed.

Lemma nodupb_spec l : nodupb l = true <-> forall z, (cnt z l <= 1)%nat.
Proof.
  induction l as [|x r IH]; simpl.
  - split; [intros _ z; rewrite cnt_nil; lia | reflexivity].
  - rewrite andb_true_iff, negb_true_iff, IH, cnt_mem_false. split.
    + intros [H1 H2] z. rewrite cnt_cons. destruct (x =? z) eqn:E; simpl; [|apply H2].
      apply Z.eqb_eq in E. subst. lia.
    + intros H. split.
      * specialize (H x). rewrite cnt_cons, Z.eqb_refl in H. simpl in H. lia.
      * intros z. specialize (H z). rewrite cnt_cons in H. lia.
Qed.
Lemma cnt_le1_NoDup l : (forall z, (cnt z l <= 1)%nat) <-> NoDup l.
Proof. unfold cnt. symmetry. apply (NoDup_count_occ Z.eq_dec). Qed.

(* repeated deletion *)
Definition sdel_all (ks : list Z) (l : list Z) : list Z := fold_left (fun acc k => sdel k acc) ks l.
Lemma cnt_sdel_all z ks : forall l, cnt z (sdel_all ks l) = if mem z ks then 0%nat else cnt z l.
Proof.
  induction ks as [|k r IH]; intros l; simpl; [reflexivity|].
  unfold sdel_all in *. simpl. rewrite IH, cnt_sdel.
  destruct (z =? k) eqn:E; simpl; [destruct (mem z r); reflexivity | reflexivity].
Qed.
Lemma sdel_all_self l : sdel_all l l = [].
Proof.
  assert (H : forall z, cnt z (sdel_all l l) = 0%nat).
  { intros z. rewrite cnt_sdel_all. destruct (mem z l) eqn:E; [reflexivity|]. now apply cnt_mem_false. }
  destruct (sdel_all l l) as [|x r]; [reflexivity|].
  specialize (H x). rewrite cnt_cons, Z.eqb_refl in H. simpl in H. lia.
Qed.

(* ------------------------------------------------------------------ components of the network *)
Lemma map_sdel_lanelets i ls :
  map l_id (filter (fun l => negb (l_id l =? i)) ls) = sdel i (map l_id ls).
Proof.
  unfold sdel. induction ls as [|l r IH]; simpl; [reflexivity|].
  destruct (l_id l =? i); simpl; [exact IH | now rewrite IH].
Qed.
Lemma map_sdel_inters i xs :
  map x_id (filter (fun x => negb (x_id x =? i)) xs) = sdel i (map x_id xs).
Proof.
  unfold sdel. induction xs as [|l r IH]; simpl; [reflexivity|].
  destruct (x_id l =? i); simpl; [exact IH | now rewrite IH].
Qed.
Lemma has_lanelet_In i n : has_lanelet i n = true <-> In i (map l_id (n_lanelets n)).
Proof.
  unfold has_lanelet. rewrite existsb_exists, in_map_iff. split.
  - intros [l [H E]]. apply Z.eqb_eq in E. exists l. tauto.
  - intros [l [E H]]. exists l. split; [exact H | now apply Z.eqb_eq].
Qed.
Lemma has_inter_In i n : has_inter i n = true <-> In i (map x_id (n_inters n)).
Proof.
  unfold has_inter. rewrite existsb_exists, in_map_iff. split.
  - intros [l [H E]]. apply Z.eqb_eq in E. exists l. tauto.
  - intros [l [E H]]. exists l. split; [exact H | now apply Z.eqb_eq].
Qed.

Lemma inter_eqb_eq a b : inter_eqb a b = true <-> a = b.
Proof.
  unfold inter_eqb. destruct a as [i l], b as [j k]; simpl.
  rewrite andb_true_iff, Z.eqb_eq. destruct (list_eq_dec Z.eq_dec l k); split.
  - intros [H _]. now subst.
  - intros H. inversion H. auto.
  - intros [_ H]. discriminate.
  - intros H. inversion H. contradiction.
Qed.
Lemma ok_inter_In x n : existsb (inter_eqb x) (n_inters n) = true <-> In x (n_inters n).
Proof.
  rewrite existsb_exists. split.
  - intros [y [H E]]. apply inter_eqb_eq in E. now subst.
  - intros H. exists x. split; [exact H | now apply inter_eqb_eq].
Qed.

(* the ids of a list of intersections, with one intersection taken out *)
Lemma cnt_flat_inters_le z x xs : In x xs -> (cnt z (inter_ids x) <= cnt z (flat_map inter_ids xs))%nat.
Proof.
  induction xs as [|y r IH]; cbn [flat_map In]; [tauto|]. intros [E|H]; rewrite cnt_app.
  - subst. lia.
  - specialize (IH H). lia.
Qed.
Lemma x_id_in_flat x xs : In x xs -> In (x_id x) (flat_map inter_ids xs).
Proof. intros H. apply in_flat_map. exists x. split; [exact H | now left]. Qed.

Lemma filter_inters_absent i xs :
  ~ In i (map x_id xs) -> filter (fun x => negb (x_id x =? i)) xs = xs.
Proof.
  induction xs as [|y r IH]; simpl; intros H; [reflexivity|].
  destruct (x_id y =? i) eqn:E.
  - apply Z.eqb_eq in E. exfalso. apply H. now left.
  - simpl. f_equal. apply IH. intros K. apply H. now right.
Qed.
Lemma cnt_inters_remove z x xs :
  In x xs -> (forall y, (cnt y (flat_map inter_ids xs) <= 1)%nat) ->
  (cnt z (flat_map inter_ids (filter (fun y => negb (Z.eqb (x_id y) (x_id x))) xs)) + cnt z (inter_ids x)
   = cnt z (flat_map inter_ids xs))%nat.
Proof.
  induction xs as [|y r IH]; cbn [flat_map In filter]; [tauto|]. intros Hin Hle.
  assert (Hr : forall w, (cnt w (flat_map inter_ids r) <= 1)%nat).
  { intros w. specialize (Hle w). rewrite cnt_app in Hle. lia. }
  destruct (x_id y =? x_id x) eqn:E; cbn [negb flat_map].
  - apply Z.eqb_eq in E.
    assert (Hn : ~ In (x_id x) (map x_id r)).
    { intros K. apply in_map_iff in K. destruct K as [w [Ew Hw]].
      pose proof (x_id_in_flat w r Hw) as K1. rewrite Ew in K1. apply cnt_In in K1.
      specialize (Hle (x_id x)). rewrite cnt_app in Hle.
      assert (1 <= cnt (x_id x) (inter_ids y))%nat.
      { apply cnt_In. rewrite <- E. now left. } lia. }
    destruct Hin as [Hy|Hx].
    + subst y. rewrite filter_inters_absent by exact Hn. rewrite cnt_app. lia.
    + exfalso. apply Hn. apply in_map. exact Hx.
  - destruct Hin as [Hy|Hx]; [subst; rewrite Z.eqb_refl in E; discriminate|].
    rewrite !cnt_app. specialize (IH Hx Hr). lia.
Qed.

Lemma lids_map_pres (f : lanelet -> lanelet) ls :
  (forall l, l_id (f l) = l_id l) -> map l_id (map f ls) = map l_id ls.
Proof. intros H. rewrite map_map. apply map_ext. exact H. Qed.

(* ------------------------------------------------------------------ the invariant *)
Definition Inv (s : st) : Prop :=
  (forall z, cnt z (contents_ids s) = cnt z (idset s)) /\
  (forall z, (cnt z (idset s) <= 1)%nat) /\
  (forall g, In g (generated s) -> exists c, counter s = Some c /\ g <= c) /\
  (counter s = None -> idset s = []).

(* the readable form used in the statements *)
Definition InvP (s : st) : Prop :=
  NoDup (contents_ids s) /\ NoDup (idset s) /\
  (forall z, In z (idset s) <-> In z (contents_ids s)) /\
  (forall g, In g (generated s) -> exists c, counter s = Some c /\ g <= c).

Lemma Inv_InvP s : Inv s -> InvP s.
Proof.
  intros [H1 [H2 [H3 _]]]. repeat split.
  - apply cnt_le1_NoDup. intros z. rewrite H1. apply H2.
  - apply cnt_le1_NoDup. exact H2.
  - rewrite !cnt_In, H1. tauto.
  - rewrite !cnt_In, H1. tauto.
  - exact H3.
Qed.

Lemma Inv_init : Inv init.
Proof.
  unfold Inv, init; simpl. split; [intros; reflexivity|]. split; [intros; rewrite cnt_nil; lia|].
  split; [intros g []| reflexivity].
Qed.

(* monad plumbing *)
Lemma seq_None (a b : M) s s1 : a s = (s1, None) -> (a ;; b) s = b s1.
Proof. unfold seq. intros ->. reflexivity. Qed.
Lemma seq_Some (a b : M) s s1 e : a s = (s1, Some e) -> (a ;; b) s = (s1, Some e).
Proof. unfold seq. intros ->. reflexivity. Qed.
Lemma seq_pres (P : st -> Prop) (a b : M) :
  (forall s, P s -> P (fst (a s))) -> (forall s, P s -> P (fst (b s))) ->
  forall s, P s -> P (fst ((a ;; b) s)).
Proof.
  intros Ha Hb s Hs. unfold seq. specialize (Ha s Hs). destruct (a s) as [s1 [e|]]; simpl in *.
  - exact Ha.
  - apply Hb. exact Ha.
Qed.
Lemma loop_pres {A} (P : st -> Prop) (body : A -> M) :
  (forall a s, P s -> P (fst (body a s))) -> forall l s, P s -> P (fst (loop body l s)).
Proof.
  intros H. induction l as [|a r IH]; simpl; intros s Hs; [exact Hs|].
  apply seq_pres; auto.
Qed.

(* ------------------------------------------------------------------ counting the contents *)
Lemma C_unfold s z :
  cnt z (contents_ids s) =
  (cnt z (map l_id (n_lanelets (network s))) + cnt z (n_signs (network s)) + cnt z (n_lights (network s))
   + cnt z (flat_map inter_ids (n_inters (network s)))
   + cnt z (statics s) + cnt z (dynamics s) + cnt z (envs s) + cnt z (phantoms s))%nat.
Proof. unfold contents_ids, net_ids, obstacle_ids. rewrite !cnt_app. lia. Qed.

Lemma cnt_all0_nil l : (forall z, cnt z l = 0%nat) -> l = [].
Proof.
  destruct l as [|x r]; [reflexivity|]. intros H. specialize (H x).
  rewrite cnt_cons, Z.eqb_refl in H. simpl in H. lia.
Qed.

Lemma Inv_contains s z : Inv s -> In z (contents_ids s) -> In z (idset s).
Proof. intros [H _]. rewrite !cnt_In, H. tauto. Qed.
Lemma Inv_contains' s z : Inv s -> In z (idset s) -> In z (contents_ids s).
Proof. intros [H _]. rewrite !cnt_In, H. tauto. Qed.

(* adding ids that are free *)
Lemma Inv_add s s' ids : Inv s ->
  (forall z, cnt z (idset s') = (cnt z ids + cnt z (idset s))%nat) ->
  (forall z, cnt z (contents_ids s') = (cnt z ids + cnt z (contents_ids s))%nat) ->
  (forall z, (cnt z ids <= 1)%nat) -> (forall z, In z ids -> ~ In z (idset s)) ->
  generated s' = generated s ->
  (counter s' = counter s \/ (counter s = None /\ counter s' <> None)) ->
  (counter s' = None -> ids = []) ->
  Inv s'.
Proof.
  intros [H1 [H2 [H3 H4]]] Hi Hc Hn Hf Hg Hk Hk0. repeat split.
  - intros z. rewrite Hi, Hc, H1. reflexivity.
  - intros z. rewrite Hi. specialize (Hn z). specialize (H2 z). specialize (Hf z).
    rewrite !cnt_In in Hf. lia.
  - intros g Hgin. rewrite Hg in Hgin. destruct (H3 g Hgin) as [c [Ec Hc']].
    destruct Hk as [Hk|[Hk _]]; [|congruence]. exists c. rewrite Hk. auto.
  - intros K. apply cnt_all0_nil. intros z. rewrite Hi, (Hk0 K), cnt_nil.
    destruct Hk as [Hk|[_ Hk]]; [|contradiction]. rewrite H4 by congruence. reflexivity.
Qed.

(* removing ids *)
Lemma Inv_remove s s' ids : Inv s ->
  (forall z, cnt z (idset s') = if mem z ids then 0%nat else cnt z (idset s)) ->
  (forall z, (cnt z (contents_ids s') + cnt z ids = cnt z (contents_ids s))%nat) ->
  generated s' = generated s -> counter s' = counter s -> Inv s'.
Proof.
  intros [H1 [H2 [H3 H4]]] Hi Hc Hg Hk. repeat split.
  - intros z. rewrite Hi. specialize (Hc z). specialize (H1 z). specialize (H2 z).
    destruct (mem z ids) eqn:E.
    + apply cnt_mem in E. lia.
    + apply cnt_mem_false in E. lia.
  - intros z. rewrite Hi. specialize (H2 z). destruct (mem z ids); lia.
  - intros g Hgin. rewrite Hg in Hgin. rewrite Hk. auto.
  - intros K. apply cnt_all0_nil. intros z. rewrite Hi. rewrite H4 by congruence.
    rewrite cnt_nil. destruct (mem z ids); reflexivity.
Qed.

(* ------------------------------------------------------------------ marking *)
Definition marked (z : Z) (s : st) : st :=
  mkSt (z :: idset s) (match counter s with None => Some z | Some c => Some c end) (network s)
       (statics s) (dynamics s) (envs s) (phantoms s) (generated s).

Lemma mark_one_used s z : Inv s -> In z (idset s) -> mark_one z s = (s, Some ValueError).
Proof.
  intros [_ [_ [_ H4]]] Hin. unfold mark_one. destruct (counter s) eqn:E.
  - apply mem_In in Hin. rewrite Hin. reflexivity.
  - rewrite (H4 eq_refl) in Hin. destruct Hin.
Qed.
Lemma mark_one_free s z : ~ In z (idset s) -> mark_one z s = (marked z s, None).
Proof.
  intros Hn. apply mem_nIn in Hn. unfold mark_one, marked. destruct (counter s) eqn:E; simpl.
  - rewrite Hn. unfold set_idset. rewrite E. reflexivity.
  - rewrite Hn. reflexivity.
Qed.

Fixpoint marked_all (ids : list Z) (s : st) : st :=
  match ids with [] => s | z :: r => marked_all r (marked z s) end.
Lemma marked_all_frame ids : forall s,
  network (marked_all ids s) = network s /\ statics (marked_all ids s) = statics s /\
  dynamics (marked_all ids s) = dynamics s /\ envs (marked_all ids s) = envs s /\
  phantoms (marked_all ids s) = phantoms s /\ generated (marked_all ids s) = generated s /\
  (forall z, cnt z (idset (marked_all ids s)) = (cnt z ids + cnt z (idset s))%nat) /\
  (counter (marked_all ids s) = counter s \/ (counter s = None /\ counter (marked_all ids s) <> None)) /\
  (counter (marked_all ids s) = None -> ids = []).
Proof.
  induction ids as [|x r IH]; intros s; simpl.
  - repeat split; auto.
  - destruct (IH (marked x s)) as [A [B [C [D [E [F [G [H I]]]]]]]]. simpl in *.
    repeat split; auto.
    + intros z. rewrite G, !cnt_cons. lia.
    + destruct (counter s) eqn:K.
      * left. destruct H as [H|[H _]]; congruence.
      * right. split; [reflexivity|]. destruct H as [H|[H _]]; congruence.
    + intros K. exfalso. destruct H as [H|[H _]]; [|destruct (counter s); discriminate].
      rewrite K in H. destruct (counter s); discriminate.
Qed.

Lemma free_all_spec ids s :
  free_all ids s = true <-> (forall z, (cnt z ids <= 1)%nat) /\ (forall z, In z ids -> ~ In z (idset s)).
Proof.
  unfold free_all. rewrite andb_true_iff, nodupb_spec, forallb_forall.
  split; intros [A B]; split; auto; intros z Hz.
  - apply mem_nIn. apply negb_true_iff. auto.
  - apply negb_true_iff. apply mem_nIn. auto.
Qed.

Lemma loop_mark_free ids : forall s,
  (forall z, (cnt z ids <= 1)%nat) -> (forall z, In z ids -> ~ In z (idset s)) ->
  loop mark_one ids s = (marked_all ids s, None).
Proof.
  induction ids as [|x r IH]; intros s Hn Hf; simpl; [reflexivity|].
  rewrite (seq_None _ _ s (marked x s)) by (apply mark_one_free; apply Hf; now left).
  apply IH.
  - intros z. specialize (Hn z). rewrite cnt_cons in Hn. lia.
  - intros z Hz. simpl. intros [K|K].
    + subst. specialize (Hn z). rewrite cnt_cons, Z.eqb_refl in Hn. apply cnt_In in Hz. simpl in Hn. lia.
    + apply (Hf z); [now right | exact K].
Qed.

Lemma mark_all_free ids s : free_all ids s = true -> mark_all ids s = (marked_all ids s, None).
Proof.
  intros H. unfold mark_all. rewrite H. apply free_all_spec in H. destruct H. now apply loop_mark_free.
Qed.
Lemma mark_all_used ids s : free_all ids s = false -> mark_all ids s = (s, Some ValueError).
Proof. intros H. unfold mark_all. rewrite H. reflexivity. Qed.
Arguments marked_all : simpl never.

(* id_remove / id_discard *)
Lemma id_remove_ok s z : In z (idset s) -> id_remove z s = (set_idset s (sdel z (idset s)), None).
Proof. intros H. apply mem_In in H. unfold id_remove. rewrite H. reflexivity. Qed.

Lemma loop_id_remove ids : forall s,
  (forall z, (cnt z ids <= 1)%nat) -> (forall z, In z ids -> In z (idset s)) ->
  loop id_remove ids s = (set_idset s (sdel_all ids (idset s)), None).
Proof.
  induction ids as [|x r IH]; intros s Hn Hin; simpl.
  - destruct s; reflexivity.
  - rewrite (seq_None _ _ s (set_idset s (sdel x (idset s)))) by (apply id_remove_ok; apply Hin; now left).
    rewrite IH.
    + destruct s; reflexivity.
    + intros z. specialize (Hn z). rewrite cnt_cons in Hn. lia.
    + intros z Hz. simpl. apply In_sdel. split; [apply Hin; now right|].
      intros K. subst. specialize (Hn x). rewrite cnt_cons, Z.eqb_refl in Hn. apply cnt_In in Hz. simpl in Hn. lia.
Qed.
Lemma loop_id_discard ids : forall s,
  loop id_discard ids s = (set_idset s (sdel_all ids (idset s)), None).
Proof.
  induction ids as [|x r IH]; intros s; simpl.
  - destruct s; reflexivity.
  - unfold seq, id_discard at 1, pure. rewrite IH. destruct s; reflexivity.
Qed.

(* ------------------------------------------------------------------ add_objects *)
Ltac cn := rewrite ?C_unfold; simpl; rewrite ?map_app; simpl; rewrite ?cnt_app, ?cnt_cons, ?cnt_nil; simpl.

Lemma part_le s z : Inv s -> ~ In z (idset s) ->
  ~ In z (map l_id (n_lanelets (network s))) /\ ~ In z (n_signs (network s)) /\ ~ In z (n_lights (network s)) /\
  ~ In z (flat_map inter_ids (n_inters (network s))) /\
  ~ In z (statics s) /\ ~ In z (dynamics s) /\ ~ In z (envs s) /\ ~ In z (phantoms s).
Proof.
  intros [H _] Hn. apply cnt_nIn in Hn. rewrite <- H, C_unfold in Hn. rewrite !cnt_nIn. lia.
Qed.

Lemma free_single z s : free_all [z] s = true <-> ~ In z (idset s).
Proof.
  rewrite free_all_spec. split.
  - intros [_ H]. apply H. now left.
  - intros H. split.
    + intros y. rewrite cnt_cons, cnt_nil. destruct (z =? y); simpl; lia.
    + intros y [E|[]]. now subst.
Qed.

Lemma flat_inters_snoc xs x : flat_map inter_ids (xs ++ [x]) = flat_map inter_ids xs ++ inter_ids x.
Proof. rewrite flat_map_app. cbn [flat_map]. rewrite app_nil_r. reflexivity. Qed.

Lemma add_one_rejected s a lids : Inv s -> free_all (arg_ids a) s = false ->
  add_one a lids s = (s, Some ValueError).
Proof.
  intros HI Hf.
  assert (Hs : forall z b, free_all [z] s = false -> (mark_one z ;; b) s = (s, Some ValueError)).
  { intros z b H. apply seq_Some. apply mark_one_used; [exact HI|].
    destruct (mem z (idset s)) eqn:E; [now apply mem_In|].
    apply mem_nIn in E. apply free_single in E. congruence. }
  destruct a as [[l|z|z|x|r z]|n]; simpl in *; try (apply Hs; exact Hf).
  - apply seq_Some. now apply mark_all_used.
  - apply seq_Some. now apply mark_all_used.
Qed.

Lemma add_one_accepted s a lids : Inv s -> free_all (arg_ids a) s = true ->
  snd (add_one a lids s) = None /\ Inv (fst (add_one a lids s)) /\
  (forall z, cnt z (contents_ids (fst (add_one a lids s))) = (cnt z (arg_ids a) + cnt z (kept_ids a s))%nat).
Proof.
  intros HI Hf.
  destruct a as [[l|z|z|x|r z]|n]; simpl in Hf |- *.
  - (* lanelet *)
    pose proof (proj1 (free_single _ _) Hf) as Hn. destruct (part_le _ _ HI Hn) as [P1 _].
    unfold seq. rewrite mark_one_free by exact Hn. unfold on_net, pure, net_add_lanelet. simpl.
    replace (has_lanelet (l_id l) (network s)) with false
      by (symmetry; destruct (has_lanelet (l_id l) (network s)) eqn:E; [apply has_lanelet_In in E; contradiction|reflexivity]).
    simpl. split; [reflexivity|].
    assert (Hc : forall z, cnt z (contents_ids (set_network (marked (l_id l) s)
                (mkN (n_lanelets (network s) ++ [l]) (n_signs (network s)) (n_lights (network s)) (n_inters (network s)))))
              = (cnt z [l_id l] + cnt z (contents_ids s))%nat).
    { intros z. cn. lia. }
    split; [|exact Hc].
    eapply (Inv_add s _ [l_id l]); eauto; simpl.
    + intros z. cn. lia.
    + apply free_all_spec in Hf. tauto.
    + apply free_all_spec in Hf. tauto.
    + destruct (counter s); [left; reflexivity | right; split; [reflexivity | discriminate]].
    + destruct (counter s); discriminate.
  - (* sign *)
    pose proof (proj1 (free_single _ _) Hf) as Hn. destruct (part_le _ _ HI Hn) as [_ [P2 _]].
    unfold seq. rewrite mark_one_free by exact Hn. unfold on_net, pure, net_add_sign. simpl.
    apply mem_nIn in P2. rewrite P2. simpl. split; [reflexivity|].
    match goal with |- Inv ?S /\ _ => assert (Hc : forall y, cnt y (contents_ids S) = (cnt y [z] + cnt y (contents_ids s))%nat) end.
    { intros y. cn. rewrite lids_map_pres by (intros l; destruct (mem (l_id l) lids); reflexivity). lia. }
    split; [|exact Hc].
    eapply (Inv_add s _ [z]); eauto; simpl.
    + intros y. cn. lia.
    + apply free_all_spec in Hf. tauto.
    + apply free_all_spec in Hf. tauto.
    + destruct (counter s); [left; reflexivity | right; split; [reflexivity | discriminate]].
    + destruct (counter s); discriminate.
  - (* light *)
    pose proof (proj1 (free_single _ _) Hf) as Hn. destruct (part_le _ _ HI Hn) as [_ [_ [P3 _]]].
    unfold seq. rewrite mark_one_free by exact Hn. unfold on_net, pure, net_add_light. simpl.
    apply mem_nIn in P3. rewrite P3. simpl. split; [reflexivity|].
    match goal with |- Inv ?S /\ _ => assert (Hc : forall y, cnt y (contents_ids S) = (cnt y [z] + cnt y (contents_ids s))%nat) end.
    { intros y. cn. rewrite lids_map_pres by (intros l; destruct (mem (l_id l) lids); reflexivity). lia. }
    split; [|exact Hc].
    eapply (Inv_add s _ [z]); eauto; simpl.
    + intros y. cn. lia.
    + apply free_all_spec in Hf. tauto.
    + apply free_all_spec in Hf. tauto.
    + destruct (counter s); [left; reflexivity | right; split; [reflexivity | discriminate]].
    + destruct (counter s); discriminate.
  - (* intersection *)
    unfold seq. rewrite mark_all_free by exact Hf.
    destruct (marked_all_frame (inter_ids x) s) as [A [B [C [D [E [F [G [H I]]]]]]]].
    apply free_all_spec in Hf. destruct Hf as [Hf1 Hf2].
    assert (Hn : ~ In (x_id x) (idset s)) by (apply Hf2; now left).
    destruct (part_le _ _ HI Hn) as [_ [_ [_ [P4 _]]]].
    unfold on_net, pure, net_add_inter. simpl. rewrite A.
    replace (has_inter (x_id x) (network s)) with false.
    2:{ symmetry. destruct (has_inter (x_id x) (network s)) eqn:K; [|reflexivity].
        apply has_inter_In in K. apply in_map_iff in K. destruct K as [y [Ey Hy]].
        exfalso. apply P4. rewrite <- Ey. now apply x_id_in_flat. }
    simpl. split; [reflexivity|].
    match goal with |- Inv ?S /\ _ => assert (Hc : forall y, cnt y (contents_ids S) = (cnt y (inter_ids x) + cnt y (contents_ids s))%nat) end.
    { intros y. cn. rewrite flat_inters_snoc, cnt_app, B, C, D, E. lia. }
    split; [|exact Hc].
    eapply (Inv_add s _ (inter_ids x)); eauto.
  - (* obstacle *)
    pose proof (proj1 (free_single _ _) Hf) as Hn.
    destruct (part_le _ _ HI Hn) as [_ [_ [_ [_ [P5 [P6 [P7 P8]]]]]]].
    unfold seq. rewrite mark_one_free by exact Hn. unfold pure, dset.
    apply mem_nIn in P5, P6, P7, P8.
    assert (Hm : mem z (obst r (marked z s)) = false) by (destruct r; simpl; assumption).
    rewrite Hm. simpl. split; [reflexivity|].
    match goal with |- Inv ?S /\ _ => assert (Hc : forall y, cnt y (contents_ids S) = (cnt y [z] + cnt y (contents_ids s))%nat) end.
    { intros y. destruct r; cn; lia. }
    split; [|exact Hc].
    eapply (Inv_add s _ [z]); eauto.
    + intros y. destruct r; simpl; cn; lia.
    + apply free_all_spec in Hf. tauto.
    + apply free_all_spec in Hf. tauto.
    + destruct r; reflexivity.
    + destruct r; simpl; (destruct (counter s); [left; reflexivity | right; split; [reflexivity | discriminate]]).
    + destruct r; simpl; destruct (counter s); discriminate.
  - (* network *)
    unfold seq. rewrite mark_all_free by exact Hf.
    destruct (marked_all_frame (net_ids n) s) as [A [B [C [D [E [F [G [H I]]]]]]]].
    rewrite loop_id_discard. unfold pure. simpl. split; [reflexivity|].
    apply free_all_spec in Hf. destruct Hf as [Hf1 Hf2].
    destruct HI as [H1 [H2 [H3 H4]]].
    assert (Hc : forall z, cnt z (contents_ids (set_network (set_idset (marked_all (net_ids n) s)
                  (sdel_all (net_ids (network s)) (idset (marked_all (net_ids n) s)))) n))
               = (cnt z (net_ids n) + cnt z (obstacle_ids s))%nat).
    { intros z. unfold contents_ids, obstacle_ids. simpl. rewrite B, C, D, E. rewrite !cnt_app. reflexivity. }
    split; [|exact Hc].
    repeat split.
    + intros z. rewrite Hc. simpl. rewrite cnt_sdel_all, G.
      specialize (H1 z). specialize (H2 z). specialize (Hf1 z). specialize (Hf2 z).
      unfold contents_ids in H1. rewrite cnt_app in H1. rewrite !cnt_In in Hf2.
      destruct (mem z (net_ids (network s))) eqn:K.
      * apply cnt_mem in K. lia.
      * apply cnt_mem_false in K. lia.
    + intros z. simpl. rewrite cnt_sdel_all, G.
      specialize (H2 z). specialize (Hf1 z). specialize (Hf2 z). rewrite !cnt_In in Hf2.
      destruct (mem z (net_ids (network s))); lia.
    + simpl. intros g Hg. rewrite F in Hg. destruct (H3 g Hg) as [c [Ec Hc']].
      destruct H as [H|[H _]]; [|congruence]. exists c. rewrite H. auto.
    + simpl. intros K. apply cnt_all0_nil. intros z. rewrite cnt_sdel_all, G, (I K), cnt_nil.
      destruct H as [H|[_ H]]; [|contradiction]. rewrite H4 by congruence.
      destruct (mem z (net_ids (network s))); reflexivity.
Qed.

Lemma add_one_inv s a lids : Inv s -> Inv (fst (add_one a lids s)).
Proof.
  intros HI. destruct (free_all (arg_ids a) s) eqn:E.
  - apply add_one_accepted; assumption.
  - rewrite add_one_rejected by assumption. exact HI.
Qed.

(* ------------------------------------------------------------------ loops over distinct contained objects *)
Lemma loop_total {A} (P : st -> Prop) (body : A -> M) :
  (forall a s, P s -> snd (body a s) = None /\ P (fst (body a s))) ->
  forall l s, P s -> snd (loop body l s) = None /\ P (fst (loop body l s)).
Proof.
  intros H. induction l as [|a r IH]; simpl; intros s Hs; [auto|].
  destruct (H a s Hs) as [E Hp]. unfold seq. destruct (body a s) as [s1 e]. simpl in *. subst e. apply IH. exact Hp.
Qed.

Section LoopKeyed.
  Context {A : Type} (key : A -> Z) (body : A -> M) (P : st -> Prop) (Q : A -> st -> Prop) (comp : st -> list Z).
  Hypothesis Hbody : forall a s, P s -> Q a s ->
    snd (body a s) = None /\ P (fst (body a s)) /\ comp (fst (body a s)) = sdel (key a) (comp s).
  Hypothesis Hother : forall a b s, P s -> Q a s -> Q b s -> key a <> key b -> Q b (fst (body a s)).

  Lemma loop_keyed : forall l s, P s -> (forall a, In a l -> Q a s) -> NoDup (map key l) ->
    snd (loop body l s) = None /\ P (fst (loop body l s)) /\
    comp (fst (loop body l s)) = sdel_all (map key l) (comp s).
  Proof.
    induction l as [|a r IH]; simpl; intros s Hs Hq Hnd; [auto|].
    inversion Hnd as [|? ? Hna Hnr]; subst.
    destruct (Hbody a s Hs (Hq a (or_introl eq_refl))) as [E [Hp Hc]].
    unfold seq. destruct (body a s) as [s1 e] eqn:Eb. simpl in *. subst e.
    destruct (IH s1 Hp) as [E1 [Hp1 Hc1]]; [| exact Hnr |].
    - intros b Hb. replace s1 with (fst (body a s)) by (rewrite Eb; reflexivity).
      apply Hother; auto. intros K. apply Hna. rewrite K. now apply in_map.
    - repeat split; auto. rewrite Hc1, Hc. reflexivity.
  Qed.

  Variable rm : A -> list Z.
  Hypothesis Hcnt : forall a s, P s -> Q a s ->
    forall z, (cnt z (contents_ids (fst (body a s))) + cnt z (rm a) = cnt z (contents_ids s))%nat.

  Lemma loop_keyed_cnt : forall l s, P s -> (forall a, In a l -> Q a s) -> NoDup (map key l) ->
    forall z, (cnt z (contents_ids (fst (loop body l s))) + cnt z (flat_map rm l) = cnt z (contents_ids s))%nat.
  Proof.
    induction l as [|a r IH]; simpl; intros s Hs Hq Hnd z; [rewrite cnt_nil; lia|].
    inversion Hnd as [|? ? Hna Hnr]; subst.
    destruct (Hbody a s Hs (Hq a (or_introl eq_refl))) as [E [Hp Hc]].
    pose proof (Hcnt a s Hs (Hq a (or_introl eq_refl)) z) as Hz.
    unfold seq. destruct (body a s) as [s1 e] eqn:Eb. simpl in *. subst e.
    rewrite cnt_app. rewrite <- Hz. rewrite <- (IH s1 Hp); [lia | | exact Hnr].
    intros b Hb. replace s1 with (fst (body a s)) by (rewrite Eb; reflexivity).
    apply Hother; auto. intros K. apply Hna. rewrite K. now apply in_map.
  Qed.
End LoopKeyed.

(* frame conditions *)
Definition lids (s : st) : list Z := map l_id (n_lanelets (network s)).
Definition same_obst (s0 s : st) : Prop :=
  statics s = statics s0 /\ dynamics s = dynamics s0 /\ envs s = envs s0 /\ phantoms s = phantoms s0.
Definition same_meta (s0 s : st) : Prop := counter s = counter s0 /\ generated s = generated s0.

Lemma same_obst_refl s : same_obst s s. Proof. repeat split. Qed.
Lemma same_obst_trans a b c : same_obst a b -> same_obst b c -> same_obst a c.
Proof. unfold same_obst. intuition congruence. Qed.

Lemma Inv_parts_le1 s : Inv s ->
  (forall z, (cnt z (lids s) <= 1)%nat) /\ (forall z, (cnt z (n_signs (network s)) <= 1)%nat) /\
  (forall z, (cnt z (n_lights (network s)) <= 1)%nat) /\
  (forall z, (cnt z (flat_map inter_ids (n_inters (network s))) <= 1)%nat).
Proof.
  intros [H1 [H2 _]]. unfold lids.
  repeat split; intros z; specialize (H1 z); specialize (H2 z); rewrite C_unfold in H1; lia.
Qed.

(* ------------------------------------------------------------------ remove_obstacle *)
Lemma remove_obstacle_absent s z : mem z (obstacle_ids s) = false -> remove_obstacle z s = (s, None).
Proof.
  intros H. apply mem_nIn in H. unfold obstacle_ids in H. rewrite !in_app_iff in H.
  unfold remove_obstacle.
  replace (mem z (statics s)) with false by (symmetry; apply mem_nIn; tauto).
  replace (mem z (dynamics s)) with false by (symmetry; apply mem_nIn; tauto).
  replace (mem z (envs s)) with false by (symmetry; apply mem_nIn; tauto).
  replace (mem z (phantoms s)) with false by (symmetry; apply mem_nIn; tauto).
  reflexivity.
Qed.

Lemma mem_single y z : mem y [z] = (y =? z).
Proof. unfold mem. simpl. apply orb_false_r. Qed.

Lemma remove_obstacle_present s z : Inv s -> mem z (obstacle_ids s) = true ->
  snd (remove_obstacle z s) = None /\ Inv (fst (remove_obstacle z s)) /\
  network (fst (remove_obstacle z s)) = network s /\
  (forall y, (cnt y (contents_ids (fst (remove_obstacle z s))) + cnt y [z] = cnt y (contents_ids s))%nat) /\
  obstacle_ids (fst (remove_obstacle z s)) = sdel z (obstacle_ids s).
Proof.
  intros HI Hm.
  assert (Hid : In z (idset s)).
  { apply Inv_contains; [exact HI|]. unfold contents_ids. apply in_app_iff. right. now apply mem_In. }
  pose proof HI as [H1 [H2 _]].
  unfold remove_obstacle.
  destruct (mem z (statics s)) eqn:E1; [|destruct (mem z (dynamics s)) eqn:E2;
    [|destruct (mem z (envs s)) eqn:E3; [|destruct (mem z (phantoms s)) eqn:E4]]].
  5:{ exfalso. apply mem_In in Hm. unfold obstacle_ids in Hm. rewrite !in_app_iff in Hm.
      apply mem_nIn in E1, E2, E3, E4. tauto. }
  all: unfold seq, pure; rewrite id_remove_ok by exact Hid; simpl.
  all: match goal with |- _ /\ Inv ?S /\ _ /\ _ =>
         assert (Hc : forall y, (cnt y (contents_ids S) + cnt y [z] = cnt y (contents_ids s))%nat) end.
  all: try (intros y; cn; rewrite cnt_sdel; specialize (H1 y); specialize (H2 y); rewrite C_unfold in H1;
            destruct (y =? z) eqn:K;
            [ apply Z.eqb_eq in K; subst y; rewrite Z.eqb_refl; simpl;
              apply cnt_mem in E1 || apply cnt_mem in E2 || apply cnt_mem in E3 || apply cnt_mem in E4; lia
            | rewrite Z.eqb_sym, K; simpl; lia ]).
  all: split; [reflexivity|]; split; [|split; [reflexivity|split; [exact Hc|]]].
  all: try (eapply (Inv_remove s _ [z]); eauto; intros y; rewrite mem_single; simpl; rewrite cnt_sdel; reflexivity).
  all: unfold obstacle_ids; simpl; unfold sdel; rewrite !filter_app; fold (sdel z (statics s));
       fold (sdel z (dynamics s)); fold (sdel z (envs s)); fold (sdel z (phantoms s)).
  all: specialize (H1 z); specialize (H2 z); rewrite C_unfold in H1.
  all: apply cnt_mem in E1 || apply cnt_mem in E2 || apply cnt_mem in E3 || apply cnt_mem in E4.
  - rewrite (sdel_nIn z (dynamics s)), (sdel_nIn z (envs s)), (sdel_nIn z (phantoms s)); [reflexivity | | | ];
      apply cnt_nIn; lia.
  - rewrite (sdel_nIn z (statics s)), (sdel_nIn z (envs s)), (sdel_nIn z (phantoms s)); [reflexivity | | | ];
      apply cnt_nIn; lia.
  - rewrite (sdel_nIn z (statics s)), (sdel_nIn z (dynamics s)), (sdel_nIn z (phantoms s)); [reflexivity | | | ];
      apply cnt_nIn; lia.
  - rewrite (sdel_nIn z (statics s)), (sdel_nIn z (dynamics s)), (sdel_nIn z (envs s)); [reflexivity | | | ];
      apply cnt_nIn; lia.
Qed.

Lemma remove_obstacle_total s z : Inv s -> snd (remove_obstacle z s) = None /\ Inv (fst (remove_obstacle z s)).
Proof.
  intros HI. destruct (mem z (obstacle_ids s)) eqn:E.
  - destruct (remove_obstacle_present s z HI E) as [A [B _]]. auto.
  - rewrite remove_obstacle_absent by exact E. auto.
Qed.

(* ------------------------------------------------------------------ remove_traffic_sign / _light *)
Definition FrSign (s0 s : st) : Prop :=
  lids s = lids s0 /\ n_lights (network s) = n_lights (network s0) /\ n_inters (network s) = n_inters (network s0) /\
  same_obst s0 s.
Definition FrLight (s0 s : st) : Prop :=
  lids s = lids s0 /\ n_signs (network s) = n_signs (network s0) /\ n_inters (network s) = n_inters (network s0) /\
  same_obst s0 s.

Lemma remove_sign_spec s z : Inv s -> In z (n_signs (network s)) ->
  snd (remove_sign z s) = None /\ Inv (fst (remove_sign z s)) /\
  n_signs (network (fst (remove_sign z s))) = sdel z (n_signs (network s)) /\
  FrSign s (fst (remove_sign z s)) /\
  (forall y, (cnt y (contents_ids (fst (remove_sign z s))) + cnt y [z] = cnt y (contents_ids s))%nat).
Proof.
  intros HI Hin. pose proof HI as [H1 [H2 _]].
  assert (Hid : In z (idset s)).
  { apply Inv_contains; [exact HI|]. unfold contents_ids, net_ids. rewrite !in_app_iff. tauto. }
  unfold remove_sign, seq, on_net, pure, net_remove_sign.
  pose proof Hin as Hm. apply mem_In in Hm. rewrite Hm.
  rewrite id_remove_ok by exact Hid. simpl.
  assert (Hl : forall ex, map l_id (map (fun l => set_l_signs l (sinter (l_signs l) ex)) (n_lanelets (network s)))
                          = map l_id (n_lanelets (network s))).
  { intros ex. apply lids_map_pres. reflexivity. }
  match goal with |- _ /\ Inv ?S /\ _ => assert (Hc : forall y, (cnt y (contents_ids S) + cnt y [z] = cnt y (contents_ids s))%nat) end.
  { intros y. cn. rewrite Hl, cnt_sdel. specialize (H1 y). specialize (H2 y). rewrite C_unfold in H1.
    destruct (y =? z) eqn:K.
    - apply Z.eqb_eq in K. subst y. rewrite Z.eqb_refl. simpl. apply cnt_In in Hin. lia.
    - rewrite Z.eqb_sym, K. simpl. lia. }
  split; [reflexivity|]. split; [|split; [reflexivity|split; [|exact Hc]]].
  - eapply (Inv_remove s _ [z]); eauto. intros y. rewrite mem_single. simpl. rewrite cnt_sdel. reflexivity.
  - unfold FrSign, lids, same_obst. simpl. rewrite Hl. repeat split.
Qed.

Lemma remove_light_spec s z : Inv s -> In z (n_lights (network s)) ->
  snd (remove_light z s) = None /\ Inv (fst (remove_light z s)) /\
  n_lights (network (fst (remove_light z s))) = sdel z (n_lights (network s)) /\
  FrLight s (fst (remove_light z s)) /\
  (forall y, (cnt y (contents_ids (fst (remove_light z s))) + cnt y [z] = cnt y (contents_ids s))%nat).
Proof.
  intros HI Hin. pose proof HI as [H1 [H2 _]].
  assert (Hid : In z (idset s)).
  { apply Inv_contains; [exact HI|]. unfold contents_ids, net_ids. rewrite !in_app_iff. tauto. }
  unfold remove_light, seq, on_net, pure, net_remove_light.
  rewrite id_remove_ok by exact Hid. simpl.
  assert (Hl : forall ex, map l_id (map (fun l => set_l_lights l (sinter (l_lights l) ex)) (n_lanelets (network s)))
                          = map l_id (n_lanelets (network s))).
  { intros ex. apply lids_map_pres. reflexivity. }
  match goal with |- _ /\ Inv ?S /\ _ => assert (Hc : forall y, (cnt y (contents_ids S) + cnt y [z] = cnt y (contents_ids s))%nat) end.
  { intros y. cn. rewrite Hl, cnt_sdel. specialize (H1 y). specialize (H2 y). rewrite C_unfold in H1.
    destruct (y =? z) eqn:K.
    - apply Z.eqb_eq in K. subst y. rewrite Z.eqb_refl. simpl. apply cnt_In in Hin. lia.
    - rewrite Z.eqb_sym, K. simpl. lia. }
  split; [reflexivity|]. split; [|split; [reflexivity|split; [|exact Hc]]].
  - eapply (Inv_remove s _ [z]); eauto. intros y. rewrite mem_single. simpl. rewrite cnt_sdel. reflexivity.
  - unfold FrLight, lids, same_obst. simpl. rewrite Hl. repeat split.
Qed.

Lemma flat_single (l : list Z) : flat_map (fun z => [z]) l = l.
Proof. induction l; simpl; congruence. Qed.
Lemma map_id_Z (l : list Z) : map (fun z : Z => z) l = l.
Proof. apply map_id. Qed.

Lemma FrSign_trans a b c : FrSign a b -> FrSign b c -> FrSign a c.
Proof. unfold FrSign, same_obst. intuition congruence. Qed.
Lemma FrLight_trans a b c : FrLight a b -> FrLight b c -> FrLight a c.
Proof. unfold FrLight, same_obst. intuition congruence. Qed.
Lemma FrSign_refl a : FrSign a a. Proof. unfold FrSign, same_obst. tauto. Qed.
Lemma FrLight_refl a : FrLight a a. Proof. unfold FrLight, same_obst. tauto. Qed.

Lemma remove_signs_spec l s : Inv s -> (forall z, In z l -> In z (n_signs (network s))) -> NoDup l ->
  snd (loop remove_sign l s) = None /\ Inv (fst (loop remove_sign l s)) /\
  n_signs (network (fst (loop remove_sign l s))) = sdel_all l (n_signs (network s)) /\
  FrSign s (fst (loop remove_sign l s)) /\
  (forall y, (cnt y (contents_ids (fst (loop remove_sign l s))) + cnt y l = cnt y (contents_ids s))%nat).
Proof.
  intros HI Hin Hnd.
  pose (P := fun s1 => Inv s1 /\ FrSign s s1).
  pose (Q := fun (z : Z) (s1 : st) => In z (n_signs (network s1))).
  assert (Hbody : forall a s1, P s1 -> Q a s1 ->
    snd (remove_sign a s1) = None /\ P (fst (remove_sign a s1)) /\
    n_signs (network (fst (remove_sign a s1))) = sdel a (n_signs (network s1))).
  { intros a s1 [Ha Hb] Hq. destruct (remove_sign_spec s1 a Ha Hq) as [A [B [C [D _]]]].
    split; [exact A|]. split; [split; [exact B | eapply FrSign_trans; eauto] | exact C]. }
  assert (Hother : forall a b s1, P s1 -> Q a s1 -> Q b s1 -> a <> b -> Q b (fst (remove_sign a s1))).
  { intros a b s1 [Ha Hb] Hqa Hqb Hne. unfold Q. destruct (remove_sign_spec s1 a Ha Hqa) as [_ [_ [C _]]].
    rewrite C. apply In_sdel. auto. }
  assert (Hcnt : forall a s1, P s1 -> Q a s1 -> forall z,
     (cnt z (contents_ids (fst (remove_sign a s1))) + cnt z ((fun z => [z]) a) = cnt z (contents_ids s1))%nat).
  { intros a s1 [Ha Hb] Hq. destruct (remove_sign_spec s1 a Ha Hq) as [_ [_ [_ [_ E]]]]. exact E. }
  assert (Hnd' : NoDup (map (fun z : Z => z) l)) by (rewrite map_id_Z; exact Hnd).
  assert (HP : P s) by (split; [exact HI | apply FrSign_refl]).
  destruct (loop_keyed (fun z => z) remove_sign P Q (fun s1 => n_signs (network s1)) Hbody Hother l s HP Hin Hnd')
    as [A [[B1 B2] C]].
  pose proof (loop_keyed_cnt (fun z => z) remove_sign P Q (fun s1 => n_signs (network s1)) Hbody Hother
                (fun z => [z]) Hcnt l s HP Hin Hnd') as D.
  rewrite map_id_Z in C. rewrite flat_single in D. tauto.
Qed.

Lemma remove_lights_spec l s : Inv s -> (forall z, In z l -> In z (n_lights (network s))) -> NoDup l ->
  snd (loop remove_light l s) = None /\ Inv (fst (loop remove_light l s)) /\
  n_lights (network (fst (loop remove_light l s))) = sdel_all l (n_lights (network s)) /\
  FrLight s (fst (loop remove_light l s)) /\
  (forall y, (cnt y (contents_ids (fst (loop remove_light l s))) + cnt y l = cnt y (contents_ids s))%nat).
Proof.
  intros HI Hin Hnd.
  pose (P := fun s1 => Inv s1 /\ FrLight s s1).
  pose (Q := fun (z : Z) (s1 : st) => In z (n_lights (network s1))).
  assert (Hbody : forall a s1, P s1 -> Q a s1 ->
    snd (remove_light a s1) = None /\ P (fst (remove_light a s1)) /\
    n_lights (network (fst (remove_light a s1))) = sdel a (n_lights (network s1))).
  { intros a s1 [Ha Hb] Hq. destruct (remove_light_spec s1 a Ha Hq) as [A [B [C [D _]]]].
    split; [exact A|]. split; [split; [exact B | eapply FrLight_trans; eauto] | exact C]. }
  assert (Hother : forall a b s1, P s1 -> Q a s1 -> Q b s1 -> a <> b -> Q b (fst (remove_light a s1))).
  { intros a b s1 [Ha Hb] Hqa Hqb Hne. unfold Q. destruct (remove_light_spec s1 a Ha Hqa) as [_ [_ [C _]]].
    rewrite C. apply In_sdel. auto. }
  assert (Hcnt : forall a s1, P s1 -> Q a s1 -> forall z,
     (cnt z (contents_ids (fst (remove_light a s1))) + cnt z ((fun z => [z]) a) = cnt z (contents_ids s1))%nat).
  { intros a s1 [Ha Hb] Hq. destruct (remove_light_spec s1 a Ha Hq) as [_ [_ [_ [_ E]]]]. exact E. }
  assert (Hnd' : NoDup (map (fun z : Z => z) l)) by (rewrite map_id_Z; exact Hnd).
  assert (HP : P s) by (split; [exact HI | apply FrLight_refl]).
  destruct (loop_keyed (fun z => z) remove_light P Q (fun s1 => n_lights (network s1)) Hbody Hother l s HP Hin Hnd')
    as [A [[B1 B2] C]].
  pose proof (loop_keyed_cnt (fun z => z) remove_light P Q (fun s1 => n_lights (network s1)) Hbody Hother
                (fun z => [z]) Hcnt l s HP Hin Hnd') as D.
  rewrite map_id_Z in C. rewrite flat_single in D. tauto.
Qed.

(* ------------------------------------------------------------------ remove_intersection *)
Definition FrInter (s0 s : st) : Prop :=
  n_lanelets (network s) = n_lanelets (network s0) /\ n_signs (network s) = n_signs (network s0) /\
  n_lights (network s) = n_lights (network s0) /\ same_obst s0 s.
Lemma FrInter_trans a b c : FrInter a b -> FrInter b c -> FrInter a c.
Proof. unfold FrInter, same_obst. intuition congruence. Qed.
Lemma FrInter_refl a : FrInter a a. Proof. unfold FrInter, same_obst. tauto. Qed.

Lemma mem_cons y x l : mem y (x :: l) = (y =? x) || mem y l.
Proof. reflexivity. Qed.

Lemma remove_inter_spec s x : Inv s -> In x (n_inters (network s)) ->
  snd (remove_inter x s) = None /\ Inv (fst (remove_inter x s)) /\
  n_inters (network (fst (remove_inter x s))) = filter (fun y => negb (x_id y =? x_id x)) (n_inters (network s)) /\
  FrInter s (fst (remove_inter x s)) /\
  (forall y, (cnt y (contents_ids (fst (remove_inter x s))) + cnt y (inter_ids x) = cnt y (contents_ids s))%nat).
Proof.
  intros HI Hin. pose proof HI as [H1 [H2 _]].
  destruct (Inv_parts_le1 s HI) as [_ [_ [_ P4]]].
  assert (Hsub : forall z, In z (inter_ids x) -> In z (idset s)).
  { intros z Hz. apply Inv_contains; [exact HI|]. unfold contents_ids, net_ids. rewrite !in_app_iff.
    left. right. right. right. apply in_flat_map. exists x. auto. }
  assert (Hx1 : forall z, (cnt z (inter_ids x) <= 1)%nat).
  { intros z. pose proof (cnt_flat_inters_le z x _ Hin). specialize (P4 z). lia. }
  unfold remove_inter, seq, on_net, pure.
  rewrite id_remove_ok by (apply Hsub; now left). 
  rewrite loop_id_remove.
  2:{ intros z. specialize (Hx1 z). unfold inter_ids in Hx1. rewrite cnt_cons in Hx1. lia. }
  2:{ intros z Hz. simpl. apply In_sdel. split; [apply Hsub; now right|].
      intros K. subst. specialize (Hx1 (x_id x)). unfold inter_ids in Hx1. rewrite cnt_cons, Z.eqb_refl in Hx1.
      apply cnt_In in Hz. simpl in Hx1. lia. }
  simpl.
  match goal with |- _ /\ Inv ?S /\ _ => assert (Hc : forall y, (cnt y (contents_ids S) + cnt y (inter_ids x) = cnt y (contents_ids s))%nat) end.
  { intros y. rewrite !C_unfold. simpl. pose proof (cnt_inters_remove y x _ Hin P4). lia. }
  split; [reflexivity|]. split; [|split; [reflexivity|split; [|exact Hc]]].
  - eapply (Inv_remove s _ (inter_ids x)); eauto. intros y. unfold inter_ids. rewrite mem_cons.
    unfold set_idset, set_network. cbn [idset].
    rewrite cnt_sdel_all, cnt_sdel.
    destruct (mem y (x_incs x)); destruct (y =? x_id x); reflexivity.
  - unfold FrInter, same_obst. simpl. tauto.
Qed.

Lemma In_filter_inters b a xs :
  In b xs -> x_id a <> x_id b -> In b (filter (fun y => negb (x_id y =? x_id a)) xs).
Proof. intros H K. apply filter_In. split; [exact H|]. apply negb_true_iff. apply Z.eqb_neq. auto. Qed.

Lemma remove_inters_spec l s : Inv s -> (forall x, In x l -> In x (n_inters (network s))) -> NoDup (map x_id l) ->
  snd (loop remove_inter l s) = None /\ Inv (fst (loop remove_inter l s)) /\
  map x_id (n_inters (network (fst (loop remove_inter l s)))) = sdel_all (map x_id l) (map x_id (n_inters (network s))) /\
  FrInter s (fst (loop remove_inter l s)) /\
  (forall y, (cnt y (contents_ids (fst (loop remove_inter l s))) + cnt y (flat_map inter_ids l) = cnt y (contents_ids s))%nat).
Proof.
  intros HI Hin Hnd.
  pose (P := fun s1 => Inv s1 /\ FrInter s s1).
  pose (Q := fun (x : inter) (s1 : st) => In x (n_inters (network s1))).
  pose (comp := fun s1 => map x_id (n_inters (network s1))).
  assert (Hbody : forall a s1, P s1 -> Q a s1 ->
    snd (remove_inter a s1) = None /\ P (fst (remove_inter a s1)) /\
    comp (fst (remove_inter a s1)) = sdel (x_id a) (comp s1)).
  { intros a s1 [Ha Hb] Hq. destruct (remove_inter_spec s1 a Ha Hq) as [A [B [C [D _]]]].
    split; [exact A|]. split; [split; [exact B | eapply FrInter_trans; eauto]|].
    unfold comp. rewrite C. apply map_sdel_inters. }
  assert (Hother : forall a b s1, P s1 -> Q a s1 -> Q b s1 -> x_id a <> x_id b -> Q b (fst (remove_inter a s1))).
  { intros a b s1 [Ha Hb] Hqa Hqb Hne. unfold Q. destruct (remove_inter_spec s1 a Ha Hqa) as [_ [_ [C _]]].
    rewrite C. now apply In_filter_inters. }
  assert (Hcnt : forall a s1, P s1 -> Q a s1 -> forall z,
     (cnt z (contents_ids (fst (remove_inter a s1))) + cnt z (inter_ids a) = cnt z (contents_ids s1))%nat).
  { intros a s1 [Ha Hb] Hq. destruct (remove_inter_spec s1 a Ha Hq) as [_ [_ [_ [_ E]]]]. exact E. }
  assert (HP : P s) by (split; [exact HI | apply FrInter_refl]).
  destruct (loop_keyed x_id remove_inter P Q comp Hbody Hother l s HP Hin Hnd) as [A [[B1 B2] C]].
  pose proof (loop_keyed_cnt x_id remove_inter P Q comp Hbody Hother inter_ids Hcnt l s HP Hin Hnd) as D.
  tauto.
Qed.

(* ------------------------------------------------------------------ remove_lanelet *)
Definition lanelet_body (l : lanelet) : M := on_net (net_remove_lanelet (l_id l)) ;; id_remove (l_id l).
Definition FrLanelet (s0 s : st) : Prop :=
  n_signs (network s) = n_signs (network s0) /\ n_lights (network s) = n_lights (network s0) /\
  n_inters (network s) = n_inters (network s0) /\ same_obst s0 s.
Lemma FrLanelet_trans a b c : FrLanelet a b -> FrLanelet b c -> FrLanelet a c.
Proof. unfold FrLanelet, same_obst. intuition congruence. Qed.
Lemma FrLanelet_refl a : FrLanelet a a. Proof. unfold FrLanelet, same_obst. tauto. Qed.

Lemma lanelet_body_spec s l : Inv s -> In (l_id l) (lids s) ->
  snd (lanelet_body l s) = None /\ Inv (fst (lanelet_body l s)) /\
  lids (fst (lanelet_body l s)) = sdel (l_id l) (lids s) /\
  FrLanelet s (fst (lanelet_body l s)) /\
  (forall y, (cnt y (contents_ids (fst (lanelet_body l s))) + cnt y [l_id l] = cnt y (contents_ids s))%nat).
Proof.
  intros HI Hin. pose proof HI as [H1 [H2 _]]. unfold lids in *.
  assert (Hid : In (l_id l) (idset s)).
  { apply Inv_contains; [exact HI|]. unfold contents_ids, net_ids. rewrite !in_app_iff. tauto. }
  unfold lanelet_body, seq, on_net, pure, net_remove_lanelet.
  rewrite id_remove_ok by exact Hid. simpl.
  match goal with |- _ /\ Inv ?S /\ _ => assert (Hc : forall y, (cnt y (contents_ids S) + cnt y [l_id l] = cnt y (contents_ids s))%nat) end.
  { intros y. cn. rewrite map_sdel_lanelets, cnt_sdel. specialize (H1 y). specialize (H2 y). rewrite C_unfold in H1.
    destruct (y =? l_id l) eqn:K.
    - apply Z.eqb_eq in K. subst y. rewrite Z.eqb_refl. simpl. apply cnt_In in Hin. lia.
    - rewrite Z.eqb_sym, K. simpl. lia. }
  split; [reflexivity|]. split; [|split; [apply map_sdel_lanelets|split; [|exact Hc]]].
  - eapply (Inv_remove s _ [l_id l]); eauto. intros y. rewrite mem_single. simpl. rewrite cnt_sdel. reflexivity.
  - unfold FrLanelet, same_obst. simpl. tauto.
Qed.

Lemma lanelet_loop_spec l s : Inv s -> (forall x, In x l -> In (l_id x) (lids s)) -> NoDup (map l_id l) ->
  snd (loop lanelet_body l s) = None /\ Inv (fst (loop lanelet_body l s)) /\
  lids (fst (loop lanelet_body l s)) = sdel_all (map l_id l) (lids s) /\
  FrLanelet s (fst (loop lanelet_body l s)) /\
  (forall y, (cnt y (contents_ids (fst (loop lanelet_body l s))) + cnt y (map l_id l) = cnt y (contents_ids s))%nat).
Proof.
  intros HI Hin Hnd.
  pose (P := fun s1 => Inv s1 /\ FrLanelet s s1).
  pose (Q := fun (x : lanelet) (s1 : st) => In (l_id x) (lids s1)).
  assert (Hbody : forall a s1, P s1 -> Q a s1 ->
    snd (lanelet_body a s1) = None /\ P (fst (lanelet_body a s1)) /\
    lids (fst (lanelet_body a s1)) = sdel (l_id a) (lids s1)).
  { intros a s1 [Ha Hb] Hq. destruct (lanelet_body_spec s1 a Ha Hq) as [A [B [C [D _]]]].
    split; [exact A|]. split; [split; [exact B | eapply FrLanelet_trans; eauto]| exact C]. }
  assert (Hother : forall a b s1, P s1 -> Q a s1 -> Q b s1 -> l_id a <> l_id b -> Q b (fst (lanelet_body a s1))).
  { intros a b s1 [Ha Hb] Hqa Hqb Hne. unfold Q. destruct (lanelet_body_spec s1 a Ha Hqa) as [_ [_ [C _]]].
    rewrite C. apply In_sdel. auto. }
  assert (Hcnt : forall a s1, P s1 -> Q a s1 -> forall z,
     (cnt z (contents_ids (fst (lanelet_body a s1))) + cnt z ((fun x => [l_id x]) a) = cnt z (contents_ids s1))%nat).
  { intros a s1 [Ha Hb] Hq. destruct (lanelet_body_spec s1 a Ha Hq) as [_ [_ [_ [_ E]]]]. exact E. }
  assert (HP : P s) by (split; [exact HI | apply FrLanelet_refl]).
  destruct (loop_keyed l_id lanelet_body P Q lids Hbody Hother l s HP Hin Hnd) as [A [[B1 B2] C]].
  pose proof (loop_keyed_cnt l_id lanelet_body P Q lids Hbody Hother (fun x => [l_id x]) Hcnt l s HP Hin Hnd) as D.
  assert (E : flat_map (fun x => [l_id x]) l = map l_id l) by (clear; induction l; simpl; congruence).
  rewrite E in D. tauto.
Qed.

(* remove_hanging_lanelet_members: removes some signs and lights that are contained *)
Lemma NoDup_filter_Z (f : Z -> bool) l : NoDup l -> NoDup (filter f l).
Proof. apply NoDup_filter. Qed.

Definition FrHang (s0 s : st) : Prop :=
  lids s = lids s0 /\ n_inters (network s) = n_inters (network s0) /\ same_obst s0 s /\
  (forall y, (cnt y (contents_ids s) <= cnt y (contents_ids s0))%nat) /\
  incl (n_signs (network s)) (n_signs (network s0)) /\ incl (n_lights (network s)) (n_lights (network s0)).

Lemma incl_sdel_all ks l : incl (sdel_all ks l) l.
Proof.
  intros y Hy. apply cnt_In in Hy. rewrite cnt_sdel_all in Hy. apply cnt_In. destruct (mem y ks); lia.
Qed.

Lemma remove_hanging_spec ls s : Inv s ->
  snd (remove_hanging ls s) = None /\ Inv (fst (remove_hanging ls s)) /\ FrHang s (fst (remove_hanging ls s)).
Proof.
  intros HI. unfold remove_hanging. destruct (hanging ls (network s)) as [rs rt] eqn:E.
  assert (E1 : rs = fst (hanging ls (network s))) by (rewrite E; reflexivity).
  assert (E2 : rt = snd (hanging ls (network s))) by (rewrite E; reflexivity).
  unfold hanging in E1, E2. cbn [fst snd] in E1, E2. clear E.
  destruct (Inv_parts_le1 s HI) as [_ [P2 [P3 _]]].
  assert (N1 : NoDup rs) by (rewrite E1; apply NoDup_filter, cnt_le1_NoDup, P2).
  assert (N2 : NoDup rt) by (rewrite E2; apply NoDup_filter, cnt_le1_NoDup, P3).
  assert (I1 : forall z, In z rs -> In z (n_signs (network s))) by (intros z; rewrite E1, filter_In; tauto).
  assert (I2 : forall z, In z rt -> In z (n_lights (network s))) by (intros z; rewrite E2, filter_In; tauto).
  clear E1 E2.
  destruct (remove_signs_spec rs s HI I1 N1) as [A [B [C [[D1 [D2 [D3 D4]]] D5]]]].
  unfold seq. destruct (loop remove_sign rs s) as [s1 e1] eqn:L1. simpl in *. subst e1.
  assert (I2' : forall z, In z rt -> In z (n_lights (network s1))) by (intros z Hz; rewrite D2; auto).
  destruct (remove_lights_spec rt s1 B I2' N2) as [A' [B' [C' [[F1 [F2 [F3 F4]]] F5]]]].
  destruct (loop remove_light rt s1) as [s2 e2] eqn:L2. simpl in *. subst e2.
  split; [reflexivity|]. split; [exact B'|].
  unfold FrHang. split; [congruence|]. split; [congruence|]. split; [eapply same_obst_trans; eauto|].
  split; [intros y; specialize (D5 y); specialize (F5 y); lia|].
  split; [rewrite F2, C; apply incl_sdel_all | rewrite C', D2; apply incl_sdel_all].
Qed.

Lemma remove_lanelets_eq ls refs :
  remove_lanelets ls refs = (if refs then remove_hanging ls else ret) ;; loop lanelet_body ls.
Proof. reflexivity. Qed.

Lemma remove_lanelets_spec ls refs s : Inv s -> (forall x, In x ls -> In (l_id x) (lids s)) -> NoDup (map l_id ls) ->
  snd (remove_lanelets ls refs s) = None /\ Inv (fst (remove_lanelets ls refs s)) /\
  lids (fst (remove_lanelets ls refs s)) = sdel_all (map l_id ls) (lids s) /\
  n_inters (network (fst (remove_lanelets ls refs s))) = n_inters (network s) /\
  same_obst s (fst (remove_lanelets ls refs s)) /\
  incl (n_signs (network (fst (remove_lanelets ls refs s)))) (n_signs (network s)) /\
  incl (n_lights (network (fst (remove_lanelets ls refs s)))) (n_lights (network s)) /\
  (forall y, (cnt y (contents_ids (fst (remove_lanelets ls refs s))) + cnt y (map l_id ls) <= cnt y (contents_ids s))%nat) /\
  (refs = false -> FrLanelet s (fst (remove_lanelets ls refs s)) /\
     forall y, (cnt y (contents_ids (fst (remove_lanelets ls refs s))) + cnt y (map l_id ls) = cnt y (contents_ids s))%nat).
Proof.
  intros HI Hin Hnd. rewrite remove_lanelets_eq. destruct refs.
  - destruct (remove_hanging_spec ls s HI) as [A [B [C1 [C2 [C3 [C4 [C5 C6]]]]]]].
    unfold seq. destruct (remove_hanging ls s) as [s1 e1] eqn:L1. simpl in *. subst e1.
    assert (Hin' : forall x, In x ls -> In (l_id x) (lids s1)) by (intros x Hx; rewrite C1; auto).
    destruct (lanelet_loop_spec ls s1 B Hin' Hnd) as [A' [B' [C' [[F1 [F2 [F3 F4]]] F5]]]].
    split; [exact A'|]. split; [exact B'|]. split; [congruence|]. split; [congruence|].
    split; [eapply same_obst_trans; eauto|]. split; [rewrite F1; exact C5|]. split; [rewrite F2; exact C6|].
    split; [intros y; specialize (F5 y); specialize (C4 y); lia | discriminate].
  - unfold seq, ret. destruct (lanelet_loop_spec ls s HI Hin Hnd) as [A' [B' [C' [[F1 [F2 [F3 F4]]] F5]]]].
    split; [exact A'|]. split; [exact B'|]. split; [exact C'|]. split; [exact F3|]. split; [exact F4|].
    split; [rewrite F1; apply incl_refl|]. split; [rewrite F2; apply incl_refl|].
    split; [intros y; specialize (F5 y); lia|]. intros _. split; [|exact F5].
    unfold FrLanelet. tauto.
Qed.

(* ------------------------------------------------------------------ erase_lanelet_network *)
Lemma current_lanelet_id l s : l_id (current_lanelet l s) = l_id l.
Proof.
  unfold current_lanelet. destruct (find _ _) as [y|] eqn:E; [|reflexivity].
  apply find_some in E. destruct E as [_ E]. now apply Z.eqb_eq in E.
Qed.

Lemma NoDup_xids xs : (forall z, (cnt z (flat_map inter_ids xs) <= 1)%nat) -> NoDup (map x_id xs).
Proof.
  induction xs as [|y r IH]; cbn [flat_map map]; intros H; [constructor|].
  constructor.
  - intros K. apply in_map_iff in K. destruct K as [w [Ew Hw]].
    pose proof (x_id_in_flat w r Hw) as K1. rewrite Ew in K1. apply cnt_In in K1.
    specialize (H (x_id y)). rewrite cnt_app in H. unfold inter_ids at 1 in H. rewrite cnt_cons, Z.eqb_refl in H.
    simpl in H. lia.
  - apply IH. intros z. specialize (H z). rewrite cnt_app in H. lia.
Qed.

Definition erase_lanelet_body (l : lanelet) : M := fun s1 => remove_lanelets [current_lanelet l s1] true s1.

Lemma erase_eq s :
  erase s = (loop erase_lanelet_body (n_lanelets (network s)) ;;
             (fun s1 => loop remove_sign (n_signs (network s1)) s1) ;;
             (fun s1 => loop remove_light (n_lights (network s1)) s1) ;;
             (fun s1 => loop remove_inter (n_inters (network s1)) s1) ;;
             pure (fun s1 => set_network s1 empty_net)) s.
Proof. reflexivity. Qed.

Lemma erase_lanelets_spec l s : Inv s -> (forall x, In x l -> In (l_id x) (lids s)) -> NoDup (map l_id l) ->
  snd (loop erase_lanelet_body l s) = None /\ Inv (fst (loop erase_lanelet_body l s)) /\
  lids (fst (loop erase_lanelet_body l s)) = sdel_all (map l_id l) (lids s) /\
  same_obst s (fst (loop erase_lanelet_body l s)).
Proof.
  intros HI Hin Hnd.
  pose (P := fun s1 => Inv s1 /\ same_obst s s1).
  pose (Q := fun (x : lanelet) (s1 : st) => In (l_id x) (lids s1)).
  assert (Hone : forall a s1, P s1 -> Q a s1 ->
     snd (erase_lanelet_body a s1) = None /\ Inv (fst (erase_lanelet_body a s1)) /\
     lids (fst (erase_lanelet_body a s1)) = sdel (l_id a) (lids s1) /\ same_obst s1 (fst (erase_lanelet_body a s1))).
  { intros a s1 [Ha Hb] Hq. unfold erase_lanelet_body.
    destruct (remove_lanelets_spec [current_lanelet a s1] true s1 Ha) as [A [B [C [_ [E _]]]]].
    - intros x [Hx|[]]. subst x. rewrite current_lanelet_id. exact Hq.
    - simpl. constructor; [tauto | constructor].
    - simpl in C. rewrite current_lanelet_id in C. unfold sdel_all in C. simpl in C. auto. }
  assert (Hbody : forall a s1, P s1 -> Q a s1 ->
    snd (erase_lanelet_body a s1) = None /\ P (fst (erase_lanelet_body a s1)) /\
    lids (fst (erase_lanelet_body a s1)) = sdel (l_id a) (lids s1)).
  { intros a s1 HP Hq. destruct (Hone a s1 HP Hq) as [A [B [C D]]]. destruct HP as [Ha Hb].
    split; [exact A|]. split; [split; [exact B | eapply same_obst_trans; eauto] | exact C]. }
  assert (Hother : forall a b s1, P s1 -> Q a s1 -> Q b s1 -> l_id a <> l_id b -> Q b (fst (erase_lanelet_body a s1))).
  { intros a b s1 HP Hqa Hqb Hne. unfold Q. destruct (Hone a s1 HP Hqa) as [_ [_ [C _]]].
    rewrite C. apply In_sdel. auto. }
  assert (HP : P s) by (split; [exact HI | apply same_obst_refl]).
  destruct (loop_keyed l_id erase_lanelet_body P Q lids Hbody Hother l s HP Hin Hnd) as [A [[B1 B2] C]].
  tauto.
Qed.

Lemma erase_spec s : Inv s ->
  snd (erase s) = None /\ Inv (fst (erase s)) /\ network (fst (erase s)) = empty_net /\ same_obst s (fst (erase s)).
Proof.
  intros HI. rewrite erase_eq.
  destruct (Inv_parts_le1 s HI) as [P1 _].
  destruct (erase_lanelets_spec (n_lanelets (network s)) s HI) as [A1 [B1 [C1 D1]]].
  { intros x Hx. unfold lids. now apply in_map. }
  { apply cnt_le1_NoDup. exact P1. }
  unfold seq. destruct (loop erase_lanelet_body (n_lanelets (network s)) s) as [s1 e1]. simpl in *. subst e1.
  fold (lids s) in C1. rewrite sdel_all_self in C1.
  (* signs *)
  destruct (Inv_parts_le1 s1 B1) as [_ [P2 _]].
  destruct (remove_signs_spec (n_signs (network s1)) s1 B1) as [A2 [B2 [C2 [[E1 [E2 [E3 E4]]] _]]]]; [auto | now apply cnt_le1_NoDup |].
  destruct (loop remove_sign (n_signs (network s1)) s1) as [s2 e2]. simpl in *. subst e2.
  rewrite sdel_all_self in C2.
  (* lights *)
  destruct (Inv_parts_le1 s2 B2) as [_ [_ [P3 _]]].
  destruct (remove_lights_spec (n_lights (network s2)) s2 B2) as [A3 [B3 [C3 [[F1 [F2 [F3 F4]]] _]]]]; [auto | now apply cnt_le1_NoDup |].
  destruct (loop remove_light (n_lights (network s2)) s2) as [s3 e3]. simpl in *. subst e3.
  rewrite sdel_all_self in C3.
  (* intersections *)
  destruct (Inv_parts_le1 s3 B3) as [_ [_ [_ P4]]].
  destruct (remove_inters_spec (n_inters (network s3)) s3 B3) as [A4 [B4 [C4 [[G1 [G2 [G3 G4]]] _]]]]; [auto | now apply NoDup_xids |].
  destruct (loop remove_inter (n_inters (network s3)) s3) as [s4 e4]. simpl in *. subst e4.
  rewrite sdel_all_self in C4. apply map_eq_nil in C4.
  unfold pure. simpl.
  assert (L4 : n_lanelets (network s4) = []).
  { rewrite G1. apply (map_eq_nil l_id). change (lids s3 = []). rewrite F1, E1. exact C1. }
  assert (S4 : n_signs (network s4) = []) by congruence.
  assert (T4 : n_lights (network s4) = []) by congruence.
  assert (Hcont : contents_ids (set_network s4 empty_net) = contents_ids s4).
  { unfold contents_ids, net_ids, obstacle_ids. simpl. rewrite L4, S4, T4, C4. reflexivity. }
  split; [reflexivity|]. split; [|split; [reflexivity|]].
  - destruct B4 as [H1 [H2 [H3 H4]]]. unfold Inv. rewrite Hcont. simpl. auto.
  - eapply same_obst_trans; [exact D1|]. eapply same_obst_trans; [exact E4|].
    eapply same_obst_trans; [exact F4|]. exact G4.
Qed.

(* ------------------------------------------------------------------ generate_object_id *)
Lemma maxl_ge l : forall d, d <= maxl l d /\ forall z, In z l -> z <= maxl l d.
Proof.
  unfold maxl. induction l as [|x r IH]; simpl; intros d.
  - split; [lia | tauto].
  - destruct (IH (Z.max d x)) as [A B]. split; [lia|].
    intros z [E|H]; [subst; lia | auto].
Qed.

Lemma generate_above s : let g := snd (generate s) in
  (forall z, In z (idset s) -> z < g) /\ (forall c, counter s = Some c -> c < g).
Proof.
  unfold generate. simpl. split.
  - intros z Hz. destruct (idset s) as [|x r]; [destruct Hz|].
    destruct (maxl_ge r x) as [A B]. destruct Hz as [E|Hz]; [subst|specialize (B z Hz)]; lia.
  - intros c Ec. rewrite Ec. destruct (idset s) as [|x r]; lia.
Qed.

Lemma generate_inv s : Inv s -> Inv (fst (generate s)).
Proof.
  intros HI. pose proof (generate_above s) as [_ Hc]. destruct HI as [H1 [H2 [H3 H4]]].
  unfold generate in *. simpl in *. repeat split; auto.
  - intros g [E|Hg].
    + eexists. split; [reflexivity|]. lia.
    + destruct (H3 g Hg) as [c [Ec Hle]]. eexists. split; [reflexivity|]. specialize (Hc c Ec). lia.
  - discriminate.
Qed.

(* ------------------------------------------------------------------ every operation keeps the invariant *)
Lemma ok_nodup_list l : nodupb l = true -> NoDup l.
Proof. intros H. apply cnt_le1_NoDup. now apply nodupb_spec. Qed.

Lemma exec_spec s o : Inv s -> ok s o = true ->
  Inv (fst (exec o s)) /\ (is_removal o = true -> snd (exec o s) = None /\
     forall z, (cnt z (contents_ids (fst (exec o s))) + cnt z (removed_ids o) <= cnt z (contents_ids s))%nat).
Proof.
  intros HI Hok. destruct o; simpl in Hok |- *.
  - split; [now apply add_one_inv | discriminate].
  - split; [apply loop_pres; [intros; now apply add_one_inv | exact HI] | discriminate].
  - destruct (remove_obstacle_present s z HI Hok) as [A [B [_ [D _]]]].
    split; [exact B|]. intros _. split; [exact A|]. intros y. specialize (D y). lia.
  - apply andb_true_iff in Hok. destruct Hok as [Hnd Hall]. apply ok_nodup_list in Hnd.
    rewrite forallb_forall in Hall.
    pose (Q := fun (z : Z) (s1 : st) => In z (obstacle_ids s1)).
    assert (Hbody : forall a s1, Inv s1 -> Q a s1 ->
      snd (remove_obstacle a s1) = None /\ Inv (fst (remove_obstacle a s1)) /\
      obstacle_ids (fst (remove_obstacle a s1)) = sdel a (obstacle_ids s1)).
    { intros a s1 Ha Hq. apply mem_In in Hq. destruct (remove_obstacle_present s1 a Ha Hq) as [A [B [C [D E]]]]. auto. }
    assert (Hother : forall a b s1, Inv s1 -> Q a s1 -> Q b s1 -> a <> b -> Q b (fst (remove_obstacle a s1))).
    { intros a b s1 Ha Hqa Hqb Hne. unfold Q. destruct (Hbody a s1 Ha Hqa) as [_ [_ C]]. rewrite C. apply In_sdel. auto. }
    assert (Hcnt : forall a s1, Inv s1 -> Q a s1 -> forall z,
       (cnt z (contents_ids (fst (remove_obstacle a s1))) + cnt z ((fun z => [z]) a) = cnt z (contents_ids s1))%nat).
    { intros a s1 Ha Hq. apply mem_In in Hq. destruct (remove_obstacle_present s1 a Ha Hq) as [_ [_ [_ [D _]]]]. exact D. }
    assert (Hin : forall a, In a l -> Q a s) by (intros a Ha; apply mem_In; auto).
    assert (Hnd' : NoDup (map (fun z : Z => z) l)) by (rewrite map_id_Z; exact Hnd).
    destruct (loop_keyed (fun z => z) remove_obstacle Inv Q obstacle_ids Hbody Hother l s HI Hin Hnd') as [A [B C]].
    pose proof (loop_keyed_cnt (fun z => z) remove_obstacle Inv Q obstacle_ids Hbody Hother (fun z => [z]) Hcnt l s HI Hin Hnd') as D.
    rewrite flat_single in D. split; [exact B|]. intros _. split; [exact A|]. intros y. specialize (D y). lia.
  - apply has_lanelet_In in Hok.
    destruct (remove_lanelets_spec [l] refs s HI) as [A [B [_ [_ [_ [_ [_ [D _]]]]]]]].
    { intros x [E|[]]. now subst. } { simpl. constructor; [tauto|constructor]. }
    split; [exact B|]. intros _. split; [exact A|exact D].
  - apply andb_true_iff in Hok. destruct Hok as [Hnd Hall]. apply ok_nodup_list in Hnd.
    rewrite forallb_forall in Hall.
    destruct (remove_lanelets_spec l refs s HI) as [A [B [_ [_ [_ [_ [_ [D _]]]]]]]]; [|exact Hnd|].
    { intros x Hx. apply has_lanelet_In. auto. }
    split; [exact B|]. intros _. split; [exact A|exact D].
  - apply mem_In in Hok. destruct (remove_sign_spec s z HI Hok) as [A [B [_ [_ D]]]].
    split; [exact B|]. intros _. split; [exact A|]. intros y. specialize (D y). lia.
  - apply andb_true_iff in Hok. destruct Hok as [Hnd Hall]. apply ok_nodup_list in Hnd.
    rewrite forallb_forall in Hall.
    destruct (remove_signs_spec l s HI) as [A [B [_ [_ D]]]]; [|exact Hnd|].
    { intros x Hx. apply mem_In. auto. }
    split; [exact B|]. intros _. split; [exact A|]. intros y. specialize (D y). lia.
  - apply mem_In in Hok. destruct (remove_light_spec s z HI Hok) as [A [B [_ [_ D]]]].
    split; [exact B|]. intros _. split; [exact A|]. intros y. specialize (D y). lia.
  - apply andb_true_iff in Hok. destruct Hok as [Hnd Hall]. apply ok_nodup_list in Hnd.
    rewrite forallb_forall in Hall.
    destruct (remove_lights_spec l s HI) as [A [B [_ [_ D]]]]; [|exact Hnd|].
    { intros x Hx. apply mem_In. auto. }
    split; [exact B|]. intros _. split; [exact A|]. intros y. specialize (D y). lia.
  - apply ok_inter_In in Hok. destruct (remove_inter_spec s x HI Hok) as [A [B [_ [_ D]]]].
    split; [exact B|]. intros _. split; [exact A|]. intros y. specialize (D y). lia.
  - apply andb_true_iff in Hok. destruct Hok as [Hnd Hall]. apply ok_nodup_list in Hnd.
    rewrite forallb_forall in Hall.
    destruct (remove_inters_spec l s HI) as [A [B [_ [_ D]]]]; [|exact Hnd|].
    { intros x Hx. apply ok_inter_In. auto. }
    split; [exact B|]. intros _. split; [exact A|]. intros y. specialize (D y). lia.
  - split; [|discriminate]. destruct (erase_spec s HI) as [A [B _]].
    destruct (erase s) as [s1 e1] eqn:Ee. simpl in A, B. subst e1.
    rewrite (seq_None _ _ _ _ Ee). exact (add_one_inv s1 (ANet n) [] B).
  - split; [exact HI | discriminate].
Qed.

Lemma op_eq_gen (o : op) : o = Generate \/ o <> Generate.
Proof. destruct o; (now left) || (right; discriminate). Qed.

Lemma step_exec s o : o <> Generate ->
  fst (step s o) = fst (exec o s) /\
  snd (step s o) = match snd (exec o s) with None => RUnit | Some e => RErr e end.
Proof.
  intros H. destruct o; try congruence; unfold step;
    match goal with |- context [exec ?O s] => destruct (exec O s) as [s1 [e|]] end; auto.
Qed.

Theorem step_inv s o : Inv s -> ok s o = true -> Inv (fst (step s o)).
Proof.
  intros HI Hok. destruct (op_eq_gen o) as [E|E].
  - subst. simpl. now apply generate_inv.
  - destruct (step_exec s o E) as [A _]. rewrite A. now apply exec_spec.
Qed.

(* ------------------------------------------------------------------ statements used by Props/C09.v *)
Theorem reachable_inv : forall ops, all_ok step ok ops init = true -> Inv (run step ops init).
Proof. intros ops H. apply (run_inv step Inv ok step_inv); [apply Inv_init | exact H]. Qed.

Theorem inv_meaning s : Inv s ->
  NoDup (contents_ids s) /\ NoDup (idset s) /\ (forall z, In z (idset s) <-> In z (contents_ids s)) /\
  (forall g, In g (generated s) -> exists c, counter s = Some c /\ g <= c).
Proof. apply Inv_InvP. Qed.

Theorem free_all_meaning s ids : Inv s ->
  (free_all ids s = true <-> NoDup ids /\ forall z, In z ids -> ~ In z (contents_ids s)).
Proof.
  intros HI. rewrite free_all_spec, cnt_le1_NoDup. split; intros [A B]; split; auto; intros z Hz K.
  - apply (B z Hz). now apply Inv_contains.
  - apply (B z Hz). now apply Inv_contains'.
Qed.

Theorem add_rejected_unchanged s a lids : Inv s -> free_all (arg_ids a) s = false ->
  step s (Add a lids) = (s, RErr ValueError).
Proof. intros HI Hf. unfold step, exec. rewrite add_one_rejected by assumption. reflexivity. Qed.

Theorem add_accepted s a lids : Inv s -> free_all (arg_ids a) s = true ->
  snd (step s (Add a lids)) = RUnit /\
  (forall z, In z (contents_ids (fst (step s (Add a lids)))) <-> In z (arg_ids a) \/ In z (kept_ids a s)).
Proof.
  intros HI Hf. destruct (add_one_accepted s a lids HI Hf) as [A [_ C]].
  unfold step, exec. destruct (add_one a lids s) as [s1 e]. simpl in *. subst e. split; [reflexivity|].
  intros z. rewrite !cnt_In, C. lia.
Qed.

Theorem add_list_unfold s a r lids : Inv s ->
  step s (AddList (a :: r) lids) =
  if free_all (arg_ids a) s then step (fst (step s (Add a lids))) (AddList r lids) else (s, RErr ValueError).
Proof.
  intros HI. destruct (free_all (arg_ids a) s) eqn:E.
  - destruct (add_one_accepted s a lids HI E) as [A _].
    unfold step, exec. cbn [loop]. unfold seq. destruct (add_one a lids s) as [s1 e]. simpl in *. subst e. reflexivity.
  - unfold step, exec. cbn [loop]. unfold seq. rewrite add_one_rejected by assumption. reflexivity.
Qed.

Theorem generate_fresh s : Inv s ->
  exists g, snd (step s Generate) = RId g /\ ~ In g (contents_ids s) /\ ~ In g (generated s) /\
            generated (fst (step s Generate)) = g :: generated s /\
            contents_ids (fst (step s Generate)) = contents_ids s /\ idset (fst (step s Generate)) = idset s.
Proof.
  intros HI. pose proof (generate_above s) as [Ha Hc]. pose proof HI as [_ [_ [H3 _]]].
  exists (snd (generate s)). unfold step. destruct (generate s) as [s1 g] eqn:E. simpl in *.
  assert (E1 : s1 = fst (generate s)) by (rewrite E; reflexivity).
  split; [reflexivity|]. split; [|split; [|rewrite E1; unfold generate; simpl; inversion E; auto]].
  - intros K. apply (Inv_contains s g HI) in K. specialize (Ha g K). lia.
  - intros K. destruct (H3 g K) as [c [Ec Hle]]. specialize (Hc c Ec). lia.
Qed.

Theorem removal_total_frees s o : Inv s -> ok s o = true -> is_removal o = true ->
  snd (step s o) = RUnit /\
  (forall z, In z (removed_ids o) -> ~ In z (contents_ids (fst (step s o))) /\ ~ In z (idset (fst (step s o)))) /\
  (forall z, In z (contents_ids (fst (step s o))) -> In z (contents_ids s)).
Proof.
  intros HI Hok Hr. pose proof (step_inv s o HI Hok) as HI'.
  assert (Hg : o <> Generate) by (intros K; subst; discriminate).
  destruct (step_exec s o Hg) as [E1 E2]. destruct (exec_spec s o HI Hok) as [_ H]. destruct (H Hr) as [A B].
  rewrite E2, A. split; [reflexivity|]. pose proof HI as [H1 [H2 _]]. split.
  - intros z Hz. assert (K : ~ In z (contents_ids (fst (step s o)))).
    { rewrite E1. apply cnt_nIn. apply cnt_In in Hz. specialize (B z). specialize (H1 z). specialize (H2 z). lia. }
    split; [exact K|]. intros K2. apply K. now apply Inv_contains'.
  - intros z. rewrite E1, !cnt_In. specialize (B z). lia.
Qed.

Theorem free_after_leaving s z : Inv s -> ~ In z (contents_ids s) -> ~ In z (idset s).
Proof. intros HI H K. apply H. now apply Inv_contains'. Qed.

Theorem readd_after_removal s o a lids : Inv s -> ok s o = true -> is_removal o = true ->
  NoDup (arg_ids a) -> incl (arg_ids a) (removed_ids o) ->
  snd (step (fst (step s o)) (Add a lids)) = RUnit.
Proof.
  intros HI Hok Hr Hnd Hincl. pose proof (step_inv s o HI Hok) as HI'.
  destruct (removal_total_frees s o HI Hok Hr) as [_ [B _]].
  apply add_accepted; [exact HI'|]. apply free_all_meaning; [exact HI'|]. split; [exact Hnd|].
  intros z Hz. apply (B z). now apply Hincl.
Qed.

Theorem replace_spec s n : Inv s ->
  Inv (fst (step s (Replace n))) /\
  (snd (step s (Replace n)) = RUnit \/ snd (step s (Replace n)) = RErr ValueError) /\
  obstacle_ids (fst (step s (Replace n))) = obstacle_ids s /\
  (forall z, In z (contents_ids (fst (step s (Replace n)))) <->
             (snd (step s (Replace n)) = RUnit /\ In z (net_ids n)) \/ In z (obstacle_ids s)).
Proof.
  intros HI. split; [now apply step_inv|].
  destruct (erase_spec s HI) as [A [B [C D]]].
  unfold step, exec. destruct (erase s) as [s1 e1] eqn:Ee. simpl in A, B, C, D. subst e1.
  rewrite (seq_None _ _ _ _ Ee).
  assert (Ho : obstacle_ids s1 = obstacle_ids s).
  { unfold obstacle_ids. destruct D as [D1 [D2 [D3 D4]]]. congruence. }
  assert (Hc1 : contents_ids s1 = obstacle_ids s).
  { unfold contents_ids. rewrite C, Ho. reflexivity. }
  destruct (free_all (arg_ids (ANet n)) s1) eqn:Ef.
  - destruct (add_one_accepted s1 (ANet n) [] B Ef) as [X [_ Z]].
    destruct (add_one (ANet n) [] s1) as [s2 e2] eqn:Ea. simpl in X, Z. subst e2. simpl.
    split; [now left|]. split.
    + rewrite <- Ho. unfold add_one in Ea. unfold seq in Ea. rewrite mark_all_free in Ea by exact Ef.
      rewrite loop_id_discard in Ea. unfold pure in Ea. inversion Ea. unfold obstacle_ids. simpl.
      destruct (marked_all_frame (net_ids n) s1) as [_ [F1 [F2 [F3 [F4 _]]]]]. congruence.
    + intros z. rewrite !cnt_In, Z. simpl. rewrite Ho. split.
      * intros K. destruct (Nat.le_gt_cases 1 (cnt z (net_ids n))); [left; auto | right; lia].
      * intros [[_ K]|K]; lia.
  - rewrite add_one_rejected by assumption. simpl. split; [now right|]. split; [exact Ho|].
    intros z. rewrite Hc1. split; [tauto|]. intros [[K _]|K]; [discriminate | exact K].
Qed.

(* a concrete run: add an intersection, remove it in list form, add it again, generate an id *)
Definition demo_ops : list op :=
  [Add (AObj (OInter (mkX 50 [51]))) []; Add (AObj (OLanelet (mkL 51 [] []))) [];
   RemoveInters [mkX 50 [51]]; Add (AObj (OInter (mkX 50 [51]))) []; Generate].
Lemma demo_run :
  all_ok step ok demo_ops init = true /\
  trace step demo_ops init = [RUnit; RErr ValueError; RUnit; RUnit; RId 52] /\
  idset (run step demo_ops init) = [51; 50].
Proof. vm_compute. repeat split. Qed.
