(* Proofs/RenderSel.v — lemmas about Model/RenderSel.v *)
From Coq Require Import ZArith List Bool Lia.
Import ListNotations.
From CR Require Import Model.RenderSel.
Open Scope Z_scope.

Lemma zrange_In : forall a b t, In t (zrange a b) <-> a <= t < b.
Proof.
  intros a b t. unfold zrange. rewrite in_map_iff. split.
  - intros [i [E Hi]]. apply in_seq in Hi. lia.
  - intros H. exists (Z.to_nat (t - a)). split; [lia|]. apply in_seq. lia.
Qed.

Section Lemmas.
Variable A : Type.
Notation obst := (obst A).

Lemma opt_item_In : forall (i j : item) (x : option A) (a : A),
  In (j, a) (opt_item i x) <-> j = i /\ x = Some a.
Proof.
  intros i j x a. destruct x as [b|]; simpl; split.
  - intros [E|[]]. inversion E. split; reflexivity.
  - intros [E1 E2]. inversion E2. subst. left. reflexivity.
  - intros [].
  - intros [_ E]. discriminate.
Qed.

Lemma zassoc_bound : forall (l : list (Z * A)) f t,
  forallb (fun ta : Z * A => fst ta <=? f) l = true -> f < t -> zassoc t l = None.
Proof.
  induction l as [|[t' a] r IH]; intros f t H Hlt; simpl in *; [reflexivity|].
  apply andb_true_iff in H. destruct H as [H1 H2]. apply Z.leb_le in H1.
  destruct (t' =? t) eqn:E; [apply Z.eqb_eq in E; lia|]. eapply IH; eassumption.
Qed.

(* ---------------------------------------------------------------- dynamic obstacles *)
(* a skipped obstacle has no occupancy at the begin of a proper window nor inside it *)
Lemma skipped_no_occ : forall (o : obst) p, wf_obst o = true -> o_role o = RDynamic ->
  dyn_skipped o p = true -> d_tb p <= d_te p ->
  forall t, d_tb p <= t -> (t = d_tb p \/ t < d_te p) -> occ_at o t = None.
Proof.
  intros o p Hwf Hr Hs Hw t Ht1 Ht2. unfold occ_at. rewrite Hr.
  unfold wf_obst in Hwf. rewrite Hr in Hwf. unfold dyn_skipped in Hs.
  assert (Hc : (has_pred o = false /\ o_t0 o < d_tb p) \/ d_te p < o_t0 o \/ (has_pred o = true /\ o_final o < d_tb p)).
  { repeat (rewrite orb_true_iff in Hs || rewrite andb_true_iff in Hs).
    rewrite negb_true_iff in Hs. rewrite !Z.ltb_lt in Hs. tauto. }
  clear Hs.
  destruct (has_pred o) eqn:Hp.
  - apply andb_true_iff in Hwf. destruct Hwf as [Hf Hall]. apply Z.leb_le in Hf.
    destruct Hc as [[Hc _]|[Hc|[_ Hc]]]; [discriminate| |].
    + destruct (t =? o_t0 o) eqn:E; [apply Z.eqb_eq in E; lia|].
      destruct (o_t0 o <? t) eqn:E2; [apply Z.ltb_lt in E2; lia|]. reflexivity.
    + destruct (t =? o_t0 o) eqn:E; [apply Z.eqb_eq in E; lia|].
      destruct (o_t0 o <? t); simpl; [|reflexivity].
      apply (zassoc_bound _ (o_final o)); [exact Hall|lia].
  - destruct (t =? o_t0 o) eqn:E.
    + apply Z.eqb_eq in E. destruct Hc as [[_ Hc]|[Hc|[Hc _]]]; [lia|lia|discriminate].
    + rewrite andb_false_r. reflexivity.
Qed.

Definition plain_d (p : dparams) : bool :=
  d_shape p && negb (d_icon p) && negb (d_occ p) && negb (d_hist p).

Lemma plain_d_shape_eff : forall (o : obst) p, plain_d p = true -> shape_eff o p = true.
Proof.
  intros o p H. unfold plain_d in H. repeat rewrite andb_true_iff in H. destruct H as [[[H1 H2] _] _].
  apply negb_true_iff in H2. unfold shape_eff. rewrite H2. simpl. exact H1.
Qed.

Theorem draw_dynamic_plain : forall (o : obst) p, wf_obst o = true -> o_role o = RDynamic ->
  plain_d p = true -> d_tb p <= d_te p ->
  forall i a, In (i, a) (draw_dynamic o p) <->
       (i = IOcc (o_id o) (d_tb p) /\ occ_at o (d_tb p) = Some a)
    \/ (i = IUnc (o_id o) /\ o_unc o = Some a /\ occ_at o (d_tb p) <> None)
    \/ (exists t, i = IOcc (o_id o) t /\ is_set o = true /\ d_tb p < t < d_te p /\ occ_at o t = Some a).
Proof.
  intros o p Hwf Hr Hpl Hw i a. unfold draw_dynamic.
  destruct (dyn_skipped o p) eqn:Hs.
  - split; [intros []|].
    pose proof (skipped_no_occ o p Hwf Hr Hs Hw) as Hn.
    intros [[_ H]|[[_ [_ H]]|[t [_ [_ [Ht H]]]]]].
    + rewrite Hn in H by lia. discriminate.
    + apply H. apply Hn; lia.
    + rewrite Hn in H by lia. discriminate.
  - rewrite (plain_d_shape_eff o p Hpl).
    unfold plain_d in Hpl. repeat rewrite andb_true_iff in Hpl. destruct Hpl as [[[_ _] Ho] Hh].
    apply negb_true_iff in Ho. apply negb_true_iff in Hh. rewrite Ho, Hh. simpl.
    rewrite in_app_iff. split.
    + intros [H|H].
      * destruct (occ_at o (d_tb p)) as [b|] eqn:Eo; [|destruct H].
        destruct H as [E|H].
        -- inversion E. subst. left. split; reflexivity.
        -- apply opt_item_In in H. destruct H as [E1 E2]. right. left. subst.
           split; [reflexivity|]. split; [exact E2|discriminate].
      * destruct (is_set o) eqn:Es; [|destruct H].
        apply in_flat_map in H. destruct H as [t [Ht H]]. apply zrange_In in Ht.
        unfold occ_loop_item in H.
        assert (Etr : is_traj o = false) by (unfold is_set in Es; unfold is_traj; destruct (o_pk o); auto; discriminate).
        rewrite Etr in H. rewrite app_nil_r in H. apply opt_item_In in H. destruct H as [E1 E2].
        right. right. exists t. subst. repeat split; try lia; assumption.
    + intros [[E H]|[[E [H1 H2]]|[t [E [Es [Ht H]]]]]].
      * left. rewrite H. left. subst. reflexivity.
      * left. destruct (occ_at o (d_tb p)) as [b|]; [|contradiction H2; reflexivity].
        right. apply opt_item_In. split; assumption.
      * right. rewrite Es. apply in_flat_map. exists t. split; [apply zrange_In; lia|].
        unfold occ_loop_item. apply in_or_app. left. apply opt_item_In. split; assumption.
Qed.

(* ---------------------------------------------------------------- the other roles *)
Lemma draw_static_spec : forall (o : obst) tb i a,
  In (i, a) (draw_static o tb) <->
  (i = IOcc (o_id o) tb /\ occ_at o tb = Some a) \/ (i = IUnc (o_id o) /\ o_unc o = Some a).
Proof. intros. unfold draw_static. rewrite in_app_iff. rewrite !opt_item_In. reflexivity. Qed.

Lemma draw_env_spec : forall (o : obst) tb i a,
  In (i, a) (draw_env o tb) <-> i = IOcc (o_id o) tb /\ occ_at o tb = Some a.
Proof. intros. unfold draw_env. apply opt_item_In. Qed.

Lemma draw_phantom_plain : forall (o : obst) p, p_shape p = true -> p_occ p = false -> forall i a,
  In (i, a) (draw_phantom o p) <-> i = IOcc (o_id o) (p_tb p) /\ occ_at o (p_tb p) = Some a.
Proof.
  intros o p H1 H2 i a. unfold draw_phantom. rewrite H1, H2. rewrite app_nil_r. apply opt_item_In.
Qed.

(* with extra occupancies on, a phantom obstacle also shows the later steps of the window *)
Lemma draw_phantom_occ : forall (o : obst) p, p_shape p = true -> p_occ p = true -> forall i a,
  In (i, a) (draw_phantom o p) <->
  exists t, i = IOcc (o_id o) t /\ occ_at o t = Some a /\ (t = p_tb p \/ p_tb p < t < p_te p).
Proof.
  intros o p H1 H2 i a. unfold draw_phantom. rewrite H1, H2. rewrite in_app_iff. split.
  - intros [H|H].
    + apply opt_item_In in H. destruct H. exists (p_tb p). auto.
    + apply in_flat_map in H. destruct H as [t [Ht H]]. apply zrange_In in Ht. apply opt_item_In in H.
      destruct H. exists t. repeat split; auto. right. lia.
  - intros [t [E [H [Ht|Ht]]]].
    + left. subst. apply opt_item_In. auto.
    + right. apply in_flat_map. exists t. split; [apply zrange_In; lia|]. apply opt_item_In. auto.
Qed.

(* ---------------------------------------------------------------- the scenario *)
(* which occupancy of which obstacle the property statement names *)
Definition named (o : obst) (tb te t : Z) : Prop :=
  t = tb \/ (o_role o = RDynamic /\ is_set o = true /\ tb < t < te).

Theorem drawn_plain_occupancies : forall r (sc : list obst) tb te,
  plain r = true -> window r tb te -> tb <= te -> forallb (@wf_obst A) sc = true ->
  forall i t a,
    In (IOcc i t, a) (drawn r sc) <->
    exists o, In o sc /\ o_id o = i /\ occ_at o t = Some a /\ named o tb te t.
Proof.
  intros r sc tb te Hpl Hwin Hw Hwf i t a.
  destruct Hwin as [W1 [W2 [W3 [W4 [W5 W6]]]]].
  unfold plain in Hpl. repeat rewrite andb_true_iff in Hpl.
  destruct Hpl as [[[[[P1 P2] P3] P4] P5] P6]. apply negb_true_iff in P6.
  assert (Hpd : plain_d (r_dyn r) = true) by (unfold plain_d; rewrite P1, P2, P3, P4; reflexivity).
  rewrite forallb_forall in Hwf.
  unfold drawn. rewrite in_flat_map. split.
  - intros [o [Hin H]]. exists o. split; [exact Hin|]. unfold draw_obstacle in H. unfold named.
    destruct (o_role o) eqn:Hr.
    + apply draw_static_spec in H. destruct H as [[E H]|[E _]]; [|discriminate].
      inversion E. subst. rewrite W3 in *. auto.
    + apply draw_dynamic_plain in H; [|apply Hwf; exact Hin|exact Hr|exact Hpd|lia].
      rewrite W1, W2 in H. destruct H as [[E H]|[[E _]|[t' [E [Es [Ht H]]]]]]; try discriminate.
      * inversion E. subst. auto.
      * inversion E. subst. repeat split; auto.
    + apply draw_phantom_plain in H; [|exact P5|exact P6]. destruct H as [E H].
      inversion E. subst. rewrite W4 in *. auto.
    + apply draw_env_spec in H. destruct H as [E H]. inversion E. subst. rewrite W6 in *. auto.
  - intros [o [Hin [Hid [Ho Hn]]]]. exists o. split; [exact Hin|]. unfold draw_obstacle. unfold named in Hn.
    destruct (o_role o) eqn:Hr.
    + apply draw_static_spec. left. destruct Hn as [E|[E _]]; [|discriminate]. subst. rewrite W3. auto.
    + apply draw_dynamic_plain; [apply Hwf; exact Hin|exact Hr|exact Hpd|lia|].
      rewrite W1, W2. destruct Hn as [E|[_ [Es Ht]]].
      * left. subst. auto.
      * right. right. exists t. subst. auto.
    + apply draw_phantom_plain; [exact P5|exact P6|]. destruct Hn as [E|[E _]]; [|discriminate].
      subst. rewrite W4. auto.
    + apply draw_env_spec. destruct Hn as [E|[E _]]; [|discriminate]. subst. rewrite W6. auto.
Qed.

(* nothing else of the modelled kinds is drawn, except the regions of uncertain initial positions of the
   obstacles that are drawn *)
Theorem drawn_plain_rest : forall r (sc : list obst) tb te,
  plain r = true -> window r tb te -> tb <= te -> forallb (@wf_obst A) sc = true ->
  forall i a, In (i, a) (drawn r sc) ->
    match i with
    | IOcc _ _ => True
    | IUnc j => exists o, In o sc /\ o_id o = j /\ o_unc o = Some a /\ occ_at o tb <> None
    | IHist _ _ | IUncAt _ _ => False
    end.
Proof.
  intros r sc tb te Hpl Hwin Hw Hwf i a H.
  destruct Hwin as [W1 [W2 [W3 [W4 [W5 W6]]]]].
  unfold plain in Hpl. repeat rewrite andb_true_iff in Hpl.
  destruct Hpl as [[[[[P1 P2] P3] P4] P5] P6]. apply negb_true_iff in P6.
  assert (Hpd : plain_d (r_dyn r) = true) by (unfold plain_d; rewrite P1, P2, P3, P4; reflexivity).
  rewrite forallb_forall in Hwf.
  unfold drawn in H. apply in_flat_map in H. destruct H as [o [Hin H]]. unfold draw_obstacle in H.
  destruct (o_role o) eqn:Hr.
  - apply draw_static_spec in H. destruct H as [[E _]|[E H]]; subst; [exact I|].
    exists o. repeat split; auto. unfold occ_at. rewrite Hr. discriminate.
  - apply draw_dynamic_plain in H; [|apply Hwf; exact Hin|exact Hr|exact Hpd|lia].
    destruct H as [[E _]|[[E [H1 H2]]|[t' [E _]]]]; subst; try exact I.
    exists o. repeat split; auto.
  - apply draw_phantom_plain in H; [|exact P5|exact P6]. destruct H as [E _]. subst. exact I.
  - apply draw_env_spec in H. destruct H as [E _]. subst. exact I.
Qed.

End Lemmas.

(* ---------------------------------------------------------------- id filters *)
Lemma zmem_In : forall z l, zmem z l = true <-> In z l.
Proof.
  intros z l. unfold zmem. rewrite existsb_exists. split.
  - intros [x [Hx E]]. apply Z.eqb_eq in E. subst. exact Hx.
  - intros H. exists z. split; [exact H|apply Z.eqb_refl].
Qed.

Theorem select_ids_spec : forall ids sel i,
  In i (select_ids ids sel) <-> In i ids /\ match sel with None => True | Some s => In i s end.
Proof.
  intros ids sel i. destruct sel as [s|]; simpl.
  - rewrite filter_In. rewrite zmem_In. reflexivity.
  - tauto.
Qed.

(* ---------------------------------------------------------------- where the model leaves the statement *)
(* (1) an inverted window (time_end < time_begin): the guard  initial time step > time_end  drops a dynamic
   obstacle that does have an occupancy at time_begin *)
Definition inv_obst : obst Z :=
  mkObst 7 RDynamic 4 PTraj 10 100 [(5, 105); (6, 106)] None [] false true.
Definition inv_params : dparams := mkD 5 3 true false false false 5 1.

Theorem inverted_window_refuted :
  wf_obst inv_obst = true /\ d_shape inv_params = true /\ d_icon inv_params = false /\
  d_occ inv_params = false /\ d_hist inv_params = false /\
  occ_at inv_obst (d_tb inv_params) = Some 105 /\
  ~ In (IOcc 7 (d_tb inv_params), 105) (draw_dynamic inv_obst inv_params).
Proof. vm_compute. repeat split; try reflexivity. intros []. Qed.

(* (2) read literally ("for set-based predictions also those at the later steps of the time window") the
   statement would include phantom obstacles, whose prediction is set-based; they show the later steps only with
   occupancy.draw_occupancies on *)
Definition ph_obst : obst Z := mkObst 9 RPhantom 0 PSet 3 0 [(1, 201); (2, 202); (3, 203)] None [] false false.
Definition ph_params : pparams := mkP 1 5 true false.

Theorem phantom_later_steps_refuted :
  p_shape ph_params = true /\ p_occ ph_params = false /\
  occ_at ph_obst 2 = Some 202 /\ p_tb ph_params < 2 < p_te ph_params /\
  ~ In (IOcc 9 2, 202) (draw_phantom ph_obst ph_params) /\
  In (IOcc 9 1, 201) (draw_phantom ph_obst ph_params).
Proof. vm_compute. repeat split; try reflexivity; try (intros [H|[]]; discriminate). left. reflexivity. Qed.

(* ---------------------------------------------------------------- non-vacuity *)
Definition demo_sc : list (obst Z) :=
  [ mkObst 1 RStatic 0 PNone 0 11 [] None [] false true;
    mkObst 2 RDynamic 0 PTraj 4 20 [(1, 21); (2, 22); (3, 23); (4, 24)] None [] true true;
    mkObst 3 RDynamic 1 PSet 4 30 [(2, 32); (3, 33); (4, 34)] None [] false true;
    mkObst 4 RDynamic 3 PNone 0 40 [] None [] false true;
    mkObst 5 RPhantom 0 PSet 3 0 [(2, 52); (3, 53)] None [] false false;
    mkObst 6 REnv 0 PNone 0 60 [] None [] false false;
    mkObst 7 RDynamic 0 PTraj 1 70 [(1, 71)] None [] false true ].
Definition demo_params (tb te : Z) : rparams :=
  mkR (mkD tb te true false false false 5 1) tb (mkP tb te true false) tb None None.

Example demo_drawn :
  forallb (@wf_obst Z) demo_sc = true /\ plain (demo_params 2 5) = true /\
  map fst (drawn (demo_params 2 5) demo_sc) =
    [IOcc 1 2; IOcc 2 2; IOcc 3 2; IOcc 3 3; IOcc 3 4; IOcc 5 2; IOcc 6 2] /\
  map snd (drawn (demo_params 2 5) demo_sc) = [11; 22; 32; 33; 34; 52; 60].
Proof. vm_compute. repeat split; reflexivity. Qed.
