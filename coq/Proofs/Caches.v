(* Proofs/Caches.v — lemmas for Model/Caches.v (C11): coherence is preserved by every operation, two coherent
   systems with the same primary data answer alike (simulation), the constructors build coherent systems, and
   update_initial_state keeps the last max_history_length entries. *)
From Coq Require Import List ZArith Bool Arith Lia.
From CR Require Import Base.G5Machine Model.Caches.
Import ListNotations.

(* ------------------------------------------------------------------ lastn *)
Lemma lastn_all {A} (m : nat) (l : list A) : length l <= m -> lastn m l = l.
Proof. intros H. unfold lastn. replace (length l - m) with 0 by lia. reflexivity. Qed.

Lemma lastn_length {A} (m : nat) (l : list A) : length (lastn m l) = Nat.min m (length l).
Proof. unfold lastn. rewrite skipn_length. lia. Qed.

Lemma lastn_suffix {A} (m : nat) (l : list A) : exists pre, l = pre ++ lastn m l /\ length pre = length l - m.
Proof.
  exists (firstn (length l - m) l). split.
  - unfold lastn. symmetry. apply firstn_skipn.
  - rewrite firstn_length. lia.
Qed.

Lemma trunc_lastn {A} (m : nat) (l : list A) : (if Nat.ltb m (length l) then lastn m l else l) = lastn m l.
Proof.
  destruct (Nat.ltb m (length l)) eqn:E; [reflexivity|].
  apply Nat.ltb_ge in E. symmetry. apply lastn_all. exact E.
Qed.


(* ------------------------------------------------------------------ list helpers *)
Lemma upd_nth_nil {A} k (f : A -> A) : upd_nth k f [] = [].
Proof. destruct k; reflexivity. Qed.

Lemma Forall_upd_nth {A} (P : A -> Prop) (f : A -> A) : forall l k,
  Forall P l -> (forall x, nth_error l k = Some x -> P x -> P (f x)) -> Forall P (upd_nth k f l).
Proof.
  induction l as [|a r IH]; intros k H Hf; [rewrite upd_nth_nil; constructor|].
  inversion H as [|? ? Ha Hr]; subst. destruct k; simpl.
  - constructor; [apply Hf; [reflexivity | exact Ha] | exact Hr].
  - constructor; [exact Ha|]. apply IH; [exact Hr|]. intros x Hx. apply Hf. exact Hx.
Qed.

Lemma map_upd_nth_keep {A B} (P : A -> Prop) (g : A -> B) (f : A -> A) : forall l k,
  Forall P l -> (forall x, P x -> g (f x) = g x) -> map g (upd_nth k f l) = map g l.
Proof.
  induction l as [|a r IH]; intros k H Hf; [rewrite upd_nth_nil; reflexivity|].
  inversion H as [|? ? Ha Hr]; subst. destruct k; simpl.
  - rewrite (Hf a Ha). reflexivity.
  - rewrite (IH k Hr Hf). reflexivity.
Qed.

Lemma map_upd_nth {A B} (g : A -> B) (f : A -> A) (h : B -> B) : forall l k,
  (forall x, nth_error l k = Some x -> g (f x) = h (g x)) -> map g (upd_nth k f l) = upd_nth k h (map g l).
Proof.
  induction l as [|a r IH]; intros k Hf; [simpl; rewrite !upd_nth_nil; reflexivity|].
  destruct k; simpl.
  - rewrite (Hf a eq_refl). reflexivity.
  - rewrite (IH k); [reflexivity|]. intros x Hx. apply Hf. exact Hx.
Qed.

Lemma map_eq_nth {A B} (g : A -> B) : forall l1 l2 k, map g l1 = map g l2 ->
  match nth_error l1 k, nth_error l2 k with
  | Some a, Some b => g a = g b
  | None, None => True
  | _, _ => False
  end.
Proof.
  induction l1 as [|a r IH]; intros [|b r2] k E; simpl in E; try discriminate.
  - destruct k; exact I.
  - inversion E. destruct k; simpl; [assumption|]. apply IH. assumption.
Qed.

Lemma Forall_nth {A} (P : A -> Prop) : forall l k x, Forall P l -> nth_error l k = Some x -> P x.
Proof. intros l k x H E. rewrite Forall_forall in H. apply H. eapply nth_error_In; eauto. Qed.

Lemma map_filter_comm {A B} (g : A -> B) (p : A -> bool) (q : B -> bool) : forall l,
  (forall x, q (g x) = p x) -> map g (filter p l) = filter q (map g l).
Proof.
  induction l as [|a r IH]; intros H; simpl; [reflexivity|].
  rewrite H. destruct (p a); simpl; rewrite IH; auto.
Qed.

Lemma NoDup_map_filter {A B} (g : A -> B) (p : A -> bool) : forall l, NoDup (map g l) -> NoDup (map g (filter p l)).
Proof.
  induction l as [|a r IH]; simpl; intros H; [constructor|].
  inversion H as [|? ? Hn Hr]; subst. destruct (p a); simpl; [|apply IH; exact Hr].
  constructor; [|apply IH; exact Hr]. intros Hin. apply Hn.
  apply in_map_iff in Hin. destruct Hin as [x [Ex Hx]]. apply filter_In in Hx. destruct Hx as [Hx _].
  apply in_map_iff. exists x. split; assumption.
Qed.

Lemma existsb_map {A B} (g : A -> B) (q : B -> bool) : forall l, existsb q (map g l) = existsb (fun x => q (g x)) l.
Proof. induction l as [|a r IH]; simpl; [reflexivity|]. rewrite IH. reflexivity. Qed.

Lemma filter_all_true {A} (p : A -> bool) : forall l, (forall x, In x l -> p x = true) -> filter p l = l.
Proof.
  induction l as [|a r IH]; intros H; simpl; [reflexivity|].
  rewrite (H a (or_introl eq_refl)), IH; [reflexivity|]. intros x Hx. apply H. right. exact Hx.
Qed.

Lemma cons_inj {A} (a b : A) (r r' : list A) : a :: r = b :: r' -> a = b /\ r = r'.
Proof. intros H. inversion H. split; reflexivity. Qed.

Lemma Forall_drop_nth {A} (P : A -> Prop) : forall l k, Forall P l -> Forall P (drop_nth k l).
Proof.
  induction l as [|a r IH]; intros k H; [destruct k; exact H|].
  inversion H; subst. destruct k; simpl; [assumption|]. constructor; [assumption | apply IH; assumption].
Qed.
Lemma map_drop_nth {A B} (g : A -> B) : forall l k, map g (drop_nth k l) = drop_nth k (map g l).
Proof.
  induction l as [|a r IH]; intros k; [destruct k; reflexivity|].
  destruct k; simpl; [reflexivity|]. rewrite IH. reflexivity.
Qed.

Lemma NoDup_app_single {A} (l : list A) (x : A) : NoDup l -> ~ In x l -> NoDup (l ++ [x]).
Proof.
  induction l as [|a r IH]; simpl; intros H Hn; [constructor; [intros []|constructor]|].
  inversion H as [|? ? Ha Hr]; subst. constructor.
  - intros Hin. apply in_app_or in Hin. destruct Hin as [Hin|[Hin|[]]]; [exact (Ha Hin)|]. apply Hn. left. symmetry. exact Hin.
  - apply IH; [exact Hr|]. intros Hin. apply Hn. right. exact Hin.
Qed.

Section Proofs.
  Variable W : world.

  (* ================================================================ TrajectoryPrediction *)
  Lemma p_fill_spec : forall p, PCoh W p ->
    snd (p_fill W p) = occ_of W (p_shape W p) (p_traj W p) /\ PCoh W (fst (p_fill W p)) /\
    p_prim W (fst (p_fill W p)) = p_prim W p.
  Proof.
    intros p H. unfold p_fill. destruct (p_occ W p) eqn:E; simpl.
    - split; [apply H; exact E|]. split; [exact H | reflexivity].
    - split; [reflexivity|]. split; [|reflexivity]. intros c Hc; simpl in *. inversion Hc; reflexivity.
  Qed.

  Lemma pstep_coh : forall p o, PCoh W p -> PCoh W (fst (pstep W p o)).
  Proof.
    intros p o H. destruct o; simpl; try (intros c Hc; simpl in Hc; discriminate).
    - destruct (p_fill W p) eqn:E; simpl. pose proof (p_fill_spec p H) as S. rewrite E in S; simpl in S. tauto.
    - destruct (p_fill W p) eqn:E; simpl. pose proof (p_fill_spec p H) as S. rewrite E in S; simpl in S. tauto.
  Qed.

  Lemma p_sim : forall p1 p2 o, PCoh W p1 -> PCoh W p2 -> p_prim W p1 = p_prim W p2 ->
    snd (pstep W p1 o) = snd (pstep W p2 o) /\ p_prim W (fst (pstep W p1 o)) = p_prim W (fst (pstep W p2 o)).
  Proof.
    intros p1 p2 o H1 H2 E. unfold p_prim in E. inversion E as [[Es Et]].
    destruct o; simpl; unfold p_prim; simpl; try (rewrite ?Es, ?Et; split; reflexivity).
    - pose proof (p_fill_spec p1 H1) as S1. pose proof (p_fill_spec p2 H2) as S2.
      destruct (p_fill W p1), (p_fill W p2); simpl in *. destruct S1 as [A1 [_ B1]], S2 as [A2 [_ B2]].
      unfold p_prim in *. rewrite A1, A2, Es, Et, B1, B2, Es, Et. split; reflexivity.
    - pose proof (p_fill_spec p1 H1) as S1. pose proof (p_fill_spec p2 H2) as S2.
      destruct (p_fill W p1), (p_fill W p2); simpl in *. destruct S1 as [A1 [_ B1]], S2 as [A2 [_ B2]].
      unfold p_prim in *. rewrite A1, A2, Es, Et, B1, B2, Es, Et. split; reflexivity.
  Qed.

  Lemma p_build_coh : forall x, PCoh W (p_build W x).
  Proof. intros x c H. simpl in H. discriminate. Qed.
  Lemma p_build_prim : forall p, p_prim W (p_build W (p_prim W p)) = p_prim W p.
  Proof. reflexivity. Qed.

  (* ================================================================ Lanelet *)
  Lemma l_fill_dist_spec : forall l, LCoh W l ->
    snd (l_fill_dist W l) = dist_of W (l_verts W l) /\ LCoh W (fst (l_fill_dist W l)) /\
    l_prim W (fst (l_fill_dist W l)) = l_prim W l /\ l_poly W (fst (l_fill_dist W l)) = l_poly W l.
  Proof.
    intros l H. pose proof H as [Hp [Hd Hi]]. unfold l_fill_dist. destruct (l_dist W l) eqn:E; simpl.
    - split; [apply Hd; reflexivity|]. split; [exact H|]. split; reflexivity.
    - split; [reflexivity|]. split; [|split; reflexivity]. split; [exact Hp|]. split; simpl.
      + intros d Hd'. inversion Hd'; reflexivity.
      + exact Hi.
  Qed.
  Lemma l_fill_inner_spec : forall l, LCoh W l ->
    snd (l_fill_inner W l) = inner_of W (l_verts W l) /\ LCoh W (fst (l_fill_inner W l)) /\
    l_prim W (fst (l_fill_inner W l)) = l_prim W l /\ l_poly W (fst (l_fill_inner W l)) = l_poly W l.
  Proof.
    intros l H. pose proof H as [Hp [Hd Hi]]. unfold l_fill_inner. destruct (l_inner W l) eqn:E; simpl.
    - split; [apply Hi; reflexivity|]. split; [exact H|]. split; reflexivity.
    - split; [reflexivity|]. split; [|split; reflexivity]. split; [exact Hp|]. split; simpl.
      + exact Hd.
      + intros d Hd'. inversion Hd'; reflexivity.
  Qed.

  Lemma l_set_verts_coh : forall l v, LCoh W (l_set_verts W l v).
  Proof. intros l v. repeat split; simpl; intros; discriminate. Qed.

  Lemma lstep_coh : forall l o, LCoh W l -> LCoh W (fst (lstep W l o)).
  Proof.
    intros l o H. destruct o; simpl; try exact H; try apply l_set_verts_coh.
    - pose proof (l_fill_dist_spec l H) as S. destruct (l_fill_dist W l); simpl in *; tauto.
    - pose proof (l_fill_inner_spec l H) as S. destruct (l_fill_inner W l); simpl in *; tauto.
    - pose proof (l_fill_dist_spec l H) as S. destruct (l_fill_dist W l); simpl in *; tauto.
  Qed.

  (* queries leave id, vertices and polygon alone *)
  Lemma lstep_query_keeps : forall l o, LCoh W l -> l_is_query W o = true ->
    l_prim W (fst (lstep W l o)) = l_prim W l /\ l_poly W (fst (lstep W l o)) = l_poly W l.
  Proof.
    intros l o H Q. destruct o; simpl in *; try discriminate; try (split; reflexivity).
    - pose proof (l_fill_dist_spec l H) as S. destruct (l_fill_dist W l); simpl in *; tauto.
    - pose proof (l_fill_inner_spec l H) as S. destruct (l_fill_inner W l); simpl in *; tauto.
    - pose proof (l_fill_dist_spec l H) as S. destruct (l_fill_dist W l); simpl in *; tauto.
  Qed.

  Lemma l_sim : forall l1 l2 o, LCoh W l1 -> LCoh W l2 -> l_prim W l1 = l_prim W l2 ->
    snd (lstep W l1 o) = snd (lstep W l2 o) /\ l_prim W (fst (lstep W l1 o)) = l_prim W (fst (lstep W l2 o)).
  Proof.
    intros l1 l2 o H1 H2 E. unfold l_prim in E. inversion E as [[Ei Ev]].
    assert (Ep : l_poly W l1 = l_poly W l2) by (destruct H1 as [A _], H2 as [B _]; rewrite A, B, Ev; reflexivity).
    destruct o; simpl; unfold l_prim; simpl; try (rewrite ?Ei, ?Ev, ?Ep; split; reflexivity).
    - pose proof (l_fill_dist_spec l1 H1) as S1. pose proof (l_fill_dist_spec l2 H2) as S2.
      destruct (l_fill_dist W l1), (l_fill_dist W l2); simpl in *.
      destruct S1 as [A1 [_ [B1 _]]], S2 as [A2 [_ [B2 _]]]. unfold l_prim in *.
      rewrite A1, A2, B1, B2, Ei, Ev. split; reflexivity.
    - pose proof (l_fill_inner_spec l1 H1) as S1. pose proof (l_fill_inner_spec l2 H2) as S2.
      destruct (l_fill_inner W l1), (l_fill_inner W l2); simpl in *.
      destruct S1 as [A1 [_ [B1 _]]], S2 as [A2 [_ [B2 _]]]. unfold l_prim in *.
      rewrite A1, A2, B1, B2, Ei, Ev. split; reflexivity.
    - pose proof (l_fill_dist_spec l1 H1) as S1. pose proof (l_fill_dist_spec l2 H2) as S2.
      destruct (l_fill_dist W l1), (l_fill_dist W l2); simpl in *.
      destruct S1 as [A1 [_ [B1 _]]], S2 as [A2 [_ [B2 _]]]. unfold l_prim in *.
      rewrite A1, A2, B1, B2, Ei, Ev. split; reflexivity.
  Qed.

  Lemma l_build_coh : forall x, LCoh W (l_build W x).
  Proof. intros x. repeat split; simpl; intros; discriminate. Qed.
  Lemma l_build_prim : forall x, l_prim W (l_build W x) = x.
  Proof. intros [i v]. reflexivity. Qed.

  (* ================================================================ TrafficLightCycle *)
  Lemma c_fill_spec : forall c, CCoh W c ->
    snd (c_fill W c) = cum_of W (c_elems W c) (c_off W c) /\ CCoh W (fst (c_fill W c)) /\
    c_prim W (fst (c_fill W c)) = c_prim W c.
  Proof.
    intros c H. unfold c_fill. destruct (c_cum W c) eqn:E; simpl.
    - split; [apply H; exact E|]. split; [exact H | reflexivity].
    - split; [reflexivity|]. split; [|reflexivity]. intros x Hx; simpl in *. inversion Hx; reflexivity.
  Qed.

  Lemma cstep_coh : forall c o, CCoh W c -> CCoh W (fst (cstep W c o)).
  Proof.
    intros c o H. destruct o; simpl; try (intros x Hx; simpl in Hx; discriminate).
    - intros x Hx; simpl in *. apply H; exact Hx.
    - pose proof (c_fill_spec c H) as S. destruct (c_fill W c); simpl in *; tauto.
    - pose proof (c_fill_spec c H) as S. destruct (c_fill W c); simpl in *; tauto.
  Qed.

  Lemma c_sim : forall c1 c2 o, CCoh W c1 -> CCoh W c2 -> c_prim W c1 = c_prim W c2 ->
    snd (cstep W c1 o) = snd (cstep W c2 o) /\ c_prim W (fst (cstep W c1 o)) = c_prim W (fst (cstep W c2 o)).
  Proof.
    intros c1 c2 o H1 H2 E. unfold c_prim in E. inversion E as [[Ee Eo Ea]].
    destruct o; simpl; unfold c_prim; simpl; try (rewrite ?Ee, ?Eo, ?Ea; split; reflexivity).
    - pose proof (c_fill_spec c1 H1) as S1. pose proof (c_fill_spec c2 H2) as S2.
      destruct (c_fill W c1), (c_fill W c2); simpl in *. destruct S1 as [A1 [_ B1]], S2 as [A2 [_ B2]].
      unfold c_prim in *. rewrite A1, A2, B1, B2, Ee, Eo, Ea. split; reflexivity.
    - pose proof (c_fill_spec c1 H1) as S1. pose proof (c_fill_spec c2 H2) as S2.
      destruct (c_fill W c1), (c_fill W c2); simpl in *. destruct S1 as [A1 [_ B1]], S2 as [A2 [_ B2]].
      unfold c_prim in *. rewrite A1, A2, B1, B2, Ee, Eo, Ea. split; reflexivity.
  Qed.

  Lemma c_build_coh : forall x, CCoh W (c_build W x).
  Proof. intros x y H. simpl in H. discriminate. Qed.
  Lemma c_build_prim : forall x, c_prim W (c_build W x) = x.
  Proof. intros [[e k] b]. reflexivity. Qed.

  (* ================================================================ obstacles *)
  Local Arguments pstep : simpl never.
  Lemma pred_build_coh : forall p, PredCoh W (pred_build W p).
  Proof. intros [s t|sp|]; simpl; auto. apply (p_build_coh (s, t)). Qed.
  Lemma pred_build_prim : forall p, pred_prim W (pred_build W p) = p.
  Proof. intros [s t|sp|]; reflexivity. Qed.

  Lemma pred_move_coh : forall m p, PredCoh W p -> PredCoh W (pred_move W m p).
  Proof. intros m [q|sp|] H; simpl; auto. unfold pstep; simpl. intros c Hc; simpl in Hc; discriminate. Qed.
  Lemma pred_move_prim : forall m p1 p2, pred_prim W p1 = pred_prim W p2 ->
    pred_prim W (pred_move W m p1) = pred_prim W (pred_move W m p2).
  Proof.
    intros m [q1|sp1|] [q2|sp2|] E; simpl in *; try discriminate; try reflexivity.
    - inversion E as [[Es Et]]. unfold pstep; simpl. rewrite Es, Et. reflexivity.
    - inversion E. reflexivity.
  Qed.

  Lemma ostep_inv : forall o op, OInv W o -> o_ok W o op = true -> OInv W (fst (ostep W o op)).
  Proof.
    intros o op Hinv Hok. pose proof Hinv as [[Hi Hp] Hs]. destruct op; simpl in *.
    - (* OSetInit *) split; [split; [reflexivity | exact Hp] | exact Hs].
    - (* OMove *) split; [split; [reflexivity | apply pred_move_coh; exact Hp]|].
      intros St. simpl in St. rewrite (Hs St). reflexivity.
    - (* OUpdateInit *) destruct (Nat.ltb 0 maxlen); simpl; [|exact Hinv].
      split; [split; [reflexivity | exact I] | reflexivity].
    - (* OUpdatePred *) split; [split; [exact Hi | apply pred_build_coh]|].
      intros St. simpl in St. rewrite St in Hok. discriminate.
    - (* OSetPred *) split; [split; [exact Hi | apply pred_build_coh]|].
      intros St. simpl in St. rewrite St in Hok. discriminate.
    - (* OPred *) destruct (o_pred W o) as [q|sp|] eqn:E; simpl; try exact Hinv.
      pose proof (pstep_coh q o0 Hp) as C. destruct (pstep W q o0) as [q' r]; simpl in *.
      split; [split; [exact Hi | exact C]|]. intros St. discriminate (Hs St).
    - (* OQOcc *) destruct (d_static W (o_data W o)) eqn:St; simpl; [exact Hinv|].
      destruct (Z.eqb t (o_time W o)); simpl; [exact Hinv|].
      destruct (Z.ltb (o_time W o) t); simpl; [|exact Hinv].
      destruct (o_pred W o) as [q|sp|] eqn:E; simpl; try exact Hinv.
      pose proof (pstep_coh q (PQOccAt W t) Hp) as C. destruct (pstep W q (PQOccAt W t)) as [q' r]; simpl in *.
      split; [split; [exact Hi | exact C]|]. intros St'. simpl in St'. rewrite St' in St. discriminate.
    - (* OQState *) destruct (d_static W (o_data W o)); simpl; [exact Hinv|].
      destruct (Z.eqb t (o_time W o)); simpl; [exact Hinv|].
      destruct (o_pred W o) as [q|sp|] eqn:E; simpl; try exact Hinv.
      destruct (Z.ltb (o_time W o) t); simpl; exact Hinv.
  Qed.

  Lemma pred_prim_cases : forall a b, pred_prim W a = pred_prim W b ->
    (exists q1 q2, a = PTraj W q1 /\ b = PTraj W q2 /\ p_prim W q1 = p_prim W q2) \/
    (exists sp, a = PSet W sp /\ b = PSet W sp) \/ (a = PNone W /\ b = PNone W).
  Proof.
    intros [q1|sp1|] [q2|sp2|] E; simpl in E; try discriminate.
    - left. exists q1, q2. repeat split. unfold p_prim. inversion E. reflexivity.
    - right; left. inversion E. exists sp2. split; reflexivity.
    - right; right. split; reflexivity.
  Qed.

  Lemma o_sim : forall o1 o2 op, OInv W o1 -> OInv W o2 -> o_prim W o1 = o_prim W o2 -> o_ok W o1 op = true ->
    snd (ostep W o1 op) = snd (ostep W o2 op) /\ o_prim W (fst (ostep W o1 op)) = o_prim W (fst (ostep W o2 op)).
  Proof.
    intros o1 o2 op [[Hi1 Hp1] Hs1] [[Hi2 Hp2] Hs2] E Hok.
    unfold o_prim in E. inversion E as [[Ed Ep]].
    assert (Eo : o_init_occ W o1 = o_init_occ W o2) by (rewrite Hi1, Hi2, Ed; reflexivity).
    assert (Et : o_time W o1 = o_time W o2) by (unfold o_time; rewrite Ed; reflexivity).
    destruct op; simpl; unfold o_prim; simpl.
    - rewrite Ed, Ep. split; reflexivity.
    - rewrite Ed, (pred_move_prim m _ _ Ep). split; reflexivity.
    - destruct (Nat.ltb 0 maxlen); simpl; [rewrite Ed | rewrite Ed, Ep]; split; reflexivity.
    - rewrite Ed. split; reflexivity.
    - rewrite Ed. split; reflexivity.
    - destruct (pred_prim_cases _ _ Ep) as [[q1 [q2 [A [B C]]]]|[[sp [A B]]|[A B]]]; rewrite A, B in *; simpl.
      + destruct (p_sim q1 q2 o Hp1 Hp2 C) as [R S]. destruct (pstep W q1 o), (pstep W q2 o); simpl in *.
        unfold p_prim in S. inversion S. rewrite R, Ed. split; reflexivity.
      + rewrite Ed, ?A, ?B. split; reflexivity.
      + rewrite Ed, ?A, ?B. split; reflexivity.
    - rewrite Eo, Et, Ed.
      destruct (d_static W (o_data W o2)); simpl; [rewrite ?Ed, Ep; split; reflexivity|].
      destruct (Z.eqb t (o_time W o2)); simpl; [rewrite ?Ed, Ep; split; reflexivity|].
      destruct (Z.ltb (o_time W o2) t); simpl; [|rewrite ?Ed, Ep; split; reflexivity].
      destruct (pred_prim_cases _ _ Ep) as [[q1 [q2 [A [B C]]]]|[[sp [A B]]|[A B]]]; rewrite A, B in *; simpl.
      + destruct (p_sim q1 q2 (PQOccAt W t) Hp1 Hp2 C) as [R S].
        destruct (pstep W q1 (PQOccAt W t)), (pstep W q2 (PQOccAt W t)); simpl in *.
        unfold p_prim in S. inversion S. rewrite R, ?Ed. split; reflexivity.
      + rewrite ?Ed, ?A, ?B. split; reflexivity.
      + rewrite ?Ed, ?A, ?B. split; reflexivity.
    - rewrite Et, Ed.
      destruct (d_static W (o_data W o2)); simpl; [rewrite ?Ed, Ep; split; reflexivity|].
      destruct (Z.eqb t (o_time W o2)); simpl; [rewrite ?Ed, Ep; split; reflexivity|].
      destruct (pred_prim_cases _ _ Ep) as [[q1 [q2 [A [B C]]]]|[[sp [A B]]|[A B]]]; rewrite A, B in *; simpl.
      + unfold p_prim in C. inversion C as [[Cs Ct]].
        destruct (Z.ltb (o_time W o2) t); simpl; rewrite ?Ed, ?A, ?B, ?Cs, ?Ct; simpl; rewrite ?Cs, ?Ct; split; reflexivity.
      + rewrite ?Ed, ?A, ?B. split; reflexivity.
      + rewrite ?Ed, ?A, ?B. split; reflexivity.
  Qed.

  Lemma o_build_inv : forall x, d_static W (fst x) = true -> snd x = PPNone W -> OInv W (o_build W x).
  Proof.
    intros [d p] St E. simpl in *. subst p. split; [split; [reflexivity | exact I] | reflexivity].
  Qed.
  Lemma o_build_coh : forall x, OCoh W (o_build W x).
  Proof. intros [d p]. split; [reflexivity | apply pred_build_coh]. Qed.
  Lemma o_build_prim : forall x, o_prim W (o_build W x) = x.
  Proof. intros [d p]. unfold o_prim, o_build; simpl. rewrite pred_build_prim. reflexivity. Qed.
  Lemma o_build_of_prim_inv : forall o, OInv W o -> OInv W (o_build W (o_prim W o)).
  Proof.
    intros o [_ Hs]. split; [apply o_build_coh|]. simpl. intros St. rewrite (Hs St). reflexivity.
  Qed.

  (* ---- update_initial_state keeps the last max_history_length entries of all four lists *)
  Lemma update_init_histories : forall d cur sg cen shp m,
    d_hist W (d_update_init W d cur sg cen shp m) = lastn m (d_hist W d ++ [d_init W d]) /\
    (length (d_sighist W d) = length (d_hist W d) ->
     d_sighist W (d_update_init W d cur sg cen shp m) = lastn m (d_sighist W d ++ [d_sig W d])) /\
    (length (d_cenhist W d) = length (d_hist W d) ->
     d_cenhist W (d_update_init W d cur sg cen shp m) = lastn m (d_cenhist W d ++ [d_cen W d])) /\
    (length (d_shphist W d) = length (d_hist W d) ->
     d_shphist W (d_update_init W d cur sg cen shp m) = lastn m (d_shphist W d ++ [d_shp W d])).
  Proof.
    intros. unfold d_update_init; simpl. split; [apply trunc_lastn|].
    repeat split; intros L.
    - assert (X : length (d_hist W d ++ [d_init W d]) = length (d_sighist W d ++ [d_sig W d]))
        by (rewrite !app_length, L; reflexivity).
      rewrite X. apply trunc_lastn.
    - assert (X : length (d_hist W d ++ [d_init W d]) = length (d_cenhist W d ++ [d_cen W d]))
        by (rewrite !app_length, L; reflexivity).
      rewrite X. apply trunc_lastn.
    - assert (X : length (d_hist W d ++ [d_init W d]) = length (d_shphist W d ++ [d_shp W d]))
        by (rewrite !app_length, L; reflexivity).
      rewrite X. apply trunc_lastn.
  Qed.

  Lemma update_init_lengths : forall d cur sg cen shp m,
    length (d_sighist W d) = length (d_hist W d) -> length (d_cenhist W d) = length (d_hist W d) ->
    length (d_shphist W d) = length (d_hist W d) ->
    let d' := d_update_init W d cur sg cen shp m in
    length (d_hist W d') = Nat.min m (S (length (d_hist W d))) /\
    length (d_sighist W d') = length (d_hist W d') /\ length (d_cenhist W d') = length (d_hist W d') /\
    length (d_shphist W d') = length (d_hist W d').
  Proof.
    intros d cur sg cen shp m L1 L2 L3 d'.
    destruct (update_init_histories d cur sg cen shp m) as [H0 [H1 [H2 H3]]].
    subst d'. rewrite H0, (H1 L1), (H2 L2), (H3 L3), !lastn_length, !app_length, L1, L2, L3. simpl.
    repeat split; lia.
  Qed.

  (* ================================================================ LaneletNetwork *)
  Local Arguments lstep : simpl never.
  Local Arguments cstep : simpl never.

  Definition entry_of_prim (x : Z * verts W) : Z * geom W := (fst x, geom_of W (poly_of W (snd x))).
  Lemma entry_prim : forall l, LCoh W l -> entry W l = entry_of_prim (l_prim W l).
  Proof. intros l [H _]. unfold entry, entry_of_prim, l_prim; simpl. rewrite H. reflexivity. Qed.
  Lemma entries_prim : forall ls, Forall (LCoh W) ls -> map (entry W) ls = map entry_of_prim (map (l_prim W) ls).
  Proof.
    induction ls as [|l r IH]; intros H; [reflexivity|]. inversion H; subst. simpl.
    rewrite entry_prim, IH; auto.
  Qed.
  Lemma has_id_prim : forall i ls, has_id W i ls = existsb (fun y => Z.eqb (fst y) i) (map (l_prim W) ls).
  Proof. intros. unfold has_id. rewrite existsb_map. reflexivity. Qed.
  Lemma has_id_false : forall i ls, has_id W i ls = false -> ~ In i (map (l_id W) ls).
  Proof.
    intros i ls H Hin. apply in_map_iff in Hin. destruct Hin as [l [E Hl]].
    assert (X : has_id W i ls = true).
    { unfold has_id. apply existsb_exists. exists l. split; [exact Hl|]. apply Z.eqb_eq. exact E. }
    rewrite X in H. discriminate.
  Qed.

  (* coherence without the two clauses about the tree (what rtree=False calls preserve) *)
  Definition NCoh0 (n : net W) : Prop :=
    Forall (LCoh W) (n_lanelets W n) /\ Forall (CCoh W) (n_lights W n) /\
    NoDup (map (l_id W) (n_lanelets W n)) /\ n_buffered W n = map (entry W) (n_lanelets W n).
  Lemma NCoh_0 : forall n, NCoh W n -> NCoh0 n.
  Proof. intros n [A [B [C [D _]]]]. repeat split; assumption. Qed.
  Lemma create_tree_coh : forall n, NCoh0 n -> NCoh W (create_tree W n).
  Proof.
    intros n [A [B [C D]]]. unfold create_tree, NCoh; simpl. repeat split; try assumption.
    - intros t E. inversion E. reflexivity.
    - intros E. discriminate.
  Qed.

  Lemma n_add_coh0 : forall n x r, NCoh0 n -> NCoh0 (fst (n_add W n x r)).
  Proof.
    intros n x r H. pose proof H as [A [B [C D]]]. unfold n_add.
    destruct (has_id W (fst x) (n_lanelets W n)) eqn:E; simpl; [exact H|].
    assert (G : NCoh0 {| n_lanelets := n_lanelets W n ++ [l_build W x];
                         n_buffered := n_buffered W n ++ [entry W (l_build W x)];
                         n_tree := n_tree W n; n_lights := n_lights W n |}).
    { unfold NCoh0; simpl. split; [|split; [exact B|split]].
      - apply Forall_app. split; [exact A|]. constructor; [apply l_build_coh | constructor].
      - rewrite map_app. simpl. apply NoDup_app_single; [exact C | apply has_id_false; exact E].
      - rewrite map_app, D. reflexivity. }
    destruct r; [|exact G]. unfold create_tree; simpl. exact G.
  Qed.

  Lemma n_add_all_coh0 : forall ls n f, NCoh0 n -> NCoh0 (fst (n_add_all W n ls f)).
  Proof.
    induction ls as [|x r IH]; intros n f H; simpl; [exact H|].
    destruct f; [|apply IH; exact H].
    pose proof (n_add_coh0 n x false H) as G. destruct (n_add W n x false) as [n' b]; simpl in *.
    apply IH; exact G.
  Qed.

  Lemma lstep_id : forall l o, l_id W (fst (lstep W l o)) = l_id W l.
  Proof.
    intros l o. unfold lstep. destruct o; simpl; try reflexivity.
    - unfold l_fill_dist. destruct (l_dist W l); reflexivity.
    - unfold l_fill_inner. destruct (l_inner W l); reflexivity.
    - unfold l_fill_dist. destruct (l_dist W l); reflexivity.
  Qed.

  Lemma n_move_coh : forall n m, NCoh0 n -> NCoh W (n_move W n m).
  Proof.
    intros n m [A [B [C D]]]. unfold n_move. apply create_tree_coh. unfold NCoh0; simpl.
    split; [|split; [exact B|split; [|reflexivity]]].
    - apply Forall_forall. intros l Hl. apply in_map_iff in Hl. destruct Hl as [l0 [E _]]. subst l.
      unfold lstep; simpl. apply l_set_verts_coh.
    - rewrite map_map. erewrite map_ext; [exact C|]. intros l. reflexivity.
  Qed.

  Lemma nstep_inv : forall n o, NCoh W n -> n_ok W n o = true -> NCoh W (fst (nstep W n o)).
  Proof.
    intros n o H Hok. pose proof H as [A [B [C [D [T1 T2]]]]]. destruct o; simpl in *.
    - (* NAdd *) subst rtree. pose proof (n_add_coh0 n l true (NCoh_0 n H)) as G. unfold n_add in *.
      destruct (has_id W (fst l) (n_lanelets W n)); simpl in *; [exact H|]. apply create_tree_coh. exact G.
    - (* NRemove *) subst rtree. unfold n_remove. apply create_tree_coh.
      destruct (has_id W i (n_lanelets W n)); [|apply NCoh_0; exact H].
      unfold NCoh0; simpl. split; [|split; [exact B|split]].
      + apply Forall_forall. intros l Hl. apply filter_In in Hl. destruct Hl as [Hl _].
        rewrite Forall_forall in A. apply A. exact Hl.
      + apply NoDup_map_filter. exact C.
      + rewrite D. symmetry. apply map_filter_comm. intros l. reflexivity.
    - (* NAddFrom *) pose proof (n_add_all_coh0 ls n true (NCoh_0 n H)) as G.
      destruct (n_add_all W n ls true) as [n' b]; simpl in *. apply create_tree_coh. exact G.
    - (* NMove *) apply n_move_coh. apply NCoh_0. exact H.
    - (* NLanelet *) unfold NCoh; simpl. split; [|split; [exact B|split; [|split; [|split; [exact T1|]]]]].
      + apply Forall_upd_nth; [exact A|]. intros l _ Hl. apply lstep_coh. exact Hl.
      + rewrite (map_upd_nth_keep (fun _ => True) (l_id W)); [exact C | apply Forall_forall; auto|].
        intros l _. apply lstep_id.
      + rewrite D. symmetry. apply (map_upd_nth_keep (LCoh W)); [exact A|].
        intros l Hl. destruct (lstep_query_keeps l o Hl Hok) as [P1 P2].
        unfold entry. unfold l_prim in P1. inversion P1 as [[Pi Pv]]. rewrite Pi, P2. reflexivity.
      + intros E. rewrite (T2 E). apply upd_nth_nil.
    - (* NLight *) unfold NCoh; simpl. split; [exact A|split; [|repeat split; assumption]].
      apply Forall_upd_nth; [exact B|]. intros c _ Hc. apply cstep_coh. exact Hc.
    - destruct (n_tree W n); exact H.
    - destruct (n_tree W n); exact H.
  Qed.

  (* ---- the same operations on primary data only *)
  Definition np_add (ps : list (Z * verts W)) (x : Z * verts W) : list (Z * verts W) * bool :=
    if existsb (fun y => Z.eqb (fst y) (fst x)) ps then (ps, false) else (ps ++ [x], true).
  Fixpoint np_add_all (ps : list (Z * verts W)) (ls : list (Z * verts W)) (flag : bool) :=
    match ls with
    | [] => (ps, flag)
    | x :: r => if flag then let (ps', b) := np_add ps x in np_add_all ps' r b else np_add_all ps r false
    end.
  Definition cp_step (x : list (colour W * Z) * Z * bool) (o : cop W) := c_prim W (fst (cstep W (c_build W x) o)).
  Definition np_step (p : nprim W) (o : nop W) : nprim W :=
    match o with
    | NAdd _ x _ => {| np_lanelets := fst (np_add (np_lanelets W p) x); np_lights := np_lights W p |}
    | NRemove _ i _ => {| np_lanelets := filter (fun y => negb (Z.eqb (fst y) i)) (np_lanelets W p);
                          np_lights := np_lights W p |}
    | NAddFrom _ ls => {| np_lanelets := fst (np_add_all (np_lanelets W p) ls true); np_lights := np_lights W p |}
    | NMove _ m => {| np_lanelets := map (fun y => (fst y, move_verts W m (snd y))) (np_lanelets W p);
                      np_lights := np_lights W p |}
    | NLight _ k co => {| np_lanelets := np_lanelets W p; np_lights := upd_nth k (fun x => cp_step x co) (np_lights W p) |}
    | _ => p
    end.

  Lemma n_add_prim : forall n x r,
    map (l_prim W) (n_lanelets W (fst (n_add W n x r))) = fst (np_add (map (l_prim W) (n_lanelets W n)) x) /\
    snd (n_add W n x r) = snd (np_add (map (l_prim W) (n_lanelets W n)) x) /\
    n_lights W (fst (n_add W n x r)) = n_lights W n.
  Proof.
    intros n x r. unfold n_add, np_add. rewrite has_id_prim.
    destruct (existsb _ (map (l_prim W) (n_lanelets W n))); simpl; [repeat split|].
    destruct r; simpl; rewrite map_app; simpl; rewrite l_build_prim; repeat split.
  Qed.

  Lemma n_add_all_prim : forall ls n f,
    map (l_prim W) (n_lanelets W (fst (n_add_all W n ls f))) = fst (np_add_all (map (l_prim W) (n_lanelets W n)) ls f) /\
    snd (n_add_all W n ls f) = snd (np_add_all (map (l_prim W) (n_lanelets W n)) ls f) /\
    n_lights W (fst (n_add_all W n ls f)) = n_lights W n.
  Proof.
    induction ls as [|x r IH]; intros n f; simpl; [repeat split|].
    destruct f; [|apply IH].
    destruct (n_add_prim n x false) as [P1 [P2 P3]].
    destruct (n_add W n x false) as [n' b]; destruct (np_add (map (l_prim W) (n_lanelets W n)) x) as [ps' b'].
    simpl in *. subst b' ps'. destruct (IH n' b) as [Q1 [Q2 Q3]]. rewrite Q1, Q2, Q3, P3. repeat split.
  Qed.

  Lemma c_prim_step : forall c o, CCoh W c -> c_prim W (fst (cstep W c o)) = cp_step (c_prim W c) o.
  Proof.
    intros c o H. unfold cp_step. apply c_sim; [exact H | apply c_build_coh | symmetry; apply c_build_prim].
  Qed.

  Lemma nstep_prim : forall n o, NCoh W n -> n_ok W n o = true -> n_prim W (fst (nstep W n o)) = np_step (n_prim W n) o.
  Proof.
    intros n o H Hok. pose proof H as [A [B _]]. destruct o; simpl in *; unfold n_prim; simpl.
    - destruct (n_add_prim n l rtree) as [P1 [_ P3]]. destruct (n_add W n l rtree); simpl in *. rewrite P1, P3. reflexivity.
    - unfold n_remove. rewrite has_id_prim.
      assert (F : map (l_prim W) (filter (fun l => negb (Z.eqb (l_id W l) i)) (n_lanelets W n)) =
                  filter (fun y => negb (Z.eqb (fst y) i)) (map (l_prim W) (n_lanelets W n)))
        by (apply map_filter_comm; intros; reflexivity).
      destruct (existsb _ (map (l_prim W) (n_lanelets W n))) eqn:E; destruct rtree; simpl; rewrite ?F; try reflexivity.
      + f_equal. symmetry. apply filter_all_true. intros y Hy.
        apply negb_true_iff. destruct (Z.eqb (fst y) i) eqn:Ey; [|reflexivity].
        assert (X : existsb (fun y => Z.eqb (fst y) i) (map (l_prim W) (n_lanelets W n)) = true)
          by (apply existsb_exists; exists y; split; assumption).
        rewrite X in E. discriminate.
      + f_equal. symmetry. apply filter_all_true. intros y Hy.
        apply negb_true_iff. destruct (Z.eqb (fst y) i) eqn:Ey; [|reflexivity].
        assert (X : existsb (fun y => Z.eqb (fst y) i) (map (l_prim W) (n_lanelets W n)) = true)
          by (apply existsb_exists; exists y; split; assumption).
        rewrite X in E. discriminate.
    - destruct (n_add_all_prim ls n true) as [P1 [_ P3]]. destruct (n_add_all W n ls true); simpl in *.
      rewrite P1, P3. reflexivity.
    - f_equal. rewrite !map_map. apply map_ext. intros l. reflexivity.
    - f_equal. apply (map_upd_nth_keep (LCoh W)); [exact A|]. intros l Hl.
      apply (lstep_query_keeps l o Hl Hok).
    - f_equal. apply map_upd_nth. intros c Hc. apply c_prim_step. eapply Forall_nth; eauto.
    - destruct (n_tree W n); reflexivity.
    - destruct (n_tree W n); reflexivity.
  Qed.

  Lemma n_tree_some : forall n, NCoh W n -> n_lanelets W n <> [] -> n_tree W n = Some (map entry_of_prim (map (l_prim W) (n_lanelets W n))).
  Proof.
    intros n [A [_ [_ [D [T1 T2]]]]] Hne. destruct (n_tree W n) as [t|] eqn:E.
    - rewrite (T1 t eq_refl), D, entries_prim; auto.
    - exfalso. apply Hne. apply T2. reflexivity.
  Qed.

  Lemma n_answer : forall n1 n2 o, NCoh W n1 -> NCoh W n2 -> n_prim W n1 = n_prim W n2 -> n_ok W n1 o = true ->
    snd (nstep W n1 o) = snd (nstep W n2 o).
  Proof.
    intros n1 n2 o H1 H2 E Hok. unfold n_prim in E. inversion E as [[El Ec]].
    pose proof H1 as [A1 [B1 _]]. pose proof H2 as [A2 [B2 _]]. destruct o; simpl in *.
    - destruct (n_add_prim n1 l rtree) as [_ [P1 _]]. destruct (n_add_prim n2 l rtree) as [_ [P2 _]].
      destruct (n_add W n1 l rtree), (n_add W n2 l rtree); simpl in *. rewrite P1, P2, El. reflexivity.
    - reflexivity.
    - destruct (n_add_all_prim ls n1 true) as [_ [P1 _]]. destruct (n_add_all_prim ls n2 true) as [_ [P2 _]].
      destruct (n_add_all W n1 ls true), (n_add_all W n2 ls true); simpl in *. rewrite P1, P2, El. reflexivity.
    - reflexivity.
    - pose proof (map_eq_nth (l_prim W) _ _ k El) as N.
      destruct (nth_error (n_lanelets W n1) k) as [l1|] eqn:E1; destruct (nth_error (n_lanelets W n2) k) as [l2|] eqn:E2;
        simpl; try contradiction; [|reflexivity].
      f_equal. f_equal. apply l_sim; [exact (Forall_nth _ _ k l1 A1 E1) | exact (Forall_nth _ _ k l2 A2 E2) | exact N].
    - pose proof (map_eq_nth (c_prim W) _ _ k Ec) as N.
      destruct (nth_error (n_lights W n1) k) as [c1|] eqn:E1; destruct (nth_error (n_lights W n2) k) as [c2|] eqn:E2;
        simpl; try contradiction; [|reflexivity].
      f_equal. f_equal. apply c_sim; [exact (Forall_nth _ _ k c1 B1 E1) | exact (Forall_nth _ _ k c2 B2 E2) | exact N].
    - assert (N1 : n_lanelets W n1 <> []) by (destruct (n_lanelets W n1); [discriminate | intros X; discriminate]).
      assert (N2 : n_lanelets W n2 <> []).
      { intros X. rewrite X in El. destruct (n_lanelets W n1); [apply N1; reflexivity | discriminate]. }
      rewrite (n_tree_some n1 H1 N1), (n_tree_some n2 H2 N2), El. reflexivity.
    - assert (N1 : n_lanelets W n1 <> []) by (destruct (n_lanelets W n1); [discriminate | intros X; discriminate]).
      assert (N2 : n_lanelets W n2 <> []).
      { intros X. rewrite X in El. destruct (n_lanelets W n1); [apply N1; reflexivity | discriminate]. }
      rewrite (n_tree_some n1 H1 N1), (n_tree_some n2 H2 N2), El. reflexivity.
  Qed.

  Lemma n_ok_prim : forall n1 n2 o, n_prim W n1 = n_prim W n2 -> n_ok W n1 o = n_ok W n2 o.
  Proof.
    intros n1 n2 o E. unfold n_prim in E. inversion E as [[El Ec]]. destruct o; simpl; try reflexivity.
    - destruct (n_lanelets W n1), (n_lanelets W n2); simpl in *; try discriminate; reflexivity.
    - destruct (n_lanelets W n1), (n_lanelets W n2); simpl in *; try discriminate; reflexivity.
  Qed.

  Lemma n_sim : forall n1 n2 o, NCoh W n1 -> NCoh W n2 -> n_prim W n1 = n_prim W n2 -> n_ok W n1 o = true ->
    snd (nstep W n1 o) = snd (nstep W n2 o) /\ n_prim W (fst (nstep W n1 o)) = n_prim W (fst (nstep W n2 o)).
  Proof.
    intros n1 n2 o H1 H2 E Hok. split; [apply n_answer; assumption|].
    rewrite (nstep_prim n1 o H1 Hok), (nstep_prim n2 o H2); [rewrite E; reflexivity|].
    rewrite <- (n_ok_prim n1 n2 o E). exact Hok.
  Qed.

  (* ---- the constructor path: LaneletNetwork() + add_lanelet for every lanelet *)
  Lemma n_build_fold_coh : forall ps n, NCoh W n -> NCoh W (fold_left (fun n x => fst (n_add W n x true)) ps n).
  Proof.
    induction ps as [|x r IH]; intros n H; simpl; [exact H|]. apply IH.
    pose proof (nstep_inv n (NAdd W x true) H eq_refl) as G. simpl in G.
    destruct (n_add W n x true); exact G.
  Qed.
  Lemma n_build_coh : forall p, NCoh W (n_build W p).
  Proof.
    intros p. unfold n_build. apply n_build_fold_coh. unfold n_empty, NCoh; simpl.
    split; [constructor|]. split.
    { apply Forall_forall. intros c Hc. apply in_map_iff in Hc. destruct Hc as [x [E _]]. subst c. apply c_build_coh. }
    split; [constructor|]. split; [reflexivity|]. split; [intros t E; discriminate | reflexivity].
  Qed.

  Lemma n_build_fold_prim : forall ps n,
    NoDup (map (l_id W) (n_lanelets W n) ++ map fst ps) ->
    let n' := fold_left (fun n x => fst (n_add W n x true)) ps n in
    map (l_prim W) (n_lanelets W n') = map (l_prim W) (n_lanelets W n) ++ ps /\ n_lights W n' = n_lights W n.
  Proof.
    induction ps as [|x r IH]; intros n ND; simpl; [rewrite app_nil_r; split; reflexivity|].
    destruct (n_add_prim n x true) as [P1 [_ P3]].
    assert (Hx : existsb (fun y => Z.eqb (fst y) (fst x)) (map (l_prim W) (n_lanelets W n)) = false).
    { destruct (existsb _ _) eqn:E; [|reflexivity]. apply existsb_exists in E. destruct E as [y [Hy Ey]].
      apply Z.eqb_eq in Ey. simpl in ND. apply NoDup_remove_2 in ND. exfalso. apply ND.
      apply in_or_app. left. apply in_map_iff in Hy. destruct Hy as [l [El Hl]]. subst y.
      apply in_map_iff. exists l. split; [exact Ey | exact Hl]. }
    unfold np_add in P1. rewrite Hx in P1. simpl in P1.
    specialize (IH (fst (n_add W n x true))).
    assert (ND' : NoDup (map (l_id W) (n_lanelets W (fst (n_add W n x true))) ++ map fst r)).
    { assert (Eid : map (l_id W) (n_lanelets W (fst (n_add W n x true))) = map (l_id W) (n_lanelets W n) ++ [fst x]).
      { replace (map (l_id W) (n_lanelets W (fst (n_add W n x true))))
          with (map fst (map (l_prim W) (n_lanelets W (fst (n_add W n x true))))) by (rewrite map_map; reflexivity).
        rewrite P1, map_app, map_map. reflexivity. }
      rewrite Eid, <- app_assoc. exact ND. }
    destruct (IH ND') as [Q1 Q2]. rewrite Q1, Q2, P1, P3, <- app_assoc. split; reflexivity.
  Qed.

  Lemma n_build_prim : forall n, NCoh W n -> n_prim W (n_build W (n_prim W n)) = n_prim W n.
  Proof.
    intros n [_ [_ [C _]]]. unfold n_build.
    pose proof (n_build_fold_prim (np_lanelets W (n_prim W n)) (n_empty W (map (c_build W) (np_lights W (n_prim W n))))) as F.
    simpl in F. rewrite map_map in F. specialize (F C). destruct F as [F1 F2].
    unfold n_prim at 1. simpl. rewrite F1, F2. unfold n_prim. f_equal.
    rewrite !map_map. apply map_ext. intros c. apply c_build_prim.
  Qed.

  Lemma n_drop_lights_coh : forall ks n, NCoh W n -> NCoh W (n_drop_lights W n ks).
  Proof.
    intros ks n [A [B [C [D [T1 T2]]]]]. unfold n_drop_lights, NCoh; simpl. repeat split; try assumption.
    clear -B. revert B. generalize (n_lights W n). induction ks as [|k r IH]; intros l B; simpl; [exact B|].
    apply IH. apply Forall_drop_nth. exact B.
  Qed.
  Lemma n_drop_lights_prim : forall ks n1 n2, n_prim W n1 = n_prim W n2 ->
    n_prim W (n_drop_lights W n1 ks) = n_prim W (n_drop_lights W n2 ks).
  Proof.
    intros ks n1 n2 E. unfold n_prim in *. inversion E as [[El Ec]]. unfold n_drop_lights; simpl. rewrite El. f_equal.
    clear El E. revert Ec. generalize (n_lights W n1) (n_lights W n2).
    induction ks as [|k r IH]; intros l1 l2 Ec; simpl; [exact Ec|].
    apply IH. rewrite !map_drop_nth, Ec. reflexivity.
  Qed.

  (* ================================================================ Scenario *)
  Local Arguments ostep : simpl never.
  Local Arguments nstep : simpl never.

  Lemma occs_at_spec : forall os t, Forall (OInv W) os -> Forall (OInv W) (fst (occs_at W os t)).
  Proof.
    induction os as [|o r IH]; intros t H; simpl; [constructor|]. inversion H as [|? ? Ho Hr]; subst.
    pose proof (ostep_inv o (OQOcc W t) Ho eq_refl) as G1. destruct (ostep W o (OQOcc W t)) as [o1 a1]; simpl in *.
    pose proof (ostep_inv o1 (OQOcc W t) G1 eq_refl) as G2. destruct (ostep W o1 (OQOcc W t)) as [o2 a2]; simpl in *.
    specialize (IH t Hr). destruct (occs_at W r t) as [r' l]; simpl in *. constructor; assumption.
  Qed.

  Lemma occs_at_sim : forall os1 os2 t, Forall (OInv W) os1 -> Forall (OInv W) os2 ->
    map (o_prim W) os1 = map (o_prim W) os2 ->
    snd (occs_at W os1 t) = snd (occs_at W os2 t) /\
    map (o_prim W) (fst (occs_at W os1 t)) = map (o_prim W) (fst (occs_at W os2 t)).
  Proof.
    induction os1 as [|a r1 IH]; intros [|b r2] t H1 H2 E; simpl in E; try discriminate; [split; reflexivity|].
    destruct (cons_inj _ _ _ _ E) as [Ea Er]. inversion H1 as [|? ? Ha Hr1]; inversion H2 as [|? ? Hb Hr2]; subst. simpl.
    destruct (o_sim a b (OQOcc W t) Ha Hb Ea eq_refl) as [R1 S1].
    pose proof (ostep_inv a (OQOcc W t) Ha eq_refl) as Ga. pose proof (ostep_inv b (OQOcc W t) Hb eq_refl) as Gb.
    destruct (ostep W a (OQOcc W t)) as [a1 x1]; destruct (ostep W b (OQOcc W t)) as [b1 y1]; simpl in *.
    destruct (o_sim a1 b1 (OQOcc W t) Ga Gb S1 eq_refl) as [R2 S2].
    destruct (ostep W a1 (OQOcc W t)) as [a2 x2]; destruct (ostep W b1 (OQOcc W t)) as [b2 y2]; simpl in *.
    destruct (IH r2 t Hr1 Hr2 Er) as [R3 S3].
    destruct (occs_at W r1 t) as [r1' l1]; destruct (occs_at W r2 t) as [r2' l2]; simpl in *.
    subst. rewrite S2, S3. split; reflexivity.
  Qed.

  Lemma sstep_inv : forall s o, SCoh W s -> s_ok W s o = true -> SCoh W (fst (sstep W s o)).
  Proof.
    intros s o [Hn Ho] Hok. destruct o; unfold sstep; simpl in Hok.
    - split; cbn [fst s_net s_obst].
      + exact (nstep_inv (s_net W s) (NMove W m) Hn eq_refl).
      + apply Forall_forall. intros ob Hob. apply in_map_iff in Hob. destruct Hob as [o0 [E Hin]]. subst ob.
        apply (ostep_inv o0 (OMove W m)); [|reflexivity]. rewrite Forall_forall in Ho. apply Ho. exact Hin.
    - pose proof (nstep_inv (s_net W s) (NAdd W x true) Hn eq_refl) as G.
      destruct (nstep W (s_net W s) (NAdd W x true)); cbn [fst snd] in *. split; assumption.
    - pose proof (nstep_inv _ (NRemove W i true) (n_drop_lights_coh drop _ Hn) eq_refl) as G.
      destruct (nstep W (n_drop_lights W (s_net W s) drop) (NRemove W i true)); cbn [fst snd] in *. split; assumption.
    - pose proof (nstep_inv (s_net W s) o Hn Hok) as G.
      destruct (nstep W (s_net W s) o); cbn [fst snd] in *. split; assumption.
    - split; cbn [fst s_net s_obst]; [exact Hn|]. apply Forall_upd_nth; [exact Ho|]. intros ob Eb Hb.
      rewrite Eb in Hok. apply ostep_inv; assumption.
    - pose proof (occs_at_spec (s_obst W s) t Ho) as G. destruct (occs_at W (s_obst W s) t); cbn [fst snd] in *.
      split; assumption.
  Qed.

  Lemma map_sim_pointwise : forall (f : obst W -> obst W) os1 os2,
    Forall (OInv W) os1 -> Forall (OInv W) os2 -> map (o_prim W) os1 = map (o_prim W) os2 ->
    (forall a b, OInv W a -> OInv W b -> o_prim W a = o_prim W b -> o_prim W (f a) = o_prim W (f b)) ->
    map (o_prim W) (map f os1) = map (o_prim W) (map f os2).
  Proof.
    induction os1 as [|a r1 IH]; intros [|b r2] H1 H2 E Hf; simpl in E; try discriminate; [reflexivity|].
    destruct (cons_inj _ _ _ _ E) as [Ea Er]. inversion H1; inversion H2; subst. simpl. rewrite (Hf a b), (IH r2); auto.
  Qed.

  Lemma upd_sim_pointwise : forall (f : obst W -> obst W) k os1 os2,
    Forall (OInv W) os1 -> Forall (OInv W) os2 -> map (o_prim W) os1 = map (o_prim W) os2 ->
    (forall a b, nth_error os1 k = Some a -> nth_error os2 k = Some b -> o_prim W (f a) = o_prim W (f b)) ->
    map (o_prim W) (upd_nth k f os1) = map (o_prim W) (upd_nth k f os2).
  Proof.
    intros f k. induction k as [|k IH]; intros [|a r1] [|b r2] H1 H2 E Hf; simpl in E; try discriminate;
      try reflexivity; destruct (cons_inj _ _ _ _ E) as [Ea Er]; simpl.
    - rewrite (Hf a b eq_refl eq_refl). f_equal. assumption.
    - inversion H1; inversion H2; subst. f_equal; [assumption|]. apply IH; auto.
  Qed.

  Lemma s_sim : forall s1 s2 o, SCoh W s1 -> SCoh W s2 -> s_prim W s1 = s_prim W s2 -> s_ok W s1 o = true ->
    snd (sstep W s1 o) = snd (sstep W s2 o) /\ s_prim W (fst (sstep W s1 o)) = s_prim W (fst (sstep W s2 o)).
  Proof.
    intros s1 s2 o [Hn1 Ho1] [Hn2 Ho2] E Hok. unfold s_prim in E.
    assert (En : n_prim W (s_net W s1) = n_prim W (s_net W s2)) by (exact (f_equal fst E)).
    assert (Eo : map (o_prim W) (s_obst W s1) = map (o_prim W) (s_obst W s2)) by (exact (f_equal snd E)).
    destruct o; unfold sstep, s_prim; simpl in Hok.
    - cbn [fst snd s_net s_obst]. split; [reflexivity|]. f_equal.
      + exact (proj2 (n_sim (s_net W s1) (s_net W s2) (NMove W m) Hn1 Hn2 En eq_refl)).
      + apply map_sim_pointwise; auto. intros a b Ha Hb Eab. apply (o_sim a b (OMove W m) Ha Hb Eab eq_refl).
    - destruct (n_sim (s_net W s1) (s_net W s2) (NAdd W x true) Hn1 Hn2 En eq_refl) as [R S].
      destruct (nstep W (s_net W s1) (NAdd W x true)), (nstep W (s_net W s2) (NAdd W x true)); cbn [fst snd s_net s_obst] in *.
      rewrite R, S, Eo. split; reflexivity.
    - destruct (n_sim _ _ (NRemove W i true) (n_drop_lights_coh drop _ Hn1) (n_drop_lights_coh drop _ Hn2)
                      (n_drop_lights_prim drop _ _ En) eq_refl) as [R S].
      destruct (nstep W (n_drop_lights W (s_net W s1) drop) (NRemove W i true)),
               (nstep W (n_drop_lights W (s_net W s2) drop) (NRemove W i true)); cbn [fst snd s_net s_obst] in *.
      rewrite R, S, Eo. split; reflexivity.
    - destruct (n_sim (s_net W s1) (s_net W s2) o Hn1 Hn2 En Hok) as [R S].
      destruct (nstep W (s_net W s1) o), (nstep W (s_net W s2) o); cbn [fst snd s_net s_obst] in *.
      rewrite R, S, Eo. split; reflexivity.
    - cbn [fst snd s_net s_obst]. pose proof (map_eq_nth (o_prim W) _ _ k Eo) as N.
      destruct (nth_error (s_obst W s1) k) as [a|] eqn:E1; destruct (nth_error (s_obst W s2) k) as [b|] eqn:E2;
        cbn [option_map]; try contradiction.
      + pose proof (Forall_nth _ _ k a Ho1 E1) as Ha. pose proof (Forall_nth _ _ k b Ho2 E2) as Hb.
        destruct (o_sim a b o Ha Hb N Hok) as [R S]. rewrite R, En. split; [reflexivity|]. f_equal.
        apply upd_sim_pointwise; auto. intros a' b' Ea Eb. rewrite E1 in Ea; rewrite E2 in Eb.
        inversion Ea; inversion Eb; subst. exact S.
      + rewrite En. split; [reflexivity|]. f_equal. apply upd_sim_pointwise; auto.
        intros a' b' Ea Eb. rewrite E1 in Ea. discriminate.
    - destruct (occs_at_sim (s_obst W s1) (s_obst W s2) t Ho1 Ho2 Eo) as [R S].
      destruct (occs_at W (s_obst W s1) t), (occs_at W (s_obst W s2) t); cbn [fst snd s_net s_obst] in *.
      rewrite R, S, En. split; reflexivity.
  Qed.

  Lemma s_build_coh : forall s, SCoh W s -> SCoh W (s_build W (s_prim W s)).
  Proof.
    intros s [_ Ho]. split; simpl; [apply n_build_coh|].
    rewrite map_map. apply Forall_forall. intros ob Hob. apply in_map_iff in Hob. destruct Hob as [o [E Hin]].
    subst ob. apply o_build_of_prim_inv. rewrite Forall_forall in Ho. apply Ho. exact Hin.
  Qed.
  Lemma s_build_prim : forall s, SCoh W s -> s_prim W (s_build W (s_prim W s)) = s_prim W s.
  Proof.
    intros s [Hn _]. unfold s_prim, s_build; simpl. rewrite (n_build_prim _ Hn). f_equal.
    rewrite !map_map. apply map_ext. intros o. apply o_build_prim.
  Qed.

  (* ================================================================ lifted over all operation sequences *)
  Definition always {S O} (_ : S) (_ : O) : bool := true.
  Lemma all_ok_always {S O R} (step : S -> O -> S * R) : forall ops s, all_ok step always ops s = true.
  Proof. induction ops as [|o r IH]; intros s; simpl; [reflexivity | apply IH]. Qed.

  (* --- TrajectoryPrediction *)
  Theorem pred_coh_reachable : forall ops p, PCoh W p -> PCoh W (run (pstep W) ops p).
  Proof.
    intros ops p H. apply (run_inv (pstep W) always (PCoh W)); [|exact H | apply all_ok_always].
    intros s o Hs _. apply pstep_coh. exact Hs.
  Qed.
  Theorem pred_answers_fresh : forall ops p, PCoh W p ->
    trace (pstep W) ops p = ftrace (pstep W) (p_prim W) (p_build W) ops (p_prim W p).
  Proof.
    intros ops p H. apply (sim_trace_fresh (pstep W) always (p_prim W) (p_build W) (PCoh W)); auto using all_ok_always.
    - intros s o Hs _. apply pstep_coh. exact Hs.
    - intros s _. apply p_build_coh.
    - intros s1 s2 o H1 H2 E _. apply p_sim; assumption.
  Qed.

  (* --- obstacles *)
  Theorem obst_inv_reachable : forall ops o, OInv W o -> all_ok (ostep W) (o_ok W) ops o = true ->
    OInv W (run (ostep W) ops o).
  Proof. intros ops o H Hok. apply (run_inv (ostep W) (o_ok W) (OInv W)); auto. apply ostep_inv. Qed.
  Theorem obst_answers_fresh : forall ops o, OInv W o -> all_ok (ostep W) (o_ok W) ops o = true ->
    trace (ostep W) ops o = ftrace (ostep W) (o_prim W) (o_build W) ops (o_prim W o).
  Proof.
    intros ops o H Hok. apply (sim_trace_fresh (ostep W) (o_ok W) (o_prim W) (o_build W) (OInv W)); auto.
    - apply ostep_inv.
    - apply o_build_of_prim_inv.
    - intros s _. apply o_build_prim.
    - apply o_sim.
  Qed.

  (* --- Lanelet *)
  Theorem lanelet_coh_reachable : forall ops l, LCoh W l -> LCoh W (run (lstep W) ops l).
  Proof.
    intros ops l H. apply (run_inv (lstep W) always (LCoh W)); [|exact H | apply all_ok_always].
    intros s o Hs _. apply lstep_coh. exact Hs.
  Qed.
  Theorem lanelet_answers_fresh : forall ops l, LCoh W l ->
    trace (lstep W) ops l = ftrace (lstep W) (l_prim W) (l_build W) ops (l_prim W l).
  Proof.
    intros ops l H. apply (sim_trace_fresh (lstep W) always (l_prim W) (l_build W) (LCoh W)); auto using all_ok_always.
    - intros s o Hs _. apply lstep_coh. exact Hs.
    - intros s _. apply l_build_coh.
    - intros s1 s2 o H1 H2 E _. apply l_sim; assumption.
  Qed.

  (* --- TrafficLightCycle *)
  Theorem cycle_coh_reachable : forall ops c, CCoh W c -> CCoh W (run (cstep W) ops c).
  Proof.
    intros ops c H. apply (run_inv (cstep W) always (CCoh W)); [|exact H | apply all_ok_always].
    intros s o Hs _. apply cstep_coh. exact Hs.
  Qed.
  Theorem cycle_answers_fresh : forall ops c, CCoh W c ->
    trace (cstep W) ops c = ftrace (cstep W) (c_prim W) (c_build W) ops (c_prim W c).
  Proof.
    intros ops c H. apply (sim_trace_fresh (cstep W) always (c_prim W) (c_build W) (CCoh W)); auto using all_ok_always.
    - intros s o Hs _. apply cstep_coh. exact Hs.
    - intros s _. apply c_build_coh.
    - intros s1 s2 o H1 H2 E _. apply c_sim; assumption.
  Qed.

  (* --- LaneletNetwork *)
  Theorem net_coh_reachable : forall ops n, NCoh W n -> all_ok (nstep W) (n_ok W) ops n = true ->
    NCoh W (run (nstep W) ops n).
  Proof. intros ops n H Hok. apply (run_inv (nstep W) (n_ok W) (NCoh W)); auto. apply nstep_inv. Qed.
  Theorem net_answers_fresh : forall ops n, NCoh W n -> all_ok (nstep W) (n_ok W) ops n = true ->
    trace (nstep W) ops n = ftrace (nstep W) (n_prim W) (n_build W) ops (n_prim W n).
  Proof.
    intros ops n H Hok. apply (sim_trace_fresh (nstep W) (n_ok W) (n_prim W) (n_build W) (NCoh W)); auto.
    - apply nstep_inv.
    - intros s _. apply n_build_coh.
    - apply n_build_prim.
    - apply n_sim.
  Qed.

  (* --- Scenario *)
  Theorem scen_coh_reachable : forall ops s, SCoh W s -> all_ok (sstep W) (s_ok W) ops s = true ->
    SCoh W (run (sstep W) ops s).
  Proof. intros ops s H Hok. apply (run_inv (sstep W) (s_ok W) (SCoh W)); auto. apply sstep_inv. Qed.
  Theorem scen_answers_fresh : forall ops s, SCoh W s -> all_ok (sstep W) (s_ok W) ops s = true ->
    trace (sstep W) ops s = ftrace (sstep W) (s_prim W) (s_build W) ops (s_prim W s).
  Proof.
    intros ops s H Hok. apply (sim_trace_fresh (sstep W) (s_ok W) (s_prim W) (s_build W) (SCoh W)); auto.
    - apply sstep_inv.
    - apply s_build_coh.
    - apply s_build_prim.
    - apply s_sim.
  Qed.
  (* the form of the property statement *)
  Theorem scen_query_after_history : forall ops q s, SCoh W s -> all_ok (sstep W) (s_ok W) (ops ++ [q]) s = true ->
    snd (sstep W (run (sstep W) ops s) q) = snd (sstep W (s_build W (s_prim W (run (sstep W) ops s))) q).
  Proof.
    intros ops q s H Hok. apply (sim_query_after_run (sstep W) (s_ok W) (s_prim W) (s_build W) (SCoh W)); auto.
    - apply sstep_inv.
    - apply s_build_coh.
    - apply s_build_prim.
    - apply s_sim.
  Qed.

  (* --- the three repaired mutators re-establish coherence whatever the caches held before *)
  Theorem pred_move_any : forall p m, PCoh W (fst (pstep W p (PMove W m))).
  Proof. intros p m c H. unfold pstep in H; simpl in H. discriminate. Qed.
  Theorem cycle_setters_any : forall c e k,
    CCoh W (fst (cstep W c (CSetElems W e))) /\ CCoh W (fst (cstep W c (CSetOffset W k))).
  Proof. intros c e k. split; intros x H; unfold cstep in H; simpl in H; discriminate. Qed.
  Theorem net_move_index : forall n m,
    n_buffered W (n_move W n m) = map (entry W) (n_lanelets W (n_move W n m)) /\
    n_tree W (n_move W n m) = Some (n_buffered W (n_move W n m)) /\
    Forall (LCoh W) (n_lanelets W (n_move W n m)).
  Proof.
    intros n m. unfold n_move, create_tree; simpl. repeat split.
    apply Forall_forall. intros l Hl. apply in_map_iff in Hl. destruct Hl as [l0 [E _]]. subst l.
    apply l_set_verts_coh.
  Qed.
  Theorem lanelet_move_any : forall l m, LCoh W (fst (lstep W l (LMove W m))) /\ LCoh W (fst (lstep W l (LConv2d W))).
  Proof. intros l m. split; apply l_set_verts_coh. Qed.
  (* the vertex setters (whatever caches the lanelet held before) *)
  Theorem lanelet_set_verts_any : forall l v,
    LCoh W (fst (lstep W l (LSetVerts W v))) /\
    snd (lstep W (fst (lstep W l (LSetVerts W v))) (LQDist W)) = LRDists W (dist_of W v) /\
    snd (lstep W (fst (lstep W l (LSetVerts W v))) (LQPoly W)) = LRRing W (poly_of W v).
  Proof. intros l v. split; [apply l_set_verts_coh | split; reflexivity]. Qed.

  (* --- update_initial_state *)
  Theorem update_initial_state_spec : forall o cur sg cen shp m, 0 < m ->
    let o' := fst (ostep W o (OUpdateInit W cur sg cen shp m)) in
    let d := o_data W o in let d' := o_data W o' in
    d_hist W d' = lastn m (d_hist W d ++ [d_init W d]) /\
    d_init W d' = cur /\ d_sig W d' = sg /\ o_pred W o' = PNone W /\
    o_init_occ W o' = oshape_of W (d_shape W d') cur /\
    (length (d_sighist W d) = length (d_hist W d) -> length (d_cenhist W d) = length (d_hist W d) ->
     length (d_shphist W d) = length (d_hist W d) ->
     d_sighist W d' = lastn m (d_sighist W d ++ [d_sig W d]) /\
     d_cenhist W d' = lastn m (d_cenhist W d ++ [d_cen W d]) /\
     d_shphist W d' = lastn m (d_shphist W d ++ [d_shp W d]) /\
     length (d_hist W d') = Nat.min m (S (length (d_hist W d))) /\
     length (d_sighist W d') = length (d_hist W d') /\ length (d_cenhist W d') = length (d_hist W d') /\
     length (d_shphist W d') = length (d_hist W d')).
  Proof.
    intros o cur sg cen shp m Hm. unfold ostep. apply Nat.ltb_lt in Hm. rewrite Hm. cbn [fst o_data o_pred o_init_occ].
    destruct (update_init_histories (o_data W o) cur sg cen shp m) as [H0 [H1 [H2 H3]]].
    split; [exact H0|]. repeat (split; [reflexivity|]). intros L1 L2 L3.
    split; [exact (H1 L1)|]. split; [exact (H2 L2)|]. split; [exact (H3 L3)|].
    apply update_init_lengths; assumption.
  Qed.
  Theorem update_initial_state_rejects : forall o cur sg cen shp,
    ostep W o (OUpdateInit W cur sg cen shp 0) = (o, ORErr W AssertionError).
  Proof. reflexivity. Qed.
End Proofs.
