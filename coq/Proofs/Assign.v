(* Proofs/Assign.v — lemmas about Model/Assign.v (C07). *)
From Coq Require Import ZArith Bool List Lia.
From CR Require Import Model.Assign.
Import ListNotations.
Open Scope Z_scope.

(* ================================================================== containers *)
Lemma memZ_In x l : memZ x l = true <-> In x l.
Proof.
  unfold memZ. rewrite existsb_exists. split.
  - intros [y [H E]]. apply Z.eqb_eq in E. subst. exact H.
  - intro H. exists x. split; [exact H | apply Z.eqb_refl].
Qed.
Lemma memZ_false x l : memZ x l = false <-> ~ In x l.
Proof. rewrite <- memZ_In. destruct (memZ x l); split; congruence. Qed.

Lemma set_add_In x o l : In x (set_add o l) <-> x = o \/ In x l.
Proof.
  unfold set_add. destruct (memZ o l) eqn:E.
  - apply memZ_In in E. split; [auto | intros [H|H]; subst; auto].
  - simpl. split; intros [H|H]; auto.
Qed.
Lemma set_discard_In x o l : In x (set_discard o l) <-> In x l /\ x <> o.
Proof.
  unfold set_discard. rewrite filter_In, negb_true_iff, Z.eqb_neq. tauto.
Qed.

Lemma upd_same {A} (f : Z -> A) k v : upd f k v k = v.
Proof. unfold upd. rewrite Z.eqb_refl. reflexivity. Qed.
Lemma upd_other {A} (f : Z -> A) k v x : x <> k -> upd f k v x = f x.
Proof. unfold upd. intro H. apply Z.eqb_neq in H. rewrite H. reflexivity. Qed.

(* ---- static registry *)
Lemma sreg_add_all_mem o ids : forall sr l x,
  In x (sreg_add_all o ids sr l) <-> In x (sr l) \/ (x = o /\ In l ids).
Proof.
  induction ids as [|a r IH]; intros sr l x; simpl.
  - tauto.
  - unfold sreg_add_all in *. simpl. rewrite IH. unfold sreg_add at 1.
    destruct (Z.eq_dec l a) as [E|E].
    + subst. rewrite upd_same, set_add_In. tauto.
    + rewrite upd_other by exact E. split; intros [H|[H1 H2]]; auto.
      destruct H2; [congruence | auto].
Qed.
Lemma sreg_discard_all_mem o ids : forall sr l x,
  In x (sreg_discard_all o ids sr l) <-> In x (sr l) /\ ~ (x = o /\ In l ids).
Proof.
  induction ids as [|a r IH]; intros sr l x; simpl.
  - tauto.
  - unfold sreg_discard_all in *. simpl. rewrite IH. unfold sreg_discard at 1.
    destruct (Z.eq_dec l a) as [E|E].
    + subst. rewrite upd_same, set_discard_In. tauto.
    + rewrite upd_other by exact E. split; intros [H1 H2]; split; auto; intros [H3 H4]; apply H2; split; auto.
      destruct H4; [congruence | auto].
Qed.

(* ---- dynamic registry *)
Definition dm (dr : Z -> Z -> option (list Z)) (l t x : Z) : Prop :=
  match dr l t with Some r => In x r | None => False end.

Lemma dreg_add_mem o t dr a l' t' x :
  dm (dreg_add o t dr a) l' t' x <-> dm dr l' t' x \/ (x = o /\ t' = t /\ l' = a).
Proof.
  unfold dreg_add, dm.
  destruct (Z.eq_dec l' a) as [E|E].
  - subst. rewrite upd_same. destruct (Z.eq_dec t' t) as [Et|Et].
    + subst. rewrite upd_same, set_add_In. destruct (dr a t); simpl; tauto.
    + rewrite upd_other by exact Et. tauto.
  - rewrite upd_other by exact E. tauto.
Qed.
Lemma dreg_discard_mem o t dr a l' t' x :
  dm (dreg_discard o t dr a) l' t' x <-> dm dr l' t' x /\ ~ (x = o /\ t' = t /\ l' = a).
Proof.
  unfold dreg_discard, dm. destruct (dr a t) as [r|] eqn:Er.
  - destruct (Z.eq_dec l' a) as [E|E].
    + subst. rewrite upd_same. destruct (Z.eq_dec t' t) as [Et|Et].
      * subst. rewrite upd_same, Er, set_discard_In. tauto.
      * rewrite upd_other by exact Et. tauto.
    + rewrite upd_other by exact E. tauto.
  - split; [|tauto]. intro H. split; [exact H|]. intros [H1 [H2 H3]]. subst. rewrite Er in H. exact H.
Qed.

Lemma dreg_add_all_mem o t ids : forall dr l' t' x,
  dm (dreg_add_all o t ids dr) l' t' x <-> dm dr l' t' x \/ (x = o /\ t' = t /\ In l' ids).
Proof.
  induction ids as [|a r IH]; intros dr l' t' x; simpl.
  - tauto.
  - unfold dreg_add_all in *. simpl. rewrite IH, dreg_add_mem. intuition (subst; auto).
Qed.
Lemma dreg_discard_all_mem o t ids : forall dr l' t' x,
  dm (dreg_discard_all o t ids dr) l' t' x <-> dm dr l' t' x /\ ~ (x = o /\ t' = t /\ In l' ids).
Proof.
  induction ids as [|a r IH]; intros dr l' t' x; simpl.
  - tauto.
  - unfold dreg_discard_all in *. simpl. rewrite IH, dreg_discard_mem. intuition (subst; auto).
Qed.
Lemma dreg_add_dict_mem o d : forall dr l' t' x,
  dm (dreg_add_dict o d dr) l' t' x <-> dm dr l' t' x \/ (x = o /\ exists ids, In (t', ids) d /\ In l' ids).
Proof.
  induction d as [|[t ids] r IH]; intros dr l' t' x; simpl.
  - split; [auto | intros [H|[_ [ids [[] _]]]]; exact H].
  - unfold dreg_add_dict in *. simpl. rewrite IH, dreg_add_all_mem. split.
    + intros [[H|[H1 [H2 H3]]]|[H1 [ids' [H2 H3]]]]; auto.
      * right. split; [exact H1|]. exists ids. subst. auto.
      * right. split; [exact H1|]. exists ids'. auto.
    + intros [H|[H1 [ids' [[H2|H2] H3]]]]; auto.
      * inversion H2; subst. left. right. auto.
      * right. split; [exact H1|]. exists ids'. auto.
Qed.
Lemma dreg_discard_dict_mem o d : forall dr l' t' x,
  dm (dreg_discard_dict o d dr) l' t' x <->
  dm dr l' t' x /\ ~ (x = o /\ exists ids, In (t', ids) d /\ In l' ids).
Proof.
  induction d as [|[t ids] r IH]; intros dr l' t' x; simpl.
  - split; [intro H; split; [exact H | intros [_ [ids [[] _]]]] | tauto].
  - unfold dreg_discard_dict in *. simpl. rewrite IH, dreg_discard_all_mem. split.
    + intros [[H N1] N2]. split; [exact H|]. intros [H1 [ids' [[H2|H2] H3]]].
      * inversion H2; subst. apply N1. auto.
      * apply N2. split; [exact H1|]. exists ids'. auto.
    + intros [H N]. split; [split; [exact H|]|].
      * intros [H1 [H2 H3]]. apply N. split; [exact H1|]. exists ids. subst. auto.
      * intros [H1 [ids' [H2 H3]]]. apply N. split; [exact H1|]. exists ids'. auto.
Qed.

(* ---- dictionaries *)
Lemma dset_In t v d k w : In (k, w) (dset t v d) -> (k = t /\ w = v) \/ In (k, w) d.
Proof.
  induction d as [|[k' v'] r IH]; simpl.
  - intros [H|[]]. inversion H. auto.
  - destruct (Z.eqb k' t) eqn:E; simpl.
    + intros [H|H]; [inversion H; auto | auto].
    + intros [H|H]; [auto | destruct (IH H); auto].
Qed.
Lemma dset_In_new t v d : In (t, v) (dset t v d).
Proof.
  induction d as [|[k' v'] r IH]; simpl; [auto|].
  destruct (Z.eqb k' t); simpl; auto.
Qed.
Lemma dset_In_other t v d k w : k <> t -> In (k, w) d -> In (k, w) (dset t v d).
Proof.
  intro Hk. induction d as [|[k' v'] r IH]; simpl; [tauto|].
  destruct (Z.eqb k' t) eqn:E; simpl.
  - apply Z.eqb_eq in E. intros [H|H]; [inversion H; subst; congruence | auto].
  - intros [H|H]; auto.
Qed.
Lemma dget_In t d v : dget t d = Some v -> In (t, v) d.
Proof.
  induction d as [|[k v'] r IH]; simpl; [discriminate|].
  destruct (Z.eqb k t) eqn:E.
  - apply Z.eqb_eq in E. intro H. inversion H; subst. auto.
  - auto.
Qed.
Lemma In_dget t d v : In (t, v) d -> exists w, dget t d = Some w.
Proof.
  induction d as [|[k v'] r IH]; simpl; [tauto|].
  destruct (Z.eqb k t) eqn:E; [eauto|].
  intros [H|H]; [inversion H; subst; rewrite Z.eqb_refl in E; discriminate | auto].
Qed.

(* ================================================================== the invariant *)
Section Inv.
  Variable W : world.

  Definition smem (s : st) (l o : Z) : Prop := In o (sreg s l).
  Definition dmem (s : st) (l t o : Z) : Prop := dm (dreg s) l t o.
  (* the stored assignments, read as relations *)
  Definition sshape (s : st) (o l : Z) : Prop := In l (opt_ids (ish s o)).
  Definition scentre (s : st) (o l : Z) : Prop := In l (opt_ids (ic s o)).
  Definition dict_at (d : option dict) (t l : Z) : Prop := exists ids, In (t, ids) (opt_dict d) /\ In l ids.
  Definition shape_at (s : st) (o t l : Z) : Prop :=
    (t = t0 W o /\ sshape s o l) \/ (tf W o <> None /\ dict_at (sa s o) t l).
  Definition centre_at (s : st) (o t l : Z) : Prop :=
    (t = t0 W o /\ scentre s o l) \/ (tf W o <> None /\ dict_at (ca s o) t l).

  (* strict = true: a registry entry always comes from the stored shape assignment;
     strict = false (histories with use_center_only=True): from the shape or the centre assignment.
     P: obstacles a file reader has created and not yet added to the scenario (a predicate). *)
  Definition none : Z -> Prop := fun _ => False.
  Record Inv (strict : bool) (P : Z -> Prop) (s : st) : Prop := {
    truth_ish : forall o ids, ish s o = Some ids -> ids = sm W o (t0 W o);
    truth_ic : forall o ids, ic s o = Some ids -> ids = cin W o (t0 W o);
    truth_sa : forall o d t ids, sa s o = Some d -> In (t, ids) d -> ids = sm W o t;
    truth_ca : forall o d t ids, ca s o = Some d -> In (t, ids) d -> ids = cin W o t;
    kind_s : forall o, In o (statics s) -> kind W o = Static;
    kind_d : forall o, In o (dynamics s) -> kind W o = Dynamic;
    s_complete : forall o l, In o (statics s) -> sshape s o l -> smem s l o;
    d_complete : forall o t l, In o (dynamics s) -> shape_at s o t l -> dmem s l t o;
    s_sound : forall o l, smem s l o ->
      (In o (statics s) \/ (P o /\ kind W o = Static)) /\ (sshape s o l \/ (strict = false /\ scentre s o l));
    d_sound : forall o t l, dmem s l t o ->
      (In o (dynamics s) \/ (P o /\ kind W o = Dynamic)) /\ (shape_at s o t l \/ (strict = false /\ centre_at s o t l))
  }.

  Lemma inv_init strict : Inv strict none init.
  Proof.
    constructor; unfold init, smem, dmem, dm, sshape, shape_at, dict_at; simpl; try discriminate; try tauto.
  Qed.

  Lemma okind_dec (a b : okind) : {a = b} + {a <> b}.
  Proof. decide equality. Qed.

  (* ---- add_objects(obstacle) *)
  Lemma add_obstacle_inv strict P s o : Inv strict P s -> Inv strict P (add_obstacle W o s).
  Proof.
    intro I. unfold add_obstacle. destruct (kind W o) eqn:K.
    - (* static *)
      constructor; unfold add_static_to_lanelets, with_regs, smem, dmem, shape_at, centre_at, sshape, scentre; simpl.
      + apply (truth_ish _ _ _ I). + apply (truth_ic _ _ _ I). + apply (truth_sa _ _ _ I). + apply (truth_ca _ _ _ I).
      + intros x [H|H]; [subst; exact K | apply (kind_s _ _ _ I); exact H].
      + apply (kind_d _ _ _ I).
      + intros x l Hx Hs. rewrite sreg_add_all_mem. destruct Hx as [Hx|Hx].
        * subst. right. split; [reflexivity | exact Hs].
        * left. apply (s_complete _ _ _ I); assumption.
      + apply (d_complete _ _ _ I).
      + intros x l Hm. rewrite sreg_add_all_mem in Hm. destruct Hm as [Hm|[Hx Hl]].
        * destruct (s_sound _ _ _ I x l Hm) as [[H1|H1] H2]; split; auto.
        * subst. split; auto.
      + apply (d_sound _ _ _ I).
    - (* dynamic *)
      assert (HM : forall l t x,
                 dm (match tf W o with
                     | Some _ => dreg_add_dict o (opt_dict (sa s o)) (dreg_add_all o (t0 W o) (opt_ids (ish s o)) (dreg s))
                     | None => dreg_add_all o (t0 W o) (opt_ids (ish s o)) (dreg s)
                     end) l t x <-> dm (dreg s) l t x \/ (x = o /\ shape_at s o t l)).
      { intros l t x. unfold shape_at, sshape, dict_at. destruct (tf W o) eqn:F.
        - rewrite dreg_add_dict_mem, dreg_add_all_mem. split.
          + intros [[H|[H1 [H2 H3]]]|[H1 H2]]; auto. right. split; auto. right. split; [congruence | exact H2].
          + intros [H|[H1 [[H2 H3]|[_ H2]]]]; auto.
        - rewrite dreg_add_all_mem. split.
          + intros [H|[H1 [H2 H3]]]; auto.
          + intros [H|[H1 [[H2 H3]|[H2 _]]]]; auto. congruence. }
      constructor; unfold add_dynamic_to_lanelets, with_regs, smem, dmem; simpl.
      + apply (truth_ish _ _ _ I). + apply (truth_ic _ _ _ I). + apply (truth_sa _ _ _ I). + apply (truth_ca _ _ _ I).
      + apply (kind_s _ _ _ I).
      + intros x [H|H]; [subst; exact K | apply (kind_d _ _ _ I); exact H].
      + apply (s_complete _ _ _ I).
      + intros x t l Hx Hs. apply HM. destruct Hx as [Hx|Hx].
        * subst. right. split; [reflexivity | exact Hs].
        * left. apply (d_complete _ _ _ I); assumption.
      + apply (s_sound _ _ _ I).
      + intros x t l Hm. apply HM in Hm. destruct Hm as [Hm|[Hx Hs]].
        * destruct (d_sound _ _ _ I x t l Hm) as [[H1|H1] H2]; split; auto.
        * subst. split; auto.
  Qed.

  (* ---- remove_obstacle *)
  Lemma del_In x o l : In x (del o l) <-> In x l /\ x <> o.
  Proof. unfold del. rewrite filter_In, negb_true_iff, Z.eqb_neq. tauto. Qed.

  Lemma remove_obstacle_inv strict s o : Inv strict none s -> Inv strict none (fst (remove_obstacle W o s)).
  Proof.
    intro I. unfold remove_obstacle.
    destruct (memZ o (statics s)) eqn:Ms; [|destruct (memZ o (dynamics s)) eqn:Md]; simpl; [| |exact I].
    - (* static *)
      constructor; unfold remove_static_from_lanelets, with_regs, smem, dmem, shape_at, centre_at, sshape, scentre; simpl.
      + apply (truth_ish _ _ _ I). + apply (truth_ic _ _ _ I). + apply (truth_sa _ _ _ I). + apply (truth_ca _ _ _ I).
      + intros x Hx. apply del_In in Hx. apply (kind_s _ _ _ I). tauto.
      + apply (kind_d _ _ _ I).
      + intros x l Hx Hs. apply del_In in Hx. destruct Hx as [Hx Hne].
        rewrite !sreg_discard_all_mem. split; [split|]; try (intros [H _]; congruence).
        apply (s_complete _ _ _ I); assumption.
      + apply (d_complete _ _ _ I).
      + intros x l Hm. rewrite !sreg_discard_all_mem in Hm. destruct Hm as [[Hm N1] N2].
        destruct (s_sound _ _ _ I x l Hm) as [[H1|[[] _]] H2]. split; [|exact H2].
        left. apply del_In. split; [exact H1|]. intro E. subst.
        destruct H2 as [H2|[_ H2]]; [apply N1 | apply N2]; split; auto.
      + apply (d_sound _ _ _ I).
    - (* dynamic *)
      assert (HM : forall l t x,
        dm (match tf W o with
            | Some _ => dreg_discard_dict o (opt_dict (ca s o)) (dreg_discard_dict o (opt_dict (sa s o))
                          (dreg_discard_all o (t0 W o) (opt_ids (ic s o)) (dreg_discard_all o (t0 W o) (opt_ids (ish s o)) (dreg s))))
            | None => dreg_discard_all o (t0 W o) (opt_ids (ic s o)) (dreg_discard_all o (t0 W o) (opt_ids (ish s o)) (dreg s))
            end) l t x <-> dm (dreg s) l t x /\ ~ (x = o /\ (shape_at s o t l \/ centre_at s o t l))).
      { intros l t x. unfold shape_at, centre_at, sshape, scentre, dict_at. destruct (tf W o) eqn:F.
        - rewrite !dreg_discard_dict_mem, !dreg_discard_all_mem. split.
          + intros [[[[H N1] N2] N3] N4]. split; [exact H|]. intros [Hx [[[H1 H2]|[_ H2]]|[[H1 H2]|[_ H2]]]]; tauto.
          + intros [H N]. repeat split; try exact H; intros [Hx H2]; apply N; split; try exact Hx.
            * left. left. tauto. * right. left. tauto.
            * left. right. split; [congruence | exact H2].
            * right. right. split; [congruence | exact H2].
        - rewrite !dreg_discard_all_mem. split.
          + intros [[H N1] N2]. split; [exact H|]. intros [Hx [[[H1 H2]|[H1 _]]|[[H1 H2]|[H1 _]]]]; try congruence; tauto.
          + intros [H N]. repeat split; try exact H; intros [Hx H2]; apply N; split; try exact Hx.
            * left. left. tauto. * right. left. tauto. }
      constructor; unfold remove_dynamic_from_lanelets, with_regs, smem, dmem; simpl.
      + apply (truth_ish _ _ _ I). + apply (truth_ic _ _ _ I). + apply (truth_sa _ _ _ I). + apply (truth_ca _ _ _ I).
      + apply (kind_s _ _ _ I).
      + intros x Hx. apply del_In in Hx. apply (kind_d _ _ _ I). tauto.
      + apply (s_complete _ _ _ I).
      + intros x t l Hx Hs. apply del_In in Hx. destruct Hx as [Hx Hne]. apply HM. split.
        * apply (d_complete _ _ _ I); assumption.
        * intros [E _]. congruence.
      + apply (s_sound _ _ _ I).
      + intros x t l Hm. apply HM in Hm. destruct Hm as [Hm N].
        destruct (d_sound _ _ _ I x t l Hm) as [[H1|[[] _]] H2]. split; [|exact H2].
        left. apply del_In. split; [exact H1|]. intro E. subst. apply N. split; [reflexivity|]. tauto.
  Qed.

  (* removing a contained (or any) obstacle never raises, and afterwards no registry mentions it *)
  Lemma remove_obstacle_done s o : snd (remove_obstacle W o s) = Done.
  Proof. unfold remove_obstacle. destruct (memZ o (statics s)); [|destruct (memZ o (dynamics s))]; reflexivity. Qed.

  Lemma NoDup_del_notin o l : ~ In o (del o l).
  Proof. intro H. apply del_In in H. tauto. Qed.

  Lemma remove_clears strict s o : Inv strict none s ->
    let s' := fst (remove_obstacle W o s) in
    (memZ o (statics s) || memZ o (dynamics s) = true) ->
    (forall l, ~ smem s' l o) /\ (forall l t, ~ dmem s' l t o) /\ ~ In o (statics s') /\ ~ In o (dynamics s').
  Proof.
    intros I s' Hp. pose proof (remove_obstacle_inv strict s o I) as I'. fold s' in I'.
    assert (Hn : ~ In o (statics s') /\ ~ In o (dynamics s')).
    { unfold s', remove_obstacle.
      destruct (memZ o (statics s)) eqn:Ms; [|destruct (memZ o (dynamics s)) eqn:Md]; simpl in *; try discriminate.
      - split; [apply NoDup_del_notin|]. intro H. apply memZ_In in Ms.
        pose proof (kind_s _ _ _ I o Ms). pose proof (kind_d _ _ _ I o H). congruence.
      - split; [|apply NoDup_del_notin]. apply memZ_false. exact Ms. }
    destruct Hn as [N1 N2]. repeat split; try assumption.
    - intros l H. destruct (s_sound _ _ _ I' o l H) as [[H1|[[] _]] _]. contradiction.
    - intros l t H. destruct (d_sound _ _ _ I' o t l H) as [[H1|[[] _]] _]. contradiction.
  Qed.

  (* ---- assign_obstacles_to_lanelets: a static obstacle *)
  Lemma opt_ids_truth_ish strict P s o l : Inv strict P s -> In l (opt_ids (ish s o)) -> In l (sm W o (t0 W o)).
  Proof.
    intros I H. destruct (ish s o) as [ids|] eqn:E; simpl in H; [|contradiction].
    rewrite <- (truth_ish _ _ _ I o ids E). exact H.
  Qed.
  Lemma opt_ids_truth_ic strict P s o l : Inv strict P s -> In l (opt_ids (ic s o)) -> In l (cin W o (t0 W o)).
  Proof.
    intros I H. destruct (ic s o) as [ids|] eqn:E; simpl in H; [|contradiction].
    rewrite <- (truth_ic _ _ _ I o ids E). exact H.
  Qed.

  Lemma assign_static_inv strict P s c o :
    Inv strict P s -> In o (statics s) -> (strict = true -> c = false) ->
    Inv strict P (assign_static W c o s).
  Proof.
    intros I Ho Hc.
    assert (Kd : forall x, In x (dynamics s) \/ (P x /\ kind W x = Dynamic) -> x <> o).
    { intros x [Hx|[_ Hx]] E; subst; [pose proof (kind_d _ _ _ I o Hx)|]; pose proof (kind_s _ _ _ I o Ho); congruence. }
    constructor; unfold assign_static, smem, dmem, shape_at, centre_at, sshape, scentre; simpl.
    - intros x ids. destruct c; [apply (truth_ish _ _ _ I)|]. unfold upd. destruct (Z.eqb x o) eqn:E.
      + apply Z.eqb_eq in E. subst. intro H. inversion H. reflexivity.
      + apply (truth_ish _ _ _ I).
    - intros x ids. unfold upd. destruct (Z.eqb x o) eqn:E.
      + apply Z.eqb_eq in E. subst. intro H. inversion H. reflexivity.
      + apply (truth_ic _ _ _ I).
    - apply (truth_sa _ _ _ I).
    - apply (truth_ca _ _ _ I).
    - apply (kind_s _ _ _ I).
    - apply (kind_d _ _ _ I).
    - intros x l Hx Hs. rewrite sreg_add_all_mem. destruct (Z.eq_dec x o) as [E|E].
      + subst. destruct c.
        * left. apply (s_complete _ _ _ I); assumption.
        * rewrite upd_same in Hs. simpl in Hs. right. auto.
      + left. apply (s_complete _ _ _ I); [exact Hx|]. unfold sshape. destruct c; [exact Hs|].
        rewrite upd_other in Hs by exact E. exact Hs.
    - intros x t l Hx Hs. apply (d_complete _ _ _ I); [exact Hx|].
      assert (E : x <> o) by (apply Kd; auto).
      unfold shape_at, sshape. destruct c; simpl in *; [exact Hs|]. rewrite upd_other in Hs by exact E. exact Hs.
    - intros x l Hm. rewrite sreg_add_all_mem in Hm. destruct (Z.eq_dec x o) as [E|E].
      + subst. split; [auto|]. rewrite !upd_same. simpl.
        destruct Hm as [Hm|[_ Hl]].
        * destruct (s_sound _ _ _ I o l Hm) as [_ [H2|[H2 H3]]].
          -- destruct c; [left; exact H2|]. rewrite upd_same. simpl. left. eapply opt_ids_truth_ish; eauto.
          -- right. split; [exact H2|]. eapply opt_ids_truth_ic; eauto.
        * destruct c.
          -- right. split; [|exact Hl]. destruct strict; [specialize (Hc eq_refl); discriminate | reflexivity].
          -- rewrite upd_same. simpl. left. exact Hl.
      + destruct Hm as [Hm|[Hx _]]; [|contradiction].
        destruct (s_sound _ _ _ I x l Hm) as [H1 H2]. split; [exact H1|].
        rewrite upd_other by exact E. destruct c; simpl in *; [exact H2|]. rewrite upd_other by exact E. exact H2.
    - intros x t l Hm. destruct (d_sound _ _ _ I x t l Hm) as [H1 H2]. split; [exact H1|].
      assert (E : x <> o) by (apply Kd; exact H1).
      rewrite upd_other by exact E. destruct c; simpl in *; [exact H2|]. rewrite upd_other by exact E. exact H2.
  Qed.

  (* ---- assign_obstacles_to_lanelets: a dynamic obstacle at one time step *)
  Lemma dict_truth_sa strict P s o t l : Inv strict P s -> dict_at (sa s o) t l -> In l (sm W o t).
  Proof.
    intros I [ids [H1 H2]]. destruct (sa s o) as [d|] eqn:E; simpl in H1; [|contradiction].
    rewrite <- (truth_sa _ _ _ I o d t ids E H1). exact H2.
  Qed.
  Lemma dict_truth_ca strict P s o t l : Inv strict P s -> dict_at (ca s o) t l -> In l (cin W o t).
  Proof.
    intros I [ids [H1 H2]]. destruct (ca s o) as [d|] eqn:E; simpl in H1; [|contradiction].
    rewrite <- (truth_ca _ _ _ I o d t ids E H1). exact H2.
  Qed.
  Lemma dict_at_dset_new d t v l : In l v -> dict_at (Some (dset t v d)) t l.
  Proof. intro H. exists v. split; [apply dset_In_new | exact H]. Qed.
  Lemma dict_at_dset_keep (d : option dict) t v t' l :
    dict_at d t' l -> (t' = t -> In l v) -> dict_at (Some (dset t v (opt_dict d))) t' l.
  Proof.
    intros [ids [H1 H2]] Hv. destruct (Z.eq_dec t' t) as [E|E].
    - subst. apply dict_at_dset_new. auto.
    - exists ids. split; [apply dset_In_other; assumption | exact H2].
  Qed.
  Lemma dict_at_dset_inv (d : option dict) t v t' l :
    dict_at (Some (dset t v (opt_dict d))) t' l -> (t' = t /\ In l v) \/ dict_at d t' l.
  Proof.
    intros [ids [H1 H2]]. simpl in H1. apply dset_In in H1. destruct H1 as [[E1 E2]|H1].
    - subst. auto.
    - right. exists ids. auto.
  Qed.

  Lemma assign_dyn_go_inv strict P s c o t :
    Inv strict P s -> In o (dynamics s) -> (strict = true -> c = false) -> (t = t0 W o \/ tf W o <> None) ->
    Inv strict P (assign_dyn_go W c o t s).
  Proof.
    intros I Ho Hc Ht.
    assert (Ks : forall x, In x (statics s) \/ (P x /\ kind W x = Static) -> x <> o).
    { intros x [Hx|[_ Hx]] E; subst; [pose proof (kind_s _ _ _ I o Hx)|]; pose proof (kind_d _ _ _ I o Ho); congruence. }
    (* how the stored relations of obstacle o change; those of other obstacles do not *)
    set (s' := assign_dyn_go W c o t s).
    assert (Hother_sh : forall x t' l, x <> o -> (shape_at s' x t' l <-> shape_at s x t' l)).
    { intros x t' l E. unfold shape_at, sshape, s', assign_dyn_go; simpl.
      destruct (Z.eqb t (t0 W o) && negb c); destruct c; destruct (tf W o); rewrite ?upd_other by exact E; tauto. }
    assert (Hother_ce : forall x t' l, x <> o -> (centre_at s' x t' l <-> centre_at s x t' l)).
    { intros x t' l E. unfold centre_at, scentre, s', assign_dyn_go; simpl.
      destruct (Z.eqb t (t0 W o)); destruct (tf W o); rewrite ?upd_other by exact E; tauto. }
    assert (Hother_ss : forall x l, x <> o -> (sshape s' x l <-> sshape s x l)).
    { intros x l E. unfold sshape, s', assign_dyn_go; simpl.
      destruct (Z.eqb t (t0 W o) && negb c); rewrite ?upd_other by exact E; tauto. }
    assert (Hother_sc : forall x l, x <> o -> (scentre s' x l <-> scentre s x l)).
    { intros x l E. unfold scentre, s', assign_dyn_go; simpl.
      destruct (Z.eqb t (t0 W o)); rewrite ?upd_other by exact E; tauto. }
    (* old relations of o survive (stored values are the oracle values) *)
    assert (Hkeep_sh : forall t' l, shape_at s o t' l -> shape_at s' o t' l).
    { intros t' l [[H1 H2]|[H1 H2]]; unfold shape_at, sshape, s', assign_dyn_go; simpl.
      - left. split; [exact H1|]. destruct (Z.eqb t (t0 W o)) eqn:E0; destruct c; simpl; try exact H2.
        rewrite upd_same. simpl. apply Z.eqb_eq in E0. rewrite E0. eapply opt_ids_truth_ish; eauto.
      - right. split; [exact H1|]. destruct c; [exact H2|]. destruct (tf W o); [|congruence].
        rewrite upd_same. apply dict_at_dset_keep; [exact H2|]. intro E. subst. eapply dict_truth_sa; eauto. }
    assert (Hkeep_ce : forall t' l, centre_at s o t' l -> centre_at s' o t' l).
    { intros t' l [[H1 H2]|[H1 H2]]; unfold centre_at, scentre, s', assign_dyn_go; simpl.
      - left. split; [exact H1|]. destruct (Z.eqb t (t0 W o)) eqn:E0; simpl; try exact H2.
        rewrite upd_same. simpl. apply Z.eqb_eq in E0. rewrite E0. eapply opt_ids_truth_ic; eauto.
      - right. split; [exact H1|]. destruct (tf W o); [|congruence].
        rewrite upd_same. apply dict_at_dset_keep; [exact H2|]. intro E. subst. eapply dict_truth_ca; eauto. }
    (* the relations of o are the old ones plus the new entry *)
    assert (Hnew_sh : forall t' l, shape_at s' o t' l -> shape_at s o t' l \/ (c = false /\ t' = t /\ In l (sm W o t))).
    { intros t' l [[H1 H2]|[H1 H2]]; unfold shape_at, sshape, s', assign_dyn_go in *; simpl in *.
      - destruct (Z.eqb t (t0 W o)) eqn:E0; destruct c; simpl in H2; try (left; left; split; assumption).
        rewrite upd_same in H2. simpl in H2. apply Z.eqb_eq in E0. right. repeat split; congruence.
      - destruct c; [left; right; split; assumption|]. destruct (tf W o); [|congruence].
        rewrite upd_same in H2. apply dict_at_dset_inv in H2. destruct H2 as [[E1 E2]|H2]; [right; auto | left; right; split; [congruence | exact H2]]. }
    assert (Hadd : forall l, In l (if c then cin W o t else sm W o t) ->
                   (c = false /\ shape_at s' o t l) \/ (c = true /\ centre_at s' o t l)).
    { intros l Hl. destruct c.
      - right. split; [reflexivity|]. unfold centre_at, scentre, s', assign_dyn_go; simpl.
        destruct (tf W o) eqn:F.
        + right. split; [congruence|]. rewrite upd_same. apply dict_at_dset_new. exact Hl.
        + left. destruct Ht as [Ht|Ht]; [|congruence]. split; [exact Ht|]. subst. rewrite Z.eqb_refl, upd_same. exact Hl.
      - left. split; [reflexivity|]. unfold shape_at, sshape, s', assign_dyn_go; simpl.
        destruct (tf W o) eqn:F.
        + right. split; [congruence|]. rewrite upd_same. apply dict_at_dset_new. exact Hl.
        + left. destruct Ht as [Ht|Ht]; [|congruence]. split; [exact Ht|]. subst. rewrite Z.eqb_refl. simpl.
          rewrite upd_same. exact Hl. }
    assert (HM : forall l t' x, dmem s' l t' x <->
                   dmem s l t' x \/ (x = o /\ t' = t /\ In l (if c then cin W o t else sm W o t))).
    { intros. unfold dmem, s', assign_dyn_go; simpl. apply dreg_add_all_mem. }
    constructor.
    - (* truth_ish *) intros x ids. unfold s', assign_dyn_go; simpl.
      destruct (Z.eqb t (t0 W o) && negb c) eqn:E0; [|apply (truth_ish _ _ _ I)].
      unfold upd. destruct (Z.eqb x o) eqn:E; [|apply (truth_ish _ _ _ I)].
      apply Z.eqb_eq in E. apply andb_true_iff in E0. destruct E0 as [E0 E1]. apply Z.eqb_eq in E0.
      destruct c; [discriminate|]. subst. intro H. inversion H. congruence.
    - (* truth_ic *) intros x ids. unfold s', assign_dyn_go; simpl.
      destruct (Z.eqb t (t0 W o)) eqn:E0; [|apply (truth_ic _ _ _ I)].
      unfold upd. destruct (Z.eqb x o) eqn:E; [|apply (truth_ic _ _ _ I)].
      apply Z.eqb_eq in E. apply Z.eqb_eq in E0. subst. intro H. inversion H. congruence.
    - (* truth_sa *) intros x d t' ids. unfold s', assign_dyn_go; simpl.
      destruct c; [apply (truth_sa _ _ _ I)|]. destruct (tf W o); [|apply (truth_sa _ _ _ I)].
      unfold upd. destruct (Z.eqb x o) eqn:E; [|apply (truth_sa _ _ _ I)].
      apply Z.eqb_eq in E. subst. intros H Hin. inversion H; subst. apply dset_In in Hin.
      destruct Hin as [[E1 E2]|Hin]; [subst; reflexivity|].
      destruct (sa s o) as [d0|] eqn:Es; simpl in Hin; [|contradiction]. apply (truth_sa _ _ _ I o d0); assumption.
    - (* truth_ca *) intros x d t' ids. unfold s', assign_dyn_go; simpl.
      destruct (tf W o); [|apply (truth_ca _ _ _ I)].
      unfold upd. destruct (Z.eqb x o) eqn:E; [|apply (truth_ca _ _ _ I)].
      apply Z.eqb_eq in E. subst. intros H Hin. inversion H; subst. apply dset_In in Hin.
      destruct Hin as [[E1 E2]|Hin]; [subst; reflexivity|].
      destruct (ca s o) as [d0|] eqn:Es; simpl in Hin; [|contradiction]. apply (truth_ca _ _ _ I o d0); assumption.
    - apply (kind_s _ _ _ I).
    - apply (kind_d _ _ _ I).
    - (* s_complete *) intros x l Hx Hs. change (In x (statics s)) in Hx.
      assert (E : x <> o) by (apply Ks; auto).
      apply Hother_ss in Hs; [|exact E]. apply (s_complete _ _ _ I); assumption.
    - (* d_complete *) intros x t' l Hx Hs. change (In x (dynamics s)) in Hx. apply HM.
      destruct (Z.eq_dec x o) as [E|E].
      + subst. apply Hnew_sh in Hs. destruct Hs as [Hs|[Hc' [Ht' Hl]]].
        * left. apply (d_complete _ _ _ I); assumption.
        * right. subst. auto.
      + left. apply Hother_sh in Hs; [|exact E]. apply (d_complete _ _ _ I); assumption.
    - (* s_sound *) intros x l Hm. change (smem s l x) in Hm.
      destruct (s_sound _ _ _ I x l Hm) as [H1 H2]. split; [exact H1|].
      assert (E : x <> o) by (apply Ks; exact H1).
      destruct H2 as [H2|[H2 H3]]; [left; apply Hother_ss; assumption | right; split; [exact H2 | apply Hother_sc; assumption]].
    - (* d_sound *) intros x t' l Hm. apply HM in Hm. destruct Hm as [Hm|[Hx [Ht' Hl]]].
      + destruct (d_sound _ _ _ I x t' l Hm) as [H1 H2]. split; [exact H1|].
        destruct (Z.eq_dec x o) as [E|E].
        * subst. destruct H2 as [H2|[H2 H3]]; [left; apply Hkeep_sh; exact H2 | right; split; [exact H2 | apply Hkeep_ce; exact H3]].
        * destruct H2 as [H2|[H2 H3]]; [left; apply Hother_sh; assumption | right; split; [exact H2 | apply Hother_ce; assumption]].
      + subst. split; [left; exact Ho|]. destruct (Hadd l Hl) as [[_ H]|[Hc' H]]; [left; exact H|].
        right. split; [|exact H]. destruct strict; [specialize (Hc eq_refl); congruence | reflexivity].
  Qed.

  Definition same_obstacles (s s' : st) : Prop := statics s' = statics s /\ dynamics s' = dynamics s.

  Lemma assign_dyn_at_inv strict P s c o t :
    Inv strict P s -> In o (dynamics s) -> (strict = true -> c = false) ->
    Inv strict P (fst (assign_dyn_at W c o t s)) /\ same_obstacles s (fst (assign_dyn_at W c o t s)).
  Proof.
    intros I Ho Hc. unfold assign_dyn_at, same_obstacles.
    destruct (Z.eqb t (t0 W o)) eqn:E0.
    - apply Z.eqb_eq in E0. simpl. split; [apply assign_dyn_go_inv; auto | auto].
    - destruct (tf W o) as [f|] eqn:F; [|simpl; auto].
      destruct (Z.ltb f t || Z.ltb t (t0 W o)); [simpl; auto|].
      simpl. split; [apply assign_dyn_go_inv; auto; right; congruence | auto].
  Qed.

  Lemma assign_times_inv strict P c o ts : forall s,
    Inv strict P s -> In o (dynamics s) -> (strict = true -> c = false) ->
    Inv strict P (fst (assign_times W c o ts s)) /\ same_obstacles s (fst (assign_times W c o ts s)).
  Proof.
    induction ts as [|t r IH]; intros s I Ho Hc; simpl; [unfold same_obstacles; auto|].
    destruct (assign_dyn_at_inv strict P s c o t I Ho Hc) as [I1 [S1 S2]].
    destruct (assign_dyn_at W c o t s) as [s1 [|e]]; simpl in *.
    - assert (Ho1 : In o (dynamics s1)) by (rewrite S2; exact Ho).
      destruct (IH s1 I1 Ho1 Hc) as [I2 [S3 S4]]. split; [exact I2|]. unfold same_obstacles. split; congruence.
    - unfold same_obstacles. auto.
  Qed.

  (* a state that differs only in None / empty dictionaries *)
  Lemma inv_same_view strict P s s2 :
    statics s2 = statics s -> dynamics s2 = dynamics s -> ic s2 = ic s -> ish s2 = ish s ->
    sreg s2 = sreg s -> dreg s2 = dreg s ->
    (forall x, opt_dict (ca s2 x) = opt_dict (ca s x)) -> (forall x, opt_dict (sa s2 x) = opt_dict (sa s x)) ->
    Inv strict P s -> Inv strict P s2.
  Proof.
    intros E1 E2 E3 E4 E5 E6 Hca Hsa I.
    constructor; unfold smem, dmem, shape_at, centre_at, sshape, scentre, dict_at;
      rewrite ?E1, ?E2, ?E3, ?E4, ?E5, ?E6.
    - apply (truth_ish _ _ _ I).
    - apply (truth_ic _ _ _ I).
    - intros o d t ids H Hin. specialize (Hsa o). rewrite H in Hsa. simpl in Hsa.
      destruct (sa s o) as [d0|] eqn:E; simpl in Hsa; subst; [apply (truth_sa _ _ _ I o d0); assumption | contradiction].
    - intros o d t ids H Hin. specialize (Hca o). rewrite H in Hca. simpl in Hca.
      destruct (ca s o) as [d0|] eqn:E; simpl in Hca; subst; [apply (truth_ca _ _ _ I o d0); assumption | contradiction].
    - apply (kind_s _ _ _ I).
    - apply (kind_d _ _ _ I).
    - apply (s_complete _ _ _ I).
    - intros o t l Ho Hs. apply (d_complete _ _ _ I); [exact Ho|]. unfold shape_at, sshape, dict_at.
      rewrite <- Hsa. exact Hs.
    - apply (s_sound _ _ _ I).
    - intros o t l Hm. pose proof (d_sound _ _ _ I o t l Hm) as H. unfold shape_at, centre_at, sshape, scentre, dict_at in H.
      rewrite <- Hsa, <- Hca in H. exact H.
  Qed.

  Lemma assign_one_inv strict P ts c o s :
    Inv strict P s -> (In o (statics s) \/ In o (dynamics s)) -> (strict = true -> c = false) ->
    Inv strict P (fst (assign_one W ts c o s)) /\ same_obstacles s (fst (assign_one W ts c o s)).
  Proof.
    intros I Ho Hc. unfold assign_one. destruct (kind W o) eqn:K.
    - destruct Ho as [Ho|Ho]; [|pose proof (kind_d _ _ _ I o Ho); congruence].
      simpl. split; [apply assign_static_inv; assumption | unfold same_obstacles; auto].
    - destruct Ho as [Ho|Ho]; [pose proof (kind_s _ _ _ I o Ho); congruence|].
      match goal with |- context[assign_times W c o ?T ?S1] => set (s1 := S1); set (tl := T) end.
      assert (I1 : Inv strict P s1).
      { unfold s1. destruct (tf W o); [|exact I].
        apply (inv_same_view strict P s); simpl; try reflexivity; try exact I.
        - intro x. destruct (ca s o) eqn:E; [reflexivity|]. unfold upd. destruct (Z.eqb x o) eqn:Ex; [|reflexivity].
          apply Z.eqb_eq in Ex. subst. rewrite E. reflexivity.
        - intro x. destruct c; [reflexivity|]. destruct (sa s o) eqn:E; [reflexivity|]. unfold upd.
          destruct (Z.eqb x o) eqn:Ex; [|reflexivity]. apply Z.eqb_eq in Ex. subst. rewrite E. reflexivity. }
      assert (S1 : same_obstacles s s1) by (unfold s1, same_obstacles; destruct (tf W o); auto).
      destruct S1 as [S1 S2].
      assert (Ho1 : In o (dynamics s1)) by (rewrite S2; exact Ho).
      destruct (assign_times_inv strict P c o tl s1 I1 Ho1 Hc) as [I2 [S3 S4]].
      split; [exact I2|]. unfold same_obstacles. split; congruence.
  Qed.

  Lemma assign_ids_inv strict P ts c ids : forall s,
    Inv strict P s -> (forall o, In o ids -> In o (statics s) \/ In o (dynamics s)) -> (strict = true -> c = false) ->
    Inv strict P (fst (assign_ids W ts c ids s)) /\ same_obstacles s (fst (assign_ids W ts c ids s)).
  Proof.
    induction ids as [|o r IH]; intros s I Hp Hc; simpl; [unfold same_obstacles; auto|].
    destruct (assign_one_inv strict P ts c o s I (Hp o (or_introl eq_refl)) Hc) as [I1 [S1 S2]].
    destruct (assign_one W ts c o s) as [s1 [|e]]; simpl in *.
    - assert (Hp1 : forall x, In x r -> In x (statics s1) \/ In x (dynamics s1)).
      { intros x Hx. rewrite S1, S2. apply Hp. right. exact Hx. }
      destruct (IH s1 I1 Hp1 Hc) as [I2 [S3 S4]]. split; [exact I2|]. unfold same_obstacles. split; congruence.
    - unfold same_obstacles. auto.
  Qed.

  Lemma present_In s o : present s o = true <-> In o (statics s) \/ In o (dynamics s).
  Proof. unfold present. rewrite orb_true_iff, !memZ_In. tauto. Qed.

  Lemma assign_inv strict P ts ids c s :
    Inv strict P s -> ok W s (OAssign ts ids c) = true -> (strict = true -> c = false) ->
    Inv strict P (fst (assign W ts ids c s)).
  Proof.
    intros I Hok Hc. unfold assign. apply assign_ids_inv; try assumption.
    destruct ids as [l|]; simpl in *.
    - intros o Ho. rewrite forallb_forall in Hok. apply present_In. apply Hok. exact Ho.
    - intros o Ho. apply in_app_or in Ho. exact Ho.
  Qed.

  (* ---- the reader-side assignment *)
  Lemma fold_dset_In (f : Z -> list Z) ts : forall d t,
    In t ts \/ In (t, f t) d -> In (t, f t) (fold_left (fun d t => dset t (f t) d) ts d).
  Proof.
    induction ts as [|a r IH]; intros d t H; simpl.
    - destruct H as [[]|H]. exact H.
    - apply IH. destruct H as [[H|H]|H].
      + subst. right. apply dset_In_new.
      + left. exact H.
      + right. destruct (Z.eq_dec t a) as [E|E]; [subst; apply dset_In_new | apply dset_In_other; assumption].
  Qed.
  Lemma fold_dset_truth (f : Z -> list Z) ts : forall d,
    (forall k w, In (k, w) d -> w = f k) ->
    forall k w, In (k, w) (fold_left (fun d t => dset t (f t) d) ts d) -> w = f k.
  Proof.
    induction ts as [|a r IH]; intros d Hd k w; simpl; [apply Hd|].
    apply IH. intros k' w' H. apply dset_In in H. destruct H as [[E1 E2]|H]; [subst; reflexivity | apply Hd; exact H].
  Qed.
  Lemma fold_dreg_add_mem o (f : Z -> list Z) ts : forall dr l' t' x,
    dm (fold_left (fun dr t => dreg_add_all o t (f t) dr) ts dr) l' t' x <->
    dm dr l' t' x \/ (x = o /\ In t' ts /\ In l' (f t')).
  Proof.
    induction ts as [|a r IH]; intros dr l' t' x; simpl.
    - tauto.
    - rewrite IH, dreg_add_all_mem. split.
      + intros [[H|[H1 [H2 H3]]]|[H1 [H2 H3]]]; auto. subst. auto.
      + intros [H|[H1 [[H2|H2] H3]]]; auto. subst. auto.
  Qed.

  Lemma read_one_inv strict (P : Z -> Prop) s o :
    Inv strict P s -> ~ In o (statics s) -> ~ In o (dynamics s) -> ~ P o ->
    (kind W o = Dynamic -> tf W o <> None) ->
    Inv strict (fun x => x = o \/ P x) (read_one W o s) /\ same_obstacles s (read_one W o s).
  Proof.
    intros I N1 N2 N3 Hf.
    assert (Ne : forall x, (In x (statics s) \/ (P x /\ kind W x = Static)) \/ (In x (dynamics s) \/ (P x /\ kind W x = Dynamic)) -> x <> o).
    { intros x [[H|[H _]]|[H|[H _]]] E; subst; contradiction. }
    unfold read_one. destruct (kind W o) eqn:K; (split; [|unfold same_obstacles; auto]).
    - (* static *)
      constructor; unfold read_static, smem, dmem, shape_at, centre_at, sshape, scentre; simpl.
      + intros x ids. unfold upd. destruct (Z.eqb x o) eqn:E; [|apply (truth_ish _ _ _ I)].
        apply Z.eqb_eq in E. subst. intro H. inversion H. reflexivity.
      + intros x ids. unfold upd. destruct (Z.eqb x o) eqn:E; [|apply (truth_ic _ _ _ I)].
        apply Z.eqb_eq in E. subst. intro H. inversion H. reflexivity.
      + apply (truth_sa _ _ _ I). + apply (truth_ca _ _ _ I). + apply (kind_s _ _ _ I). + apply (kind_d _ _ _ I).
      + intros x l Hx Hs. rewrite sreg_add_all_mem. left. assert (E : x <> o) by (apply Ne; auto).
        rewrite upd_other in Hs by exact E. apply (s_complete _ _ _ I); assumption.
      + intros x t l Hx Hs. assert (E : x <> o) by (apply Ne; auto).
        rewrite upd_other in Hs by exact E. apply (d_complete _ _ _ I); assumption.
      + intros x l Hm. rewrite sreg_add_all_mem in Hm. destruct Hm as [Hm|[Hx Hl]].
        * destruct (s_sound _ _ _ I x l Hm) as [H1 H2]. assert (E : x <> o) by (apply Ne; auto).
          rewrite !upd_other by exact E. split; [tauto | exact H2].
        * subst. rewrite !upd_same. simpl. split; [right; auto | left; exact Hl].
      + intros x t l Hm. destruct (d_sound _ _ _ I x t l Hm) as [H1 H2]. assert (E : x <> o) by (apply Ne; auto).
        rewrite !upd_other by exact E. split; [tauto | exact H2].
    - (* dynamic with a trajectory *)
      specialize (Hf eq_refl).
      assert (HM : forall l t x,
        dm (fold_left (fun dr t => dreg_add_all o t (sm W o t) dr) (horizon W o)
              (dreg_add_all o (t0 W o) (sm W o (t0 W o)) (dreg s))) l t x <->
        dm (dreg s) l t x \/ (x = o /\ ((t = t0 W o /\ In l (sm W o (t0 W o))) \/ (In t (horizon W o) /\ In l (sm W o t))))).
      { intros. rewrite fold_dreg_add_mem, dreg_add_all_mem. tauto. }
      constructor; unfold read_dynamic, smem, dmem, shape_at, centre_at, sshape, scentre; simpl.
      + intros x ids. unfold upd. destruct (Z.eqb x o) eqn:E; [|apply (truth_ish _ _ _ I)].
        apply Z.eqb_eq in E. subst. intro H. inversion H. reflexivity.
      + intros x ids. unfold upd. destruct (Z.eqb x o) eqn:E; [|apply (truth_ic _ _ _ I)].
        apply Z.eqb_eq in E. subst. intro H. inversion H. reflexivity.
      + intros x d t ids. unfold upd. destruct (Z.eqb x o) eqn:E; [|apply (truth_sa _ _ _ I)].
        intros H Hin. apply Z.eqb_eq in E. subst x. inversion H; subst d.
        eapply (fold_dset_truth (sm W o)); [|exact Hin]. intros k w [].
      + intros x d t ids. unfold upd. destruct (Z.eqb x o) eqn:E; [|apply (truth_ca _ _ _ I)].
        intros H Hin. apply Z.eqb_eq in E. subst x. inversion H; subst d.
        eapply (fold_dset_truth (cin W o)); [|exact Hin]. intros k w [].
      + apply (kind_s _ _ _ I). + apply (kind_d _ _ _ I).
      + intros x l Hx Hs. assert (E : x <> o) by (apply Ne; auto).
        rewrite upd_other in Hs by exact E. apply (s_complete _ _ _ I); assumption.
      + intros x t l Hx Hs. apply HM. left. assert (E : x <> o) by (apply Ne; auto).
        rewrite !upd_other in Hs by exact E. apply (d_complete _ _ _ I); assumption.
      + intros x l Hm. destruct (s_sound _ _ _ I x l Hm) as [H1 H2]. assert (E : x <> o) by (apply Ne; auto).
        rewrite !upd_other by exact E. split; [tauto | exact H2].
      + intros x t l Hm. apply HM in Hm. destruct Hm as [Hm|[Hx Hl]].
        * destruct (d_sound _ _ _ I x t l Hm) as [H1 H2]. assert (E : x <> o) by (apply Ne; auto).
          rewrite !upd_other by exact E. split; [tauto | exact H2].
        * subst. rewrite !upd_same. split; [right; auto|]. left. destruct Hl as [[H1 H2]|[H1 H2]].
          -- left. simpl. auto.
          -- right. split; [exact Hf|]. exists (sm W o t). split; [|exact H2]. simpl.
             apply (fold_dset_In (sm W o)). left. exact H1.
  Qed.

  Lemma read_fold_inv strict os : forall (P : Z -> Prop) s,
    Inv strict P s -> NoDup os -> (forall o, In o os -> ~ In o (statics s) /\ ~ In o (dynamics s) /\ ~ P o) ->
    (forall o, In o os -> kind W o = Dynamic -> tf W o <> None) ->
    Inv strict (fun x => In x os \/ P x) (fold_left (fun s o => read_one W o s) os s) /\
    same_obstacles s (fold_left (fun s o => read_one W o s) os s).
  Proof.
    induction os as [|o r IH]; intros P s I Hn Hp Hf; simpl.
    - split; [|unfold same_obstacles; auto].
      destruct I. constructor; auto; intros; [destruct (s_sound0 o l H) | destruct (d_sound0 o t l H)]; tauto.
    - inversion Hn; subst. destruct (Hp o (or_introl eq_refl)) as [N1 [N2 N3]].
      destruct (read_one_inv strict P s o I N1 N2 N3 (Hf o (or_introl eq_refl))) as [I1 [S1 S2]].
      destruct (IH (fun x => x = o \/ P x) (read_one W o s) I1 H2) as [I2 [S3 S4]].
      + intros x Hx. rewrite S1, S2. destruct (Hp x (or_intror Hx)) as [A [B C]]. repeat split; auto.
        intros [E|E]; [subst; contradiction | contradiction].
      + intros x Hx. apply Hf. right. exact Hx.
      + split; [|unfold same_obstacles; split; congruence].
        destruct I2. constructor; auto; intros.
        * destruct (s_sound0 o0 l H) as [[A|[[A|[A|A]] B]] C]; split; auto; right; split; auto.
        * destruct (d_sound0 o0 t l H) as [[A|[[A|[A|A]] B]] C]; split; auto; right; split; auto.
  Qed.

  Lemma add_obstacle_present s o :
    (forall x, In x (statics s) -> In x (statics (add_obstacle W o s))) /\
    (forall x, In x (dynamics s) -> In x (dynamics (add_obstacle W o s))) /\
    (kind W o = Static -> In o (statics (add_obstacle W o s))) /\
    (kind W o = Dynamic -> In o (dynamics (add_obstacle W o s))).
  Proof.
    unfold add_obstacle. destruct (kind W o); simpl; repeat split; auto; try discriminate.
  Qed.

  Lemma add_fold_inv strict P os : forall s,
    Inv strict P s -> Inv strict P (fold_left (fun s o => add_obstacle W o s) os s) /\
    (forall x, In x (statics s) -> In x (statics (fold_left (fun s o => add_obstacle W o s) os s))) /\
    (forall x, In x (dynamics s) -> In x (dynamics (fold_left (fun s o => add_obstacle W o s) os s))) /\
    (forall o, In o os -> kind W o = Static -> In o (statics (fold_left (fun s o => add_obstacle W o s) os s))) /\
    (forall o, In o os -> kind W o = Dynamic -> In o (dynamics (fold_left (fun s o => add_obstacle W o s) os s))).
  Proof.
    induction os as [|o r IH]; intros s I; simpl.
    - split; [exact I|]. split; [auto|]. split; [auto|]. split; intros o [].
    - destruct (IH (add_obstacle W o s) (add_obstacle_inv strict P s o I)) as [I1 [A [B [C D]]]].
      destruct (add_obstacle_present s o) as [A0 [B0 [C0 D0]]].
      split; [exact I1|]. split; [auto|]. split; [auto|]. split.
      + intros x [E|Hx] K; [subst; auto | auto].
      + intros x [E|Hx] K; [subst; auto | auto].
  Qed.

  Lemma NoDup_nodupZ l : nodupZ l = true -> NoDup l.
  Proof.
    induction l as [|a r IH]; simpl; intro H; [constructor|].
    apply andb_true_iff in H. destruct H as [H1 H2]. apply negb_true_iff in H1. apply memZ_false in H1.
    constructor; auto.
  Qed.

  Lemma read_all_inv strict s os :
    Inv strict none s -> ok W s (ORead os) = true -> Inv strict none (read_all W os s).
  Proof.
    intros I Hok. simpl in Hok. apply andb_true_iff in Hok. destruct Hok as [Hok H3].
    apply andb_true_iff in Hok. destruct Hok as [H1 H2].
    rewrite forallb_forall in H2, H3.
    destruct (read_fold_inv strict os none s I (NoDup_nodupZ _ H1)) as [I1 [S1 S2]].
    - intros o Ho. specialize (H2 o Ho). apply negb_true_iff in H2. unfold present in H2.
      apply orb_false_iff in H2. destruct H2 as [A B]. apply memZ_false in A. apply memZ_false in B.
      repeat split; auto.
    - intros o Ho K. specialize (H3 o Ho). rewrite K in H3. destruct (tf W o); [discriminate | discriminate].
    - unfold read_all.
      destruct (add_fold_inv strict _ os _ I1) as [I2 [A [B [C D]]]].
      destruct I2. constructor; auto; intros.
      + destruct (s_sound0 o l H) as [[X|[[X|[]] Y]] Z0]; split; auto.
      + destruct (d_sound0 o t l H) as [[X|[[X|[]] Y]] Z0]; split; auto.
  Qed.

  (* ---- every reachable state *)
  Lemma step_inv strict s o :
    Inv strict none s -> ok W s o = true -> (strict = true -> default_mode o = true) ->
    Inv strict none (fst (step W s o)).
  Proof.
    intros I Hok Hd. destruct o as [o|o|ts ids c|os|os]; simpl.
    - apply add_obstacle_inv. exact I.
    - apply remove_obstacle_inv. exact I.
    - apply assign_inv; try assumption. intro E. specialize (Hd E). simpl in Hd. destruct c; [discriminate | reflexivity].
    - apply read_all_inv; assumption.
    - unfold load_all. destruct (add_fold_inv strict none os s I) as [I1 _]. exact I1.
  Qed.

  Lemma run_inv strict ops : forall s,
    Inv strict none s -> all_ok W ops s = true -> (strict = true -> forallb default_mode ops = true) ->
    Inv strict none (run W ops s).
  Proof.
    induction ops as [|o r IH]; intros s I Hok Hd; simpl; [exact I|].
    simpl in Hok. apply andb_true_iff in Hok. destruct Hok as [H1 H2].
    apply IH; [|exact H2|].
    - apply step_inv; try assumption. intro E. specialize (Hd E). simpl in Hd. apply andb_true_iff in Hd. tauto.
    - intro E. specialize (Hd E). simpl in Hd. apply andb_true_iff in Hd. tauto.
  Qed.

  (* registries = inverse of the stored shape assignment *)
  Definition Inverse (s : st) : Prop :=
    (forall l o, smem s l o <-> In o (statics s) /\ sshape s o l) /\
    (forall l t o, dmem s l t o <-> In o (dynamics s) /\ shape_at s o t l).
  Lemma inv_inverse s : Inv true none s -> Inverse s.
  Proof.
    intro I. split.
    - intros l o. split.
      + intro H. destruct (s_sound _ _ _ I o l H) as [[H1|[[] _]] [H2|[H2 _]]]; [auto | discriminate].
      + intros [H1 H2]. apply (s_complete _ _ _ I); assumption.
    - intros l t o. split.
      + intro H. destruct (d_sound _ _ _ I o t l H) as [[H1|[[] _]] [H2|[H2 _]]]; [auto | discriminate].
      + intros [H1 H2]. apply (d_complete _ _ _ I); assumption.
  Qed.
  (* with use_center_only=True somewhere in the history: entries belong to contained obstacles and come
     from the stored shape or centre assignment, and every stored shape lanelet is registered *)
  Definition Consistent (s : st) : Prop :=
    (forall l o, smem s l o -> In o (statics s) /\ (sshape s o l \/ scentre s o l)) /\
    (forall l t o, dmem s l t o -> In o (dynamics s) /\ (shape_at s o t l \/ centre_at s o t l)) /\
    (forall l o, In o (statics s) -> sshape s o l -> smem s l o) /\
    (forall l t o, In o (dynamics s) -> shape_at s o t l -> dmem s l t o).
  Lemma inv_consistent strict s : Inv strict none s -> Consistent s.
  Proof.
    intro I. repeat split.
    - destruct (s_sound _ _ _ I o l H) as [[H1|[[] _]] _]. exact H1.
    - destruct (s_sound _ _ _ I o l H) as [_ [H2|[_ H2]]]; auto.
    - destruct (d_sound _ _ _ I o t l H) as [[H1|[[] _]] _]. exact H1.
    - destruct (d_sound _ _ _ I o t l H) as [_ [H2|[_ H2]]]; auto.
    - intros. apply (s_complete _ _ _ I); assumption.
    - intros. apply (d_complete _ _ _ I); assumption.
  Qed.
End Inv.

(* ================================================================== reachable states *)
Lemma reachable_inv W strict ops :
  all_ok W ops init = true -> (strict = true -> forallb default_mode ops = true) -> Inv W strict none (run W ops init).
Proof. intros H1 H2. apply run_inv; [apply inv_init | exact H1 | exact H2]. Qed.

Lemma reachable_inverse W ops :
  all_ok W ops init = true -> forallb default_mode ops = true -> Inverse W (run W ops init).
Proof. intros H1 H2. apply inv_inverse. apply reachable_inv; auto. Qed.

Lemma reachable_consistent W ops : all_ok W ops init = true -> Consistent W (run W ops init).
Proof. intro H. apply (inv_consistent W false). apply reachable_inv; [exact H | discriminate]. Qed.

Lemma reachable_truth W ops : all_ok W ops init = true ->
  let s := run W ops init in
  (forall o ids, ish s o = Some ids -> ids = sm W o (t0 W o)) /\
  (forall o ids, ic s o = Some ids -> ids = cin W o (t0 W o)) /\
  (forall o d t ids, sa s o = Some d -> In (t, ids) d -> ids = sm W o t) /\
  (forall o d t ids, ca s o = Some d -> In (t, ids) d -> ids = cin W o t).
Proof.
  intros H s. assert (I : Inv W false none s) by (apply reachable_inv; [exact H | discriminate]).
  destruct I. repeat split; assumption.
Qed.

Lemma reachable_remove_clears W ops o : all_ok W ops init = true ->
  let s := run W ops init in
  present s o = true ->
  let s' := fst (remove_obstacle W o s) in
  snd (remove_obstacle W o s) = Done /\
  (forall l, ~ smem s' l o) /\ (forall l t, ~ dmem s' l t o) /\ present s' o = false.
Proof.
  intros H s Hp s'. split; [apply remove_obstacle_done|].
  assert (I : Inv W false none s) by (apply reachable_inv; [exact H | discriminate]).
  destruct (remove_clears W false s o I Hp) as [A [B [C D]]]. fold s' in A, B, C, D.
  split; [exact A|]. split; [exact B|]. unfold present. apply orb_false_iff. split; apply memZ_false; assumption.
Qed.

(* ================================================================== assigning everything *)
Lemma dget_dset_same t v d : dget t (dset t v d) = Some v.
Proof.
  induction d as [|[k w] r IH]; simpl; [rewrite Z.eqb_refl; reflexivity|].
  destruct (Z.eqb k t) eqn:E; simpl; rewrite ?Z.eqb_refl, ?E; auto.
Qed.
Lemma dget_dset_other t v d t' : t' <> t -> dget t' (dset t v d) = dget t' d.
Proof.
  intro N. induction d as [|[k w] r IH]; simpl.
  - destruct (Z.eqb t t') eqn:E; [apply Z.eqb_eq in E; congruence | reflexivity].
  - destruct (Z.eqb k t) eqn:E; simpl.
    + apply Z.eqb_eq in E. subst k. destruct (Z.eqb t t') eqn:E'; [apply Z.eqb_eq in E'; congruence | reflexivity].
    + destruct (Z.eqb k t'); [reflexivity | exact IH].
Qed.

Lemma zrange_In a n t : In t (zrange a n) <-> a <= t < a + Z.of_nat n.
Proof.
  revert a. induction n as [|n IH]; intro a; simpl zrange.
  - simpl. lia.
  - simpl In. rewrite IH. lia.
Qed.

Section Full.
  Variable W : world.
  (* the trajectory of a prediction does not end before the initial state *)
  Definition wf : Prop := forall o f, tf W o = Some f -> t0 W o <= f.

  Definition init_ok (s : st) (o : Z) : Prop :=
    ish s o = Some (sm W o (t0 W o)) /\ ic s o = Some (cin W o (t0 W o)).
  Definition dict_ok (s : st) (o t : Z) : Prop :=
    dget t (opt_dict (sa s o)) = Some (sm W o t) /\ dget t (opt_dict (ca s o)) = Some (cin W o t).
  Definition same_attrs (s s' : st) (o : Z) : Prop :=
    ish s' o = ish s o /\ ic s' o = ic s o /\ opt_dict (sa s' o) = opt_dict (sa s o) /\ opt_dict (ca s' o) = opt_dict (ca s o).
  Definition in_range (o t : Z) : Prop :=
    t = t0 W o \/ exists f, tf W o = Some f /\ t0 W o < t <= f.

  Lemma same_attrs_refl s o : same_attrs s s o.
  Proof. unfold same_attrs. auto. Qed.
  Lemma same_attrs_trans s1 s2 s3 o : same_attrs s1 s2 o -> same_attrs s2 s3 o -> same_attrs s1 s3 o.
  Proof. unfold same_attrs. intros [A [B [C D]]] [A' [B' [C' D']]]. repeat split; congruence. Qed.
  Lemma same_attrs_init_ok s s' o : same_attrs s s' o -> init_ok s o -> init_ok s' o.
  Proof. unfold same_attrs, init_ok. intros [A [B _]] [C D]. split; congruence. Qed.
  Lemma same_attrs_dict_ok s s' o t : same_attrs s s' o -> dict_ok s o t -> dict_ok s' o t.
  Proof. unfold same_attrs, dict_ok. intros [_ [_ [A B]]] [C D]. rewrite A, B. auto. Qed.

  (* one executed assignment of obstacle o at time step t, use_center_only=False *)
  Lemma go_effect s o t :
    let s' := assign_dyn_go W false o t s in
    (forall o', o' <> o -> same_attrs s s' o') /\
    (init_ok s o -> init_ok s' o) /\ (forall t', dict_ok s o t' -> dict_ok s' o t') /\
    (t = t0 W o -> init_ok s' o) /\ (tf W o <> None -> dict_ok s' o t).
  Proof.
    intro s'. unfold s', assign_dyn_go, same_attrs, init_ok, dict_ok. simpl.
    split; [|split; [|split; [|split]]].
    - intros o' N. destruct (Z.eqb t (t0 W o)); destruct (tf W o); simpl; rewrite ?upd_other by exact N; auto.
    - intros [A B]. destruct (Z.eqb t (t0 W o)) eqn:E; simpl; [|auto].
      apply Z.eqb_eq in E. subst t. rewrite !upd_same. auto.
    - intros t' [A B]. destruct (tf W o); [|auto]. rewrite !upd_same. simpl.
      destruct (Z.eq_dec t' t) as [->|N].
      + rewrite !dget_dset_same. auto.
      + rewrite !dget_dset_other by exact N. auto.
    - intro E. subst t. rewrite Z.eqb_refl. simpl. rewrite !upd_same. auto.
    - intro F. destruct (tf W o); [|congruence]. rewrite !upd_same. simpl. rewrite !dget_dset_same. auto.
  Qed.

  Lemma at_effect s o t :
    let r := assign_dyn_at W false o t s in
    snd r = Done /\
    (forall o', o' <> o -> same_attrs s (fst r) o') /\
    (init_ok s o -> init_ok (fst r) o) /\ (forall t', dict_ok s o t' -> dict_ok (fst r) o t') /\
    (in_range o t -> (t = t0 W o -> init_ok (fst r) o) /\ (tf W o <> None -> dict_ok (fst r) o t)).
  Proof.
    intro r. unfold r, assign_dyn_at.
    pose proof (go_effect s o t) as G. cbv zeta in G. destruct G as [G1 [G2 [G3 [G4 G5]]]].
    destruct (Z.eqb t (t0 W o)) eqn:E0; simpl.
    - split; [reflexivity|]. split; [exact G1|]. split; [exact G2|]. split; [exact G3|].
      intros _. split; [exact G4 | exact G5].
    - apply Z.eqb_neq in E0. destruct (tf W o) as [f|] eqn:F.
      + destruct (Z.ltb f t || Z.ltb t (t0 W o)) eqn:R; simpl.
        * split; [reflexivity|]. split; [intros; apply same_attrs_refl|]. split; [auto|]. split; [auto|].
          intros [H|[f' [Hf H]]]; [congruence|]. assert (f' = f) by congruence. subst f'.
          apply orb_true_iff in R. destruct R as [R|R]; apply Z.ltb_lt in R; lia.
        * split; [reflexivity|]. split; [exact G1|]. split; [exact G2|]. split; [exact G3|].
          intros _. split; [exact G4 | exact G5].
      + split; [reflexivity|]. split; [intros; apply same_attrs_refl|]. split; [auto|]. split; [auto|].
        intros [H|[f' [Hf _]]]; congruence.
  Qed.

  Lemma times_effect o ts : forall s,
    let r := assign_times W false o ts s in
    snd r = Done /\
    (forall o', o' <> o -> same_attrs s (fst r) o') /\
    (init_ok s o -> init_ok (fst r) o) /\ (forall t', dict_ok s o t' -> dict_ok (fst r) o t') /\
    (forall t, In t ts -> in_range o t -> (t = t0 W o -> init_ok (fst r) o) /\ (tf W o <> None -> dict_ok (fst r) o t)).
  Proof.
    induction ts as [|t r IH]; intro s; simpl.
    - split; [reflexivity|]. split; [intros; apply same_attrs_refl|]. split; [auto|]. split; [auto|].
      intros t [].
    - pose proof (at_effect s o t) as A. cbv zeta in A. destruct A as [A1 [A2 [A3 [A4 A5]]]].
      destruct (assign_dyn_at W false o t s) as [s1 out] eqn:E. simpl in *. subst out.
      pose proof (IH s1) as B. cbv zeta in B. destruct B as [B1 [B2 [B3 [B4 B5]]]].
      split; [exact B1|]. split; [|split; [|split]].
      + intros o' N. eapply same_attrs_trans; [apply A2 | apply B2]; exact N.
      + auto.
      + auto.
      + intros t' [H|H] R.
        * subst t'. destruct (A5 R) as [C1 C2]. split; [intro X; apply B3; auto | intro X; apply B4; auto].
        * apply B5; assumption.
  Qed.

  Definition full (s : st) (o : Z) : Prop :=
    init_ok s o /\ (kind W o = Dynamic -> tf W o <> None -> forall t, In t (horizon W o) -> dict_ok s o t).

  Lemma same_attrs_full s s' o : same_attrs s s' o -> full s o -> full s' o.
  Proof.
    intros S [A B]. split; [eapply same_attrs_init_ok; eauto|].
    intros K F t Ht. eapply same_attrs_dict_ok; eauto.
  Qed.

  Lemma horizon_range (Hwf : wf) o : In (t0 W o) (horizon W o) /\ forall t, In t (horizon W o) -> in_range o t.
  Proof.
    unfold horizon, in_range. destruct (tf W o) as [f|] eqn:F.
    - pose proof (Hwf o f F) as L. split.
      + apply zrange_In. rewrite Z2Nat.id by lia. lia.
      + intros t Ht. apply zrange_In in Ht. rewrite Z2Nat.id in Ht by lia.
        destruct (Z.eq_dec t (t0 W o)); [left; assumption | right; exists f; split; [reflexivity | lia]].
    - split; [left; reflexivity|]. intros t [H|[]]. left. congruence.
  Qed.

  Lemma one_effect (Hwf : wf) o s :
    let r := assign_one W None false o s in
    snd r = Done /\ full (fst r) o /\ (forall o', o' <> o -> same_attrs s (fst r) o').
  Proof.
    intro r. unfold r, assign_one. destruct (kind W o) eqn:K.
    - (* static *)
      simpl. split; [reflexivity|]. split.
      + split; [unfold init_ok; simpl; rewrite !upd_same; auto | congruence].
      + intros o' N. unfold same_attrs. simpl. rewrite !upd_other by exact N. auto.
    - match goal with |- context[assign_times W false o ?T ?S1] => set (s1 := S1) end.
      assert (P : forall o', o' <> o -> same_attrs s s1 o').
      { intros o' N. unfold s1, same_attrs. destruct (tf W o); [|auto]. simpl.
        destruct (ca s o); destruct (sa s o); rewrite ?upd_other by exact N; auto. }
      pose proof (times_effect o (horizon W o) s1) as B. cbv zeta in B. destruct B as [B1 [B2 [B3 [B4 B5]]]].
      destruct (horizon_range Hwf o) as [H0 HR].
      split; [exact B1|]. split.
      + split.
        * destruct (B5 (t0 W o) H0 (HR _ H0)) as [C _]. apply C. reflexivity.
        * intros _ F t Ht. destruct (B5 t Ht (HR _ Ht)) as [_ C]. apply C. exact F.
      + intros o' N. eapply same_attrs_trans; [apply P | apply B2]; exact N.
  Qed.

  Lemma ids_effect (Hwf : wf) ids : forall s,
    let r := assign_ids W None false ids s in
    snd r = Done /\ (forall o, In o ids -> full (fst r) o) /\ (forall o, full s o -> full (fst r) o).
  Proof.
    induction ids as [|o rest IH]; intro s; simpl.
    - split; [reflexivity|]. split; [intros o []|auto].
    - pose proof (one_effect Hwf o s) as A. cbv zeta in A. destruct A as [A1 [A2 A3]].
      destruct (assign_one W None false o s) as [s1 out] eqn:E. simpl in *. subst out.
      pose proof (IH s1) as B. cbv zeta in B. destruct B as [B1 [B2 B3]].
      assert (KP : forall x, full s x -> full s1 x).
      { intros x Fx. destruct (Z.eq_dec x o) as [->|N]; [exact A2 | eapply same_attrs_full; [apply A3; exact N | exact Fx]]. }
      split; [exact B1|]. split.
      + intros x [H|H]; [subst x; apply B3; exact A2 | apply B2; exact H].
      + intros x Fx. apply B3. apply KP. exact Fx.
  Qed.

  (* assign_obstacles_to_lanelets never raises, whatever the arguments *)
  Lemma at_done c o t s : snd (assign_dyn_at W c o t s) = Done.
  Proof.
    unfold assign_dyn_at. destruct (Z.eqb t (t0 W o)); [reflexivity|]. destruct (tf W o); [|reflexivity].
    destruct (Z.ltb z t || Z.ltb t (t0 W o)); reflexivity.
  Qed.
  Lemma times_done c o ts : forall s, snd (assign_times W c o ts s) = Done.
  Proof.
    induction ts as [|t r IH]; intro s; simpl; [reflexivity|].
    pose proof (at_done c o t s) as H. destruct (assign_dyn_at W c o t s) as [s1 out]. simpl in H. subst out. apply IH.
  Qed.
  Lemma one_done ts c o s : snd (assign_one W ts c o s) = Done.
  Proof. unfold assign_one. destruct (kind W o); [reflexivity | apply times_done]. Qed.
  Lemma ids_done ts c ids : forall s, snd (assign_ids W ts c ids s) = Done.
  Proof.
    induction ids as [|o r IH]; intro s; simpl; [reflexivity|].
    pose proof (one_done ts c o s) as H. destruct (assign_one W ts c o s) as [s1 out]. simpl in H. subst out. apply IH.
  Qed.
  Lemma assign_done ts ids c s : snd (assign W ts ids c s) = Done.
  Proof. unfold assign. apply ids_done. Qed.

  (* ---- the reader-side assignment stores, for every obstacle of the file, the lookups of every state of its
     own: [initial_state] + state_list are looked up one by one (no reuse of the previous state's lanelets) *)
  Lemma fold_dset_keep (f : Z -> list Z) ts : forall d t,
    dget t d = Some (f t) -> dget t (fold_left (fun d t => dset t (f t) d) ts d) = Some (f t).
  Proof.
    induction ts as [|a r IH]; intros d t H; simpl; [exact H|].
    apply IH. destruct (Z.eq_dec t a) as [->|N]; [apply dget_dset_same | rewrite dget_dset_other by exact N; exact H].
  Qed.
  Lemma fold_dset_get (f : Z -> list Z) ts : forall d t,
    In t ts -> dget t (fold_left (fun d t => dset t (f t) d) ts d) = Some (f t).
  Proof.
    induction ts as [|a r IH]; intros d t H; simpl; [destruct H|].
    destruct (Z.eq_dec a t) as [->|N].
    - apply fold_dset_keep. apply dget_dset_same.
    - destruct H as [H|H]; [congruence | apply IH; exact H].
  Qed.

  Lemma read_one_full s o :
    full (read_one W o s) o /\ (forall o', o' <> o -> same_attrs s (read_one W o s) o').
  Proof.
    unfold read_one. destruct (kind W o) eqn:K; split.
    - split; [unfold init_ok; simpl; rewrite !upd_same; auto | congruence].
    - intros o' N. unfold same_attrs. simpl. rewrite !upd_other by exact N. auto.
    - split; [unfold init_ok; simpl; rewrite !upd_same; auto|].
      intros _ _ t Ht. unfold dict_ok. simpl. rewrite !upd_same. simpl.
      split; [apply (fold_dset_get (sm W o)) | apply (fold_dset_get (cin W o))]; exact Ht.
    - intros o' N. unfold same_attrs. simpl. rewrite !upd_other by exact N. auto.
  Qed.

  Lemma read_fold_full os : forall s,
    (forall o, In o os -> full (fold_left (fun s o => read_one W o s) os s) o) /\
    (forall o, full s o -> full (fold_left (fun s o => read_one W o s) os s) o).
  Proof.
    induction os as [|o rest IH]; intro s; simpl; [split; [intros o []|auto]|].
    destruct (read_one_full s o) as [A1 A2]. destruct (IH (read_one W o s)) as [B1 B2].
    assert (KP : forall x, full s x -> full (read_one W o s) x).
    { intros x Fx. destruct (Z.eq_dec x o) as [->|N]; [exact A1 | eapply same_attrs_full; [apply A2; exact N | exact Fx]]. }
    split.
    - intros x [H|H]; [subst x; apply B2; exact A1 | apply B1; exact H].
    - intros x Fx. apply B2. apply KP. exact Fx.
  Qed.

  Lemma add_obstacle_attrs s o o' : same_attrs s (add_obstacle W o s) o'.
  Proof. unfold same_attrs, add_obstacle. destruct (kind W o); simpl; auto. Qed.
  Lemma add_fold_attrs os : forall s o', same_attrs s (fold_left (fun s o => add_obstacle W o s) os s) o'.
  Proof.
    induction os as [|o r IH]; intros s o'; simpl; [apply same_attrs_refl|].
    eapply same_attrs_trans; [apply add_obstacle_attrs | apply IH].
  Qed.

  Lemma read_all_full s os o : In o os -> full (read_all W os s) o.
  Proof.
    intro H. unfold read_all. eapply same_attrs_full; [apply add_fold_attrs|].
    destruct (read_fold_full os s) as [A _]. apply A. exact H.
  Qed.
End Full.

Lemma reachable_assign_all W ops : wf W -> all_ok W ops init = true ->
  let s := run W ops init in
  let r := assign W None None false s in
  snd r = Done /\
  (forall o, present s o = true ->
     ish (fst r) o = Some (sm W o (t0 W o)) /\ ic (fst r) o = Some (cin W o (t0 W o))) /\
  (forall o, In o (dynamics s) -> tf W o <> None -> forall t, In t (horizon W o) ->
     dget t (opt_dict (sa (fst r) o)) = Some (sm W o t) /\ dget t (opt_dict (ca (fst r) o)) = Some (cin W o t)).
Proof.
  intros Hwf H s r.
  assert (I : Inv W false none s) by (apply reachable_inv; [exact H | discriminate]).
  pose proof (ids_effect W Hwf (statics s ++ dynamics s) s) as A0. cbv zeta in A0. destruct A0 as [A [B _]].
  split; [exact A|]. split.
  - intros o Hp. apply present_In in Hp. destruct (B o) as [C _]; [apply in_or_app; exact Hp | exact C].
  - intros o Ho F t Ht. destruct (B o) as [_ C]; [apply in_or_app; right; exact Ho|].
    apply C; [apply (kind_d _ _ _ _ I); exact Ho | exact F | exact Ht].
Qed.

(* ================================================================== reading a file with lanelet assignment *)
Lemma read_complete W s os o : In o os ->
  let s' := fst (step W s (ORead os)) in
  ish s' o = Some (sm W o (t0 W o)) /\ ic s' o = Some (cin W o (t0 W o)) /\
  (kind W o = Dynamic -> tf W o <> None -> forall t, In t (horizon W o) ->
     dget t (opt_dict (sa s' o)) = Some (sm W o t) /\ dget t (opt_dict (ca s' o)) = Some (cin W o t)).
Proof.
  intros H s'. destruct (read_all_full W s os o H) as [[A B] C]. unfold s'. simpl.
  split; [exact A|]. split; [exact B|]. intros K F t Ht. apply C; assumption.
Qed.

(* ... which is what assign_obstacles_to_lanelets() stores for the same obstacle in any scenario that contains it *)
Lemma read_is_assign W s os ops o : wf W -> all_ok W ops init = true -> In o os ->
  present (run W ops init) o = true ->
  let s1 := fst (step W s (ORead os)) in
  let s2 := fst (assign W None None false (run W ops init)) in
  ish s1 o = ish s2 o /\ ic s1 o = ic s2 o /\
  (kind W o = Dynamic -> tf W o <> None -> forall t, In t (horizon W o) ->
     dget t (opt_dict (sa s1 o)) = dget t (opt_dict (sa s2 o)) /\
     dget t (opt_dict (ca s1 o)) = dget t (opt_dict (ca s2 o))).
Proof.
  intros Hwf Hok Ho Hp s1 s2.
  pose proof (read_complete W s os o Ho) as R. cbv zeta in R. fold s1 in R. destruct R as [R1 [R2 R3]].
  pose proof (reachable_assign_all W ops Hwf Hok) as A. cbv zeta in A. fold s2 in A. destruct A as [_ [A1 A2]].
  destruct (A1 o Hp) as [B1 B2].
  split; [congruence|]. split; [congruence|].
  intros K F t Ht. destruct (R3 K F t Ht) as [C1 C2].
  assert (I : Inv W false none (run W ops init)) by (apply reachable_inv; [exact Hok | discriminate]).
  assert (D : In o (dynamics (run W ops init))).
  { apply present_In in Hp. destruct Hp as [X|X]; [|exact X].
    pose proof (kind_s _ _ _ _ I o X) as Y. congruence. }
  destruct (A2 o D F t Ht) as [E1 E2]. split; congruence.
Qed.
