(* Proofs/RenderParams.v — the parameters MPRenderer reads from the generated tree of MPDrawParams() after the
   setting of the property statement was assigned: a time window at the top level, shapes on, icons / extra
   occupancies / history off, no id filter.  Side condition on Gen/Tables_C19.v, by computation; it depends on
   which groups and fields the source declares, not on their default values. *)
From Coq Require Import ZArith String List Bool.
Import ListNotations.
From CR Require Import Model.DrawParams Model.RenderSel Model.RenderParams Gen.Tables_C19.
Open Scope string_scope.

Definition with_window (tb te : Z) (n : node) : node := set "time_end" (VZ te) (set "time_begin" (VZ tb) n).

Definition plain_ops : list op :=
  [ mkOp ["dynamic_obstacle"] "draw_shape" (VB true);
    mkOp ["dynamic_obstacle"] "draw_icon" (VB false);
    mkOp ["dynamic_obstacle"; "occupancy"] "draw_occupancies" (VB false);
    mkOp ["dynamic_obstacle"; "history"] "draw_history" (VB false);
    mkOp ["phantom_obstacle"] "draw_shape" (VB true);
    mkOp ["phantom_obstacle"; "occupancy"] "draw_occupancies" (VB false);
    mkOp ["lanelet_network"] "draw_ids" VNone;
    mkOp ["planning_problem_set"] "draw_ids" VNone ].

Definition plain_setting (tb te : Z) (n : node) : option node := run plain_ops (with_window tb te n).

Lemma plain_setting_rparams : forall tb te,
  exists t hs hz,
  plain_setting tb te mp_default = Some t /\
  rparams_of t = Some (mkR (mkD tb te true false false false hs hz) tb (mkP tb te true false) tb None None).
Proof. intros tb te. eexists. eexists. eexists. split; vm_compute; reflexivity. Qed.

Lemma plain_setting_plain : forall tb te t r,
  plain_setting tb te mp_default = Some t -> rparams_of t = Some r ->
  plain r = true /\ window r tb te /\ r_lanelet_ids r = None /\ r_pp_ids r = None.
Proof.
  intros tb te t r Ht Hr. destruct (plain_setting_rparams tb te) as [t' [hs [hz [E1 E2]]]].
  rewrite E1 in Ht. inversion Ht. subst t'. rewrite E2 in Hr. inversion Hr. subst r.
  unfold plain, window. simpl. repeat split; reflexivity.
Qed.
