(* Proofs/RenderParams.v — the parameters MPRenderer reads from the generated default tree after a time window
   was assigned at its top level (side condition on Gen/Tables_C19.v, by computation) *)
From Coq Require Import ZArith String List Bool.
Import ListNotations.
From CR Require Import Model.DrawParams Model.RenderSel Model.RenderParams Gen.Tables_C19.
Open Scope string_scope.

Definition with_window (tb te : Z) (n : node) : node := set "time_end" (VZ te) (set "time_begin" (VZ tb) n).

(* the defaults of the source are: shapes on; icons, extra occupancies, history off; no id filter *)
Lemma default_rparams : forall tb te,
  exists hs hz,
  rparams_of (with_window tb te mp_default) =
  Some (mkR (mkD tb te true false false false hs hz) tb (mkP tb te true false) tb None None).
Proof. intros tb te. eexists. eexists. vm_compute. reflexivity. Qed.

Lemma default_rparams_plain : forall tb te r,
  rparams_of (with_window tb te mp_default) = Some r -> plain r = true /\ window r tb te /\
  r_lanelet_ids r = None /\ r_pp_ids r = None.
Proof.
  intros tb te r H. destruct (default_rparams tb te) as [hs [hz E]]. rewrite E in H. inversion H. subst r.
  unfold plain, window. simpl. repeat split; reflexivity.
Qed.
