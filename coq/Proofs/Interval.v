(* Proofs/Interval.v — lemmas about Model/Interval.v (C16; reused by C08). *)
From Coq Require Import QArith Qround ZArith Bool List Qminmax Lia Lqa.
From CR Require Import Base.QMod Model.Interval.
Open Scope Q_scope.

Definition WF (I : itv) : Prop := lo I <= hi I.
Definition In (I : itv) (x : Q) : Prop := lo I <= x /\ x <= hi I.

Ltac qb :=
  repeat match goal with
  | H : Qle_bool _ _ = true |- _ => apply Qle_bool_iff in H
  | H : Qle_bool _ _ = false |- _ => apply Qle_bool_false in H
  | H : Qlt_bool _ _ = true |- _ => apply Qlt_bool_iff in H
  | H : Qlt_bool _ _ = false |- _ => apply not_true_iff_false in H; rewrite Qlt_bool_iff in H
  | H : _ && _ = true |- _ => apply andb_true_iff in H; destruct H
  | H : _ || _ = false |- _ => apply orb_false_iff in H; destruct H
  end.

Lemma mk_ok a b : a <= b -> mk a b = Ok {| lo := a; hi := b |}.
Proof. intro H. unfold mk. apply Qle_bool_iff in H. rewrite H. reflexivity. Qed.

Lemma mk_err a b : b < a -> mk a b = Err.
Proof. intro H. unfold mk. apply Qle_bool_false in H. rewrite H. reflexivity. Qed.

Lemma mk_ok_iff a b : (exists I, mk a b = Ok I) <-> a <= b.
Proof.
  split.
  - intros [I H]. unfold mk in H. destruct (Qle_bool a b) eqn:E; [|discriminate]. qb. exact E.
  - intro H. eexists. apply mk_ok. exact H.
Qed.

Lemma mk_wf a b I : mk a b = Ok I -> WF I /\ lo I = a /\ hi I = b.
Proof.
  unfold mk. destruct (Qle_bool a b) eqn:E; [|discriminate]. intro H. inversion H; subst.
  qb. unfold WF. simpl. auto.
Qed.

Lemma contains_pt_spec I x : contains_pt I x = true <-> In I x.
Proof.
  unfold contains_pt, In. rewrite andb_true_iff, !Qle_bool_iff. tauto.
Qed.

Lemma contains_itv_spec I J : WF J ->
  (contains_itv I J = true <-> forall x, In J x -> In I x).
Proof.
  unfold WF, contains_itv, In. intro HJ. rewrite andb_true_iff, !Qle_bool_iff. split.
  - intros [H1 H2] x [Hx1 Hx2]. split; lra.
  - intro H. split.
    + destruct (H (lo J)) as [A _]; [split; lra | exact A].
    + destruct (H (hi J)) as [_ A]; [split; lra | exact A].
Qed.

Lemma overlaps_spec I J : WF I -> WF J ->
  (overlaps I J = true <-> exists x, In I x /\ In J x).
Proof.
  unfold WF, overlaps, In. intros HI HJ. rewrite andb_true_iff, !Qle_bool_iff. split.
  - intros [H1 H2]. exists (Qmax (lo I) (lo J)).
    destruct (Q.max_spec (lo I) (lo J)) as [[A B]|[A B]]; rewrite B; repeat split; lra.
  - intros [x [[A B] [C D]]]. split; lra.
Qed.

Lemma intersection_spec I J : WF I -> WF J ->
  match intersection I J with
  | None => forall x, ~ (In I x /\ In J x)
  | Some (Ok K) => WF K /\ forall x, In K x <-> (In I x /\ In J x)
  | Some Err => False
  end.
Proof.
  intros HI HJ. unfold intersection.
  destruct (overlaps I J) eqn:E.
  - pose proof E as E'. unfold overlaps in E'. qb.
    unfold WF in *.
    assert (Hle : Qmax (lo I) (lo J) <= Qmin (hi I) (hi J)).
    { destruct (Q.max_spec (lo I) (lo J)) as [[A B]|[A B]]; rewrite B;
      destruct (Q.min_spec (hi I) (hi J)) as [[C D]|[C D]]; rewrite D; lra. }
    rewrite (mk_ok _ _ Hle). split; [exact Hle|].
    intro x. unfold In; simpl.
    destruct (Q.max_spec (lo I) (lo J)) as [[A B]|[A B]]; rewrite B;
    destruct (Q.min_spec (hi I) (hi J)) as [[C D]|[C D]]; rewrite D; split; intros; repeat split; lra.
  - intros x Hx. assert (overlaps I J = true) by (apply (overlaps_spec I J HI HJ); exists x; exact Hx). congruence.
Qed.

Lemma add_spec I c : WF I ->
  exists K, add I c = Ok K /\ WF K /\ forall y, In K y <-> exists x, In I x /\ y == x + c.
Proof.
  unfold WF. intro H. exists {| lo := lo I + c; hi := hi I + c |}. split; [|split].
  - unfold add. apply mk_ok. lra.
  - unfold WF; simpl; lra.
  - intro y. unfold In; simpl. split.
    + intros [A B]. exists (y - c). repeat split; lra.
    + intros [x [[A B] E]]. rewrite E. split; lra.
Qed.

Lemma sub_spec I c : WF I ->
  exists K, sub I c = Ok K /\ WF K /\ forall y, In K y <-> exists x, In I x /\ y == x - c.
Proof.
  unfold WF. intro H. exists {| lo := lo I - c; hi := hi I - c |}. split; [|split].
  - unfold sub. apply mk_ok. lra.
  - unfold WF; simpl; lra.
  - intro y. unfold In; simpl. split.
    + intros [A B]. exists (y + c). repeat split; lra.
    + intros [x [[A B] E]]. rewrite E. split; lra.
Qed.

Lemma mul_spec I c : WF I ->
  exists K, mul I c = Ok K /\ WF K /\
    forall y, (exists x, In I x /\ y == x * c) -> In K y.
Proof.
  unfold WF. intro H. unfold mul. destruct (Qlt_bool 0 c) eqn:E; qb.
  - exists {| lo := lo I * c; hi := hi I * c |}.
    assert (lo I * c <= hi I * c) by (apply Qmult_le_compat_r; lra).
    split; [apply mk_ok; assumption|]. split; [exact H0|].
    intros y [x [[A B] Ey]]. unfold In; simpl. rewrite Ey. split; apply Qmult_le_compat_r; lra.
  - assert (Hc : c <= 0) by (apply Qnot_lt_le; exact E).
    assert (Hm : forall u v, u <= v -> v * c <= u * c).
    { intros u v Huv. assert (u * (- c) <= v * (- c)) by (apply Qmult_le_compat_r; lra). lra. }
    exists {| lo := hi I * c; hi := lo I * c |}.
    split; [apply mk_ok; apply Hm; assumption|]. split; [apply Hm; assumption|].
    intros y [x [[A B] Ey]]. unfold In; simpl. rewrite Ey. split; apply Hm; assumption.
Qed.

(* for c <> 0 the product interval is exactly the image set *)
Lemma mul_image I c K : WF I -> ~ c == 0 -> mul I c = Ok K ->
  forall y, In K y <-> exists x, In I x /\ y == x * c.
Proof.
  intros HI Hc HK y. split.
  - intro Hy. exists (y / c). split; [|field; exact Hc].
    unfold mul in HK. unfold WF in HI. destruct (Qlt_bool 0 c) eqn:E; qb;
      apply mk_wf in HK; destruct HK as [_ [El Eh]]; unfold In in *; rewrite El, Eh in Hy; destruct Hy as [A B].
    + split; [apply Qle_shift_div_l | apply Qle_shift_div_r]; lra.
    + assert (Hneg : c < 0).
      { apply Qnot_lt_le in E. destruct (Qlt_le_dec c 0) as [L|L]; [exact L|]. exfalso. apply Hc. lra. }
      assert (Ey : y / c == (- y) / (- c)) by (field; exact Hc).
      rewrite Ey. split; [apply Qle_shift_div_l | apply Qle_shift_div_r]; lra.
  - intro Hx. destruct (mul_spec I c HI) as [K' [E' [_ Him]]].
    rewrite HK in E'. inversion E'; subst. apply Him. exact Hx.
Qed.

Lemma div_spec I c : WF I -> ~ c == 0 ->
  exists K, div I c = Ok K /\ WF K /\ forall y, In K y <-> exists x, In I x /\ y == x / c.
Proof.
  unfold WF. intros H Hc. unfold div. destruct (Qlt_bool 0 c) eqn:E; qb.
  - assert (Hi : 0 < / c) by (apply Qinv_lt_0_compat; exact E).
    assert (Hm : forall u v, u <= v -> u / c <= v / c).
    { intros u v Huv. unfold Qdiv. apply Qmult_le_compat_r; lra. }
    exists {| lo := lo I / c; hi := hi I / c |}.
    split; [apply mk_ok; apply Hm; assumption|]. split; [apply Hm; assumption|].
    intro y. unfold In; simpl. split.
    + intros [A B]. exists (y * c). split; [|field; exact Hc].
      split.
      * apply Qle_shift_div_r in A || idtac. apply (Qmult_le_r _ _ (/ c)); [exact Hi|].
        assert (Ey : y * c * / c == y) by (field; exact Hc). rewrite Ey. exact A.
      * apply (Qmult_le_r _ _ (/ c)); [exact Hi|].
        assert (Ey : y * c * / c == y) by (field; exact Hc). rewrite Ey. exact B.
    + intros [x [[A B] Ey]]. rewrite Ey. split; apply Hm; assumption.
  - assert (Hneg : c < 0).
    { apply Qnot_lt_le in E. destruct (Qlt_le_dec c 0) as [L|L]; [exact L|]. exfalso. apply Hc. lra. }
    assert (Hi : 0 < / (- c)) by (apply Qinv_lt_0_compat; lra).
    assert (Hm : forall u v, u <= v -> v / c <= u / c).
    { intros u v Huv.
      assert (Eu : u / c == - (u * / (- c))) by (field; exact Hc).
      assert (Ev : v / c == - (v * / (- c))) by (field; exact Hc).
      rewrite Eu, Ev.
      assert (u * / (- c) <= v * / (- c)) by (apply Qmult_le_compat_r; lra). lra. }
    exists {| lo := hi I / c; hi := lo I / c |}.
    split; [apply mk_ok; apply Hm; assumption|]. split; [apply Hm; assumption|].
    intro y. unfold In; simpl. split.
    + intros [A B]. exists (y * c). split; [|field; exact Hc].
      assert (Ey : y == (y * c) / c) by (field; exact Hc).
      split.
      * destruct (Qlt_le_dec (y * c) (lo I)) as [L|L]; [|exact L]. exfalso.
        assert (lo I / c <= (y * c) / c) by (apply Hm; lra).
        (* strictness *)
        assert (Hs : (y * c) * / (- c) < lo I * / (- c)) by (apply Qmult_lt_compat_r; lra).
        assert (E1 : (y * c) * / (- c) == - y) by (field; exact Hc).
        assert (E2 : lo I * / (- c) == - (lo I / c)) by (field; exact Hc).
        rewrite E1, E2 in Hs. lra.
      * destruct (Qlt_le_dec (hi I) (y * c)) as [L|L]; [|exact L]. exfalso.
        assert (Hs : hi I * / (- c) < (y * c) * / (- c)) by (apply Qmult_lt_compat_r; lra).
        assert (E1 : (y * c) * / (- c) == - y) by (field; exact Hc).
        assert (E2 : hi I * / (- c) == - (hi I / c)) by (field; exact Hc).
        rewrite E1, E2 in Hs. lra.
    + intros [x [[A B] Ey]]. rewrite Ey. split; apply Hm; assumption.
Qed.

(* ---------------------------------------------------------------- rounding *)
Lemma rhe_bounds y : inject_Z (Qfloor y) <= inject_Z (round_half_even y) /\
                     inject_Z (round_half_even y) <= inject_Z (Qfloor y) + 1.
Proof.
  unfold round_half_even.
  assert (E1 : inject_Z (Qfloor y + 1) == inject_Z (Qfloor y) + 1) by (rewrite inject_Z_plus; reflexivity).
  destruct (Qlt_bool _ _); [|destruct (Qlt_bool _ _); [|destruct (Z.even _)]]; rewrite ?E1; split; lra.
Qed.

Lemma rhe_mono x y : x <= y -> (round_half_even x <= round_half_even y)%Z.
Proof.
  intro H.
  pose proof (Qfloor_resp_le _ _ H) as Hf.
  destruct (Z.eq_dec (Qfloor x) (Qfloor y)) as [E|N].
  - unfold round_half_even. rewrite E.
    assert (Hr : x - inject_Z (Qfloor y) <= y - inject_Z (Qfloor y)) by lra.
    set (rx := x - inject_Z (Qfloor y)) in *. set (ry := y - inject_Z (Qfloor y)) in *.
    destruct (Qlt_bool rx (1#2)) eqn:A1; destruct (Qlt_bool ry (1#2)) eqn:A2;
    destruct (Qlt_bool (1#2) rx) eqn:B1; destruct (Qlt_bool (1#2) ry) eqn:B2;
    destruct (Z.even (Qfloor y)); qb; try lia; exfalso; lra.
  - assert (Hlt : (Qfloor x + 1 <= Qfloor y)%Z) by lia.
    destruct (rhe_bounds x) as [_ Hx]. destruct (rhe_bounds y) as [Hy _].
    assert (E1 : inject_Z (Qfloor x + 1) == inject_Z (Qfloor x) + 1) by (rewrite inject_Z_plus; reflexivity).
    rewrite <- E1 in Hx. rewrite <- Zle_Qle in Hx, Hy. lia.
Qed.

Lemma pow10_pos n : 0 < pow10 n.
Proof.
  unfold pow10. change 0 with (inject_Z 0). rewrite <- Zlt_Qlt. apply Z.pow_pos_nonneg; lia.
Qed.

Lemma qround_mono n x y : x <= y -> qround n x <= qround n y.
Proof.
  intro H. unfold qround. pose proof (pow10_pos n) as Hp.
  unfold Qdiv. apply Qmult_le_compat_r; [|apply Qlt_le_weak, Qinv_lt_0_compat; exact Hp].
  rewrite <- Zle_Qle. apply rhe_mono. apply Qmult_le_compat_r; lra.
Qed.

Lemma round_spec n I : WF I ->
  exists K, round n I = Ok K /\ WF K /\ lo K = qround n (lo I) /\ hi K = qround n (hi I) /\
            forall x, In I x -> In K (qround n x).
Proof.
  unfold WF. intro H. exists {| lo := qround n (lo I); hi := qround n (hi I) |}.
  split; [apply mk_ok, qround_mono; exact H|].
  split; [apply qround_mono; exact H|]. repeat split; simpl; apply qround_mono; apply H0.
Qed.

(* ------------------------------------------------------------------ angles *)
Section Angle.
  Variable tau : Q.
  Hypothesis tau_pos : 0 < tau.

  Definition AIn (I : itv) (th : Q) : Prop := exists k : Z, lo I <= th + inject_Z k * tau /\ th + inject_Z k * tau <= hi I.

  Lemma acontains_spec I th : WF I -> hi I - lo I < tau ->
    (acontains tau I th = true <-> AIn I th).
  Proof.
    unfold WF, acontains, AIn. intros Hwf Hlen. rewrite Qle_bool_iff. split.
    - intro H. destruct (qmod_congr tau (th - lo I) tau_pos) as [k Ek].
      destruct (qmod_range tau (th - lo I) tau_pos) as [H0 _].
      exists k. rewrite Ek in H, H0. split; lra.
    - intros [k [A B]].
      rewrite (qmod_unique tau (th - lo I) k tau_pos); lra.
  Qed.

  Lemma int_mul_ge1 (n : Z) : (1 <= n)%Z -> tau <= inject_Z n * tau.
  Proof.
    intro H. assert (1 <= inject_Z n) by (change 1 with (inject_Z 1); rewrite <- Zle_Qle; exact H).
    assert (1 * tau <= inject_Z n * tau) by (apply Qmult_le_compat_r; lra). lra.
  Qed.
  Lemma int_mul_le1 (n : Z) : (n <= -1)%Z -> inject_Z n * tau <= - tau.
  Proof.
    intro H. assert (inject_Z n <= -1) by (change (-1) with (inject_Z (-1)); rewrite <- Zle_Qle; exact H).
    assert (inject_Z n * tau <= (-1) * tau) by (apply Qmult_le_compat_r; lra). lra.
  Qed.

  (* a point strictly between hi I and lo I + tau is in no translate of I *)
  Lemma gap_not_in I p : WF I -> hi I < p -> p < lo I + tau -> ~ AIn I p.
  Proof.
    unfold WF. intros Hwf H1 H2 [k [A B]].
    destruct (Z_lt_le_dec k 0) as [L|L].
    - pose proof (int_mul_le1 k ltac:(lia)). lra.
    - destruct (Z.eq_dec k 0) as [E|N].
      + subst k. change (inject_Z 0) with 0 in *. lra.
      + pose proof (int_mul_ge1 k ltac:(lia)). lra.
  Qed.

  Lemma acontains_itv_spec I J : WF I -> WF J -> hi I - lo I < tau ->
    (acontains_itv tau I J = true <-> forall th, AIn J th -> AIn I th).
  Proof.
    unfold acontains_itv. intros HI HJ Hlen. pose proof HI as HI'. pose proof HJ as HJ'.
    unfold WF in HI', HJ'. rewrite Qle_bool_iff. split.
    - intros H th [j [A B]].
      destruct (qmod_congr tau (lo J - lo I) tau_pos) as [k Ek].
      destruct (qmod_range tau (lo J - lo I) tau_pos) as [H0 _].
      rewrite Ek in H, H0. exists (j + k)%Z. rewrite inject_Z_plus. split; lra.
    - intro H.
      destruct (H (lo J)) as [k [A B]].
      { exists 0%Z. change (inject_Z 0) with 0. split; lra. }
      rewrite (qmod_unique tau (lo J - lo I) k tau_pos); try lra.
      destruct (Qlt_le_dec (hi I) (hi J + inject_Z k * tau)) as [L|L]; [exfalso|lra].
      set (p := Qmin (hi J + inject_Z k * tau) ((hi I + (lo I + tau)) / 2)).
      assert (Hp1 : hi I < p).
      { unfold p. destruct (Q.min_spec (hi J + inject_Z k * tau) ((hi I + (lo I + tau)) / 2)) as [[_ E]|[_ E]];
        rewrite E; [exact L|]. apply Qlt_shift_div_l; lra. }
      assert (Hp2 : p < lo I + tau).
      { unfold p. destruct (Q.min_spec (hi J + inject_Z k * tau) ((hi I + (lo I + tau)) / 2)) as [[C E]|[C E]];
        rewrite E.
        - assert ((hi I + (lo I + tau)) / 2 < lo I + tau) by (apply Qlt_shift_div_r; lra). lra.
        - apply Qlt_shift_div_r; lra. }
      assert (Hp3 : p <= hi J + inject_Z k * tau) by (unfold p; apply Q.le_min_l).
      clearbody p. apply (gap_not_in I p HI Hp1 Hp2).
      assert (HJp : AIn J (p - inject_Z k * tau)).
      { exists 0%Z. change (inject_Z 0) with 0. split; lra. }
      destruct (H _ HJp) as [m [C D]].
      exists (m - k)%Z. unfold Z.sub. rewrite inject_Z_plus, inject_Z_opp. split; lra.
  Qed.

  (* normalisation only shifts both ends by the same multiple of tau *)
  Lemma norm_down_shift fuel : forall a b a1 b1, norm_down tau fuel a b = Some (a1, b1) ->
    (exists k : Z, a1 == a + inject_Z k * tau /\ b1 == b + inject_Z k * tau) /\ a1 <= tau /\ b1 <= tau.
  Proof.
    induction fuel as [|f IH]; intros a b a1 b1 H; simpl in H; [discriminate|].
    destruct (Qlt_bool tau a || Qlt_bool tau b) eqn:E.
    - destruct (IH _ _ _ _ H) as [[k [A B]] C]. split; [|exact C].
      exists (k - 1)%Z. unfold Z.sub. rewrite inject_Z_plus, inject_Z_opp. change (inject_Z 1) with 1. split; lra.
    - inversion H; subst. qb. split.
      + exists 0%Z. change (inject_Z 0) with 0. split; ring.
      + split; apply Qnot_lt_le; assumption.
  Qed.

  Lemma norm_up_shift fuel : forall a b a1 b1, norm_up tau fuel a b = Some (a1, b1) ->
    (exists k : Z, (0 <= k)%Z /\ a1 == a + inject_Z k * tau /\ b1 == b + inject_Z k * tau) /\ - tau <= a1 /\
    (a < - tau -> a1 < 0).
  Proof.
    induction fuel as [|f IH]; intros a b a1 b1 H; simpl in H; [discriminate|].
    destruct (Qlt_bool a (- tau)) eqn:E.
    - destruct (IH _ _ _ _ H) as [[k [K0 [A B]]] [C D]]. split; [|split; [exact C|]].
      + exists (k + 1)%Z. rewrite inject_Z_plus. change (inject_Z 1) with 1. split; [lia|split; lra].
      + intros _. qb. destruct (Qlt_le_dec (a + tau) (- tau)) as [L|L]; [apply D; exact L|].
        (* the recursive call returns immediately *)
        destruct f as [|f']; simpl in H; [discriminate|].
        assert (E2 : Qlt_bool (a + tau) (- tau) = false).
        { apply not_true_iff_false. rewrite Qlt_bool_iff. lra. }
        rewrite E2 in H. inversion H; subst. lra.
    - inversion H; subst. qb. split; [|split].
      + exists 0%Z. change (inject_Z 0) with 0. split; [lia|split; ring].
      + apply Qnot_lt_le; assumption.
      + intro. contradiction.
  Qed.

  Lemma normalise_spec fuel a b a1 b1 : normalise tau fuel a b = Some (a1, b1) ->
    (exists k : Z, a1 == a + inject_Z k * tau /\ b1 == b + inject_Z k * tau).
  Proof.
    unfold normalise. destruct (norm_down tau fuel a b) as [[a0 b0]|] eqn:E; [|discriminate].
    intro H. destruct (norm_down_shift _ _ _ _ _ E) as [[k [A B]] _].
    destruct (norm_up_shift _ _ _ _ _ H) as [[j [_ [C D]]] _].
    exists (k + j)%Z. rewrite inject_Z_plus. split; lra.
  Qed.

  (* for a well-formed argument shorter than tau the constructor never asserts *)
  Lemma amk_total fuel a b r : a <= b -> b - a < tau -> amk tau fuel a b = Some r ->
    exists I, r = Ok I /\ WF I /\ (exists k : Z, lo I == a + inject_Z k * tau /\ hi I == b + inject_Z k * tau) /\
              - tau <= lo I /\ hi I <= tau.
  Proof.
    intros Hab Hlen. unfold amk, normalise.
    destruct (norm_down tau fuel a b) as [[a0 b0]|] eqn:E; [|discriminate].
    destruct (norm_up tau fuel a0 b0) as [[a1 b1]|] eqn:E2; [|discriminate].
    intro H. inversion H; subst; clear H.
    destruct (norm_down_shift _ _ _ _ _ E) as [[k [A B]] [Ca Cb]].
    destruct (norm_up_shift _ _ _ _ _ E2) as [[j [J0 [C D]]] [F G]].
    assert (Hb1 : b1 <= tau).
    { destruct (Qlt_le_dec a0 (- tau)) as [L|L].
      - specialize (G L). lra.
      - (* no iteration of the second loop *)
        destruct fuel as [|f]; simpl in E2; [discriminate|].
        assert (E3 : Qlt_bool a0 (- tau) = false) by (apply not_true_iff_false; rewrite Qlt_bool_iff; lra).
        rewrite E3 in E2. inversion E2; subst. exact Cb. }
    assert (Hlen1 : b1 - a1 < tau) by lra.
    assert (Hle1 : a1 <= b1) by lra.
    exists {| lo := a1; hi := b1 |}.
    assert (V : Qlt_bool (b1 - a1) tau && valid_orientation tau a1 && valid_orientation tau b1 = true).
    { unfold valid_orientation. rewrite !andb_true_iff, !Qle_bool_iff, Qlt_bool_iff. repeat split; lra. }
    rewrite V. split; [apply mk_ok; exact Hle1|]. split; [exact Hle1|]. simpl. split.
    - exists (k + j)%Z. rewrite inject_Z_plus. split; lra.
    - split; lra.
  Qed.

  (* enough fuel always exists: each iteration of the first loop lowers max a b by tau *)
  Lemma norm_down_fuel : forall (n : nat) a b, Qmax a b <= tau * inject_Z (Z.of_nat n) + tau ->
    norm_down tau (S n) a b <> None.
  Proof.
    induction n as [|n IH]; intros a b H.
    - simpl. change (inject_Z (Z.of_nat 0)) with 0 in H.
      assert (a <= tau) by (pose proof (Q.le_max_l a b); lra).
      assert (b <= tau) by (pose proof (Q.le_max_r a b); lra).
      assert (E : Qlt_bool tau a || Qlt_bool tau b = false).
      { apply orb_false_iff. split; apply not_true_iff_false; rewrite Qlt_bool_iff; lra. }
      rewrite E. discriminate.
    - change (norm_down tau (S (S n)) a b) with
        (if Qlt_bool tau a || Qlt_bool tau b then norm_down tau (S n) (a - tau) (b - tau) else Some (a, b)).
      destruct (Qlt_bool tau a || Qlt_bool tau b); [|discriminate].
      apply IH. rewrite Nat2Z.inj_succ in H. unfold Z.succ in H. rewrite inject_Z_plus in H.
      change (inject_Z 1) with 1 in H.
      pose proof (Q.le_max_l a b). pose proof (Q.le_max_r a b).
      apply Q.max_lub; lra.
  Qed.

  Lemma norm_up_fuel : forall (n : nat) a b, - (tau * inject_Z (Z.of_nat n) + tau) <= a ->
    norm_up tau (S n) a b <> None.
  Proof.
    induction n as [|n IH]; intros a b H.
    - simpl. change (inject_Z (Z.of_nat 0)) with 0 in H.
      assert (E : Qlt_bool a (- tau) = false) by (apply not_true_iff_false; rewrite Qlt_bool_iff; lra).
      rewrite E. discriminate.
    - change (norm_up tau (S (S n)) a b) with
        (if Qlt_bool a (- tau) then norm_up tau (S n) (a + tau) (b + tau) else Some (a, b)).
      destruct (Qlt_bool a (- tau)); [|discriminate].
      apply IH. rewrite Nat2Z.inj_succ in H. unfold Z.succ in H. rewrite inject_Z_plus in H.
      change (inject_Z 1) with 1 in H. lra.
  Qed.

  (* shifting an angle interval gives the shifted set modulo tau *)
  Lemma aadd_spec fuel I c K : aadd tau fuel I c = Some (Ok K) ->
    forall th, acontains tau K th = true <-> acontains tau I (th - c) = true.
  Proof.
    unfold aadd, amk. destruct (normalise tau fuel (lo I + c) (hi I + c)) as [[a1 b1]|] eqn:E; [|discriminate].
    destruct (normalise_spec _ _ _ _ _ E) as [k [A B]].
    destruct (Qlt_bool (b1 - a1) tau && valid_orientation tau a1 && valid_orientation tau b1); [|discriminate].
    intro H. inversion H as [H']. apply mk_wf in H'. destruct H' as [_ [El Eh]].
    intro th. unfold acontains. rewrite El, Eh, !Qle_bool_iff.
    assert (E1 : th - a1 == (th - c - lo I) + inject_Z (- k) * tau) by (rewrite inject_Z_opp; lra).
    assert (E2 : b1 - a1 == hi I - lo I) by lra.
    rewrite E1, E2, (qmod_shift tau _ _ tau_pos). reflexivity.
  Qed.
End Angle.
