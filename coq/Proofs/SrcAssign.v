(* Proofs/SrcAssign.v — the table parsed on every run from the four registry helpers of Scenario (Gen/Src_assign.v),
   interpreted by Model/AssignSrc.v, is add_static_to_lanelets / remove_static_from_lanelets / add_dynamic_to_lanelets /
   remove_dynamic_from_lanelets of Model/Assign.v in every world and state; and every id set / assignment dict an
   obstacle is added for is one it is discarded for. *)
From Coq Require Import ZArith Bool List.
Import ListNotations.
From CR Require Import Model.Assign Model.AssignSrc Gen.Src_assign.
Open Scope Z_scope.

Theorem src_add_static_is_model o s : run_add_static src_registry o s = add_static_to_lanelets o s.
Proof. reflexivity. Qed.
Theorem src_remove_static_is_model o s : run_remove_static src_registry o s = remove_static_from_lanelets o s.
Proof. reflexivity. Qed.
Theorem src_add_dynamic_is_model W o s : run_add_dynamic W src_registry o s = add_dynamic_to_lanelets W o s.
Proof. unfold run_add_dynamic, add_dynamic_to_lanelets. destruct (tf W o); reflexivity. Qed.
Theorem src_remove_dynamic_is_model W o s : run_remove_dynamic W src_registry o s = remove_dynamic_from_lanelets W o s.
Proof. unfold run_remove_dynamic, remove_dynamic_from_lanelets. destruct (tf W o); reflexivity. Qed.
Theorem src_registry_covered : covered src_registry = true.
Proof. vm_compute. reflexivity. Qed.
(* the check is not idle: the helpers as they were found (the static remove looked at the shape lanelets only, the
   dynamic remove at the shape lanelets / shape assignment only) leave the centre-only registrations behind *)
Example uncovered_example :
  covered {| rp_add_static := [IShape; ICenter]; rp_remove_static := [IShape]; rp_add_dyn_init := [IShape];
             rp_add_dyn_pred := [DShape]; rp_remove_dyn_init := [IShape]; rp_remove_dyn_pred := [DShape] |} = false.
Proof. vm_compute. reflexivity. Qed.
