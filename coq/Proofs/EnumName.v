From Coq Require Import ZArith String List Bool.
From CR Require Import Model.EnumName.
Import ListNotations.
Open Scope string_scope.

(* a name present in the table is transported unchanged when the numbers of the table are distinct *)
Lemma decode_encode t : numbers_distinct t = true ->
  forall name z, encode t name = Some z -> decode t z = Some name.
Proof.
  induction t as [|[n z0] r IH]; intros Hd name z H; simpl in *; [discriminate|].
  apply andb_true_iff in Hd. destruct Hd as [Hn Hd].
  destruct (String.eqb n name) eqn:E.
  - inversion H; subst. rewrite Z.eqb_refl. apply String.eqb_eq in E. subst. reflexivity.
  - destruct (Z.eqb z0 z) eqn:Ez.
    + (* z0 = z but z also occurs later: contradicts distinctness *)
      apply Z.eqb_eq in Ez. subst z0. exfalso.
      apply negb_true_iff in Hn.
      assert (X : existsb (fun p => Z.eqb (snd p) z) r = true).
      { clear - H. induction r as [|[n' z'] r IHr]; simpl in *; [discriminate|].
        destruct (String.eqb n' name); [inversion H; subst; rewrite Z.eqb_refl; reflexivity|].
        rewrite (IHr H). apply orb_true_r. }
      congruence.
    + apply IH; assumption.
Qed.

(* a name absent from the table is rejected (ValueError), never mapped to something else *)
Lemma encode_absent t name : ~ In name (map fst t) -> encode t name = None.
Proof.
  induction t as [|[n z] r IH]; intro H; simpl in *; [reflexivity|].
  destruct (String.eqb n name) eqn:E.
  - apply String.eqb_eq in E. exfalso. apply H. left. exact E.
  - apply IH. intro Hi. apply H. right. exact Hi.
Qed.
