(* Proofs/SrcCacheTable.v — the tables parsed on every run from the setters of Rectangle, Circle, Polygon, Lanelet,
   TrajectoryPrediction, Obstacle and TrafficLightCycle (Gen/Src_cachetable.v) pass the check of Model/CacheTable.v (evaluated by the
   kernel), so by Proofs/CacheTable.v every history of calls of those setters and of queries leaves every derived value
   equal to what recomputation from the current attributes gives, and every query answers what the object freshly built
   from the current attributes answers — for every way [compute] of deriving the values that reads only the attributes
   of the parsed dependency lists. *)
From Coq Require Import List Bool Arith.
Import ListNotations.
From CR Require Import Model.CacheTable Proofs.CacheTable Gen.Src_cachetable.

Lemma src_rectangle_ok : forallb (setter_ok src_rectangle_caches src_rectangle_deps) src_rectangle_setters = true.
Proof. vm_compute. reflexivity. Qed.
Lemma src_circle_ok : forallb (setter_ok src_circle_caches src_circle_deps) src_circle_setters = true.
Proof. vm_compute. reflexivity. Qed.
Lemma src_polygon_ok : forallb (setter_ok src_polygon_caches src_polygon_deps) src_polygon_setters = true.
Proof. vm_compute. reflexivity. Qed.
Lemma src_lanelet_ok : forallb (setter_ok src_lanelet_caches src_lanelet_deps) src_lanelet_setters = true.
Proof. vm_compute. reflexivity. Qed.
Lemma src_trajectory_prediction_ok :
  forallb (setter_ok src_trajectory_prediction_caches src_trajectory_prediction_deps) src_trajectory_prediction_setters = true.
Proof. vm_compute. reflexivity. Qed.
Lemma src_obstacle_ok : forallb (setter_ok src_obstacle_caches src_obstacle_deps) src_obstacle_setters = true.
Proof. vm_compute. reflexivity. Qed.
Lemma src_traffic_light_cycle_ok :
  forallb (setter_ok src_traffic_light_cycle_caches src_traffic_light_cycle_deps) src_traffic_light_cycle_setters = true.
Proof. vm_compute. reflexivity. Qed.

(* the statement for one class, given its table *)
Definition class_statement (caches : list nat) (deps : nat -> list nat) (T : list setter) : Prop :=
  forall (val : Type) (compute : nat -> (nat -> val) -> val),
    (forall k p p', (forall a, In a (deps k) -> p a = p' a) -> compute k p = compute k p') ->
    forall (ops : list (op val)) (s : st val),
      Forall (from_table val T) ops -> coherent val caches compute s ->
      coherent val caches compute (run val compute s ops) /\
      forall k, In k caches ->
        snd (query val compute k (run val compute s ops))
        = snd (query val compute k (rebuilt val (run val compute s ops))).

Lemma class_statement_of_ok caches deps T :
  forallb (setter_ok caches deps) T = true -> class_statement caches deps T.
Proof.
  intros HT val compute Hext ops s Hops H. split.
  - exact (table_history_coherent val caches deps compute Hext T HT ops s Hops H).
  - intros k Hk. exact (table_answers_as_rebuilt val caches deps compute Hext T HT ops s k Hops H Hk).
Qed.

Theorem src_rectangle_coherent : class_statement src_rectangle_caches src_rectangle_deps src_rectangle_setters.
Proof. exact (class_statement_of_ok _ _ _ src_rectangle_ok). Qed.
Theorem src_circle_coherent : class_statement src_circle_caches src_circle_deps src_circle_setters.
Proof. exact (class_statement_of_ok _ _ _ src_circle_ok). Qed.
Theorem src_polygon_coherent : class_statement src_polygon_caches src_polygon_deps src_polygon_setters.
Proof. exact (class_statement_of_ok _ _ _ src_polygon_ok). Qed.
Theorem src_lanelet_coherent : class_statement src_lanelet_caches src_lanelet_deps src_lanelet_setters.
Proof. exact (class_statement_of_ok _ _ _ src_lanelet_ok). Qed.
Theorem src_trajectory_prediction_coherent :
  class_statement src_trajectory_prediction_caches src_trajectory_prediction_deps src_trajectory_prediction_setters.
Proof. exact (class_statement_of_ok _ _ _ src_trajectory_prediction_ok). Qed.
Theorem src_obstacle_coherent : class_statement src_obstacle_caches src_obstacle_deps src_obstacle_setters.
Proof. exact (class_statement_of_ok _ _ _ src_obstacle_ok). Qed.
Theorem src_traffic_light_cycle_coherent :
  class_statement src_traffic_light_cycle_caches src_traffic_light_cycle_deps src_traffic_light_cycle_setters.
Proof. exact (class_statement_of_ok _ _ _ src_traffic_light_cycle_ok). Qed.
(* the setters of a cycle as they were before the repair of round 3 (the memo of the cumulative durations was kept): refused *)
Example cycle_setter_without_drop_refused :
  length src_traffic_light_cycle_setters = 3 /\
  setter_ok src_traffic_light_cycle_caches src_traffic_light_cycle_deps {| s_attr := 1; s_main := [EStore]; s_tail := [] |} = false /\
  setter_ok src_traffic_light_cycle_caches src_traffic_light_cycle_deps {| s_attr := 2; s_main := [EStore]; s_tail := [] |} = true.
Proof. vm_compute. repeat split; reflexivity. Qed.

(* the tables are not empty, and the check refuses the setters as they were before the repairs (store, nothing else) *)
Example tables_nonvacuous :
  length src_rectangle_setters = 4 /\ length src_circle_setters = 2 /\ length src_polygon_setters = 1 /\
  length src_lanelet_setters = 3 /\ length src_trajectory_prediction_setters = 2 /\ length src_obstacle_setters = 2 /\
  setter_ok src_rectangle_caches src_rectangle_deps {| s_attr := 0; s_main := [EStore]; s_tail := [] |} = false /\
  setter_ok src_lanelet_caches src_lanelet_deps {| s_attr := 1; s_main := [EStore; EDrop 1; ERebuild 2]; s_tail := [] |} = false /\
  setter_ok src_trajectory_prediction_caches src_trajectory_prediction_deps
    {| s_attr := 1; s_main := []; s_tail := [EStore; EDrop 0] |} = false.
Proof. vm_compute. repeat split; reflexivity. Qed.
