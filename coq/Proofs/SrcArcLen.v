(* Proofs/SrcArcLen.v — Model/ArcLen.v (which the C20 theorems are about) equals the Gallina text generated on every
   run from commonroad/scenario/lanelet.py by harness/vlib/py2coq.py + harness/props/c20_src.py (Gen/Src_arclen.v):
   Lanelet._compute_polyline_cumsum_dist([P]), Lanelet.distance and Lanelet.interpolate_position for a lanelet whose
   cached _distance is None.  np.sqrt is the uninterpreted function sqrt_; the model's oracle list [ls] of segment
   lengths is instantiated with [seg_lens sqrt_ C] = map sqrt_ (map norm2 (deltas C)).  Exceptions keep their class
   name ([ires_to_pyres] is injective), "nan" is the model's INan. *)
From Coq Require Import QArith ZArith Bool List String Lia Lqa.
Import ListNotations.
From CR Require Import Base.QMod Base.PyRes Model.ArcLen Proofs.ArcLen Gen.Src_arclen.
Open Scope Q_scope.

Definition ires_to_pyres (r : ires) : pyres (pt * pt * pt * Z) :=
  match r with
  | IOk c r l i => POk (c, r, l, i)
  | IAssert => PRaise "AssertionError"%string
  | IIndex => PRaise "IndexError"%string
  | INan => PRaise "nan"%string
  end.

Lemma ires_to_pyres_inj a b : ires_to_pyres a = ires_to_pyres b -> a = b.
Proof. destruct a, b; simpl; intro H; try discriminate; try reflexivity. injection H; intros; subst; reflexivity. Qed.

Section Eq.
  Variable sqrt_ : Q -> Q.

  (* the segment lengths numpy computes: sqrt of the squared row norms of np.diff *)
  Definition seg_lens (C : list pt) : list Q := map sqrt_ (map norm2 (deltas C)).

  Lemma seg_lens_length C : List.length (seg_lens C) = pred (List.length C).
  Proof. unfold seg_lens. rewrite !map_length. apply deltas_length. Qed.

  (* the array the source builds is the model's [cum] of those lengths (0 + 0 computes to 0) *)
  Lemma src_array_is_cum C :
    cumsum_from 0 (0 :: map sqrt_ (map (fun p_ => px p_ * px p_ + py p_ * py p_ + pz p_ * pz p_) (deltas C)))
    = cum (seg_lens C).
  Proof. reflexivity. Qed.

  Lemma store_guard C :
    negb (Nat.eqb (List.length (0 :: map sqrt_ (map (fun p_ => px p_ * px p_ + py p_ * py p_ + pz p_ * pz p_) (deltas C))))
                  (List.length C)) = match C with [] => true | _ => false end.
  Proof.
    cbn [List.length]. rewrite !map_length, deltas_length.
    destruct C as [|p C]; [reflexivity|]. cbn [List.length pred]. rewrite Nat.eqb_refl. reflexivity.
  Qed.

  Lemma src_cumsum_dist_eq P :
    src_cumsum_dist sqrt_ P = match P with [] => PRaise "ValueError"%string | _ => POk (cum (seg_lens P)) end.
  Proof.
    unfold src_cumsum_dist. rewrite store_guard. destruct P; reflexivity.
  Qed.

  Lemma src_distance_eq l :
    src_distance sqrt_ l
    = match l_center l with [] => PRaise "ValueError"%string | _ => POk (cum (seg_lens (l_center l))) end.
  Proof. exact (src_cumsum_dist_eq (l_center l)). Qed.

  (* ---- the while loop of interpolate_position *)
  Section Loop.
    Variables (l : lanelet) (s : Q).
    Let d := cum (seg_lens (l_center l)).
    Let loop := fun fuel i => interpolate_position_loop0 sqrt_ fuel l s i.

    Lemma loop_unfold fuel i :
      loop (S fuel) i = match py_nth d i with
                        | Some x => if negb (Qle_bool x s) then loop fuel (i + 1)%Z else Some (POk i)
                        | None => Some (PRaise "IndexError"%string)
                        end.
    Proof. reflexivity. Qed.

    (* the translated loop and the model's fix_idx: same index; the model folds IndexError into None *)
    Lemma loop_cases fuel : forall i,
      (loop fuel i = None /\ fix_idx fuel d s i = None) \/
      (loop fuel i = Some (PRaise "IndexError"%string) /\ fix_idx fuel d s i = None) \/
      (exists j, loop fuel i = Some (POk j) /\ fix_idx fuel d s i = Some j).
    Proof.
      induction fuel as [|f IH]; intro i.
      - left. split; reflexivity.
      - rewrite loop_unfold. cbn [fix_idx]. destruct (py_nth d i) as [x|].
        + destruct (Qle_bool x s); cbn [negb].
          * right. right. exists i. split; reflexivity.
          * apply IH.
        + right. left. split; reflexivity.
    Qed.

    (* enough fuel: the loop ends by returning or by IndexError *)
    Lemma loop_terminates fuel : forall i,
      (-1 <= i)%Z -> (Z.of_nat (List.length d) - i <= Z.of_nat fuel)%Z -> loop (S fuel) i <> None.
    Proof.
      induction fuel as [|f IH]; intros i Hi Hf; rewrite loop_unfold.
      - assert (Hn : py_nth d i = None).
        { unfold py_nth. replace (Z.of_nat (List.length d) <=? i)%Z with true by (symmetry; apply Z.leb_le; lia).
          rewrite orb_true_r. reflexivity. }
        rewrite Hn. discriminate.
      - destruct (py_nth d i) as [x|]; [|discriminate].
        destruct (negb (Qle_bool x s)); [|discriminate].
        apply IH; lia.
    Qed.

    Lemma loop_mono fuel : forall i r, loop fuel i = Some r -> loop (S fuel) i = Some r.
    Proof.
      induction fuel as [|f IH]; intros i r H; [discriminate|].
      rewrite loop_unfold in H. rewrite loop_unfold.
      destruct (py_nth d i) as [x|]; [|exact H].
      destruct (negb (Qle_bool x s)); [|exact H]. apply IH. exact H.
    Qed.

    Lemma loop_mono_le f f' i r : (f <= f')%nat -> loop f i = Some r -> loop f' i = Some r.
    Proof. intros Hle H. induction Hle; [exact H|]. apply loop_mono. assumption. Qed.
  End Loop.

  (* the part of interpolate_position after the assertion, as a function of what the loop returned *)
  Definition after_loop (l : lanelet) (s : Q) (o : option (pyres Z)) : option (pyres (pt * pt * pt * Z)) :=
    let d := cum (seg_lens (l_center l)) in
    match o with
    | None => None
    | Some (PRaise e) => Some (PRaise e)
    | Some (POk idx) =>
        Some (match py_nth d idx, py_nth d (idx + 1), py_nth (l_center l) idx, py_nth (l_center l) (idx + 1),
                    py_nth (l_right l) idx, py_nth (l_right l) (idx + 1), py_nth (l_left l) idx, py_nth (l_left l) (idx + 1) with
              | Some d0, Some d1, Some c0, Some c1, Some r0, Some r1, Some l0, Some l1 =>
                  if Qeq_bool (d1 - d0) 0 then PRaise "nan"%string else
                  let r := (s - d0) / (d1 - d0) in POk (lerp r c0 c1, lerp r r0 r1, lerp r l0 l1, idx)
              | _, _, _, _, _, _, _, _ => PRaise "IndexError"%string
              end)
    end.

  Lemma src_interpolate_shape fuel l s :
    l_center l <> [] ->
    src_interpolate sqrt_ fuel l s =
    let d := cum (seg_lens (l_center l)) in
    if Qle_bool s (last d 0) && Qle_bool 0 s
    then after_loop l s (interpolate_position_loop0 sqrt_ fuel l s (Z.of_nat (searchsorted d s) - 1)%Z)
    else Some (PRaise "AssertionError"%string).
  Proof.
    intro Hne. unfold src_interpolate. rewrite store_guard.
    destruct (l_center l) as [|p0 C0] eqn:HC; [congruence|]. rewrite <- HC.
    rewrite !src_array_is_cum. cbv zeta.
    rewrite (py_nth_minus1 (cum (seg_lens (l_center l))) 0) by (unfold cum; discriminate).
    destruct (Qle_bool s (last (cum (seg_lens (l_center l))) 0) && Qle_bool 0 s); [|reflexivity].
    unfold after_loop.
    destruct (interpolate_position_loop0 sqrt_ fuel l s _) as [[idx|e]|]; [|reflexivity|reflexivity].
    destruct (py_nth (cum (seg_lens (l_center l))) idx) as [d0|]; [|reflexivity].
    destruct (py_nth (cum (seg_lens (l_center l))) (idx + 1)) as [d1|]; [|reflexivity].
    destruct (py_nth (l_center l) idx) as [c0|]; [|reflexivity].
    destruct (py_nth (l_center l) (idx + 1)) as [c1|]; [|reflexivity].
    destruct (py_nth (l_right l) idx) as [r0|]; [|reflexivity].
    destruct (py_nth (l_right l) (idx + 1)) as [r1|]; [|reflexivity].
    destruct (py_nth (l_left l) idx) as [l0|]; [|reflexivity].
    destruct (py_nth (l_left l) (idx + 1)) as [l1|]; [|reflexivity].
    destruct (Qeq_bool (d1 - d0) 0); reflexivity.
  Qed.

  (* with the model's fuel (or more) the translated interpolate_position is the model's [interpolate] *)
  Lemma src_interpolate_eq fuel l s :
    l_center l <> [] ->
    (S (S (List.length (cum (seg_lens (l_center l))))) <= fuel)%nat ->
    src_interpolate sqrt_ fuel l s
    = Some (ires_to_pyres (interpolate (l_center l) (l_right l) (l_left l) (seg_lens (l_center l)) s)).
  Proof.
    intros Hne Hfuel. rewrite src_interpolate_shape by exact Hne. unfold interpolate. cbv zeta.
    set (d := cum (seg_lens (l_center l))) in *.
    destruct (Qle_bool s (last d 0) && Qle_bool 0 s); cbn [negb]; [|reflexivity].
    set (i0 := (Z.of_nat (searchsorted d s) - 1)%Z).
    assert (Hterm : interpolate_position_loop0 sqrt_ (S (S (List.length d))) l s i0 <> None).
    { apply loop_terminates; subst i0; fold d; lia. }
    destruct (loop_cases l s (S (S (List.length d))) i0) as [[H1 _]|[[H1 H2]|[j [H1 H2]]]].
    - fold d in H1. contradiction.
    - fold d in H1, H2. rewrite (loop_mono_le l s _ fuel i0 _ Hfuel H1). rewrite H2. reflexivity.
    - fold d in H1, H2. rewrite (loop_mono_le l s _ fuel i0 _ Hfuel H1). rewrite H2.
      unfold after_loop. fold d.
      destruct (py_nth d j) as [d0|]; [|reflexivity].
      destruct (py_nth d (j + 1)) as [d1|]; [|reflexivity].
      destruct (py_nth (l_center l) j) as [c0|]; [|reflexivity].
      destruct (py_nth (l_center l) (j + 1)) as [c1|]; [|reflexivity].
      destruct (py_nth (l_right l) j) as [r0|]; [|reflexivity].
      destruct (py_nth (l_right l) (j + 1)) as [r1|]; [|reflexivity].
      destruct (py_nth (l_left l) j) as [l0|]; [|reflexivity].
      destruct (py_nth (l_left l) (j + 1)) as [l1|]; [|reflexivity].
      destruct (Qeq_bool (d1 - d0) 0); reflexivity.
  Qed.

  (* an empty centre line: the column store of _compute_polyline_cumsum_dist raises *)
  Lemma src_interpolate_empty fuel l s :
    l_center l = [] -> src_interpolate sqrt_ fuel l s = Some (PRaise "ValueError"%string).
  Proof. intro H. unfold src_interpolate. rewrite store_guard, H. reflexivity. Qed.
  (* the oracle hypothesis of the C20 theorems holds for the lengths the source computes, for any sqrt_ that is a
     square root on the non-negative rationals it is applied to *)
  Lemma norm2_nonneg d : 0 <= norm2 d.
  Proof.
    unfold norm2.
    assert (Hsq : forall x : Q, 0 <= x * x) by (intro x; rewrite <- (Qmult_0_l 0); destruct (Qlt_le_dec x 0) as [H|H];
      [setoid_replace (x * x) with ((- x) * (- x)) by ring; apply Qmult_le_compat_nonneg; split; try apply Qle_refl;
       apply (Qopp_le_compat x 0), Qlt_le_weak, H
      | apply Qmult_le_compat_nonneg; split; try apply Qle_refl; exact H]).
    pose proof (Hsq (px d)). pose proof (Hsq (py d)). pose proof (Hsq (pz d)). lra.
  Qed.

  Lemma seg_lens_valid P :
    (forall x, 0 <= x -> 0 <= sqrt_ x /\ sqrt_ x * sqrt_ x == x) -> valid_lens P (seg_lens P).
  Proof.
    intro Hs. unfold valid_lens, seg_lens. induction (deltas P) as [|d D IH]; simpl; constructor; [|exact IH].
    apply Hs, norm2_nonneg.
  Qed.
End Eq.
