(* Proofs/CachesEx.v — C11: non-vacuity examples in the token world of Corr/C11.v, and the witnesses showing
   that coherence is a real demand: the three mutators as they were before the repairs (no invalidation), and the
   two operations cut from the admissible domain, each break it. *)
From Coq Require Import List ZArith Bool Arith.
From CR Require Import Base.G5Machine Model.Caches Proofs.Caches Corr.C11.
Import ListNotations.
Open Scope Z_scope.

Definition p0 : pred TokW := p_build TokW (T 1, T 2).

(* query; translate_rotate; query — the second answer is computed from the moved trajectory *)
Example ex_pred_history :
  trace (pstep TokW) [PQOccSet TokW; PMove TokW 7; PQOccSet TokW; PQOccAt TokW 3] p0
  = [PROccs TokW (T 1, T 2); PRUnit TokW; PROccs TokW (T 1, Mv 7 (T 2)); PROcc TokW (Some (3, (T 1, Mv 7 (T 2))))]
  /\ p_status (run (pstep TokW) [PQOccSet TokW; PMove TokW 7] p0) = [Empty]
  /\ p_status (run (pstep TokW) [PQOccSet TokW; PMove TokW 7; PQOccSet TokW] p0) = [Valid].
Proof. vm_compute. repeat split. Qed.

(* TrajectoryPrediction.translate_rotate before the repair: the states are replaced, the cached set stays *)
Definition pmove_old (p : pred TokW) (m : Z) : pred TokW :=
  {| p_shape := p_shape TokW p; p_traj := move_traj TokW m (p_traj TokW p); p_occ := p_occ TokW p |}.
Example old_pred_move_stale :
  let p := fst (pstep TokW p0 (PQOccSet TokW)) in PCoh TokW p /\ ~ PCoh TokW (pmove_old p 7).
Proof.
  split.
  - intros c H. vm_compute in H. inversion H. reflexivity.
  - intros H. specialize (H (T 1, T 2) eq_refl). vm_compute in H. discriminate.
Qed.

(* TrafficLightCycle.time_offset setter before the repair *)
Definition c0 : cycle TokW := c_build TokW ([(0, 3); (1, 2)], 0, true).
Definition cset_offset_old (c : cycle TokW) (k : Z) : cycle TokW :=
  {| c_elems := c_elems TokW c; c_off := k; c_active := c_active TokW c; c_cum := c_cum TokW c |}.
Example old_cycle_offset_stale :
  let c := fst (cstep TokW c0 (CQInit TokW)) in CCoh TokW c /\ ~ CCoh TokW (cset_offset_old c 1) /\
  c_status (fst (cstep TokW c (CSetOffset TokW 1))) = [Empty] /\
  snd (cstep TokW (fst (cstep TokW c (CSetOffset TokW 1))) (CQInit TokW)) = CRCum TokW [1; 4; 6].
Proof.
  split; [|split; [|split]].
  - intros x H. vm_compute in H. inversion H. reflexivity.
  - intros H. specialize (H [0; 3; 5] eq_refl). vm_compute in H. discriminate.
  - reflexivity.
  - reflexivity.
Qed.

(* LaneletNetwork.translate_rotate before the repair: lanelets moved, index untouched *)
Definition n0 : net TokW := n_build TokW (Build_nprim TokW [(1, T 10); (2, T 20)] []).
Definition n_move_old (n : net TokW) (m : Z) : net TokW :=
  {| n_lanelets := map (fun l => fst (lstep TokW l (LMove TokW m))) (n_lanelets TokW n);
     n_buffered := n_buffered TokW n; n_tree := n_tree TokW n; n_lights := n_lights TokW n |}.
Example old_net_move_stale :
  n_status n0 = [Valid; Valid; Valid; Empty; Empty; Valid; Empty; Empty] /\
  n_status (n_move_old n0 5) = [Stale; Stale; Valid; Empty; Empty; Valid; Empty; Empty] /\
  n_status (fst (nstep TokW n0 (NMove TokW 5))) = [Valid; Valid; Valid; Empty; Empty; Valid; Empty; Empty].
Proof. vm_compute. repeat split. Qed.

Lemma n0_coh : NCoh TokW n0.
Proof. apply n_build_coh. Qed.

(* the two cuts of the admissible domain are necessary: moving a member lanelet behind the network's back, and
   removing a lanelet with rtree=False, leave the index stale *)
Example member_move_breaks :
  n_ok TokW n0 (NLanelet TokW 0 (LMove TokW 5)) = false /\
  ~ NCoh TokW (fst (nstep TokW n0 (NLanelet TokW 0 (LMove TokW 5)))).
Proof.
  split; [reflexivity|]. intros [_ [_ [_ [H _]]]]. vm_compute in H. discriminate.
Qed.
Example deferred_remove_breaks :
  n_ok TokW n0 (NRemove TokW 1 false) = false /\ ~ NCoh TokW (fst (nstep TokW n0 (NRemove TokW 1 false))).
Proof.
  split; [reflexivity|]. intros [_ [_ [_ [_ [H _]]]]]. specialize (H _ eq_refl). vm_compute in H. discriminate.
Qed.

(* update_initial_state with max_history_length = 2 on a history of two *)
Definition d0 : odata TokW :=
  Build_odata TokW false (T 1) (5, T 2) (Some 50) None (Some 52) None
              [(3, T 3); (4, T 4)] [None; Some 40] [None; None] [Some 32; None].
Example ex_update_initial_state :
  let o := o_build TokW (d0, PPTraj TokW (T 6) (T 7)) in
  let o' := fst (ostep TokW o (OUpdateInit TokW (6, T 8) None (Some 61) None 2)) in
  d_hist TokW (o_data TokW o') = [(4, T 4); (5, T 2)] /\ d_sighist TokW (o_data TokW o') = [Some 40; Some 50] /\
  d_shphist TokW (o_data TokW o') = [None; Some 52] /\ o_status o' = [Valid; Empty] /\
  o_pred TokW o' = PNone TokW /\ d_init TokW (o_data TokW o') = (6, T 8).
Proof. vm_compute. repeat split. Qed.

(* a scenario history: read the occupancies, move everything, look up lanelets and occupancies again *)
Definition s0 : scen TokW :=
  s_build TokW (Build_nprim TokW [(1, T 10)] [([(0, 3)], 0, true)],
                [(d0, PPTraj TokW (T 6) (T 7))]).
Example ex_scenario_history :
  let ops := [SQOccs TokW 6; SNet TokW (NQPos TokW tt); SMove TokW 9; SQOccs TokW 6; SNet TokW (NQPos TokW tt)] in
  all_ok (sstep TokW) (s_ok TokW) ops s0 = true /\
  nth 3 (trace (sstep TokW) ops s0) (SRUnit TokW) = SROccs TokW [(6, (T 6, Mv 9 (T 7)))] /\
  s_status (run (sstep TokW) ops s0) = [Valid; Valid; Valid; Empty; Empty; Empty; Valid; Valid].
Proof. vm_compute. repeat split. Qed.
