(* Proofs/DrawParams.v — lemmas about Model/DrawParams.v (generic in the tree) and the side conditions of the
   generated tables Gen/Tables_C19.v (closed by vm_compute; re-checked against the source on every run). *)
From Coq Require Import ZArith QArith String List Bool.
Import ListNotations.
From CR Require Import Model.DrawParams Gen.Tables_C19.
Open Scope string_scope.
Open Scope list_scope.

(* ---------------------------------------------------------------- set, unfolded *)
Lemma set_unfold : forall name v c fs, set name v (Node c fs) = Node c (map (upd name v) fs).
Proof.
  intros name v c fs. simpl. f_equal.
  induction fs as [|[k x] r IH]; simpl; [reflexivity|].
  rewrite IH. unfold upd, push. simpl. destruct (String.eqb k name); reflexivity.
Qed.

Lemma assoc_map_upd : forall name v k fs,
  assoc k (map (upd name v) fs) =
  match assoc k fs with
  | None => None
  | Some x => Some (if String.eqb k name then v else push name v x)
  end.
Proof.
  intros name v k fs. induction fs as [|[k' x] r IH]; simpl; [reflexivity|].
  unfold upd at 1. simpl.
  destruct (String.eqb k' name) eqn:En; simpl.
  - destruct (String.eqb k' k) eqn:Ek.
    + apply String.eqb_eq in Ek. subst k'. rewrite En. reflexivity.
    + exact IH.
  - destruct (String.eqb k' k) eqn:Ek.
    + apply String.eqb_eq in Ek. subst k'. rewrite En. reflexivity.
    + exact IH.
Qed.

Lemma field_set : forall name v n k,
  field (set name v n) k =
  match field n k with
  | None => None
  | Some x => Some (if String.eqb k name then v else push name v x)
  end.
Proof.
  intros name v [c fs] k. rewrite set_unfold. unfold field. simpl. apply assoc_map_upd.
Qed.

(* the class of a group and the names it declares never change *)
Lemma cls_set : forall name v n, cls_of (set name v n) = cls_of n.
Proof. intros name v [c fs]. rewrite set_unfold. reflexivity. Qed.

Lemma declares_set : forall name v n k, declares (set name v n) k = declares n k.
Proof. intros. unfold declares. rewrite field_set. destruct (field n k); reflexivity. Qed.

(* ---------------------------------------------------------------- the propagation theorem *)
(* for every group reachable without passing through a field called [name], and every field k of it:
   k = name and declared: the new value;  k = name and not declared: still not declared;
   any other field: the old value, nested groups having received the assignment themselves *)
Theorem set_lookup : forall name v p n k, ~ In name p ->
  lookup (set name v n) p k =
  match lookup n p k with
  | None => None
  | Some x => Some (if String.eqb k name then v else push name v x)
  end.
Proof.
  intros name v p. induction p as [|c r IH]; intros n k Hp; simpl.
  - apply field_set.
  - rewrite field_set.
    assert (Hc : String.eqb c name = false).
    { apply String.eqb_neq. intro E. apply Hp. left. exact E. }
    assert (Hr : ~ In name r) by (intro H; apply Hp; right; exact H).
    destruct (field n c) as [x|]; [|reflexivity].
    rewrite Hc. destruct x; simpl; try reflexivity.
    apply IH. exact Hr.
Qed.

Corollary set_declared : forall name v p n old, ~ In name p ->
  lookup n p name = Some old -> lookup (set name v n) p name = Some v.
Proof. intros. rewrite set_lookup by assumption. rewrite H0. rewrite String.eqb_refl. reflexivity. Qed.

Corollary set_undeclared : forall name v p n k, ~ In name p ->
  lookup n p k = None -> lookup (set name v n) p k = None.
Proof. intros. rewrite set_lookup by assumption. rewrite H0. reflexivity. Qed.

Definition is_group (x : val) : bool := match x with VNode _ => true | _ => false end.

Corollary set_other_unchanged : forall name v p n k x, ~ In name p -> k <> name ->
  lookup n p k = Some x -> is_group x = false -> lookup (set name v n) p k = Some x.
Proof.
  intros name v p n k x Hp Hk Hl Hg. rewrite set_lookup by assumption. rewrite Hl.
  apply String.eqb_neq in Hk. rewrite Hk. destruct x; simpl in *; try reflexivity. discriminate.
Qed.

Corollary set_group_stays : forall name v p n k m, ~ In name p -> k <> name ->
  lookup n p k = Some (VNode m) -> lookup (set name v n) p k = Some (VNode (set name v m)).
Proof.
  intros name v p n k m Hp Hk Hl. rewrite set_lookup by assumption. rewrite Hl.
  apply String.eqb_neq in Hk. rewrite Hk. reflexivity.
Qed.

(* the set of groups does not change (paths that do not pass through the assigned name) *)
Lemma subnode_set : forall name v p n, ~ In name p ->
  subnode (set name v n) p = match subnode n p with Some m => Some (set name v m) | None => None end.
Proof.
  intros name v p. induction p as [|c r IH]; intros n Hp; simpl; [reflexivity|].
  rewrite field_set.
  assert (Hc : String.eqb c name = false).
  { apply String.eqb_neq. intro E. apply Hp. left. exact E. }
  assert (Hr : ~ In name r) by (intro H; apply Hp; right; exact H).
  destruct (field n c) as [x|]; [|reflexivity].
  rewrite Hc. destruct x; simpl; try reflexivity. apply IH. exact Hr.
Qed.

(* assigning the same name twice: the last value wins everywhere (scalar values) *)
Lemma set_attr_scalar : forall name v n, is_group v = false -> set_attr name v n = Some (set name v n).
Proof. intros name v n H. unfold set_attr. destruct v; simpl in *; try reflexivity. discriminate. Qed.

(* ---------------------------------------------------------------- assignment on a nested group *)
Lemma assoc_map_at : forall (c : string) (f : val -> val) k fs,
  assoc k (map (fun kv : string * val => if String.eqb (fst kv) c then (fst kv, f (snd kv)) else kv) fs) =
  match assoc k fs with
  | None => None
  | Some x => Some (if String.eqb k c then f x else x)
  end.
Proof.
  intros c f k fs. induction fs as [|[k' x] r IH]; simpl; [reflexivity|].
  destruct (String.eqb k' c) eqn:Ec; simpl.
  - destruct (String.eqb k' k) eqn:Ek.
    + apply String.eqb_eq in Ek. subst k'. rewrite Ec. reflexivity.
    + exact IH.
  - destruct (String.eqb k' k) eqn:Ek.
    + apply String.eqb_eq in Ek. subst k'. rewrite Ec. reflexivity.
    + exact IH.
Qed.

Lemma field_set_at_cons : forall c r name v n k,
  field (set_at (c :: r) name v n) k =
  match field n k with
  | None => None
  | Some x => Some (if String.eqb k c then descend (set_at r name v) x else x)
  end.
Proof.
  intros c r name v [cl fs] k. unfold field. cbn [set_at fields].
  apply (assoc_map_at c (descend (set_at r name v))).
Qed.

Lemma lookup_cons : forall n c r k,
  lookup n (c :: r) k = match field n c with Some (VNode m) => lookup m r k | _ => None end.
Proof. reflexivity. Qed.
Lemma subnode_cons : forall n c r,
  subnode n (c :: r) = match field n c with Some (VNode m) => subnode m r | _ => None end.
Proof. reflexivity. Qed.

(* inside the group q the assignment is the one of [set] on that group *)
Theorem set_at_inside : forall q name v n m p k,
  subnode n q = Some m -> lookup (set_at q name v n) (q ++ p) k = lookup (set name v m) p k.
Proof.
  intros q name v. induction q as [|c r IH]; intros n m p k Hs.
  - simpl in Hs. inversion Hs. reflexivity.
  - rewrite subnode_cons in Hs. rewrite <- app_comm_cons. rewrite lookup_cons.
    rewrite field_set_at_cons.
    destruct (field n c) as [x|] eqn:Ef; [|discriminate].
    rewrite String.eqb_refl. destruct x; try discriminate.
    unfold descend. apply IH. exact Hs.
Qed.

(* every field that is neither inside q nor on the way to it keeps its value *)
Theorem set_at_outside : forall q name v p n k,
  untouched q p k = true -> lookup (set_at q name v n) p k = lookup n p k.
Proof.
  intros q name v. induction q as [|c r IH]; intros p n k Hu; [discriminate|].
  destruct p as [|d s].
  - simpl in Hu. change (lookup (set_at (c :: r) name v n) [] k) with (field (set_at (c :: r) name v n) k).
    change (lookup n [] k) with (field n k).
    rewrite field_set_at_cons. destruct (field n k) as [x|]; [|reflexivity].
    apply negb_true_iff in Hu. rewrite Hu. reflexivity.
  - rewrite !lookup_cons. rewrite field_set_at_cons.
    destruct (field n d) as [x|]; [|reflexivity].
    simpl in Hu.
    destruct (String.eqb d c) eqn:Edc.
    + apply String.eqb_eq in Edc. subst d. rewrite String.eqb_refl in Hu.
      destruct x; try reflexivity. unfold descend. apply IH. exact Hu.
    + destruct x; reflexivity.
Qed.

(* ---------------------------------------------------------------- side conditions of the generated tables *)
Definition base_names : list string := ["time_begin"; "time_end"; "antialiased"].

(* every group of the generated tree: distinct field names, declares the three base fields, and holds the root's
   values of them (what __post_init__ establishes) *)
Definition group_ok (root : node) (p : list string) : bool :=
  match subnode root p with
  | None => false
  | Some m =>
      nodup_keys (fields m) &&
      forallb (fun k => match field m k, field root k with
                        | Some x, Some y => val_eqb x y
                        | _, _ => false
                        end) base_names
  end.

Lemma mp_default_conforms : conforms classes mp_default = true.
Proof. vm_compute. reflexivity. Qed.

Lemma mp_default_groups_ok : forallb (group_ok mp_default) (all_paths mp_default) = true.
Proof. vm_compute. reflexivity. Qed.

Lemma classes_nodup : nodup_keys classes = true /\ forallb (fun cd => nodup_keys (snd cd)) classes = true.
Proof. split; vm_compute; reflexivity. Qed.

Lemma classes_no_self_nesting : no_self_nesting classes = true.
Proof. vm_compute. reflexivity. Qed.

Lemma mp_default_post_init_fixpoint : node_eqb (post_init mp_default) mp_default = true.
Proof. vm_compute. reflexivity. Qed.

(* no path of the generated tree passes through a field called like a base field *)
Definition avoids (k : string) (p : list string) : bool := negb (existsb (String.eqb k) p).
Lemma mp_default_paths_avoid_base :
  forallb (avoids "time_begin") (all_paths mp_default) = true /\
  forallb (avoids "time_end") (all_paths mp_default) = true /\
  forallb (avoids "antialiased") (all_paths mp_default) = true.
Proof. repeat split; vm_compute; reflexivity. Qed.

Lemma existsb_eqb_In : forall k p, existsb (String.eqb k) p = false -> ~ In k p.
Proof.
  intros k p H Hin. induction p as [|c r IH]; simpl in *; [exact Hin|].
  apply orb_false_iff in H. destruct H as [H1 H2]. destruct Hin as [E|Hin].
  - subst c. rewrite String.eqb_refl in H1. discriminate.
  - exact (IH H2 Hin).
Qed.

(* a time window assigned at the top level of the tree MPDrawParams() constructs is the window of every group *)
Theorem default_window_everywhere : forall tb te p, In p (all_paths mp_default) ->
  let t := set "time_end" (VZ te) (set "time_begin" (VZ tb) mp_default) in
  lookup t p "time_begin" = Some (VZ tb) /\ lookup t p "time_end" = Some (VZ te).
Proof.
  intros tb te p Hin t.
  pose proof mp_default_groups_ok as Hok. rewrite forallb_forall in Hok. specialize (Hok p Hin).
  destruct mp_default_paths_avoid_base as [Hb [He _]].
  rewrite forallb_forall in Hb, He. specialize (Hb p Hin). specialize (He p Hin).
  unfold avoids in Hb, He. apply negb_true_iff in Hb. apply negb_true_iff in He.
  apply existsb_eqb_In in Hb. apply existsb_eqb_In in He.
  unfold group_ok in Hok. destruct (subnode mp_default p) as [m|] eqn:Hs; [|discriminate].
  apply andb_true_iff in Hok. destruct Hok as [_ Hok]. simpl in Hok.
  repeat rewrite andb_true_iff in Hok. destruct Hok as [H1 [H2 _]].
  assert (Hl : forall k, lookup mp_default p k = field m k).
  { clear - Hs. revert Hs. generalize mp_default as n. induction p as [|c r IH]; intros n Hs k; simpl in *.
    - inversion Hs. reflexivity.
    - destruct (field n c) as [x|]; [|discriminate]. destruct x; try discriminate. apply IH. exact Hs. }
  destruct (field m "time_begin") as [xb|] eqn:Fb; [|discriminate].
  destruct (field m "time_end") as [xe|] eqn:Fe; [|discriminate].
  unfold t. split.
  - rewrite set_lookup by exact He.
    rewrite (set_declared "time_begin" (VZ tb) p mp_default xb Hb) by (rewrite Hl; exact Fb).
    reflexivity.
  - apply (set_declared "time_end" (VZ te) p _ (push "time_begin" (VZ tb) xe)); [exact He|].
    rewrite set_lookup by exact Hb. rewrite Hl, Fe. reflexivity.
Qed.

(* non-vacuity: the generated tree has nested groups three levels deep that are reached *)
Example default_window_example :
  let t := set "time_end" (VZ 9) (set "time_begin" (VZ 4) mp_default) in
  lookup t ["dynamic_obstacle"; "vehicle_shape"; "occupancy"; "shape"] "time_begin" = Some (VZ 4) /\
  lookup t ["phantom_obstacle"] "time_end" = Some (VZ 9) /\
  lookup t ["dynamic_obstacle"] "draw_shape" = lookup mp_default ["dynamic_obstacle"] "draw_shape" /\
  lookup t [] "draw_shape" = None /\
  (40 <=? Z.of_nat (length (all_paths mp_default)))%Z = true.
Proof. vm_compute. repeat split; reflexivity. Qed.

(* a group-valued assignment: every slot of that name receives the group, other slots keep theirs *)
Example group_assignment_example :
  match field mp_default "occupancy" with
  | Some (VNode occ) =>
      let occ' := set "draw_occupancies" (VB true) occ in
      match set_attr "occupancy" (VNode occ') mp_default with
      | Some t =>
          val_eqb (VNode occ') match lookup t ["dynamic_obstacle"] "occupancy" with Some x => x | None => VNone end
          && val_eqb (VNode occ') match lookup t ["dynamic_obstacle"; "history"] "occupancy" with Some x => x | None => VNone end
          && match lookup t ["dynamic_obstacle"; "vehicle_shape"] "occupancy" with Some (VNode _) => true | _ => false end
      | None => false
      end
  | _ => false
  end = true.
Proof. vm_compute. reflexivity. Qed.
