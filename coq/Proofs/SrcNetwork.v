(* Proofs/SrcNetwork.v — the rule lists and remove frames parsed on every run from LaneletNetwork.cleanup_*_references
   and remove_* (Gen/Src_network.v), run by the interpreter of Model/NetworkSrc.v, compute cleanup_lanelets /
   cleanup_signs / cleanup_lights and net_remove_lanelet / _sign / _light / _inter of Model/Network.v on every network.
   Proved on the parsed programs themselves (rules in another order that give the same function still prove). *)
From Coq Require Import ZArith List Bool.
Import ListNotations.
From CR Require Import Base.G2Fold Model.Network Proofs.Network Model.NetworkSrc Gen.Src_network.
Open Scope Z_scope.

Lemma keepd_keepo k o d : keepd k (keepo k o) d = keepd k o d.
Proof. destruct o as [z|]; cbn; [|reflexivity]. destruct (k z) eqn:E; cbn; rewrite ?E; reflexivity. Qed.
Lemma keepo_keepo k o : keepo k (keepo k o) = keepo k o.
Proof. destruct o as [z|]; cbn; [|reflexivity]. destruct (k z) eqn:E; cbn; rewrite ?E; reflexivity. Qed.

Ltac run_rules :=
  cbv [src_cleanup_lanelets src_cleanup_signs src_cleanup_lights cp_lanelet cp_incoming cp_inter fold_left
       lrule_apply irule_apply xrule_apply
       l_id l_pred l_succ l_adjL l_adjL_dir l_adjR l_adjR_dir l_signs l_lights l_stop l_types l_payload
       i_id i_lanelets i_right i_straight i_left i_leftof x_id x_incs x_cross
       clean_lanelet_l clean_lanelet_s clean_lanelet_t clean_incoming_l clean_inter_l];
  rewrite ?keepd_keepo, ?keepo_keepo.

Lemma src_lanelet_rules_l k l : fold_left (lrule_apply k) (cp_lanelet src_cleanup_lanelets) l = clean_lanelet_l k l.
Proof. destruct l. run_rules. reflexivity. Qed.
Lemma src_incoming_rules_l k i : fold_left (irule_apply k) (cp_incoming src_cleanup_lanelets) i = clean_incoming_l k i.
Proof. destruct i. run_rules. reflexivity. Qed.
Lemma src_lanelet_rules_s k l : fold_left (lrule_apply k) (cp_lanelet src_cleanup_signs) l = clean_lanelet_s k l.
Proof. destruct l as [a b c d e f g h i [[s t]|] j m]; run_rules; reflexivity. Qed.
Lemma src_lanelet_rules_t k l : fold_left (lrule_apply k) (cp_lanelet src_cleanup_lights) l = clean_lanelet_t k l.
Proof. destruct l as [a b c d e f g h i [[s t]|] j m]; run_rules; reflexivity. Qed.

Theorem src_cleanup_lanelets_is_model n : run_cleanup src_cleanup_lanelets n = cleanup_lanelets n.
Proof.
  unfold run_cleanup, cleanup_lanelets. change (cp_universe src_cleanup_lanelets) with ULanelets. cbn [ids_of].
  f_equal.            (* components that are convertible are closed by f_equal itself *)
  all: try (apply map_ext; intro l; apply src_lanelet_rules_l).
  all: try (apply map_ext; intro x; destruct x as [xi incs cr];
            cbv [src_cleanup_lanelets cp_inter fold_left xrule_apply x_id x_incs x_cross clean_inter_l]; f_equal;
            apply map_ext; intro i; apply src_incoming_rules_l).
Qed.

Lemma map_id_ext {A} (f : A -> A) l : (forall x, f x = x) -> map f l = l.
Proof. intro H. induction l as [|x l IH]; [reflexivity|]. cbn. rewrite H, IH. reflexivity. Qed.

Theorem src_cleanup_signs_is_model n : run_cleanup src_cleanup_signs n = cleanup_signs n.
Proof.
  unfold run_cleanup, cleanup_signs. change (cp_universe src_cleanup_signs) with USigns. cbn [ids_of].
  f_equal.
  all: try (apply map_ext; intro l; apply src_lanelet_rules_s).
  all: try (apply map_id_ext; intros [xi incs cr];
            cbv [src_cleanup_signs cp_inter cp_incoming fold_left x_id x_incs x_cross]; f_equal; apply map_id_ext; reflexivity).
Qed.
Theorem src_cleanup_lights_is_model n : run_cleanup src_cleanup_lights n = cleanup_lights n.
Proof.
  unfold run_cleanup, cleanup_lights. change (cp_universe src_cleanup_lights) with ULights. cbn [ids_of].
  f_equal.
  all: try (apply map_ext; intro l; apply src_lanelet_rules_t).
  all: try (apply map_id_ext; intros [xi incs cr];
            cbv [src_cleanup_lights cp_inter cp_incoming fold_left x_id x_incs x_cross]; f_equal; apply map_id_ext; reflexivity).
Qed.

(* deleting an id that is not a key changes nothing *)
Lemma filter_absent {A} (key : A -> Z) i l :
  mem i (map key l) = false -> filter (fun a => negb (key a =? i)) l = l.
Proof.
  induction l as [|a l IH]; [reflexivity|]. cbn [map mem existsb filter]. intro H.
  apply orb_false_iff in H. destruct H as [H1 H2]. rewrite Z.eqb_sym in H1. rewrite H1. cbn [negb].
  f_equal. apply IH. exact H2.
Qed.

Theorem src_remove_lanelet_is_model i n :
  run_remove src_remove_lanelet (run_cleanup src_cleanup_lanelets) i n = net_remove_lanelet i n.
Proof.
  unfold run_remove, net_remove_lanelet. cbv [src_remove_lanelet rp_cleanup rp_dict ids_of del_from].
  destruct (mem i (lanelet_ids n)); [apply src_cleanup_lanelets_is_model | reflexivity].
Qed.
Theorem src_remove_sign_is_model i n :
  run_remove src_remove_sign (run_cleanup src_cleanup_signs) i n = net_remove_sign i n.
Proof.
  unfold run_remove, net_remove_sign. cbv [src_remove_sign rp_cleanup rp_dict ids_of del_from].
  destruct (mem i (sign_ids n)); [apply src_cleanup_signs_is_model | reflexivity].
Qed.
Theorem src_remove_light_is_model i n :
  run_remove src_remove_light (run_cleanup src_cleanup_lights) i n = net_remove_light i n.
Proof.
  unfold run_remove, net_remove_light. cbv [src_remove_light rp_cleanup rp_dict ids_of del_from].
  rewrite src_cleanup_lights_is_model.
  destruct (mem i (light_ids n)) eqn:E; [reflexivity|].
  unfold light_ids in E. rewrite (filter_absent fst i (lights n) E). destruct n; reflexivity.
Qed.
Theorem src_remove_inter_is_model i n :
  run_remove src_remove_inter (fun m => m) i n = net_remove_inter i n.
Proof.
  unfold run_remove, net_remove_inter. cbv [src_remove_inter rp_cleanup rp_dict ids_of del_from].
  destruct (mem i (inter_ids n)) eqn:E; [reflexivity|].
  unfold inter_ids in E. rewrite (filter_absent x_id i (inters n) E). destruct n; reflexivity.
Qed.

(* ---- what the parsed remove methods compute on a well-formed network: the kept part, with exactly the references to
   the removed element gone (Proofs/Network.v: remove_* = restrict) *)
Theorem src_remove_lanelet_is_restrict i n : WF n ->
  run_remove src_remove_lanelet (run_cleanup src_cleanup_lanelets) i n = restrict (neq i) all all all n.
Proof. intro H. rewrite src_remove_lanelet_is_model. exact (net_remove_lanelet_spec i n H). Qed.
Theorem src_remove_sign_is_restrict i n : WF n ->
  run_remove src_remove_sign (run_cleanup src_cleanup_signs) i n = restrict all (neq i) all all n.
Proof. intro H. rewrite src_remove_sign_is_model. exact (net_remove_sign_spec i n H). Qed.
Theorem src_remove_light_is_restrict i n : WF n ->
  run_remove src_remove_light (run_cleanup src_cleanup_lights) i n = restrict all all (neq i) all n.
Proof. intro H. rewrite src_remove_light_is_model. exact (net_remove_light_spec i n H). Qed.
Theorem src_remove_inter_is_restrict i n : WF n ->
  run_remove src_remove_inter (fun m => m) i n = restrict all all all (neq i) n.
Proof. intro H. rewrite src_remove_inter_is_model. exact (net_remove_inter_spec i n H). Qed.

(* ---- create_from_lanelet_list with the parsed cleanup methods is from_list (cleanup_ids = True); the three cleanups
   commute on a network that holds lanelets only in the sense that the parsed order gives the model's composition *)
Definition src_clean (k : ckind) : network -> network :=
  match k with
  | CkLanelets => run_cleanup src_cleanup_lanelets
  | CkSigns => run_cleanup src_cleanup_signs
  | CkLights => run_cleanup src_cleanup_lights
  end.
Theorem src_from_list_is_model ls n : run_from_list src_from_list src_clean true ls n = from_list ls n.
Proof.
  unfold run_from_list, from_list. cbn [fl_cleanups src_from_list fold_left src_clean].
  rewrite ?src_cleanup_lanelets_is_model, ?src_cleanup_lights_is_model, ?src_cleanup_signs_is_model. reflexivity.
Qed.
Theorem src_from_list_is_restrict ls n : WF n ->
  run_from_list src_from_list src_clean true ls n = restrict (isin ls) none none none n.
Proof. intro H. rewrite src_from_list_is_model. exact (from_list_spec ls n H). Qed.

