(* Proofs/XmlFmt.v — facts about the GENERATED XML format tables (Gen/XmlFmt.v), each closed by
   vm_compute on the concrete table: re-proved on every run against what the source says now. *)
From Coq Require Import QArith ZArith String List Bool.
From CR Require Import Model.Codec Proofs.Codec Gen.XmlFmt.
Import ListNotations.
Open Scope string_scope.
Open Scope list_scope.

(* paths (tags from the root) at which two tables differ *)
Definition akind_eqb (a b : akind) : bool :=
  match a, b with KNum, KNum | KInt, KInt | KStr, KStr | KBool, KBool => true | _, _ => false end.
Definition mult_eqb (a b : mult) : bool :=
  match a, b with MReq, MReq | MOpt, MOpt | MMany, MMany => true | _, _ => false end.

Fixpoint fmt_diff (a b : fmt) {struct a} : list (list string) :=
  match a, b with
  | FLeaf k, FLeaf k' => if akind_eqb k k' then [] else [[]]
  | FRec fs, FRec fs' => fields_diff fs fs'
  | FAny al, FAny al' => alts_diff al al'
  | _, _ => [[]]
  end
with fields_diff (a b : fields) {struct a} : list (list string) :=
  match a, b with
  | FNil, FNil => []
  | FCons t m f r, FCons t' m' f' r' =>
      (if String.eqb t t' && mult_eqb m m' then map (cons t) (fmt_diff f f') else [[t]]) ++ fields_diff r r'
  | _, _ => [["<length>"]]
  end
with alts_diff (a b : alts) {struct a} : list (list string) :=
  match a, b with
  | ANil, ANil => []
  | ACons t f r, ACons t' f' r' =>
      (if String.eqb t t' then map (cons t) (fmt_diff f f') else [[t]]) ++ alts_diff r r'
  | _, _ => [["<length>"]]
  end.

Lemma writer_table_wf : wf W.xml_root = true.
Proof. vm_compute. reflexivity. Qed.

Lemma reader_table_wf : wf R.xml_root = true.
Proof. vm_compute. reflexivity. Qed.

(* the whole document: whatever the writer's table emits, a reader using the same table maps back *)
Lemma document_roundtrip : forall v t, write W.xml_root "commonRoad" v = Some t -> read W.xml_root t = Some v.
Proof. intros v t. apply roundtrip. exact writer_table_wf. Qed.

Lemma document_injective : forall v1 v2 t,
  write W.xml_root "commonRoad" v1 = Some t -> write W.xml_root "commonRoad" v2 = Some t -> v1 = v2.
Proof. intros v1 v2 t. apply write_injective. exact writer_table_wf. Qed.

(* the reader's table (validated against the real reader by correspondence B) deviates from the
   writer's at exactly one place: the traffic sign's virtual flag *)
Lemma reader_deviation : fmt_diff W.xml_root R.xml_root = [["trafficSign"; "virtual"]].
Proof. vm_compute. reflexivity. Qed.

(* ... and there the round trip is refuted, with a witness: a virtual sign reads back without the flag *)
Definition virtual_sign : val :=
  VRec [VAtom (AInt 7); VList []; VNone; VSome (VAtom (ABool true))].
Lemma virtual_refuted : exists t, write W.f_trafficSign "trafficSign" virtual_sign = Some t /\
                                   read R.f_trafficSign t <> Some virtual_sign /\
                                   read R.f_trafficSign t = Some (VRec [VAtom (AInt 7); VList []; VNone; VNone]).
Proof. eexists. split; [vm_compute; reflexivity|]. split; [vm_compute; discriminate|vm_compute; reflexivity]. Qed.

(* every other element format is shared by reader and writer *)
Lemma shared_formats :
  fmt_diff W.f_lanelet R.f_lanelet = [] /\ fmt_diff W.f_trafficLight R.f_trafficLight = [] /\
  fmt_diff W.f_intersection R.f_intersection = [] /\ fmt_diff W.f_staticObstacle R.f_staticObstacle = [] /\
  fmt_diff W.f_dynamicObstacle R.f_dynamicObstacle = [] /\ fmt_diff W.f_phantomObstacle R.f_phantomObstacle = [] /\
  fmt_diff W.f_environmentObstacle R.f_environmentObstacle = [] /\
  fmt_diff W.f_planningProblem R.f_planningProblem = [] /\ fmt_diff W.f_location R.f_location = [] /\
  fmt_diff W.f_scenarioTags R.f_scenarioTags = [].
Proof. vm_compute. repeat split. Qed.

(* fmt_diff = [] means the tables are equal, hence the reader's table round-trips the writer's output *)
Lemma fmt_diff_nil_eq :
  (forall a b, fmt_diff a b = [] -> a = b) /\ (forall a b, fields_diff a b = [] -> a = b) /\
  (forall a b, alts_diff a b = [] -> a = b).
Proof.
  apply fmt_mutind.
  - intros k b H. destruct b; simpl in H; try discriminate.
    destruct k, k0; simpl in H; try discriminate; reflexivity.
  - intros fs IH b H. destruct b; simpl in H; try discriminate. f_equal. apply IH. exact H.
  - intros al IH b H. destruct b; simpl in H; try discriminate. f_equal. apply IH. exact H.
  - intros b H. destruct b; simpl in H; [reflexivity|discriminate].
  - intros t m f IHf r IHr b H. destruct b as [|t' m' f' r']; simpl in H; [discriminate|].
    apply app_eq_nil in H. destruct H as [H1 H2].
    destruct (String.eqb t t') eqn:Et; simpl in H1; [|discriminate].
    destruct (mult_eqb m m') eqn:Em; simpl in H1; [|discriminate].
    apply String.eqb_eq in Et. subst t'.
    assert (m = m') by (destruct m, m'; simpl in Em; congruence). subst m'.
    assert (fmt_diff f f' = []) by (destruct (fmt_diff f f'); [reflexivity|discriminate]).
    rewrite (IHf _ H), (IHr _ H2). reflexivity.
  - intros b H. destruct b; simpl in H; [reflexivity|discriminate].
  - intros t f IHf r IHr b H. destruct b as [|t' f' r']; simpl in H; [discriminate|].
    apply app_eq_nil in H. destruct H as [H1 H2].
    destruct (String.eqb t t') eqn:Et; simpl in H1; [|discriminate].
    apply String.eqb_eq in Et. subst t'.
    assert (fmt_diff f f' = []) by (destruct (fmt_diff f f'); [reflexivity|discriminate]).
    rewrite (IHf _ H), (IHr _ H2). reflexivity.
Qed.

Lemma shared_roundtrip w r : fmt_diff w r = [] -> wf w = true ->
  forall tag v t, write w tag v = Some t -> read r t = Some v.
Proof.
  intros Hd Hwf tag v t H. destruct fmt_diff_nil_eq as [E _]. rewrite <- (E _ _ Hd). eapply roundtrip; eauto.
Qed.
