(* Proofs/EqHashH.v — C12: equal objects have equal hash keys, for every spec table whose hash spec is
   attribute-wise coarser than its comparison spec (boolean side condition [hash_coarser], closed by vm_compute
   on the concrete table in Props/C12.v). *)
From Coq Require Import QArith Qabs Qround ZArith List Bool String Lia Lqa Permutation.
From CR Require Import Base.QMod Model.Interval Proofs.Interval Model.EqHash Proofs.EqHash.
Import ListNotations.
Open Scope Q_scope.

(* ------------------------------------------------------------------ the side condition *)
(* hash preparations that map ==-equal values to ==-equal keys *)
Fixpoint hresp (h : hkind) : bool :=
  match h with
  | HPy | HArr10 | HIgnored => true
  | HState | HStr => false
  | HTupleOf h' | HFrozenOf h' | HItemsOf h' | HTupleIfList h' | HOpt h' | HNoneEmpty h' => hresp h'
  end.

(* "what __hash__ does with the attribute identifies at least what __eq__ identifies" *)
Definition compat (k : ekind) (h : hkind) : bool :=
  match h with
  | HIgnored => true
  | _ =>
      match k with
      | KPy => hresp h
      | KArr10 => match h with HArr10 | HOpt HArr10 => true | _ => false end
      | KState => match h with HState => true | _ => false end
      | KAsSet => match h with HFrozenOf h' => hresp h' | _ => false end
      | KNoneEmpty => match h with HNoneEmpty (HFrozenOf h') => hresp h' | _ => false end
      | KStr => match h with HStr => true | _ => false end
      | KIgnored => false
      end
  end.

Definition spec_coarser (sp : fspec) : bool :=
  compat (f_eq_default sp) (f_hash_default sp) &&
  forallb (fun a => compat (ekind_of sp a) (hkind_of sp a)) (map fst (f_eq sp) ++ map fst (f_hash sp)).

Definition hash_coarser (T : table) : bool := forallb (fun p => spec_coarser (snd p)) (t_spec T).

Lemma assoc_in_fst {A} k (l : list (string * A)) v : assoc k l = Some v -> List.In k (map fst l).
Proof. intro H. apply assoc_in in H. apply (in_map fst) in H. exact H. Qed.

Lemma spec_coarser_all sp : spec_coarser sp = true -> forall a, compat (ekind_of sp a) (hkind_of sp a) = true.
Proof.
  unfold spec_coarser. intros H a. apply andb_true_iff in H. destruct H as [Hd Hl].
  rewrite forallb_forall in Hl.
  destruct (assoc a (f_eq sp)) eqn:E1.
  - apply Hl. apply in_or_app. left. eapply assoc_in_fst; eauto.
  - destruct (assoc a (f_hash sp)) eqn:E2.
    + apply Hl. apply in_or_app. right. eapply assoc_in_fst; eauto.
    + unfold ekind_of, hkind_of. rewrite E1, E2. exact Hd.
Qed.

Lemma compat_not_ignored k h : compat k h = true -> is_hignored h = false -> is_ignored k = false.
Proof. destruct h; destruct k; simpl; intros; congruence. Qed.

(* ------------------------------------------------------------------ mapM *)
Lemma mapM_in {A B} (f : A -> option B) l r : mapM f l = Some r ->
  (forall a, List.In a l -> exists b, f a = Some b /\ List.In b r) /\
  (forall b, List.In b r -> exists a, f a = Some b /\ List.In a l).
Proof.
  revert r. induction l as [|a l IH]; simpl; intros r H.
  - inversion H; subst. split; intros ? [].
  - destruct (f a) as [b|] eqn:E; [|discriminate]. destruct (mapM f l) as [r'|]; [|discriminate].
    inversion H; subst. destruct (IH r' eq_refl) as [I1 I2]. split.
    + intros x [<-|Hx]; [exists b; simpl; auto|]. destruct (I1 x Hx) as (y & ? & ?). exists y; simpl; auto.
    + intros y [<-|Hy]; [exists a; simpl; auto|]. destruct (I2 y Hy) as (x & ? & ?). exists x; simpl; auto.
Qed.

Lemma mapM_Forall2 {A B} (f : A -> option B) l r : mapM f l = Some r -> Forall2 (fun a b => f a = Some b) l r.
Proof.
  revert r. induction l as [|a l IH]; simpl; intros r H.
  - inversion H. constructor.
  - destruct (f a) as [b|] eqn:E; [|discriminate]. destruct (mapM f l) as [r'|]; [|discriminate].
    inversion H; subst. constructor; auto.
Qed.

(* two lists related element by element (as sets): their images under f are equal as sets *)
Lemma set_transfer (R : value -> value -> bool) (f : value -> option value) l l' r r' :
  (forall a, List.In a l -> forall b ka kb, R a b = true -> f a = Some ka -> f b = Some kb -> peq ka kb = true) ->
  forallb (fun a => existsb (fun b => R a b) l') l = true ->
  forallb (fun b => existsb (fun a => R a b) l) l' = true ->
  mapM f l = Some r -> mapM f l' = Some r' -> peq (VSet r) (VSet r') = true.
Proof.
  intros HR H1 H2 Hr Hr'. rewrite forallb_forall in H1, H2.
  destruct (mapM_in _ _ _ Hr) as [A1 A2]. destruct (mapM_in _ _ _ Hr') as [B1 B2].
  rewrite peq_set. apply andb_true_iff. split.
  - unfold incl_b. apply forallb_forall. intros ka Hka. apply existsb_exists.
    destruct (A2 ka Hka) as (a & Ea & Ha). specialize (H1 a Ha). apply existsb_exists in H1.
    destruct H1 as (b & Hb & Rab). destruct (B1 b Hb) as (kb & Eb & Hkb).
    exists kb. split; auto. eapply HR; eauto.
  - unfold incl_b'. apply forallb_forall. intros kb Hkb. apply existsb_exists.
    destruct (B2 kb Hkb) as (b & Eb & Hb). specialize (H2 b Hb). apply existsb_exists in H2.
    destruct H2 as (a & Ha & Rab). destruct (A1 a Ha) as (ka & Ea & Hka).
    exists ka. split; auto. eapply HR; eauto.
Qed.

Lemma list_transfer (R : value -> value -> bool) (f : value -> option value) l l' r r' :
  (forall a, List.In a l -> forall b ka kb, R a b = true -> f a = Some ka -> f b = Some kb -> peq ka kb = true) ->
  list_eqb R l l' = true ->
  mapM f l = Some r -> mapM f l' = Some r' -> peq (VList r) (VList r') = true.
Proof.
  intros HR H Hr Hr'. rewrite peq_list. revert l' r r' H Hr Hr'.
  induction l as [|a l IH]; destruct l' as [|b l']; simpl; intros r r' H Hr Hr'; try discriminate.
  - inversion Hr; inversion Hr'; reflexivity.
  - destruct (f a) as [ka|] eqn:Ea; [|discriminate]. destruct (mapM f l) as [r1|] eqn:E1; [|discriminate].
    destruct (f b) as [kb|] eqn:Eb; [|discriminate]. destruct (mapM f l') as [r2|] eqn:E2; [|discriminate].
    inversion Hr; inversion Hr'; subst. apply andb_true_iff in H. destruct H as [Hab Hl].
    simpl. apply andb_true_iff. split.
    + eapply HR; eauto. simpl; auto.
    + eapply IH; eauto. intros x Hx. apply HR. simpl; auto.
Qed.

Lemma peq_set_unfold l l' : peq (VSet l) (VSet l') = true ->
  forallb (fun a => existsb (fun b => peq a b) l') l = true /\
  forallb (fun b => existsb (fun a => peq a b) l) l' = true.
Proof. rewrite peq_set. intro H. apply andb_true_iff in H. exact H. Qed.

(* ------------------------------------------------------------------ hash preparations respect == *)
Lemma round_arr_comp s d s' d' :
  peq (VArr s d) (VArr s' d') = true -> peq (round_arr (VArr s d)) (round_arr (VArr s' d')) = true.
Proof.
  simpl. intro H. apply andb_true_iff in H. destruct H as [H1 H2]. rewrite H1. simpl.
  revert d' H2. induction d as [|a d IH]; destruct d' as [|b d']; simpl; intro H; try discriminate; auto.
  apply andb_true_iff in H. destruct H as [Hab Hd]. apply andb_true_iff. split; auto.
  apply Qeq_bool_iff. apply round10_comp. apply Qeq_bool_iff. exact Hab.
Qed.

Lemma peq_hashable u u' : peq u u' = true -> hashable u = true -> hashable u' = true.
Proof. destruct u; destruct u'; simpl; intros; try discriminate; auto. Qed.

Lemma hnorm_peq h : hresp h = true -> forall u u' a b,
  peq u u' = true -> hnorm h u = Some a -> hnorm h u' = Some b -> peq a b = true.
Proof.
  induction h; simpl; intro Hr; try discriminate; intros u u' a b He Ha Hb.
  - (* HPy *)
    destruct (hashable u); [|discriminate]. destruct (hashable u'); [|discriminate].
    inversion Ha; inversion Hb; subst. exact He.
  - (* HArr10 *)
    destruct u; try discriminate. destruct u'; try discriminate.
    inversion Ha; inversion Hb; subst. rewrite peq_key. apply round_arr_comp. exact He.
  - (* HIgnored *)
    inversion Ha; inversion Hb; subst. reflexivity.
  - (* HTupleOf *)
    destruct u; try discriminate. destruct u'; try discriminate.
    destruct (mapM (hnorm h) l) as [r|] eqn:E1; [|discriminate].
    destruct (mapM (hnorm h) l0) as [r'|] eqn:E2; [|discriminate].
    inversion Ha; inversion Hb; subst. rewrite peq_key. rewrite peq_list in He.
    eapply list_transfer; eauto.
  - (* HFrozenOf *)
    destruct u; try discriminate; destruct u'; try discriminate; try (simpl in He; discriminate He);
      destruct (mapM (hnorm h) l) as [r|] eqn:E1; try discriminate;
      destruct (mapM (hnorm h) l0) as [r'|] eqn:E2; try discriminate;
      inversion Ha; inversion Hb; subst; rewrite peq_key.
    + rewrite peq_list in He. apply pointwise_set.
      assert (G : peq (VList r) (VList r') = true) by (eapply list_transfer; eauto).
      rewrite peq_list in G. apply list_eqb_Forall2. exact G.
    + destruct (peq_set_unfold _ _ He). eapply set_transfer; eauto.
  - (* HItemsOf *)
    destruct u; try discriminate. destruct u'; try discriminate.
    match type of Ha with option_map _ (mapM ?f l) = _ => set (F := f) in * end.
    destruct (mapM F l) as [r|] eqn:E1; [|discriminate].
    destruct (mapM F l0) as [r'|] eqn:E2; [|discriminate].
    inversion Ha; inversion Hb; subst. rewrite peq_key.
    destruct (peq_set_unfold _ _ He) as [He1 He2].
    apply (set_transfer peq F l l0 r r'); [|exact He1|exact He2|exact E1|exact E2].
    intros p _ p' kp kp' Hpp Hp Hp'. unfold F in Hp, Hp'.
    destruct p; try discriminate. destruct l1 as [|k [|v [|? ?]]]; try discriminate.
    destruct p'; try discriminate. destruct l1 as [|k' [|v' [|? ?]]]; try discriminate.
    destruct (hashable k); [|discriminate]. destruct (hashable k'); [|discriminate].
    destruct (hnorm h v) as [kv|] eqn:Ev; [|discriminate].
    destruct (hnorm h v') as [kv'|] eqn:Ev'; [|discriminate].
    inversion Hp; inversion Hp'; subst. rewrite peq_key.
    rewrite peq_list in Hpp. simpl in Hpp. apply andb_true_iff in Hpp. destruct Hpp as [Hk Hv].
    rewrite andb_true_r in Hv. rewrite peq_list. simpl. rewrite Hk. simpl. rewrite andb_true_r.
    eapply IHh; eauto.
  - (* HTupleIfList *)
    destruct u; destruct u'; try (simpl in He; discriminate He); simpl in Ha, Hb; try discriminate;
      try (inversion Ha; inversion Hb; subst; exact He).
    destruct (mapM (hnorm h) l) as [r|] eqn:E1; [|discriminate].
    destruct (mapM (hnorm h) l0) as [r'|] eqn:E2; [|discriminate].
    inversion Ha; inversion Hb; subst. rewrite peq_key. rewrite peq_list in He.
    eapply list_transfer; eauto.
  - (* HOpt *)
    destruct u; destruct u'; try (simpl in He; discriminate He);
      try (inversion Ha; inversion Hb; subst; reflexivity); eapply IHh; eauto.
  - (* HNoneEmpty *)
    destruct u; destruct u'; try (simpl in He; discriminate He); simpl in Ha, Hb;
      (eapply (IHh Hr); [|exact Ha|exact Hb]); first [exact He|reflexivity].
Qed.

(* ------------------------------------------------------------------ hv unfolded *)
Lemma hv_list T l : hv T (VList l) = option_map VList (mapM (hv T) l).
Proof.
  simpl. f_equal. induction l as [|a r IH]; simpl; auto. rewrite IH. reflexivity.
Qed.

Lemma hv_set T l : hv T (VSet l) = option_map VSet (mapM (hv T) l).
Proof.
  simpl. f_equal. induction l as [|a r IH]; simpl; auto. rewrite IH. reflexivity.
Qed.

Fixpoint hpairs (T : table) (sp : fspec) (fs : list (string * value)) : option (list (string * value)) :=
  match fs with
  | [] => Some []
  | (a, w) :: r =>
      if is_hignored (hkind_of sp a) then hpairs T sp r
      else match hv T w with
           | None => None
           | Some w' => match hnorm (hkind_of sp a) w', hpairs T sp r with
                        | Some k, Some ks => Some ((a, k) :: ks)
                        | _, _ => None
                        end
           end
  end.

Lemma hv_obj T c fs :
  hv T (VObj c fs) = match spec_of T c with
                     | None => None
                     | Some sp => option_map (obj_key (family_of T c) (f_hmode sp)) (hpairs T sp fs)
                     end.
Proof.
  simpl. destruct (spec_of T c) as [sp|]; auto. f_equal.
  induction fs as [|[a w] r IH]; simpl; auto. rewrite IH. reflexivity.
Qed.

Lemma hpairs_in T sp fs ks a w : hpairs T sp fs = Some ks -> List.In (a, w) fs ->
  is_hignored (hkind_of sp a) = false ->
  exists u k, hv T w = Some u /\ hnorm (hkind_of sp a) u = Some k /\ List.In (a, k) ks.
Proof.
  revert ks. induction fs as [|[a' w'] r IH]; simpl; intros ks H Hin Hk; [contradiction|].
  destruct (is_hignored (hkind_of sp a')) eqn:Ei.
  - destruct Hin as [E|Hin]; [inversion E; subst; congruence|]. eapply IH; eauto.
  - destruct (hv T w') as [u'|] eqn:Eu; [|discriminate].
    destruct (hnorm (hkind_of sp a') u') as [k'|] eqn:Ek; [|discriminate].
    destruct (hpairs T sp r) as [ks'|] eqn:Er; [|discriminate]. inversion H; subst.
    destruct Hin as [E|Hin].
    + inversion E; subst. exists u', k'. simpl. auto.
    + destruct (IH ks' eq_refl Hin Hk) as (u & k & ? & ? & ?). exists u, k. simpl. auto.
Qed.

Lemma hpairs_inv T sp fs ks a k : hpairs T sp fs = Some ks -> List.In (a, k) ks ->
  exists w u, List.In (a, w) fs /\ is_hignored (hkind_of sp a) = false /\
              hv T w = Some u /\ hnorm (hkind_of sp a) u = Some k.
Proof.
  revert ks. induction fs as [|[a' w'] r IH]; simpl; intros ks H Hin.
  - inversion H; subst. contradiction.
  - destruct (is_hignored (hkind_of sp a')) eqn:Ei.
    + destruct (IH ks H Hin) as (w & u & ? & ? & ? & ?). exists w, u. auto.
    + destruct (hv T w') as [u'|] eqn:Eu; [|discriminate].
      destruct (hnorm (hkind_of sp a') u') as [k'|] eqn:Ek; [|discriminate].
      destruct (hpairs T sp r) as [ks'|] eqn:Er; [|discriminate]. inversion H; subst.
      destruct Hin as [E|Hin].
      * inversion E; subst. exists w', u'. auto.
      * destruct (IH ks' eq_refl Hin) as (w & u & ? & ? & ? & ?). exists w, u. auto.
Qed.

(* ------------------------------------------------------------------ the comparison normalisation commutes *)
Lemma nfe_enorm T k w : enorm k (nfe T w) = nfe T (enorm k w).
Proof.
  destruct w; try (destruct k; reflexivity).
  destruct (nfe_obj_shape T cls fs) as (c' & fs' & E). rewrite E. rewrite !enorm_obj. symmetry. exact E.
Qed.

Lemma obj_key_is_key fam m ks : exists v, obj_key fam m ks = VKey v.
Proof. destruct m; simpl; eauto. Qed.

Lemma hv_enorm T k w : hv T (enorm k w) = option_map (enorm k) (hv T w).
Proof.
  destruct w; try (destruct k; reflexivity).
  - (* VList *)
    destruct k; cbv beta iota delta [enorm round_arr]; rewrite ?hv_set, ?hv_list;
      destruct (mapM (hv T) l); reflexivity.
  - (* VSet *)
    rewrite enorm_set. rewrite hv_set. destruct (mapM (hv T) l); simpl; auto. rewrite enorm_set. reflexivity.
  - (* VKey *)
    assert (E : forall v, enorm k (VKey v) = VKey v) by (destruct k; reflexivity).
    rewrite E. simpl. destruct (hv T w); simpl; auto. rewrite E. reflexivity.
  - (* VObj *)
    rewrite enorm_obj. rewrite hv_obj. destruct (spec_of T cls); auto.
    destruct (hpairs T f fs); simpl; auto.
    destruct (obj_key_is_key (family_of T cls) (f_hmode f) l) as (v & ->). destruct k; reflexivity.
Qed.

(* ------------------------------------------------------------------ the structural lemma *)
Section Consistent.
  Variable T : table.
  Hypothesis HT : hash_coarser T = true.

  Definition P1 (x : value) : Prop := forall y u u',
    peq (nfe T x) (nfe T y) = true -> hv T x = Some u -> hv T y = Some u' -> peq u u' = true.

  Definition P1s (x : value) : Prop :=
    P1 x /\ match x with VList l | VSet l => Forall P1 l | _ => True end.

  Lemma nfe_head_obj c fs y : peq (nfe T y) (nfe T (VObj c fs)) = true -> exists c' fs', y = VObj c' fs'.
  Proof.
    destruct (nfe_obj_shape T c fs) as (c1 & f1 & E). rewrite E.
    destruct y; simpl; try discriminate; eauto.
    all: try (destruct (as_num _); discriminate).
  Qed.

  Ltac leaf_case :=
    intros y u u' He Hu Hu'; simpl in Hu; inversion Hu; subst; clear Hu;
    destruct y; try (simpl in He; discriminate He);
    try (simpl in Hu'; inversion Hu'; subst; exact He);
    try (exfalso; match goal with
                  | H : context [nfe T (VObj ?c ?f)] |- _ =>
                      let E := fresh "E" in
                      destruct (nfe_obj_shape T c f) as (? & ? & E); rewrite E in H; simpl in H; discriminate H
                  end).

  Lemma P1_none : P1 VNone. Proof. unfold P1. leaf_case. Qed.
  Lemma P1_bool b : P1 (VBool b). Proof. unfold P1. leaf_case. Qed.
  Lemma P1_int z : P1 (VInt z). Proof. unfold P1. leaf_case. Qed.
  Lemma P1_num q : P1 (VNum q). Proof. unfold P1. leaf_case. Qed.
  Lemma P1_str s : P1 (VStr s). Proof. unfold P1. leaf_case. Qed.
  Lemma P1_enum s : P1 (VEnum s). Proof. unfold P1. leaf_case. Qed.
  Lemma P1_arr s d : P1 (VArr s d). Proof. unfold P1. leaf_case. Qed.

  Lemma P1_key w : P1 w -> P1 (VKey w).
  Proof.
    intros Hw y u u' He Hu Hu'.
    destruct y; try (simpl in He; discriminate He).
    - simpl in Hu, Hu'. destruct (hv T w) as [a|] eqn:Ea; [|discriminate].
      destruct (hv T y) as [b|] eqn:Eb; [|discriminate]. inversion Hu; inversion Hu'; subst.
      rewrite peq_key. simpl in He. eapply Hw; eauto.
    - exfalso. destruct (nfe_obj_shape T cls fs) as (? & ? & E). simpl nfe in He at 1. rewrite E in He.
      simpl in He. discriminate He.
  Qed.

  Lemma list_eqb_map {A B} (e : B -> B -> bool) (f : A -> B) l l' :
    list_eqb e (map f l) (map f l') = list_eqb (fun a b => e (f a) (f b)) l l'.
  Proof. revert l'. induction l; destruct l'; simpl; auto. rewrite IHl. reflexivity. Qed.

  Lemma existsb_map' {A B} (g : B -> bool) (f : A -> B) l : existsb g (map f l) = existsb (fun x => g (f x)) l.
  Proof. induction l; simpl; auto. rewrite IHl. reflexivity. Qed.

  Lemma forallb_map' {A B} (g : B -> bool) (f : A -> B) l : forallb g (map f l) = forallb (fun x => g (f x)) l.
  Proof. induction l; simpl; auto. rewrite IHl. reflexivity. Qed.

  Lemma forallb_existsb_map {A B} (e : B -> B -> bool) (f : A -> B) l l' :
    forallb (fun a => existsb (fun b => e a b) (map f l')) (map f l) =
    forallb (fun a => existsb (fun b => e (f a) (f b)) l') l.
  Proof.
    rewrite forallb_map'. apply forallb_ext_in. intros a _. apply existsb_map'.
  Qed.

  Lemma forallb_existsb_map' {A B} (e : B -> B -> bool) (f : A -> B) l l' :
    forallb (fun b => existsb (fun a => e a b) (map f l)) (map f l') =
    forallb (fun b => existsb (fun a => e (f a) (f b)) l) l'.
  Proof.
    rewrite forallb_map'. apply forallb_ext_in. intros b _. apply existsb_map'.
  Qed.

  Lemma P1_list l : Forall P1 l -> P1 (VList l).
  Proof.
    intros Hl y u u' He Hu Hu'. rewrite Forall_forall in Hl.
    destruct y; try (simpl in He; discriminate He).
    - rewrite hv_list in Hu, Hu'.
      destruct (mapM (hv T) l) as [r|] eqn:E1; [|discriminate].
      destruct (mapM (hv T) l0) as [r'|] eqn:E2; [|discriminate].
      inversion Hu; inversion Hu'; subst. rewrite !nfe_list, peq_list, list_eqb_map in He.
      apply (list_transfer (fun a b => peq (nfe T a) (nfe T b)) (hv T) l l0 r r'); [|exact He|exact E1|exact E2].
      intros a Ha b ka kb Hab Hka Hkb. eapply (Hl a Ha); eauto.
    - exfalso. destruct (nfe_obj_shape T cls fs) as (? & ? & E). rewrite nfe_list in He. rewrite E in He.
      simpl in He. discriminate He.
  Qed.

  Lemma P1_set l : Forall P1 l -> P1 (VSet l).
  Proof.
    intros Hl y u u' He Hu Hu'. rewrite Forall_forall in Hl.
    destruct y; try (simpl in He; discriminate He).
    - rewrite hv_set in Hu, Hu'.
      destruct (mapM (hv T) l) as [r|] eqn:E1; [|discriminate].
      destruct (mapM (hv T) l0) as [r'|] eqn:E2; [|discriminate].
      inversion Hu; inversion Hu'; subst. rewrite !nfe_set in He.
      destruct (peq_set_unfold _ _ He) as [H1 H2].
      rewrite forallb_existsb_map in H1. rewrite forallb_existsb_map' in H2.
      apply (set_transfer (fun a b => peq (nfe T a) (nfe T b)) (hv T) l l0 r r'); [|exact H1|exact H2|exact E1|exact E2].
      intros a Ha b ka kb Hab Hka Hkb. eapply (Hl a Ha); eauto.
    - exfalso. destruct (nfe_obj_shape T cls fs) as (? & ? & E). rewrite nfe_set in He. rewrite E in He.
      simpl in He. discriminate He.
  Qed.

  Lemma P1_enorm k w : P1s w -> P1 (enorm k w).
  Proof.
    intros [H1 H2]. destruct w; try (destruct k; exact H1).
    - (* VNone *) destruct k; try exact H1. simpl. apply P1_set. constructor.
    - (* VInt *) destruct k; try exact H1. simpl. apply P1_list.
      repeat constructor; [apply P1_str|apply P1_int].
    - (* VNum *) destruct k; try exact H1; simpl.
      + apply P1_num.
      + apply P1_list. repeat constructor; [apply P1_str|apply P1_num].
    - (* VArr *) destruct k; try exact H1; simpl; apply P1_arr.
    - (* VList *) destruct k; try exact H1; simpl; apply P1_set; exact H2.
  Qed.

  (* __eq__ found the attribute values equal (after its normalisation): so are their hash preparations *)
  Lemma attr_keys_eq k w w' u u' :
    P1s w -> peq (enorm k (nfe T w)) (enorm k (nfe T w')) = true ->
    hv T w = Some u -> hv T w' = Some u' -> peq (enorm k u) (enorm k u') = true.
  Proof.
    intros Hw He Hu Hu'. rewrite !nfe_enorm in He.
    apply (P1_enorm k w Hw (enorm k w')); auto.
    - rewrite hv_enorm, Hu. reflexivity.
    - rewrite hv_enorm, Hu'. reflexivity.
  Qed.

  (* pure: compatible kinds *)
  Lemma compat_keys k h u u' a b : compat k h = true ->
    peq (enorm k u) (enorm k u') = true -> hnorm h u = Some a -> hnorm h u' = Some b -> peq a b = true.
  Proof.
    intros Hc He Ha Hb.
    destruct h; try (simpl in Ha, Hb; inversion Ha; inversion Hb; subst; reflexivity).
    all: destruct k; simpl in Hc; try discriminate Hc.
    all: try (refine (hnorm_peq _ _ u u' a b He Ha Hb); exact Hc).
    - (* KArr10 / HArr10 *)
      destruct u; try discriminate Ha. destruct u'; try discriminate Hb.
      simpl in Ha, Hb. inversion Ha; inversion Hb; subst. rewrite peq_key. exact He.
    - (* KState / HState *)
      destruct u; destruct u'; simpl in Ha, Hb, He; try discriminate;
        inversion Ha; inversion Hb; subst; try exact He; try (rewrite peq_key; exact He).
    - (* KStr / HStr *)
      destruct u; destruct u'; simpl in Ha, Hb, He; try discriminate;
        inversion Ha; inversion Hb; subst; try exact He; try (rewrite peq_key; exact He).
    - (* KAsSet / HFrozenOf *)
      assert (G : forall v l, hnorm (HFrozenOf h) v = Some a -> enorm KAsSet v = VSet l ->
                              exists r, mapM (hnorm h) l = Some r /\ a = VKey (VSet r)).
      { intros v l Hv Ev. destruct v; simpl in Hv, Ev; try discriminate; inversion Ev; subst;
          destruct (mapM (hnorm h) l) as [r|]; try discriminate; inversion Hv; eauto. }
      assert (S1 : exists l, enorm KAsSet u = VSet l) by (destruct u; simpl in Ha; try discriminate; simpl; eauto).
      assert (S2 : exists l, enorm KAsSet u' = VSet l) by (destruct u'; simpl in Hb; try discriminate; simpl; eauto).
      destruct S1 as (l & E1). destruct S2 as (l' & E2). rewrite E1, E2 in He.
      destruct (G u l Ha E1) as (r & Hr & ->).
      assert (G' : exists r', mapM (hnorm h) l' = Some r' /\ b = VKey (VSet r')).
      { destruct u'; simpl in Hb, E2; try discriminate; inversion E2; subst;
          destruct (mapM (hnorm h) l') as [r'|]; try discriminate; inversion Hb; eauto. }
      destruct G' as (r' & Hr' & ->). rewrite peq_key.
      destruct (peq_set_unfold _ _ He) as [He1 He2].
      apply (set_transfer peq (hnorm h) l l' r r'); [|exact He1|exact He2|exact Hr|exact Hr'].
      intros x _ y kx ky Hxy Hx Hy. eapply hnorm_peq; eauto.
    - (* KArr10 / HOpt HArr10 *)
      destruct h; try discriminate Hc.
      destruct u; simpl in Ha; try discriminate Ha; destruct u'; simpl in Hb; try discriminate Hb;
        simpl in He; try discriminate He; inversion Ha; inversion Hb; subst; try reflexivity.
      rewrite peq_key. exact He.
    - (* KNoneEmpty / HNoneEmpty (HFrozenOf _) *)
      destruct h; try discriminate Hc.
      assert (S1 : exists l r, enorm KNoneEmpty u = VSet l /\ mapM (hnorm h) l = Some r /\ a = VKey (VSet r)).
      { destruct u; simpl in Ha; try discriminate Ha.
        - exists [], []. inversion Ha. auto.
        - destruct (mapM (hnorm h) l) as [r|] eqn:E; [|discriminate]. inversion Ha. exists l, r. auto.
        - destruct (mapM (hnorm h) l) as [r|] eqn:E; [|discriminate]. inversion Ha. exists l, r. auto. }
      assert (S2 : exists l r, enorm KNoneEmpty u' = VSet l /\ mapM (hnorm h) l = Some r /\ b = VKey (VSet r)).
      { destruct u'; simpl in Hb; try discriminate Hb.
        - exists [], []. inversion Hb. auto.
        - destruct (mapM (hnorm h) l) as [r|] eqn:E; [|discriminate]. inversion Hb. exists l, r. auto.
        - destruct (mapM (hnorm h) l) as [r|] eqn:E; [|discriminate]. inversion Hb. exists l, r. auto. }
      destruct S1 as (l & r & E1 & Hr & ->). destruct S2 as (l' & r' & E2 & Hr' & ->).
      rewrite E1, E2 in He. rewrite peq_key.
      destruct (peq_set_unfold _ _ He) as [He1 He2].
      apply (set_transfer peq (hnorm h) l l' r r'); [|exact He1|exact He2|exact Hr|exact Hr'].
      intros x _ y kx ky Hxy Hx Hy. eapply hnorm_peq; eauto.
  Qed.

  Lemma spec_in c sp : spec_of T c = Some sp -> forall a, compat (ekind_of sp a) (hkind_of sp a) = true.
  Proof.
    unfold spec_of. intro H. apply assoc_in in H. unfold hash_coarser in HT. rewrite forallb_forall in HT.
    specialize (HT _ H). simpl in HT. apply spec_coarser_all. exact HT.
  Qed.

  Lemma P1_obj c fs : Forall (fun p => P1s (snd p)) fs -> P1 (VObj c fs).
  Proof.
    intros Hfs y u u' He Hu Hu'. rewrite Forall_forall in Hfs.
    assert (Hy : exists c' fs', y = VObj c' fs').
    { apply (nfe_head_obj c fs). rewrite peq_sym. exact He. }
    destruct Hy as (c' & fs' & ->).
    rewrite hv_obj in Hu, Hu'.
    destruct (spec_of T c) as [sp|] eqn:Hs; [|discriminate].
    destruct (spec_of T c') as [sp'|] eqn:Hs'; [|discriminate].
    destruct (eqv_obj_family T c fs c' fs' sp sp' Hs Hs' He) as (-> & Hfam & Hset).
    destruct (hpairs T sp fs) as [ks|] eqn:Ek; [|discriminate].
    destruct (hpairs T sp fs') as [ks'|] eqn:Ek'; [|discriminate].
    inversion Hu; inversion Hu'; subst. clear Hu Hu'. rewrite <- Hfam.
    pose proof (spec_in c sp Hs) as Hcompat.
    rewrite peq_set in Hset. apply andb_true_iff in Hset. destruct Hset as [Hi Hi'].
    (* every key of x has a partner among the keys of y, and conversely *)
    assert (F1 : forall a k, List.In (a, k) ks -> exists k', List.In (a, k') ks' /\ peq k k' = true).
    { intros a k Hin. destruct (hpairs_inv _ _ _ _ _ _ Ek Hin) as (w & uu & Hw & Hh & Hvw & Hnw).
      pose proof (compat_not_ignored _ _ (Hcompat a) Hh) as Hne.
      destruct (incl_b_in _ _ _ Hi (epairs_in T sp fs a w Hw Hne)) as (p & Hp & Hpe).
      destruct (epairs_inv _ _ _ _ Hp) as (a' & w' & Hw' & _ & ->).
      apply peq_pair in Hpe. destruct Hpe as [<- Hpe].
      destruct (hpairs_in _ _ _ _ _ _ Ek' Hw' Hh) as (uu' & k' & Hvw' & Hnw' & Hin').
      exists k'. split; auto.
      eapply (compat_keys _ _ uu uu'); [apply Hcompat| |exact Hnw|exact Hnw'].
      exact (attr_keys_eq _ w w' uu uu' (Hfs (a, w) Hw) Hpe Hvw Hvw'). }
    assert (F2 : forall a k', List.In (a, k') ks' -> exists k, List.In (a, k) ks /\ peq k k' = true).
    { intros a k' Hin. destruct (hpairs_inv _ _ _ _ _ _ Ek' Hin) as (w' & uu' & Hw' & Hh & Hvw' & Hnw').
      pose proof (compat_not_ignored _ _ (Hcompat a) Hh) as Hne.
      destruct (incl_b'_in _ _ _ Hi' (epairs_in T sp fs' a w' Hw' Hne)) as (p & Hp & Hpe).
      destruct (epairs_inv _ _ _ _ Hp) as (a' & w & Hw & _ & ->).
      apply peq_pair in Hpe. destruct Hpe as [-> Hpe].
      destruct (hpairs_in _ _ _ _ _ _ Ek Hw Hh) as (uu & k & Hvw & Hnw & Hin').
      exists k. split; auto.
      eapply (compat_keys _ _ uu uu'); [apply Hcompat| |exact Hnw|exact Hnw'].
      exact (attr_keys_eq _ w w' uu uu' (Hfs (a, w) Hw) Hpe Hvw Hvw'). }
    destruct (f_hmode sp); simpl; rewrite ?String.eqb_refl; simpl; rewrite ?andb_true_r.
    - (* hash of the tuple of attribute keys *)
      change (peq (VSet (map (fun p => VList [VStr (fst p); snd p]) ks))
                  (VSet (map (fun p => VList [VStr (fst p); snd p]) ks')) = true).
      rewrite peq_set. apply andb_true_iff. split.
      + unfold incl_b. apply forallb_forall. intros p Hp. apply in_map_iff in Hp.
        destruct Hp as ([a k] & <- & Hin). destruct (F1 a k Hin) as (k' & Hin' & Hkk).
        apply existsb_exists. exists (VList [VStr a; k']). split.
        * apply in_map_iff. exists (a, k'). auto.
        * simpl. rewrite String.eqb_refl, Hkk. reflexivity.
      + unfold incl_b'. apply forallb_forall. intros p Hp. apply in_map_iff in Hp.
        destruct Hp as ([a k'] & <- & Hin). destruct (F2 a k' Hin) as (k & Hin' & Hkk).
        apply existsb_exists. exists (VList [VStr a; k]). split.
        * apply in_map_iff. exists (a, k). auto.
        * simpl. rewrite String.eqb_refl, Hkk. reflexivity.
    - (* hash of the frozenset of attribute values *)
      change (peq (VSet (map snd ks)) (VSet (map snd ks')) = true).
      rewrite peq_set. apply andb_true_iff. split.
      + unfold incl_b. apply forallb_forall. intros p Hp. apply in_map_iff in Hp.
        destruct Hp as ([a k] & <- & Hin). destruct (F1 a k Hin) as (k' & Hin' & Hkk).
        apply existsb_exists. exists k'. split; auto. apply in_map_iff. exists (a, k'). auto.
      + unfold incl_b'. apply forallb_forall. intros p Hp. apply in_map_iff in Hp.
        destruct Hp as ([a k'] & <- & Hin). destruct (F2 a k' Hin) as (k & Hin' & Hkk).
        apply existsb_exists. exists k. split; auto. apply in_map_iff. exists (a, k). auto.
  Qed.

  Lemma P1s_all : forall x, P1s x.
  Proof.
    induction x using value_ind'; unfold P1s.
    - split; [apply P1_none|exact I].
    - split; [apply P1_bool|exact I].
    - split; [apply P1_int|exact I].
    - split; [apply P1_num|exact I].
    - split; [apply P1_str|exact I].
    - split; [apply P1_enum|exact I].
    - split; [apply P1_arr|exact I].
    - assert (F : Forall P1 l) by (eapply Forall_impl; [|exact H]; intros a [Ha _]; exact Ha).
      split; [apply P1_list|]; exact F.
    - assert (F : Forall P1 l) by (eapply Forall_impl; [|exact H]; intros a [Ha _]; exact Ha).
      split; [apply P1_set|]; exact F.
    - split; [apply P1_key; exact (proj1 IHx)|exact I].
    - split; [apply P1_obj; exact H|exact I].
  Qed.

  (* x == y  ->  hash(x) == hash(y)   (whenever both hashes are defined) *)
  Theorem eq_hash_consistent x y kx ky :
    eqv T x y = true -> hkey T x = Some kx -> hkey T y = Some ky -> peq kx ky = true.
  Proof.
    unfold hkey, eqv. intros He Hx Hy.
    destruct (hv T x) as [u|] eqn:Eu; [|discriminate]. destruct (hv T y) as [u'|] eqn:Eu'; [|discriminate].
    destruct (hashable u); [|discriminate]. destruct (hashable u'); [|discriminate].
    inversion Hx; inversion Hy; subst. exact (proj1 (P1s_all x) y kx ky He Eu Eu').
  Qed.

  Corollary eq_hash_eq x y : eqv T x y = true -> hash_eq T x y = Some true \/ hash_eq T x y = None.
  Proof.
    intro He. unfold hash_eq. destruct (hkey T x) as [a|] eqn:Ea; auto. destruct (hkey T y) as [b|] eqn:Eb; auto.
    left. f_equal. eapply eq_hash_consistent; eauto.
  Qed.
End Consistent.

(* ------------------------------------------------------------------ classes whose attributes are chosen per instance *)
Definition all_compared_classes (T : table) (cs : list string) : bool :=
  forallb (fun c => match spec_of T c with Some sp => all_compared sp | None => false end) cs.

(* State family / SignalState: every attribute an instance holds is compared, whatever its name *)
Theorem eq_sensitive_dynamic T cs : all_compared_classes T cs = true ->
  forall c, List.In c cs ->
  forall fs c' fs' sp', spec_of T c' = Some sp' -> eqv T (VObj c fs) (VObj c' fs') = true ->
  forall a v, List.In (a, v) fs ->
  exists sp v', spec_of T c = Some sp /\ ekind_of sp a <> KIgnored /\
                List.In (a, v') fs' /\ attr_close T (ekind_of sp a) v v'.
Proof.
  intros Hc c Hin fs c' fs' sp' Hs' H a v Hv.
  unfold all_compared_classes in Hc. rewrite forallb_forall in Hc. specialize (Hc _ Hin).
  destruct (spec_of T c) as [sp|] eqn:Hs; [|discriminate].
  pose proof (all_compared_spec sp a Hc) as Hk.
  destruct (eq_sensitive T c fs c' fs' sp sp' Hs Hs' H a v Hv Hk) as (v' & ? & ?).
  exists sp, v'. repeat split; auto. intro E. rewrite E in Hk. discriminate.
Qed.

(* equal objects belong to the same family (an Interval never equals a Rectangle, a KSState may equal a
   CustomState holding the same attributes) *)
Theorem eq_same_family T c fs c' fs' sp sp' :
  spec_of T c = Some sp -> spec_of T c' = Some sp' -> eqv T (VObj c fs) (VObj c' fs') = true ->
  family_of T c = family_of T c'.
Proof. intros Hs Hs' H. exact (proj1 (proj2 (eqv_obj_family _ _ _ _ _ _ _ Hs Hs' H))). Qed.
