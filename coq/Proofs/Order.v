(* Proofs/Order.v — element order (C03): the generic writer emits the children of a record in table
   order; if the table order is a subsequence of the schema's xs:sequence order, the children follow
   the schema order. *)
From Coq Require Import String List Bool.
From CR Require Import Model.Codec.
Import ListNotations.
Open Scope string_scope.
Open Scope list_scope.

(* tags follow the order: blocks of equal tags, in the order of the list *)
Inductive InOrder : list string -> list string -> Prop :=
| IO_nil : forall order, InOrder order []
| IO_same : forall o os r, InOrder (o :: os) r -> InOrder (o :: os) (o :: r)
| IO_skip : forall o os tags, InOrder os tags -> InOrder (o :: os) tags.

Inductive Subseq : list string -> list string -> Prop :=
| SS_nil : forall l, Subseq [] l
| SS_take : forall x a b, Subseq a b -> Subseq (x :: a) (x :: b)
| SS_drop : forall x a b, Subseq a b -> Subseq a (x :: b).

Fixpoint subseqb (a b : list string) : bool :=
  match b with
  | [] => match a with [] => true | _ => false end
  | y :: b' => match a with
               | [] => true
               | x :: a' => if String.eqb x y then subseqb a' b' else subseqb a b'
               end
  end.

Lemma subseqb_sound : forall b a, subseqb a b = true -> Subseq a b.
Proof.
  induction b as [|y b IH]; intros a H; simpl in H.
  - destruct a; [constructor|discriminate].
  - destruct a as [|x a]; [constructor|].
    destruct (String.eqb x y) eqn:E.
    + apply String.eqb_eq in E. subst. constructor. apply IH. exact H.
    + apply SS_drop. apply IH. exact H.
Qed.

Lemma InOrder_weaken' : forall w x, Subseq w x -> forall tags, InOrder w tags -> InOrder x tags.
Proof.
  intros w x S. induction S as [l|y a b S IH|y a b S IH]; intros tags H.
  - inversion H; subst. constructor.
  - remember (y :: a) as w eqn:E. induction H as [order|o os r H IHr|o os tags H IHr].
    + constructor.
    + inversion E; subst. apply IO_same. apply IHr. reflexivity.
    + inversion E; subst. apply IO_skip. apply IH. exact H.
  - apply IO_skip. apply IH. exact H.
Qed.

Lemma InOrder_weaken : forall w tags, InOrder w tags -> forall x, Subseq w x -> InOrder x tags.
Proof. intros w tags H x S. eapply InOrder_weaken'; eauto. Qed.

Lemma write_tag f tag v x : write f tag v = Some x -> tag_of x = tag.
Proof.
  destruct f; destruct v; simpl; try discriminate.
  - destruct (kind_ok k a); [|discriminate]. intro H. inversion H. reflexivity.
  - destruct (write_fields fs vs); [|discriminate]. intro H. inversion H. reflexivity.
  - destruct (write_items (write_alt al) vs); [|discriminate]. intro H. inversion H. reflexivity.
Qed.

Lemma mapM_write_tags f t : forall l g, mapM (write f t) l = Some g -> forall x, In x g -> tag_of x = t.
Proof.
  induction l as [|a l IH]; intros g H x Hx; simpl in H.
  - inversion H; subst. destruct Hx.
  - destruct (write f t a) as [y|] eqn:Ey; [|discriminate]. destruct (mapM (write f t) l) as [ys|] eqn:El; [|discriminate].
    inversion H; subst. destruct Hx as [Hx|Hx]; [subst; eapply write_tag; exact Ey|eapply IH; eauto].
Qed.

Lemma InOrder_block t os : forall g rest, (forall x, In x g -> tag_of x = t) ->
  InOrder os (map tag_of rest) -> InOrder (t :: os) (map tag_of (g ++ rest)).
Proof.
  induction g as [|x g IH]; intros rest Hg Hr; simpl.
  - apply IO_skip. exact Hr.
  - rewrite (Hg x (or_introl eq_refl)). apply IO_same. apply IH; [|exact Hr].
    intros y Hy. apply Hg. right. exact Hy.
Qed.

(* the children of a written record follow the table order *)
Theorem write_fields_in_order : forall fs vs ks, write_fields fs vs = Some ks ->
  InOrder (field_tags fs) (map tag_of ks).
Proof.
  induction fs as [|t m f rest IH]; intros vs ks H; simpl in H.
  - destruct vs; [|discriminate]. inversion H. constructor.
  - destruct vs as [|v vs']; [discriminate|].
    simpl.
    assert (Hg : exists g ks', ks = g ++ ks' /\ write_fields rest vs' = Some ks' /\
                                (forall x, In x g -> tag_of x = t)).
    { destruct m.
      - destruct (write f t v) as [x|] eqn:Ex; [|discriminate].
        destruct (write_fields rest vs') as [ks'|] eqn:Er; [|discriminate]. injection H as Hk.
        exists [x], ks'. repeat split; auto. intros y [Hy|[]]. rewrite <- Hy. eapply write_tag. exact Ex.
      - destruct v; try discriminate.
        + destruct (write_fields rest vs') as [ks'|] eqn:Er; [|discriminate]. injection H as Hk.
          exists [], ks'. repeat split; auto. intros y [].
        + destruct (write f t v) as [x|] eqn:Ex; [|discriminate].
          destruct (write_fields rest vs') as [ks'|] eqn:Er; [|discriminate]. injection H as Hk.
          exists [x], ks'. repeat split; auto. intros y [Hy|[]]. rewrite <- Hy. eapply write_tag. exact Ex.
      - destruct v; try discriminate.
        destruct (mapM (write f t) vs) as [g|] eqn:Eg; [|discriminate].
        destruct (write_fields rest vs') as [ks'|] eqn:Er; [|discriminate]. injection H as Hk.
        exists g, ks'. repeat split; auto. eapply mapM_write_tags. exact Eg. }
    destruct Hg as [g [ks' [E [Er Hg]]]]. subst ks. apply InOrder_block; [exact Hg|]. eapply IH. exact Er.
Qed.

Corollary written_children_follow_schema fs tag vs ks xsd_order :
  write (FRec fs) tag (VRec vs) = Some (Node tag ks) -> subseqb (field_tags fs) xsd_order = true ->
  InOrder xsd_order (map tag_of ks).
Proof.
  simpl. destruct (write_fields fs vs) as [ks0|] eqn:E; [|discriminate]. intros H S. inversion H; subst.
  eapply InOrder_weaken; [eapply write_fields_in_order; exact E|apply subseqb_sound; exact S].
Qed.

(* attributes (pseudo-children whose tag starts with "@") are not subject to element order *)
Definition nonattr (t : string) : bool := negb (String.prefix "@" t).

Lemma InOrder_filter p : forall o t, InOrder o t -> InOrder (filter p o) (filter p t).
Proof.
  intros o t H. induction H as [order|o os r H IH|o os tags H IH]; simpl in *.
  - constructor.
  - destruct (p o); simpl in *; [apply IO_same; exact IH|exact IH].
  - destruct (p o); [apply IO_skip; exact IH|exact IH].
Qed.

Theorem elements_follow_schema fs tag vs ks xsd_order :
  write (FRec fs) tag (VRec vs) = Some (Node tag ks) ->
  subseqb (filter nonattr (field_tags fs)) xsd_order = true ->
  InOrder xsd_order (filter nonattr (map tag_of ks)).
Proof.
  simpl. destruct (write_fields fs vs) as [ks0|] eqn:E; [|discriminate]. intros H S. inversion H; subst.
  eapply InOrder_weaken; [|apply subseqb_sound; exact S].
  apply InOrder_filter. eapply write_fields_in_order. exact E.
Qed.
