(* Proofs/DecStr.v — truncation contract of float_to_str (C01 leaf contract, C03 plain notation). *)
From Coq Require Import QArith Qabs ZArith List Bool Lia Lqa.
From CR Require Import Model.DecStr.
Import ListNotations.
Open Scope Q_scope.

Lemma is_digit_bounds d : is_digit d = true -> 0 <= inject_Z d /\ inject_Z d <= 9.
Proof.
  unfold is_digit. intro H. apply andb_true_iff in H. destruct H as [A B].
  apply Z.leb_le in A. apply Z.leb_le in B.
  split; [change 0 with (inject_Z 0)|change 9 with (inject_Z 9)]; rewrite <- Zle_Qle; assumption.
Qed.

Lemma frac_val_range l : digits_ok l = true -> 0 <= frac_val l /\ frac_val l < 1.
Proof.
  induction l as [|d r IH]; simpl; intro H; [split; lra|].
  apply andb_true_iff in H. destruct H as [Hd Hr]. destruct (IH Hr) as [A B].
  destruct (is_digit_bounds d Hd) as [C D].
  split.
  - apply Qle_shift_div_l; lra.
  - apply Qlt_shift_div_r; lra.
Qed.

Lemma digits_ok_firstn k l : digits_ok l = true -> digits_ok (firstn k l) = true.
Proof.
  revert l. induction k as [|k IH]; intros [|d r] H; simpl in *; auto.
  apply andb_true_iff in H. destruct H as [A B]. rewrite A. simpl. apply IH. exact B.
Qed.

Lemma pow10_S k : pow10 (S k) == 10 * pow10 k.
Proof.
  unfold pow10. rewrite Nat2Z.inj_succ, Z.pow_succ_r by lia. rewrite inject_Z_mult. reflexivity.
Qed.

Lemma pow10_pos k : 0 < pow10 k.
Proof. unfold pow10. change 0 with (inject_Z 0). rewrite <- Zlt_Qlt. apply Z.pow_pos_nonneg; lia. Qed.

(* keeping the first k fractional digits lowers the value by less than 10^-k *)
Lemma frac_trunc k : forall l, digits_ok l = true ->
  frac_val (firstn k l) <= frac_val l /\ frac_val l < frac_val (firstn k l) + 1 / pow10 k.
Proof.
  induction k as [|k IH]; intros l H.
  - simpl. destruct (frac_val_range l H) as [A B]. unfold pow10. simpl. split; [exact A|].
    assert (E : 1 / inject_Z 1 == 1) by reflexivity. rewrite E. lra.
  - destruct l as [|d r]; simpl.
    + pose proof (pow10_pos (S k)) as P. split; [lra|].
      assert (0 < 1 / pow10 (S k)) by (apply Qlt_shift_div_l; lra). lra.
    + simpl in H. apply andb_true_iff in H. destruct H as [Hd Hr].
      destruct (IH r Hr) as [A B]. pose proof (pow10_pos k) as P.
      assert (E : 1 / pow10 (S k) == (1 / pow10 k) / 10).
      { rewrite pow10_S. field. lra. }
      rewrite E. clear E. set (t := 1 / pow10 k) in *. clearbody t.
      set (a := frac_val (firstn k r)) in *. set (b := frac_val r) in *. clearbody a b.
      unfold Qdiv. assert (H10 : / 10 == 1 # 10) by reflexivity. rewrite !H10. split; lra.
Qed.

(* the contract: the written number differs from the number denoted by str(x) by less than 10^-d,
   towards zero, and is in plain decimal notation whenever str(x) is *)
Theorem float_to_str_contract d x : digits_ok (fp x) = true ->
  let y := float_to_str d x in
  abs_val y <= abs_val x /\ abs_val x < abs_val y + 1 / pow10 d /\
  (plain_decimal x = true -> plain_decimal y = true).
Proof.
  intros H y. unfold y, float_to_str, abs_val; simpl.
  destruct (frac_trunc d (fp x) H) as [A B].
  split; [lra|]. split; [lra|].
  unfold plain_decimal; simpl. intro P. apply andb_true_iff in P. destruct P as [P1 P3].
  apply andb_true_iff in P1. destruct P1 as [P1 P2].
  rewrite P1, P3, (digits_ok_firstn d _ P2). reflexivity.
Qed.

Corollary float_to_str_error d x : digits_ok (fp x) = true ->
  Qabs (dval (float_to_str d x) - dval x) < 1 / pow10 d.
Proof.
  intro H. destruct (float_to_str_contract d x H) as [A [B _]].
  unfold dval. change (neg (float_to_str d x)) with (neg x).
  set (t := 1 / pow10 d) in *. clearbody t. set (u := abs_val (float_to_str d x)) in *. clearbody u.
  destruct (neg x); apply Qabs_Qlt_condition; split; lra.
Qed.
