(* Proofs/SolutionFmt.v — lemmas about Model/SolutionFmt.v: int text round trip, split/join, state /
   trajectory / solution round trip through the generic writer and reader, stable sort. *)
From Coq Require Import String Ascii List ZArith Bool Decimal DecimalString DecimalZ DecimalPos Lia Permutation Sorted.
From CR Require Import Model.SolTypes Model.SolutionFmt.
Import ListNotations.
Open Scope string_scope.
Open Scope list_scope.

(* ------------------------------------------------------------------ str(int) / int(text) *)
Lemma zparse_ztext : forall z, zparse (ztext z) = Some z.
Proof.
  intros z. unfold zparse, ztext.
  rewrite NilZero.isi.
  - simpl. now rewrite DecimalZ.of_to.
  - destruct z; simpl; try discriminate. intros [= H]. now apply Unsigned.to_uint_nonnil in H.
  - destruct z; simpl; try discriminate. intros [= H]. now apply Unsigned.to_uint_nonnil in H.
Qed.

(* ------------------------------------------------------------------ lookup / mem *)
Lemma mem_In : forall s l, mem s l = true <-> In s l.
Proof.
  intros s l. unfold mem. rewrite existsb_exists. split.
  - intros [x [H1 H2]]. apply String.eqb_eq in H2. now subst.
  - intros H. exists s. split; auto. apply String.eqb_refl.
Qed.
Lemma nodup_s_NoDup : forall l, nodup_s l = true -> NoDup l.
Proof.
  induction l as [|x r IH]; simpl; intros H; constructor.
  - apply andb_true_iff in H as [H _]. intros Hin. apply mem_In in Hin. now rewrite Hin in H.
  - apply IH. now apply andb_true_iff in H as [_ H].
Qed.
Lemma lookup_In {A} : forall k (l : list (string * A)) v, lookup k l = Some v -> In (k, v) l.
Proof.
  induction l as [|[k' v'] r IH]; simpl; intros v H; [discriminate|].
  destruct (String.eqb_spec k k').
  - inversion H; subst. now left.
  - right. now apply IH.
Qed.
Lemma lookup_NoDup {A} : forall k (l : list (string * A)) v,
  NoDup (map fst l) -> In (k, v) l -> lookup k l = Some v.
Proof.
  induction l as [|[k' v'] r IH]; simpl; intros v Hnd Hin; [easy|].
  inversion Hnd as [|? ? Hn Hnd']; subst.
  destruct Hin as [Heq|Hin].
  - inversion Heq; subst. now rewrite String.eqb_refl.
  - destruct (String.eqb_spec k k'); [|now apply IH].
    subst. exfalso. apply Hn. apply in_map_iff. now exists (k', v).
Qed.
Lemma rlookup_NoDup : forall k v (l : list (string * string)),
  NoDup (map snd l) -> In (k, v) l -> rlookup v l = Some k.
Proof.
  induction l as [|[k' v'] r IH]; simpl; intros Hnd Hin; [easy|].
  inversion Hnd as [|? ? Hn Hnd']; subst.
  destruct Hin as [Heq|Hin].
  - inversion Heq; subst. now rewrite String.eqb_refl.
  - destruct (String.eqb_spec v v'); [|now apply IH].
    subst. exfalso. apply Hn. apply in_map_iff. now exists (k, v').
Qed.
Lemma mapM_map {A B} : forall (f : A -> option B) (g : A -> B) l,
  (forall x, In x l -> f x = Some (g x)) -> mapM f l = Some (map g l).
Proof.
  induction l as [|x r IH]; simpl; intros H; [reflexivity|].
  rewrite (H x) by now left. rewrite IH; auto.
Qed.

(* ------------------------------------------------------------------ split / join / remove_chars *)
Lemma split_nonempty : forall c s, split c s <> [].
Proof.
  intros c s. destruct s as [|a r]; simpl; [discriminate|].
  destruct (Ascii.eqb a c); [discriminate|]. destruct (split c r); discriminate.
Qed.
Lemma split_nosep : forall c s, has_char (Ascii.eqb c) s = false -> split c s = [s].
Proof.
  induction s as [|a r IH]; simpl; intros H; [reflexivity|].
  apply orb_false_iff in H as [H1 H2]. rewrite Ascii.eqb_sym, H1. now rewrite IH.
Qed.
Lemma split_app_sep : forall c a b, has_char (Ascii.eqb c) a = false ->
  split c (a ++ String c b)%string = a :: split c b.
Proof.
  induction a as [|x r IH]; simpl; intros b H.
  - now rewrite Ascii.eqb_refl.
  - apply orb_false_iff in H as [H1 H2]. rewrite Ascii.eqb_sym, H1. now rewrite IH.
Qed.
Lemma split_join : forall c l, l <> [] -> (forall x, In x l -> has_char (Ascii.eqb c) x = false) ->
  split c (join c l) = l.
Proof.
  induction l as [|x r IH]; intros Hne H; [easy|].
  destruct r as [|y r'].
  - simpl. apply split_nosep. apply H. now left.
  - change (join c (x :: y :: r')) with (x ++ String c (join c (y :: r')))%string.
    rewrite split_app_sep by (apply H; now left).
    f_equal. apply IH; [discriminate|]. intros z Hz. apply H. now right.
Qed.
Lemma remove_chars_id : forall p s, has_char p s = false -> remove_chars p s = s.
Proof.
  induction s as [|a r IH]; simpl; intros H; [reflexivity|].
  apply orb_false_iff in H as [H1 H2]. rewrite H1. now rewrite IH.
Qed.
Lemma remove_chars_app : forall p a b, remove_chars p (a ++ b)%string = (remove_chars p a ++ remove_chars p b)%string.
Proof.
  induction a as [|x r IH]; simpl; intros b; [reflexivity|].
  destruct (p x); simpl; now rewrite IH.
Qed.
Lemma has_char_app : forall p a b, has_char p (a ++ b)%string = has_char p a || has_char p b.
Proof.
  induction a as [|x r IH]; simpl; intros b; [reflexivity|]. rewrite IH. now rewrite orb_assoc.
Qed.
Lemma has_char_weaken : forall (p q : ascii -> bool) s, (forall a, p a = true -> q a = true) ->
  has_char q s = false -> has_char p s = false.
Proof.
  induction s as [|a r IH]; simpl; intros Hpq H; [reflexivity|].
  apply orb_false_iff in H as [H1 H2]. rewrite IH by auto.
  destruct (p a) eqn:E; [|reflexivity]. apply Hpq in E. congruence.
Qed.
Lemma has_char_join : forall p c l, p c = false -> (forall x, In x l -> has_char p x = false) ->
  has_char p (join c l) = false.
Proof.
  induction l as [|x r IH]; intros Hc H; [reflexivity|].
  destruct r as [|y r'].
  - simpl. apply H. now left.
  - change (join c (x :: y :: r')) with (x ++ String c (join c (y :: r')))%string.
    rewrite has_char_app. simpl. rewrite Hc. rewrite (H x) by now left. simpl.
    apply IH; auto. intros z Hz. apply H. now right.
Qed.

Lemma clean_parts : forall s, clean s = true ->
  has_char (Ascii.eqb ":") s = false /\ has_char (Ascii.eqb ",") s = false
  /\ has_char is_space s = false /\ has_char is_bracket s = false.
Proof.
  intros s H. unfold clean in H. apply negb_true_iff in H.
  repeat split; eapply has_char_weaken; try exact H; intros a Ha; unfold is_sep.
  - apply Ascii.eqb_eq in Ha. now subst a.
  - apply Ascii.eqb_eq in Ha. now subst a.
  - rewrite Ha. destruct (Ascii.eqb a ":"), (Ascii.eqb a ","), (is_bracket a); reflexivity.
  - rewrite Ha. destruct (Ascii.eqb a ":"), (Ascii.eqb a ","), (is_space a); reflexivity.
Qed.

(* brack l contains no colon and no space; stripping brackets and splitting at commas gives l back *)
Lemma brack_unparse : forall l, l <> [] -> (forall x, In x l -> clean x = true) ->
  has_char (Ascii.eqb ":") (brack l) = false /\ has_char is_space (brack l) = false
  /\ split "," (remove_chars is_bracket (brack l)) = l.
Proof.
  intros l Hne H.
  assert (Hc : forall x, In x l -> has_char (Ascii.eqb ":") x = false) by (intros; now apply clean_parts, H).
  assert (Hk : forall x, In x l -> has_char (Ascii.eqb ",") x = false) by (intros; now apply clean_parts, H).
  assert (Hs : forall x, In x l -> has_char is_space x = false) by (intros; now apply clean_parts, H).
  assert (Hb : forall x, In x l -> has_char is_bracket x = false) by (intros; now apply clean_parts, H).
  destruct l as [|x [|y r]]; [easy| |].
  - simpl. repeat split; try (apply Hc || apply Hs; now left).
    rewrite remove_chars_id by (apply Hb; now left). apply split_nosep. apply Hk. now left.
  - change (brack (x :: y :: r)) with ("[" ++ join "," (x :: y :: r) ++ "]")%string.
    set (l := x :: y :: r) in *.
    repeat split.
    + rewrite !has_char_app. rewrite has_char_join; auto.
    + rewrite !has_char_app. rewrite has_char_join; auto.
    + rewrite !remove_chars_app.
      rewrite (remove_chars_id _ (join "," l)) by (apply has_char_join; auto).
      change (remove_chars is_bracket "[") with "". change (remove_chars is_bracket "]") with "".
      change ("" ++ join "," l ++ "")%string with (join "," l ++ "")%string.
      replace (join "," l ++ "")%string with (join "," l).
      * apply split_join; auto.
      * clear. induction (join "," l); simpl; congruence.
Qed.

Lemma parse_bid_benchmark_id : forall vids cids sid ver,
  vids <> [] -> cids <> [] ->
  (forall x, In x vids -> clean x = true) -> (forall x, In x cids -> clean x = true) ->
  has_char is_colon_space sid = false -> has_char is_colon_space ver = false ->
  parse_bid (benchmark_id vids cids sid ver) = Some (vids, cids, sid, ver).
Proof.
  intros vids cids sid ver Hv Hc Hcv Hcc Hs Hr.
  destruct (brack_unparse vids Hv Hcv) as [V1 [V2 V3]].
  destruct (brack_unparse cids Hc Hcc) as [C1 [C2 C3]].
  assert (S1 : has_char (Ascii.eqb ":") sid = false).
  { eapply has_char_weaken; [|exact Hs]. intros a Ha. unfold is_colon_space. now rewrite Ascii.eqb_sym, Ha. }
  assert (S2 : has_char is_space sid = false).
  { eapply has_char_weaken; [|exact Hs]. intros a Ha. unfold is_colon_space. rewrite Ha. now rewrite orb_true_r. }
  assert (R1 : has_char (Ascii.eqb ":") ver = false).
  { eapply has_char_weaken; [|exact Hr]. intros a Ha. unfold is_colon_space. now rewrite Ascii.eqb_sym, Ha. }
  assert (R2 : has_char is_space ver = false).
  { eapply has_char_weaken; [|exact Hr]. intros a Ha. unfold is_colon_space. rewrite Ha. now rewrite orb_true_r. }
  unfold parse_bid, benchmark_id.
  rewrite remove_chars_id.
  2:{ rewrite !has_char_app. simpl. rewrite V2, C2, S2, R2. reflexivity. }
  change (brack vids ++ ":" ++ brack cids ++ ":" ++ sid ++ ":" ++ ver)%string
    with (brack vids ++ String ":" (brack cids ++ String ":" (sid ++ String ":" ver)))%string.
  rewrite split_app_sep by exact V1. rewrite split_app_sep by exact C1.
  rewrite split_app_sep by exact S1. rewrite split_nosep by exact R1.
  now rewrite V3, C3.
Qed.

(* ------------------------------------------------------------------ stable sort *)
Section SortFacts.
  Context {A : Type} (key : A -> Z).
  Definition ascending (l : list A) : Prop := StronglySorted (fun a b => (key a <= key b)%Z) l.

  Lemma insert_front_perm : forall x l, Permutation (x :: l) (insert_front key x l).
  Proof.
    induction l as [|y r IH]; simpl; [reflexivity|].
    destruct (key x <=? key y)%Z; [reflexivity|].
    rewrite perm_swap. now apply perm_skip.
  Qed.
  Lemma sort_by_perm : forall l, Permutation l (sort_by key l).
  Proof.
    induction l as [|x r IH]; simpl; [reflexivity|].
    rewrite <- insert_front_perm. now apply perm_skip.
  Qed.
  Lemma insert_front_sorted : forall x l, ascending l -> ascending (insert_front key x l).
  Proof.
    induction l as [|y r IH]; simpl; intros H.
    - constructor; constructor.
    - inversion H as [|? ? Hs Hf]; subst.
      destruct (key x <=? key y)%Z eqn:E.
      + apply Z.leb_le in E. constructor; [exact H|]. constructor; [exact E|].
        eapply Forall_impl; [|exact Hf]. intros a Ha. simpl in Ha. lia.
      + apply Z.leb_gt in E. constructor; [now apply IH|].
        eapply Permutation_Forall; [apply insert_front_perm|]. constructor; [lia|exact Hf].
  Qed.
  Lemma sort_by_sorted : forall l, ascending (sort_by key l).
  Proof.
    induction l as [|x r IH]; simpl; [constructor|]. now apply insert_front_sorted.
  Qed.
  Lemma sort_by_id : forall l, ascending l -> sort_by key l = l.
  Proof.
    induction l as [|x r IH]; simpl; intros H; [reflexivity|].
    inversion H as [|? ? Hs Hf]; subst. rewrite IH by exact Hs.
    destruct r as [|y r']; simpl; [reflexivity|].
    inversion Hf as [|? ? Hxy _]; subst. apply Z.leb_le in Hxy. now rewrite Hxy.
  Qed.
End SortFacts.

(* ------------------------------------------------------------------ the codec *)
Section Codec.
  Variable F : Type.
  Variable fstr : F -> string.
  Variable fparse : string -> option F.
  Variable fpos : F -> bool.
  Variable zf : Z -> F.                                   (* float(str(int)) *)
  Variable T : tables.
  Hypothesis f_rt : forall x, fparse (fstr x) = Some x.   (* float(str(np.float64(x))) = x *)
  Hypothesis z_rt : forall z, fparse (ztext z) = Some (zf z).

  Local Notation num := (num F).
  Local Notation fv := (fv F).
  Local Notation state := (state F).
  Local Notation NFn := (@NF F).
  Local Notation NZn := (@NZ F).

  (* what a value reads back as: ints in float-valued positions become the float of their text *)
  Definition norm_num (as_float : bool) (n : num) : num :=
    if as_float then NFn (match n with NF _ x => x | NZ _ z => zf z end) else n.
  Definition norm_fv (e : xml_entry) (v : fv) : fv :=
    match e, v with
    | XTuple _, FA _ l => FA _ (map (norm_num true) l)
    | XName n, FS _ x => FS _ (norm_num (negb (String.eqb n "time")) x)
    | _, _ => v
    end.
  Definition getv (f : string) (st : state) : fv :=
    match lookup f st with Some v => v | None => FA _ [] end.
  (* the state as the reader rebuilds it: the fields of the type, in table order *)
  Definition proj_state (xf : list (xml_entry * string)) (st : state) : state :=
    map (fun p => (snd p, norm_fv (fst p) (getv (snd p) st))) xf.

  Lemma find_kid_leaf : forall (W : list (string * string)) n t,
    NoDup (map fst W) -> In (n, t) W -> find_kid n (map leaf W) = Some (leaf (n, t)).
  Proof.
    induction W as [|[n' t'] r IH]; simpl; intros n t Hnd Hin; [easy|].
    inversion Hnd as [|? ? Hn Hnd']; subst.
    unfold find_kid. simpl.
    destruct Hin as [Heq|Hin].
    - inversion Heq; subst. now rewrite String.eqb_refl.
    - destruct (String.eqb_spec n' n).
      + subst. exfalso. apply Hn. apply in_map_iff. now exists (n, t).
      + now apply IH.
  Qed.

  Lemma parse_num_written : forall W n v as_float,
    NoDup (map fst W) -> In (n, num_text F fstr v) W ->
    (as_float = false -> exists z, v = NZn z) ->
    parse_sub F fparse (map leaf W) n as_float = Some (norm_num as_float v).
  Proof.
    intros W n v af Hnd Hin Hz. unfold parse_sub.
    rewrite (find_kid_leaf W n _ Hnd Hin). simpl.
    destruct af.
    - destruct v; simpl; [now rewrite f_rt | now rewrite z_rt].
    - destruct (Hz eq_refl) as [z ->]. simpl. now rewrite zparse_ztext.
  Qed.

  Lemma write_tuple_spec : forall names l ps,
    write_tuple F fstr names l = Some ps -> length l = length names ->
    map fst ps = names /\
    forall W, NoDup (map fst W) -> incl ps W ->
      mapM (fun n => parse_sub F fparse (map leaf W) n true) names = Some (map (norm_num true) l).
  Proof.
    induction names as [|n ns IH]; intros l ps Hw Hl.
    - destruct l; [|discriminate]. simpl in Hw. inversion Hw; subst. split; [reflexivity|]. now intros.
    - destruct l as [|v vs]; [discriminate|]. simpl in Hw.
      destruct (write_tuple F fstr ns vs) as [ps'|] eqn:E; [|discriminate].
      inversion Hw; subst. simpl in Hl.
      destruct (IH vs ps' E) as [I1 I2]; [lia|].
      split; [simpl; now rewrite I1|].
      intros W Hnd Hinc. simpl.
      rewrite (parse_num_written W n v true Hnd); [|apply Hinc; now left|discriminate].
      rewrite I2; auto. intros x Hx. apply Hinc. now right.
  Qed.

  Lemma write_tuple_total : forall names l, length l = length names -> write_tuple F fstr names l <> None.
  Proof.
    induction names as [|n ns IH]; intros [|v vs] Hl; simpl in *; try discriminate.
    destruct (write_tuple F fstr ns vs) eqn:E; [discriminate|]. exfalso. apply (IH vs); [lia|exact E].
  Qed.

  Lemma write_entry_spec : forall e v ps,
    write_entry F fstr e v = Some ps -> entry_wt F e v = true ->
    map fst ps = flat_names [e] /\
    forall W, NoDup (map fst W) -> incl ps W ->
      read_entry F fparse (map leaf W) e = Some (norm_fv e v).
  Proof.
    intros e v ps Hw Hwt. destruct e as [n|names], v as [x|l]; simpl in *; try discriminate.
    - inversion Hw; subst. split; [reflexivity|].
      intros W Hnd Hinc.
      rewrite (parse_num_written W n x _ Hnd); [reflexivity|apply Hinc; now left|].
      intros Hf. apply negb_false_iff in Hf. rewrite Hf in Hwt.
      destruct x; [discriminate|]. now eexists.
    - apply Nat.eqb_eq in Hwt.
      destruct (write_tuple_spec names l ps Hw Hwt) as [I1 I2].
      split; [now rewrite app_nil_r|].
      intros W Hnd Hinc. now rewrite I2.
  Qed.

  Lemma dict_set_fresh {A} : forall k (v : A) d, ~ In k (map fst d) -> dict_set k v d = d ++ [(k, v)].
  Proof.
    induction d as [|[k' v'] r IH]; simpl; intros H; [reflexivity|].
    destruct (String.eqb_spec k k'); [exfalso; apply H; now left|].
    rewrite IH; auto.
  Qed.

  Definition fields_wt (xf : list (xml_entry * string)) (st : state) : bool :=
    forallb (fun p => match lookup (snd p) st with
                      | Some v => entry_wt F (fst p) v | None => false end) xf.

  Lemma write_pairs_spec : forall xf st,
    fields_wt xf st = true ->
    exists ps, write_pairs F fstr xf st = Some ps /\ map fst ps = flat_names (map fst xf) /\
      forall W acc, NoDup (map fst W) -> incl ps W -> NoDup (map fst acc ++ map snd xf) ->
        read_pairs F fparse (map leaf W) xf acc = Some (acc ++ proj_state xf st).
  Proof.
    induction xf as [|[e f] r IH]; intros st Hwt.
    - exists []. repeat split. intros W acc _ _ _. simpl. now rewrite app_nil_r.
    - simpl in Hwt. apply andb_true_iff in Hwt as [H1 H2].
      destruct (lookup f st) as [v|] eqn:El; [|discriminate].
      destruct (IH st H2) as [ps' [P1 [P2 P3]]].
      destruct (write_entry F fstr e v) as [pe|] eqn:Ew.
      2:{ exfalso. destruct e, v; simpl in *; try discriminate.
          apply Nat.eqb_eq in H1. now apply (write_tuple_total l l0). }
      destruct (write_entry_spec e v pe Ew H1) as [E1 E2].
      exists (pe ++ ps'). simpl. rewrite El, Ew, P1. split; [reflexivity|].
      split.
      { rewrite map_app, E1, P2. simpl. now rewrite app_nil_r. }
      intros W acc Hnd Hinc Hnd2.
      rewrite E2; auto.
      2:{ intros x Hx. apply Hinc. apply in_or_app. now left. }
      simpl in Hnd2.
      assert (Hf : ~ In f (map fst acc)).
      { intros Hin. apply NoDup_remove_2 in Hnd2. apply Hnd2. apply in_or_app. now left. }
      rewrite dict_set_fresh by exact Hf.
      rewrite P3; auto.
      + rewrite <- app_assoc. simpl. unfold getv. now rewrite El.
      + intros x Hx. apply Hinc. apply in_or_app. now right.
      + rewrite map_app. simpl. rewrite <- app_assoc. simpl.
        apply NoDup_remove_1 in Hnd2 as Hnd3.
        apply NoDup_remove_2 in Hnd2.
        (* move f from the middle to the end of the accumulator part *)
        apply Permutation_NoDup with (l := f :: map fst acc ++ map snd r).
        * apply Permutation_middle.
        * constructor; assumption.
  Qed.

  (* ---------------------------------------------------------------- state node *)
  Lemma type_aligned_parts : forall ty, type_aligned T ty = true ->
    exists fs xs stag ttag cls attrs,
      lookup ty (t_fields T) = Some fs /\ lookup ty (t_xml T) = Some xs /\ lookup ty (t_stype T) = Some stag /\
      lookup ty (t_ttype T) = Some ttag /\ lookup ty (t_reader T) = Some (cls, attrs) /\
      length fs = length xs /\ NoDup (flat_names xs) /\ NoDup fs /\ time_aligned (combine xs fs) = true /\
      (forall f, In f fs -> In f attrs).
  Proof.
    intros ty H. unfold type_aligned in H.
    destruct (lookup ty (t_fields T)) as [fs|]; [|discriminate].
    destruct (lookup ty (t_xml T)) as [xs|]; [|discriminate].
    destruct (lookup ty (t_stype T)) as [stag|]; [|discriminate].
    destruct (lookup ty (t_ttype T)) as [ttag|]; [|discriminate].
    destruct (lookup ty (t_reader T)) as [[cls attrs]|]; [|discriminate].
    repeat (apply andb_true_iff in H as [H ?]).
    exists fs, xs, stag, ttag, cls, attrs. repeat split; auto.
    - now apply Nat.eqb_eq.
    - now apply nodup_s_NoDup.
    - now apply nodup_s_NoDup.
    - intros f Hf. apply mem_In. rewrite forallb_forall in H0. now apply H0.
  Qed.

  Lemma combine_fst {A B} : forall (a : list A) (b : list B), length a = length b -> map fst (combine a b) = a.
  Proof. induction a; destruct b; simpl; intros; try discriminate; f_equal; auto. Qed.
  Lemma combine_snd {A B} : forall (a : list A) (b : list B), length a = length b -> map snd (combine a b) = b.
  Proof. induction a; destruct b; simpl; intros; try discriminate; f_equal; auto. Qed.

  Theorem state_roundtrip : forall ty st,
    type_aligned T ty = true -> state_wt F T ty st = true ->
    exists x xf cls attrs,
      zipped T ty = Some xf /\ lookup ty (t_reader T) = Some (cls, attrs) /\
      write_state F fstr T ty st = Some x /\
      read_state F fparse T ty x = Some (attrs, proj_state xf st).
  Proof.
    intros ty st Ha Hwt.
    destruct (type_aligned_parts ty Ha) as (fs & xs & stag & ttag & cls & attrs & L1 & L2 & L3 & L4 & L5 & Hlen & Hnx & Hnf & Hta & Hin).
    unfold state_wt, zipped in Hwt. rewrite L1, L2 in Hwt.
    destruct (write_pairs_spec (combine xs fs) st Hwt) as [ps [P1 [P2 P3]]].
    exists (Node stag [] (map leaf ps) ""), (combine xs fs), cls, attrs.
    unfold write_state, read_state, zipped. rewrite L1, L2, L3, P1. simpl.
    rewrite String.eqb_refl. repeat split; auto.
    rewrite (P3 ps []).
    - simpl. unfold construct. rewrite L5.
      replace (forallb _ _) with true; [reflexivity|].
      symmetry. apply forallb_forall. intros [k v] Hkv. apply mem_In. apply Hin.
      unfold proj_state in Hkv. apply in_map_iff in Hkv as [[e f] [Heq Hp]]. simpl in *.
      inversion Heq; subst. apply in_combine_r in Hp. exact Hp.
    - rewrite P2, combine_fst by auto. exact Hnx.
    - apply incl_refl.
    - simpl. now rewrite combine_snd by auto.
  Qed.
  (* ---------------------------------------------------------------- trajectory node *)
  Lemma mapM_Forall2 {A B} : forall (f : A -> option B) (P : A -> B -> Prop) l,
    (forall x, In x l -> exists y, f x = Some y /\ P x y) ->
    exists ys, mapM f l = Some ys /\ Forall2 P l ys.
  Proof.
    induction l as [|x r IH]; intros H.
    - exists []. split; [reflexivity|constructor].
    - destruct (H x) as [y [Hy Py]]; [now left|].
      destruct IH as [ys [Hys Pys]]; [intros; apply H; now right|].
      exists (y :: ys). simpl. rewrite Hy, Hys. split; [reflexivity|now constructor].
  Qed.
  Lemma mapM_of_Forall2 {A B C} : forall (f : B -> option C) (g : A -> C) l ys,
    Forall2 (fun a b => f b = Some (g a)) l ys -> mapM f ys = Some (map g l).
  Proof.
    induction 1; simpl; [reflexivity|]. now rewrite H, IHForall2.
  Qed.

  Definition xf_of (ty : string) : list (xml_entry * string) :=
    match zipped T ty with Some xf => xf | None => [] end.
  Definition norm_states (ty : string) (sts : list state) : list state :=
    sort_by (key_of F) (map (proj_state (xf_of ty)) sts).

  Lemma lookup_map_snd {A B} : forall (g : A * string -> B) k (xf : list (A * string)),
    lookup k (map (fun p => (snd p, g p)) xf) = option_map g (find (fun p => String.eqb k (snd p)) xf).
  Proof.
    induction xf as [|p r IH]; simpl; [reflexivity|].
    destruct (String.eqb k (snd p)); [reflexivity|exact IH].
  Qed.

  Lemma time_of_proj : forall xf st, time_aligned xf = true -> fields_wt xf st = true ->
    exists z, time_of F (proj_state xf st) = Some z /\ (0 <= z)%Z.
  Proof.
    intros xf st Ht Hwt. unfold time_aligned in Ht. apply andb_true_iff in Ht as [Ht1 Ht2].
    unfold time_of, proj_state. rewrite lookup_map_snd.
    destruct (find (fun p => String.eqb "time_step" (snd p)) xf) as [[e f]|] eqn:Ef.
    - apply find_some in Ef as [Hin Heq]. cbn [snd] in Heq. apply String.eqb_eq in Heq. subst f.
      rewrite forallb_forall in Ht1. specialize (Ht1 _ Hin). cbn [fst snd] in Ht1.
      unfold fields_wt in Hwt. rewrite forallb_forall in Hwt. specialize (Hwt _ Hin). cbn [fst snd] in Hwt.
      cbn [option_map fst snd]. unfold getv.
      destruct (lookup "time_step" st) as [v|]; [|discriminate].
      destruct e as [n|l].
      + rewrite String.eqb_refl in Ht1. apply eqb_prop in Ht1.
        destruct v as [x|]; cbn [entry_wt] in Hwt; [|discriminate]. rewrite Ht1 in Hwt.
        destruct x as [|z]; [discriminate|]. cbn [norm_fv]. rewrite Ht1. cbn [negb norm_num].
        exists z. split; [reflexivity|now apply Z.leb_le].
      + rewrite String.eqb_refl in Ht1. discriminate.
    - exfalso. apply existsb_exists in Ht2 as [p [Hin Hp]].
      eapply find_none in Ef; [|exact Hin]. cbn beta in Ef. rewrite String.eqb_sym in Hp. congruence.
  Qed.

  Hypothesis Htab : tables_aligned T = true.

  Lemma tab_parts :
    NoDup (map snd (t_ttype T)) /\ (forall ty, In ty (type_names T) -> type_aligned T ty = true)
    /\ forallb (fun c => clean (fst c)) (t_cost T) = true /\ all_vehicle_ids_parse T = true
    /\ reader_reclassifies T = true.
  Proof.
    unfold tables_aligned in Htab. repeat (apply andb_true_iff in Htab as [Htab ?]).
    repeat split; auto.
    - now apply nodup_s_NoDup.
    - intros ty Hin. rewrite forallb_forall in H4. now apply H4.
  Qed.

  Local Notation pps := (pps F).
  Definition norm_pps (p : pps) : pps :=
    {| p_id := p_id _ p; p_vm := p_vm _ p; p_vt := p_vt _ p; p_cost := p_cost _ p; p_ty := p_ty _ p;
       p_states := norm_states (p_ty _ p) (p_states _ p) |}.

  Lemma traj_roundtrip : forall p, pps_ok F T p = true ->
    exists x cls attrs, lookup (p_ty _ p) (t_reader T) = Some (cls, attrs) /\
      write_traj F fstr T p = Some x /\
      read_traj F fparse T x = Some (p_id _ p, p_ty _ p, attrs, norm_states (p_ty _ p) (p_states _ p)).
  Proof.
    intros p Hok. unfold pps_ok in Hok. repeat (apply andb_true_iff in Hok as [Hok ?]).
    destruct tab_parts as (Tnd & Tal & _).
    apply mem_In in Hok. specialize (Tal _ Hok).
    destruct (type_aligned_parts _ Tal) as (fs & xs & stag & ttag & cls & attrs & L1 & L2 & L3 & L4 & L5 & Hlen & Hnx & Hnf & Hta & Hin).
    set (ty := p_ty _ p) in *. set (xf := combine xs fs).
    assert (Hz : zipped T ty = Some xf) by (unfold zipped; now rewrite L1, L2).
    assert (Hxf : xf_of ty = xf) by (unfold xf_of; now rewrite Hz).
    rewrite forallb_forall in H.
    destruct (mapM_Forall2 (write_state F fstr T ty)
                (fun st x => read_state F fparse T ty x = Some (attrs, proj_state xf st)) (p_states _ p)) as [ks [K1 K2]].
    { intros st Hst. destruct (state_roundtrip ty st Tal (H _ Hst)) as (x & xf' & cls' & attrs' & Z1 & Z2 & Z3 & Z4).
      rewrite Hz in Z1. inversion Z1; subst xf'. rewrite L5 in Z2. inversion Z2; subst.
      exists x. split; assumption. }
    exists (Node ttag [("planningProblem", ztext (p_id _ p))] ks ""), cls, attrs.
    split; [exact L5|]. unfold write_traj. fold ty. rewrite L4, K1. split; [reflexivity|].
    unfold read_traj. simpl tag_of. simpl attrs_of. simpl kids_of.
    rewrite (rlookup_NoDup ty ttag) by (auto; now apply lookup_In).
    change (lookup "planningProblem" [("planningProblem", ztext (p_id F p))]) with (Some (ztext (p_id F p))).
    cbv iota beta. rewrite zparse_ztext.
    rewrite (mapM_of_Forall2 _ (fun st => (attrs, proj_state xf st)) _ _ K2).
    destruct (p_states _ p) as [|st0 rest] eqn:Es; [discriminate|].
    simpl map at 1. cbv iota beta.
    replace (proj_state xf st0 :: map snd (map (fun st => (attrs, proj_state xf st)) rest))
      with (map (proj_state xf) (st0 :: rest)).
    2:{ simpl. f_equal. rewrite map_map. reflexivity. }
    match goal with |- context [forallb ?f ?l] => assert (Hfa : forallb f l = true) end.
    { apply forallb_forall. intros st' Hin'. apply in_map_iff in Hin' as [st [<- Hst]].
      assert (Hw : fields_wt xf st = true).
      { specialize (H st Hst). unfold state_wt in H. now rewrite Hz in H. }
      destruct (time_of_proj xf st Hta Hw) as [z [Hz1 Hz2]]. rewrite Hz1. now apply Z.leb_le. }
    rewrite Hfa. unfold norm_states. now rewrite Hxf.
  Qed.

  (* ---------------------------------------------------------------- solution *)
  Variable S : Type.
  Variable sid_str : S -> string.
  Variable sid_ver : S -> string.
  Variable sid_parse : string -> string -> option S.
  Variable D : Type.
  Variable dstr : D -> string.
  Variable dparse : string -> option D.
  Variable dtrunc : D -> D.                               (* the date to the second *)
  Variable cpu : option string.
  Hypothesis sid_rt : forall i, sid_parse (sid_str i) (sid_ver i) = Some i.
  Hypothesis d_rt : forall d, dparse (dstr d) = Some (dtrunc d).
  Hypothesis fpos_zf : forall z, (0 < z)%Z -> fpos (zf z) = true.

  Local Notation solution := (solution F S D).
  Definition norm_solution (s : solution) : solution :=
    {| s_sid := s_sid _ _ _ s; s_pps := map norm_pps (s_pps _ _ _ s);
       s_date := option_map dtrunc (s_date _ _ _ s);
       s_ctime := option_map (norm_num true) (s_ctime _ _ _ s);
       s_pname := pname_out cpu (s_pname _ _ _ s) |}.

  Lemma put_pps_fresh : forall (p : pps) d, ~ In (p_id _ p) (map (p_id F) d) -> put_pps F p d = d ++ [p].
  Proof.
    induction d as [|q r IH]; simpl; intros H; [reflexivity|].
    destruct (Z.eqb_spec (p_id _ q) (p_id _ p)); [exfalso; apply H; now left|].
    rewrite IH; auto.
  Qed.
  Lemma dict_pps_nodup : forall l acc, NoDup (map (p_id F) (acc ++ l)) -> dict_pps F acc l = acc ++ l.
  Proof.
    induction l as [|p r IH]; simpl; intros acc H; [now rewrite app_nil_r|].
    rewrite put_pps_fresh.
    - rewrite IH; rewrite <- app_assoc; auto.
    - rewrite map_app in H. simpl in H. apply NoDup_remove_2 in H. intros Hin. apply H.
      apply in_or_app. now left.
  Qed.
  Lemma nodup_z_NoDup : forall l, nodup_z l = true -> NoDup l.
  Proof.
    induction l as [|x r IH]; simpl; intros H; constructor.
    - apply andb_true_iff in H as [H _]. intros Hin. apply negb_true_iff in H.
      assert (existsb (Z.eqb x) r = true) by (apply existsb_exists; exists x; split; auto; apply Z.eqb_refl).
      congruence.
    - apply IH. now apply andb_true_iff in H as [_ H].
  Qed.

  Lemma vehicle_id_ok : forall p : pps, pps_ok F T p = true ->
    parse_vehicle_id T (vehicle_id F p) = Some (p_vm _ p, p_vt _ p) /\ clean (vehicle_id F p) = true
    /\ clean (p_cost _ p) = true.
  Proof.
    intros p Hok. unfold pps_ok in Hok. repeat (apply andb_true_iff in Hok as [Hok ?]).
    destruct tab_parts as (_ & _ & Tc & Tv & _).
    apply mem_In in H3. apply in_map_iff in H3 as [[vm vmz] [E1 I1]]. simpl in E1.
    apply existsb_exists in H2 as [vtz [I2 E2]]. apply Z.eqb_eq in E2.
    apply in_map_iff in I2 as [[vtn vtz'] [E3 I3]]. simpl in E3. subst vtz'.
    unfold all_vehicle_ids_parse in Tv. rewrite forallb_forall in Tv. specialize (Tv _ I1).
    rewrite forallb_forall in Tv. specialize (Tv _ I3). simpl in Tv.
    unfold vehicle_id. rewrite <- E1, E2.
    apply andb_true_iff in Tv as [Tv1 Tv2].
    destruct (parse_vehicle_id T (vm ++ ztext vtz)) as [[m z]|]; [|discriminate].
    apply andb_true_iff in Tv1 as [M1 M2]. apply String.eqb_eq in M1. apply Z.eqb_eq in M2. subst.
    repeat split; auto.
    apply mem_In in H1. apply in_map_iff in H1 as [c [E4 I4]].
    rewrite forallb_forall in Tc. rewrite <- E4. now apply Tc.
  Qed.

  Lemma reclassify : forall (p : pps) cls attrs, pps_ok F T p = true ->
    lookup (p_ty _ p) (t_reader T) = Some (cls, attrs) ->
    forall sts, pps_ctor F T (p_id _ p) (p_vm _ p) (p_vt _ p) (p_cost _ p) attrs sts =
      Some {| p_id := p_id _ p; p_vm := p_vm _ p; p_vt := p_vt _ p; p_cost := p_cost _ p; p_ty := p_ty _ p;
              p_states := sts |}.
  Proof.
    intros p cls attrs Hok L5 sts. unfold pps_ok in Hok. repeat (apply andb_true_iff in Hok as [Hok ?]).
    destruct tab_parts as (_ & _ & _ & _ & Tr).
    unfold reader_reclassifies in Tr. rewrite forallb_forall in Tr. apply mem_In in Hok. specialize (Tr _ Hok).
    rewrite L5 in Tr. unfold valid_vm in H5.
    destruct (lookup (p_ty _ p) (t_valid_vm T)) as [vms|] eqn:Ev; [|discriminate].
    rewrite forallb_forall in Tr. apply mem_In in H5 as H5'. specialize (Tr _ H5').
    unfold pps_ctor.
    destruct (get_state_type T attrs (p_vm _ p)) as [ty'|]; [|discriminate].
    apply String.eqb_eq in Tr. subst ty'.
    unfold valid_vm. rewrite Ev, H5, H4. reflexivity.
  Qed.

  Lemma read_ppss_written : forall vids cids (ps : list pps) ks idx,
    (forall p, In p ps -> pps_ok F T p = true) ->
    Forall2 (fun p x => exists cls attrs, lookup (p_ty _ p) (t_reader T) = Some (cls, attrs) /\
               read_traj F fparse T x = Some (p_id _ p, p_ty _ p, attrs, norm_states (p_ty _ p) (p_states _ p))) ps ks ->
    (forall i p, nth_error ps i = Some p ->
       nth_error vids (idx + i) = Some (vehicle_id F p) /\ nth_error cids (idx + i) = Some (p_cost _ p)) ->
    read_ppss F fparse T idx vids cids ks = Some (map norm_pps ps).
  Proof.
    intros vids cids ps ks idx Hok H2. revert idx. induction H2 as [|p x ps' ks' Hpx _ IH]; intros idx Hn.
    - reflexivity.
    - simpl. destruct (Hn 0%nat p eq_refl) as [N1 N2]. rewrite Nat.add_0_r in N1, N2. rewrite N1, N2.
      assert (Hp : pps_ok F T p = true) by (apply Hok; now left).
      destruct (vehicle_id_ok p Hp) as [V1 _]. rewrite V1.
      destruct Hpx as (cls & attrs & L5 & Hr). rewrite Hr.
      replace (mem (p_cost _ p) (map fst (t_cost T))) with true.
      2:{ unfold pps_ok in Hp. repeat (apply andb_true_iff in Hp as [Hp ?]). now rewrite H1. }
      rewrite (reclassify p cls attrs Hp L5).
      rewrite IH.
      + reflexivity.
      + intros q Hq. apply Hok. now right.
      + intros i q Hq. specialize (Hn (Datatypes.S i) q Hq). now rewrite Nat.add_succ_r in Hn.
  Qed.

  Theorem solution_roundtrip : forall s : solution,
    solution_ok F fpos S sid_str sid_ver D T s = true ->
    exists x, write_solution F fstr S sid_str sid_ver D dstr cpu T s = Some x /\
              read_solution F fparse fpos S sid_parse D dparse T x = Some (norm_solution s).
  Proof.
    intros s Hok. unfold solution_ok in Hok. repeat (apply andb_true_iff in Hok as [Hok ?]).
    rename H into Hct, H0 into Hsid, H1 into Hnd, H2 into Hpps.
    rewrite forallb_forall in Hpps.
    destruct (mapM_Forall2 (write_traj F fstr T)
       (fun p x => exists cls attrs, lookup (p_ty _ p) (t_reader T) = Some (cls, attrs) /\
          read_traj F fparse T x = Some (p_id _ p, p_ty _ p, attrs, norm_states (p_ty _ p) (p_states _ p)))
       (s_pps _ _ _ s)) as [ks [K1 K2]].
    { intros p Hp. destruct (traj_roundtrip p (Hpps p Hp)) as (x & cls & attrs & A1 & A2 & A3).
      exists x. split; [exact A2|]. now exists cls, attrs. }
    unfold write_solution.
    destruct (s_pps _ _ _ s) as [|p0 ps0] eqn:Eps; [discriminate|]. rewrite <- Eps in *.
    rewrite K1. eexists. split; [reflexivity|].
    unfold read_solution. simpl attrs_of. simpl kids_of.
    set (bid := benchmark_id _ _ _ _).
    change (lookup "benchmark_id" (("benchmark_id", bid) :: ?r)) with (Some bid).
    simpl lookup at 1.
    assert (Hbid : parse_bid bid = Some (map (vehicle_id F) (s_pps _ _ _ s), map (p_cost F) (s_pps _ _ _ s),
                                        sid_str (s_sid _ _ _ s), sid_ver (s_sid _ _ _ s))).
    { unfold bid. unfold clean_sid in Hsid. apply andb_true_iff in Hsid as [Hs1 Hs2].
      apply negb_true_iff in Hs1. apply negb_true_iff in Hs2.
      apply parse_bid_benchmark_id; auto.
      - rewrite Eps. discriminate.
      - rewrite Eps. discriminate.
      - intros x Hx. apply in_map_iff in Hx as [p [<- Hp]]. now apply vehicle_id_ok, Hpps.
      - intros x Hx. apply in_map_iff in Hx as [p [<- Hp]]. now apply vehicle_id_ok, Hpps. }
    assert (Hps : read_ppss F fparse T 0 (map (vehicle_id F) (s_pps _ _ _ s)) (map (p_cost F) (s_pps _ _ _ s)) ks
                  = Some (map norm_pps (s_pps _ _ _ s))).
    { apply read_ppss_written; auto. intros i p Hi. simpl.
      split; rewrite nth_error_map, Hi; reflexivity. }
    assert (Hdict : dict_pps F [] (map norm_pps (s_pps _ _ _ s)) = map norm_pps (s_pps _ _ _ s)).
    { rewrite dict_pps_nodup; [reflexivity|]. simpl. rewrite map_map. simpl.
      apply nodup_z_NoDup. exact Hnd. }
    unfold norm_solution.
    destruct (s_ctime _ _ _ s) as [c|], (s_date _ _ _ s) as [d|], (pname_out cpu (s_pname _ _ _ s)) as [pn|];
      simpl; rewrite ?d_rt; simpl; rewrite Hbid, sid_rt, Hps, Hdict;
      try (destruct c as [x|z]; simpl in *; rewrite ?f_rt, ?z_rt; simpl;
           first [ rewrite Hct | rewrite fpos_zf by (now apply Z.ltb_lt) ]); reflexivity.
  Qed.

  (* the sorted list of read-back states: ascending, a permutation, and unchanged if written ascending *)
  Theorem norm_states_ascending : forall ty sts, ascending (key_of F) (norm_states ty sts).
  Proof. intros. apply sort_by_sorted. Qed.
  Theorem norm_states_perm : forall ty sts,
    Permutation (map (proj_state (xf_of ty)) sts) (norm_states ty sts).
  Proof. intros. apply sort_by_perm. Qed.
  Theorem norm_states_id : forall ty sts, ascending (key_of F) (map (proj_state (xf_of ty)) sts) ->
    norm_states ty sts = map (proj_state (xf_of ty)) sts.
  Proof. intros. now apply sort_by_id. Qed.
End Codec.
