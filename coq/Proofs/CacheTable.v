(* Proofs/CacheTable.v — Model/CacheTable.v: a class all of whose setters pass [setter_ok] keeps every filled cache equal
   to what recomputation from the current attributes gives, on every history of setter calls (with or without their
   conditional tails) and queries; hence every query answers what the freshly constructed object answers. *)
From Coq Require Import List Bool Arith Lia.
Import ListNotations.
From CR Require Import Model.CacheTable.

Lemma memn_true x l : memn x l = true <-> In x l.
Proof.
  unfold memn. rewrite existsb_exists. split.
  - intros [y [Hy E]]. apply Nat.eqb_eq in E. subst. exact Hy.
  - intro H. exists x. split; [exact H | apply Nat.eqb_refl].
Qed.
Lemma remn_in x y l : In y (remn x l) <-> In y l /\ y <> x.
Proof.
  unfold remn. rewrite filter_In. split.
  - intros [H E]. split; [exact H|]. intro; subst. rewrite Nat.eqb_refl in E. discriminate.
  - intros [H N]. split; [exact H|]. destruct (Nat.eqb x y) eqn:E; [apply Nat.eqb_eq in E; congruence | reflexivity].
Qed.

Section Proofs.
  Variable val : Type.
  Variable caches : list nat.
  Variable deps : nat -> list nat.
  Variable compute : nat -> (nat -> val) -> val.
  (* the value of a cache is a function of the attributes it depends on *)
  Hypothesis compute_ext : forall k p p', (forall a, In a (deps k) -> p a = p' a) -> compute k p = compute k p'.

  Notation st := (st val).
  Notation coherent := (coherent val caches compute).
  Notation estep := (estep val compute).
  Notation erun := (erun val compute).
  Notation stale_step := (stale_step caches deps).

  (* what is known while the effects of a setter run: before the store everything is coherent; after it, everything
     outside the stale list *)
  Definition inv (acc : option (list nat)) (s : st) : Prop :=
    match acc with
    | None => coherent s
    | Some l => forall k v, In k caches -> ~ In k l -> snd s k = Some v -> v = compute k (fst s)
    end.

  Lemma upd_same {B} (f : nat -> B) i v : upd f i v i = v.
  Proof. unfold upd. rewrite Nat.eqb_refl. reflexivity. Qed.
  Lemma upd_other {B} (f : nat -> B) i j v : j <> i -> upd f i v j = f j.
  Proof. intro H. unfold upd. destruct (Nat.eqb j i) eqn:E; [apply Nat.eqb_eq in E; congruence | reflexivity]. Qed.

  Lemma store_keeps a x (p : nat -> val) k : ~ In a (deps k) -> compute k (upd p a x) = compute k p.
  Proof.
    intro H. apply compute_ext. intros i Hi. apply upd_other. intro; subst. exact (H Hi).
  Qed.

  Lemma inv_step a x e acc s : inv acc s -> inv (stale_step a acc e) (estep a x s e).
  Proof.
    destruct s as [p c]. destruct e as [|k0|k0], acc as [l|]; cbn [stale_step estep inv fst snd]; intro H.
    - (* a second store *)
      intros k v Hk Hn Hv. rewrite store_keeps.
      + apply (H k v Hk); [|exact Hv]. intro Hl. apply Hn. apply in_or_app. right. exact Hl.
      + intro Hd. apply Hn. apply in_or_app. left. apply filter_In. split; [exact Hk | apply memn_true; exact Hd].
    - (* the store *)
      intros k v Hk Hn Hv. rewrite store_keeps; [exact (H k v Hk Hv)|].
      intro Hd. apply Hn. apply filter_In. split; [exact Hk | apply memn_true; exact Hd].
    - intros k v Hk Hn Hv. destruct (Nat.eq_dec k k0) as [->|Hne].
      + rewrite upd_same in Hv. discriminate.
      + rewrite upd_other in Hv by exact Hne. apply (H k v Hk); [|exact Hv].
        intro Hl. apply Hn. apply remn_in. split; assumption.
    - intros k v Hk Hv. cbn [fst snd] in *. destruct (Nat.eq_dec k k0) as [->|Hne].
      + rewrite upd_same in Hv. discriminate.
      + rewrite upd_other in Hv by exact Hne. exact (H k v Hk Hv).
    - intros k v Hk Hn Hv. destruct (Nat.eq_dec k k0) as [->|Hne].
      + rewrite upd_same in Hv. injection Hv as <-. reflexivity.
      + rewrite upd_other in Hv by exact Hne. apply (H k v Hk); [|exact Hv].
        intro Hl. apply Hn. apply remn_in. split; assumption.
    - intros k v Hk Hv. cbn [fst snd] in *. destruct (Nat.eq_dec k k0) as [->|Hne].
      + rewrite upd_same in Hv. injection Hv as <-. reflexivity.
      + rewrite upd_other in Hv by exact Hne. exact (H k v Hk Hv).
  Qed.

  Lemma inv_run a x : forall l acc s, inv acc s -> inv (fold_left (stale_step a) l acc) (erun a x l s).
  Proof.
    induction l as [|e l IH]; intros acc s H; [exact H|].
    cbn [fold_left]. unfold erun. cbn [fold_left]. apply IH. apply inv_step. exact H.
  Qed.

  Lemma inv_nil_coherent s : inv (Some []) s <-> coherent s.
  Proof.
    split; intro H.
    - intros k v Hk Hv. apply (H k v Hk); [intros []|exact Hv].
    - intros k v Hk _ Hv. exact (H k v Hk Hv).
  Qed.

  (* effects that store nothing keep a coherent state coherent *)
  Lemma tail_keeps a x : forall l s, forallb (fun e => negb (is_store e)) l = true -> coherent s -> coherent (erun a x l s).
  Proof.
    induction l as [|e l IH]; intros s Hl H; [exact H|].
    cbn [forallb] in Hl. apply andb_true_iff in Hl. destruct Hl as [He Hl].
    unfold erun. cbn [fold_left]. apply IH; [exact Hl|].
    apply inv_nil_coherent. apply inv_nil_coherent in H.
    pose proof (inv_step a x e (Some []) s H) as H1.
    destruct e; cbn [is_store negb] in He; [discriminate| |]; cbn [stale_step remn filter] in H1; exact H1.
  Qed.

  Theorem setter_keeps_coherent t x tail s :
    setter_ok caches deps t = true -> coherent s -> coherent (step val compute s (OSet t x tail)).
  Proof.
    unfold setter_ok. intros Hok H. cbn [step].
    pose proof (inv_run (s_attr t) x (s_main t) None s H) as H1.
    destruct (fold_left (stale_step (s_attr t)) (s_main t) None) as [[|k l]|]; try discriminate.
    - apply inv_nil_coherent in H1. destruct tail; [apply tail_keeps; assumption | exact H1].
    - cbn [inv] in H1. destruct tail; [apply tail_keeps; assumption | exact H1].
  Qed.

  Lemma query_keeps_coherent k s : coherent s -> coherent (fst (query val compute k s)).
  Proof.
    destruct s as [p c]. unfold query. intro H. destruct (c k) as [v|] eqn:E; [exact H|].
    cbn [fst]. intros k1 v1 Hk Hv. cbn [fst snd] in *. destruct (Nat.eq_dec k1 k) as [->|Hne].
    - rewrite upd_same in Hv. injection Hv as <-. reflexivity.
    - rewrite upd_other in Hv by exact Hne. exact (H k1 v1 Hk Hv).
  Qed.

  Theorem query_answers_recomputed k s : In k caches -> coherent s -> snd (query val compute k s) = compute k (fst s).
  Proof.
    destruct s as [p c]. unfold query. intros Hk H. destruct (c k) as [v|] eqn:E; cbn [snd fst]; [|reflexivity].
    exact (H k v Hk E).
  Qed.

  (* every history of checked setter calls and queries, from any coherent state *)
  Theorem history_coherent : forall ops s,
    forallb (op_ok val caches deps) ops = true -> coherent s -> coherent (run val compute s ops).
  Proof.
    induction ops as [|o ops IH]; intros s Hok H; [exact H|].
    cbn [forallb] in Hok. apply andb_true_iff in Hok. destruct Hok as [Ho Hok].
    unfold run. cbn [fold_left]. apply IH; [exact Hok|].
    destruct o as [t x tail|k]; [apply setter_keeps_coherent; assumption | apply query_keeps_coherent; exact H].
  Qed.

  (* the same for a table of setters all of which pass the check *)
  Theorem table_history_coherent T : forallb (setter_ok caches deps) T = true ->
    forall ops s, Forall (from_table val T) ops -> coherent s -> coherent (run val compute s ops).
  Proof.
    intros HT ops s Hops. apply history_coherent.
    apply forallb_forall. intros o Ho. rewrite Forall_forall in Hops. specialize (Hops o Ho).
    destruct o as [t x tail|k]; [|reflexivity]. cbn [op_ok from_table] in *.
    rewrite forallb_forall in HT. exact (HT t Hops).
  Qed.

  Lemma rebuilt_coherent s : coherent (rebuilt val s).
  Proof. intros k v _ Hv. discriminate. Qed.

  (* after any such history a query answers what the object freshly built from the current attributes answers *)
  Theorem history_answers_as_rebuilt : forall ops s k,
    forallb (op_ok val caches deps) ops = true -> coherent s -> In k caches ->
    snd (query val compute k (run val compute s ops)) = snd (query val compute k (rebuilt val (run val compute s ops))).
  Proof.
    intros ops s k Hok H Hk.
    rewrite (query_answers_recomputed k _ Hk (history_coherent ops s Hok H)).
    rewrite (query_answers_recomputed k _ Hk (rebuilt_coherent _)). reflexivity.
  Qed.

  Theorem table_answers_as_rebuilt T : forallb (setter_ok caches deps) T = true ->
    forall ops s k, Forall (from_table val T) ops -> coherent s -> In k caches ->
    snd (query val compute k (run val compute s ops)) = snd (query val compute k (rebuilt val (run val compute s ops))).
  Proof.
    intros HT ops s k Hops H Hk.
    rewrite (query_answers_recomputed k _ Hk (table_history_coherent T HT ops s Hops H)).
    rewrite (query_answers_recomputed k _ Hk (rebuilt_coherent _)). reflexivity.
  Qed.

  (* the check is not idle: a setter that stores and leaves a dependent cache alone is refused *)
  Lemma setter_without_drop_refused a k :
    In k caches -> In a (deps k) -> setter_ok caches deps {| s_attr := a; s_main := [EStore]; s_tail := [] |} = false.
  Proof.
    intros Hk Ha. unfold setter_ok. cbn [fold_left stale_step s_main s_attr].
    destruct (filter (fun k0 => memn a (deps k0)) caches) as [|k1 l] eqn:E; [|reflexivity].
    exfalso. assert (In k (filter (fun k0 => memn a (deps k0)) caches)) as Hin
      by (apply filter_In; split; [exact Hk | apply memn_true; exact Ha]).
    rewrite E in Hin. exact Hin.
  Qed.
End Proofs.
