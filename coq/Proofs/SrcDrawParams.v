(* Proofs/SrcDrawParams.v — the programs parsed from BaseParam.__setattr__ / __post_init__ on every run
   (Gen/Src_drawparams.v) mean the model's [set] / [post_init] (Model/DrawParams.v), which the C19 propagation
   theorems are about.  Two steps: the parsed programs ARE the canonical ones (reflexivity on the generated text: any
   other statement structure breaks here), and the canonical programs, run by the interpreter of
   Model/DrawParamsSrc.v with enough fuel, compute [set] (for every tree, name and admissible value) and [post_init]
   (for every tree that declares the three base fields with scalar values). *)
From Coq Require Import String List Bool Arith Lia.
Import ListNotations.
From CR Require Import Model.DrawParams Model.DrawParamsSrc Proofs.DrawParams Gen.Src_drawparams.
Open Scope string_scope.
Open Scope list_scope.

(* ---------------------------------------------------------------- depth *)
Fixpoint fdepth (fs : list (string * val)) : nat :=
  match fs with [] => O | (_, x) :: r => Nat.max (vdepth x) (fdepth r) end.

Lemma depth_unfold c fs : depth (Node c fs) = S (fdepth fs).
Proof.
  reflexivity.
Qed.

Lemma depth_pos n : (1 <= depth n)%nat.
Proof. destruct n as [c fs]. rewrite depth_unfold. lia. Qed.

Lemma fdepth_in k m fs : In (k, VNode m) fs -> (depth m <= fdepth fs)%nat.
Proof.
  induction fs as [|[k' x] r IH]; intro H; [destruct H|].
  cbn [fdepth]. destruct H as [E|H].
  - injection E as _ Ex. subst x. cbn [vdepth]. lia.
  - specialize (IH H). lia.
Qed.

(* ---------------------------------------------------------------- the loop body [ICallIfGroup] *)
Section Loop.
  Variables (name : string) (v : val) (call : node -> option node).

  Lemma for_items_id fs :
    (forall k m, In (k, VNode m) fs -> call m = Some m) ->
    for_items call [ICallIfGroup] fs = Some fs.
  Proof.
    induction fs as [|[k x] r IH]; intro H; [reflexivity|].
    cbn [for_items iexec].
    assert (Hx : istep call ICallIfGroup x = Some x).
    { destruct x as [z|b|q|s| |l|t|m]; try reflexivity.
      cbn [istep]. rewrite (H k m) by (left; reflexivity). reflexivity. }
    rewrite Hx. rewrite IH by (intros k' m' Hin; apply (H k' m'); right; exact Hin). reflexivity.
  Qed.

  Definition own (kv : string * val) : string * val := if String.eqb (fst kv) name then (fst kv, v) else kv.

  Lemma for_items_upd fs :
    (forall k m, In (k, VNode m) fs -> String.eqb k name = false -> call m = Some (set name v m)) ->
    (forall mv, v = VNode mv -> call mv = Some mv) ->
    for_items call [ICallIfGroup] (map own fs) = Some (map (upd name v) fs).
  Proof.
    intros H Hv. induction fs as [|[k x] r IH]; [reflexivity|].
    cbn [map]. unfold own at 1, upd at 1. cbn [fst snd].
    assert (IH' : for_items call [ICallIfGroup] (map own r) = Some (map (upd name v) r)).
    { apply IH. intros k' m' Hin. apply (H k' m'). right. exact Hin. }
    destruct (String.eqb k name) eqn:Ek.
    - cbn [for_items iexec].
      assert (Hx : istep call ICallIfGroup v = Some v).
      { destruct v as [z|b|q|s| |l|t|mv] eqn:Ev; try reflexivity.
        cbn [istep]. rewrite (Hv mv eq_refl). reflexivity. }
      rewrite Hx, IH'. reflexivity.
    - cbn [for_items iexec].
      assert (Hx : istep call ICallIfGroup x = Some (push name v x)).
      { destruct x as [z|b|q|s| |l|t|m]; try reflexivity.
        cbn [istep push]. rewrite (H k m) by (try (left; reflexivity); exact Ek). reflexivity. }
      rewrite Hx, IH'. reflexivity.
  Qed.
End Loop.

Lemma set_own_unfold name v c fs : set_own name v (Node c fs) = Node c (map (own name v) fs).
Proof. reflexivity. Qed.

Lemma own_id name v fs : assoc name fs = None -> map (own name v) fs = fs.
Proof.
  induction fs as [|[k x] r IH]; intro H; [reflexivity|].
  cbn [assoc] in H. cbn [map]. unfold own at 1. cbn [fst].
  destruct (String.eqb k name); [discriminate|]. rewrite IH by exact H. reflexivity.
Qed.

(* what [deep_declares] says about one level *)
Lemma deep_declares_unfold name c fs :
  deep_declares name (Node c fs) =
  existsb (fun kv => String.eqb (fst kv) name || match snd kv with VNode m => deep_declares name m | _ => false end) fs.
Proof.
  cbn [deep_declares]. induction fs as [|[k x] r IH]; [reflexivity|].
  cbn [existsb fst snd]. rewrite <- IH. reflexivity.
Qed.

Lemma deep_false_fields name c fs :
  deep_declares name (Node c fs) = false ->
  assoc name fs = None /\ forall k m, In (k, VNode m) fs -> deep_declares name m = false.
Proof.
  rewrite deep_declares_unfold. induction fs as [|[k x] r IH]; intro H; [split; [reflexivity|intros ? ? []]|].
  cbn [existsb fst snd] in H. apply orb_false_iff in H. destruct H as [H1 H2].
  apply orb_false_iff in H1. destruct H1 as [Hk Hx]. destruct (IH H2) as [Ha Hm].
  split.
  - cbn [assoc]. rewrite Hk. exact Ha.
  - intros k' m' [E|Hin]; [injection E as _ Ex; subst x; exact Hx | exact (Hm k' m' Hin)].
Qed.

(* ---------------------------------------------------------------- the canonical __setattr__ *)
(* a group that (deeply) declares no [name] is left as it is *)
Lemma exec_canon_unchanged : forall f name v m,
  deep_declares name m = false -> (depth m <= f)%nat -> exec f canon_setattr name v m = Some m.
Proof.
  induction f as [|f IH]; intros name v [c fs] Hd Hf.
  - pose proof (depth_pos (Node c fs)). lia.
  - destruct (deep_false_fields name c fs Hd) as [Ha Hm].
    cbn [exec canon_setattr sexec step].
    assert (Hdecl : declares (Node c fs) name = false) by (unfold declares, field; cbn [fields]; rewrite Ha; reflexivity).
    rewrite Hdecl.
    rewrite for_items_id.
    + reflexivity.
    + intros k m Hin. apply IH; [exact (Hm k m Hin)|].
      rewrite depth_unfold in Hf. pose proof (fdepth_in k m fs Hin). lia.
Qed.

Theorem exec_canon_is_set : forall f name v n,
  admissible name v = true -> (depth n + vdepth v <= f)%nat ->
  exec f canon_setattr name v n = Some (set name v n).
Proof.
  induction f as [|f IH]; intros name v [c fs] Ha Hf.
  - pose proof (depth_pos (Node c fs)). lia.
  - rewrite depth_unfold in Hf.
    cbn [exec canon_setattr sexec step].
    assert (Hfs : (if declares (Node c fs) name then set_own name v (Node c fs) else Node c fs)
                  = Node c (map (own name v) fs)).
    { destruct (declares (Node c fs) name) eqn:Hd; [apply set_own_unfold|].
      rewrite own_id; [reflexivity|].
      unfold declares, field in Hd. cbn [fields] in Hd. destruct (assoc name fs); [discriminate|reflexivity]. }
    rewrite Hfs.
    rewrite (for_items_upd name v (exec f canon_setattr name v) fs).
    + rewrite set_unfold. reflexivity.
    + intros k m Hin _. apply IH; [exact Ha|]. pose proof (fdepth_in k m fs Hin). lia.
    + intros mv Ev. subst v. apply exec_canon_unchanged.
      * unfold admissible in Ha. apply negb_true_iff in Ha. exact Ha.
      * cbn [vdepth] in Hf. lia.
Qed.

(* ---------------------------------------------------------------- the canonical __post_init__ *)
Lemma push_scalar name v x : is_group x = false -> push name v x = x.
Proof. destruct x; try reflexivity. discriminate. Qed.

Lemma fdepth_upd_scalar : forall d name v fs,
  (forall n, (depth n <= d)%nat -> (depth (set name v n) <= depth n)%nat) ->
  is_group v = false -> (fdepth fs <= d)%nat -> (fdepth (map (upd name v) fs) <= fdepth fs)%nat.
Proof.
  intros d name v fs IH Hv. induction fs as [|[k x] r IHr]; intro Hd; [cbn; lia|].
  cbn [map fdepth] in *. unfold upd at 1. cbn [fst snd].
  assert (Hr : (fdepth (map (upd name v) r) <= fdepth r)%nat) by (apply IHr; lia).
  destruct (String.eqb k name).
  - cbn [fdepth]. assert (Hz : vdepth v = O) by (destruct v; try reflexivity; discriminate). rewrite Hz. lia.
  - cbn [fdepth]. destruct x as [z|b|q|s| |l|t|m]; cbn [push vdepth] in *; try lia.
    assert (Hm : (depth (set name v m) <= depth m)%nat) by (apply IH; lia). lia.
Qed.

Lemma depth_set_scalar : forall d name v n,
  is_group v = false -> (depth n <= d)%nat -> (depth (set name v n) <= depth n)%nat.
Proof.
  induction d as [|d IH]; intros name v [c fs] Hv Hd.
  - pose proof (depth_pos (Node c fs)). lia.
  - rewrite set_unfold, !depth_unfold. rewrite depth_unfold in Hd. apply le_n_S.
    apply (fdepth_upd_scalar d); [|exact Hv|lia].
    intros n Hn. apply IH; assumption.
Qed.

Lemma reassign_step : forall f k x n,
  is_group x = false -> (depth n <= S f)%nat ->
  sexec k x (exec f canon_setattr k x) true canon_setattr n = Some (set k x n).
Proof.
  intros f k x n Hx Hd.
  change (exec (S f) canon_setattr k x n = Some (set k x n)).
  apply exec_canon_is_set.
  - destruct x; try reflexivity. discriminate.
  - destruct x; cbn [vdepth]; try lia. discriminate.
Qed.

Theorem pexec_canon_is_post_init : forall f n x1 x2 x3,
  field n "time_begin" = Some x1 -> field n "time_end" = Some x2 -> field n "antialiased" = Some x3 ->
  is_group x1 = false -> is_group x2 = false -> is_group x3 = false ->
  (depth n <= S f)%nat ->
  pexec f canon_setattr false canon_post_init n = Some (post_init n).
Proof.
  intros f n x1 x2 x3 F1 F2 F3 G1 G2 G3 Hd.
  unfold post_init.
  cbn [pexec canon_post_init].
  rewrite F1. rewrite (reassign_step f "time_begin" x1 n G1 Hd).
  set (n1 := set "time_begin" x1 n).
  assert (D1 : (depth n1 <= depth n)%nat) by (apply (depth_set_scalar (S f)); assumption).
  assert (F2' : field n1 "time_end" = Some x2).
  { unfold n1. rewrite field_set, F2. cbn [String.eqb Ascii.eqb Bool.eqb]. rewrite push_scalar by exact G2. reflexivity. }
  assert (F3' : field n1 "antialiased" = Some x3).
  { unfold n1. rewrite field_set, F3. cbn [String.eqb Ascii.eqb Bool.eqb]. rewrite push_scalar by exact G3. reflexivity. }
  cbn [pexec]. rewrite F2'. rewrite (reassign_step f "time_end" x2 n1 G2) by lia.
  set (n2 := set "time_end" x2 n1).
  assert (D2 : (depth n2 <= depth n1)%nat) by (apply (depth_set_scalar (S f)); [assumption|lia]).
  assert (F3'' : field n2 "antialiased" = Some x3).
  { unfold n2. rewrite field_set, F3'. cbn [String.eqb Ascii.eqb Bool.eqb]. rewrite push_scalar by exact G3. reflexivity. }
  cbn [pexec]. rewrite F3''. rewrite (reassign_step f "antialiased" x3 n2 G3) by lia.
  cbn [pexec]. reflexivity.
Qed.

(* an assignment before the flag is set stays in the group itself: why __post_init__ has to set the flag first *)
Lemma not_initialized_stays_local name v n :
  sexec name v (fun _ => None) false canon_setattr n
  = Some (if declares n name then set_own name v n else n).
Proof. reflexivity. Qed.

(* ---------------------------------------------------------------- the parsed source *)
Lemma src_setattr_is_canon : src_setattr = canon_setattr.
Proof. reflexivity. Qed.
Lemma src_post_init_is_canon : src_post_init = canon_post_init.
Proof. reflexivity. Qed.

Theorem src_setattr_is_set : forall f name v n,
  admissible name v = true -> (depth n + vdepth v <= f)%nat ->
  exec f src_setattr name v n = set_attr name v n.
Proof.
  intros f name v n Ha Hf. rewrite src_setattr_is_canon. unfold set_attr. rewrite Ha.
  apply exec_canon_is_set; assumption.
Qed.

Theorem src_post_init_is_post_init : forall f n x1 x2 x3,
  field n "time_begin" = Some x1 -> field n "time_end" = Some x2 -> field n "antialiased" = Some x3 ->
  is_group x1 = false -> is_group x2 = false -> is_group x3 = false ->
  (depth n <= S f)%nat ->
  pexec f src_setattr false src_post_init n = Some (post_init n).
Proof.
  rewrite src_setattr_is_canon, src_post_init_is_canon. exact pexec_canon_is_post_init.
Qed.
