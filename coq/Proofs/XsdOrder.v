(* Proofs/XsdOrder.v — the writer's table order conforms to the xs:sequence order of the shipped XSD
   (side condition by vm_compute on the two GENERATED tables), hence every written element has its
   children in schema order (C03). *)
From Coq Require Import String List Bool.
From CR Require Import Model.Codec Proofs.Order Gen.XmlFmt Gen.XsdOrder.
Import ListNotations.
Open Scope string_scope.
Open Scope list_scope.

Definition order_ok (row : string * fmt * list string) : bool :=
  match row with
  | (_, FRec fs, order) => subseqb (filter nonattr (field_tags fs)) order
  | _ => false
  end.

Lemma table_order_conforms : forallb order_ok xsd_sequences = true.
Proof. vm_compute. reflexivity. Qed.

Lemma xsd_table_nonempty : Nat.leb 20 (length xsd_sequences) = true.
Proof. vm_compute. reflexivity. Qed.

Theorem elements_in_schema_order : forall n fs order, In (n, FRec fs, order) xsd_sequences ->
  forall tag vs ks, write (FRec fs) tag (VRec vs) = Some (Node tag ks) ->
  InOrder order (filter nonattr (map tag_of ks)).
Proof.
  intros n fs order Hin tag vs ks H.
  pose proof table_order_conforms as T. rewrite forallb_forall in T. specialize (T _ Hin). simpl in T.
  eapply elements_follow_schema; eauto.
Qed.
