(* Proofs/SrcTrafficLight.v — Model/TrafficLight.v (which the C17 theorems are about) equals the Gallina text generated
   on every run from commonroad/scenario/traffic_light.py by harness/vlib/py2coq.py (Gen/Src_traffic_light.v). *)
From Coq Require Import ZArith List Bool Lia.
Import ListNotations.
From CR Require Import Model.Interval Model.TrafficLight Gen.Src_traffic_light.
Open Scope Z_scope.

Definition res_of_option {A} (o : option A) : res A := match o with Some a => Ok a | None => Err end.

Lemma src_init_steps_eq c : src_init_steps c = init_steps (c_offset c) (map duration (c_elements c)).
Proof. reflexivity. Qed.

(* x[-1] of a non-empty list is its last element *)
Lemma pyindex_last {A} (l : list A) (d : A) : l <> [] -> pyindex l (-1) = Some (last l d).
Proof.
  intro Hne. unfold pyindex.
  assert (Hlen : (1 <= List.length l)%nat) by (destruct l; [congruence | simpl; lia]).
  replace (0 <=? -1) with false by reflexivity. simpl andb.
  replace (-1 <? 0) with true by reflexivity.
  assert (Hb : (- Z.of_nat (List.length l) <=? -1) = true) by (apply Z.leb_le; lia).
  rewrite Hb. simpl andb. cbv iota.
  replace (Z.to_nat (Z.of_nat (List.length l) + -1)) with (List.length l - 1)%nat by lia.
  clear Hb. induction l as [|a l IH]; [congruence|].
  destruct l as [|b l]; [reflexivity|].
  change (last (a :: b :: l) d) with (last (b :: l) d).
  rewrite <- IH; [|discriminate|simpl; lia].
  cbn [List.length]. replace (S (S (List.length l)) - 1)%nat with (S (List.length l)) by lia.
  replace (S (List.length l) - 1)%nat with (List.length l) by lia. reflexivity.
Qed.

Lemma src_state_at_eq c t :
  src_state_at c t = res_of_option (state_at (c_elements c) (c_offset c) t).
Proof.
  unfold src_state_at, state_at, last_step, init_steps.
  set (o := c_offset c). set (els := c_elements c).
  change (map (fun x_ => duration x_) els) with (map duration els).
  set (L := o :: map (fun s => s + o) (cumsum_from 0 (map duration els))).
  rewrite (pyindex_last L o) by (subst L; discriminate).
  destruct (last L o - o =? 0); [reflexivity|].
  destruct (pyindex els _) as [e|]; reflexivity.
Qed.

Lemma src_light_state_at_eq l t :
  src_light_state_at l t = res_of_option (light_state_at (c_elements (l_cycle l)) (c_offset (l_cycle l)) t).
Proof. exact (src_state_at_eq (l_cycle l) t). Qed.
