(* Proofs/SrcGoal.v — the programs parsed on every run from GoalRegion._harmonize_state_types / is_reached /
   _check_value_in_interval and PlanningProblem.goal_reached (Gen/Src_goal.v), run by the interpreter of
   Model/GoalSrc.v, compute [reached1] of Model/Goal.v, for every goal state and every state: the same Boolean, the
   ValueError exactly when the model returns Err, and never another exception. *)
From Coq Require Import QArith ZArith Bool List.
From CR Require Import Base.QMod Model.Interval Proofs.Interval Model.Goal Proofs.Goal Model.GoalSrc Gen.Src_goal.
Import ListNotations.
Open Scope Q_scope.

Section Eq.
  Variable tau : Q.
  Variables pos shape : Type.
  Variable inside : shape -> pos -> bool.
  Variable hypot : Q -> Q -> Q.
  Variable atan2 : Q -> Q -> Q.

  (* every combination of present / absent attributes of the goal state and the state (2^9), the tests left opaque *)
  Ltac by_cases :=
    intros [gt gp go gv] [st sp so sv sy];
    destruct gt as [gt|], gp as [gp|], go as [go|], gv as [gv|],
             st as [st|], sp as [sp|], so as [so|], sv as [sv|], sy as [sy|];
      cbv [run_reached1 reached1 hrun canon_harmonize canon_checks src_harmonize src_checks h_cond h_body ceval forallb fields_of gfields_of
           fold_left hstep fld_of getq setq fadd fremove fld_eqb all_flds implb has harmonize fields_subset sub1 chk
           crun cguard ctest c_fld c_guard c_test andb orb negb
           s_time s_pos s_orient s_vel s_vely g_time g_pos g_orient g_vel];
      try reflexivity;
      repeat match goal with
             | |- context [contains_pt ?a ?b] => destruct (contains_pt a b)
             | |- context [inside ?a ?b] => destruct (inside a b)
             | |- context [acontains tau ?a ?b] => destruct (acontains tau a b)
             end;
      reflexivity.

  Theorem canon_reached1 : forall (g : gstate shape) (s : state pos),
    run_reached1 tau pos shape inside hypot atan2 canon_harmonize canon_checks g s
    = Some (reached1 tau pos shape inside hypot atan2 g s).
  Proof. by_cases. Qed.

  (* the same case analysis on the parsed programs themselves: it does not depend on their being literally the
     canonical ones (checks in another order, set elements listed in another order give the same function) *)
  Theorem src_reached1_is_model : forall (g : gstate shape) (s : state pos),
    run_reached1 tau pos shape inside hypot atan2 src_harmonize src_checks g s
    = Some (reached1 tau pos shape inside hypot atan2 g s).
  Proof. by_cases. Qed.

  (* the loop of is_reached over the goal states, with the parsed turn *)
  Fixpoint run_reached_list (hp : hprog) (cs : list check) (G : list (gstate shape)) (s : state pos)
    : option (res (list bool)) :=
    match G with
    | [] => Some (Ok [])
    | g :: G' =>
        match run_reached1 tau pos shape inside hypot atan2 hp cs g s with
        | None => None
        | Some Err => Some Err
        | Some (Ok b) => match run_reached_list hp cs G' s with
                         | None => None
                         | Some Err => Some Err
                         | Some (Ok bs) => Some (Ok (b :: bs))
                         end
        end
    end.
  Definition run_is_reached (hp : hprog) (cs : list check) (G : list (gstate shape)) (s : state pos) : option (res bool) :=
    match run_reached_list hp cs G s with
    | None => None
    | Some Err => Some Err
    | Some (Ok bs) => Some (Ok (existsb (fun b => b) bs))
    end.

  Lemma reached_list_of_turn hp cs :
    (forall g s, run_reached1 tau pos shape inside hypot atan2 hp cs g s
                 = Some (reached1 tau pos shape inside hypot atan2 g s)) ->
    forall G s, run_reached_list hp cs G s = Some (reached_list tau pos shape inside hypot atan2 G s).
  Proof.
    intro H1. induction G as [|g G IH]; intro s; [reflexivity|].
    cbn [run_reached_list reached_list]. rewrite H1, IH.
    destruct (reached1 tau pos shape inside hypot atan2 g s) as [b|]; [|reflexivity].
    destruct (reached_list tau pos shape inside hypot atan2 G s); reflexivity.
  Qed.

  Theorem is_reached_of_turn hp cs :
    (forall g s, run_reached1 tau pos shape inside hypot atan2 hp cs g s
                 = Some (reached1 tau pos shape inside hypot atan2 g s)) ->
    forall G s, run_is_reached hp cs G s = Some (is_reached tau pos shape inside hypot atan2 G s).
  Proof.
    intros H1 G s. unfold run_is_reached, is_reached. rewrite (reached_list_of_turn hp cs H1).
    destruct (reached_list tau pos shape inside hypot atan2 G s); reflexivity.
  Qed.

  (* ---- the parsed source *)
  Theorem src_is_reached_is_model : forall G s,
    run_is_reached src_harmonize src_checks G s = Some (is_reached tau pos shape inside hypot atan2 G s).
  Proof. exact (is_reached_of_turn src_harmonize src_checks src_reached1_is_model). Qed.
  Lemma src_frames :
    src_prologue = PrologueStd /\ src_loop = LoopAppendAny /\ src_check_value = CivContains /\
    src_goal_reached = ScanReversedFirstHit.
  Proof. repeat apply conj; reflexivity. Qed.
End Eq.

(* ---- the main C08 statement, about the parsed source: on admissible inputs the parsed is_reached raises nothing and
   is true exactly when some goal state is satisfied *)
Theorem src_is_reached_spec : forall tau, 0 < tau ->
  forall (pos shape : Type) (inside : shape -> pos -> bool) (hypot atan2 : Q -> Q -> Q)
         (G : list (gstate shape)) (s : state pos),
  Forall (wf_goal tau shape) G ->
  (forall g, List.In g G -> admissible pos shape hypot atan2 g s) ->
  exists b, run_is_reached tau pos shape inside hypot atan2 src_harmonize src_checks G s = Some (Ok b) /\
            (b = true <-> exists g, List.In g G /\ sat tau pos shape inside hypot atan2 g s).
Proof.
  intros tau Ht pos shape inside hypot atan2 G s Hwf Hadm.
  rewrite src_is_reached_is_model.
  destruct (is_reached_spec tau Ht pos shape inside hypot atan2 G s Hwf Hadm) as [b [E H]].
  exists b. split; [rewrite E; reflexivity | exact H].
Qed.
