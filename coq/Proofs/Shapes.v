(* Proofs/Shapes.v — lemmas about Model/Shapes.v: what translate_rotate does to every stored point,
   orientation and dimension of a shape / state, and that it never raises on valid arguments. *)
From Coq Require Import QArith ZArith Bool List Lia Lqa Qminmax.
From CR Require Import Base.QMod Model.Interval Proofs.Interval Model.Transform Proofs.Transform Model.Shapes Model.Scene.
Import ListNotations.
Open Scope Q_scope.

(* induction principle for the nested inductive [shape] *)
Lemma shape_ind' (P : shape -> Prop) :
  (forall l w ctr o, P (Rect l w ctr o)) -> (forall r ctr, P (Circ r ctr)) -> (forall vs, P (Poly vs)) ->
  (forall ms, Forall P ms -> P (Group ms)) -> forall sh, P sh.
Proof.
  intros HR HC HP HG. fix IH 1. intros [l w ctr o|r ctr|vs|ms].
  - apply HR.
  - apply HC.
  - apply HP.
  - apply HG. induction ms as [|x r IHr]; constructor; [apply IH | exact IHr].
Qed.

Lemma F2_length {A B} (R : A -> B -> Prop) l l' : Forall2 R l l' -> List.length l = List.length l'.
Proof. induction 1; simpl; congruence. Qed.

Lemma bind_ok {A B} (r : res A) (f : A -> res B) y : bind r f = Ok y -> exists x, r = Ok x /\ f x = Ok y.
Proof. destruct r as [x|]; simpl; [|discriminate]. intro H. exists x. auto. Qed.

Lemma mapM_Forall2 {A B} (f : A -> res B) (R : A -> B -> Prop) : forall l l',
  Forall (fun x => forall y, f x = Ok y -> R x y) l -> mapM f l = Ok l' -> Forall2 R l l'.
Proof.
  induction l as [|x r IH]; intros l' HF H; simpl in H.
  - inversion H. constructor.
  - inversion HF as [|? ? Hx Hr]; subst.
    apply bind_ok in H. destruct H as [y [Ey H]]. apply bind_ok in H. destruct H as [ys [Eys H]].
    inversion H; subst. constructor; [apply Hx; exact Ey | apply IH; assumption].
Qed.

Lemma mapM_all {A B} (f : A -> res B) (R : A -> B -> Prop) l l' :
  (forall x y, f x = Ok y -> R x y) -> mapM f l = Ok l' -> Forall2 R l l'.
Proof. intros H. apply mapM_Forall2. apply Forall_forall. intros x _. apply H. Qed.

Lemma mapM_total {A B} (f : A -> res B) : forall l,
  Forall (fun x => exists y, f x = Ok y) l -> exists l', mapM f l = Ok l'.
Proof.
  induction l as [|x r IH]; intro HF; [exists []; reflexivity|].
  inversion HF as [|? ? [y Hy] Hr]; subst. destruct (IH Hr) as [ys Hys].
  exists (y :: ys). simpl. rewrite Hy. simpl. rewrite Hys. reflexivity.
Qed.

Lemma optM_ok {A B} (f : A -> res B) o o' : optM f o = Ok o' ->
  match o, o' with None, None => True | Some x, Some y => f x = Ok y | _, _ => False end.
Proof.
  destruct o as [x|]; simpl.
  - intro H. apply bind_ok in H. destruct H as [y [E H]]. inversion H; subst. exact E.
  - intro H. inversion H; subst. exact I.
Qed.

Section MOVED.
  Variable tau : Q.
  Hypothesis tau_pos : 0 < tau.
  Variable fuel : nat.
  Variable t : pt.
  Variables a c s : Q.

  Notation mv := (move t a c s).

  (* how the motion relates a stored value before and after *)
  Inductive moved : atom -> atom -> Prop :=
  | MPt p : moved (APt p) (APt (mv p))
  | MOri o o' : (exists k : Z, o' == o + a + inject_Z k * tau) -> - tau <= o' -> o' <= tau ->
                moved (AOri o) (AOri o')
  | MItv J J' : (exists k : Z, lo J' == lo J + a + inject_Z k * tau /\ hi J' == hi J + a + inject_Z k * tau) ->
                (* ... and the result is again a valid AngleInterval: ordered, shorter than tau, inside [-tau, tau] *)
                lo J' <= hi J' -> hi J' - lo J' < tau -> - tau <= lo J' -> hi J' <= tau ->
                moved (AItv J) (AItv J')
  | MVec v : moved (AVec v) (AVec (rot c s v))
  | MNum x : moved (ANum x) (ANum x).

  Definition movedl (l l' : list atom) : Prop := Forall2 moved l l'.

  Lemma movedl_app l1 l1' l2 l2' : movedl l1 l1' -> movedl l2 l2' -> movedl (l1 ++ l2) (l1' ++ l2').
  Proof. apply Forall2_app. Qed.

  Lemma movedl_nums l : movedl (map ANum l) (map ANum l).
  Proof. induction l; constructor; [constructor | assumption]. Qed.

  Lemma movedl_pts (vs : list pt) : movedl (map APt vs) (map APt (map mv vs)).
  Proof. induction vs; constructor; [constructor | assumption]. Qed.

  Lemma movedl_flat {A} (g : A -> list atom) l l' :
    Forall2 (fun x y => movedl (g x) (g y)) l l' -> movedl (flat_map g l) (flat_map g l').
  Proof. induction 1; simpl; [constructor | apply movedl_app; assumption]. Qed.

  Lemma movedl_list {A} (g : A -> list atom) l l' :
    Forall2 (fun x y => movedl (g x) (g y)) l l' -> movedl (atoms_list g l) (atoms_list g l').
  Proof.
    intro H. unfold atoms_list. rewrite (F2_length _ _ _ H). constructor; [constructor | apply movedl_flat; exact H].
  Qed.

  Lemma movedl_opt {A} (g : A -> list atom) o o' :
    match o, o' with None, None => True | Some x, Some y => movedl (g x) (g y) | _, _ => False end ->
    movedl (atoms_opt g o) (atoms_opt g o').
  Proof.
    destruct o, o'; simpl; try contradiction; intro H; constructor; try constructor; assumption.
  Qed.

  (* ---- validity of stored orientations: what the constructors / setters of the implementation assert *)
  Fixpoint valid_shape (sh : shape) : bool :=
    match sh with
    | Rect _ _ _ o => valid_orientation tau o
    | Circ _ _ => true
    | Poly _ => true
    | Group ms => forallb valid_shape ms
    end.
  Definition valid_itv (J : itv) : bool :=
    Qle_bool (lo J) (hi J) && Qlt_bool (hi J - lo J) tau && valid_orientation tau (lo J) && valid_orientation tau (hi J).
  Definition valid_state (st : state) : bool :=
    match s_pos st with Some (PRegion sh) => valid_shape sh | _ => true end &&
    match s_ori st with Some (OExact o) => valid_orientation tau o | Some (OItv J) => valid_itv J | None => true end.

  Lemma valid_bounds x : valid_orientation tau x = true -> - tau <= x /\ x <= tau.
  Proof. unfold valid_orientation. rewrite andb_true_iff, !Qle_bool_iff. tauto. Qed.
  Lemma valid_of_bounds x : - tau <= x -> x <= tau -> valid_orientation tau x = true.
  Proof. unfold valid_orientation. rewrite andb_true_iff, !Qle_bool_iff. tauto. Qed.

  Lemma shift_orient_spec o o' : shift_orient tau fuel a o = Ok o' -> moved (AOri o) (AOri o').
  Proof.
    unfold shift_orient. destruct (make_valid_orientation tau fuel (o + a)) as [y|] eqn:E; [|discriminate].
    intro H. inversion H; subst. destruct (mvo_spec tau tau_pos _ _ _ E) as [[k A] [B C]].
    constructor; [exists k; exact A | exact B | exact C].
  Qed.

  Lemma group_go ms :
    (fix go (l : list shape) : res (list shape) :=
       match l with
       | [] => Ok []
       | x :: r => do y <- tr_shape tau fuel t a c s x; do ys <- go r; Ok (y :: ys)
       end) ms = mapM (tr_shape tau fuel t a c s) ms.
  Proof. induction ms as [|x r IH]; [reflexivity|]. simpl. rewrite IH. reflexivity. Qed.

  Lemma tr_group ms : tr_shape tau fuel t a c s (Group ms) =
    if valid_angle tau a then do ms' <- mapM (tr_shape tau fuel t a c s) ms; Ok (Group ms') else Err.
  Proof. simpl. rewrite group_go. reflexivity. Qed.

  (* every stored point is mapped by the matrix, every orientation shifted by a modulo tau,
     lengths / widths / radii / vertex counts / group structure are unchanged *)
  Lemma tr_shape_moved : forall sh sh', tr_shape tau fuel t a c s sh = Ok sh' ->
    movedl (atoms_shape sh) (atoms_shape sh').
  Proof.
    induction sh as [l w ctr o|r ctr|vs|ms IH] using shape_ind'; intros sh' H.
    - simpl in H. destruct (valid_angle tau a); [|discriminate].
      apply bind_ok in H. destruct H as [o' [Eo H]].
      destruct (valid_orientation tau o'); [|discriminate]. inversion H; subst. simpl.
      constructor; [constructor|]. constructor; [constructor|]. constructor; [constructor|].
      constructor; [|constructor]. apply shift_orient_spec. exact Eo.
    - simpl in H. inversion H; subst. simpl. repeat constructor.
    - simpl in H. destruct (valid_angle tau a); [|discriminate]. inversion H; subst. simpl. apply movedl_pts.
    - rewrite tr_group in H. destruct (valid_angle tau a); [|discriminate].
      apply bind_ok in H. destruct H as [ms' [E H]]. inversion H; subst.
      pose proof (mapM_Forall2 _ (fun x y => movedl (atoms_shape x) (atoms_shape y)) ms ms' IH E) as F.
      simpl. rewrite (F2_length _ _ _ F). constructor; [constructor | apply movedl_flat; exact F].
  Qed.

  Lemma tr_shape_skeleton : forall sh sh', tr_shape tau fuel t a c s sh = Ok sh' -> skeleton sh' = skeleton sh.
  Proof.
    induction sh as [l w ctr o|r ctr|vs|ms IH] using shape_ind'; intros sh' H.
    - simpl in H. destruct (valid_angle tau a); [|discriminate].
      apply bind_ok in H. destruct H as [o' [Eo H]].
      destruct (valid_orientation tau o'); [|discriminate]. inversion H; subst. reflexivity.
    - simpl in H. inversion H; subst. reflexivity.
    - simpl in H. destruct (valid_angle tau a); [|discriminate]. inversion H; subst. simpl.
      rewrite map_map. reflexivity.
    - rewrite tr_group in H. destruct (valid_angle tau a); [|discriminate].
      apply bind_ok in H. destruct H as [ms' [E H]]. inversion H; subst.
      pose proof (mapM_Forall2 _ (fun x y => skeleton y = skeleton x) ms ms' IH E) as F.
      simpl. f_equal. clear -F. induction F; simpl; [reflexivity|]. rewrite H, IHF. reflexivity.
  Qed.

  Lemma shift_itv_spec J J' : shift_itv tau fuel a J = Ok J' -> moved (AItv J) (AItv J').
  Proof.
    unfold shift_itv, aadd, amk.
    destruct (normalise tau fuel (lo J + a) (hi J + a)) as [[a1 b1]|] eqn:E; [|discriminate].
    destruct (normalise_spec tau _ _ _ _ _ E) as [k [A B]].
    destruct (Qlt_bool (b1 - a1) tau && valid_orientation tau a1 && valid_orientation tau b1) eqn:V; [|discriminate].
    intro H. apply mk_wf in H. destruct H as [W [El Eh]]. unfold WF in W.
    apply andb_true_iff in V. destruct V as [V Vb]. apply andb_true_iff in V. destruct V as [Vl Va].
    apply Qlt_bool_iff in Vl. apply valid_bounds in Va, Vb. rewrite El, Eh in W.
    constructor; rewrite ?El, ?Eh; try tauto. exists k. split; assumption.
  Qed.

  Lemma tr_state_moved st st' : tr_state tau fuel t a c s st = Ok st' ->
    movedl (atoms_state st) (atoms_state st').
  Proof.
    unfold tr_state. destruct (valid_angle tau a); [|discriminate]. intro H.
    apply bind_ok in H. destruct H as [p' [Ep H]]. apply bind_ok in H. destruct H as [o' [Eo H]].
    inversion H; subst; clear H. unfold atoms_state; simpl.
    constructor; [constructor|].
    apply movedl_app; [|apply movedl_app; [|apply movedl_app; [|apply movedl_nums]]]; [| |
      apply movedl_opt; destruct (s_vec st); simpl; [constructor; constructor | exact I]].
    - apply movedl_opt. apply optM_ok in Ep. destruct (s_pos st) as [p|], p' as [q|]; try contradiction; auto.
      destruct p as [pp|sh]; simpl in Ep.
      + inversion Ep; subst. simpl. repeat constructor.
      + apply bind_ok in Ep. destruct Ep as [sh' [E H]]. inversion H; subst. simpl.
        constructor; [constructor | apply tr_shape_moved; exact E].
    - apply movedl_opt. apply optM_ok in Eo. destruct (s_ori st) as [o|], o' as [q|]; try contradiction; auto.
      destruct o as [x|J]; simpl in Eo; apply bind_ok in Eo; destruct Eo as [y [E H]]; inversion H; subst; simpl;
        (constructor; [|constructor]).
      + apply shift_orient_spec. exact E.
      + apply shift_itv_spec. exact E.
  Qed.

  (* the region of an uncertain position keeps its dimensions; time step and the remaining attributes are untouched *)
  Lemma tr_state_rest st st' : tr_state tau fuel t a c s st = Ok st' ->
    s_time st' = s_time st /\ s_rest st' = s_rest st.
  Proof.
    unfold tr_state. destruct (valid_angle tau a); [|discriminate]. intro H.
    apply bind_ok in H. destruct H as [p' [Ep H]]. apply bind_ok in H. destruct H as [o' [Eo H]].
    inversion H; subst. simpl. auto.
  Qed.

  (* ------------------------------------------------------------------ the result is a valid object again
     (orientations inside [-tau, tau], orientation intervals ordered / shorter than tau / inside [-tau, tau]),
     so a transformed object can be transformed again *)
  Lemma Forall2_forallb {A B} (v : B -> bool) (l : list A) l' : Forall2 (fun _ y => v y = true) l l' -> forallb v l' = true.
  Proof. induction 1; simpl; [reflexivity|]. rewrite H, IHForall2. reflexivity. Qed.

  Lemma tr_shape_valid : forall sh sh', tr_shape tau fuel t a c s sh = Ok sh' -> valid_shape sh' = true.
  Proof.
    induction sh as [l w ctr o|r ctr|vs|ms IH] using shape_ind'; intros sh' H.
    - simpl in H. destruct (valid_angle tau a); [|discriminate].
      apply bind_ok in H. destruct H as [o' [Eo H]].
      destruct (valid_orientation tau o') eqn:Vo; [|discriminate]. inversion H; subst. exact Vo.
    - simpl in H. inversion H; subst. reflexivity.
    - simpl in H. destruct (valid_angle tau a); [|discriminate]. inversion H; subst. reflexivity.
    - rewrite tr_group in H. destruct (valid_angle tau a); [|discriminate].
      apply bind_ok in H. destruct H as [ms' [E H]]. inversion H; subst.
      pose proof (mapM_Forall2 _ (fun _ y => valid_shape y = true) ms ms' IH E) as F.
      simpl. apply (Forall2_forallb _ _ _ F).
  Qed.

  Lemma shift_itv_valid J J' : shift_itv tau fuel a J = Ok J' -> valid_itv J' = true.
  Proof.
    intro H. apply shift_itv_spec in H. inversion H; subst.
    unfold valid_itv. rewrite !andb_true_iff, Qle_bool_iff, Qlt_bool_iff. repeat split; try assumption.
    - apply valid_of_bounds; lra.
    - apply valid_of_bounds; lra.
  Qed.

  Lemma tr_state_valid st st' : tr_state tau fuel t a c s st = Ok st' -> valid_state st' = true.
  Proof.
    unfold tr_state. destruct (valid_angle tau a); [|discriminate]. intro H.
    apply bind_ok in H. destruct H as [p' [Ep H]]. apply bind_ok in H. destruct H as [o' [Eo H]].
    inversion H; subst; clear H. unfold valid_state; simpl. apply andb_true_iff. split.
    - apply optM_ok in Ep. destruct (s_pos st) as [p|], p' as [q|]; try contradiction; auto.
      destruct p as [pp|sh]; simpl in Ep.
      + inversion Ep; subst. reflexivity.
      + apply bind_ok in Ep. destruct Ep as [sh' [E H]]. inversion H; subst. apply (tr_shape_valid _ _ E).
    - apply optM_ok in Eo. destruct (s_ori st) as [o|], o' as [q|]; try contradiction; auto.
      destruct o as [x|J]; simpl in Eo; apply bind_ok in Eo; destruct Eo as [y [E H]]; inversion H; subst.
      + apply shift_orient_spec in E. inversion E; subst. apply valid_of_bounds; assumption.
      + apply (shift_itv_valid _ _ E).
  Qed.

  (* ------------------------------------------------------------------ totality on valid arguments *)
  Hypothesis fuel_ok : (3 <= fuel)%nat.
  Hypothesis angle_ok : valid_angle tau a = true.

  Lemma shift_orient_total o : valid_orientation tau o = true -> exists o', shift_orient tau fuel a o = Ok o'.
  Proof.
    intro Ho. apply valid_bounds in Ho. pose proof (valid_bounds a angle_ok) as Ha.
    destruct (mvo_fuel2 tau tau_pos fuel (o + a)) as [y E]; [lia|lra|lra|].
    exists y. unfold shift_orient. rewrite E. reflexivity.
  Qed.

  Lemma tr_shape_total : forall sh, valid_shape sh = true -> exists sh', tr_shape tau fuel t a c s sh = Ok sh'.
  Proof.
    induction sh as [l w ctr o|r ctr|vs|ms IH] using shape_ind'; intro V.
    - simpl in V. destruct (shift_orient_total o V) as [o' E]. simpl. rewrite angle_ok, E. simpl.
      pose proof (shift_orient_spec _ _ E) as M. inversion M; subst.
      assert (Vo : valid_orientation tau o' = true).
      { unfold valid_orientation. rewrite andb_true_iff, !Qle_bool_iff. split; assumption. }
      rewrite Vo. eexists; reflexivity.
    - simpl. eexists; reflexivity.
    - simpl. rewrite angle_ok. eexists; reflexivity.
    - rewrite tr_group, angle_ok. simpl in V.
      destruct (mapM_total (tr_shape tau fuel t a c s) ms) as [ms' E].
      { rewrite forallb_forall in V. rewrite Forall_forall in *. intros x Hx. apply IH; auto. }
      rewrite E. simpl. eexists; reflexivity.
  Qed.

  (* the first loop of make_valid_orientation_interval leaves a well-ordered pair alone or ends with b1 > 0 *)
  Lemma norm_down_lower f : forall x y x1 y1, x <= y -> norm_down tau f x y = Some (x1, y1) ->
    (x1 == x /\ y1 == y) \/ 0 < y1.
  Proof.
    induction f as [|f IH]; intros x y x1 y1 Hxy H; simpl in H; [discriminate|].
    destruct (Qlt_bool tau x || Qlt_bool tau y) eqn:E.
    - assert (Hy : tau < y).
      { apply orb_true_iff in E. destruct E as [E|E]; apply Qlt_bool_iff in E; lra. }
      destruct (IH (x - tau) (y - tau) x1 y1 ltac:(lra) H) as [[A B]|C]; [right; lra | right; exact C].
    - inversion H; subst. left. split; reflexivity.
  Qed.

  Lemma shift_itv_total J : valid_itv J = true -> exists J', shift_itv tau fuel a J = Ok J'.
  Proof.
    unfold valid_itv. rewrite !andb_true_iff, Qle_bool_iff, Qlt_bool_iff.
    intros [[[Hle Hlen] Vlo] Vhi]. apply valid_bounds in Vlo, Vhi. pose proof (valid_bounds a angle_ok) as Ha.
    destruct fuel as [|n] eqn:Ef; [lia|].
    pose proof (nat_scale tau tau_pos 2 n ltac:(lia)) as Hs. change (inject_Z (Z.of_nat 2)) with 2 in Hs.
    unfold shift_itv, aadd.
    destruct (amk tau (S n) (lo J + a) (hi J + a)) as [r|] eqn:E.
    - assert (H1 : lo J + a <= hi J + a) by lra. assert (H2 : hi J + a - (lo J + a) < tau) by lra.
      destruct (amk_total tau tau_pos (S n) _ _ r H1 H2 E) as [K [EK _]].
      exists K. exact EK.
    - exfalso. unfold amk, normalise in E.
      destruct (norm_down tau (S n) (lo J + a) (hi J + a)) as [[x1 y1]|] eqn:E1.
      + destruct (norm_up tau (S n) x1 y1) as [[x2 y2]|] eqn:E2; [discriminate|].
        apply (norm_up_fuel tau n x1 y1); [|exact E2].
        destruct (norm_down_shift tau _ _ _ _ _ E1) as [[k [A B]] _].
        assert (H1 : lo J + a <= hi J + a) by lra.
        destruct (norm_down_lower _ _ _ _ _ H1 E1) as [[C D]|C]; lra.
      + apply (norm_down_fuel tau n (lo J + a) (hi J + a)); [|exact E1].
        apply Q.max_lub; lra.
  Qed.

  Lemma tr_state_total st : valid_state st = true -> exists st', tr_state tau fuel t a c s st = Ok st'.
  Proof.
    unfold valid_state, tr_state. rewrite andb_true_iff, angle_ok. intros [Vp Vo].
    assert (Hp : exists p', optM (tr_position tau fuel t a c s) (s_pos st) = Ok p').
    { destruct (s_pos st) as [[q|sh]|]; simpl; try (eexists; reflexivity).
      destruct (tr_shape_total sh Vp) as [sh' E]. rewrite E. simpl. eexists; reflexivity. }
    assert (Ho : exists o', optM (tr_orientation tau fuel a) (s_ori st) = Ok o').
    { destruct (s_ori st) as [[o|J]|]; simpl; try (eexists; reflexivity).
      - destruct (shift_orient_total o Vo) as [o' E]. rewrite E. simpl. eexists; reflexivity.
      - destruct (shift_itv_total J Vo) as [J' E]. rewrite E. simpl. eexists; reflexivity. }
    destruct Hp as [p' Ep], Ho as [o' Eo]. rewrite Ep, Eo. simpl. eexists; reflexivity.
  Qed.
End MOVED.

(* ---------------------------------------------------------------------- two motions in a row *)
(* a transformed state can be transformed again (e.g. to undo the motion): no level raises *)
Lemma tr_shape_chain tau (tau_pos : 0 < tau) fuel t1 a1 c1 s1 t2 a2 c2 s2 sh sh' :
  (3 <= fuel)%nat -> valid_angle tau a2 = true -> tr_shape tau fuel t1 a1 c1 s1 sh = Ok sh' ->
  exists sh'', tr_shape tau fuel t2 a2 c2 s2 sh' = Ok sh''.
Proof.
  intros F V H. apply (tr_shape_total tau tau_pos fuel t2 a2 c2 s2 F V).
  apply (tr_shape_valid tau fuel t1 a1 c1 s1 sh sh' H).
Qed.
Lemma tr_state_chain tau (tau_pos : 0 < tau) fuel t1 a1 c1 s1 t2 a2 c2 s2 st st' :
  (3 <= fuel)%nat -> valid_angle tau a2 = true -> tr_state tau fuel t1 a1 c1 s1 st = Ok st' ->
  exists st'', tr_state tau fuel t2 a2 c2 s2 st' = Ok st''.
Proof.
  intros F V H. apply (tr_state_total tau tau_pos fuel t2 a2 c2 s2 F V).
  apply (tr_state_valid tau tau_pos fuel t1 a1 c1 s1 st st' H).
Qed.

(* what an orientation interval becomes: both ends shifted by a + k*tau with one k, and the result is again an
   AngleInterval of the same length inside [-tau, tau] *)
Lemma shift_itv_full tau (tau_pos : 0 < tau) fuel a J J' : shift_itv tau fuel a J = Ok J' ->
  (exists k : Z, lo J' == lo J + a + inject_Z k * tau /\ hi J' == hi J + a + inject_Z k * tau) /\
  hi J' - lo J' == hi J - lo J /\ - tau <= lo J' /\ hi J' <= tau.
Proof.
  intro H. apply (shift_itv_spec tau fuel (0, 0) a 0 0) in H. inversion H as [| |J0 J1 [k [A B]] W L Lo Hi| |]; subst.
  split; [exists k; split; assumption|]. split; [lra|]. split; assumption.
Qed.

Section COMPOSE.
  Variable tau : Q.
  Variables t1 t2 : pt.
  Variables a1 c1 s1 a2 c2 s2 : Q.

  (* the angle-addition formulas: the coefficient pair of the rotation by a1 + a2 *)
  Definition c12 : Q := c1 * c2 - s1 * s2.
  Definition s12 : Q := s1 * c2 + c1 * s2.

  Lemma compose_closed_form p :
    pt_eq (move t2 a2 c2 s2 (move t1 a1 c1 s1 p)) (padd (T c12 s12 t1 p) (rot c2 s2 t2)).
  Proof.
    destruct p as [x y], t1 as [ux uy], t2 as [vx vy].
    unfold pt_eq, move, TM, mapply, translation_rotation_matrix, coef_tr, mmul, rotation_matrix, translation_matrix, T,
      rot, padd, c12, s12, px, py; simpl. split; ring.
  Qed.

  (* with c1^2 + s1^2 = 1 the composition is the single motion (t1 + R(-a1) t2, a1 + a2) *)
  Lemma compose_is_motion p : c1 * c1 + s1 * s1 == 1 ->
    pt_eq (move t2 a2 c2 s2 (move t1 a1 c1 s1 p)) (T c12 s12 (padd t1 (rot c1 (- s1) t2)) p).
  Proof.
    intro H. destruct p as [x y], t1 as [ux uy], t2 as [vx vy].
    unfold pt_eq, move, TM, mapply, translation_rotation_matrix, coef_tr, mmul, rotation_matrix, translation_matrix, T,
      rot, padd, c12, s12, px, py; simpl. split.
    - transitivity (c12 * (x + ux) - s12 * (y + uy) + (c1 * c1 + s1 * s1) * (c2 * vx - s2 * vy));
        [rewrite H; unfold c12, s12; ring | unfold c12, s12; ring].
    - transitivity (s12 * (x + ux) + c12 * (y + uy) + (c1 * c1 + s1 * s1) * (s2 * vx + c2 * vy));
        [rewrite H; unfold c12, s12; ring | unfold c12, s12; ring].
  Qed.

  Lemma compose_coefficients : c12 * c12 + s12 * s12 == (c1 * c1 + s1 * s1) * (c2 * c2 + s2 * s2).
  Proof. unfold c12, s12. ring. Qed.

  (* a stored value after two motions, related to the value before the first *)
  Inductive moved2 : atom -> atom -> Prop :=
  | M2Pt p q : pt_eq q (padd (T c12 s12 t1 p) (rot c2 s2 t2)) -> moved2 (APt p) (APt q)
  | M2Ori o o' : (exists k : Z, o' == o + (a1 + a2) + inject_Z k * tau) -> - tau <= o' -> o' <= tau ->
                 moved2 (AOri o) (AOri o')
  | M2Itv J J' : (exists k : Z, lo J' == lo J + (a1 + a2) + inject_Z k * tau /\
                                hi J' == hi J + (a1 + a2) + inject_Z k * tau) ->
                 lo J' <= hi J' -> hi J' - lo J' < tau -> - tau <= lo J' -> hi J' <= tau ->
                 moved2 (AItv J) (AItv J')
  | M2Vec v w : pt_eq w (rot c12 s12 v) -> moved2 (AVec v) (AVec w)
  | M2Num x : moved2 (ANum x) (ANum x).

  Lemma moved_compose x y z : moved tau t1 a1 c1 s1 x y -> moved tau t2 a2 c2 s2 y z -> moved2 x z.
  Proof.
    intros H1 H2. destruct H1 as [p|o o' [k E] Lo Hi|J J' [k [El Eh]] W L Lo Hi|v|n]; inversion H2; subst.
    - constructor. apply compose_closed_form.
    - match goal with K : exists _, _ |- _ => destruct K as [k2 E2] end.
      constructor; try assumption. exists (k + k2)%Z. rewrite inject_Z_plus. rewrite E2, E. ring.
    - match goal with K : exists _, _ |- _ => destruct K as [k2 [El2 Eh2]] end.
      constructor; try assumption. exists (k + k2)%Z. rewrite inject_Z_plus. split; [rewrite El2, El | rewrite Eh2, Eh]; ring.
    - constructor. destruct v as [x y]. unfold pt_eq, rot, c12, s12, px, py; simpl. split; ring.
    - constructor.
  Qed.

  Lemma movedl_compose : forall l l' l'', movedl tau t1 a1 c1 s1 l l' -> movedl tau t2 a2 c2 s2 l' l'' ->
    Forall2 moved2 l l''.
  Proof.
    induction l as [|x r IH]; intros l' l'' H1 H2; inversion H1; subst; inversion H2; subst; constructor.
    - eapply moved_compose; eassumption.
    - eapply IH; eassumption.
  Qed.
End COMPOSE.
