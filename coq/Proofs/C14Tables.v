(* Proofs/C14Tables.v — the side conditions of the generic theorems, closed by computation on the tables
   generated from the source (Gen/Tables_C14.v, Gen/Xsd_solution.v). *)
From Coq Require Import String List ZArith Bool.
From CR Require Import Model.SolTypes Model.SolutionFmt Model.SolXsd Proofs.SolutionFmt Proofs.SolXsd
     Gen.Tables_C14 Gen.Xsd_solution.
Import ListNotations.
Open Scope string_scope.

Lemma tables_C14_aligned : tables_aligned tables_C14 = true.
Proof. vm_compute. reflexivity. Qed.

Lemma tables_C14_conform : conforms tables_C14 xsd_root_name xsd_root_type = true.
Proof. vm_compute. reflexivity. Qed.

(* the reader's class table covers every state type the writer can emit, and the class it builds is
   classified back to the same type for every vehicle model the type is valid for *)
Lemma reader_covers : forall ty, In ty (type_names tables_C14) ->
  exists cls attrs, lookup ty (t_reader tables_C14) = Some (cls, attrs) /\
    forall vm, valid_vm tables_C14 ty vm = true -> get_state_type tables_C14 attrs vm = Some ty.
Proof.
  intros ty Hin.
  destruct (tab_parts tables_C14 tables_C14_aligned) as (_ & Tal & _ & _ & Tr).
  destruct (type_aligned_parts tables_C14 ty (Tal ty Hin)) as (fs & xs & stag & ttag & cls & attrs & _ & _ & _ & _ & L5 & _).
  exists cls, attrs. split; [exact L5|]. intros vm Hv.
  unfold reader_reclassifies in Tr. rewrite forallb_forall in Tr. specialize (Tr ty Hin). rewrite L5 in Tr.
  unfold valid_vm in Hv. destruct (lookup ty (t_valid_vm tables_C14)) as [vms|]; [|discriminate].
  rewrite forallb_forall in Tr. apply mem_In in Hv. specialize (Tr vm Hv).
  destruct (get_state_type tables_C14 attrs vm) as [ty'|]; [|discriminate].
  apply String.eqb_eq in Tr. now subst.
Qed.

(* every vehicle model (and both input kinds) names a state type of the tables *)
Lemma every_model_has_a_type :
  forallb (fun vm => mem (fst vm) (type_names tables_C14)) (t_vmodel tables_C14)
  && mem "Input" (type_names tables_C14) && mem "PMInput" (type_names tables_C14) = true.
Proof. vm_compute. reflexivity. Qed.

(* non-vacuity: a concrete two-problem solution (text-valued leaves, identity oracles) satisfies every
   hypothesis of the round-trip and the conformance theorem *)
Definition ex_state (t : Z) : state string :=
  [("position", FA _ [NF _ "1.5"; NF _ "-2e-300"]); ("steering_angle", FS _ (NF _ "0.1"));
   ("velocity", FS _ (NZ _ 3)); ("orientation", FS _ (NF _ "-0.0")); ("time_step", FS _ (NZ _ t))].
Definition ex_input (t : Z) : state string :=
  [("steering_angle_speed", FS _ (NF _ "0.25")); ("acceleration", FS _ (NF _ "1e+300"));
   ("time_step", FS _ (NZ _ t))].
Definition ex_solution : solution string (string * string) string :=
  {| s_sid := ("ZAM_Test-1_1_T-1", "2020a");
     s_pps := [ {| p_id := 5; p_vm := "KS"; p_vt := 2; p_cost := "SA1"; p_ty := "Input";
                   p_states := [ex_input 0; ex_input 1] |};
                {| p_id := 7; p_vm := "KS"; p_vt := 2; p_cost := "JB1"; p_ty := "KS";
                   p_states := [ex_state 0; ex_state 1] |} ];
     s_date := Some "2020-02-29T23:59:59"; s_ctime := Some (NF _ "0.5"); s_pname := Some "cpu x" |}.
Lemma nonvacuous :
  solution_ok string (fun _ => true) (string * string) fst snd string tables_C14 ex_solution = true
  /\ solution_lex_ok string (fun s => s) (string * string) string (fun s => s) tables_C14 ex_solution = true
  /\ seq_ordered (root_els xsd_root_type) (traj_tags string (string * string) string tables_C14 ex_solution) = true
  /\ (exists x, write_solution string (fun s => s) (string * string) fst snd string (fun s => s) None tables_C14
                  ex_solution = Some x /\ validate_doc xsd_root_name xsd_root_type x = true).
Proof.
  split; [vm_compute; reflexivity|]. split; [vm_compute; reflexivity|]. split; [vm_compute; reflexivity|].
  eexists. split; [vm_compute; reflexivity|]. vm_compute. reflexivity.
Qed.
(* ... and the KST type, which the schema does not define, still round-trips *)
Lemma kst_covered : In "KST" (type_names tables_C14) /\ valid_vm tables_C14 "KST" "KST" = true.
Proof. split; [vm_compute; tauto | vm_compute; reflexivity]. Qed.
