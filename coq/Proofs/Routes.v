(* Proofs/Routes.v — lemmas about Model/Routes.v (C20, route enumeration). *)
From Coq Require Import QArith ZArith Bool List Lia Lqa.
From CR Require Import Base.QMod Model.Routes.
Import ListNotations.
Open Scope Q_scope.

Section RoutesProofs.
  Variable succ : Z -> list Z.
  Variable len : Z -> Q.
  Variable start : Z.
  Variable maxlen : Q.

  Notation step_succs := (Routes.step_succs len start maxlen).
  Notation round := (Routes.round succ len start maxlen).
  Notation expand := (Routes.expand succ len start maxlen).
  Notation routes := (Routes.routes succ len start maxlen).

  (* ---- specification vocabulary ---- *)
  Fixpoint chain (p : list Z) : Prop :=
    match p with
    | a :: ((b :: _) as r) => List.In b (succ a) /\ chain r
    | _ => True
    end.
  Fixpoint sumlen (p : list Z) : Q := match p with [] => 0 | a :: r => len a + sumlen r end.
  (* a path was extended beyond a (non-empty, proper) prefix q only if the accumulated length of q is < maxlen *)
  Definition prefix_ok (p : list Z) : Prop :=
    forall q r, q <> [] -> r <> [] -> p = q ++ r -> sumlen q < maxlen.
  Definition good (p : list Z) : Prop :=
    p <> [] /\ chain p /\ NoDup p /\ ~ List.In start p /\ List.In (hd 0%Z p) (succ start) /\ prefix_ok p.
  Definition goodN (e : list Z * Q) : Prop := good (fst e) /\ snd e == sumlen (fst e).

  (* ---- small list facts ---- *)
  Lemma mem_id_false x l : mem_id x l = false <-> ~ List.In x l.
  Proof.
    unfold mem_id. split.
    - intros H Hin. assert (existsb (Z.eqb x) l = true).
      { apply existsb_exists. exists x. split; [exact Hin | apply Z.eqb_refl]. }
      congruence.
    - intro H. destruct (existsb (Z.eqb x) l) eqn:E; [|reflexivity].
      apply existsb_exists in E. destruct E as [y [Hin Ey]]. apply Z.eqb_eq in Ey. subst. contradiction.
  Qed.

  Lemma chain_snoc p s : p <> [] -> chain p -> List.In s (succ (last p 0%Z)) -> chain (p ++ [s]).
  Proof.
    induction p as [|a p IH]; intros Hne Hc Hs; [congruence|].
    destruct p as [|b r].
    - simpl in *. auto.
    - change (chain (a :: (b :: r) ++ [s])). change ((b :: r) ++ [s]) with (b :: (r ++ [s])).
      destruct Hc as [Hab Hc]. split; [exact Hab|].
      change (b :: r ++ [s]) with ((b :: r) ++ [s]). apply IH; [discriminate | exact Hc | exact Hs].
  Qed.

  Lemma NoDup_snoc (p : list Z) s : NoDup p -> ~ List.In s p -> NoDup (p ++ [s]).
  Proof.
    induction 1 as [|a p Ha Hp IH]; intro Hs; simpl.
    - constructor; [intros [] | constructor].
    - constructor.
      + intro Hin. apply in_app_or in Hin. destruct Hin as [Hin | [E | []]]; [contradiction|].
        subst. apply Hs. left. reflexivity.
      + apply IH. intro Hin. apply Hs. right. exact Hin.
  Qed.

  Lemma hd_snoc (p : list Z) s : p <> [] -> hd 0%Z (p ++ [s]) = hd 0%Z p.
  Proof. destruct p; [congruence | reflexivity]. Qed.

  Lemma sumlen_app p q : sumlen (p ++ q) == sumlen p + sumlen q.
  Proof. induction p; simpl; [ring | rewrite IHp; ring]. Qed.

  Lemma last_In (p : list Z) d : p <> [] -> List.In (last p d) p.
  Proof.
    induction p as [|a p IH]; intro H; [congruence|]. destruct p as [|b r]; [left; reflexivity|].
    right. apply IH. discriminate.
  Qed.

  Lemma prefix_ok_snoc p s : p <> [] -> prefix_ok p -> sumlen p < maxlen -> prefix_ok (p ++ [s]).
  Proof.
    intros Hne Hp Hl q r Hq Hr E.
    destruct (exists_last Hr) as [r' [x Er]]. subst r.
    rewrite app_assoc in E. apply app_inj_tail in E. destruct E as [E _].
    destruct r' as [|y r'].
    - rewrite app_nil_r in E. subst q. exact Hl.
    - apply (Hp q (y :: r')); [exact Hq | discriminate | exact E].
  Qed.

  Lemma prefix_ok_single s : prefix_ok [s].
  Proof.
    intros q r Hq Hr E. destruct q as [|a q]; [congruence|]. destruct q; simpl in E.
    - destruct r; [congruence | discriminate].
    - discriminate.
  Qed.

  (* extending a good path by an admissible successor *)
  Lemma good_extend p le s :
    goodN (p, le) -> List.In s (succ (last p 0%Z)) -> mem_id s p = false -> (s =? start)%Z = false ->
    Qle_bool maxlen le = false -> goodN (p ++ [s], le + len s).
  Proof.
    intros [(Hne & Hc & Hnd & Hst & Hhd & Hpre) Hle] Hs Hmem Hneq Hlt. simpl in *.
    apply mem_id_false in Hmem. apply Z.eqb_neq in Hneq. apply Qle_bool_false in Hlt.
    split; [|simpl; rewrite sumlen_app; simpl; rewrite Hle; ring].
    simpl. repeat split.
    - destruct p; discriminate.
    - apply chain_snoc; assumption.
    - apply NoDup_snoc; assumption.
    - intro Hin. apply in_app_or in Hin. destruct Hin as [Hin | [E | []]]; [contradiction | congruence].
    - rewrite hd_snoc by exact Hne. exact Hhd.
    - apply prefix_ok_snoc; [exact Hne | exact Hpre | rewrite <- Hle; exact Hlt].
  Qed.

  (* ---- generic invariant lifting through the two loops ---- *)
  Section Lift.
    Variables (PN PN' : list Z * Q -> Prop) (PF : list Z -> Prop).
    Hypothesis PN_PF : forall e, PN e -> PF (fst e).
    Hypothesis ext : forall p le s, PN (p, le) -> List.In s (succ (last p 0%Z)) -> mem_id s p = false ->
      (s =? start)%Z = false -> Qle_bool maxlen le = false -> PN' (p ++ [s], le + len s) /\ PF (p ++ [s]).

    Lemma step_succs_Forall p le ss : PN (p, le) -> (forall s, List.In s ss -> List.In s (succ (last p 0%Z))) ->
      forall next final, Forall PN' next -> Forall PF final ->
      Forall PN' (fst (step_succs p le ss next final)) /\ Forall PF (snd (step_succs p le ss next final)).
    Proof.
      intros Hp. induction ss as [|s r IH]; intros Hss next final Hn Hf; [simpl; auto|].
      assert (Hr : forall s', List.In s' r -> List.In s' (succ (last p 0%Z))) by (intros; apply Hss; right; auto).
      simpl.
      destruct (mem_id s p) eqn:E1; [apply IH; auto; apply Forall_app; split; auto; constructor; auto; apply (PN_PF _ Hp)|].
      destruct (s =? start)%Z eqn:E2; [apply IH; auto; apply Forall_app; split; auto; constructor; auto; apply (PN_PF _ Hp)|].
      destruct (Qle_bool maxlen le) eqn:E3; [apply IH; auto; apply Forall_app; split; auto; constructor; auto; apply (PN_PF _ Hp)|].
      simpl. destruct (ext p le s Hp (Hss s (or_introl eq_refl)) E1 E2 E3) as [HN HF].
      destruct (Qlt_bool (le + len s) maxlen).
      - apply IH; auto. apply Forall_app; split; auto.
      - apply IH; auto. apply Forall_app; split; auto.
    Qed.

    Lemma round_Forall paths : Forall PN paths ->
      forall next final, Forall PN' next -> Forall PF final ->
      Forall PN' (fst (round paths next final)) /\ Forall PF (snd (round paths next final)).
    Proof.
      induction 1 as [|[p le] r Hp Hr IH]; intros next final Hn Hf; [simpl; auto|].
      cbn [Routes.round]. destruct (succ (last p 0%Z)) as [|s ss] eqn:E.
      - apply IH; auto. apply Forall_app; split; auto. constructor; auto. apply (PN_PF _ Hp).
      - destruct (step_succs p le (s :: ss) next final) as [n' f'] eqn:Es.
        assert (Hss : forall s', List.In s' (s :: ss) -> List.In s' (succ (last p 0%Z))) by (intros; rewrite E; assumption).
        pose proof (step_succs_Forall p le (s :: ss) Hp Hss next final Hn Hf) as H.
        rewrite Es in H. simpl in H. destruct H. apply IH; auto.
    Qed.
  End Lift.

  (* ---- soundness: every path handed out is good ---- *)
  Lemma goodN_good e : goodN e -> good (fst e).
  Proof. intros [H _]. exact H. Qed.

  Lemma good_ext p le s : goodN (p, le) -> List.In s (succ (last p 0%Z)) -> mem_id s p = false ->
    (s =? start)%Z = false -> Qle_bool maxlen le = false -> goodN (p ++ [s], le + len s) /\ good (p ++ [s]).
  Proof. intros. assert (G := good_extend p le s H H0 H1 H2 H3). split; [exact G | apply (goodN_good _ G)]. Qed.

  Lemma expand_sound fuel : forall paths final R,
    Forall goodN paths -> Forall good final -> expand fuel paths final = Some R -> Forall good R.
  Proof.
    induction fuel as [|f IH]; intros paths final R Hp Hf E.
    - destruct paths; simpl in E; [inversion E; subst; exact Hf | discriminate].
    - destruct paths as [|e r]; cbn [Routes.expand] in E; [inversion E; subst; exact Hf|].
      destruct (round (e :: r) [] final) as [n f'] eqn:Er.
      pose proof (round_Forall goodN goodN good goodN_good good_ext (e :: r) Hp [] final (Forall_nil _) Hf) as H.
      rewrite Er in H. simpl in H. destruct H as [Hn Hf']. apply (IH n f' R Hn Hf' E).
  Qed.

  Lemma initial_goodN : ~ List.In start (succ start) ->
    Forall goodN (map (fun s => ([s], len s)) (succ start)).
  Proof.
    intro Hns. apply Forall_forall. intros e He. apply in_map_iff in He. destruct He as [s [Ee Hs]]. subst e.
    split; simpl; [|ring]. repeat split.
    - discriminate.
    - constructor; [intros [] | constructor].
    - intros [E | []]. subst. contradiction.
    - exact Hs.
    - apply prefix_ok_single.
  Qed.

  Lemma routes_sound fuel R : ~ List.In start (succ start) -> routes fuel = Some R -> Forall good R.
  Proof.
    intros Hns E. unfold Routes.routes in E.
    apply (expand_sound fuel _ [] R (initial_goodN Hns) (Forall_nil _) E).
  Qed.

  (* ---- coverage: every direct successor heads some returned path ---- *)
  Definition cov (h : Z) (n : list (list Z * Q)) (f : list (list Z)) : Prop :=
    (exists p, List.In p f /\ hd 0%Z p = h) \/ (exists e, List.In e n /\ hd 0%Z (fst e) = h).

  Lemma cov_mono h n f n' f' : cov h n f -> cov h (n ++ n') (f ++ f').
  Proof.
    intros [[p [Hin E]] | [e [Hin E]]]; [left; exists p | right; exists e]; split; auto; apply in_or_app; auto.
  Qed.

  Lemma step_succs_cov_mono h p le ss : forall next final,
    cov h next final -> cov h (fst (step_succs p le ss next final)) (snd (step_succs p le ss next final)).
  Proof.
    induction ss as [|s r IH]; intros next final Hc; [exact Hc|]. simpl.
    destruct (mem_id s p || (s =? start)%Z || Qle_bool maxlen le).
    - apply IH. rewrite <- (app_nil_r next). apply cov_mono. exact Hc.
    - simpl. destruct (Qlt_bool (le + len s) maxlen); apply IH.
      + rewrite <- (app_nil_r final). apply cov_mono. exact Hc.
      + rewrite <- (app_nil_r next). apply cov_mono. exact Hc.
  Qed.

  Lemma step_succs_cov_new p le ss next final : p <> [] -> ss <> [] ->
    cov (hd 0%Z p) (fst (step_succs p le ss next final)) (snd (step_succs p le ss next final)).
  Proof.
    intros Hp Hss. destruct ss as [|s r]; [congruence|]. simpl.
    destruct (mem_id s p || (s =? start)%Z || Qle_bool maxlen le).
    - apply step_succs_cov_mono. left. exists p. split; [apply in_or_app; right; left; reflexivity | reflexivity].
    - simpl. destruct (Qlt_bool (le + len s) maxlen); apply step_succs_cov_mono.
      + right. exists (p ++ [s], le + len s). split; [apply in_or_app; right; left; reflexivity|].
        simpl. apply hd_snoc. exact Hp.
      + left. exists (p ++ [s]). split; [apply in_or_app; right; left; reflexivity | apply hd_snoc; exact Hp].
  Qed.

  Lemma round_cov h paths : (forall e, List.In e paths -> fst e <> []) ->
    forall next final,
    (cov h next final \/ exists e, List.In e paths /\ hd 0%Z (fst e) = h) ->
    cov h (fst (round paths next final)) (snd (round paths next final)).
  Proof.
    induction paths as [|[p le] r IH]; intros Hne next final Hc.
    - simpl. destruct Hc as [Hc | [e [[] _]]]. exact Hc.
    - assert (Hr : forall e, List.In e r -> fst e <> []) by (intros; apply Hne; right; auto).
      assert (Hp : p <> []) by (apply (Hne (p, le)); left; reflexivity).
      cbn [Routes.round]. destruct (succ (last p 0%Z)) as [|s ss] eqn:E.
      + apply IH; [exact Hr|]. destruct Hc as [Hc | [e [[Ee | Hin] Eh]]].
        * left. rewrite <- (app_nil_r next). apply cov_mono. exact Hc.
        * subst e. simpl in Eh. left. left. exists p. split; [apply in_or_app; right; left; reflexivity | exact Eh].
        * right. exists e. auto.
      + destruct (step_succs p le (s :: ss) next final) as [n' f'] eqn:Es.
        apply IH; [exact Hr|]. destruct Hc as [Hc | [e [[Ee | Hin] Eh]]].
        * left. pose proof (step_succs_cov_mono h p le (s :: ss) next final Hc) as H. rewrite Es in H. exact H.
        * subst e. simpl in Eh. left. subst h.
          pose proof (step_succs_cov_new p le (s :: ss) next final Hp) as H. rewrite Es in H. apply H. discriminate.
        * right. exists e. auto.
  Qed.

  Lemma expand_cov h fuel : forall paths final R,
    Forall goodN paths -> cov h paths final -> expand fuel paths final = Some R ->
    exists p, List.In p R /\ hd 0%Z p = h.
  Proof.
    induction fuel as [|f IH]; intros paths final R Hp Hc E.
    - destruct paths; simpl in E; [|discriminate]. inversion E; subst.
      destruct Hc as [Hc | [e [[] _]]]. exact Hc.
    - destruct paths as [|e r]; cbn [Routes.expand] in E.
      + inversion E; subst. destruct Hc as [Hc | [e [[] _]]]. exact Hc.
      + destruct (round (e :: r) [] final) as [n f'] eqn:Er.
        pose proof (round_Forall goodN goodN (fun _ => True) (fun _ _ => I)
                      (fun p le s a b c d e' => conj (proj1 (good_ext p le s a b c d e')) I)
                      (e :: r) Hp [] final (Forall_nil _)) as HF.
        assert (Hn : Forall goodN n).
        { assert (X : Forall (fun _ : list Z => True) final) by (apply Forall_forall; auto).
          specialize (HF X). rewrite Er in HF. apply HF. }
        apply (IH n f' R Hn); [|exact E].
        assert (Hne : forall e', List.In e' (e :: r) -> fst e' <> []).
        { intros e' Hin. rewrite Forall_forall in Hp. destruct (Hp e' Hin) as [[H _] _]. exact H. }
        pose proof (round_cov h (e :: r) Hne [] final) as H. rewrite Er in H. apply H.
        destruct Hc as [[p [Hin Eh]] | Hc]; [left; left; exists p; auto | right; exact Hc].
  Qed.

  Lemma routes_cover fuel R : ~ List.In start (succ start) -> routes fuel = Some R ->
    forall s, List.In s (succ start) -> exists p, List.In p R /\ hd 0%Z p = s.
  Proof.
    intros Hns E s Hs. unfold Routes.routes in E.
    apply (expand_cov s fuel _ [] R (initial_goodN Hns)); [|exact E].
    right. exists ([s], len s). split; [|reflexivity].
    apply in_map_iff. exists s. auto.
  Qed.

  (* ---- termination: |V| + 1 rounds suffice when all ids lie in the finite set V ---- *)
  Section Termination.
    Variable V : list Z.
    Hypothesis start_closed : incl (succ start) V.
    Hypothesis closed : forall v, List.In v V -> incl (succ v) V.

    Definition inV (k : nat) (e : list Z * Q) : Prop :=
      NoDup (fst e) /\ incl (fst e) V /\ List.length (fst e) = k /\ fst e <> [].

    Lemma inV_ext k p le s : inV k (p, le) -> List.In s (succ (last p 0%Z)) -> mem_id s p = false ->
      (s =? start)%Z = false -> Qle_bool maxlen le = false -> inV (S k) (p ++ [s], le + len s) /\ True.
    Proof.
      intros (Hnd & Hin & Hl & Hne) Hs Hm _ _. simpl in *. split; [|exact I].
      apply mem_id_false in Hm. repeat split; simpl.
      - apply NoDup_snoc; assumption.
      - intros x Hx. apply in_app_or in Hx. destruct Hx as [Hx | [E | []]]; [apply Hin; exact Hx|].
        subst x. apply (closed (last p 0%Z)); [|exact Hs]. apply Hin. apply last_In. exact Hne.
      - rewrite app_length. simpl. lia.
      - destruct p; discriminate.
    Qed.

    Lemma expand_terminates fuel : forall paths final k,
      Forall (inV k) paths -> (List.length V + 2 <= fuel + k)%nat ->
      exists R, expand fuel paths final = Some R.
    Proof.
      induction fuel as [|f IH]; intros paths final k Hp Hk.
      - destruct paths as [|e r]; [exists final; reflexivity|].
        inversion Hp as [|? ? He _]; subst. destruct He as (Hnd & Hin & Hl & _).
        pose proof (NoDup_incl_length Hnd Hin). simpl in Hk. lia.
      - destruct paths as [|e r]; [exists final; reflexivity|]. cbn [Routes.expand].
        destruct (round (e :: r) [] final) as [n f'] eqn:Er.
        pose proof (round_Forall (inV k) (inV (S k)) (fun _ => True) (fun _ _ => I) (inV_ext k)
                      (e :: r) Hp [] final (Forall_nil _)) as HF.
        assert (X : Forall (fun _ : list Z => True) final) by (apply Forall_forall; auto).
        specialize (HF X). rewrite Er in HF. destruct HF as [Hn _]. simpl in Hn.
        apply (IH n f' (S k) Hn). lia.
    Qed.

    Lemma routes_terminate : exists R, routes (S (List.length V)) = Some R.
    Proof.
      unfold Routes.routes. apply (expand_terminates _ _ _ 1%nat); [|lia].
      apply Forall_forall. intros e He. apply in_map_iff in He. destruct He as [s [Ee Hs]]. subst e.
      repeat split; simpl.
      - constructor; [intros [] | constructor].
      - intros x [E | []]. subst. apply start_closed. exact Hs.
      - discriminate.
    Qed.
  End Termination.

  (* the result does not depend on the fuel once it suffices *)
  Lemma expand_fuel_mono fuel : forall paths final R,
    expand fuel paths final = Some R -> expand (S fuel) paths final = Some R.
  Proof.
    induction fuel as [|f IH]; intros paths final R E.
    - destruct paths; simpl in *; [exact E | discriminate].
    - destruct paths as [|e r]; [exact E|].
      change (expand (S (S f)) (e :: r) final) with
        (let '(n, f') := round (e :: r) [] final in expand (S f) n f').
      change (expand (S f) (e :: r) final) with
        (let '(n, f') := round (e :: r) [] final in expand f n f') in E.
      destruct (round (e :: r) [] final) as [n f']. apply IH. exact E.
  Qed.
End RoutesProofs.

(* the three results in one statement, [good] spelled out *)
Lemma routes_sound_paths succ len start maxlen fuel R :
  ~ List.In start (succ start) -> routes succ len start maxlen fuel = Some R ->
  forall p, List.In p R ->
    p <> [] /\ chain succ p /\ NoDup p /\ ~ List.In start p /\ List.In (hd 0%Z p) (succ start) /\
    (forall q r, q <> [] -> r <> [] -> p = q ++ r -> sumlen len q < maxlen).
Proof.
  intros Hns E p Hp. pose proof (routes_sound succ len start maxlen fuel R Hns E) as H.
  rewrite Forall_forall in H. exact (H p Hp).
Qed.

Lemma routes_total succ len start maxlen V :
  incl (succ start) V -> (forall v, List.In v V -> incl (succ v) V) -> ~ List.In start (succ start) ->
  exists R, routes succ len start maxlen (S (List.length V)) = Some R /\
    (forall p, List.In p R ->
       p <> [] /\ chain succ p /\ NoDup p /\ ~ List.In start p /\ List.In (hd 0%Z p) (succ start) /\
       (forall q r, q <> [] -> r <> [] -> p = q ++ r -> sumlen len q < maxlen)) /\
    (forall s, List.In s (succ start) -> exists p, List.In p R /\ hd 0%Z p = s).
Proof.
  intros H1 H2 Hns. destruct (routes_terminate succ len start maxlen V H1 H2) as [R E].
  exists R. split; [exact E|]. split.
  - apply (routes_sound_paths _ _ _ _ _ _ Hns E).
  - apply (routes_cover _ _ _ _ _ _ Hns E).
Qed.

(* more fuel never changes the answer *)
Lemma routes_fuel_mono succ len start maxlen fuel R :
  routes succ len start maxlen fuel = Some R -> routes succ len start maxlen (S fuel) = Some R.
Proof. unfold routes. apply expand_fuel_mono. Qed.
