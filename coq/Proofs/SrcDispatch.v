(* Proofs/SrcDispatch.v — the dispatch functions of Model/Occupancy.v (part (i), which the C04 dispatch theorems are
   about) equal the Gallina text generated on every run from scenario/trajectory.py, prediction/prediction.py and
   scenario/obstacle.py by harness/vlib/py2coq.py + harness/props/c04_src.py (Gen/Src_dispatch.v), one lemma per
   translated function and static configuration (prediction None / TrajectoryPrediction / SetBasedPrediction with int
   or Interval time steps).  The source-side records (Model/DispatchCfg.v) are embedded into the model's obstacles by
   [occ_of_step] / [occ_of_itv]; the two facts about *cached* attributes the translation treats as fields,
       _initial_occupancy_shape = occupancy_shape_from_state(shape, initial_state)          ([shape_ok])
       TrajectoryPrediction.occupancy_set = _create_occupancy_set()                         ([occs_ok])
   are hypotheses here (they are what C11 proves about the caches and what the C04 correspondence observes). *)
From Coq Require Import ZArith Bool List String Lia.
Import ListNotations.
From CR Require Import Base.PyRes Model.Interval Model.TrafficLight Model.Occupancy Model.DispatchCfg Gen.Src_dispatch.
Open Scope Z_scope.

Section Eq.
  Variables S R : Type.
  Variable tstep : S -> Z.
  Variable place : S -> R.

  Notation occR := (occ R).
  Notation lookupR := (@lookup R).

  (* ---- the two generated `for occ in occupancy_set: if ...: return occ` loops are [lookup] on the embedded list *)
  Lemma for0_is_lookup t (l : list (Z * R)) :
    option_map occ_of_step (occupancy_at_time_step_for0 R t l) = lookupR (map occ_of_step l) t.
  Proof.
    induction l as [|x r IH]; [reflexivity|].
    cbn [occupancy_at_time_step_for0 map lookup]. unfold occ_of_step at 2. cbn [o_time key_matches].
    destruct (Z.eqb (fst x) t); [reflexivity | exact IH].
  Qed.

  Lemma for1_is_lookup t (l : list (occ_itv R)) :
    option_map occ_of_itv (occupancy_at_time_step_for1 R t l) = lookupR (map occ_of_itv l) t.
  Proof.
    induction l as [|x r IH]; [reflexivity|].
    cbn [occupancy_at_time_step_for1 map lookup]. unfold occ_of_itv at 2. cbn [o_time key_matches].
    destruct (Z.leb (zlo (oi_time x)) t && Z.leb t (zhi (oi_time x))); [reflexivity | exact IH].
  Qed.

  Lemma match_is_option_map {A B} (f : A -> B) (o : option A) :
    match o with Some a => Some (f a) | None => None end = option_map f o.
  Proof. destruct o; reflexivity. Qed.

  (* ---- Trajectory.state_at_time_step: inside the guard the index is in range, so no IndexError *)
  Lemma pyindex_in_range {A} (l : list A) (i : Z) :
    0 <= i < Z.of_nat (List.length l) -> pyindex l i = nth_error l (Z.to_nat i) /\ nth_error l (Z.to_nat i) <> None.
  Proof.
    intros [H0 H1]. unfold pyindex.
    destruct (Z.leb_spec 0 i) as [_|Hc]; [|lia]. destruct (Z.ltb_spec i (Z.of_nat (List.length l))) as [_|Hc]; [|lia].
    split; [reflexivity|]. apply nth_error_Some. lia.
  Qed.

  Theorem src_traj_state_at_eq (tr : traj S) t :
    src_traj_state_at S tr t = POk (state_at_time_step S tr t).
  Proof.
    unfold src_traj_state_at, state_at_time_step.
    destruct (Z.leb_spec (t_init tr) t) as [Hlo|Hlo]; [|reflexivity].
    destruct (Z.ltb_spec t (t_init tr + Z.of_nat (List.length (t_states tr)))) as [Hhi|Hhi]; [|reflexivity].
    cbn [andb].
    destruct (pyindex_in_range (t_states tr) (t - t_init tr)) as [E NE]; [lia|].
    rewrite E. destruct (nth_error (t_states tr) (Z.to_nat (t - t_init tr))) as [e|]; [reflexivity|congruence].
  Qed.

  (* ---- Prediction.occupancy_at_time_step *)
  Definition emb_set_step (p : set_pred_step R) : prediction S R := PrSet (map occ_of_step (sp_occs p)).
  Definition emb_set_itv (p : set_pred_itv R) : prediction S R := PrSet (map occ_of_itv (si_occs p)).
  Definition emb_traj (p : traj_pred S R) : prediction S R := PrTraj (tp_traj p).
  (* the cached occupancy_set holds what _create_occupancy_set computes *)
  Definition occs_ok (p : traj_pred S R) : Prop := map occ_of_step (tp_occs p) = occupancy_set S R tstep place (tp_traj p).

  Theorem src_pred_occ_step_eq p t : src_pred_occ_step R p t = pred_occupancy_at S R tstep place (emb_set_step p) t.
  Proof.
    unfold src_pred_occ_step, emb_set_step, pred_occupancy_at. rewrite <- for0_is_lookup.
    destruct (occupancy_at_time_step_for0 R t (sp_occs p)); reflexivity.
  Qed.

  Theorem src_pred_occ_itv_eq p t : src_pred_occ_itv R p t = pred_occupancy_at S R tstep place (emb_set_itv p) t.
  Proof.
    unfold src_pred_occ_itv, emb_set_itv, pred_occupancy_at. rewrite <- for1_is_lookup.
    destruct (occupancy_at_time_step_for1 R t (si_occs p)); reflexivity.
  Qed.

  Theorem src_pred_occ_traj_eq p t :
    occs_ok p -> src_pred_occ_traj S R p t = pred_occupancy_at S R tstep place (emb_traj p) t.
  Proof.
    intro H. unfold src_pred_occ_traj, emb_traj, pred_occupancy_at. rewrite <- H, <- for0_is_lookup.
    destruct (occupancy_at_time_step_for0 R t (tp_occs p)); reflexivity.
  Qed.

  (* ---- StaticObstacle *)
  Definition static_shape_ok (o : static_obs S R) : Prop := so_shape o = place (so_init o).
  Definition emb_static (i ty : Z) (o : static_obs S R) : obstacle S R := Static i ty (so_init o).

  Theorem src_static_occ_eq i ty o t :
    static_shape_ok o -> Some (src_static_occ S R o t) = occupancy_at_time S R tstep place (emb_static i ty o) t.
  Proof. intro H. unfold src_static_occ, emb_static, occupancy_at_time. rewrite H. reflexivity. Qed.

  Theorem src_static_state_eq i ty o t :
    Some (src_static_state S R o t) = state_at_time S R tstep (emb_static i ty o) t.
  Proof. reflexivity. Qed.

  (* ---- DynamicObstacle, one lemma per prediction configuration *)
  Definition dyn_shape_ok {P} (o : dyn_obs S R P) : Prop := do_shape o = place (do_init o).
  Definition emb_dyn {P} (i ty : Z) (emb : P -> option (prediction S R)) (o : dyn_obs S R P) : obstacle S R :=
    Dynamic i ty (do_init o) (emb (do_pred o)).

  Theorem src_dyn_occ_none_eq i ty (o : dyn_obs S R unit) t :
    dyn_shape_ok o ->
    src_dyn_occ_none S R tstep o t = occupancy_at_time S R tstep place (emb_dyn i ty (fun _ => None) o) t.
  Proof.
    intro H. unfold src_dyn_occ_none, emb_dyn, occupancy_at_time. rewrite H.
    destruct (Z.eqb t (tstep (do_init o))); [reflexivity|]. destruct (Z.ltb (tstep (do_init o)) t); reflexivity.
  Qed.

  Theorem src_dyn_state_none_eq i ty (o : dyn_obs S R unit) t :
    src_dyn_state_none S R tstep o t = state_at_time S R tstep (emb_dyn i ty (fun _ => None) o) t.
  Proof. reflexivity. Qed.

  Theorem src_dyn_occ_traj_eq i ty (o : dyn_obs S R (traj_pred S R)) t :
    dyn_shape_ok o -> occs_ok (do_pred o) ->
    src_dyn_occ_traj S R tstep o t
    = occupancy_at_time S R tstep place (emb_dyn i ty (fun p => Some (emb_traj p)) o) t.
  Proof.
    intros H Hc. unfold src_dyn_occ_traj, emb_dyn, occupancy_at_time. rewrite H.
    destruct (Z.eqb t (tstep (do_init o))); [reflexivity|]. destruct (Z.ltb (tstep (do_init o)) t); [|reflexivity].
    exact (src_pred_occ_traj_eq (do_pred o) t Hc).
  Qed.

  Theorem src_dyn_state_traj_eq i ty (o : dyn_obs S R (traj_pred S R)) t :
    src_dyn_state_traj S R tstep o t
    = POk (state_at_time S R tstep (emb_dyn i ty (fun p => Some (emb_traj p)) o) t).
  Proof.
    unfold src_dyn_state_traj, emb_dyn, state_at_time, emb_traj.
    destruct (Z.eqb t (tstep (do_init o))); [reflexivity|]. destruct (Z.ltb (tstep (do_init o)) t); [|reflexivity].
    exact (src_traj_state_at_eq (tp_traj (do_pred o)) t).
  Qed.

  Theorem src_dyn_occ_set_step_eq i ty (o : dyn_obs S R (set_pred_step R)) t :
    dyn_shape_ok o ->
    src_dyn_occ_set_step S R tstep o t
    = occupancy_at_time S R tstep place (emb_dyn i ty (fun p => Some (emb_set_step p)) o) t.
  Proof.
    intro H. unfold src_dyn_occ_set_step, emb_dyn, occupancy_at_time. rewrite H.
    destruct (Z.eqb t (tstep (do_init o))); [reflexivity|]. destruct (Z.ltb (tstep (do_init o)) t); [|reflexivity].
    exact (src_pred_occ_step_eq (do_pred o) t).
  Qed.

  Theorem src_dyn_state_set_step_eq i ty (o : dyn_obs S R (set_pred_step R)) t :
    src_dyn_state_set_step S R tstep o t
    = state_at_time S R tstep (emb_dyn i ty (fun p => Some (emb_set_step p)) o) t.
  Proof. reflexivity. Qed.

  Theorem src_dyn_occ_set_itv_eq i ty (o : dyn_obs S R (set_pred_itv R)) t :
    dyn_shape_ok o ->
    src_dyn_occ_set_itv S R tstep o t
    = occupancy_at_time S R tstep place (emb_dyn i ty (fun p => Some (emb_set_itv p)) o) t.
  Proof.
    intro H. unfold src_dyn_occ_set_itv, emb_dyn, occupancy_at_time. rewrite H.
    destruct (Z.eqb t (tstep (do_init o))); [reflexivity|]. destruct (Z.ltb (tstep (do_init o)) t); [|reflexivity].
    exact (src_pred_occ_itv_eq (do_pred o) t).
  Qed.

  Theorem src_dyn_state_set_itv_eq i ty (o : dyn_obs S R (set_pred_itv R)) t :
    src_dyn_state_set_itv S R tstep o t
    = state_at_time S R tstep (emb_dyn i ty (fun p => Some (emb_set_itv p)) o) t.
  Proof. reflexivity. Qed.

  (* ---- EnvironmentObstacle: the stored region at every time step *)
  Theorem src_env_occ_eq i ty (o : env_obs R) t :
    Some (src_env_occ R o t) = occupancy_at_time S R tstep place (Env i ty (eo_shape o)) t.
  Proof. reflexivity. Qed.

  (* ---- every model obstacle of the static / dynamic kind is the embedding of a source object, so the lemmas above
     cover the model's whole dispatch on those roles (phantom / environment obstacles delegate to [lookup] / return the
     stored region; they have no state) *)
  Theorem model_dispatch_is_source :
    (forall tr t, src_traj_state_at S tr t = POk (state_at_time_step S tr t))
    /\ (forall p t, src_pred_occ_step R p t = pred_occupancy_at S R tstep place (emb_set_step p) t)
    /\ (forall p t, src_pred_occ_itv R p t = pred_occupancy_at S R tstep place (emb_set_itv p) t)
    /\ (forall p t, occs_ok p -> src_pred_occ_traj S R p t = pred_occupancy_at S R tstep place (emb_traj p) t)
    /\ (forall i ty o t, static_shape_ok o ->
          Some (src_static_occ S R o t) = occupancy_at_time S R tstep place (emb_static i ty o) t)
    /\ (forall i ty o t, Some (src_static_state S R o t) = state_at_time S R tstep (emb_static i ty o) t)
    /\ (forall i ty o t, dyn_shape_ok o ->
          src_dyn_occ_none S R tstep o t = occupancy_at_time S R tstep place (emb_dyn i ty (fun _ => None) o) t)
    /\ (forall i ty o t,
          src_dyn_state_none S R tstep o t = state_at_time S R tstep (emb_dyn i ty (fun _ => None) o) t)
    /\ (forall i ty o t, dyn_shape_ok o -> occs_ok (do_pred o) ->
          src_dyn_occ_traj S R tstep o t
          = occupancy_at_time S R tstep place (emb_dyn i ty (fun p => Some (emb_traj p)) o) t)
    /\ (forall i ty o t,
          src_dyn_state_traj S R tstep o t
          = POk (state_at_time S R tstep (emb_dyn i ty (fun p => Some (emb_traj p)) o) t))
    /\ (forall i ty o t, dyn_shape_ok o ->
          src_dyn_occ_set_step S R tstep o t
          = occupancy_at_time S R tstep place (emb_dyn i ty (fun p => Some (emb_set_step p)) o) t)
    /\ (forall i ty o t,
          src_dyn_state_set_step S R tstep o t
          = state_at_time S R tstep (emb_dyn i ty (fun p => Some (emb_set_step p)) o) t)
    /\ (forall i ty o t, dyn_shape_ok o ->
          src_dyn_occ_set_itv S R tstep o t
          = occupancy_at_time S R tstep place (emb_dyn i ty (fun p => Some (emb_set_itv p)) o) t)
    /\ (forall i ty o t,
          src_dyn_state_set_itv S R tstep o t
          = state_at_time S R tstep (emb_dyn i ty (fun p => Some (emb_set_itv p)) o) t).
  Proof.
    repeat apply conj.
    - exact src_traj_state_at_eq.
    - exact src_pred_occ_step_eq.
    - exact src_pred_occ_itv_eq.
    - exact src_pred_occ_traj_eq.
    - exact src_static_occ_eq.
    - exact src_static_state_eq.
    - exact src_dyn_occ_none_eq.
    - exact src_dyn_state_none_eq.
    - exact src_dyn_occ_traj_eq.
    - exact src_dyn_state_traj_eq.
    - exact src_dyn_occ_set_step_eq.
    - exact src_dyn_state_set_step_eq.
    - exact src_dyn_occ_set_itv_eq.
    - exact src_dyn_state_set_itv_eq.
  Qed.
End Eq.

(* ---- TrajectoryPrediction._create_occupancy_set, translated: the list the cached property occupancy_set holds when
   it is what the method returned.  [osfs] is occupancy_shape_from_state; the shape is the prediction's own. *)
Section Create.
  Variables S R : Type.
  Variable tstep : S -> Z.
  Variable osfs : R -> S -> R.

  Theorem src_create_occs_eq (q : traj_pred_src S R) :
    map occ_of_step (src_create_occs S R tstep osfs q) = occupancy_set S R tstep (osfs (ts_shape q)) (ts_traj q).
  Proof. unfold src_create_occs, occupancy_set. rewrite map_map. reflexivity. Qed.

  (* the cache hypothesis of the lemmas above, discharged: a prediction whose cached occupancy_set is the value the
     translated _create_occupancy_set returns on its trajectory and shape *)
  Definition cache_from_source (q : traj_pred_src S R) (p : traj_pred S R) : Prop :=
    tp_traj p = ts_traj q /\ tp_occs p = src_create_occs S R tstep osfs q.

  Theorem occs_ok_from_source q p : cache_from_source q p -> occs_ok S R tstep (osfs (ts_shape q)) p.
  Proof. intros [Ht Ho]. unfold occs_ok. rewrite Ho, Ht. apply src_create_occs_eq. Qed.

  Theorem src_pred_occ_traj_from_source q p t : cache_from_source q p ->
    src_pred_occ_traj S R p t = pred_occupancy_at S R tstep (osfs (ts_shape q)) (emb_traj S R p) t.
  Proof. intro H. apply src_pred_occ_traj_eq, occs_ok_from_source, H. Qed.

  Theorem src_dyn_occ_traj_from_source i ty q (o : dyn_obs S R (traj_pred S R)) t :
    dyn_shape_ok S R (osfs (ts_shape q)) o -> cache_from_source q (do_pred o) ->
    src_dyn_occ_traj S R tstep o t
    = occupancy_at_time S R tstep (osfs (ts_shape q)) (emb_dyn S R i ty (fun p => Some (emb_traj S R p)) o) t.
  Proof. intros Hs Hc. apply src_dyn_occ_traj_eq; [exact Hs | apply occs_ok_from_source, Hc]. Qed.
End Create.

Example cache_from_source_example :
  cache_from_source Z Z (fun s => s) (fun sh s => sh * s)
    {| ts_traj := {| t_init := 3; t_states := [3; 4] |}; ts_shape := 10; ts_wheelbase := tt |}
    {| tp_traj := {| t_init := 3; t_states := [3; 4] |}; tp_occs := [(3, 30); (4, 40)] |}.
Proof. split; reflexivity. Qed.

(* non-vacuity: a trajectory prediction whose cached set is what _create_occupancy_set computes *)
Example occs_ok_example :
  occs_ok Z Z (fun s => s) (fun s => 10 * s) {| tp_traj := {| t_init := 3; t_states := [3; 4] |}; tp_occs := [(3, 30); (4, 40)] |}.
Proof. reflexivity. Qed.
