(* Proofs/WriterPrec.v — lemmas for the precision protocol of the file writers (C01). *)
From Coq Require Import Arith List Bool QArith Qabs.
From CR Require Import Model.DecStr Model.WriterPrec Proofs.DecStr.
Import ListNotations.
Open Scope nat_scope.

(* the construction of writer w that is the latest one in history h *)
Fixpoint latest (w : nat) (h : list step) : option (kind * nat) :=
  match h with
  | [] => None
  | st :: r =>
      match latest w r with
      | Some x => Some x
      | None => match st with
                | New v k d => if Nat.eqb v w then Some (k, d) else None
                | Write _ _ => None
                end
      end
  end.

Lemma exec_objs re s st w :
  lookup w (objs (fst (exec_gen re s st))) =
  match st with
  | New v k d => if Nat.eqb v w then Some (k, d) else lookup w (objs s)
  | Write _ _ => lookup w (objs s)
  end.
Proof.
  destruct st as [v k d | v a]; simpl; [reflexivity|].
  destruct (lookup v (objs s)) as [[[|] d]|]; simpl; try reflexivity.
  destruct (re a); reflexivity.
Qed.

Lemma lookup_run re w : forall h s,
  lookup w (objs (run_gen re s h)) =
  match latest w h with Some x => Some x | None => lookup w (objs s) end.
Proof.
  induction h as [|st r IH]; intros s; simpl; [reflexivity|].
  rewrite IH. destruct (latest w r) as [x|]; [reflexivity|].
  rewrite exec_objs. destruct st as [v k d | v a]; [|reflexivity].
  destruct (Nat.eqb v w); reflexivity.
Qed.

Lemma write_own s w d a : lookup w (objs s) = Some (KXml, d) ->
  exec s (Write w a) = (set_glob d s, OWrote d).
Proof. intros H. unfold exec, exec_gen, as_is. rewrite H. reflexivity. Qed.

(* whatever else happened in the process: a write of w is built with the precision of w's latest construction,
   by either write method, and leaves the global at that value *)
Theorem write_uses_own_precision : forall s0 h w d a,
  latest w h = Some (KXml, d) ->
  let r := exec (run s0 h) (Write w a) in snd r = OWrote d /\ glob (fst r) = d.
Proof.
  intros s0 h w d a H. pose proof (lookup_run as_is w h s0) as L. rewrite H in L.
  cbv zeta. unfold run. rewrite (write_own _ _ _ a L). split; reflexivity.
Qed.

Theorem write_leaf_error : forall s0 h w d a x t,
  latest w h = Some (KXml, d) -> digits_ok (fp x) = true ->
  leaf (snd (exec (run s0 h) (Write w a))) x = Some t ->
  (Qabs (dval t - dval x) < 1 / pow10 d)%Q.
Proof.
  intros s0 h w d a x t H D E.
  destruct (write_uses_own_precision s0 h w d a H) as [O _]. rewrite O in E. simpl in E.
  injection E as <-. apply float_to_str_error. exact D.
Qed.

(* other writers' steps do not matter at all: the outcome is a function of the latest construction only *)
Theorem write_history_independent : forall s0 s0' h h' w d a,
  latest w h = Some (KXml, d) -> latest w h' = Some (KXml, d) ->
  snd (exec (run s0 h) (Write w a)) = snd (exec (run s0' h') (Write w a)).
Proof.
  intros. destruct (write_uses_own_precision s0 h w d a H) as [-> _].
  destruct (write_uses_own_precision s0' h' w d a H0) as [-> _]. reflexivity.
Qed.

(* the obligation is not vacuous: without the re-assertion in write_scenario_to_file (or in neither method, the
   code as found) writer 0, constructed with 9 decimals, builds its file with the 2 decimals of writer 1 *)
Definition only_to_file (a : api) : bool := match a with ToFile => true | ScenarioOnly => false end.
Definition h_stale : list step := [New 0 KXml 9; New 1 KXml 2; Write 0 ScenarioOnly; Write 0 ToFile].

Lemma stale_precision_refuted :
  trace_gen only_to_file (world0 4) h_stale = [(9, ONew); (2, ONew); (2, OWrote 2); (9, OWrote 9)] /\
  trace_gen as_found (world0 4) h_stale = [(9, ONew); (2, ONew); (2, OWrote 2); (2, OWrote 2)] /\
  trace (world0 4) h_stale = [(9, ONew); (2, ONew); (9, OWrote 9); (9, OWrote 9)].
Proof. repeat split; vm_compute; reflexivity. Qed.
