(* Proofs/ReadOnly.v — C18: every read-only operation of Model/ReadOnly.v leaves the observation unchanged
   (repaired code), lifted to every sequence; exports unchanged; caches stay coherent and every operation answers
   the same after any read-only history; the two earlier code versions are refuted. *)
From Coq Require Import List ZArith Bool PArith Lia.
Import ListNotations.
From CR Require Import Base.G5Machine Model.ReadOnly.
Open Scope Z_scope.

(* ------------------------------------------------------------------ list helpers *)
Lemma map_upd_nth_same {A B} (g : A -> B) (f : A -> A) : (forall x, g (f x) = g x) ->
  forall k l, map g (upd_nth k f l) = map g l.
Proof.
  intros H k l; revert k; induction l as [|x r IH]; intros [|k]; simpl; try reflexivity.
  - rewrite H; reflexivity.
  - rewrite IH; reflexivity.
Qed.

Lemma map_upd_nth_const {A B} (g : A -> B) : forall k l o o',
  nth_error l k = Some o -> g o' = g o -> map g (upd_nth k (fun _ => o') l) = map g l.
Proof.
  intros k l; revert k; induction l as [|x r IH]; intros [|k] o o' Hn Hg; simpl in *; try discriminate.
  - inversion Hn; subst; rewrite Hg; reflexivity.
  - rewrite (IH k o o' Hn Hg); reflexivity.
Qed.

Lemma fold_left_inv {A B} (P : A -> Prop) (f : A -> B -> A) :
  (forall a b, P a -> P (f a b)) -> forall l a, P a -> P (fold_left f l a).
Proof. intros H l; induction l as [|b r IH]; simpl; intros a Ha; [exact Ha | apply IH, H, Ha]. Qed.

(* ------------------------------------------------------------------ occupancy set *)
Lemma create_occ_states : forall sts, fst (create_occ repaired sts) = sts.
Proof.
  induction sts as [|st r IH]; simpl; [reflexivity|].
  destruct (has_attr Orientation st).
  - destruct (create_occ repaired r) as [r' o]; simpl in *; rewrite IH; reflexivity.
  - destruct (has_attr VelocityY st && has_attr Velocity st).
    + destruct (create_occ repaired r) as [r' o]; simpl in *; rewrite IH; reflexivity.
    + reflexivity.
Qed.

Lemma create_occ_times : forall sts,
  snd (create_occ repaired sts) = if all_headed sts then Some (map st_time sts) else None.
Proof.
  induction sts as [|st r IH]; simpl; [reflexivity|].
  destruct (has_attr Orientation st); simpl.
  - destruct (create_occ repaired r) as [r' o]; simpl in *; rewrite IH.
    destruct (all_headed r); reflexivity.
  - destruct (has_attr VelocityY st && has_attr Velocity st); simpl.
    + destruct (create_occ repaired r) as [r' o]; simpl in *; rewrite IH.
      destruct (all_headed r); reflexivity.
    + reflexivity.
Qed.

Lemma fill_occ_obs : forall p, obs_pred (fst (fill_occ repaired p)) = obs_pred p.
Proof.
  intros [sts [ts|]|ts|]; simpl; try reflexivity.
  pose proof (create_occ_states sts) as H. destruct (create_occ repaired sts) as [sts' o]; simpl in *.
  rewrite H; reflexivity.
Qed.

Lemma pred_occ_at_obs : forall p t, obs_pred (fst (pred_occ_at repaired p t)) = obs_pred p.
Proof.
  intros p t. unfold pred_occ_at.
  destruct p as [sts occ|ts|]; try reflexivity.
  pose proof (fill_occ_obs (PTraj sts occ)) as H.
  destruct (fill_occ repaired (PTraj sts occ)) as [p' [x|]]; simpl in *; exact H.
Qed.

Lemma occ_at_obs : forall o t, obs_obst (fst (occ_at repaired o t)) = obs_obst o.
Proof.
  intros o t. unfold occ_at.
  assert (Hp : obs_obst (fst (let (p', f) := pred_occ_at repaired (o_pred o) t in (with_pred o p', f))) = obs_obst o).
  { pose proof (pred_occ_at_obs (o_pred o) t) as H. destruct (pred_occ_at repaired (o_pred o) t) as [p' f]; simpl in *.
    unfold obs_obst; simpl. rewrite H; reflexivity. }
  destruct (o_role o); try reflexivity; try exact Hp.
  destruct (Z.eqb t (o_t0 o)); [reflexivity|]. destruct (Z.ltb (o_t0 o) t); [exact Hp | reflexivity].
Qed.

Lemma occs_at_obs : forall os t, map obs_obst (fst (occs_at repaired os t)) = map obs_obst os.
Proof.
  induction os as [|o r IH]; intros t; simpl; [reflexivity|].
  pose proof (occ_at_obs o t) as H1. destruct (occ_at repaired o t) as [o1 f]; simpl in H1.
  destruct f.
  - specialize (IH t). destruct (occs_at repaired r t) as [r' b]; simpl in *.
    rewrite occ_at_obs, H1, IH; reflexivity.
  - specialize (IH t). destruct (occs_at repaired r t) as [r' b]; simpl in *. rewrite H1, IH; reflexivity.
  - simpl. rewrite H1; reflexivity.
Qed.

Lemma get_obstacles_obs : forall ks os t, map obs_obst (fst (get_obstacles repaired os ks t)) = map obs_obst os.
Proof.
  induction ks as [|k r IH]; intros os t; simpl; [reflexivity|].
  destruct (nth_error os k) as [o|] eqn:Hn; [|apply IH].
  pose proof (occ_at_obs o t) as H1. destruct (occ_at repaired o t) as [o' f]; simpl in H1.
  pose proof (map_upd_nth_const obs_obst k os o o' Hn H1) as Hu.
  destruct f; simpl; try exact Hu. rewrite IH; exact Hu.
Qed.

Lemma obs_fill_dist : forall l, obs_lanelet (fill_dist l) = obs_lanelet l.
Proof. reflexivity. Qed.
Lemma obs_fill_dists : forall l, obs_lanelet (fill_dists l) = obs_lanelet l.
Proof. reflexivity. Qed.
Lemma obs_fill_cum : forall c, option_map obs_cycle (option_map (fun x => fst (fill_cum x)) c) = option_map obs_cycle c.
Proof. intros [c|]; [|reflexivity]. simpl. unfold fill_cum. destruct (c_cum c); reflexivity. Qed.

(* ------------------------------------------------------------------ one operation *)
Theorem step_observe : forall s o, observe (fst (step repaired s o)) = observe s.
Proof.
  intros s o. destruct o; simpl; try reflexivity.
  - (* OccAt *)
    destruct (nth_error (s_obst s) k) as [ob|] eqn:Hn; [|reflexivity].
    pose proof (occ_at_obs ob t) as H. destruct (occ_at repaired ob t) as [ob' f]; simpl in *.
    unfold observe; simpl. rewrite (map_upd_nth_const obs_obst k _ ob ob' Hn H); reflexivity.
  - (* OccsAt *)
    pose proof (occs_at_obs (s_obst s) t) as H. destruct (occs_at repaired (s_obst s) t) as [os b]; simpl in *.
    unfold observe; simpl. rewrite H; reflexivity.
  - (* OccSet *)
    destruct (nth_error (s_obst s) k) as [ob|] eqn:Hn; [|reflexivity].
    pose proof (fill_occ_obs (o_pred ob)) as H. destruct (fill_occ repaired (o_pred ob)) as [p' x]; simpl in *.
    unfold observe; simpl.
    rewrite (map_upd_nth_const obs_obst k _ ob (with_pred ob p') Hn); [reflexivity|].
    unfold obs_obst; simpl; rewrite H; reflexivity.
  - (* FindPos *) destruct (n_tree (s_net s)); reflexivity.
  - (* FindShape *) destruct (n_tree (s_net s)); reflexivity.
  - (* LaneletDist *)
    unfold observe, obs_net; simpl. rewrite (map_upd_nth_same obs_lanelet fill_dist obs_fill_dist); reflexivity.
  - (* LaneletQ *)
    unfold observe, obs_net; simpl. rewrite (map_upd_nth_same obs_lanelet fill_dists obs_fill_dists); reflexivity.
  - (* GetObstacles *)
    pose proof (get_obstacles_obs ks (s_obst s) t) as H.
    destruct (get_obstacles repaired (s_obst s) ks t) as [os b]; simpl in *.
    unfold observe; simpl. rewrite H; reflexivity.
  - (* LightAt *)
    destruct (nth_error (n_lights (s_net s)) k) as [[cy|]|]; try reflexivity.
    unfold observe, obs_net; simpl. rewrite (map_upd_nth_same _ _ obs_fill_cum); reflexivity.
  - (* Draw *)
    unfold observe, obs_net; simpl. f_equal.
    + apply (fold_left_inv (fun os => map obs_obst os = map obs_obst (s_obst s))); [|reflexivity].
      intros os k Hos. destruct (nth_error os k) as [ob|] eqn:Hn; [|exact Hos].
      rewrite (map_upd_nth_const obs_obst k os ob _ Hn); [exact Hos|].
      unfold obs_obst; simpl. rewrite fill_occ_obs; reflexivity.
    + f_equal.
      * apply (fold_left_inv (fun ls => map obs_lanelet ls = map obs_lanelet (n_lanelets (s_net s)))); [|reflexivity].
        intros ls k Hls. rewrite (map_upd_nth_same obs_lanelet fill_dist obs_fill_dist); exact Hls.
      * apply (fold_left_inv (fun ts => map (option_map obs_cycle) ts = map (option_map obs_cycle) (n_lights (s_net s))));
          [|reflexivity].
        intros ts k Hts. rewrite (map_upd_nth_same _ _ obs_fill_cum); exact Hts.
Qed.

(* ------------------------------------------------------------------ every sequence *)
Definition always (_ : scen) (_ : op) : bool := true.
Lemma all_ok_always : forall ops s, all_ok (step repaired) always ops s = true.
Proof. induction ops as [|o r IH]; simpl; intros; [reflexivity | apply IH]. Qed.

Theorem run_observe : forall ops s, observe (run (step repaired) ops s) = observe s.
Proof.
  intros ops s.
  apply (run_inv (step repaired) always (fun s' => observe s' = observe s)); [|reflexivity|apply all_ok_always].
  intros s' o H _. rewrite step_observe; exact H.
Qed.

Theorem states_observe : forall ops s, Forall (fun s' => observe s' = observe s) (states (step repaired) ops s).
Proof.
  intros ops s.
  apply (states_inv (step repaired) always (fun s' => observe s' = observe s)); [|reflexivity|apply all_ok_always].
  intros s' o H _. rewrite step_observe; exact H.
Qed.

(* ------------------------------------------------------------------ exports *)
Lemma pred_states_obs : forall p, pred_states (obs_pred p) = pred_states p.
Proof. intros [sts occ|ts|]; reflexivity. Qed.

Theorem export_observe : forall s, export (observe s) = export s.
Proof.
  intros s. unfold export, observe; simpl. rewrite map_map. f_equal. f_equal. apply map_ext.
  intros o. unfold obs_obst; simpl. rewrite pred_states_obs; reflexivity.
Qed.

Theorem export_unchanged : forall ops s, export (run (step repaired) ops s) = export s.
Proof. intros. rewrite <- export_observe, run_observe, export_observe; reflexivity. Qed.

Theorem write_result : forall s w, is_write w = true -> snd (step repaired s w) = RFile (export s).
Proof. intros s [] H; simpl in *; try discriminate; reflexivity. Qed.

Theorem write_after_run : forall ops s w, is_write w = true ->
  snd (step repaired (run (step repaired) ops s) w) = snd (step repaired s w).
Proof. intros. rewrite !write_result by assumption. rewrite export_unchanged; reflexivity. Qed.

(* ------------------------------------------------------------------ the caches do change *)
Definition demo_state : tstate :=
  {| st_time := 1; st_attrs := [Position; Velocity; VelocityY]; st_prop_orient := false; st_val := 41 |}.
Definition demo_inters : list inter :=
  [ {| x_id := 100; x_incs := [ {| i_id := 101; i_lanelets := [7]; i_right := []; i_straight := [8]; i_left := [9] |};
                               {| i_id := 102; i_lanelets := [5]; i_right := [6]; i_straight := []; i_left := [] |} ];
       x_cross := [3] |};
    {| x_id := 200; x_incs := []; x_cross := [4] |} ].
Definition demo : scen :=
  {| s_obst := [ {| o_role := Static; o_t0 := 0; o_pred := PNone; o_val := 11 |};
                 {| o_role := Dynamic; o_t0 := 0; o_pred := PTraj [demo_state] None; o_val := 12 |} ];
     s_net := {| n_lanelets := [ {| l_id := 7; l_dist := false; l_inner := false |} ]; n_buffered := [7];
                 n_tree := Some [7]; n_lights := [ Some {| c_durs := [3; 4]; c_off := 2; c_cum := None |} ];
                 n_inters := demo_inters |};
     s_goals := [ {| g_n := 2; g_table := TDefault [(1, [7])] |} ] |}.
Definition demo_ops : list op :=
  [OccsAt 1; LaneletQ 0; LightAt 0 5; DeepCopy; Draw true [] [] []; PbWrite; XmlWrite].
Definition demo_file : file :=
  ([(11, []); (12, [(1, [Position; Velocity; VelocityY], 41)])], [[[]; [7]]], demo_inters).

Lemma demo_run :
  run (step repaired) demo_ops demo <> demo /\
  observe (run (step repaired) demo_ops demo) = observe demo /\
  map o_pred (s_obst (run (step repaired) demo_ops demo)) = [PNone; PTraj [demo_state] (Some [1])] /\
  n_lanelets (s_net (run (step repaired) demo_ops demo)) = [ {| l_id := 7; l_dist := true; l_inner := true |} ] /\
  n_lights (s_net (run (step repaired) demo_ops demo)) = [ Some {| c_durs := [3; 4]; c_off := 2; c_cum := Some [2; 5; 9] |} ] /\
  trace (step repaired) demo_ops demo =
    [RUnit; RUnit; RCum [2; 5; 9]; RCopy (run (step repaired) [OccsAt 1; LaneletQ 0; LightAt 0 5] demo);
     RIds [7; 5; 3; 4; 9; 8; 6]; RFile demo_file; RFile demo_file].
Proof. repeat split; try (vm_compute; reflexivity). vm_compute. discriminate. Qed.

(* ------------------------------------------------------------------ the caches stay coherent *)
Lemma fill_occ_coh : forall p, pred_coh p -> pred_coh (fst (fill_occ repaired p)).
Proof.
  intros [sts [ts|]|ts|] H; simpl; try exact H; try exact I.
  pose proof (create_occ_states sts) as H1. pose proof (create_occ_times sts) as H2.
  destruct (create_occ repaired sts) as [sts' o]; simpl in *. subst sts'. rewrite H2.
  destruct (all_headed sts) eqn:E; simpl; [split; reflexivity | exact I].
Qed.

(* what asking for the occupancy set returns is determined by the stored states *)
Definition times_of (p : pred) : option (list Z) :=
  match p with
  | PTraj sts _ => if all_headed sts then Some (map st_time sts) else None
  | PSet ts => Some ts
  | PNone => None
  end.
Lemma times_of_obs : forall p, times_of (obs_pred p) = times_of p.
Proof. intros [sts occ|ts|]; reflexivity. Qed.
Lemma fill_occ_answer : forall p, pred_coh p -> snd (fill_occ repaired p) = times_of p.
Proof.
  intros [sts [ts|]|ts|] H; simpl; try reflexivity.
  - destruct H as [H1 H2]. rewrite H2, H1; reflexivity.
  - pose proof (create_occ_times sts) as H2. destruct (create_occ repaired sts) as [sts' o]; simpl in *. exact H2.
Qed.

Definition found_of (p : pred) (t : Z) : found :=
  match p with
  | PNone => Missing
  | _ => match times_of p with None => Raised | Some ts => if memZ t ts then Found else Missing end
  end.
Lemma found_of_obs : forall p t, found_of (obs_pred p) t = found_of p t.
Proof. intros [sts occ|ts|] t; reflexivity. Qed.
Lemma pred_occ_at_answer : forall p t, pred_coh p -> snd (pred_occ_at repaired p t) = found_of p t.
Proof.
  intros p t H. unfold pred_occ_at, found_of.
  destruct p as [sts occ|ts|]; try reflexivity.
  pose proof (fill_occ_answer (PTraj sts occ) H) as H1.
  destruct (fill_occ repaired (PTraj sts occ)) as [p' o]. cbn [snd] in H1. subst o.
  destruct (times_of (PTraj sts occ)); reflexivity.
Qed.
Lemma pred_occ_at_coh : forall p t, pred_coh p -> pred_coh (fst (pred_occ_at repaired p t)).
Proof.
  intros p t H. unfold pred_occ_at. destruct p as [sts occ|ts|]; try exact I.
  pose proof (fill_occ_coh (PTraj sts occ) H) as H1.
  destruct (fill_occ repaired (PTraj sts occ)) as [p' [x|]]; exact H1.
Qed.

(* two obstacles with the same stored data and coherent caches *)
Definition alike (o1 o2 : obst) : Prop :=
  obs_obst o1 = obs_obst o2 /\ pred_coh (o_pred o1) /\ pred_coh (o_pred o2).

Definition occ_answer (o : obst) (t : Z) : found :=
  match o_role o with
  | Static | Env => Found
  | Phantom => found_of (o_pred o) t
  | Dynamic => if Z.eqb t (o_t0 o) then Found else if Z.ltb (o_t0 o) t then found_of (o_pred o) t else Missing
  end.
Lemma occ_answer_obs : forall o t, occ_answer (obs_obst o) t = occ_answer o t.
Proof. intros o t. unfold occ_answer, obs_obst; simpl. rewrite found_of_obs; reflexivity. Qed.
Lemma occ_at_answer : forall o t, pred_coh (o_pred o) -> snd (occ_at repaired o t) = occ_answer o t.
Proof.
  intros o t H. unfold occ_at, occ_answer.
  pose proof (pred_occ_at_answer (o_pred o) t H) as H1.
  destruct (pred_occ_at repaired (o_pred o) t) as [p' f]; simpl in H1.
  destruct (o_role o); try reflexivity; try exact H1.
  destruct (Z.eqb t (o_t0 o)); [reflexivity|]. destruct (Z.ltb (o_t0 o) t); [exact H1 | reflexivity].
Qed.
Lemma occ_at_coh : forall o t, pred_coh (o_pred o) -> pred_coh (o_pred (fst (occ_at repaired o t))).
Proof.
  intros o t H. unfold occ_at.
  pose proof (pred_occ_at_coh (o_pred o) t H) as H1.
  destruct (pred_occ_at repaired (o_pred o) t) as [p' f]; simpl in H1.
  destruct (o_role o); try exact H; try exact H1.
  destruct (Z.eqb t (o_t0 o)); [exact H|]. destruct (Z.ltb (o_t0 o) t); [exact H1 | exact H].
Qed.

Lemma occ_at_alike : forall o1 o2 t, alike o1 o2 ->
  snd (occ_at repaired o1 t) = snd (occ_at repaired o2 t) /\
  alike (fst (occ_at repaired o1 t)) (fst (occ_at repaired o2 t)).
Proof.
  intros o1 o2 t (He & H1 & H2). split.
  - rewrite !occ_at_answer by assumption. rewrite <- (occ_answer_obs o1), <- (occ_answer_obs o2), He; reflexivity.
  - split; [rewrite !occ_at_obs; exact He | split; apply occ_at_coh; assumption].
Qed.

Lemma occs_at_alike : forall os1 os2 t, Forall2 alike os1 os2 ->
  snd (occs_at repaired os1 t) = snd (occs_at repaired os2 t) /\
  Forall2 alike (fst (occs_at repaired os1 t)) (fst (occs_at repaired os2 t)).
Proof.
  intros os1 os2 t H; induction H as [|o1 o2 r1 r2 Ho Hr IH]; simpl; [split; [reflexivity | constructor]|].
  destruct (occ_at_alike o1 o2 t Ho) as [Hf Ha].
  destruct (occ_at repaired o1 t) as [a1 f1]; destruct (occ_at repaired o2 t) as [a2 f2]; simpl in *; subst f2.
  destruct IH as [IH1 IH2].
  destruct (occs_at repaired r1 t) as [r1' b1]; destruct (occs_at repaired r2 t) as [r2' b2]; simpl in *.
  destruct f1; simpl.
  - split; [exact IH1 | constructor; [apply (occ_at_alike a1 a2 t Ha) | exact IH2]].
  - split; [exact IH1 | constructor; assumption].
  - split; [reflexivity | constructor; assumption].
Qed.

Lemma Forall2_nth_error {A} (R : A -> A -> Prop) : forall l1 l2 k, Forall2 R l1 l2 ->
  match nth_error l1 k, nth_error l2 k with
  | Some a, Some b => R a b
  | None, None => True
  | _, _ => False
  end.
Proof.
  intros l1 l2 k H; revert k; induction H; intros [|k]; simpl; try exact I; try assumption. apply IHForall2.
Qed.
Lemma Forall2_upd_nth {A} (R : A -> A -> Prop) : forall l1 l2 k a b, Forall2 R l1 l2 -> R a b ->
  Forall2 R (upd_nth k (fun _ => a) l1) (upd_nth k (fun _ => b) l2).
Proof.
  intros l1 l2 k a b H Hab; revert k; induction H; intros [|k]; simpl; constructor; auto.
Qed.

Lemma get_obstacles_alike : forall ks os1 os2 t, Forall2 alike os1 os2 ->
  snd (get_obstacles repaired os1 ks t) = snd (get_obstacles repaired os2 ks t) /\
  Forall2 alike (fst (get_obstacles repaired os1 ks t)) (fst (get_obstacles repaired os2 ks t)).
Proof.
  induction ks as [|k r IH]; intros os1 os2 t H; simpl; [split; [reflexivity | exact H]|].
  pose proof (Forall2_nth_error alike os1 os2 k H) as Hn.
  destruct (nth_error os1 k) as [o1|]; destruct (nth_error os2 k) as [o2|]; try contradiction; [|apply IH; exact H].
  destruct (occ_at_alike o1 o2 t Hn) as [Hf Ha].
  destruct (occ_at repaired o1 t) as [a1 f1]; destruct (occ_at repaired o2 t) as [a2 f2]; simpl in *; subst f2.
  pose proof (Forall2_upd_nth alike os1 os2 k a1 a2 H Ha) as Hu.
  destruct f1; simpl; [apply IH; exact Hu | split; [reflexivity | exact Hu] | split; [reflexivity | exact Hu]].
Qed.

Lemma map_eq_Forall2 {A B} (g : A -> B) : forall l1 l2, map g l1 = map g l2 -> Forall2 (fun a b => g a = g b) l1 l2.
Proof.
  induction l1 as [|a r IH]; intros [|b t] H; simpl in *; try discriminate; constructor.
  - injection H as H1 H2; exact H1.
  - apply IH; injection H as H1 H2; exact H2.
Qed.

Lemma obst_alike : forall os1 os2, map obs_obst os1 = map obs_obst os2 ->
  Forall (fun o => pred_coh (o_pred o)) os1 -> Forall (fun o => pred_coh (o_pred o)) os2 -> Forall2 alike os1 os2.
Proof.
  intros os1 os2 H; apply map_eq_Forall2 in H. induction H; intros H1 H2; constructor.
  - inversion H1; inversion H2; subst. repeat split; assumption.
  - inversion H1; inversion H2; subst. apply IHForall2; assumption.
Qed.

(* results up to the caches a returned copy carries *)
Definition res_obs (r : res) : res := match r with RCopy c => RCopy (observe c) | _ => r end.

Definition Inv (s : scen) : Prop := Coh s /\ n_buffered (s_net s) = map l_id (n_lanelets (s_net s)).

Lemma Forall_upd_nth {A} (P : A -> Prop) (f : A -> A) : (forall x, P x -> P (f x)) ->
  forall k l, Forall P l -> Forall P (upd_nth k f l).
Proof.
  intros H k l; revert k; induction l as [|x r IH]; intros [|k] Hl; simpl; try exact Hl;
    inversion Hl; subst; constructor; auto.
Qed.
Lemma Forall_upd_nth_const {A} (P : A -> Prop) : forall k l a, P a -> Forall P l -> Forall P (upd_nth k (fun _ => a) l).
Proof. intros k l a Ha. apply Forall_upd_nth. intros; exact Ha. Qed.

Lemma alike_refl_Forall : forall os, Forall (fun o => pred_coh (o_pred o)) os -> Forall2 alike os os.
Proof. intros os H. apply obst_alike; [reflexivity | exact H | exact H]. Qed.
Lemma Forall2_alike_left : forall os1 os2, Forall2 alike os1 os2 -> Forall (fun o => pred_coh (o_pred o)) os1.
Proof. intros os1 os2 H; induction H; constructor; [apply H | assumption]. Qed.

Lemma fill_cum_coh : forall c, cycle_coh c -> cycle_coh (option_map (fun x => fst (fill_cum x)) c).
Proof.
  intros [c|] H; [|exact I]. simpl in *. unfold fill_cum. destruct (c_cum c) eqn:E; simpl.
  - rewrite E; exact H.
  - intros x Hx; inversion Hx; reflexivity.
Qed.
Lemma map_l_id_upd : forall f, (forall l, l_id (f l) = l_id l) -> forall k ls, map l_id (upd_nth k f ls) = map l_id ls.
Proof. intros f H k ls. apply map_upd_nth_same; exact H. Qed.

Theorem step_inv : forall s o, Inv s -> Inv (fst (step repaired s o)).
Proof.
  intros s o [(Ho & Hl & Ht) Hb]. destruct o; simpl; try (split; [split; [|split]|]; assumption).
  - (* OccAt *)
    destruct (nth_error (s_obst s) k) as [ob|] eqn:Hn; [|split; [split; [|split]|]; assumption].
    assert (Hob : pred_coh (o_pred ob)).
    { apply nth_error_In in Hn. rewrite Forall_forall in Ho. apply Ho; exact Hn. }
    pose proof (occ_at_coh ob t Hob) as H1. destruct (occ_at repaired ob t) as [ob' f]; simpl in *.
    split; [split; [|split]|]; try assumption. apply Forall_upd_nth_const; assumption.
  - (* OccsAt *)
    destruct (occs_at_alike _ _ t (alike_refl_Forall _ Ho)) as [_ H2]. apply Forall2_alike_left in H2.
    destruct (occs_at repaired (s_obst s) t) as [os b]; simpl in *. split; [split; [|split]|]; assumption.
  - (* OccSet *)
    destruct (nth_error (s_obst s) k) as [ob|] eqn:Hn; [|split; [split; [|split]|]; assumption].
    assert (Hob : pred_coh (o_pred ob)).
    { apply nth_error_In in Hn. rewrite Forall_forall in Ho. apply Ho; exact Hn. }
    pose proof (fill_occ_coh _ Hob) as H1. destruct (fill_occ repaired (o_pred ob)) as [p' x]; simpl in *.
    split; [split; [|split]|]; try assumption. apply Forall_upd_nth_const; assumption.
  - (* FindPos *) rewrite Ht; simpl. split; [split; [|split]|]; assumption.
  - (* FindShape *) rewrite Ht; simpl. split; [split; [|split]|]; assumption.
  - (* LaneletDist *)
    split; [split; [|split]|]; try assumption. simpl. rewrite map_l_id_upd; [exact Hb | reflexivity].
  - (* LaneletQ *)
    split; [split; [|split]|]; try assumption. simpl. rewrite map_l_id_upd; [exact Hb | reflexivity].
  - (* GetObstacles *)
    destruct (get_obstacles_alike ks _ _ t (alike_refl_Forall _ Ho)) as [_ H2]. apply Forall2_alike_left in H2.
    destruct (get_obstacles repaired (s_obst s) ks t) as [os b]; simpl in *. split; [split; [|split]|]; assumption.
  - (* LightAt *)
    destruct (nth_error (n_lights (s_net s)) k) as [[cy|]|]; try (split; [split; [|split]|]; assumption).
    split; [split; [|split]|]; try assumption. simpl. apply Forall_upd_nth; [apply fill_cum_coh | exact Hl].
  - (* DeepCopy *)
    split; [split; [|split]|]; try assumption. reflexivity.
  - (* Draw *)
    split; [split; [|split]|]; simpl; try assumption.
    + apply (fold_left_inv (Forall (fun o => pred_coh (o_pred o)))); [|exact Ho].
      intros os k Hos. destruct (nth_error os k) as [ob|] eqn:Hn; [|exact Hos].
      apply Forall_upd_nth_const; [|exact Hos]. simpl. apply fill_occ_coh.
      apply nth_error_In in Hn. rewrite Forall_forall in Hos. apply Hos; exact Hn.
    + apply (fold_left_inv (Forall cycle_coh)); [|exact Hl].
      intros ts k Hts. apply Forall_upd_nth; [apply fill_cum_coh | exact Hts].
    + apply (fold_left_inv (fun ls => n_buffered (s_net s) = map l_id ls)); [|exact Hb].
      intros ls k Hls. rewrite map_l_id_upd; [exact Hls | reflexivity].
Qed.

Theorem run_inv_ro : forall ops s, Inv s -> Inv (run (step repaired) ops s).
Proof.
  intros ops s H. apply (run_inv (step repaired) always Inv); [|exact H|apply all_ok_always].
  intros s' o H' _. apply step_inv; exact H'.
Qed.

(* ------------------------------------------------------------------ every operation answers the same *)
Lemma obs_lanelet_ids : forall ls1 ls2, map obs_lanelet ls1 = map obs_lanelet ls2 -> map l_id ls1 = map l_id ls2.
Proof.
  intros ls1 ls2 H. apply (f_equal (map l_id)) in H. rewrite !map_map in H. exact H.
Qed.

Lemma cum_of_obs : forall c, cum_of (obs_cycle c) = cum_of c.
Proof. reflexivity. Qed.
Lemma fill_cum_answer : forall cy, cycle_coh (Some cy) -> snd (fill_cum cy) = cum_of cy.
Proof. intros cy H. unfold fill_cum. destruct (c_cum cy) eqn:E; simpl; [apply H; exact E | reflexivity]. Qed.

Theorem answers_alike : forall s1 s2 o, Inv s1 -> Inv s2 -> observe s1 = observe s2 ->
  res_obs (snd (step repaired s1 o)) = res_obs (snd (step repaired s2 o)).
Proof.
  intros s1 s2 o [(Ho1 & Hl1 & Ht1) Hb1] [(Ho2 & Hl2 & Ht2) Hb2] He.
  assert (Hos : map obs_obst (s_obst s1) = map obs_obst (s_obst s2)) by (apply (f_equal s_obst) in He; exact He).
  assert (Hnet : obs_net (s_net s1) = obs_net (s_net s2)) by (apply (f_equal s_net) in He; exact He).
  assert (Hls : map obs_lanelet (n_lanelets (s_net s1)) = map obs_lanelet (n_lanelets (s_net s2)))
    by (apply (f_equal n_lanelets) in Hnet; exact Hnet).
  assert (Hts : map (option_map obs_cycle) (n_lights (s_net s1)) = map (option_map obs_cycle) (n_lights (s_net s2)))
    by (apply (f_equal n_lights) in Hnet; exact Hnet).
  assert (Hxs : n_inters (s_net s1) = n_inters (s_net s2)) by (apply (f_equal n_inters) in Hnet; exact Hnet).
  pose proof (obst_alike _ _ Hos Ho1 Ho2) as Hal.
  assert (Hg : s_goals s1 = s_goals s2) by (apply (f_equal s_goals) in He; exact He).
  assert (Hex : export s1 = export s2) by (rewrite <- (export_observe s1), <- (export_observe s2), He; reflexivity).
  destruct o; simpl; try reflexivity.
  - (* OccAt *)
    pose proof (Forall2_nth_error alike _ _ k Hal) as Hn.
    destruct (nth_error (s_obst s1) k) as [o1|]; destruct (nth_error (s_obst s2) k) as [o2|]; try contradiction;
      [|reflexivity].
    destruct (occ_at_alike o1 o2 t Hn) as [Hf _].
    destruct (occ_at repaired o1 t) as [a1 f1]; destruct (occ_at repaired o2 t) as [a2 f2]; simpl in *; subst; reflexivity.
  - (* OccsAt *)
    destruct (occs_at_alike _ _ t Hal) as [Hf _].
    destruct (occs_at repaired (s_obst s1) t) as [a1 b1]; destruct (occs_at repaired (s_obst s2) t) as [a2 b2];
      simpl in *; subst; reflexivity.
  - (* OccSet *)
    pose proof (Forall2_nth_error alike _ _ k Hal) as Hn.
    destruct (nth_error (s_obst s1) k) as [o1|]; destruct (nth_error (s_obst s2) k) as [o2|]; try contradiction;
      [|reflexivity].
    destruct Hn as (Hobs & Hc1 & Hc2).
    pose proof (fill_occ_answer _ Hc1) as A1. pose proof (fill_occ_answer _ Hc2) as A2.
    destruct (fill_occ repaired (o_pred o1)) as [p1 x1]; destruct (fill_occ repaired (o_pred o2)) as [p2 x2]; simpl in *.
    assert (Hp : obs_pred (o_pred o1) = obs_pred (o_pred o2)) by (apply (f_equal o_pred) in Hobs; exact Hobs).
    rewrite A1, A2, <- (times_of_obs (o_pred o1)), <- (times_of_obs (o_pred o2)), Hp; reflexivity.
  - (* FindPos *) rewrite Ht1, Ht2, Hb1, Hb2, (obs_lanelet_ids _ _ Hls); reflexivity.
  - (* FindShape *) rewrite Ht1, Ht2, Hb1, Hb2, (obs_lanelet_ids _ _ Hls); reflexivity.
  - (* GetObstacles *)
    destruct (get_obstacles_alike ks _ _ t Hal) as [Hf _].
    destruct (get_obstacles repaired (s_obst s1) ks t) as [a1 b1];
      destruct (get_obstacles repaired (s_obst s2) ks t) as [a2 b2]; simpl in *; subst; reflexivity.
  - (* LightAt *)
    pose proof (Forall2_nth_error _ _ _ k (map_eq_Forall2 _ _ _ Hts)) as Hn.
    destruct (nth_error (n_lights (s_net s1)) k) as [c1|] eqn:E1;
      destruct (nth_error (n_lights (s_net s2)) k) as [c2|] eqn:E2; try contradiction; [|reflexivity].
    destruct c1 as [c1|]; destruct c2 as [c2|]; cbv beta in Hn; unfold option_map in Hn; try discriminate; [|reflexivity].
    assert (C1 : cycle_coh (Some c1)) by (apply nth_error_In in E1; rewrite Forall_forall in Hl1; apply Hl1; exact E1).
    assert (C2 : cycle_coh (Some c2)) by (apply nth_error_In in E2; rewrite Forall_forall in Hl2; apply Hl2; exact E2).
    assert (A : snd (fill_cum c1) = snd (fill_cum c2)).
    { rewrite (fill_cum_answer _ C1), (fill_cum_answer _ C2).
      injection Hn; intros; unfold cum_of; congruence. }
    simpl. f_equal. exact A.
  - (* DeepCopy *) f_equal. unfold observe, obs_net; simpl. rewrite Hos, Hls, Hts, Hg, Hxs; reflexivity.
  - (* Pickle *) f_equal. unfold observe, obs_net; simpl. rewrite Hos, Hls, Hts, Hg, Hxs; reflexivity.
  - (* Draw *) rewrite Hxs; reflexivity.
  - (* XmlWrite *) rewrite Hex; reflexivity.
  - (* PbWrite *) rewrite Hex; reflexivity.
Qed.

Theorem answer_after_run : forall ops q s, Inv s ->
  res_obs (snd (step repaired (run (step repaired) ops s) q)) = res_obs (snd (step repaired s q)).
Proof.
  intros ops q s H. apply answers_alike; [apply run_inv_ro; exact H | exact H | apply run_observe].
Qed.

(* ------------------------------------------------------------------ the earlier code versions are refuted *)
Definition old_occ : code := {| occ_on_copy := false; pb_checks_key := true |}.
Definition old_pb : code := {| occ_on_copy := true; pb_checks_key := false |}.

(* before the repair of _create_occupancy_set: asking for an occupancy adds `orientation` to the stored state,
   and the next export writes it *)
Lemma old_occ_refuted :
  observe (fst (step old_occ demo (OccSet 1))) <> observe demo /\
  observe (fst (step old_occ demo (OccsAt 1))) <> observe demo /\
  observe (fst (step old_occ demo (Draw false [1%nat] [] []))) <> observe demo /\
  export (fst (step old_occ demo (OccAt 1 1))) =
    ([(11, []); (12, [(1, [Position; Velocity; VelocityY; Orientation], 41)])], [[[]; [7]]], demo_inters) /\
  export demo = demo_file.
Proof. repeat split; try (vm_compute; reflexivity); vm_compute; discriminate. Qed.

(* in general: on a trajectory all of whose states have a heading or both velocity components, the old code
   leaves the stored states alone exactly when every state has an orientation already *)
Lemma set_attr_changes : forall st, has_attr Orientation st = false -> set_attr Orientation st <> st.
Proof.
  intros st H E. unfold has_attr in H. apply orb_false_iff in H. destruct H as [H _].
  unfold set_attr in E. rewrite H in E. apply (f_equal (fun x => length (st_attrs x))) in E. simpl in E.
  rewrite app_length in E. simpl in E. lia.
Qed.
Theorem old_occ_changes_iff : forall sts, all_headed sts = true ->
  (fst (create_occ old_occ sts) = sts <-> forallb (has_attr Orientation) sts = true).
Proof.
  induction sts as [|st r IH]; simpl; intros H; [split; reflexivity|].
  apply andb_true_iff in H. destruct H as [H1 H2]. specialize (IH H2).
  destruct (has_attr Orientation st) eqn:E; simpl in *.
  - destruct (create_occ old_occ r) as [r' o]; simpl in *. split.
    + intros X. injection X as X. apply IH; exact X.
    + intros X. f_equal. apply IH; exact X.
  - rewrite H1. destruct (create_occ old_occ r) as [r' o]; simpl. split; [|discriminate].
    intros X. injection X as X1 X2. exfalso. exact (set_attr_changes st E X1).
Qed.

(* before the repair of the protobuf writer: writing a planning problem read from XML inserts empty entries into
   its goal-lanelet table; on a plain dict with a missing key the writer raises KeyError *)
Lemma old_pb_refuted :
  observe (fst (step old_pb demo PbWrite)) <> observe demo /\
  s_goals (fst (step old_pb demo PbWrite)) = [ {| g_n := 2; g_table := TDefault [(1, [7]); (0, [])] |} ] /\
  step old_pb (with_goals demo [ {| g_n := 2; g_table := TDict [(1, [7])] |} ]) PbWrite =
    (with_goals demo [ {| g_n := 2; g_table := TDict [(1, [7])] |} ], RErr KeyError).
Proof. repeat split; try (vm_compute; reflexivity); vm_compute; discriminate. Qed.

Lemma demo_inv : Inv demo.
Proof.
  split; [split; [|split]|]; try reflexivity.
  - repeat constructor.
  - repeat constructor. intros x H; discriminate.
Qed.
