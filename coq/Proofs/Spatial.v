(* Proofs/Spatial.v — lemmas about Model/Spatial.v (C06). *)
From Coq Require Import QArith ZArith NArith Bool List Qminmax Lia Lqa Qabs.
From CR Require Import Base.QMod Model.Spatial.
Import ListNotations.
Open Scope Q_scope.

(* ================================================================== Part A: the index *)
Definition entry (la : lanelet) : Z * poly := (lid la, lpoly la).
Definition Coherent (s : net) : Prop :=
  buffered s = map entry (lanelets s) /\ NoDup (map lid (lanelets s)) /\ NoDup (handles s).
Definition Mirror (s : net) : Prop :=
  Coherent s /\
  tree s = Some (map lpoly (lanelets s)) /\
  idmap s = map (fun la => (ph (lpoly la), lid la)) (lanelets s).

Lemma memN_In h l : memN h l = true <-> In h l.
Proof.
  unfold memN. rewrite existsb_exists. split.
  - intros [x [Hin He]]. apply N.eqb_eq in He. subst. exact Hin.
  - intro H. exists h. split; [exact H | apply N.eqb_refl].
Qed.

Lemma nodupN_NoDup l : nodupN l = true <-> NoDup l.
Proof.
  induction l as [|h r IH]; simpl.
  - split; [constructor | reflexivity].
  - rewrite andb_true_iff, negb_true_iff, IH. split.
    + intros [Hm Hr]. constructor; [|exact Hr]. intro Hin. apply memN_In in Hin. congruence.
    + intro H. inversion H; subst. split; [|assumption].
      destruct (memN h r) eqn:E; [|reflexivity]. apply memN_In in E. contradiction.
Qed.

Lemma has_id_In i s : has_id i s = true <-> In i (map lid (lanelets s)).
Proof.
  unfold has_id. rewrite existsb_exists, in_map_iff. split.
  - intros [la [Hin He]]. apply Z.eqb_eq in He. exists la. auto.
  - intros [la [He Hin]]. exists la. split; [exact Hin | apply Z.eqb_eq; exact He].
Qed.

Lemma dict_set_fresh (k : Z) (v : poly) (ls : list lanelet) :
  ~ In k (map lid ls) -> dict_set k v (map entry ls) = map entry ls ++ [(k, v)].
Proof.
  induction ls as [|a r IH]; simpl; intro H; [reflexivity|].
  destruct (Z.eqb (lid a) k) eqn:E.
  - apply Z.eqb_eq in E. exfalso. apply H. left. exact E.
  - rewrite IH; [reflexivity|]. intro Hin. apply H. right. exact Hin.
Qed.

Lemma NoDup_app_single {A} (l : list A) (a : A) : NoDup l -> ~ In a l -> NoDup (l ++ [a]).
Proof.
  induction l as [|x r IH]; simpl; intros Hn Hi.
  - constructor; [intros []|constructor].
  - inversion Hn; subst. constructor.
    + rewrite in_app_iff. intros [H|[H|[]]]; [contradiction | subst; apply Hi; left; reflexivity].
    + apply IH; [assumption | intro; apply Hi; right; assumption].
Qed.

(* add_lanelet with a lanelet whose polygon object is not yet in the network (or whose id is) *)
Lemma add_coherent la rt s :
  Coherent s -> (has_id (lid la) s = true \/ ~ In (ph (lpoly la)) (handles s)) ->
  Coherent (fst (add_lanelet la false s)) /\
  (rt = true -> Mirror s -> Mirror (fst (add_lanelet la true s))).
Proof.
  intros [Hb [Hi Hh]] Hfresh. unfold add_lanelet.
  destruct (has_id (lid la) s) eqn:E; simpl.
  - split; [repeat split; assumption | intros _ HM; exact HM].
  - assert (Hni : ~ In (lid la) (map lid (lanelets s))).
    { intro Hin. apply has_id_In in Hin. congruence. }
    destruct Hfresh as [Hf|Hf]; [discriminate|].
    assert (HC : Coherent {| lanelets := lanelets s ++ [la];
                             buffered := dict_set (lid la) (lpoly la) (buffered s);
                             tree := tree s; idmap := idmap s |}).
    { unfold Coherent, handles; simpl. rewrite Hb, dict_set_fresh by exact Hni.
      rewrite !map_app; simpl. repeat split.
      - apply NoDup_app_single; assumption.
      - apply NoDup_app_single; assumption. }
    split; [exact HC|]. intros _ _.
    unfold Mirror. split; [exact HC|]. simpl.
    destruct HC as [Hb' _]. simpl in Hb'. rewrite Hb'. rewrite !map_map. simpl. split; reflexivity.
Qed.

Lemma create_mirror s : Coherent s -> Mirror (create_strtree s).
Proof.
  intros HC. pose proof HC as [Hb [Hi Hh]]. unfold Mirror, create_strtree; simpl. split.
  - unfold Coherent, handles; simpl. repeat split; assumption.
  - rewrite Hb, !map_map. simpl. split; reflexivity.
Qed.

Lemma Mirror_Coherent s : Mirror s -> Coherent s.
Proof. intros [H _]. exact H. Qed.

Lemma filter_map_entry (f : Z -> bool) ls :
  filter (fun e : Z * poly => f (fst e)) (map entry ls) = map entry (filter (fun la => f (lid la)) ls).
Proof.
  induction ls as [|a r IH]; simpl; [reflexivity|]. destruct (f (lid a)); simpl; rewrite IH; reflexivity.
Qed.

Lemma NoDup_map_filter {A B} (g : A -> B) (f : A -> bool) l : NoDup (map g l) -> NoDup (map g (filter f l)).
Proof.
  induction l as [|a r IH]; simpl; intro H; [constructor|]. inversion H; subst.
  destruct (f a); simpl; [|auto]. constructor; [|auto].
  rewrite in_map_iff in *. intros [x [He Hx]]. apply H2. exists x. split; [exact He|].
  apply filter_In in Hx. tauto.
Qed.

Lemma remove_coherent i s :
  Coherent s ->
  Coherent (fst (remove_lanelet i false s)) /\ Mirror (fst (remove_lanelet i true s)) /\
  snd (remove_lanelet i true s) = Ret tt.
Proof.
  intros HC. pose proof HC as [Hb [Hi Hh]]. unfold remove_lanelet.
  destruct (has_id i s) eqn:E.
  - assert (Hd : dict_has i (buffered s) = true).
    { unfold dict_has. rewrite Hb. apply has_id_In in E. rewrite in_map_iff in E.
      destruct E as [la [He Hin]]. apply existsb_exists. exists (entry la). split.
      - apply in_map. exact Hin.
      - simpl. apply Z.eqb_eq. exact He. }
    rewrite Hd. simpl.
    assert (HC' : Coherent {| lanelets := filter (fun la => negb (Z.eqb (lid la) i)) (lanelets s);
                              buffered := dict_del i (buffered s); tree := tree s; idmap := idmap s |}).
    { unfold Coherent, handles; simpl. repeat split.
      - unfold dict_del. rewrite Hb. apply (filter_map_entry (fun k => negb (Z.eqb k i))).
      - apply NoDup_map_filter. exact Hi.
      - apply (NoDup_map_filter (fun la => ph (lpoly la))). exact Hh. }
    split; [exact HC'|]. split; [apply create_mirror; exact HC' | reflexivity].
  - simpl. split; [exact HC|]. split; [apply create_mirror; exact HC | reflexivity].
Qed.

(* adding a list of lanelets whose polygon objects are pairwise distinct and new *)
Lemma add_all_coherent ls : forall s,
  Coherent s -> NoDup (map (fun la => ph (lpoly la)) ls ++ handles s) -> Coherent (add_all ls s).
Proof.
  induction ls as [|a r IH]; simpl; intros s HC Hn; [exact HC|].
  unfold add_all in *. simpl.
  inversion Hn as [|x l Hx Hr]; subst.
  assert (Hfa : ~ In (ph (lpoly a)) (handles s)).
  { intro Hin. apply Hx. apply in_or_app. right. exact Hin. }
  destruct (add_coherent a false s HC (or_intror Hfa)) as [HC1 _].
  apply IH; [exact HC1|].
  (* the handles of the new state are those of s, possibly followed by a's *)
  unfold add_lanelet in *. destruct (has_id (lid a) s); simpl in *.
  - exact Hr.
  - unfold handles in *; simpl. rewrite map_app; simpl.
    (* NoDup (hr ++ hs ++ [ha]) from NoDup (ha :: hr ++ hs) *)
    rewrite app_assoc. apply NoDup_app_single; [exact Hr | exact Hx].
Qed.

Lemma empty_mirror : Mirror empty.
Proof. unfold Mirror, Coherent, empty, handles; simpl. repeat split; constructor. Qed.

Lemma rehandle_coherent f s :
  Coherent s -> NoDup (map f (handles s)) ->
  Coherent {| lanelets := map (rehandle_lanelet f) (lanelets s);
              buffered := map (fun e => (fst e, rehandle_poly f (snd e))) (buffered s);
              tree := None; idmap := idmap s |}.
Proof.
  intros [Hb [Hi Hh]] Hn. unfold Coherent, handles in *; simpl. repeat split.
  - rewrite Hb, !map_map. reflexivity.
  - rewrite map_map. simpl. exact Hi.
  - rewrite map_map in *. simpl. exact Hn.
Qed.

Lemma step_mirror s o : Mirror s -> ok s o = true -> Mirror (step s o).
Proof.
  intros HM Hok. pose proof (Mirror_Coherent s HM) as HC.
  destruct o as [la|i|ls|ls|f| |f]; simpl in *.
  - unfold fresh_list in Hok. apply nodupN_NoDup in Hok. simpl in Hok. inversion Hok; subst.
    apply (proj2 (add_coherent la true s HC (or_intror H1))); [reflexivity | exact HM].
  - apply (remove_coherent i s HC).
  - unfold add_from_network. apply create_mirror. apply add_all_coherent; [exact HC|].
    apply nodupN_NoDup. exact Hok.
  - unfold from_list. apply create_mirror. apply add_all_coherent; [exact (Mirror_Coherent _ empty_mirror)|].
    apply nodupN_NoDup. exact Hok.
  - unfold deepcopy_result. apply create_mirror. apply rehandle_coherent; [exact HC|].
    apply nodupN_NoDup. exact Hok.
  - unfold deepcopy_self. apply create_mirror. exact HC.
  - unfold unpickle, deepcopy_result. apply create_mirror. apply rehandle_coherent; [exact HC|].
    apply nodupN_NoDup. exact Hok.
Qed.

Lemma run_mirror ops : forall s, Mirror s -> all_ok ops s = true -> Mirror (run ops s).
Proof.
  induction ops as [|o r IH]; simpl; intros s HM Hok; [exact HM|].
  apply andb_true_iff in Hok. destruct Hok as [H1 H2].
  apply IH; [apply step_mirror; assumption | exact H2].
Qed.

Theorem index_mirrors_lanelets_lemma ops : all_ok ops empty = true -> Mirror (run ops empty).
Proof. apply run_mirror. exact empty_mirror. Qed.

(* ---- the lookups return exactly the brute-force scan *)
Lemma assocN_map_hit (ls : list lanelet) la :
  NoDup (map (fun la => ph (lpoly la)) ls) -> In la ls ->
  assocN (ph (lpoly la)) (map (fun la => (ph (lpoly la), lid la)) ls) = Some (lid la).
Proof.
  induction ls as [|a r IH]; simpl; intros Hn Hin; [contradiction|].
  inversion Hn; subst. destruct Hin as [He|Hin].
  - subst. rewrite N.eqb_refl. reflexivity.
  - destruct (N.eqb (ph (lpoly a)) (ph (lpoly la))) eqn:E.
    + apply N.eqb_eq in E. exfalso. apply H1. rewrite E. apply in_map_iff. exists la. auto.
    + apply IH; assumption.
Qed.

Lemma collect_scan m pred (ls : list lanelet) :
  (forall la, In la ls -> assocN (ph (lpoly la)) m = Some (lid la)) ->
  collect m pred (map lpoly ls) = Ret (map lid (filter (fun la => pred (pr (lpoly la))) ls)).
Proof.
  induction ls as [|a r IH]; simpl; intro H; [reflexivity|].
  rewrite IH by (intros; apply H; right; assumption).
  destruct (pred (pr (lpoly a))); [|reflexivity].
  rewrite (H a) by (left; reflexivity). reflexivity.
Qed.

Lemma find_by_scan s pred : Mirror s -> find_by s pred = Ret (scan s pred).
Proof.
  intros [[Hb [Hi Hh]] [Ht Hm]]. unfold find_by, scan. rewrite Ht, Hm.
  apply collect_scan. intros la Hin. apply assocN_map_hit; assumption.
Qed.

Lemma scan_spec s pred i :
  In i (scan s pred) <-> exists la, In la (lanelets s) /\ lid la = i /\ pred (pr (lpoly la)) = true.
Proof.
  unfold scan. rewrite in_map_iff. split.
  - intros [la [He Hin]]. apply filter_In in Hin. exists la. tauto.
  - intros [la [Hin [He Hp]]]. exists la. split; [exact He|]. apply filter_In. tauto.
Qed.

(* ================================================================== Part B: planar predicates *)
Lemma Qeq_bool_spec a b : reflect (a == b) (Qeq_bool a b).
Proof. apply iff_reflect. symmetry. apply Qeq_bool_iff. Qed.

Lemma on_seg_spec a b p : on_seg a b p = true <-> cross a b p == 0 /\ dotp a b p <= 0.
Proof.
  unfold on_seg. destruct (Qeq_bool_spec (cross a b p) 0) as [H|H].
  - rewrite Qle_bool_iff. tauto.
  - split; [discriminate | tauto].
Qed.

Lemma crosses_spec a b p :
  crosses a b p = true <->
  (py a <= py p /\ py p < py b /\ 0 < cross a b p) \/ (py b <= py p /\ py p < py a /\ cross a b p < 0).
Proof.
  unfold crosses.
  destruct (Qlt_bool_spec (py p) (py a)); destruct (Qlt_bool_spec (py p) (py b)); simpl;
    try rewrite Qlt_bool_iff; split; intro H; try discriminate; try (destruct H as [H|H]; lra); try lra.
Qed.

Lemma crosses_sym a b p : crosses a b p = crosses b a p.
Proof.
  assert (E : cross b a p == - cross a b p) by (unfold cross; ring).
  destruct (crosses a b p) eqn:E1; destruct (crosses b a p) eqn:E2; try reflexivity; exfalso.
  - apply crosses_spec in E1. apply not_true_iff_false in E2. apply E2. apply crosses_spec.
    destruct E1 as [H|H]; [right|left]; lra.
  - apply crosses_spec in E2. apply not_true_iff_false in E1. apply E1. apply crosses_spec.
    destruct E2 as [H|H]; [right|left]; lra.
Qed.

(* a point on an edge is in the polygon *)
Lemma pip_on_edge r a b p : In (a, b) (edges r) -> on_seg a b p = true -> pip r p = true.
Proof.
  intros Hin Hs. unfold pip. apply orb_true_iff. left. unfold on_boundary.
  apply existsb_exists. exists (a, b). split; [exact Hin | exact Hs].
Qed.

(* ---- circle: the containment test is the disc of the radius; the exported disc has half the radius *)
Lemma circ_contains_spec C p :
  circ_contains C p = true <-> in_disc (ccx C) (ccy C) (cr C) p.
Proof. unfold circ_contains, in_disc. rewrite andb_true_iff, !Qle_bool_iff. tauto. Qed.

Lemma circ_export_radius_half C : circ_export_radius C == cr C / 2.
Proof. unfold circ_export_radius. field. Qed.

(* the statement "the exported geometry of a circle is the disc of its radius" is false of the code as it is *)
Lemma circ_export_refuted :
  exists C p, circ_contains C p = true /\ ~ in_disc (ccx C) (ccy C) (circ_export_radius C) p.
Proof.
  exists {| cr := 2; ccx := 0; ccy := 0 |}, (2, 0). split; [reflexivity|].
  unfold in_disc, circ_export_radius, dist2; simpl. intros [_ H]. revert H. apply Qlt_not_le. reflexivity.
Qed.
(* it is the disc of the radius exactly for the degenerate circle *)
Lemma circ_export_is_radius_iff C : circ_export_radius C == cr C <-> cr C == 0.
Proof. unfold circ_export_radius. split; intro H; lra. Qed.

(* ---- polygon: the bounding-box pre-test only ever removes points *)
Lemma poly_contains_pip r p : poly_contains r p = true -> pip r p = true.
Proof. unfold poly_contains. intro H. apply andb_true_iff in H. tauto. Qed.

(* ---- shape group = union of its members *)
Lemma group_union ss p :
  shape_contains (Group ss) p = true <-> exists s, In s ss /\ prim_contains s p = true.
Proof. simpl. apply existsb_exists. Qed.

(* ---- rectangle, convex (half-plane) form, every rotation *)
Lemma mul_pos_sign w z : 0 < w -> (w * z <= 0 <-> z <= 0).
Proof. intro Hw. split; intro H; nra. Qed.

Section Rect.
  Variables l w tx ty cs sn : Q.
  Hypothesis Hcs : cs * cs + sn * sn == 1.
  Hypothesis Hl : 0 < l.
  Hypothesis Hw : 0 < w.
  Let R := {| rl := l; rw := w; rcx := tx; rcy := ty; rcs := cs; rsn := sn |}.

  Lemma rect_box_convex_lemma p : inside_cw (corners R) p = true <-> in_box R p.
  Proof.
    destruct p as [x y].
    unfold inside_cw, corners, local_corners, in_box, to_local, R; simpl.
    rewrite !andb_true_iff, !Qle_bool_iff. unfold cross, rot_trans, px, py; simpl.
    set (qx := cs * (x - tx) + sn * (y - ty)).
    set (qy := - sn * (x - tx) + cs * (y - ty)).
    assert (E0 : (cs * (-(1#2) * l) - sn * ((1#2) * w) + tx - (cs * (-(1#2) * l) - sn * (-(1#2) * w) + tx)) *
                 (y - (sn * (-(1#2) * l) + cs * (-(1#2) * w) + ty)) -
                 (sn * (-(1#2) * l) + cs * ((1#2) * w) + ty - (sn * (-(1#2) * l) + cs * (-(1#2) * w) + ty)) *
                 (x - (cs * (-(1#2) * l) - sn * (-(1#2) * w) + tx))
                 == w * (- qx - (cs * cs + sn * sn) * ((1#2) * l))) by (unfold qx; ring).
    assert (E1 : (cs * ((1#2) * l) - sn * ((1#2) * w) + tx - (cs * (-(1#2) * l) - sn * ((1#2) * w) + tx)) *
                 (y - (sn * (-(1#2) * l) + cs * ((1#2) * w) + ty)) -
                 (sn * ((1#2) * l) + cs * ((1#2) * w) + ty - (sn * (-(1#2) * l) + cs * ((1#2) * w) + ty)) *
                 (x - (cs * (-(1#2) * l) - sn * ((1#2) * w) + tx))
                 == l * (qy - (cs * cs + sn * sn) * ((1#2) * w))) by (unfold qy; ring).
    assert (E2 : (cs * ((1#2) * l) - sn * (-(1#2) * w) + tx - (cs * ((1#2) * l) - sn * ((1#2) * w) + tx)) *
                 (y - (sn * ((1#2) * l) + cs * ((1#2) * w) + ty)) -
                 (sn * ((1#2) * l) + cs * (-(1#2) * w) + ty - (sn * ((1#2) * l) + cs * ((1#2) * w) + ty)) *
                 (x - (cs * ((1#2) * l) - sn * ((1#2) * w) + tx))
                 == w * (qx - (cs * cs + sn * sn) * ((1#2) * l))) by (unfold qx; ring).
    assert (E3 : (cs * (-(1#2) * l) - sn * (-(1#2) * w) + tx - (cs * ((1#2) * l) - sn * (-(1#2) * w) + tx)) *
                 (y - (sn * ((1#2) * l) + cs * (-(1#2) * w) + ty)) -
                 (sn * (-(1#2) * l) + cs * (-(1#2) * w) + ty - (sn * ((1#2) * l) + cs * (-(1#2) * w) + ty)) *
                 (x - (cs * ((1#2) * l) - sn * (-(1#2) * w) + tx))
                 == l * (- qy - (cs * cs + sn * sn) * ((1#2) * w))) by (unfold qy; ring).
    assert (E4 : (cs * (-(1#2) * l) - sn * (-(1#2) * w) + tx - (cs * (-(1#2) * l) - sn * (-(1#2) * w) + tx)) *
                 (y - (sn * (-(1#2) * l) + cs * (-(1#2) * w) + ty)) -
                 (sn * (-(1#2) * l) + cs * (-(1#2) * w) + ty - (sn * (-(1#2) * l) + cs * (-(1#2) * w) + ty)) *
                 (x - (cs * (-(1#2) * l) - sn * (-(1#2) * w) + tx))
                 == 0) by ring.
    rewrite E0, E1, E2, E3, E4, Hcs.
    rewrite !mul_pos_sign by assumption.
    split; intro H; repeat split; try lra.
  Qed.
End Rect.

(* ---- rectangle, crossing-number form, orientation 0 (rotation_translation_matrix uses exactly
        cos = 1.0, sin = 0.0 in that case; it is the only rotation whose matrix is exact) *)
Lemma crosses_horiz a b p : py a == py b -> crosses a b p = false.
Proof.
  intro H. unfold crosses.
  destruct (Qlt_bool_spec (py p) (py a)); destruct (Qlt_bool_spec (py p) (py b)); simpl; try reflexivity;
    exfalso; lra.
Qed.

Lemma crosses_vert a b p : px a == px b ->
  crosses a b p = xorb (Qlt_bool (py p) (py a)) (Qlt_bool (py p) (py b)) && Qlt_bool (px p) (px a).
Proof.
  intro H. unfold crosses.
  assert (E : cross a b p == (py b - py a) * (px a - px p)).
  { unfold cross. setoid_replace (px b - px a) with 0 by lra. ring. }
  destruct (Qlt_bool_spec (py p) (py a)); destruct (Qlt_bool_spec (py p) (py b)); simpl; try reflexivity.
  - destruct (Qlt_bool_spec (cross a b p) 0); destruct (Qlt_bool_spec (px p) (px a)); try reflexivity;
      exfalso; rewrite E in *; nra.
  - destruct (Qlt_bool_spec 0 (cross a b p)); destruct (Qlt_bool_spec (px p) (px a)); try reflexivity;
      exfalso; rewrite E in *; nra.
Qed.

Lemma on_seg_sym a b p : on_seg a b p = on_seg b a p.
Proof.
  unfold on_seg.
  assert (E1 : cross b a p == - cross a b p) by (unfold cross; ring).
  assert (E2 : dotp b a p == dotp a b p) by (unfold dotp; ring).
  destruct (Qeq_bool_spec (cross a b p) 0); destruct (Qeq_bool_spec (cross b a p) 0);
    destruct (Qle_bool_spec (dotp a b p) 0); destruct (Qle_bool_spec (dotp b a p) 0);
    simpl; try reflexivity; exfalso; lra.
Qed.

Lemma bool_ext (b1 b2 : bool) : (b1 = true <-> b2 = true) -> b1 = b2.
Proof. destruct b1, b2; intros [H1 H2]; try reflexivity; [symmetry; apply H1 | apply H2]; reflexivity. Qed.

(* u = offset across the segment, s / t = offsets of the two ends along it, t - s = h >= 0 *)
Lemma seg_axis_core (u s t : Q) : s <= t ->
  ((t - s) * u == 0 /\ u * u + s * t <= 0) <-> (u == 0 /\ s <= 0 /\ 0 <= t).
Proof.
  intro Hst. split.
  - intros [Hc Hd].
    assert (Hu : u == 0).
    { destruct (Q_dec u 0) as [[Hlt|Hgt]|He]; [| |exact He]; exfalso.
      - assert (t - s == 0) by nra. assert (s * t == s * s) by nra. nra.
      - assert (t - s == 0) by nra. assert (s * t == s * s) by nra. nra. }
    split; [exact Hu|].
    assert (Hd' : s * t <= 0) by nra.
    split.
    + destruct (Qlt_le_dec 0 s) as [H|H]; [exfalso; nra | exact H].
    + destruct (Qlt_le_dec t 0) as [H|H]; [exfalso; nra | exact H].
  - intros [Hu [Hs Ht]]. split; nra.
Qed.

Lemma on_seg_vert a b p : px a == px b -> py a <= py b ->
  on_seg a b p = Qeq_bool (px p) (px a) && Qle_bool (py a) (py p) && Qle_bool (py p) (py b).
Proof.
  intros H Hy. apply bool_ext.
  rewrite on_seg_spec, !andb_true_iff, Qeq_bool_iff, !Qle_bool_iff.
  assert (E : cross a b p == ((py b - py p) - (py a - py p)) * (px a - px p)).
  { unfold cross. setoid_replace (px b - px a) with 0 by lra. ring. }
  assert (D : dotp a b p == (px a - px p) * (px a - px p) + (py a - py p) * (py b - py p)).
  { unfold dotp. setoid_replace (px b - px p) with (px a - px p) by lra. ring. }
  rewrite E, D, seg_axis_core by lra. split; intros; repeat split; lra.
Qed.

Lemma on_seg_horiz a b p : py a == py b -> px a <= px b ->
  on_seg a b p = Qeq_bool (py p) (py a) && Qle_bool (px a) (px p) && Qle_bool (px p) (px b).
Proof.
  intros H Hx. apply bool_ext.
  rewrite on_seg_spec, !andb_true_iff, Qeq_bool_iff, !Qle_bool_iff.
  assert (E : cross a b p == - (((px b - px p) - (px a - px p)) * (py a - py p))).
  { unfold cross. setoid_replace (py b - py a) with 0 by lra. ring. }
  assert (D : dotp a b p == (py a - py p) * (py a - py p) + (px a - px p) * (px b - px p)).
  { unfold dotp. setoid_replace (py b - py p) with (py a - py p) by lra. ring. }
  rewrite E, D.
  assert (X : forall z, - z == 0 <-> z == 0) by (intro z; split; intro; lra).
  rewrite X, seg_axis_core by lra. split; intros; repeat split; lra.
Qed.

Ltac split_atoms :=
  repeat match goal with
  | |- context[Qlt_bool ?a ?b] => destruct (Qlt_bool_spec a b); try (exfalso; lra)
  | |- context[Qle_bool ?a ?b] => destruct (Qle_bool_spec a b); try (exfalso; lra)
  | |- context[Qeq_bool ?a ?b] => destruct (Qeq_bool_spec a b); try (exfalso; lra)
  end.

Lemma rect_box_axis_lemma l w tx ty p : 0 < l -> 0 < w ->
  let R := {| rl := l; rw := w; rcx := tx; rcy := ty; rcs := 1; rsn := 0 |} in
  rect_contains R p = true <-> in_box R p.
Proof.
  intros Hl Hw R. destruct p as [x y].
  unfold rect_contains, rect_export, corners, local_corners, pip, on_boundary, odd_crossings, R. simpl.
  unfold rot_trans. simpl.
  set (v0 := (1 * (-(1#2) * l) - 0 * (-(1#2) * w) + tx, 0 * (-(1#2) * l) + 1 * (-(1#2) * w) + ty)).
  set (v1 := (1 * (-(1#2) * l) - 0 * ((1#2) * w) + tx, 0 * (-(1#2) * l) + 1 * ((1#2) * w) + ty)).
  set (v2 := (1 * ((1#2) * l) - 0 * ((1#2) * w) + tx, 0 * ((1#2) * l) + 1 * ((1#2) * w) + ty)).
  set (v3 := (1 * ((1#2) * l) - 0 * (-(1#2) * w) + tx, 0 * ((1#2) * l) + 1 * (-(1#2) * w) + ty)).
  rewrite (crosses_vert v0 v1) by (unfold v0, v1, px; simpl; ring).
  rewrite (crosses_horiz v1 v2) by (unfold v1, v2, py; simpl; ring).
  rewrite (crosses_vert v2 v3) by (unfold v2, v3, px; simpl; ring).
  rewrite (crosses_horiz v3 v0) by (unfold v3, v0, py; simpl; ring).
  rewrite (crosses_horiz v0 v0) by reflexivity.
  rewrite (on_seg_vert v0 v1) by (unfold v0, v1, px, py; simpl; lra).
  rewrite (on_seg_horiz v1 v2) by (unfold v1, v2, px, py; simpl; lra).
  rewrite (on_seg_sym v2 v3), (on_seg_vert v3 v2) by (unfold v2, v3, px, py; simpl; lra).
  rewrite (on_seg_sym v3 v0), (on_seg_horiz v0 v3) by (unfold v0, v3, px, py; simpl; lra).
  rewrite (on_seg_vert v0 v0) by (unfold px, py; simpl; lra).
  unfold in_box, to_local, v0, v1, v2, v3, px, py; simpl.
  split_atoms; simpl; (split; [intro H; try discriminate; repeat split; lra | intro H; try reflexivity; exfalso; lra]).
Qed.

(* ---- the lookups after any admissible history *)
Lemma find_by_spec ops pred : all_ok ops empty = true ->
  exists ids, find_by (run ops empty) pred = Ret ids /\
    forall i, In i ids <-> exists la, In la (lanelets (run ops empty)) /\ lid la = i /\ pred (pr (lpoly la)) = true.
Proof.
  intro H. exists (scan (run ops empty) pred). split.
  - apply find_by_scan. apply index_mirrors_lanelets_lemma. exact H.
  - intro i. apply scan_spec.
Qed.

Lemma find_by_position_spec ops p : all_ok ops empty = true ->
  exists ids, find_by_position (run ops empty) p = Ret ids /\
    forall i, In i ids <-> exists la, In la (lanelets (run ops empty)) /\ lid la = i /\ pip (pr (lpoly la)) p = true.
Proof. intro H. exact (find_by_spec ops (fun r => pip r p) H). Qed.

Lemma find_by_shape_spec ops meets : all_ok ops empty = true ->
  exists ids, find_by_shape (run ops empty) meets = Ret ids /\
    forall i, In i ids <-> exists la, In la (lanelets (run ops empty)) /\ lid la = i /\ meets (pr (lpoly la)) = true.
Proof. intro H. exact (find_by_spec ops meets H). Qed.
