(* Proofs/SrcInterval.v — the hand-written model Model/Interval.v (which the C16 theorems are about) equals, function
   by function, the Gallina text generated on every run from commonroad/common/util.py + validity.py by
   harness/vlib/py2coq.py (Gen/Src_util.v).  A semantic change of the Python source changes the generated text and
   breaks one of these lemmas. *)
From Coq Require Import QArith Qround ZArith Bool List Qminmax.
From CR Require Import Base.QMod Model.Interval Gen.Src_util.
Open Scope Q_scope.

Lemma src_mk_eq a b : src_mk a b = mk a b.
Proof. reflexivity. Qed.
Lemma src_contains_pt_eq I x : src_contains_pt I x = contains_pt I x.
Proof. reflexivity. Qed.
Lemma src_contains_itv_eq I J : src_contains_itv I J = contains_itv I J.
Proof. reflexivity. Qed.
Lemma src_in_pt_eq I x : src_in_pt I x = contains_pt I x.
Proof. reflexivity. Qed.
Lemma src_in_itv_eq I J : src_in_itv I J = contains_itv I J.
Proof. reflexivity. Qed.
Lemma src_overlaps_eq I J : src_overlaps I J = overlaps I J.
Proof. reflexivity. Qed.
Lemma src_length_eq I : src_length I = length I.
Proof. reflexivity. Qed.

(* intersection: the source returns None / an interval / raises; the model nests the two the other way round *)
Definition flip_res_opt (r : res (option itv)) : option (res itv) :=
  match r with Ok None => None | Ok (Some i) => Some (Ok i) | Err => Some Err end.
Lemma src_intersection_eq I J : flip_res_opt (src_intersection I J) = intersection I J.
Proof.
  unfold src_intersection, intersection, overlaps, mk.
  destruct (Qle_bool (lo J) (hi I) && Qle_bool (lo I) (hi J)); simpl; [|reflexivity].
  destruct (Qle_bool (Qmax (lo I) (lo J)) (Qmin (hi I) (hi J))); reflexivity.
Qed.

Lemma src_add_eq I c : src_add I c = add I c.
Proof. reflexivity. Qed.
Lemma src_sub_eq I c : src_sub I c = sub I c.
Proof. reflexivity. Qed.
Lemma src_mul_eq I c : src_mul I c = mul I c.
Proof. reflexivity. Qed.
(* float division by zero raises ZeroDivisionError in the source; the model's quotient is total (x / 0 = 0 in Q), so the
   two agree exactly for divisors <> 0 (the property's domain, DESIGN 2.7) and the source raises at 0 *)
Lemma src_div_eq I c : ~ c == 0 -> src_div I c = div I c.
Proof.
  intro Hc. unfold src_div, div. assert (E : Qeq_bool c 0 = false).
  { destruct (Qeq_bool c 0) eqn:E; [|reflexivity]. apply Qeq_bool_iff in E. contradiction. }
  rewrite E. destruct (Qlt_bool 0 c); reflexivity.
Qed.
Lemma src_div_zero I c : c == 0 -> src_div I c = Err.
Proof.
  intro Hc. unfold src_div. apply Qeq_bool_iff in Hc. rewrite Hc. destruct (Qlt_bool 0 c); reflexivity.
Qed.
Lemma src_round_eq I n : src_round I n = round n I.
Proof. reflexivity. Qed.
Lemma src_gt_num_eq I x : src_gt_num I x = gt_num I x.
Proof. unfold src_gt_num, gt_num. destruct (Qlt_bool x (lo I)); reflexivity. Qed.
Lemma src_gt_itv_eq I J : src_gt_itv I J = gt_itv I J.
Proof. unfold src_gt_itv, gt_itv. destruct (Qlt_bool (hi J) (lo I)); reflexivity. Qed.
Lemma src_lt_num_eq I x : src_lt_num I x = lt_num I x.
Proof. unfold src_lt_num, lt_num. destruct (Qlt_bool (hi I) x); reflexivity. Qed.
Lemma src_lt_itv_eq I J : src_lt_itv I J = lt_itv I J.
Proof. unfold src_lt_itv, lt_itv. destruct (Qlt_bool (hi I) (lo J)); reflexivity. Qed.

Section Angle.
  Variable tau : Q.

  Lemma src_valid_orientation_eq x : src_valid_orientation tau x = valid_orientation tau x.
  Proof. reflexivity. Qed.

  Lemma loop0_eq fuel : forall a, make_valid_orientation_loop0 tau fuel a = mvo_down tau fuel a.
  Proof. induction fuel as [|f IH]; intro a; simpl; [reflexivity|]. rewrite IH. reflexivity. Qed.
  Lemma loop1_eq fuel : forall a, make_valid_orientation_loop1 tau fuel a = mvo_up tau fuel a.
  Proof. induction fuel as [|f IH]; intro a; simpl; [reflexivity|]. rewrite IH. reflexivity. Qed.
  Lemma src_make_valid_orientation_eq fuel a :
    src_make_valid_orientation tau fuel a = make_valid_orientation tau fuel a.
  Proof.
    unfold src_make_valid_orientation, make_valid_orientation. rewrite loop0_eq.
    destruct (mvo_down tau fuel a) as [a1|]; [|reflexivity]. rewrite loop1_eq.
    destruct (mvo_up tau fuel a1); reflexivity.
  Qed.

  Lemma iloop0_eq fuel : forall a b, make_valid_orientation_interval_loop0 tau fuel a b = norm_down tau fuel a b.
  Proof. induction fuel as [|f IH]; intros a b; simpl; [reflexivity|]. rewrite IH. reflexivity. Qed.
  (* the second loop of the source tests angle_start twice ("a < -2pi or a < -2pi") *)
  Lemma iloop1_eq fuel : forall a b, make_valid_orientation_interval_loop1 tau fuel a b = norm_up tau fuel a b.
  Proof. induction fuel as [|f IH]; intros a b; simpl; [reflexivity|]. rewrite IH, ?orb_diag. reflexivity. Qed.
  Lemma src_normalise_eq fuel a b : src_normalise tau fuel a b = normalise tau fuel a b.
  Proof.
    unfold src_normalise, normalise. rewrite iloop0_eq.
    destruct (norm_down tau fuel a b) as [[a1 b1]|]; [|reflexivity]. rewrite iloop1_eq.
    destruct (norm_up tau fuel a1 b1) as [[a2 b2]|]; reflexivity.
  Qed.

  Lemma src_amk_eq fuel a b : src_amk tau fuel a b = amk tau fuel a b.
  Proof.
    unfold src_amk, amk, normalise. rewrite iloop0_eq.
    destruct (norm_down tau fuel a b) as [[a1 b1]|]; [|reflexivity]. rewrite iloop1_eq.
    destruct (norm_up tau fuel a1 b1) as [[a2 b2]|]; [|reflexivity].
    unfold valid_orientation, mk.
    destruct (Qlt_bool (b2 - a2) tau); simpl; [|reflexivity].
    destruct (Qle_bool (- tau) a2 && Qle_bool a2 tau); simpl; [|reflexivity].
    destruct (Qle_bool (- tau) b2 && Qle_bool b2 tau); simpl; [|reflexivity].
    destruct (Qle_bool a2 b2); reflexivity.
  Qed.

  Lemma src_acontains_eq I th : src_acontains tau I th = acontains tau I th.
  Proof. reflexivity. Qed.
  Lemma src_acontains_pt_eq I th : src_acontains_pt tau I th = acontains tau I th.
  Proof. reflexivity. Qed.
  Lemma src_acontains_itv_eq I J : src_acontains_itv tau I J = acontains_itv tau I J.
  Proof. reflexivity. Qed.
  Lemma src_acontains_plain_itv_eq I J : src_acontains_plain_itv tau I J = acontains_itv tau I J.
  Proof. reflexivity. Qed.
  Lemma src_aadd_eq fuel I c : src_aadd tau fuel I c = aadd tau fuel I c.
  Proof. unfold aadd. rewrite <- src_amk_eq. reflexivity. Qed.
  Lemma src_asub_eq fuel I c : src_asub tau fuel I c = asub tau fuel I c.
  Proof. unfold asub. rewrite <- src_amk_eq. reflexivity. Qed.
End Angle.
