(* Proofs/ArcLen.v — lemmas about Model/ArcLen.v (C20, arc-length part). *)
From Coq Require Import QArith Qabs ZArith Bool List Lia Lqa.
From CR Require Import Base.QMod Model.ArcLen.
Import ListNotations.
Open Scope Q_scope.

Fixpoint sumQ (l : list Q) : Q := match l with [] => 0 | x :: r => x + sumQ r end.

(* the oracle hypothesis on the segment lengths of polyline P *)
Definition valid_lens (P : list pt) (ls : list Q) : Prop :=
  Forall2 (fun d l => 0 <= l /\ l * l == norm2 d) (deltas P) ls.
Definition nonneg (ls : list Q) : Prop := Forall (fun l => 0 <= l) ls.
Definition positive (ls : list Q) : Prop := Forall (fun l => 0 < l) ls.
(* consecutive vertices distinct (the quantifier of C20) *)
Definition distinct_consecutive (P : list pt) : Prop := Forall (fun d => ~ norm2 d == 0) (deltas P).

Lemma valid_lens_nonneg P ls : valid_lens P ls -> nonneg ls.
Proof. unfold valid_lens, nonneg. induction 1; constructor; tauto. Qed.

Lemma valid_lens_length P ls : valid_lens P ls -> List.length ls = List.length (deltas P).
Proof. unfold valid_lens. induction 1; simpl; congruence. Qed.

Lemma deltas_length P : List.length (deltas P) = pred (List.length P).
Proof.
  induction P as [|a [|b r] IH]; simpl in *; auto.
Qed.

Lemma valid_lens_positive P ls : valid_lens P ls -> distinct_consecutive P -> positive ls.
Proof.
  unfold valid_lens, distinct_consecutive, positive. induction 1 as [|d y D l Hy HF IH]; intro HD; constructor.
  - inversion HD as [|? ? Hd HD']; subst. destruct Hy as [H1 H2].
    destruct (Qlt_le_dec 0 y) as [Q|Q]; auto. assert (E : y == 0) by lra. exfalso. apply Hd. rewrite <- H2, E. ring.
  - inversion HD; subst. auto.
Qed.

(* ------------------------------------------------------------------ cumulative distance *)
Lemma cum_length ls : List.length (cum ls) = S (List.length ls).
Proof.
  unfold cum. simpl. f_equal. generalize 0. induction ls; intros; simpl; auto.
Qed.

Lemma cumsum_from_nth ls : forall acc i, (i < List.length ls)%nat ->
  nth i (cumsum_from acc ls) 0 == acc + sumQ (firstn (S i) ls).
Proof.
  induction ls as [|x r IH]; intros acc i Hi; simpl in Hi; [lia|].
  destruct i as [|i].
  - simpl. destruct r; simpl; ring.
  - cbn [cumsum_from nth]. rewrite IH by lia. change (firstn (S (S i)) (x :: r)) with (x :: firstn (S i) r).
    cbn [sumQ]. ring.
Qed.

Lemma cum_nth ls i : (i <= List.length ls)%nat -> nth i (cum ls) 0 == sumQ (firstn i ls).
Proof.
  intro Hi. destruct i as [|i].
  - reflexivity.
  - unfold cum. simpl nth. rewrite cumsum_from_nth by lia. ring.
Qed.

Lemma last_nth {A} (l : list A) d : last l d = nth (pred (List.length l)) l d.
Proof.
  induction l as [|a l IH]; [reflexivity|]. destruct l as [|b r]; [reflexivity|].
  change (last (a :: b :: r) d) with (last (b :: r) d). rewrite IH. reflexivity.
Qed.

Lemma cum_head ls : hd 0 (cum ls) = 0.
Proof. reflexivity. Qed.

Lemma cum_last ls : last (cum ls) 0 == sumQ ls.
Proof.
  rewrite last_nth, cum_length. simpl pred. rewrite cum_nth by lia. rewrite firstn_all. reflexivity.
Qed.

Lemma sumQ_firstn_mono ls : nonneg ls -> forall i j, (i <= j)%nat -> sumQ (firstn i ls) <= sumQ (firstn j ls).
Proof.
  induction 1 as [|x r Hx Hr IH]; intros i j Hij.
  - rewrite !firstn_nil. lra.
  - destruct i as [|i].
    + simpl firstn at 1. simpl sumQ at 1. destruct j as [|j]; simpl; [lra|].
      specialize (IH 0%nat j (Nat.le_0_l _)). simpl in IH. lra.
    + destruct j as [|j]; [lia|]. simpl. specialize (IH i j). assert (i <= j)%nat by lia. specialize (IH H). lra.
Qed.

Lemma cum_monotone ls : nonneg ls -> forall i j, (i <= j)%nat -> (j <= List.length ls)%nat ->
  nth i (cum ls) 0 <= nth j (cum ls) 0.
Proof.
  intros Hn i j Hij Hj. rewrite !cum_nth by lia. apply sumQ_firstn_mono; assumption.
Qed.

Lemma sumQ_firstn_S ls : forall i, (i < List.length ls)%nat ->
  sumQ (firstn (S i) ls) == sumQ (firstn i ls) + nth i ls 0.
Proof.
  induction ls as [|x r IH]; intros i Hi; simpl in Hi; [lia|].
  destruct i as [|i].
  - simpl. destruct r; simpl; ring.
  - change (firstn (S (S i)) (x :: r)) with (x :: firstn (S i) r).
    change (firstn (S i) (x :: r)) with (x :: firstn i r). cbn [sumQ nth]. rewrite IH by lia. ring.
Qed.

Lemma cum_step ls i : (i < List.length ls)%nat ->
  nth (S i) (cum ls) 0 == nth i (cum ls) 0 + nth i ls 0.
Proof.
  intro Hi. rewrite !cum_nth by lia. apply sumQ_firstn_S. exact Hi.
Qed.

Lemma sumQ_app a b : sumQ (a ++ b) == sumQ a + sumQ b.
Proof. induction a; simpl; [ring | rewrite IHa; ring]. Qed.

Lemma sumQ_pos ls : positive ls -> ls <> [] -> 0 < sumQ ls.
Proof.
  intros Hp Hne. destruct ls as [|x r]; [congruence|]. inversion Hp; subst. simpl.
  assert (0 <= sumQ r).
  { clear -H2. induction H2; simpl; lra. }
  lra.
Qed.

Lemma positive_nonneg ls : positive ls -> nonneg ls.
Proof. unfold positive, nonneg. induction 1; constructor; auto; lra. Qed.

Lemma positive_nth ls i : positive ls -> (i < List.length ls)%nat -> 0 < nth i ls 0.
Proof.
  intros Hp Hi. unfold positive in Hp. rewrite Forall_forall in Hp. apply Hp. apply nth_In. exact Hi.
Qed.

(* ------------------------------------------------------------------ searchsorted *)
Lemma searchsorted_lt a v : forall i, (i < searchsorted a v)%nat -> nth i a 0 < v.
Proof.
  induction a as [|x r IH]; intros i Hi; simpl in Hi; [lia|].
  destruct (Qlt_bool x v) eqn:E; [|lia].
  destruct i as [|i]; simpl.
  - apply Qlt_bool_iff. exact E.
  - apply IH. lia.
Qed.

Lemma searchsorted_le_length a v : (searchsorted a v <= List.length a)%nat.
Proof. induction a as [|x r IH]; simpl; [lia|]. destruct (Qlt_bool x v); lia. Qed.

Lemma searchsorted_ge a v : (searchsorted a v < List.length a)%nat -> v <= nth (searchsorted a v) a 0.
Proof.
  induction a as [|x r IH]; simpl; intro H; [lia|].
  destruct (Qlt_bool x v) eqn:E.
  - apply IH. lia.
  - simpl. destruct (Qlt_le_dec x v) as [L|L]; [|exact L].
    apply Qlt_bool_iff in L. congruence.
Qed.

Lemma searchsorted_bound a v j : v <= nth j a 0 -> (j < List.length a)%nat -> (searchsorted a v <= j)%nat.
Proof.
  intros H Hj. destruct (le_lt_dec (searchsorted a v) j) as [L|L]; [exact L|].
  pose proof (searchsorted_lt a v j L). lra.
Qed.

(* ------------------------------------------------------------------ indexing *)
Lemma py_nth_nat {A} (a : list A) i d : (i < List.length a)%nat -> py_nth a (Z.of_nat i) = Some (nth i a d).
Proof.
  intro Hi. unfold py_nth.
  replace (Z.of_nat i <? - Z.of_nat (List.length a))%Z with false by (symmetry; apply Z.ltb_ge; lia).
  replace (Z.of_nat (List.length a) <=? Z.of_nat i)%Z with false by (symmetry; apply Z.leb_gt; lia).
  simpl. replace (Z.of_nat i <? 0)%Z with false by (symmetry; apply Z.ltb_ge; lia).
  rewrite Nat2Z.id. apply nth_error_nth'. exact Hi.
Qed.

Lemma py_nth_minus1 {A} (a : list A) d : a <> [] -> py_nth a (-1) = Some (last a d).
Proof.
  intro Hne. unfold py_nth.
  assert (Hl : (0 < List.length a)%nat) by (destruct a; [congruence | simpl; lia]).
  replace (-1 <? - Z.of_nat (List.length a))%Z with false by (symmetry; apply Z.ltb_ge; lia).
  replace (Z.of_nat (List.length a) <=? -1)%Z with false by (symmetry; apply Z.leb_gt; lia).
  simpl orb. cbv iota. replace (-1 <? 0)%Z with true by reflexivity.
  replace (Z.to_nat (Z.of_nat (List.length a) + -1)) with (pred (List.length a)) by lia.
  rewrite (last_nth a d). apply nth_error_nth'. lia.
Qed.

Lemma fix_idx_here f d s i x : py_nth d i = Some x -> x <= s -> fix_idx (S f) d s i = Some i.
Proof. intros E H. simpl. rewrite E. apply Qle_bool_iff in H. rewrite H. reflexivity. Qed.

Lemma fix_idx_next f d s i x : py_nth d i = Some x -> s < x -> fix_idx (S f) d s i = fix_idx f d s (i + 1)%Z.
Proof. intros E H. simpl. rewrite E. apply Qle_bool_false in H. rewrite H. reflexivity. Qed.

(* ------------------------------------------------------------------ interpolate_position *)
Definition origin : pt := (0, 0, 0).

Lemma interpolate_at C R L ls s idx :
  (idx < List.length ls)%nat ->
  List.length C = S (List.length ls) -> List.length R = S (List.length ls) -> List.length L = S (List.length ls) ->
  s <= last (cum ls) 0 -> 0 <= s ->
  fix_idx (S (S (List.length (cum ls)))) (cum ls) s (Z.of_nat (searchsorted (cum ls) s) - 1)%Z = Some (Z.of_nat idx) ->
  0 < nth idx ls 0 ->
  let r := (s - nth idx (cum ls) 0) / (nth (S idx) (cum ls) 0 - nth idx (cum ls) 0) in
  interpolate C R L ls s =
  IOk (lerp r (nth idx C origin) (nth (S idx) C origin)) (lerp r (nth idx R origin) (nth (S idx) R origin))
      (lerp r (nth idx L origin) (nth (S idx) L origin)) (Z.of_nat idx).
Proof.
  intros Hi HC HR HL Hs1 Hs0 Hfix Hpos r. unfold interpolate.
  apply Qle_bool_iff in Hs1. apply Qle_bool_iff in Hs0. rewrite Hs1, Hs0. simpl negb. cbv iota.
  rewrite Hfix.
  replace (Z.of_nat idx + 1)%Z with (Z.of_nat (S idx)) by lia.
  rewrite (py_nth_nat (cum ls) idx 0) by (rewrite cum_length; lia).
  rewrite (py_nth_nat (cum ls) (S idx) 0) by (rewrite cum_length; lia).
  rewrite (py_nth_nat C idx origin), (py_nth_nat C (S idx) origin) by lia.
  rewrite (py_nth_nat R idx origin), (py_nth_nat R (S idx) origin) by lia.
  rewrite (py_nth_nat L idx origin), (py_nth_nat L (S idx) origin) by lia.
  assert (E : Qeq_bool (nth (S idx) (cum ls) 0 - nth idx (cum ls) 0) 0 = false).
  { apply not_true_iff_false. intro H. apply Qeq_bool_iff in H. rewrite cum_step in H by exact Hi. lra. }
  rewrite E. reflexivity.
Qed.

(* interpolate_position(s) for 0 <= s <= length on a lanelet all of whose centre segments have positive length *)
Lemma interpolate_spec C R L ls s :
  ls <> [] -> positive ls ->
  List.length C = S (List.length ls) -> List.length R = S (List.length ls) -> List.length L = S (List.length ls) ->
  0 <= s -> s <= last (cum ls) 0 ->
  exists idx : nat, (idx < List.length ls)%nat /\
    let d0 := nth idx (cum ls) 0 in
    let d1 := nth (S idx) (cum ls) 0 in
    let r := (s - d0) / (d1 - d0) in
    interpolate C R L ls s =
      IOk (lerp r (nth idx C origin) (nth (S idx) C origin)) (lerp r (nth idx R origin) (nth (S idx) R origin))
          (lerp r (nth idx L origin) (nth (S idx) L origin)) (Z.of_nat idx) /\
    d0 <= s /\ s <= d1 /\
    r == (s - d0) / nth idx ls 0 /\ 0 <= r /\ r <= 1 /\ d0 + r * nth idx ls 0 == s.
Proof.
  intros Hne Hp HC HR HL Hs0 Hs1.
  assert (Hlen : (0 < List.length ls)%nat) by (destruct ls; [congruence | simpl; lia]).
  assert (Hnn := positive_nonneg ls Hp).
  set (k := searchsorted (cum ls) s).
  assert (Hk : (k <= List.length ls)%nat).
  { apply searchsorted_bound; [| rewrite cum_length; lia].
    rewrite last_nth, cum_length in Hs1. exact Hs1. }
  assert (Hfin : forall idx : nat, (idx < List.length ls)%nat ->
            fix_idx (S (S (List.length (cum ls)))) (cum ls) s (Z.of_nat k - 1)%Z = Some (Z.of_nat idx) ->
            nth idx (cum ls) 0 <= s -> s <= nth (S idx) (cum ls) 0 ->
            exists idx : nat, (idx < List.length ls)%nat /\
              let d0 := nth idx (cum ls) 0 in
              let d1 := nth (S idx) (cum ls) 0 in
              let r := (s - d0) / (d1 - d0) in
              interpolate C R L ls s =
                IOk (lerp r (nth idx C origin) (nth (S idx) C origin)) (lerp r (nth idx R origin) (nth (S idx) R origin))
                    (lerp r (nth idx L origin) (nth (S idx) L origin)) (Z.of_nat idx) /\
              d0 <= s /\ s <= d1 /\
              r == (s - d0) / nth idx ls 0 /\ 0 <= r /\ r <= 1 /\ d0 + r * nth idx ls 0 == s).
  { intros idx Hi Hfix Hlo Hhi. exists idx. split; [exact Hi|]. cbv zeta.
    pose proof (positive_nth ls idx Hp Hi) as Hl.
    pose proof (cum_step ls idx Hi) as Hst.
    split; [apply interpolate_at; auto|].
    split; [exact Hlo|]. split; [exact Hhi|].
    set (d0 := nth idx (cum ls) 0) in *. set (d1 := nth (S idx) (cum ls) 0) in *. set (l := nth idx ls 0) in *.
    assert (Ed : d1 - d0 == l) by lra.
    assert (Er : (s - d0) / (d1 - d0) == (s - d0) / l) by (rewrite Ed; reflexivity).
    split; [exact Er|]. rewrite Er.
    split; [apply Qle_shift_div_l; lra|]. split; [apply Qle_shift_div_r; lra|].
    field. lra. }
  destruct (Qlt_le_dec 0 s) as [Hpos | Hzero].
  - (* 0 < s: the prefix of elements < s is non-empty, idx = k - 1, no correction *)
    assert (Hk1 : (1 <= k)%nat).
    { unfold k, cum. simpl. apply Qlt_bool_iff in Hpos. rewrite Hpos. lia. }
    apply (Hfin (pred k)); [lia | | |].
    + replace (Z.of_nat k - 1)%Z with (Z.of_nat (pred k)) by lia.
      apply fix_idx_here with (x := nth (pred k) (cum ls) 0).
      * apply py_nth_nat. rewrite cum_length. lia.
      * apply Qlt_le_weak. apply searchsorted_lt. fold k. lia.
    + apply Qlt_le_weak. apply searchsorted_lt. fold k. lia.
    + replace (S (pred k)) with k by lia. apply searchsorted_ge. fold k. rewrite cum_length. lia.
  - (* s = 0: searchsorted gives 0, idx = -1 indexes the last element (the length, > 0), corrected to 0 *)
    assert (Hk0 : k = 0%nat).
    { unfold k, cum. simpl. destruct (Qlt_bool 0 s) eqn:E; [|reflexivity]. apply Qlt_bool_iff in E. lra. }
    apply (Hfin 0%nat); [lia | | |].
    + rewrite Hk0. change (Z.of_nat 0 - 1)%Z with (-1)%Z.
      rewrite (fix_idx_next _ _ _ _ (last (cum ls) 0)).
      * change (-1 + 1)%Z with (Z.of_nat 0). apply fix_idx_here with (x := 0); [|lra].
        rewrite (py_nth_nat (cum ls) 0 0) by (rewrite cum_length; lia). reflexivity.
      * apply py_nth_minus1. unfold cum. discriminate.
      * rewrite cum_last. pose proof (sumQ_pos ls Hp Hne). lra.
    + change (nth 0 (cum ls) 0) with 0. lra.
    + rewrite cum_step by lia. change (nth 0 (cum ls) 0) with 0.
      pose proof (positive_nth ls 0 Hp Hlen). lra.
Qed.

(* ------------------------------------------------------------------ merge_lanelets *)
Lemma isclose_refl x : isclose x x = true.
Proof.
  unfold isclose. apply Qle_bool_iff.
  assert (E : x - x == 0) by ring. rewrite E. simpl Qabs.
  pose proof (Qabs_nonneg x). unfold atol, rtol. change (Qabs 0) with 0. lra.
Qed.

Lemma pt_close_refl p : pt_close p p = true.
Proof. unfold pt_close. rewrite !isclose_refl. reflexivity. Qed.

Lemma skipn1 {A} (l : list A) : skipn 1 l = tl l.
Proof. destruct l; reflexivity. Qed.

(* l1 is the predecessor (l2.id in l1.successor), the left boundary of l2 starts where that of l1 ends *)
Lemma merge_spec l1 l2 :
  memZ (l_id l2) (l_succ l1) = true ->
  last (l_left l1) origin = hd origin (l_left l2) ->
  exists m, merge l1 l2 = MOk m /\
    l_left m = l_left l1 ++ tl (l_left l2) /\
    l_center m = l_center l1 ++ tl (l_center l2) /\
    l_right m = l_right l1 ++ tl (l_right l2) /\
    l_pred m = l_pred l1 /\ l_succ m = l_succ l2.
Proof.
  intros Hs Hj. unfold merge. rewrite Hs. unfold origin in Hj.
  destruct (memZ (l_id l1) (l_succ l2)), (memZ (l_id l1) (l_pred l2)), (memZ (l_id l2) (l_pred l1));
    cbn [orb negb]; rewrite Hj, pt_close_refl;
    (eexists; split; [reflexivity|]; cbn [l_left l_center l_right l_pred l_succ]; rewrite !skipn1; repeat split).
Qed.

(* the pair may be given in either order *)
Lemma merge_spec_swapped l1 l2 :
  memZ (l_id l2) (l_succ l1) = true ->
  memZ (l_id l2) (l_pred l1) = false -> memZ (l_id l1) (l_succ l2) = false ->
  last (l_left l1) origin = hd origin (l_left l2) ->
  exists m, merge l2 l1 = MOk m /\
    l_left m = l_left l1 ++ tl (l_left l2) /\
    l_center m = l_center l1 ++ tl (l_center l2) /\
    l_right m = l_right l1 ++ tl (l_right l2) /\
    l_pred m = l_pred l1 /\ l_succ m = l_succ l2.
Proof.
  intros Hs Hp Hs2 Hj. unfold merge. rewrite Hs, Hp, Hs2. unfold origin in Hj.
  destruct (memZ (l_id l1) (l_pred l2));
    cbn [orb negb]; rewrite Hj, pt_close_refl;
    (eexists; split; [reflexivity|]; cbn [l_left l_center l_right l_pred l_succ]; rewrite !skipn1; repeat split).
Qed.

Lemma merge_not_connected l1 l2 :
  memZ (l_id l1) (l_succ l2) = false -> memZ (l_id l2) (l_succ l1) = false ->
  memZ (l_id l1) (l_pred l2) = false -> memZ (l_id l2) (l_pred l1) = false -> merge l1 l2 = MAssert.
Proof. intros A B C D. unfold merge. rewrite A, B, C, D. reflexivity. Qed.

Lemma deltas_app P : forall S', P <> [] -> S' <> [] -> last P origin = hd origin S' ->
  deltas (P ++ tl S') = deltas P ++ deltas S'.
Proof.
  induction P as [|a [|b r] IH]; intros S' HP HS Hj; [congruence | |].
  - destruct S' as [|c t]; [congruence|]. simpl in Hj. subst c. reflexivity.
  - change ((a :: b :: r) ++ tl S') with (a :: (b :: r) ++ tl S').
    change (deltas (a :: (b :: r) ++ tl S')) with ((px b - px a, py b - py a, pz b - pz a) :: deltas ((b :: r) ++ tl S')).
    rewrite IH; [reflexivity | discriminate | exact HS | exact Hj].
Qed.

Lemma len_unique l l' n : 0 <= l -> 0 <= l' -> l * l == n -> l' * l' == n -> l == l'.
Proof.
  intros H0 H0' H H'.
  destruct (Qlt_le_dec l l') as [A|A]; [exfalso; nra|].
  destruct (Qlt_le_dec l' l) as [B|B]; [exfalso; nra|]. lra.
Qed.

Lemma valid_lens_sum_unique D : forall ls ls',
  Forall2 (fun d l => 0 <= l /\ l * l == norm2 d) D ls ->
  Forall2 (fun d l => 0 <= l /\ l * l == norm2 d) D ls' -> sumQ ls == sumQ ls'.
Proof.
  induction D as [|d D IH]; intros ls ls' H H'; inversion H; inversion H'; subst; simpl; [reflexivity|].
  rewrite (IH _ _ H4 H9).
  destruct H2, H7. rewrite (len_unique y y0 (norm2 d)); auto. reflexivity.
Qed.

(* length of the merged centre line = sum of the parts, for whatever valid length oracles *)
Lemma merge_length Cp Cs lp ls lm :
  Cp <> [] -> Cs <> [] -> last Cp origin = hd origin Cs ->
  valid_lens Cp lp -> valid_lens Cs ls -> valid_lens (Cp ++ tl Cs) lm ->
  last (cum lm) 0 == last (cum lp) 0 + last (cum ls) 0.
Proof.
  intros HP HS Hj Vp Vs Vm. rewrite !cum_last.
  unfold valid_lens in *. rewrite (deltas_app Cp Cs HP HS Hj) in Vm.
  assert (Vc : Forall2 (fun d l => 0 <= l /\ l * l == norm2 d) (deltas Cp ++ deltas Cs) (lp ++ ls))
    by (apply Forall2_app; assumption).
  rewrite (valid_lens_sum_unique _ _ _ Vm Vc). apply sumQ_app.
Qed.

(* valid lengths of the same polyline agree prefix sum by prefix sum *)
Lemma valid_lens_prefix_unique D : forall ls ls' i,
  Forall2 (fun d l => 0 <= l /\ l * l == norm2 d) D ls ->
  Forall2 (fun d l => 0 <= l /\ l * l == norm2 d) D ls' -> sumQ (firstn i ls) == sumQ (firstn i ls').
Proof.
  induction D as [|d D IH]; intros ls ls' i H H'; inversion H; inversion H'; subst; [reflexivity|].
  destruct i as [|i]; [reflexivity|]. cbn [firstn sumQ].
  rewrite (IH _ _ i H4 H9).
  destruct H2, H7. rewrite (len_unique y y0 (norm2 d)); auto. reflexivity.
Qed.

Lemma Forall2_len {A B} (P : A -> B -> Prop) a b : Forall2 P a b -> List.length a = List.length b.
Proof. induction 1; simpl; congruence. Qed.

(* the cumulative distance of the merged lanelet (recomputed from ITS centre line, for whatever valid length
   oracle) is, entry by entry, the predecessor's cumulative distance followed by the successor's shifted by the
   predecessor's length — whichever of the two was passed first *)
Lemma merge_distance Cp Cs lp ls lm :
  Cp <> [] -> Cs <> [] -> last Cp origin = hd origin Cs ->
  valid_lens Cp lp -> valid_lens Cs ls -> valid_lens (Cp ++ tl Cs) lm ->
  List.length (cum lm) = (List.length (cum lp) + List.length ls)%nat /\
  (forall i, (i <= List.length lp)%nat -> nth i (cum lm) 0 == nth i (cum lp) 0) /\
  (forall j, (j <= List.length ls)%nat ->
     nth (List.length lp + j) (cum lm) 0 == last (cum lp) 0 + nth j (cum ls) 0).
Proof.
  intros HP HS Hj Vp Vs Vm.
  unfold valid_lens in *. rewrite (deltas_app Cp Cs HP HS Hj) in Vm.
  assert (Vc : Forall2 (fun d l => 0 <= l /\ l * l == norm2 d) (deltas Cp ++ deltas Cs) (lp ++ ls))
    by (apply Forall2_app; assumption).
  assert (Hlen : List.length lm = (List.length lp + List.length ls)%nat).
  { rewrite <- app_length. transitivity (List.length (deltas Cp ++ deltas Cs)).
    - symmetry. eapply Forall2_len. exact Vm.
    - eapply Forall2_len. exact Vc. }
  split; [rewrite !cum_length; lia|]. split.
  - intros i Hi. rewrite !cum_nth by lia.
    rewrite (valid_lens_prefix_unique _ _ _ i Vm Vc). rewrite firstn_app.
    replace (i - List.length lp)%nat with 0%nat by lia. rewrite firstn_O, app_nil_r. reflexivity.
  - intros j Hjl. rewrite cum_last, !cum_nth by lia.
    rewrite (valid_lens_prefix_unique _ _ _ (List.length lp + j) Vm Vc). rewrite firstn_app_2.
    apply sumQ_app.
Qed.
