(* Proofs/PbEnums.v — side conditions on the GENERATED protobuf enum tables (vm_compute) and the
   resulting transport theorem for every enum of the format. *)
From Coq Require Import ZArith String List Bool.
From CR Require Import Model.EnumName Proofs.EnumName Gen.PbEnums.
Import ListNotations.
Open Scope string_scope.

Lemma all_tables_distinct : forallb (fun row => numbers_distinct (snd row)) pb_enums = true.
Proof. vm_compute. reflexivity. Qed.

Theorem enum_transport : forall ename t, In (ename, t) pb_enums ->
  forall member z, encode t member = Some z -> decode t z = Some member.
Proof.
  intros ename t Hin. pose proof all_tables_distinct as H. rewrite forallb_forall in H.
  specialize (H _ Hin). simpl in H. apply decode_encode. exact H.
Qed.

(* which Python members cannot be transported (the admissible domain of C02 excludes exactly these) *)
Definition untransportable : list (string * string) :=
  flat_map (fun row : string * list string =>
              let (ename, members) := row in
              match find (fun r => String.eqb (fst r) ename) pb_enums with
              | Some (_, t) => map (fun m => (ename, m)) (filter (fun m => match encode t m with None => true | _ => false end) members)
              | None => map (fun m => (ename, m)) members
              end) py_enums.
