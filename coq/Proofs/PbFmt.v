(* Proofs/PbFmt.v — facts about the GENERATED protobuf format tables (Gen/PbFmt.v), the concrete ones closed by
   vm_compute on the tables of this run (re-proved against what the source says now), the generic ones by
   induction over tables. *)
From Coq Require Import QArith ZArith String List Bool Lia.
From CR Require Import Model.Codec Proofs.Codec Model.PbDesc Model.EnumName Gen.PbEnums Gen.PbFmt.
Import ListNotations.
Open Scope string_scope.
Open Scope list_scope.

(* paths (field names from the root) at which two tables differ *)
Fixpoint tdiff (a b : fmt) {struct a} : list (list string) :=
  match a, b with
  | FLeaf k, FLeaf k' => if akind_eqb k k' then [] else [[]]
  | FRec fs, FRec fs' => tdiff_fields fs fs'
  | FAny al, FAny al' => tdiff_alts al al'
  | _, _ => [[]]
  end
with tdiff_fields (a b : fields) {struct a} : list (list string) :=
  match a, b with
  | FNil, FNil => []
  | FCons t m f r, FCons t' m' f' r' =>
      (if String.eqb t t' && mult_eqb m m' then map (cons t) (tdiff f f') else [[t]]) ++ tdiff_fields r r'
  | _, _ => [["<length>"]]
  end
with tdiff_alts (a b : alts) {struct a} : list (list string) :=
  match a, b with
  | ANil, ANil => []
  | ACons t f r, ACons t' f' r' =>
      (if String.eqb t t' then map (cons t) (tdiff f f') else [[t]]) ++ tdiff_alts r r'
  | _, _ => [["<length>"]]
  end.

Lemma tdiff_nil_eq :
  (forall a b, tdiff a b = [] -> a = b) /\ (forall a b, tdiff_fields a b = [] -> a = b) /\
  (forall a b, tdiff_alts a b = [] -> a = b).
Proof.
  apply fmt_mutind.
  - intros k b H. destruct b; simpl in H; try discriminate.
    destruct k, k0; simpl in H; try discriminate; reflexivity.
  - intros fs IH b H. destruct b; simpl in H; try discriminate. f_equal. apply IH. exact H.
  - intros al IH b H. destruct b; simpl in H; try discriminate. f_equal. apply IH. exact H.
  - intros b H. destruct b; simpl in H; [reflexivity|discriminate].
  - intros t m f IHf r IHr b H. destruct b as [|t' m' f' r']; simpl in H; [discriminate|].
    apply app_eq_nil in H. destruct H as [H1 H2].
    destruct (String.eqb t t') eqn:Et; simpl in H1; [|discriminate].
    destruct (mult_eqb m m') eqn:Em; simpl in H1; [|discriminate].
    apply String.eqb_eq in Et. subst t'.
    assert (m = m') by (destruct m, m'; simpl in Em; congruence). subst m'.
    assert (tdiff f f' = []) by (destruct (tdiff f f'); [reflexivity|discriminate]).
    rewrite (IHf _ H), (IHr _ H2). reflexivity.
  - intros b H. destruct b; simpl in H; [reflexivity|discriminate].
  - intros t f IHf r IHr b H. destruct b as [|t' f' r']; simpl in H; [discriminate|].
    apply app_eq_nil in H. destruct H as [H1 H2].
    destruct (String.eqb t t') eqn:Et; simpl in H1; [|discriminate].
    apply String.eqb_eq in Et. subst t'.
    assert (tdiff f f' = []) by (destruct (tdiff f f'); [reflexivity|discriminate]).
    rewrite (IHf _ H), (IHr _ H2). reflexivity.
Qed.

(* a reader table without difference to a well-formed writer table reads back whatever was written *)
Lemma agreeing_roundtrip w r : tdiff w r = [] -> wf w = true ->
  forall tag v t, write w tag v = Some t -> read r t = Some v.
Proof.
  intros Hd Hwf tag v t H. destruct tdiff_nil_eq as [E _]. rewrite <- (E _ _ Hd). eapply roundtrip; eauto.
Qed.

(* ---------------------------------------------------------------- the tables of this run *)
Lemma writer_table_wf : wf W.pb_root = true.
Proof. vm_compute. reflexivity. Qed.

Lemma reader_table_wf : wf R.pb_root = true.
Proof. vm_compute. reflexivity. Qed.

(* what the reader consumes is, field by field, what the writer fills: same names, same presence discipline,
   same leaf kinds, for every message kind of the document *)
Lemma tables_agree : tdiff W.pb_root R.pb_root = [].
Proof. vm_compute. reflexivity. Qed.

Lemma document_roundtrip : forall v t, write W.pb_root "CommonRoad" v = Some t -> read R.pb_root t = Some v.
Proof. intros v t. apply agreeing_roundtrip; [exact tables_agree | exact writer_table_wf]. Qed.

Lemma document_injective : forall v1 v2 t,
  write W.pb_root "CommonRoad" v1 = Some t -> write W.pb_root "CommonRoad" v2 = Some t -> v1 = v2.
Proof. intros v1 v2 t. apply write_injective. exact writer_table_wf. Qed.

(* both tables are legal uses of the shipped message types *)
Lemma writer_tables_conform : conforms pb_desc pb_ignored W.records = true.
Proof. vm_compute. reflexivity. Qed.
Lemma reader_tables_conform : conforms pb_desc pb_ignored R.records = true.
Proof. vm_compute. reflexivity. Qed.

(* every enum-typed field of the tables is enum-typed in the descriptor, with an enum whose table was generated
   into Gen/PbEnums.v and has pairwise distinct numbers (so the transport theorem applies to it) *)
Definition enum_field_ok (e : string * string * string) : bool :=
  let '(mname, fname, ename) := e in
  match lookup mname pb_desc with
  | Some dfs => match find_field fname dfs with
                | Some p => match pf_type p with PEnum n => String.eqb n ename | _ => false end
                | None => false
                end
  | None => false
  end &&
  match lookup ename pb_enums with Some t => numbers_distinct t | None => false end.

Lemma enum_fields_known : forallb enum_field_ok pb_enum_fields = true.
Proof. vm_compute. reflexivity. Qed.


(* ---------------------------------------------------------------- what a deviation would mean (sensitivity) *)
(* a reader that consumed an optional field WITHOUT HasField is a table with MReq there; the difference is
   reported by tdiff, and an object without the optional datum is then not read back *)
Definition rectangle_unguarded : fmt :=
  FRec (FCons "length" MReq (FLeaf KNum) (FCons "width" MReq (FLeaf KNum)
       (FCons "center" MOpt R.f_Point (FCons "orientation" MReq (FLeaf KNum) FNil)))).
Definition plain_rectangle : val := VRec [VAtom (ANum (2#1)); VAtom (ANum (1#1)); VNone; VNone].

Lemma unguarded_read_detected : tdiff W.f_Rectangle rectangle_unguarded = [["orientation"]].
Proof. vm_compute. reflexivity. Qed.
Lemma unguarded_read_refuted : exists t, write W.f_Rectangle "rectangle" plain_rectangle = Some t /\
                                          read R.f_Rectangle t = Some plain_rectangle /\
                                          read rectangle_unguarded t = None.
Proof. eexists. split; [vm_compute; reflexivity|]. split; vm_compute; reflexivity. Qed.
