(* Proofs/PbFmt.v — facts about the GENERATED protobuf format tables (Gen/PbFmt.v), the concrete ones closed by
   vm_compute on the tables of this run (re-proved against what the source says now), the generic ones by
   induction over tables. *)
From Coq Require Import QArith ZArith String List Bool Lia.
From CR Require Import Model.Codec Proofs.Codec Model.PbDesc Model.EnumName Gen.PbEnums Gen.PbFmt.
Import ListNotations.
Open Scope string_scope.
Open Scope list_scope.

(* paths (field names from the root) at which two tables differ *)
Fixpoint tdiff (a b : fmt) {struct a} : list (list string) :=
  match a, b with
  | FLeaf k, FLeaf k' => if akind_eqb k k' then [] else [[]]
  | FRec fs, FRec fs' => tdiff_fields fs fs'
  | FAny al, FAny al' => tdiff_alts al al'
  | _, _ => [[]]
  end
with tdiff_fields (a b : fields) {struct a} : list (list string) :=
  match a, b with
  | FNil, FNil => []
  | FCons t m f r, FCons t' m' f' r' =>
      (if String.eqb t t' && mult_eqb m m' then map (cons t) (tdiff f f') else [[t]]) ++ tdiff_fields r r'
  | _, _ => [["<length>"]]
  end
with tdiff_alts (a b : alts) {struct a} : list (list string) :=
  match a, b with
  | ANil, ANil => []
  | ACons t f r, ACons t' f' r' =>
      (if String.eqb t t' then map (cons t) (tdiff f f') else [[t]]) ++ tdiff_alts r r'
  | _, _ => [["<length>"]]
  end.

Lemma tdiff_nil_eq :
  (forall a b, tdiff a b = [] -> a = b) /\ (forall a b, tdiff_fields a b = [] -> a = b) /\
  (forall a b, tdiff_alts a b = [] -> a = b).
Proof.
  apply fmt_mutind.
  - intros k b H. destruct b; simpl in H; try discriminate.
    destruct k, k0; simpl in H; try discriminate; reflexivity.
  - intros fs IH b H. destruct b; simpl in H; try discriminate. f_equal. apply IH. exact H.
  - intros al IH b H. destruct b; simpl in H; try discriminate. f_equal. apply IH. exact H.
  - intros b H. destruct b; simpl in H; [reflexivity|discriminate].
  - intros t m f IHf r IHr b H. destruct b as [|t' m' f' r']; simpl in H; [discriminate|].
    apply app_eq_nil in H. destruct H as [H1 H2].
    destruct (String.eqb t t') eqn:Et; simpl in H1; [|discriminate].
    destruct (mult_eqb m m') eqn:Em; simpl in H1; [|discriminate].
    apply String.eqb_eq in Et. subst t'.
    assert (m = m') by (destruct m, m'; simpl in Em; congruence). subst m'.
    assert (tdiff f f' = []) by (destruct (tdiff f f'); [reflexivity|discriminate]).
    rewrite (IHf _ H), (IHr _ H2). reflexivity.
  - intros b H. destruct b; simpl in H; [reflexivity|discriminate].
  - intros t f IHf r IHr b H. destruct b as [|t' f' r']; simpl in H; [discriminate|].
    apply app_eq_nil in H. destruct H as [H1 H2].
    destruct (String.eqb t t') eqn:Et; simpl in H1; [|discriminate].
    apply String.eqb_eq in Et. subst t'.
    assert (tdiff f f' = []) by (destruct (tdiff f f'); [reflexivity|discriminate]).
    rewrite (IHf _ H), (IHr _ H2). reflexivity.
Qed.

(* a reader table without difference to a well-formed writer table reads back whatever was written *)
Lemma agreeing_roundtrip w r : tdiff w r = [] -> wf w = true ->
  forall tag v t, write w tag v = Some t -> read r t = Some v.
Proof.
  intros Hd Hwf tag v t H. destruct tdiff_nil_eq as [E _]. rewrite <- (E _ _ Hd). eapply roundtrip; eauto.
Qed.

(* ---------------------------------------------------------------- the tables of this run *)
Lemma writer_table_wf : wf W.pb_root = true.
Proof. vm_compute. reflexivity. Qed.

Lemma reader_table_wf : wf R.pb_root = true.
Proof. vm_compute. reflexivity. Qed.

(* what the reader consumes is, field by field, what the writer fills: same names, same presence discipline,
   same leaf kinds, for every message kind of the document *)
Lemma tables_agree : tdiff W.pb_root R.pb_root = [].
Proof. vm_compute. reflexivity. Qed.

Lemma document_roundtrip : forall v t, write W.pb_root "CommonRoad" v = Some t -> read R.pb_root t = Some v.
Proof. intros v t. apply agreeing_roundtrip; [exact tables_agree | exact writer_table_wf]. Qed.

Lemma document_injective : forall v1 v2 t,
  write W.pb_root "CommonRoad" v1 = Some t -> write W.pb_root "CommonRoad" v2 = Some t -> v1 = v2.
Proof. intros v1 v2 t. apply write_injective. exact writer_table_wf. Qed.

(* both tables are legal uses of the shipped message types *)
Lemma writer_tables_conform : conforms pb_desc pb_ignored W.records = true.
Proof. vm_compute. reflexivity. Qed.
Lemma reader_tables_conform : conforms pb_desc pb_ignored R.records = true.
Proof. vm_compute. reflexivity. Qed.

(* every enum-typed field of the tables is enum-typed in the descriptor, with an enum whose table was generated
   into Gen/PbEnums.v and has pairwise distinct numbers (so the transport theorem applies to it) *)
Definition enum_field_ok (e : string * string * string) : bool :=
  let '(mname, fname, ename) := e in
  match lookup mname pb_desc with
  | Some dfs => match find_field fname dfs with
                | Some p => match pf_type p with PEnum n => String.eqb n ename | _ => false end
                | None => false
                end
  | None => false
  end &&
  match lookup ename pb_enums with Some t => numbers_distinct t | None => false end.

Lemma enum_fields_known : forallb enum_field_ok pb_enum_fields = true.
Proof. vm_compute. reflexivity. Qed.


(* ---------------------------------------------------------------- what a deviation would mean (sensitivity) *)
(* a reader that consumed an optional field WITHOUT HasField is a table with MReq there; the difference is
   reported by tdiff, and an object without the optional datum is then not read back *)
Definition rectangle_unguarded : fmt :=
  FRec (FCons "length" MReq (FLeaf KNum) (FCons "width" MReq (FLeaf KNum)
       (FCons "center" MOpt R.f_Point (FCons "orientation" MReq (FLeaf KNum) FNil)))).
Definition plain_rectangle : val := VRec [VAtom (ANum (2#1)); VAtom (ANum (1#1)); VNone; VNone].

Lemma unguarded_read_detected : tdiff W.f_Rectangle rectangle_unguarded = [["orientation"]].
Proof. vm_compute. reflexivity. Qed.
Lemma unguarded_read_refuted : exists t, write W.f_Rectangle "rectangle" plain_rectangle = Some t /\
                                          read R.f_Rectangle t = Some plain_rectangle /\
                                          read rectangle_unguarded t = None.
Proof. eexists. split; [vm_compute; reflexivity|]. split; vm_compute; reflexivity. Qed.

(* ---------------------------------------------------------------- conforms => the runtime accepts what is written *)
Lemma write_tag f : wf f = true -> forall tag v t, write f tag v = Some t -> tag_of t = tag.
Proof. intros Hwf tag v t H. destruct codec_mutual as [Hf _]. exact (proj2 (Hf f Hwf tag v t H)). Qed.

Lemma mapM_tags f (Hwf : wf f = true) tag : forall l ks, mapM (write f tag) l = Some ks ->
  forall x, In x ks -> tag_of x = tag.
Proof.
  induction l as [|a l IH]; intros ks H x Hx; simpl in H.
  - inversion H; subst. destruct Hx.
  - destruct (write f tag a) as [y|] eqn:Ey; [|discriminate].
    destruct (mapM (write f tag) l) as [ys|] eqn:Eys; [|discriminate].
    inversion H; subst. destruct Hx as [Hx|Hx].
    + subst. eapply write_tag; eauto.
    + eapply IH; eauto.
Qed.

(* the children one field contributes *)
Definition group (m : mult) (f : fmt) (t : string) (v : val) : option (list tree) :=
  match m, v with
  | MReq, _ => match write f t v with Some x => Some [x] | None => None end
  | MOpt, VNone => Some []
  | MOpt, VSome v' => match write f t v' with Some x => Some [x] | None => None end
  | MMany, VList l => mapM (write f t) l
  | _, _ => None
  end.

Lemma write_fields_cons t m f r v vs : write_fields (FCons t m f r) (v :: vs) =
  match group m f t v, write_fields r vs with Some g, Some ks => Some (g ++ ks) | _, _ => None end.
Proof. reflexivity. Qed.

Lemma group_shape m f t v g : wf f = true -> group m f t v = Some g ->
  (forall x, In x g -> tag_of x = t) /\
  match m with MReq => length g = 1%nat | MOpt => (length g <= 1)%nat | MMany => True end.
Proof.
  intros Hwf H. destruct m; simpl in H.
  - destruct (write f t v) as [x|] eqn:E; [|discriminate]. inversion H; subst. split; [|reflexivity].
    intros y [Hy|[]]. subst. eapply write_tag; eauto.
  - destruct v; try discriminate.
    + inversion H; subst. split; [intros y []|simpl; lia].
    + destruct (write f t v) as [x|] eqn:E; [|discriminate]. inversion H; subst. split; [|simpl; lia].
      intros y [Hy|[]]. subst. eapply write_tag; eauto.
  - destruct v; try discriminate. split; [|exact I]. eapply mapM_tags; eauto.
Qed.

Lemma count_all t g : (forall x, In x g -> tag_of x = t) -> count_tag t g = length g.
Proof. intro H. unfold count_tag. rewrite findall_all; auto. Qed.
Lemma count_none t g : (forall x, In x g -> tag_of x <> t) -> count_tag t g = 0%nat.
Proof. intro H. unfold count_tag. rewrite findall_none; auto. Qed.
Lemma count_app t a b : count_tag t (a ++ b) = (count_tag t a + count_tag t b)%nat.
Proof. unfold count_tag. rewrite findall_app, app_length. reflexivity. Qed.

Lemma mult_of_none t fs : mult_of t fs = None -> ~ In t (field_tags fs).
Proof.
  induction fs as [|t' m f r IH]; simpl; intros H; [tauto|].
  destruct (String.eqb t t') eqn:E; [discriminate|]. apply String.eqb_neq in E.
  intros [H1|H1]; [congruence|]. exact (IH H H1).
Qed.
Lemma mult_of_in t fs m : mult_of t fs = Some m -> In t (field_tags fs).
Proof.
  induction fs as [|t' m' f r IH]; simpl; intros H; [discriminate|].
  destruct (String.eqb t t') eqn:E.
  - apply String.eqb_eq in E. left. congruence.
  - right. exact (IH H).
Qed.

(* tags of the children are field names; a required field contributes exactly one child, an optional one at most one *)
Lemma write_fields_shape : forall fs, wf_fields fs = true -> distinct (field_tags fs) = true ->
  forall vs ks, write_fields fs vs = Some ks ->
    (forall x, In x ks -> In (tag_of x) (field_tags fs)) /\
    (forall t, mult_of t fs = Some MReq -> count_tag t ks = 1%nat) /\
    (forall t, mult_of t fs = Some MOpt -> (count_tag t ks <= 1)%nat).
Proof.
  induction fs as [|t m f r IH]; intros Hwf Hd vs ks H.
  - destruct vs; simpl in H; [|discriminate]. inversion H; subst.
    split; [intros x []|]. split; intros t0 H0; discriminate.
  - destruct vs as [|v vs']; [simpl in H; discriminate|].
    rewrite write_fields_cons in H.
    simpl in Hwf. apply andb_true_iff in Hwf. destruct Hwf as [Hwff Hwfr].
    simpl in Hd. apply distinct_cons in Hd. destruct Hd as [Hni Hdr].
    destruct (group m f t v) as [g|] eqn:Eg; [|discriminate].
    destruct (write_fields r vs') as [ks0|] eqn:Er; [|discriminate].
    inversion H; subst ks. clear H.
    destruct (IH Hwfr Hdr _ _ Er) as [Htags [Hone Hle]].
    destruct (group_shape _ _ _ _ _ Hwff Eg) as [Hg Hlen].
    assert (Hks0 : forall x, In x ks0 -> tag_of x <> t).
    { intros x Hx E. apply Hni. rewrite <- E. apply Htags. exact Hx. }
    split; [|split].
    + intros x Hx. apply in_app_or in Hx. destruct Hx as [Hx|Hx].
      * left. symmetry. apply Hg. exact Hx.
      * right. apply Htags. exact Hx.
    + intros t0 H0. simpl in H0. rewrite count_app. destruct (String.eqb t0 t) eqn:E.
      * apply String.eqb_eq in E. subst t0. inversion H0; subst m.
        rewrite (count_all _ _ Hg), (count_none _ _ Hks0). lia.
      * apply String.eqb_neq in E. rewrite (count_none t0 g).
        -- simpl. apply Hone. exact H0.
        -- intros x Hx E'. apply E. rewrite <- E'. apply Hg. exact Hx.
    + intros t0 H0. simpl in H0. rewrite count_app. destruct (String.eqb t0 t) eqn:E.
      * apply String.eqb_eq in E. subst t0. inversion H0; subst m.
        rewrite (count_all _ _ Hg), (count_none _ _ Hks0). lia.
      * apply String.eqb_neq in E. rewrite (count_none t0 g).
        -- simpl. apply Hle. exact H0.
        -- intros x Hx E'. apply E. rewrite <- E'. apply Hg. exact Hx.
Qed.

Lemma find_field_name n dfs p : find_field n dfs = Some p -> pf_name p = n.
Proof.
  unfold find_field. intro H. apply find_some in H. destruct H as [_ H]. apply String.eqb_eq in H. exact H.
Qed.

Lemma find_field_distinct dfs : distinct (map pf_name dfs) = true -> forall p, In p dfs -> find_field (pf_name p) dfs = Some p.
Proof.
  induction dfs as [|q dfs IH]; intros Hd p Hp; [destruct Hp|].
  simpl in Hd. apply distinct_cons in Hd. destruct Hd as [Hni Hd].
  unfold find_field. simpl. destruct Hp as [Hp|Hp].
  - subst. rewrite String.eqb_refl. reflexivity.
  - destruct (String.eqb (pf_name q) (pf_name p)) eqn:E.
    + apply String.eqb_eq in E. exfalso. apply Hni. rewrite E. apply in_map. exact Hp.
    + apply IH; assumption.
Qed.

Lemma fields_ok_in recs dfs fs : fields_ok recs dfs fs = true ->
  forall t, In t (field_tags fs) -> exists p m, find_field t dfs = Some p /\ mult_of t fs = Some m /\ label_ok m (pf_label p) = true.
Proof.
  induction fs as [|t' m f r IH]; simpl; intros H t Ht; [destruct Ht|].
  apply andb_true_iff in H. destruct H as [H1 H2].
  destruct (String.eqb t t') eqn:E.
  - apply String.eqb_eq in E. subst t'.
    destruct (find_field t dfs) as [p|] eqn:Ep; [|discriminate].
    apply andb_true_iff in H1. destruct H1 as [H1 _]. exists p, m. auto.
  - apply String.eqb_neq in E. destruct Ht as [Ht|Ht]; [congruence|].
    destruct (IH H2 t Ht) as [p [m' [A [B C]]]]. exists p, m'. auto.
Qed.

Theorem conforms_wire_ok : forall d ign recs mname fs dfs,
  conforms_rec d ign recs (mname, FRec fs) = true -> lookup mname d = Some dfs -> wf (FRec fs) = true ->
  forall vs ks, write_fields fs vs = Some ks -> wire_ok ign mname dfs ks = true.
Proof.
  intros d ign recs mname fs dfs Hc Hl Hwf vs ks Hw.
  unfold conforms_rec in Hc. simpl in Hc. rewrite Hl in Hc.
  repeat (apply andb_true_iff in Hc; destruct Hc as [Hc ?]).
  rename H into Hcov. rename H0 into Hok. rename H1 into Hdd. rename Hc into Hdf.
  simpl in Hwf. apply andb_true_iff in Hwf. destruct Hwf as [_ Hwff].
  destruct (write_fields_shape fs Hwff Hdf vs ks Hw) as [Htags [Hone Hle]].
  unfold wire_ok. apply andb_true_iff. split.
  - apply forallb_forall. intros k Hk.
    destruct (fields_ok_in _ _ _ Hok _ (Htags k Hk)) as [p [m [A _]]]. rewrite A. reflexivity.
  - apply forallb_forall. intros p Hp.
    pose proof (find_field_distinct dfs Hdd p Hp) as Hfp.
    unfold required_covered in Hcov. rewrite forallb_forall in Hcov. specialize (Hcov p Hp).
    destruct (mult_of (pf_name p) fs) as [m|] eqn:Em.
    + destruct (fields_ok_in _ _ _ Hok _ (mult_of_in _ _ _ Em)) as [p' [m' [A [B C]]]].
      rewrite Hfp in A. inversion A; subst p'. rewrite Em in B. inversion B; subst m'.
      destruct (pf_label p), m; simpl in C; try discriminate; try reflexivity.
      * apply Nat.leb_le. rewrite (Hone _ Em). lia.
      * apply Nat.leb_le. apply Hle. exact Em.
      * rewrite (Hone _ Em). reflexivity.
    + pose proof (mult_of_none _ _ Em) as Hn.
      assert (Hz : count_tag (pf_name p) ks = 0%nat).
      { apply count_none. intros x Hx E. apply Hn. rewrite <- E. apply Htags. exact Hx. }
      destruct (pf_label p); try reflexivity.
      * rewrite Hz. reflexivity.
      * rewrite Hz. simpl. exact Hcov.
Qed.

(* ... instantiated: every message, at every nesting level, that the model's writer emits under the generated
   writer table holds only fields of its message type, singular fields at most once, every required field *)
Lemma writer_records_wf : forallb (fun r => wf (snd r)) W.records = true.
Proof. vm_compute. reflexivity. Qed.

Lemma written_messages_wire_ok : forall mname fs dfs, In (mname, FRec fs) W.records -> lookup mname pb_desc = Some dfs ->
  forall vs ks, write_fields fs vs = Some ks -> wire_ok pb_ignored mname dfs ks = true.
Proof.
  intros mname fs dfs Hin Hl vs ks Hw.
  pose proof writer_tables_conform as Hc. unfold conforms in Hc. rewrite forallb_forall in Hc.
  pose proof writer_records_wf as Hwf. rewrite forallb_forall in Hwf.
  eapply conforms_wire_ok; [exact (Hc _ Hin) | exact Hl | exact (Hwf _ Hin) | exact Hw].
Qed.
