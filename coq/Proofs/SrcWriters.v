(* Proofs/SrcWriters.v — the step lists parsed on every run from the write methods of XMLFileWriter and
   ProtobufFileWriter (Gen/Src_writers.v), run by the interpreter of Model/WritersSrc.v, compute what [step repaired] of
   Model/Writers.v computes for Write / WriteScenario: the same file content, the same writer state, the same global
   precision, skipped exactly when the model skips. *)
From Coq Require Import List Bool Arith.
Import ListNotations.
From CR Require Import Model.Writers Model.WritersSrc Gen.Src_writers.

Section Eq.
  Variable A : Type.
  Variables key value node bytes : Type.
  Variable key_eqb : key -> key -> bool.
  Variable header : A -> list (key * value).
  Variable objects : A -> nat -> list node.
  Variable problems : A -> nat -> list node.
  Variable ser_xml : list (key * value) -> list node -> bytes.
  Variable pb_header pb_objects pb_problems : A -> list node.
  Variable ser_pb : list node -> bytes.

  Notation world := (world A key value node bytes).
  Notation wstate := (wstate A key value node).
  Notation exec := (exec_write A key value node bytes key_eqb header objects problems ser_xml pb_header pb_objects
                               pb_problems ser_pb).
  Notation call := (write_call A key value node bytes key_eqb header objects problems ser_xml pb_header pb_objects
                               pb_problems ser_pb (repaired)).
  Notation mstep := (step A key value node bytes key_eqb header objects problems ser_xml pb_header pb_objects
                          pb_problems ser_pb (repaired)).

  Ltac run_steps :=
    cbv [exec_write fold_left wstep_apply r_attrs r_kids r_g r_out r_done write_call repaired reset_root own_precision
         src_xml_write src_xml_write_scenario src_pb_write src_pb_write_scenario app].

  Theorem src_write_is_model (s : world) w (ws : wstate) path m :
    exec (match w_fmt A key value node ws with XML => src_xml_write | PB => src_pb_write end) s w ws path m =
    if skips (file_exists A key value node bytes path s) m then (s, OSkipped) else call s w ws path true.
  Proof.
    destruct ws as [f prec a attrs kids]. unfold exec_write.
    destruct f; cbn [w_fmt]; destruct (skips (file_exists A key value node bytes path s) m);
      run_steps; cbn [w_fmt w_prec w_args w_attrs w_kids]; rewrite ?app_nil_l; reflexivity.
  Qed.

  Theorem src_write_scenario_is_model (s : world) w (ws : wstate) path m :
    exec (match w_fmt A key value node ws with XML => src_xml_write_scenario | PB => src_pb_write_scenario end) s w ws path m =
    if skips (file_exists A key value node bytes path s) m then (s, OSkipped) else call s w ws path false.
  Proof.
    destruct ws as [f prec a attrs kids]. unfold exec_write.
    destruct f; cbn [w_fmt]; destruct (skips (file_exists A key value node bytes path s) m);
      run_steps; cbn [w_fmt w_prec w_args w_attrs w_kids]; rewrite ?app_nil_l; reflexivity.
  Qed.

  (* the two operations of the state machine, with the parsed bodies in place of write_call *)
  Definition src_step (s : world) (o : op A) : world * out bytes :=
    match o with
    | New _ _ _ _ => mstep s o
    | Write w path m =>
        match lookup w (writers A key value node bytes s) with
        | None => (s, ONoWriter)
        | Some ws => exec (match w_fmt A key value node ws with XML => src_xml_write | PB => src_pb_write end) s w ws path m
        end
    | WriteScenario w path m =>
        match lookup w (writers A key value node bytes s) with
        | None => (s, ONoWriter)
        | Some ws => exec (match w_fmt A key value node ws with XML => src_xml_write_scenario | PB => src_pb_write_scenario end)
                          s w ws path m
        end
    end.

  Theorem src_step_is_model s o : src_step s o = mstep s o.
  Proof.
    destruct o as [w f prec a|w path m|w path m]; [reflexivity| |]; cbn [src_step step];
      destruct (lookup w (writers A key value node bytes s)) as [ws|]; try reflexivity.
    - rewrite src_write_is_model. reflexivity.
    - rewrite src_write_scenario_is_model. reflexivity.
  Qed.

  Lemma src_forms : src_init = InitSetsPrecision /\ src_policy = PolicyStd.
  Proof. split; reflexivity. Qed.
End Eq.
