(* Proofs/SrcWriters.v — the step lists parsed on every run from the write methods of XMLFileWriter and
   ProtobufFileWriter (Gen/Src_writers.v), run by the interpreter of Model/WritersSrc.v, compute what [step repaired] of
   Model/Writers.v computes for Write / WriteScenario: the same file content, the same writer state, the same global
   precision, skipped exactly when the model skips. *)
From Coq Require Import List Bool Arith.
Import ListNotations.
From CR Require Import Model.Writers Proofs.Writers Model.WritersSrc Gen.Src_writers.

Section Eq.
  Variable A : Type.
  Variables key value node bytes : Type.
  Variable key_eqb : key -> key -> bool.
  Variable header : A -> list (key * value).
  Variable objects : A -> nat -> list node.
  Variable problems : A -> nat -> list node.
  Variable ser_xml : list (key * value) -> list node -> bytes.
  Variable pb_header pb_objects pb_problems : A -> list node.
  Variable ser_pb : list node -> bytes.

  Notation world := (world A key value node bytes).
  Notation wstate := (wstate A key value node).
  Notation exec := (exec_write A key value node bytes key_eqb header objects problems ser_xml pb_header pb_objects
                               pb_problems ser_pb).
  Notation call := (write_call A key value node bytes key_eqb header objects problems ser_xml pb_header pb_objects
                               pb_problems ser_pb (repaired)).
  Notation mstep := (step A key value node bytes key_eqb header objects problems ser_xml pb_header pb_objects
                          pb_problems ser_pb (repaired)).

  Ltac run_steps :=
    cbv [exec_write fold_left wstep_apply r_attrs r_kids r_g r_out r_done write_call repaired reset_root own_precision
         src_xml_write src_xml_write_scenario src_pb_write src_pb_write_scenario app].

  Theorem src_write_is_model (s : world) w (ws : wstate) path m :
    exec (match w_fmt A key value node ws with XML => src_xml_write | PB => src_pb_write end) s w ws path m =
    if skips (file_exists A key value node bytes path s) m then (s, OSkipped) else call s w ws path true.
  Proof.
    destruct ws as [f prec a attrs kids]. unfold exec_write.
    destruct f; cbn [w_fmt]; destruct (skips (file_exists A key value node bytes path s) m);
      run_steps; cbn [w_fmt w_prec w_args w_attrs w_kids]; rewrite ?app_nil_l; reflexivity.
  Qed.

  Theorem src_write_scenario_is_model (s : world) w (ws : wstate) path m :
    exec (match w_fmt A key value node ws with XML => src_xml_write_scenario | PB => src_pb_write_scenario end) s w ws path m =
    if skips (file_exists A key value node bytes path s) m then (s, OSkipped) else call s w ws path false.
  Proof.
    destruct ws as [f prec a attrs kids]. unfold exec_write.
    destruct f; cbn [w_fmt]; destruct (skips (file_exists A key value node bytes path s) m);
      run_steps; cbn [w_fmt w_prec w_args w_attrs w_kids]; rewrite ?app_nil_l; reflexivity.
  Qed.

  (* the two operations of the state machine, with the parsed bodies in place of write_call *)
  Definition src_step (s : world) (o : op A) : world * out bytes :=
    match o with
    | New _ _ _ _ => mstep s o
    | Write w path m =>
        match lookup w (writers A key value node bytes s) with
        | None => (s, ONoWriter)
        | Some ws => exec (match w_fmt A key value node ws with XML => src_xml_write | PB => src_pb_write end) s w ws path m
        end
    | WriteScenario w path m =>
        match lookup w (writers A key value node bytes s) with
        | None => (s, ONoWriter)
        | Some ws => exec (match w_fmt A key value node ws with XML => src_xml_write_scenario | PB => src_pb_write_scenario end)
                          s w ws path m
        end
    end.

  Theorem src_step_is_model s o : src_step s o = mstep s o.
  Proof.
    destruct o as [w f prec a|w path m|w path m]; [reflexivity| |]; cbn [src_step step];
      destruct (lookup w (writers A key value node bytes s)) as [ws|]; try reflexivity.
    - rewrite src_write_is_model. reflexivity.
    - rewrite src_write_scenario_is_model. reflexivity.
  Qed.

  (* histories run with the parsed bodies *)
  Definition src_run (h : list (op A)) (s : world) : world := fold_left (fun s o => fst (src_step s o)) h s.
  Lemma src_run_is_model h : forall s,
    src_run h s = run A key value node bytes key_eqb header objects problems ser_xml pb_header pb_objects pb_problems
                      ser_pb repaired h s.
  Proof.
    induction h as [|o h IH]; intro s; [reflexivity|].
    unfold src_run, run. cbn [fold_left]. rewrite src_step_is_model. exact (IH _).
  Qed.

  (* the main C15 statement, about the parsed bodies: after any history, a write that is not skipped writes the rendering
     of the writer's own inputs, leaves every other file and every writer's inputs alone *)
  Theorem src_write_history_independent :
    forall (h : list (op A)) (s0 : world) w path m f p a (pp : bool),
      inputs_of A h w (inputs_in A key value node bytes s0 w) = Some (f, p, a) ->
      let s := src_run h s0 in
      skips (file_exists A key value node bytes path s) m = false ->
      let (s', o) := src_step s (if pp then Write w path m else WriteScenario w path m) in
      o = OWritten path (render A key value node bytes key_eqb header objects problems ser_xml pb_header pb_objects
                                pb_problems ser_pb f p a pp) /\
      lookup path (files A key value node bytes s') =
        Some (render A key value node bytes key_eqb header objects problems ser_xml pb_header pb_objects pb_problems
                     ser_pb f p a pp) /\
      (forall q, q <> path -> lookup q (files A key value node bytes s') = lookup q (files A key value node bytes s)) /\
      (forall w', inputs_in A key value node bytes s' w' = inputs_in A key value node bytes s w').
  Proof.
    intros h s0 w path m f p a pp Hin. cbv zeta. rewrite src_run_is_model, src_step_is_model.
    exact (write_history_independent A key value node bytes key_eqb header objects problems ser_xml pb_header pb_objects
             pb_problems ser_pb h s0 w path m f p a pp Hin).
  Qed.

  Lemma src_forms : src_init = InitSetsPrecision /\ src_policy = PolicyStd.
  Proof. split; reflexivity. Qed.
End Eq.
