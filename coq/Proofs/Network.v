(* Proofs/Network.v — lemmas for C10 about Model/Network.v.
   Structure: every removal / cleanup / cut-out operation is shown EQUAL (as a list-valued network, hence also as
   sets) to the specification [restrict kL kS kT kX] for explicit keep predicates (the cut-out: to [prune] of it);
   [restrict] and [prune] preserve [WF]; both compose.  The statements used by Props/C10.v are at the end. *)
From Coq Require Import ZArith List Bool Lia.
Import ListNotations.
From CR Require Import Base.G2Fold Model.Network.
Open Scope Z_scope.

(* ------------------------------------------------------------------ lists *)
Lemma mem_In z l : mem z l = true <-> In z l.
Proof.
  unfold mem. rewrite existsb_exists. split.
  - intros [x [H1 H2]]. apply Z.eqb_eq in H2. subst; auto.
  - intros; exists z; split; auto. apply Z.eqb_refl.
Qed.
Lemma mem_false z l : mem z l = false <-> ~ In z l.
Proof. rewrite <- mem_In. destruct (mem z l); split; intros H; try discriminate; auto.
  exfalso; apply H; reflexivity.
Qed.

Lemma filter_all {A} (l : list A) : filter (fun _ => true) l = l.
Proof. induction l; simpl; congruence. Qed.
Lemma filter_filter {A} (f g : A -> bool) l : filter g (filter f l) = filter (fun x => f x && g x) l.
Proof. induction l as [|a l IH]; simpl; auto. destruct (f a); simpl; [destruct (g a)|]; simpl; congruence. Qed.
Lemma filter_map_comm {A B} (f : A -> B) (p : A -> bool) (q : B -> bool) l :
  (forall a, q (f a) = p a) -> filter q (map f l) = map f (filter p l).
Proof. intros H. induction l as [|a l IH]; simpl; auto. rewrite H. destruct (p a); simpl; congruence. Qed.
Lemma map_filter_ids {A} (key : A -> Z) (k : Z -> bool) l :
  map key (filter (fun a => k (key a)) l) = filter k (map key l).
Proof. induction l as [|a l IH]; simpl; auto. destruct (k (key a)); simpl; congruence. Qed.
Lemma map_id_ext {A} (f : A -> A) l : (forall a, In a l -> f a = a) -> map f l = l.
Proof. induction l as [|a l IH]; simpl; intros H; auto. rewrite H, IH; auto. Qed.
Lemma incl_filter2 {A} (k : A -> bool) a b : incl a b -> incl (filter k a) (filter k b).
Proof. intros H z Hz. apply filter_In in Hz. apply filter_In. split; [apply H|]; tauto. Qed.
Lemma keepl_ext k k' l : (forall z, In z l -> k z = k' z) -> keepl k l = keepl k' l.
Proof. intros. apply filter_ext_in; auto. Qed.
Lemma keepl_id k l : (forall z, In z l -> k z = true) -> keepl k l = l.
Proof. intros H. unfold keepl. rewrite (filter_ext_in k (fun _ => true)); auto using filter_all. Qed.
Lemma keepl_In k l z : In z (keepl k l) <-> In z l /\ k z = true.
Proof. apply filter_In. Qed.

Lemma opt_in_keepo k o l : opt_in o l -> opt_in (keepo k o) (filter k l).
Proof. destruct o as [z|]; simpl; auto. destruct (k z) eqn:E; simpl; auto. intros; apply filter_In; auto. Qed.
Lemma keepo_ext k k' o l : opt_in o l -> (forall z, In z l -> k z = k' z) -> keepo k o = keepo k' o.
Proof. destruct o as [z|]; simpl; auto. intros H1 H2. rewrite (H2 z H1). auto. Qed.
Lemma keepd_ext k k' o d l : opt_in o l -> (forall z, In z l -> k z = k' z) -> keepd k o d = keepd k' o d.
Proof. destruct o as [z|]; simpl; auto. intros H1 H2. rewrite (H2 z H1). auto. Qed.
Lemma dir_ok_keep k o d : dir_ok o d -> dir_ok (keepo k o) (keepd k o d).
Proof. destruct o as [z|]; simpl; auto. destruct (k z); simpl; auto. Qed.

(* ------------------------------------------------------------------ ids of a restricted network *)
Lemma clean_lanelet_id kL kS kT l : l_id (clean_lanelet kL kS kT l) = l_id l.
Proof. reflexivity. Qed.
Lemma restrict_lanelet_ids kL kS kT kX n : lanelet_ids (restrict kL kS kT kX n) = filter kL (lanelet_ids n).
Proof. unfold lanelet_ids, restrict; simpl. rewrite map_map. simpl. apply (map_filter_ids l_id). Qed.
Lemma restrict_sign_ids kL kS kT kX n : sign_ids (restrict kL kS kT kX n) = filter kS (sign_ids n).
Proof. unfold sign_ids, restrict; simpl. apply (map_filter_ids fst). Qed.
Lemma restrict_light_ids kL kS kT kX n : light_ids (restrict kL kS kT kX n) = filter kT (light_ids n).
Proof. unfold light_ids, restrict; simpl. apply (map_filter_ids fst). Qed.
Lemma restrict_inter_ids kL kS kT kX n : inter_ids (restrict kL kS kT kX n) = filter kX (inter_ids n).
Proof. unfold inter_ids, restrict; simpl. rewrite map_map. simpl. apply (map_filter_ids x_id). Qed.

(* ------------------------------------------------------------------ restrict preserves WF *)
Lemma clean_incoming_ids k incs : map i_id (map (clean_incoming_l k) incs) = map i_id incs.
Proof. rewrite map_map. reflexivity. Qed.

Theorem restrict_wf kL kS kT kX n : WF n -> WF (restrict kL kS kT kX n).
Proof.
  intros (N1 & N2 & N3 & N4 & HL & HX).
  unfold WF. rewrite restrict_lanelet_ids, restrict_sign_ids, restrict_light_ids, restrict_inter_ids.
  do 4 (split; [apply NoDup_filter; assumption|]). split.
  - intros l' Hl'. simpl in Hl'. apply in_map_iff in Hl'. destruct Hl' as (l & <- & Hl).
    apply filter_In in Hl. destruct Hl as [Hl _]. specialize (HL l Hl).
    destruct HL as (A1 & A2 & A3 & A4 & A5 & A6 & A7 & A8 & A9).
    unfold wf_lanelet. rewrite restrict_lanelet_ids, restrict_sign_ids, restrict_light_ids. simpl.
    repeat split; try (apply incl_filter2; assumption); try (apply opt_in_keepo; assumption);
      try (apply dir_ok_keep; assumption).
    destruct (l_stop l) as [[s t]|]; auto. destruct A9. split; apply incl_filter2; assumption.
  - intros x' Hx'. simpl in Hx'. apply in_map_iff in Hx'. destruct Hx' as (x & <- & Hx).
    apply filter_In in Hx. destruct Hx as [Hx _]. destruct (HX x Hx) as [B1 B2].
    unfold wf_inter. rewrite restrict_lanelet_ids. simpl. split; [|apply incl_filter2; assumption].
    intros i' Hi'. apply in_map_iff in Hi'. destruct Hi' as (i & <- & Hi).
    destruct (B1 i Hi) as [(C1 & C2 & C3 & C4) C5]. rewrite clean_incoming_ids. split; [|exact C5].
    unfold wf_incoming; rewrite restrict_lanelet_ids; simpl. repeat split; apply incl_filter2; assumption.
Qed.

(* ------------------------------------------------------------------ restrict composes, is extensional on the ids
   that occur, and is the identity for the predicates "all" *)
Definition andf (f g : Z -> bool) : Z -> bool := fun z => f z && g z.

Lemma keepo_keepo k1 k2 o : keepo k2 (keepo k1 o) = keepo (andf k1 k2) o.
Proof. destruct o as [z|]; simpl; auto. unfold andf. destruct (k1 z); simpl; auto. Qed.
Lemma keepd_keepd k1 k2 o d : keepd k2 (keepo k1 o) (keepd k1 o d) = keepd (andf k1 k2) o d.
Proof. destruct o as [z|]; simpl; auto. unfold andf. destruct (k1 z); simpl; auto. Qed.
Lemma keepl_keepl k1 k2 l : keepl k2 (keepl k1 l) = keepl (andf k1 k2) l.
Proof. apply filter_filter. Qed.

Lemma clean_clean a1 b1 c1 a2 b2 c2 l :
  clean_lanelet a2 b2 c2 (clean_lanelet a1 b1 c1 l) = clean_lanelet (andf a1 a2) (andf b1 b2) (andf c1 c2) l.
Proof.
  unfold clean_lanelet; simpl. rewrite !keepl_keepl, !keepo_keepo, !keepd_keepd.
  destruct (l_stop l) as [[s t]|]; simpl; rewrite ?keepl_keepl; reflexivity.
Qed.
Lemma clean_inter_clean k1 k2 x : clean_inter_l k2 (clean_inter_l k1 x) = clean_inter_l (andf k1 k2) x.
Proof.
  unfold clean_inter_l; simpl. rewrite map_map, keepl_keepl. f_equal.
  apply map_ext. intros i. unfold clean_incoming_l; simpl. rewrite !keepl_keepl. reflexivity.
Qed.

Theorem restrict_restrict a1 b1 c1 d1 a2 b2 c2 d2 n :
  restrict a2 b2 c2 d2 (restrict a1 b1 c1 d1 n) = restrict (andf a1 a2) (andf b1 b2) (andf c1 c2) (andf d1 d2) n.
Proof.
  unfold restrict; simpl. f_equal.
  - rewrite (filter_map_comm (clean_lanelet a1 b1 c1) (fun l => a2 (l_id l))) by reflexivity.
    rewrite map_map, filter_filter. apply map_ext. intros; apply clean_clean.
  - apply filter_filter.
  - apply filter_filter.
  - rewrite (filter_map_comm (clean_inter_l a1) (fun x => d2 (x_id x))) by reflexivity.
    rewrite map_map, filter_filter. apply map_ext. intros; apply clean_inter_clean.
Qed.

Definition agree_on (l : list Z) (k k' : Z -> bool) : Prop := forall z, In z l -> k z = k' z.

Lemma clean_lanelet_ext n l a b c a' b' c' : wf_lanelet n l ->
  agree_on (lanelet_ids n) a a' -> agree_on (sign_ids n) b b' -> agree_on (light_ids n) c c' ->
  clean_lanelet a b c l = clean_lanelet a' b' c' l.
Proof.
  intros (A1 & A2 & A3 & A4 & A5 & A6 & A7 & A8 & A9) Ha Hb Hc. unfold clean_lanelet.
  rewrite (keepl_ext a a' (l_pred l)), (keepl_ext a a' (l_succ l)),
    (keepo_ext a a' _ _ A3 Ha), (keepo_ext a a' _ _ A4 Ha), (keepd_ext a a' _ _ _ A3 Ha), (keepd_ext a a' _ _ _ A4 Ha),
    (keepl_ext b b' (l_signs l)), (keepl_ext c c' (l_lights l)); auto.
  destruct (l_stop l) as [[s t]|]; auto. destruct A9 as [S1 S2].
  rewrite (keepl_ext b b' s), (keepl_ext c c' t); auto.
Qed.
Lemma clean_inter_ext n x a a' : wf_inter n x -> agree_on (lanelet_ids n) a a' -> clean_inter_l a x = clean_inter_l a' x.
Proof.
  intros [B1 B2] Ha. unfold clean_inter_l. rewrite (keepl_ext a a' (x_cross x)) by auto. f_equal.
  apply map_ext_in. intros i Hi. destruct (B1 i Hi) as [(C1 & C2 & C3 & C4) _]. unfold clean_incoming_l.
  rewrite (keepl_ext a a' (i_lanelets i)), (keepl_ext a a' (i_right i)), (keepl_ext a a' (i_straight i)),
    (keepl_ext a a' (i_left i)); auto.
Qed.

Theorem restrict_ext n a b c d a' b' c' d' : WF n ->
  agree_on (lanelet_ids n) a a' -> agree_on (sign_ids n) b b' -> agree_on (light_ids n) c c' ->
  agree_on (inter_ids n) d d' -> restrict a b c d n = restrict a' b' c' d' n.
Proof.
  intros (_ & _ & _ & _ & HL & HX) Ha Hb Hc Hd. unfold restrict. f_equal.
  - rewrite (filter_ext_in (fun l => a (l_id l)) (fun l => a' (l_id l))).
    + apply map_ext_in. intros l Hl. apply filter_In in Hl. eapply clean_lanelet_ext; eauto. apply HL; tauto.
    + intros l Hl. apply Ha. unfold lanelet_ids. apply in_map. exact Hl.
  - apply filter_ext_in. intros s Hs. apply Hb. unfold sign_ids. apply in_map. exact Hs.
  - apply filter_ext_in. intros s Hs. apply Hc. unfold light_ids. apply in_map. exact Hs.
  - rewrite (filter_ext_in (fun x => d (x_id x)) (fun x => d' (x_id x))).
    + apply map_ext_in. intros x Hx. apply filter_In in Hx. eapply clean_inter_ext; eauto. apply HX; tauto.
    + intros x Hx. apply Hd. unfold inter_ids. apply in_map. exact Hx.
Qed.

Lemma keepo_all o : keepo all o = o.
Proof. destruct o; reflexivity. Qed.
Lemma clean_lanelet_all n l : wf_lanelet n l -> clean_lanelet all all all l = l.
Proof.
  intros (_ & _ & _ & _ & D1 & D2 & _). destruct l as [i p s aL dL aR dR sg lg st ty pl]. unfold clean_lanelet; simpl in *.
  unfold keepl. rewrite !filter_all, !keepo_all.
  replace (keepd all aL dL) with dL by (destruct aL; simpl in *; congruence).
  replace (keepd all aR dR) with dR by (destruct aR; simpl in *; congruence).
  destruct st as [[a b]|]; rewrite ?filter_all; reflexivity.
Qed.
Lemma clean_inter_all x : clean_inter_l all x = x.
Proof.
  destruct x as [i incs cr]. unfold clean_inter_l; simpl. unfold keepl. rewrite filter_all. f_equal.
  apply map_id_ext. intros [a b c d e f] _. unfold clean_incoming_l; simpl. unfold keepl. rewrite !filter_all. reflexivity.
Qed.
Theorem restrict_all n : WF n -> restrict all all all all n = n.
Proof.
  intros (_ & _ & _ & _ & HL & _). destruct n as [ls ss ts xs]. unfold restrict; simpl in *.
  unfold all at 2 6 7 8. rewrite !filter_all. f_equal.
  - apply map_id_ext. intros l Hl. eapply clean_lanelet_all. apply HL. exact Hl.
  - apply map_id_ext. intros; apply clean_inter_all.
Qed.

(* ------------------------------------------------------------------ more list facts *)
Lemma mem_filter k z l : mem z (filter k l) = mem z l && k z.
Proof.
  induction l as [|a l IH]; simpl; auto. destruct (k a) eqn:Ka; simpl; rewrite IH.
  - destruct (z =? a) eqn:E; simpl; auto. apply Z.eqb_eq in E. subst. rewrite Ka. reflexivity.
  - destruct (z =? a) eqn:E; simpl; auto. apply Z.eqb_eq in E. subst. rewrite Ka. rewrite andb_false_r. reflexivity.
Qed.
Lemma filter_none {A} (l : list A) : filter (fun _ => false) l = [].
Proof. induction l; simpl; auto. Qed.
Lemma keepl_idem k l : keepl k (keepl k l) = keepl k l.
Proof. apply keepl_id. intros z Hz. apply keepl_In in Hz. tauto. Qed.
Lemma flat_map_map {A B C} (f : B -> list C) (g : A -> B) l : flat_map f (map g l) = flat_map (fun a => f (g a)) l.
Proof. induction l; simpl; congruence. Qed.
Lemma map_flat_map {A B C} (h : B -> C) (f : A -> list B) l : map h (flat_map f l) = flat_map (fun a => map h (f a)) l.
Proof. induction l; simpl; auto. rewrite map_app. congruence. Qed.
Lemma flat_map_ext_in {A B} (f g : A -> list B) l : (forall a, In a l -> f a = g a) -> flat_map f l = flat_map g l.
Proof. induction l as [|a l IH]; simpl; intros H; auto. rewrite H, IH; auto. Qed.
Lemma flat_map_if {A B} (p : B -> bool) (g : A -> B) l :
  flat_map (fun a => if p (g a) then [g a] else []) l = filter p (map g l).
Proof. induction l as [|a l IH]; simpl; auto. destruct (p (g a)); simpl; congruence. Qed.
Lemma NoDup_map_In_eq {A} (key : A -> Z) l a b : NoDup (map key l) -> In a l -> In b l -> key a = key b -> a = b.
Proof.
  induction l as [|c l IH]; simpl; intros N Ha Hb E; [tauto|]. inversion N as [|? ? N1 N2]; subst.
  destruct Ha as [->|Ha], Hb as [->|Hb]; auto.
  - exfalso. apply N1. rewrite E. apply in_map. exact Hb.
  - exfalso. apply N1. rewrite <- E. apply in_map. exact Ha.
Qed.
Lemma NoDup_map_filter {A} (key : A -> Z) (p : A -> bool) l : NoDup (map key l) -> NoDup (map key (filter p l)).
Proof.
  induction l as [|a l IH]; simpl; intros N; auto. inversion N as [|? ? N1 N2]; subst.
  destruct (p a); simpl; auto. constructor; auto. intros H. apply N1.
  apply in_map_iff in H. destruct H as (b & E & Hb). apply filter_In in Hb. rewrite <- E. apply in_map. tauto.
Qed.

Lemma neq_true i z : neq i z = true <-> z <> i.
Proof. unfold neq. rewrite negb_true_iff. apply Z.eqb_neq. Qed.
Lemma notin_cons i l z : notin (i :: l) z = andf (neq i) (notin l) z.
Proof. unfold notin, andf, neq, mem. simpl. rewrite negb_orb. reflexivity. Qed.
Lemma notin_nil z : notin [] z = all z.
Proof. reflexivity. Qed.

(* ------------------------------------------------------------------ the cleanups as instances of clean_lanelet *)
Lemma clean_l_as k l : clean_lanelet_l k l = clean_lanelet k all all l.
Proof.
  unfold clean_lanelet_l, clean_lanelet. unfold keepl at 5 6. rewrite !filter_all.
  destruct (l_stop l) as [[s t]|]; unfold keepl; rewrite ?filter_all; reflexivity.
Qed.
Lemma keepd_all o d : dir_ok o d -> keepd all o d = d.
Proof. destruct o; simpl; congruence. Qed.
Lemma clean_s_as n k l : wf_lanelet n l -> clean_lanelet_s k l = clean_lanelet all k all l.
Proof.
  intros (_ & _ & _ & _ & D1 & D2 & _). unfold clean_lanelet_s, clean_lanelet.
  rewrite !keepo_all, !keepd_all by assumption. unfold keepl at 3 4 6. rewrite !filter_all.
  destruct (l_stop l) as [[s t]|]; unfold keepl; rewrite ?filter_all; reflexivity.
Qed.
Lemma clean_t_as n k l : wf_lanelet n l -> clean_lanelet_t k l = clean_lanelet all all k l.
Proof.
  intros (_ & _ & _ & _ & D1 & D2 & _). unfold clean_lanelet_t, clean_lanelet.
  rewrite !keepo_all, !keepd_all by assumption. unfold keepl at 3 4 5. rewrite !filter_all.
  destruct (l_stop l) as [[s t]|]; unfold keepl; rewrite ?filter_all; reflexivity.
Qed.

Lemma agree_refl l k : agree_on l k k.
Proof. intros z _. reflexivity. Qed.
#[export] Hint Resolve agree_refl : core.

(* ------------------------------------------------------------------ LaneletNetwork.remove_* = restrict *)
Theorem net_remove_lanelet_spec i n : WF n -> net_remove_lanelet i n = restrict (neq i) all all all n.
Proof.
  intros W. pose proof W as (_ & _ & _ & _ & HL & HX). unfold net_remove_lanelet.
  destruct (mem i (lanelet_ids n)) eqn:E.
  - unfold cleanup_lanelets, restrict; simpl.
    set (k := fun z => mem z (lanelet_ids (mkN (filter (fun l => negb (l_id l =? i)) (lanelets n)) (signs n) (lights n) (inters n)))).
    assert (Hk : agree_on (lanelet_ids n) k (neq i)).
    { intros z Hz. unfold k, lanelet_ids; simpl.
      rewrite (map_filter_ids l_id (fun z => negb (z =? i))), mem_filter.
      apply mem_In in Hz. unfold lanelet_ids in Hz. rewrite Hz. reflexivity. }
    f_equal.
    + apply map_ext_in. intros l Hl. apply filter_In in Hl. rewrite clean_l_as.
      eapply clean_lanelet_ext; eauto. apply HL; tauto.
    + symmetry; apply filter_all.
    + symmetry; apply filter_all.
    + unfold all; rewrite filter_all. apply map_ext_in. intros x Hx. eapply clean_inter_ext; eauto.
  - rewrite <- (restrict_all n W) at 1. apply restrict_ext; auto.
    intros z Hz. unfold all. symmetry. apply neq_true. intros ->. apply mem_false in E. auto.
Qed.

Theorem net_remove_sign_spec i n : WF n -> net_remove_sign i n = restrict all (neq i) all all n.
Proof.
  intros W. pose proof W as (_ & _ & _ & _ & HL & HX). unfold net_remove_sign.
  destruct (mem i (sign_ids n)) eqn:E.
  - unfold cleanup_signs, restrict; simpl.
    set (k := fun z => mem z (sign_ids (mkN (lanelets n) (filter (fun s => negb (fst s =? i)) (signs n)) (lights n) (inters n)))).
    assert (Hk : agree_on (sign_ids n) k (neq i)).
    { intros z Hz. unfold k, sign_ids; simpl.
      rewrite (map_filter_ids fst (fun z => negb (z =? i))), mem_filter.
      apply mem_In in Hz. unfold sign_ids in Hz. rewrite Hz. reflexivity. }
    f_equal.
    + unfold all at 1; rewrite filter_all. apply map_ext_in. intros l Hl. rewrite (clean_s_as n) by auto.
      eapply clean_lanelet_ext; eauto.
    + symmetry; apply filter_all.
    + unfold all; rewrite filter_all. symmetry. apply map_id_ext. intros; apply clean_inter_all.
  - rewrite <- (restrict_all n W) at 1. apply restrict_ext; auto.
    intros z Hz. unfold all. symmetry. apply neq_true. intros ->. apply mem_false in E. auto.
Qed.

Theorem net_remove_light_spec i n : WF n -> net_remove_light i n = restrict all all (neq i) all n.
Proof.
  intros W. pose proof W as (_ & _ & _ & _ & HL & HX). unfold net_remove_light.
  unfold cleanup_lights, restrict; simpl.
  set (k := fun z => mem z (light_ids (mkN (lanelets n) (signs n) (filter (fun s => negb (fst s =? i)) (lights n)) (inters n)))).
  assert (Hk : agree_on (light_ids n) k (neq i)).
  { intros z Hz. unfold k, light_ids; simpl.
    rewrite (map_filter_ids fst (fun z => negb (z =? i))), mem_filter.
    apply mem_In in Hz. unfold light_ids in Hz. rewrite Hz. reflexivity. }
  f_equal.
  - unfold all at 1; rewrite filter_all. apply map_ext_in. intros l Hl. rewrite (clean_t_as n) by auto.
    eapply clean_lanelet_ext; eauto.
  - symmetry; apply filter_all.
  - unfold all; rewrite filter_all. symmetry. apply map_id_ext. intros; apply clean_inter_all.
Qed.

Theorem net_remove_inter_spec i n : WF n -> net_remove_inter i n = restrict all all all (neq i) n.
Proof.
  intros W. pose proof W as (_ & _ & _ & _ & HL & HX). unfold net_remove_inter, restrict. f_equal.
  - unfold all at 1; rewrite filter_all. symmetry. apply map_id_ext. intros l Hl. eapply clean_lanelet_all. apply HL, Hl.
  - symmetry; apply filter_all.
  - symmetry; apply filter_all.
  - symmetry. apply map_id_ext. intros; apply clean_inter_all.
Qed.

(* ------------------------------------------------------------------ list forms (Scenario level): folds of the above *)
Section Fold.
  Variable f : Z -> network -> network.
  Variable sel : (Z -> bool) -> network -> network.
  Hypothesis f_spec : forall i n, WF n -> f i n = sel (neq i) n.
  Hypothesis sel_wf : forall k n, WF n -> WF (sel k n).
  Hypothesis sel_sel : forall k1 k2 n, WF n -> sel k2 (sel k1 n) = sel (andf k1 k2) n.
  Hypothesis sel_ext : forall k k' n, WF n -> (forall z, k z = k' z) -> sel k n = sel k' n.
  Hypothesis sel_all : forall n, WF n -> sel all n = n.

  Lemma fold_op_spec : forall l n, WF n -> fold_op f l n = sel (notin l) n.
  Proof.
    induction l as [|i l IH]; intros n W.
    - simpl. rewrite (sel_ext (notin []) all) by auto using notin_nil. symmetry; auto.
    - unfold fold_op in *. simpl. rewrite f_spec by auto. rewrite IH by auto. rewrite sel_sel by auto.
      apply sel_ext; auto. intros z. symmetry. apply notin_cons.
  Qed.
End Fold.

Lemma andf_all_all z : andf all all z = all z.
Proof. reflexivity. Qed.

Theorem remove_lanelets_spec l n : WF n -> fold_op net_remove_lanelet l n = restrict (notin l) all all all n.
Proof.
  apply (fold_op_spec net_remove_lanelet (fun k => restrict k all all all)).
  - apply net_remove_lanelet_spec.
  - intros; apply restrict_wf; auto.
  - intros. rewrite restrict_restrict. apply restrict_ext; auto.
  - intros. apply restrict_ext; auto. intros z _; auto.
  - apply restrict_all.
Qed.
Theorem remove_signs_spec l n : WF n -> fold_op net_remove_sign l n = restrict all (notin l) all all n.
Proof.
  apply (fold_op_spec net_remove_sign (fun k => restrict all k all all)).
  - apply net_remove_sign_spec.
  - intros; apply restrict_wf; auto.
  - intros. rewrite restrict_restrict. apply restrict_ext; auto.
  - intros. apply restrict_ext; auto. intros z _; auto.
  - apply restrict_all.
Qed.
Theorem remove_lights_spec l n : WF n -> fold_op net_remove_light l n = restrict all all (notin l) all n.
Proof.
  apply (fold_op_spec net_remove_light (fun k => restrict all all k all)).
  - apply net_remove_light_spec.
  - intros; apply restrict_wf; auto.
  - intros. rewrite restrict_restrict. apply restrict_ext; auto.
  - intros. apply restrict_ext; auto. intros z _; auto.
  - apply restrict_all.
Qed.
Theorem remove_inters_spec l n : WF n -> fold_op net_remove_inter l n = restrict all all all (notin l) n.
Proof.
  apply (fold_op_spec net_remove_inter (fun k => restrict all all all k)).
  - apply net_remove_inter_spec.
  - intros; apply restrict_wf; auto.
  - intros. rewrite restrict_restrict. apply restrict_ext; auto.
  - intros. apply restrict_ext; auto. intros z _; auto.
  - apply restrict_all.
Qed.

(* ------------------------------------------------------------------ Scenario.remove_lanelet(list, referenced_elements) *)
Definition hang (rm : list Z) (refs : bool) (n : network) : list Z * list Z :=
  if refs then hanging rm n else ([], []).

Theorem s_remove_lanelets_spec rm refs n : WF n ->
  s_remove_lanelets rm refs n =
  restrict (notin rm) (notin (fst (hang rm refs n))) (notin (snd (hang rm refs n))) all n.
Proof.
  intros W. unfold s_remove_lanelets, hang. destruct refs.
  - destruct (hanging rm n) as [rs rt]; simpl.
    rewrite remove_signs_spec by auto.
    rewrite remove_lights_spec by (apply restrict_wf; auto).
    rewrite remove_lanelets_spec by (do 2 apply restrict_wf; auto).
    rewrite !restrict_restrict. apply restrict_ext; auto; intros z _; unfold andf, all; simpl;
      rewrite ?andb_true_r; reflexivity.
  - simpl. rewrite remove_lanelets_spec by auto. apply restrict_ext; auto.
Qed.

(* a sign leaves together with the lanelets iff a removed lanelet references it and no remaining one does *)
Lemma mem_flat_map (f : lanelet -> list Z) z ls : mem z (flat_map f ls) = true <-> exists l, In l ls /\ In z (f l).
Proof. rewrite mem_In. apply in_flat_map. Qed.

Theorem hanging_signs_spec rm n z :
  In z (fst (hanging rm n)) <->
  In z (sign_ids n) /\ (exists l, In l (lanelets n) /\ In (l_id l) rm /\ In z (l_signs l)) /\
  (forall l, In l (lanelets n) -> ~ In (l_id l) rm -> ~ In z (l_signs l)).
Proof.
  unfold hanging; simpl. rewrite filter_In, andb_true_iff, negb_true_iff, mem_flat_map. split.
  - intros (H0 & (l & Hl & Hz) & H2). apply filter_In in Hl. destruct Hl as [Hl Hm]. apply mem_In in Hm.
    split; [exact H0|]. split; [exists l; auto|]. intros l' Hl' Hn Hz'.
    assert (X : mem z (flat_map l_signs (filter (fun l => negb (mem (l_id l) rm)) (lanelets n))) = true).
    { apply mem_flat_map. exists l'. split; auto. apply filter_In. split; auto.
      apply negb_true_iff. apply mem_false. exact Hn. }
    congruence.
  - intros (H0 & (l & Hl & Hm & Hz) & H2). split; [exact H0|]. split.
    + exists l. split; auto. apply filter_In. split; auto. apply mem_In; auto.
    + apply not_true_is_false. intros X. apply mem_flat_map in X. destruct X as (l' & Hl' & Hz').
      apply filter_In in Hl'. destruct Hl' as [Hl' Hn]. apply negb_true_iff, mem_false in Hn. eapply H2; eauto.
Qed.
Theorem hanging_lights_spec rm n z :
  In z (snd (hanging rm n)) <->
  In z (light_ids n) /\ (exists l, In l (lanelets n) /\ In (l_id l) rm /\ In z (l_lights l)) /\
  (forall l, In l (lanelets n) -> ~ In (l_id l) rm -> ~ In z (l_lights l)).
Proof.
  unfold hanging; simpl. rewrite filter_In, andb_true_iff, negb_true_iff, mem_flat_map. split.
  - intros (H0 & (l & Hl & Hz) & H2). apply filter_In in Hl. destruct Hl as [Hl Hm]. apply mem_In in Hm.
    split; [exact H0|]. split; [exists l; auto|]. intros l' Hl' Hn Hz'.
    assert (X : mem z (flat_map l_lights (filter (fun l => negb (mem (l_id l) rm)) (lanelets n))) = true).
    { apply mem_flat_map. exists l'. split; auto. apply filter_In. split; auto.
      apply negb_true_iff. apply mem_false. exact Hn. }
    congruence.
  - intros (H0 & (l & Hl & Hm & Hz) & H2). split; [exact H0|]. split.
    + exists l. split; auto. apply filter_In. split; auto. apply mem_In; auto.
    + apply not_true_is_false. intros X. apply mem_flat_map in X. destruct X as (l' & Hl' & Hz').
      apply filter_In in Hl'. destruct Hl' as [Hl' Hn]. apply negb_true_iff, mem_false in Hn. eapply H2; eauto.
Qed.

(* ------------------------------------------------------------------ prune preserves WF *)
Definition alive (x : inter) : bool := match filter live_incoming (x_incs x) with [] => false | _ => true end.

Lemma prune_inter_ids xs : map x_id (flat_map prune_inter xs) = map x_id (filter alive xs).
Proof.
  induction xs as [|x xs IH]; simpl; auto. unfold prune_inter at 1, alive at 1.
  destruct (filter live_incoming (x_incs x)); simpl; congruence.
Qed.
Lemma fix_leftof_ids kept incs : map i_id (map (fix_leftof kept) incs) = map i_id incs.
Proof. rewrite map_map. reflexivity. Qed.

Theorem prune_wf n : WF n -> WF (prune n).
Proof.
  intros (N1 & N2 & N3 & N4 & HL & HX). unfold WF. do 3 (split; [assumption|]). split; [|split].
  - unfold inter_ids, prune; simpl. rewrite prune_inter_ids. apply NoDup_map_filter. exact N4.
  - exact HL.
  - intros x' Hx'. simpl in Hx'. apply in_flat_map in Hx'. destruct Hx' as (x & Hx & Hx').
    destruct (HX x Hx) as [B1 B2]. unfold prune_inter in Hx'.
    destruct (filter live_incoming (x_incs x)) as [|i0 r] eqn:E; [contradiction|].
    remember (i0 :: r) as incs' eqn:Ei. clear Ei i0 r.
    destruct Hx' as [<-|[]]. unfold wf_inter. simpl x_incs. simpl x_cross. split; [|exact B2].
    intros i' Hi'. apply in_map_iff in Hi'. destruct Hi' as (i & <- & Hi).
    assert (Hi0 : In i (x_incs x)). { rewrite <- E in Hi. apply filter_In in Hi. tauto. }
    destruct (B1 i Hi0) as [C _]. split; [exact C|].
    rewrite fix_leftof_ids. unfold fix_leftof; simpl i_leftof.
    destruct (i_leftof i) as [z|]; simpl; auto. destruct (mem z (map i_id incs')) eqn:M; simpl; auto.
    apply mem_In in M. exact M.
Qed.

(* ------------------------------------------------------------------ the cut-out = prune of restrict *)
Definition cut_spec (sel : list Z) (shape : bool) (excl : list Z) (n : network) : network :=
  let kept := cut_kept sel shape excl n in
  prune (restrict (isin (map l_id kept)) (isin (flat_map l_signs kept)) (isin (flat_map l_lights kept)) all n).

Lemma cut_incoming_as ids i :
  cut_incoming ids i = if live_incoming (clean_incoming_l (isin ids) i) then [clean_incoming_l (isin ids) i] else [].
Proof.
  unfold cut_incoming, live_incoming, clean_incoming_l, isin; simpl.
  destruct (keepl (fun z => mem z ids) (i_lanelets i)); auto.
  destruct (keepl (fun z => mem z ids) (i_left i) ++ keepl (fun z => mem z ids) (i_straight i) ++
            keepl (fun z => mem z ids) (i_right i)); auto.
Qed.
Lemma clean_incoming_idem k i : clean_incoming_l k (clean_incoming_l k i) = clean_incoming_l k i.
Proof. unfold clean_incoming_l; simpl. rewrite !keepl_idem. reflexivity. Qed.

Lemma cut_inter_as ids x :
  map (clean_inter_l (isin ids)) (cut_inter ids x) = prune_inter (clean_inter_l (isin ids) x).
Proof.
  unfold cut_inter, prune_inter. simpl x_incs.
  rewrite (flat_map_ext_in _ _ _ (fun i _ => cut_incoming_as ids i)).
  rewrite (flat_map_if live_incoming (clean_incoming_l (isin ids))).
  destruct (filter live_incoming (map (clean_incoming_l (isin ids)) (x_incs x))) as [|i0 r] eqn:E; auto.
  remember (i0 :: r) as incs' eqn:Ei. clear Ei i0 r.
  simpl. unfold clean_inter_l at 1. simpl. rewrite keepl_idem. f_equal. f_equal.
  rewrite map_map. apply map_ext_in. intros i Hi. rewrite <- E in Hi. apply filter_In in Hi. destruct Hi as [Hi _].
  apply in_map_iff in Hi. destruct Hi as (j & <- & _).
  unfold fix_leftof, clean_incoming_l; simpl. rewrite !keepl_idem. reflexivity.
Qed.

Lemma kept_filter sel shape excl n : NoDup (lanelet_ids n) ->
  filter (fun l => isin (map l_id (cut_kept sel shape excl n)) (l_id l)) (lanelets n) = cut_kept sel shape excl n.
Proof.
  intros N. unfold cut_kept. apply filter_ext_in. intros l Hl. unfold isin.
  destruct (selected sel shape excl l) eqn:S.
  - apply mem_In. apply in_map. apply filter_In. auto.
  - apply mem_false. intros H. apply in_map_iff in H. destruct H as (l' & E & Hl'). apply filter_In in Hl'.
    destruct Hl' as [Hl' S']. assert (l' = l) by (eapply (NoDup_map_In_eq l_id); eauto). congruence.
Qed.

Theorem cutout_spec sel shape excl n : WF n -> cutout sel shape excl n = cut_spec sel shape excl n.
Proof.
  intros W. pose proof W as (N1 & _ & _ & _ & HL & HX). unfold cutout, cut_spec, cleanup_lanelets, prune, restrict.
  fold (cut_kept sel shape excl n). pose proof (kept_filter sel shape excl n N1) as KF.
  set (kept := cut_kept sel shape excl n) in *. simpl.
  unfold lanelet_ids at 1 2. simpl lanelets. f_equal.
  - rewrite KF. apply map_ext_in. intros l Hl. rewrite clean_l_as.
    assert (Hl0 : In l (lanelets n)) by (unfold kept, cut_kept in Hl; apply filter_In in Hl; tauto).
    destruct (HL l Hl0) as (_ & _ & _ & _ & _ & _ & _ & _ & A9).
    assert (KS : forall z, In z (l_signs l) -> isin (flat_map l_signs kept) z = true).
    { intros z Hz. apply mem_In. apply in_flat_map. exists l; auto. }
    assert (KT : forall z, In z (l_lights l) -> isin (flat_map l_lights kept) z = true).
    { intros z Hz. apply mem_In. apply in_flat_map. exists l; auto. }
    unfold clean_lanelet.
    rewrite (keepl_ext all (isin (flat_map l_signs kept)) (l_signs l)) by (intros; symmetry; apply KS; auto).
    rewrite (keepl_ext all (isin (flat_map l_lights kept)) (l_lights l)) by (intros; symmetry; apply KT; auto).
    destruct (l_stop l) as [[s t]|]; auto. destruct A9 as [S1 S2].
    rewrite (keepl_ext all (isin (flat_map l_signs kept)) s) by (intros; symmetry; apply KS; auto).
    rewrite (keepl_ext all (isin (flat_map l_lights kept)) t) by (intros; symmetry; apply KT; auto).
    reflexivity.
  - unfold all. rewrite filter_all. rewrite flat_map_map, map_flat_map.
    apply flat_map_ext_in. intros x _. apply cut_inter_as.
Qed.

Theorem cut_spec_wf sel shape excl n : WF n -> WF (cut_spec sel shape excl n).
Proof. intros. unfold cut_spec. apply prune_wf, restrict_wf. assumption. Qed.

(* when no incoming element loses all its incoming lanelets or all its successors, the cut-out is exactly restrict *)
Lemma prune_inter_id x : (forall i, In i (x_incs x) -> live_incoming i = true) -> x_incs x <> [] ->
  (forall i, In i (x_incs x) -> opt_in (i_leftof i) (map i_id (x_incs x))) -> prune_inter x = [x].
Proof.
  intros H1 H2 H3. unfold prune_inter.
  rewrite (filter_ext_in live_incoming (fun _ => true)), filter_all by auto.
  destruct x as [id incs cr]; cbn [x_incs x_id x_cross] in *. destruct incs as [|i0 r]; [congruence|].
  cbv beta iota. set (incs' := i0 :: r) in *. clearbody incs'. f_equal. f_equal.
  apply map_id_ext. intros i Hi. specialize (H3 i Hi). destruct i as [a b c d e lo]; unfold fix_leftof; simpl in *.
  destruct lo as [z|]; simpl; auto. apply mem_In in H3. rewrite H3. reflexivity.
Qed.
Theorem prune_id n : WF n ->
  (forall x, In x (inters n) -> x_incs x <> [] /\ forall i, In i (x_incs x) -> live_incoming i = true) -> prune n = n.
Proof.
  intros (_ & _ & _ & _ & _ & HX) H. destruct n as [ls ss ts xs]; unfold prune; simpl in *. f_equal.
  induction xs as [|x xs IH]; simpl; auto. rewrite prune_inter_id.
  - simpl. f_equal. apply IH.
    + intros x0 H0. apply HX. right; exact H0.
    + intros x0 H0. apply H. right; exact H0.
  - apply H; left; reflexivity.
  - apply H; left; reflexivity.
  - intros i Hi. destruct (HX x (or_introl eq_refl)) as [B _]. apply B; auto.
Qed.

(* ------------------------------------------------------------------ create_from_lanelet_list *)
Theorem from_list_spec ls n : WF n -> from_list ls n = restrict (isin ls) none none none n.
Proof.
  intros W. pose proof W as (_ & _ & _ & _ & HL & _).
  unfold from_list, cleanup_signs, cleanup_lights, cleanup_lanelets, restrict; simpl.
  unfold none. rewrite !filter_none. simpl. f_equal. rewrite !map_map. apply map_ext_in. intros l Hl.
  apply filter_In in Hl. destruct Hl as [Hl _]. specialize (HL l Hl).
  set (k := fun z => mem z (lanelet_ids (mkN (filter (fun l0 => mem (l_id l0) ls) (lanelets n)) [] [] []))).
  transitivity (clean_lanelet k (fun _ => false) (fun _ => false) l).
  - unfold clean_lanelet_s, clean_lanelet_t, clean_lanelet_l, clean_lanelet; simpl.
    destruct (l_stop l) as [[s t]|]; reflexivity.
  - eapply clean_lanelet_ext; eauto. intros z Hz. unfold k, lanelet_ids, isin; simpl.
    rewrite (map_filter_ids l_id (fun z => mem z ls)), mem_filter. apply mem_In in Hz. unfold lanelet_ids in Hz.
    rewrite Hz. reflexivity.
Qed.

(* ------------------------------------------------------------------ every operation: specification and WF *)
Definition spec_of (o : op) (n : network) : network :=
  match o with
  | NRemoveLanelet i => restrict (neq i) all all all n
  | NRemoveSign i => restrict all (neq i) all all n
  | NRemoveLight i => restrict all all (neq i) all n
  | NRemoveInter i => restrict all all all (neq i) n
  | SRemoveLanelets l refs => restrict (notin l) (notin (fst (hang l refs n))) (notin (snd (hang l refs n))) all n
  | SRemoveSigns l => restrict all (notin l) all all n
  | SRemoveLights l => restrict all all (notin l) all n
  | SRemoveInters l => restrict all all all (notin l) n
  | CutOut sel shape excl => cut_spec sel shape excl n
  | FromList l => restrict (isin l) none none none n
  end.

Theorem apply_spec o n : WF n -> apply o n = spec_of o n.
Proof.
  intros W. destruct o; simpl.
  - apply net_remove_lanelet_spec; auto.
  - apply net_remove_sign_spec; auto.
  - apply net_remove_light_spec; auto.
  - apply net_remove_inter_spec; auto.
  - apply s_remove_lanelets_spec; auto.
  - apply remove_signs_spec; auto.
  - apply remove_lights_spec; auto.
  - apply remove_inters_spec; auto.
  - apply cutout_spec; auto.
  - apply from_list_spec; auto.
Qed.

Theorem spec_wf o n : WF n -> WF (spec_of o n).
Proof. intros W. destruct o; simpl; try (apply restrict_wf; assumption). apply cut_spec_wf; assumption. Qed.

Theorem apply_wf o n : WF n -> WF (apply o n).
Proof. intros W. rewrite apply_spec by assumption. apply spec_wf; assumption. Qed.

Theorem reachable_wf ops n : WF n -> WF (run step ops n).
Proof.
  intros W. apply (run_inv step WF (fun _ _ => true)).
  - intros s o Hs _. simpl. apply apply_wf; assumption.
  - exact W.
  - induction ops in n |- *; simpl; auto.
Qed.

(* ------------------------------------------------------------------ the boolean well-formedness test decides WF *)
Lemma nodupb_NoDup l : nodupb l = true <-> NoDup l.
Proof.
  induction l as [|a l IH]; simpl.
  - split; auto. constructor.
  - rewrite andb_true_iff, negb_true_iff, mem_false, IH. split.
    + intros [H1 H2]. constructor; auto.
    + intros H. inversion H; auto.
Qed.
Lemma inclb_incl a b : inclb a b = true <-> incl a b.
Proof.
  unfold inclb. rewrite forallb_forall. unfold incl. split; intros H z Hz.
  - apply mem_In. auto.
  - apply mem_In. auto.
Qed.
Lemma opt_inb_opt_in o l : opt_inb o l = true <-> opt_in o l.
Proof. destruct o; simpl; [apply mem_In|tauto]. Qed.
Lemma dir_okb_dir_ok o d : dir_okb o d = true <-> dir_ok o d.
Proof. destruct o, d; simpl; split; intros; try reflexivity; try discriminate. Qed.

Lemma wfb_lanelet_iff n l : wfb_lanelet n l = true <-> wf_lanelet n l.
Proof.
  unfold wfb_lanelet, wf_lanelet. rewrite !andb_true_iff, !inclb_incl, !opt_inb_opt_in, !dir_okb_dir_ok.
  destruct (l_stop l) as [[s t]|]; [rewrite andb_true_iff, !inclb_incl|]; tauto.
Qed.
Lemma wfb_inter_iff n x : wfb_inter n x = true <-> wf_inter n x.
Proof.
  unfold wfb_inter, wf_inter. rewrite andb_true_iff, inclb_incl, forallb_forall.
  split; intros [H1 H2]; split; auto; intros i Hi; specialize (H1 i Hi).
  - apply andb_true_iff in H1. destruct H1 as [H1 H3]. apply opt_inb_opt_in in H3. split; auto.
    unfold wfb_incoming in H1. rewrite !andb_true_iff, !inclb_incl in H1. unfold wf_incoming. tauto.
  - destruct H1 as [H1 H3]. apply andb_true_iff. split; [|apply opt_inb_opt_in; auto].
    unfold wfb_incoming. rewrite !andb_true_iff, !inclb_incl. unfold wf_incoming in H1. tauto.
Qed.
Theorem wfb_WF n : wfb n = true <-> WF n.
Proof.
  unfold wfb, WF. rewrite !andb_true_iff, !nodupb_NoDup, !forallb_forall.
  split; intros (((((A & B) & C) & D) & E) & F) || intros (A & B & C & D & E & F).
  - do 4 (split; [assumption|]). split; intros; [apply wfb_lanelet_iff | apply wfb_inter_iff]; auto.
  - split; [split; [repeat split; assumption|]|]; intros; [apply wfb_lanelet_iff | apply wfb_inter_iff]; auto.
Qed.

(* ------------------------------------------------------------------ what WF and restrict say, reference by reference *)
Theorem WF_no_dangling n : WF n ->
  (forall l z, In l (lanelets n) ->
     (In z (l_pred l) \/ In z (l_succ l) \/ l_adjL l = Some z \/ l_adjR l = Some z -> In z (lanelet_ids n)) /\
     (In z (l_signs l) -> In z (sign_ids n)) /\ (In z (l_lights l) -> In z (light_ids n)) /\
     (forall s t, l_stop l = Some (s, t) -> (In z s -> In z (l_signs l) /\ In z (sign_ids n)) /\
                                            (In z t -> In z (l_lights l) /\ In z (light_ids n)))) /\
  (forall x z, In x (inters n) ->
     (In z (x_cross x) -> In z (lanelet_ids n)) /\
     (forall i, In i (x_incs x) ->
        (In z (i_lanelets i) \/ In z (i_right i) \/ In z (i_straight i) \/ In z (i_left i) -> In z (lanelet_ids n)) /\
        (i_leftof i = Some z -> In z (map i_id (x_incs x))))).
Proof.
  intros (_ & _ & _ & _ & HL & HX). split.
  - intros l z Hl. destruct (HL l Hl) as (A1 & A2 & A3 & A4 & _ & _ & A7 & A8 & A9). repeat split.
    + intros [H|[H|[H|H]]]; auto; [rewrite H in A3 | rewrite H in A4]; assumption.
    + auto.
    + auto.
    + rewrite H in A9. destruct A9. auto.
    + rewrite H in A9. destruct A9. auto.
    + rewrite H in A9. destruct A9. auto.
    + rewrite H in A9. destruct A9. auto.
  - intros x z Hx. destruct (HX x Hx) as [B1 B2]. split; auto. intros i Hi.
    destruct (B1 i Hi) as [(C1 & C2 & C3 & C4) C5]. split.
    + intros [H|[H|[H|H]]]; auto.
    + intros H. rewrite H in C5. exact C5.
Qed.

(* the elements of [restrict]: exactly the selected ones, each with its content minus the references to what left *)
Theorem restrict_elements kL kS kT kX n :
  (forall l', In l' (lanelets (restrict kL kS kT kX n)) <->
              exists l, In l (lanelets n) /\ kL (l_id l) = true /\ l' = clean_lanelet kL kS kT l) /\
  (forall s, In s (signs (restrict kL kS kT kX n)) <-> In s (signs n) /\ kS (fst s) = true) /\
  (forall s, In s (lights (restrict kL kS kT kX n)) <-> In s (lights n) /\ kT (fst s) = true) /\
  (forall x', In x' (inters (restrict kL kS kT kX n)) <->
              exists x, In x (inters n) /\ kX (x_id x) = true /\ x' = clean_inter_l kL x).
Proof.
  unfold restrict; simpl. split; [|split; [|split]].
  - intros l'. split.
    + intros H. apply in_map_iff in H. destruct H as (l & E & H). apply filter_In in H. exists l. intuition.
    + intros (l & H1 & H2 & ->). apply in_map. apply filter_In. auto.
  - intros s. apply filter_In.
  - intros s. apply filter_In.
  - intros x'. split.
    + intros H. apply in_map_iff in H. destruct H as (x & E & H). apply filter_In in H. exists x. intuition.
    + intros (x & H1 & H2 & ->). apply in_map. apply filter_In. auto.
Qed.

Theorem clean_lanelet_content kL kS kT l (l' := clean_lanelet kL kS kT l) :
  l_id l' = l_id l /\ l_types l' = l_types l /\ l_payload l' = l_payload l /\
  (forall z, In z (l_pred l') <-> In z (l_pred l) /\ kL z = true) /\
  (forall z, In z (l_succ l') <-> In z (l_succ l) /\ kL z = true) /\
  (forall z, l_adjL l' = Some z <-> l_adjL l = Some z /\ kL z = true) /\
  (forall z, l_adjR l' = Some z <-> l_adjR l = Some z /\ kL z = true) /\
  (forall z, l_adjL l' = Some z -> l_adjL_dir l' = l_adjL_dir l) /\
  (forall z, l_adjR l' = Some z -> l_adjR_dir l' = l_adjR_dir l) /\
  (forall z, In z (l_signs l') <-> In z (l_signs l) /\ kS z = true) /\
  (forall z, In z (l_lights l') <-> In z (l_lights l) /\ kT z = true) /\
  (l_stop l' = None <-> l_stop l = None) /\
  (forall s t s' t', l_stop l = Some (s, t) -> l_stop l' = Some (s', t') ->
     forall z, (In z s' <-> In z s /\ kS z = true) /\ (In z t' <-> In z t /\ kT z = true)).
Proof.
  subst l'. unfold clean_lanelet; simpl.
  assert (KO : forall o z, keepo kL o = Some z <-> o = Some z /\ kL z = true).
  { intros [y|] z; simpl; [|split; [discriminate|intros [? _]; discriminate]].
    destruct (kL y) eqn:E; split; intros H.
    - inversion H; subst; auto.
    - destruct H as [H _]. exact H.
    - discriminate.
    - destruct H as [H1 H2]. inversion H1; subst. congruence. }
  assert (KD : forall o d z, keepo kL o = Some z -> keepd kL o d = d).
  { intros [y|] d z; simpl; [|discriminate]. destruct (kL y); [reflexivity|discriminate]. }
  do 3 (split; [reflexivity|]).
  do 2 (split; [intros z; apply keepl_In|]).
  do 2 (split; [intros z; apply KO|]).
  do 2 (split; [intros z H; eapply KD; eassumption|]).
  do 2 (split; [intros z; apply keepl_In|]).
  split.
  - destruct (l_stop l) as [[? ?]|]; split; intros H; try discriminate H; reflexivity.
  - intros s t s' t' H H0 z. rewrite H in H0. inversion H0; subst. split; apply keepl_In.
Qed.

(* signs / lights of a cut-out: exactly those a kept lanelet references *)
Theorem cut_spec_signs sel shape excl n s :
  In s (signs (cut_spec sel shape excl n)) <->
  In s (signs n) /\ exists l, In l (cut_kept sel shape excl n) /\ In (fst s) (l_signs l).
Proof. unfold cut_spec, prune, restrict; simpl. rewrite filter_In. unfold isin. rewrite mem_flat_map. tauto. Qed.
Theorem cut_spec_lights sel shape excl n s :
  In s (lights (cut_spec sel shape excl n)) <->
  In s (lights n) /\ exists l, In l (cut_kept sel shape excl n) /\ In (fst s) (l_lights l).
Proof. unfold cut_spec, prune, restrict; simpl. rewrite filter_In. unfold isin. rewrite mem_flat_map. tauto. Qed.
Theorem cut_spec_lanelet_ids sel shape excl n : NoDup (lanelet_ids n) ->
  lanelet_ids (cut_spec sel shape excl n) = map l_id (cut_kept sel shape excl n).
Proof.
  intros N. unfold cut_spec. change (lanelet_ids (prune ?m)) with (lanelet_ids m). rewrite restrict_lanelet_ids.
  unfold lanelet_ids. rewrite <- (map_filter_ids l_id). rewrite kept_filter by exact N. reflexivity.
Qed.

(* ------------------------------------------------------------------ over histories: nothing appears and no content
   changes except by losing references *)
Definition adj_le (o' : option Z) (d' : option bool) (o : option Z) (d : option bool) : Prop :=
  (o' = None /\ d' = None) \/ (o' = o /\ d' = d).
Definition stop_le (s' s : option (list Z * list Z)) : Prop :=
  match s', s with
  | None, None => True
  | Some (a', b'), Some (a, b) => incl a' a /\ incl b' b
  | _, _ => False
  end.
Definition lanelet_le (l' l : lanelet) : Prop :=
  l_id l' = l_id l /\ l_types l' = l_types l /\ l_payload l' = l_payload l /\
  incl (l_pred l') (l_pred l) /\ incl (l_succ l') (l_succ l) /\
  adj_le (l_adjL l') (l_adjL_dir l') (l_adjL l) (l_adjL_dir l) /\
  adj_le (l_adjR l') (l_adjR_dir l') (l_adjR l) (l_adjR_dir l) /\
  incl (l_signs l') (l_signs l) /\ incl (l_lights l') (l_lights l) /\ stop_le (l_stop l') (l_stop l).
Definition incoming_le (i' i : incoming) : Prop :=
  i_id i' = i_id i /\ incl (i_lanelets i') (i_lanelets i) /\ incl (i_right i') (i_right i) /\
  incl (i_straight i') (i_straight i) /\ incl (i_left i') (i_left i) /\
  (i_leftof i' = None \/ i_leftof i' = i_leftof i).
Definition inter_le (x' x : inter) : Prop :=
  x_id x' = x_id x /\ incl (x_cross x') (x_cross x) /\
  forall i', In i' (x_incs x') -> exists i, In i (x_incs x) /\ incoming_le i' i.
Definition net_le (n' n : network) : Prop :=
  (forall l', In l' (lanelets n') -> exists l, In l (lanelets n) /\ lanelet_le l' l) /\
  incl (signs n') (signs n) /\ incl (lights n') (lights n) /\
  (forall x', In x' (inters n') -> exists x, In x (inters n) /\ inter_le x' x).

Lemma adj_le_refl o d : adj_le o d o d.
Proof. right; auto. Qed.
Lemma adj_le_trans o2 d2 o1 d1 o d : adj_le o2 d2 o1 d1 -> adj_le o1 d1 o d -> adj_le o2 d2 o d.
Proof. unfold adj_le. intros [[-> ->]|[-> ->]] H; auto. Qed.
Lemma stop_le_refl s : stop_le s s.
Proof. destruct s as [[a b]|]; simpl; auto using incl_refl. Qed.
Lemma stop_le_trans s2 s1 s : stop_le s2 s1 -> stop_le s1 s -> stop_le s2 s.
Proof.
  destruct s2 as [[a2 b2]|], s1 as [[a1 b1]|], s as [[a b]|]; simpl; try tauto.
  intros [? ?] [? ?]; split; eapply incl_tran; eauto.
Qed.
Lemma lanelet_le_refl l : lanelet_le l l.
Proof. unfold lanelet_le. repeat split; auto using incl_refl, adj_le_refl, stop_le_refl. Qed.
Lemma lanelet_le_trans l2 l1 l : lanelet_le l2 l1 -> lanelet_le l1 l -> lanelet_le l2 l.
Proof.
  intros (A1 & A2 & A3 & A4 & A5 & A6 & A7 & A8 & A9 & A10) (B1 & B2 & B3 & B4 & B5 & B6 & B7 & B8 & B9 & B10).
  unfold lanelet_le. repeat split; try congruence; try (eapply incl_tran; eassumption);
    try (eapply adj_le_trans; eassumption). eapply stop_le_trans; eassumption.
Qed.
Lemma incoming_le_trans i2 i1 i : incoming_le i2 i1 -> incoming_le i1 i -> incoming_le i2 i.
Proof.
  intros (A1 & A2 & A3 & A4 & A5 & A6) (B1 & B2 & B3 & B4 & B5 & B6). unfold incoming_le.
  repeat split; try congruence; try (eapply incl_tran; eassumption).
  destruct A6 as [A6|A6]; auto. rewrite A6. exact B6.
Qed.
Lemma inter_le_trans x2 x1 x : inter_le x2 x1 -> inter_le x1 x -> inter_le x2 x.
Proof.
  intros (A1 & A2 & A3) (B1 & B2 & B3). unfold inter_le. split; [congruence|]. split; [eapply incl_tran; eassumption|].
  intros i2 H2. destruct (A3 i2 H2) as (i1 & H1 & L1). destruct (B3 i1 H1) as (i & H & L).
  exists i. split; auto. eapply incoming_le_trans; eassumption.
Qed.
Lemma net_le_refl n : net_le n n.
Proof.
  unfold net_le. repeat split; auto using incl_refl.
  - intros l H. exists l. split; auto using lanelet_le_refl.
  - intros x H. exists x. split; auto. unfold inter_le. repeat split; auto using incl_refl.
    intros i Hi. exists i. split; auto. unfold incoming_le. repeat split; auto using incl_refl.
Qed.
Lemma net_le_trans n2 n1 n : net_le n2 n1 -> net_le n1 n -> net_le n2 n.
Proof.
  intros (A1 & A2 & A3 & A4) (B1 & B2 & B3 & B4). unfold net_le. split; [|split; [|split]].
  - intros l2 H2. destruct (A1 l2 H2) as (l1 & H1 & L1). destruct (B1 l1 H1) as (l & H & L).
    exists l. split; auto. eapply lanelet_le_trans; eassumption.
  - eapply incl_tran; eassumption.
  - eapply incl_tran; eassumption.
  - intros x2 H2. destruct (A4 x2 H2) as (x1 & H1 & L1). destruct (B4 x1 H1) as (x & H & L).
    exists x. split; auto. eapply inter_le_trans; eassumption.
Qed.

Lemma keepl_incl k l : incl (keepl k l) l.
Proof. apply incl_filter. Qed.
Lemma clean_lanelet_le a b c l : lanelet_le (clean_lanelet a b c l) l.
Proof.
  unfold lanelet_le, clean_lanelet; simpl. repeat split; auto using keepl_incl.
  - unfold adj_le. destruct (l_adjL l) as [z|]; simpl; auto. destruct (a z); auto.
  - unfold adj_le. destruct (l_adjR l) as [z|]; simpl; auto. destruct (a z); auto.
  - destruct (l_stop l) as [[s t]|]; simpl; auto using keepl_incl.
Qed.
Lemma clean_inter_le k x : inter_le (clean_inter_l k x) x.
Proof.
  unfold inter_le, clean_inter_l; simpl. repeat split; auto using keepl_incl.
  intros i' H. apply in_map_iff in H. destruct H as (i & <- & H). exists i. split; auto.
  unfold incoming_le, clean_incoming_l; simpl. repeat split; auto using keepl_incl.
Qed.
Lemma restrict_le a b c d n : net_le (restrict a b c d n) n.
Proof.
  unfold net_le, restrict; simpl. split; [|split; [|split]].
  - intros l' H. apply in_map_iff in H. destruct H as (l & <- & H). apply filter_In in H.
    exists l. split; [tauto|apply clean_lanelet_le].
  - apply incl_filter.
  - apply incl_filter.
  - intros x' H. apply in_map_iff in H. destruct H as (x & <- & H). apply filter_In in H.
    exists x. split; [tauto|apply clean_inter_le].
Qed.
Lemma prune_le n : net_le (prune n) n.
Proof.
  unfold net_le, prune; simpl. split; [|split; [|split]]; auto using incl_refl.
  - intros l H. exists l. split; auto using lanelet_le_refl.
  - intros x' H. apply in_flat_map in H. destruct H as (x & Hx & H). exists x. split; auto.
    unfold prune_inter in H. destruct (filter live_incoming (x_incs x)) as [|i0 r] eqn:E; [contradiction|].
    remember (i0 :: r) as incs' eqn:Ei. clear Ei i0 r. destruct H as [<-|[]].
    unfold inter_le; simpl. repeat split; auto using incl_refl.
    intros i' H. apply in_map_iff in H. destruct H as (i & <- & H). exists i. split.
    + rewrite <- E in H. apply filter_In in H. tauto.
    + unfold incoming_le, fix_leftof; simpl. repeat split; auto using incl_refl.
      destruct (i_leftof i) as [z|]; simpl; auto. destruct (mem z (map i_id incs')); auto.
Qed.

Theorem spec_le o n : net_le (spec_of o n) n.
Proof.
  destruct o; simpl; try apply restrict_le.
  unfold cut_spec. eapply net_le_trans; [apply prune_le|apply restrict_le].
Qed.
Theorem reachable_le ops n : WF n -> net_le (run step ops n) n.
Proof.
  revert n. induction ops as [|o r IH]; intros n W; simpl.
  - apply net_le_refl.
  - eapply net_le_trans; [apply IH; apply apply_wf; exact W|].
    rewrite apply_spec by exact W. apply spec_le.
Qed.

(* ------------------------------------------------------------------ concrete networks *)
(* a crossing: lanelets 1 -> 2 and 3 -> 4, adjacent pairs, one shared sign, one light, a stop line, an
   intersection with two incoming elements left of each other, and a crossing lanelet 5 *)
Definition L (i : Z) p s aL aR sg lg st := mkL i p s aL (match aL with Some _ => Some true | None => None end)
                                              aR (match aR with Some _ => Some false | None => None end) sg lg st [0] (1000 + i).
Definition demo_net : network :=
  mkN [L 1 [] [2] (Some 3) None [100] [200] (Some ([100], [200]));
       L 2 [1] [] None None [100] [] None;
       L 3 [] [4] None (Some 1) [101] [200] (Some ([], [200]));
       L 4 [3] [] None None [] [] None;
       L 5 [] [] None None [] [] None]
      [(100, 7); (101, 8); (102, 9)] [(200, 5)]
      [mkX 300 [mkI 301 [1] [] [2] [] (Some 302); mkI 302 [3] [] [4] [] (Some 301)] [5]].

Lemma demo_wf : WF demo_net.
Proof. apply wfb_WF. vm_compute. reflexivity. Qed.

(* removing lanelet 1 at scenario level (referenced elements on): sign 100 stays (lanelet 2 references it), light 200
   stays (lanelet 3), the references to 1 disappear, everything else is untouched; then removing sign 100 cleans the
   stop-line-free lanelet 2; then cutting out lanelets {3, 4, 5} drops incoming 301 (no incoming lanelet left),
   clears the left_of of 302 and drops the signs nobody references *)
Definition demo_ops : list op := [SRemoveLanelets [1] true; NRemoveSign 100; CutOut [3; 4; 5] true []].
Definition demo_result : network :=
  mkN [L 3 [] [4] None None [101] [200] (Some ([], [200])); L 4 [3] [] None None [] [] None; L 5 [] [] None None [] [] None]
      [(101, 8)] [(200, 5)] [mkX 300 [mkI 302 [3] [] [4] [] None] [5]].
Lemma demo_run : run step demo_ops demo_net = demo_result /\ WF demo_result /\
  hang [1] true demo_net = ([], []) /\ hang [1; 3] true demo_net = ([101], [200]).
Proof. split; [vm_compute; reflexivity|]. split; [apply wfb_WF; vm_compute; reflexivity|]. split; vm_compute; reflexivity. Qed.

(* the cut-out does more than the specification "kept part": with lanelets {1, 3, 4, 5} kept, incoming element 301
   keeps its incoming lanelet 1 but loses its only successor 2 and is dropped; with {1, 3, 5} kept, both incoming
   elements lose their successors and intersection 300 disappears although incoming lanelets of it remain *)
Definition kept_part (sel : list Z) (n : network) : network :=
  let kept := cut_kept sel true [] n in
  restrict (isin (map l_id kept)) (isin (flat_map l_signs kept)) (isin (flat_map l_lights kept)) all n.

Lemma cutout_exact_refuted :
  WF demo_net /\
  (* an incoming element whose incoming lanelet remains is missing *)
  In 1 (lanelet_ids (cutout [1; 3; 4; 5] true [] demo_net)) /\
  map (fun x => map i_id (x_incs x)) (inters (kept_part [1; 3; 4; 5] demo_net)) = [[301; 302]] /\
  map (fun x => map i_id (x_incs x)) (inters (cutout [1; 3; 4; 5] true [] demo_net)) = [[302]] /\
  (* an intersection whose incoming lanelets remain is missing *)
  inter_ids (kept_part [1; 3; 5] demo_net) = [300] /\ inter_ids (cutout [1; 3; 5] true [] demo_net) = [] /\
  cutout [1; 3; 5] true [] demo_net <> kept_part [1; 3; 5] demo_net.
Proof.
  split; [exact demo_wf|]. repeat split; try (vm_compute; reflexivity).
  - vm_compute. auto.
  - intros H. apply (f_equal inter_ids) in H. vm_compute in H. discriminate.
Qed.
