(* Proofs/EqHashT.v — C12: hash() raises for no object whose attributes hold values of their declared types,
   for every (spec table, type table) that passes the static check [types_hashable] (closed by vm_compute on the
   concrete tables in Props/C12.v). *)
From Coq Require Import QArith ZArith List Bool String.
From CR Require Import Model.EqHash Model.EqHashTypes Proofs.EqHash Proofs.EqHashH.
Import ListNotations.

(* ------------------------------------------------------------------ has_ty unfolded *)
Definition alt_ok (tt : ttable) (a : alt) (v : value) : bool :=
  match a, v with
  | ANone, VNone => true
  | ABool, VBool _ => true
  | AInt, VInt _ => true
  | AInt, VBool _ => true
  | ANum, VNum _ => true
  | ANum, VInt _ => true
  | AStr, VStr _ => true
  | AEnum, VEnum _ => true
  | AArr, VArr _ _ => true
  | AList t', VList l => forallb (fun x => has_ty tt x t') l
  | ASet t', VSet l => forallb (fun x => has_ty tt x t') l
  | ADict k t', VSet l =>
      forallb (fun p => match p with
                        | VList [kk; vv] => has_ty tt kk k && has_ty tt vv t'
                        | _ => false
                        end) l
  | AObj c, VObj c' fs =>
      String.eqb c c' && (match assoc c tt with Some _ => true | None => false end) &&
      forallb (fun p => match attr_ty tt c (fst p) with
                        | Some t' => has_ty tt (snd p) t'
                        | None => false
                        end) fs
  | _, _ => false
  end.

Lemma has_ty_unfold tt v alts : has_ty tt v (TY alts) = existsb (fun a => alt_ok tt a v) alts.
Proof. destruct v; reflexivity. Qed.

Lemma has_ty_alt tt v alts : has_ty tt v (TY alts) = true -> exists a, List.In a alts /\ alt_ok tt a v = true.
Proof. rewrite has_ty_unfold. intro H. apply existsb_exists in H. exact H. Qed.

Lemma alt_has_ty tt v alts a : List.In a alts -> alt_ok tt a v = true -> has_ty tt v (TY alts) = true.
Proof. intros Hin Ha. rewrite has_ty_unfold. apply existsb_exists. eauto. Qed.

Lemma mapM_total {A B} (f : A -> option B) l :
  (forall a, List.In a l -> exists b, f a = Some b) -> exists r, mapM f l = Some r.
Proof.
  induction l as [|a l IH]; simpl; intro H; [eauto|].
  destruct (H a (or_introl eq_refl)) as (b & ->).
  destruct IH as (r & ->); [intros; apply H; auto|]. eauto.
Qed.

Lemma hv_none T w : hv T w = Some VNone -> w = VNone.
Proof.
  destruct w; simpl; intro H; try (inversion H; fail); auto.
  - match type of H with option_map _ ?x = _ => destruct x end; discriminate.
  - match type of H with option_map _ ?x = _ => destruct x end; discriminate.
  - destruct (hv T w); discriminate.
  - destruct (spec_of T cls) as [sp|]; [|discriminate].
    match type of H with option_map _ ?x = _ => destruct x as [ks|] end; [|discriminate].
    destruct (obj_key_is_key (family_of T cls) (f_hmode sp) ks) as (v & E). simpl in H. rewrite E in H. discriminate.
Qed.

Lemma value_none_dec (w : value) : w = VNone \/ w <> VNone.
Proof. destruct w; auto; right; discriminate. Qed.

Lemma hnorm_opt_notnone h u : u <> VNone -> hnorm (HOpt h) u = hnorm h u.
Proof. destruct u; try reflexivity. intro H. exfalso. apply H. reflexivity. Qed.

Lemma hnorm_noneempty_notnone h u : u <> VNone -> hnorm (HNoneEmpty h) u = hnorm h u.
Proof. destruct u; try reflexivity. intro H. exfalso. apply H. reflexivity. Qed.

Lemma alt_ok_notnone tt a w : alt_ok tt a w = true -> w <> VNone -> is_anone a = false.
Proof. destruct a; try reflexivity. destruct w; try discriminate. intros _ H. exfalso. apply H. reflexivity. Qed.

Section Total.
  Variable T : table.
  Variable tt : ttable.
  Hypothesis HTT : types_hashable T tt = true.

  (* values of a hashable type have hashable keys *)
  Lemma alt_hashable_key a w u : alt_ok tt a w = true -> alt_hashable a = true -> hv T w = Some u -> hashable u = true.
  Proof.
    intros Ha Hh Hu. destruct a; try discriminate Hh; destruct w; try discriminate Ha;
      try (simpl in Hu; inversion Hu; reflexivity).
    rewrite hv_obj in Hu. destruct (spec_of T cls) as [sp|]; [|discriminate].
    destruct (hpairs T sp fs) as [ks|]; [|discriminate]. simpl in Hu. inversion Hu.
    destruct (obj_key_is_key (family_of T cls) (f_hmode sp) ks) as (v & ->). reflexivity.
  Qed.

  Lemma ty_hashable_key w t u :
    has_ty tt w t = true -> forallb alt_hashable (ty_alts t) = true -> hv T w = Some u -> hashable u = true.
  Proof.
    destruct t as [alts]. intros Hty Hall Hu. destruct (has_ty_alt _ _ _ Hty) as (a & Hin & Ha).
    simpl in Hall. rewrite forallb_forall in Hall. eapply alt_hashable_key; eauto.
  Qed.

  Lemma elements_total h t' l us :
    (forall w t u, has_ty tt w t = true -> hok h t = true -> hv T w = Some u -> exists k, hnorm h u = Some k) ->
    forallb (fun x => has_ty tt x t') l = true -> hok h t' = true -> mapM (hv T) l = Some us ->
    exists r, mapM (hnorm h) us = Some r.
  Proof.
    intros IH Hl Hok Hus. apply mapM_total. intros ui Hui.
    destruct (proj2 (mapM_in _ _ _ Hus) ui Hui) as (x & Hx & Hxin).
    rewrite forallb_forall in Hl. eapply IH; eauto.
  Qed.

  (* a hash preparation that accepts the type raises for no value of the type *)
  Lemma hnorm_total h : forall w t u,
    has_ty tt w t = true -> hok h t = true -> hv T w = Some u -> exists k, hnorm h u = Some k.
  Proof.
    induction h; intros w [alts] u Hty Hok Hu; destruct (has_ty_alt _ _ _ Hty) as (a & Hin & Ha);
      cbn [hok] in Hok.
    - (* HPy *)
      rewrite forallb_forall in Hok. simpl. rewrite (alt_hashable_key a w u Ha (Hok a Hin) Hu). eauto.
    - (* HArr10 *)
      rewrite forallb_forall in Hok. specialize (Hok a Hin). destruct a; try discriminate Hok.
      destruct w; try discriminate Ha. simpl in Hu. inversion Hu. simpl. eauto.
    - (* HState *)
      rewrite forallb_forall in Hok. specialize (Hok a Hin).
      destruct a; try discriminate Hok;
        try (pose proof (alt_hashable_key _ w u Ha eq_refl Hu) as Hh; destruct u; simpl in *; try discriminate Hh; eauto).
      destruct w; try discriminate Ha. simpl in Hu. inversion Hu. simpl. eauto.
    - (* HStr *)
      rewrite forallb_forall in Hok. pose proof (alt_hashable_key a w u Ha (Hok a Hin) Hu) as Hh.
      destruct u; simpl in *; try discriminate Hh; eauto.
    - (* HIgnored *)
      simpl. eauto.
    - (* HTupleOf *)
      rewrite forallb_forall in Hok. specialize (Hok a Hin). destruct a; try discriminate Hok.
      destruct w; try discriminate Ha. simpl in Ha. rewrite hv_list in Hu.
      destruct (mapM (hv T) l) as [us|] eqn:E; [|discriminate]. inversion Hu; subst.
      destruct (elements_total h t l us IHh Ha Hok E) as (r & Hr). simpl. rewrite Hr. simpl. eauto.
    - (* HFrozenOf *)
      rewrite forallb_forall in Hok. specialize (Hok a Hin). destruct a; try discriminate Hok;
        destruct w; try discriminate Ha; simpl in Ha.
      + rewrite hv_list in Hu. destruct (mapM (hv T) l) as [us|] eqn:E; [|discriminate]. inversion Hu; subst.
        destruct (elements_total h t l us IHh Ha Hok E) as (r & Hr). simpl. rewrite Hr. simpl. eauto.
      + rewrite hv_set in Hu. destruct (mapM (hv T) l) as [us|] eqn:E; [|discriminate]. inversion Hu; subst.
        destruct (elements_total h t l us IHh Ha Hok E) as (r & Hr). simpl. rewrite Hr. simpl. eauto.
    - (* HItemsOf *)
      rewrite forallb_forall in Hok. specialize (Hok a Hin).
      destruct a as [| | | | | | | t1 | t1 | kt vt | c1]; try discriminate Hok.
      apply andb_true_iff in Hok. destruct Hok as [Hk Hv].
      destruct w; try discriminate Ha. simpl in Ha. rewrite hv_set in Hu.
      destruct (mapM (hv T) l) as [us|] eqn:E; [|discriminate]. inversion Hu; subst.
      cbn [hnorm].
      match goal with |- exists k, option_map _ (mapM ?f us) = Some k => set (F := f) end.
      assert (G : exists r, mapM F us = Some r).
      { apply mapM_total. intros ui Hui.
        destruct (proj2 (mapM_in _ _ _ E) ui Hui) as (p & Hp & Hpin).
        rewrite forallb_forall in Ha. specialize (Ha p Hpin).
        destruct p; try discriminate Ha. destruct l0 as [|kk [|vv [|? ?]]]; try discriminate Ha.
        apply andb_true_iff in Ha. destruct Ha as [Hkk Hvv].
        rewrite hv_list in Hp. simpl in Hp.
        destruct (hv T kk) as [uk|] eqn:Ek; [|discriminate]. destruct (hv T vv) as [uv|] eqn:Ev; [|discriminate].
        simpl in Hp. inversion Hp; subst. unfold F.
        rewrite (ty_hashable_key kk kt uk Hkk Hk Ek).
        destruct (IHh vv vt uv Hvv Hv Ev) as (kv & ->). simpl. eauto. }
      destruct G as (r & ->). simpl. eauto.
    - (* HTupleIfList *)
      rewrite forallb_forall in Hok. specialize (Hok a Hin).
      destruct a; try discriminate Hok;
        try (pose proof (alt_hashable_key _ w u Ha eq_refl Hu) as Hh; destruct u; simpl in *; try discriminate Hh; eauto).
      destruct w; try discriminate Ha. simpl in Ha. rewrite hv_list in Hu.
      destruct (mapM (hv T) l) as [us|] eqn:E; [|discriminate]. inversion Hu; subst.
      destruct (elements_total h t l us IHh Ha Hok E) as (r & Hr). simpl. rewrite Hr. simpl. eauto.
    - (* HOpt *)
      destruct (value_none_dec w) as [->|Hw].
      + simpl in Hu. inversion Hu. simpl. eauto.
      + assert (Hn : u <> VNone) by (intro E; subst u; apply Hw; eapply hv_none; eauto).
        rewrite (hnorm_opt_notnone h u Hn).
        apply (IHh w (TY (filter (fun a => negb (is_anone a)) alts))); [|exact Hok|exact Hu].
        apply (alt_has_ty tt w _ a); [|exact Ha]. apply filter_In. split; [exact Hin|].
        rewrite (alt_ok_notnone tt a w Ha Hw). reflexivity.
    - (* HNoneEmpty *)
      destruct (value_none_dec w) as [->|Hw].
      + simpl in Hu. inversion Hu. cbn [hnorm].
        apply (IHh (VList []) (TY (map (fun a => if is_anone a then AList (TY []) else a) alts)));
          [|exact Hok|reflexivity].
        destruct a; try discriminate Ha.
        apply (alt_has_ty tt _ _ (AList (TY []))); [|reflexivity].
        apply in_map_iff. exists ANone. split; auto.
      + assert (Hn : u <> VNone) by (intro E; subst u; apply Hw; eapply hv_none; eauto).
        rewrite (hnorm_noneempty_notnone h u Hn).
        apply (IHh w (TY (map (fun a => if is_anone a then AList (TY []) else a) alts))); [|exact Hok|exact Hu].
        apply (alt_has_ty tt w _ a); [|exact Ha]. apply in_map_iff. exists a. split; auto.
        rewrite (alt_ok_notnone tt a w Ha Hw). reflexivity.
  Qed.

  (* ---------------------------------------------------------------- objects *)
  Lemma hpairs_total sp fs :
    (forall n w, List.In (n, w) fs -> exists u k, hv T w = Some u /\ hnorm (hkind_of sp n) u = Some k) ->
    exists ks, hpairs T sp fs = Some ks.
  Proof.
    induction fs as [|[n w] r IH]; simpl; intro H; [eauto|].
    destruct IH as (ks & Hks); [intros; eapply H; eauto|].
    destruct (is_hignored (hkind_of sp n)); [eauto|].
    destruct (H n w (or_introl eq_refl)) as (u & k & -> & ->). rewrite Hks. eauto.
  Qed.

  Lemma class_entry c e : assoc c tt = Some e -> class_hashable T (c, e) = true.
  Proof.
    intro Ec. apply assoc_in in Ec. pose proof HTT as H0. unfold types_hashable in H0.
    rewrite forallb_forall in H0. exact (H0 _ Ec).
  Qed.

  Lemma class_attr_hok c n t' : attr_ty tt c n = Some t' ->
    exists sp, spec_of T c = Some sp /\ hok (hkind_of sp n) t' = true.
  Proof.
    unfold attr_ty. destruct (assoc c tt) as [[l d]|] eqn:Ec; [|discriminate].
    pose proof (class_entry _ _ Ec) as H0. unfold class_hashable in H0. cbn [fst snd] in H0.
    destruct (spec_of T c) as [sp|]; [|discriminate]. apply andb_true_iff in H0. destruct H0 as [H1 H2].
    intro Ht. exists sp. split; auto.
    destruct (assoc n l) as [t1|] eqn:En.
    - inversion Ht; subst. apply assoc_in in En. rewrite forallb_forall in H1. exact (H1 _ En).
    - subst d. rewrite forallb_forall in H2. apply H2. unfold hkind_of.
      destruct (assoc n (f_hash sp)) as [h|] eqn:Eh.
      + right. apply assoc_in in Eh. apply (in_map snd) in Eh. exact Eh.
      + left. reflexivity.
  Qed.

  Lemma class_spec c e : assoc c tt = Some e -> exists sp, spec_of T c = Some sp.
  Proof.
    intro Ec. pose proof (class_entry _ _ Ec) as H0. unfold class_hashable in H0. cbn [fst snd] in H0.
    destruct (spec_of T c) as [sp|]; [eauto|discriminate].
  Qed.

  Definition PT (v : value) : Prop := forall t, has_ty tt v t = true -> exists u, hv T v = Some u.
  Definition PTs (v : value) : Prop := PT v /\ match v with VList l | VSet l => Forall PT l | _ => True end.

  Lemma PT_elements l : Forall PT l -> forall t', forallb (fun x => has_ty tt x t') l = true ->
    exists us, mapM (hv T) l = Some us.
  Proof.
    intros Hl t' Hty. apply mapM_total. intros x Hx. rewrite Forall_forall in Hl. rewrite forallb_forall in Hty.
    exact (Hl x Hx t' (Hty x Hx)).
  Qed.

  Lemma PTs_all : forall v, PTs v.
  Proof.
    induction v using value_ind'; unfold PTs; try (split; [intros t _; simpl; eexists; reflexivity|exact I]).
    - (* VList *)
      assert (F : Forall PT l) by (eapply Forall_impl; [|exact H]; intros a [Ha _]; exact Ha).
      split; [|exact F]. intros [alts] Hty. destruct (has_ty_alt _ _ _ Hty) as (a & _ & Ha).
      destruct a; try discriminate Ha. simpl in Ha.
      destruct (PT_elements l F t Ha) as (us & Hus). rewrite hv_list, Hus. simpl. eauto.
    - (* VSet *)
      assert (F : Forall PT l) by (eapply Forall_impl; [|exact H]; intros a [Ha _]; exact Ha).
      split; [|exact F]. intros [alts] Hty. destruct (has_ty_alt _ _ _ Hty) as (a & _ & Ha).
      destruct a; try discriminate Ha; simpl in Ha.
      + destruct (PT_elements l F t Ha) as (us & Hus). rewrite hv_set, Hus. simpl. eauto.
      + (* a dict: pairs [key; value] *)
        assert (G : exists us, mapM (hv T) l = Some us).
        { apply mapM_total. intros p Hp. rewrite forallb_forall in Ha. specialize (Ha p Hp).
          destruct p; try discriminate Ha. destruct l0 as [|kk [|vv [|? ?]]]; try discriminate Ha.
          apply andb_true_iff in Ha. destruct Ha as [Hkk Hvv].
          rewrite Forall_forall in H. destruct (H _ Hp) as [_ Hkv]. simpl in Hkv.
          inversion Hkv as [|? ? Pk Hr]; subst. inversion Hr as [|? ? Pv _]; subst.
          destruct (Pk _ Hkk) as (uk & Ek). destruct (Pv _ Hvv) as (uv & Ev).
          rewrite hv_list. simpl. rewrite Ek, Ev. simpl. eauto. }
        destruct G as (us & Hus). rewrite hv_set, Hus. simpl. eauto.
    - (* VKey *)
      split; [|exact I]. intros [alts] Hty. destruct (has_ty_alt _ _ _ Hty) as (a & _ & Ha).
      destruct a; discriminate Ha.
    - (* VObj *)
      split; [|exact I]. intros [alts] Hty. destruct (has_ty_alt _ _ _ Hty) as (a & _ & Ha).
      destruct a; try discriminate Ha. simpl in Ha. apply andb_true_iff in Ha. destruct Ha as [Hc Hfs].
      apply andb_true_iff in Hc. destruct Hc as [Hc Hknown].
      apply String.eqb_eq in Hc. subst c0. rewrite hv_obj.
      destruct (assoc c tt) as [e|] eqn:Ec; [|discriminate].
      destruct (class_spec c e Ec) as (sp & Hs). rewrite Hs.
      rewrite forallb_forall in Hfs. rewrite Forall_forall in H.
      destruct (hpairs_total sp fs) as (ks & ->); [|simpl; eauto].
      intros n w Hin. specialize (Hfs _ Hin). simpl in Hfs.
      destruct (attr_ty tt c n) as [t'|] eqn:Et; [|discriminate].
      destruct (proj1 (H _ Hin) t' Hfs) as (u & Hu). simpl in Hu.
      destruct (class_attr_hok c n t' Et) as (sp2 & Hs2 & Hok). rewrite Hs in Hs2. inversion Hs2; subst sp2.
      destruct (hnorm_total _ w t' u Hfs Hok Hu) as (k & Hk). eauto.
  Qed.

  (* hash() raises for no value whose attributes (recursively) hold values of their declared types *)
  Theorem hash_total v t : has_ty tt v t = true -> exists u, hv T v = Some u.
  Proof. exact (proj1 (PTs_all v) t). Qed.

  Corollary hash_total_obj c fs : has_ty tt (VObj c fs) (TY [AObj c]) = true -> exists k, hkey T (VObj c fs) = Some k.
  Proof.
    intro H. destruct (hash_total _ _ H) as (u & Hu). unfold hkey. rewrite Hu.
    rewrite hv_obj in Hu. destruct (spec_of T c) as [sp|]; [|discriminate].
    destruct (hpairs T sp fs) as [ks|]; [|discriminate]. simpl in Hu. inversion Hu.
    destruct (obj_key_is_key (family_of T c) (f_hmode sp) ks) as (v' & ->). simpl. eauto.
  Qed.
End Total.
