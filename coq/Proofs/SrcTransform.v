(* Proofs/SrcTransform.v — Model/Transform.v (which the C05 theorems are about) equals the Gallina text generated on
   every run from commonroad/geometry/transform.py by harness/vlib/py2coq.py (Gen/Src_transform.v); math.cos / math.sin
   are uninterpreted functions of their argument, so the lemmas also fix WHICH angle they are applied to. *)
From Coq Require Import QArith ZArith Bool List.
From CR Require Import Base.QMod Model.Transform Gen.Src_transform.
Open Scope Q_scope.

Section Eq.
  Variables cos_ sin_ : Q -> Q.

  Lemma src_translation_rotation_matrix_eq t a :
    src_translation_rotation_matrix cos_ sin_ t a = translation_rotation_matrix t a (cos_ a) (sin_ a).
  Proof. reflexivity. Qed.

  Lemma src_rotation_translation_matrix_eq t a :
    src_rotation_translation_matrix cos_ sin_ t a = rotation_translation_matrix t a (cos_ a) (sin_ a).
  Proof.
    unfold src_rotation_translation_matrix, rotation_translation_matrix, coef_rt.
    destruct (Qeq_bool a 0); reflexivity.
  Qed.

  Lemma src_translate_rotate_eq vs t a :
    src_translate_rotate cos_ sin_ vs t a = translate_rotate_pts t a (cos_ a) (sin_ a) vs.
  Proof. reflexivity. Qed.

  Lemma src_rotate_translate_eq vs t a :
    src_rotate_translate cos_ sin_ vs t a = rotate_translate_pts t a (cos_ a) (sin_ a) vs.
  Proof.
    unfold src_rotate_translate, rotate_translate_pts, rotation_translation_matrix, coef_rt.
    destruct (Qeq_bool a 0); reflexivity.
  Qed.
End Eq.
