(* Proofs/Scene.v — the fan-out of translate_rotate (Model/Scene.v) reaches every stored point and
   orientation of every component kind, leaves everything else alone, and never raises on valid input. *)
From Coq Require Import QArith ZArith Bool List Lia Lqa.
From CR Require Import Base.QMod Model.Interval Proofs.Interval Model.Transform Proofs.Transform Model.Shapes
  Proofs.Shapes Model.Scene.
Import ListNotations.
Open Scope Q_scope.

Section FANP.
  Variable tau : Q.
  Hypothesis tau_pos : 0 < tau.
  Variable fuel : nat.
  Variable t : pt.
  Variables a c s : Q.

  Notation mv := (move t a c s).
  Notation mvd := (movedl tau t a c s).
  Notation one := (fun p : pt => [APt p]).

  Lemma movedl_ptlist (vs : list pt) : mvd (atoms_list one vs) (atoms_list one (map mv vs)).
  Proof.
    apply movedl_list. induction vs; simpl; constructor; [|assumption]. constructor; constructor.
  Qed.

  Lemma tr_post_moved l l' : mapM (tr_post tau t a c s) l = Ok l' -> mvd (atoms_list one l) (atoms_list one l').
  Proof.
    intro H. apply movedl_list.
    assert (K : forall x y, tr_post tau t a c s x = Ok y -> mvd (one x) (one y)).
    { intros x y E. unfold tr_post in E. destruct (valid_angle tau a); [|discriminate].
      inversion E; subst. constructor; constructor. }
    apply (mapM_all _ _ _ _ K H).
  Qed.

  Lemma tr_lanelet_moved l l' : tr_lanelet tau t a c s l = Ok l' -> mvd (atoms_lanelet l) (atoms_lanelet l').
  Proof.
    unfold tr_lanelet. destruct (valid_angle tau a) eqn:V; [|discriminate]. intro H.
    apply bind_ok in H. destruct H as [sl [E H]]. inversion H; subst; clear H. unfold atoms_lanelet; cbn [l_left l_center l_right l_stop].
    repeat apply movedl_app; try apply movedl_ptlist.
    apply movedl_opt. apply optM_ok in E. destruct (l_stop l) as [[p q]|], sl as [[p' q']|]; try contradiction; auto.
    unfold tr_stop in E. rewrite V in E. inversion E; subst. simpl. constructor; [constructor|].
    constructor; constructor.
  Qed.

  Lemma tr_network_moved n n' : tr_network tau t a c s n = Ok n' -> mvd (atoms_network n) (atoms_network n').
  Proof.
    unfold tr_network. destruct (valid_angle tau a); [|discriminate]. intro H.
    apply bind_ok in H. destruct H as [ls [E1 H]]. apply bind_ok in H. destruct H as [sg [E2 H]].
    apply bind_ok in H. destruct H as [lt [E3 H]]. inversion H; subst; clear H. unfold atoms_network; cbn [n_lanelets n_signs n_lights].
    repeat apply movedl_app.
    - apply movedl_list. apply (mapM_all _ _ _ _ tr_lanelet_moved E1).
    - apply tr_post_moved. exact E2.
    - apply tr_post_moved. exact E3.
  Qed.

  Lemma tr_occs_moved l l' : mapM (tr_occ tau fuel t a c s) l = Ok l' ->
    mvd (atoms_list atoms_shape l) (atoms_list atoms_shape l').
  Proof.
    intro H. apply movedl_list.
    assert (K : forall x y, tr_occ tau fuel t a c s x = Ok y -> mvd (atoms_shape x) (atoms_shape y)).
    { intros x y E. unfold tr_occ in E. destruct (valid_angle tau a); [|discriminate].
      apply (tr_shape_moved tau tau_pos fuel t a c s). exact E. }
    apply (mapM_all _ _ _ _ K H).
  Qed.

  Lemma tr_states_moved l l' : mapM (tr_state tau fuel t a c s) l = Ok l' ->
    mvd (atoms_list atoms_state l) (atoms_list atoms_state l').
  Proof.
    intro H. apply movedl_list. apply (mapM_all _ _ _ _ (tr_state_moved tau tau_pos fuel t a c s) H).
  Qed.

  Lemma tr_prediction_moved p p' : tr_prediction tau fuel t a c s p = Ok p' ->
    mvd (atoms_prediction p) (atoms_prediction p').
  Proof.
    unfold tr_prediction. destruct (valid_angle tau a); [|discriminate]. destruct p as [sts sh|occs]; intro H.
    - apply bind_ok in H. destruct H as [sts' [E H]]. inversion H; subst. simpl.
      constructor; [constructor|]. apply tr_states_moved. exact E.
    - apply bind_ok in H. destruct H as [occs' [E H]]. inversion H; subst. simpl.
      constructor; [constructor|]. apply tr_occs_moved. exact E.
  Qed.

  Lemma tr_obstacle_moved o o' : tr_obstacle tau fuel t a c s o = Ok o' -> mvd (atoms_obstacle o) (atoms_obstacle o').
  Proof.
    destruct o as [sh init|sh init pred|pred|sh]; intro H; unfold tr_obstacle in H;
      destruct (valid_angle tau a) eqn:V; try discriminate.
    - apply bind_ok in H. destruct H as [i' [E H]]. inversion H; subst. cbn [atoms_obstacle].
      constructor; [constructor|]. apply (tr_state_moved tau tau_pos fuel t a c s). exact E.
    - apply bind_ok in H. destruct H as [p' [Ep H]]. apply bind_ok in H. destruct H as [i' [Ei H]].
      inversion H; subst. cbn [atoms_obstacle]. constructor; [constructor|]. apply movedl_app.
      + apply (tr_state_moved tau tau_pos fuel t a c s). exact Ei.
      + apply movedl_opt. apply optM_ok in Ep. destruct pred as [p|], p' as [q|]; try contradiction; auto.
        apply tr_prediction_moved. exact Ep.
    - apply bind_ok in H. destruct H as [p' [Ep H]]. inversion H; subst. cbn [atoms_obstacle]. constructor; [constructor|].
      apply movedl_opt. apply optM_ok in Ep. destruct pred as [p|], p' as [q|]; try contradiction; auto.
      apply tr_occs_moved. exact Ep.
    - apply bind_ok in H. destruct H as [sh' [E H]]. inversion H; subst. cbn [atoms_obstacle]. constructor; [constructor|].
      apply (tr_shape_moved tau tau_pos fuel t a c s). exact E.
  Qed.

  (* Scenario.translate_rotate moves every stored point / orientation of every component kind *)
  Lemma tr_scenario_moved sc sc' : tr_scenario tau fuel t a c s sc = Ok sc' ->
    mvd (atoms_scenario sc) (atoms_scenario sc').
  Proof.
    unfold tr_scenario. destruct (valid_angle tau a); [|discriminate]. intro H.
    apply bind_ok in H. destruct H as [n' [En H]]. apply bind_ok in H. destruct H as [os' [Eo H]].
    inversion H; subst. unfold atoms_scenario; cbn [sc_net sc_obstacles]. apply movedl_app.
    - apply tr_network_moved. exact En.
    - apply movedl_list. apply (mapM_all _ _ _ _ tr_obstacle_moved Eo).
  Qed.

  Lemma tr_pproblem_moved p p' : tr_pproblem tau fuel t a c s p = Ok p' -> mvd (atoms_pproblem p) (atoms_pproblem p').
  Proof.
    unfold tr_pproblem. intro H. apply bind_ok in H. destruct H as [i' [Ei H]].
    apply bind_ok in H. destruct H as [g' [Eg H]]. inversion H; subst. unfold atoms_pproblem; cbn [pp_init pp_goals].
    apply movedl_app; [apply (tr_state_moved tau tau_pos fuel t a c s); exact Ei | apply tr_states_moved; exact Eg].
  Qed.

  Lemma tr_ppset_moved ps ps' : tr_ppset tau fuel t a c s ps = Ok ps' -> mvd (atoms_ppset ps) (atoms_ppset ps').
  Proof.
    intro H. apply movedl_list. apply (mapM_all _ _ _ _ tr_pproblem_moved H).
  Qed.

  (* consequence: the relative configuration of all stored points is preserved *)
  Lemma movedl_nth l l' : mvd l l' -> forall i p, nth_error l i = Some (APt p) -> nth_error l' i = Some (APt (mv p)).
  Proof.
    induction 1 as [|x y r r' Hxy Hr IH]; intros i p Hi; destruct i; simpl in *; try discriminate.
    - inversion Hi; subst. inversion Hxy; subst. reflexivity.
    - apply IH. exact Hi.
  Qed.

  Lemma config_preserved l l' i j p q p' q' : c * c + s * s == 1 -> mvd l l' ->
    nth_error l i = Some (APt p) -> nth_error l j = Some (APt q) ->
    nth_error l' i = Some (APt p') -> nth_error l' j = Some (APt q') -> dist2 p' q' == dist2 p q.
  Proof.
    intros Hcs M Hi Hj Hi' Hj'.
    rewrite (movedl_nth _ _ M _ _ Hi) in Hi'. rewrite (movedl_nth _ _ M _ _ Hj) in Hj'.
    inversion Hi'; inversion Hj'; subst. apply isometry. exact Hcs.
  Qed.

  (* the obstacle's own shapes (local frame) are not touched *)
  Lemma tr_obstacle_local o o' : tr_obstacle tau fuel t a c s o = Ok o' -> local_shape o' = local_shape o.
  Proof.
    destruct o as [sh init|sh init pred|pred|sh]; simpl; destruct (valid_angle tau a) eqn:V; try discriminate; intro H.
    - apply bind_ok in H. destruct H as [i' [E H]]. inversion H; subst. reflexivity.
    - apply bind_ok in H. destruct H as [p' [Ep H]]. apply bind_ok in H. destruct H as [i' [Ei H]].
      inversion H; subst. simpl. apply optM_ok in Ep. destruct pred as [p|], p' as [q|]; try contradiction; auto.
      unfold tr_prediction in Ep. rewrite V in Ep. destruct p as [sts sh1|occs].
      + apply bind_ok in Ep. destruct Ep as [x [_ Ep]]. inversion Ep; subst. reflexivity.
      + apply bind_ok in Ep. destruct Ep as [x [_ Ep]]. inversion Ep; subst. reflexivity.
    - apply bind_ok in H. destruct H as [p' [Ep H]]. inversion H; subst. reflexivity.
    - apply bind_ok in H. destruct H as [sh' [E H]]. inversion H; subst. reflexivity.
  Qed.

  (* ------------------------------------------------------------------ totality *)
  Notation vshape := (valid_shape tau).
  Notation vstate := (valid_state tau).
  Definition valid_prediction (p : prediction) : bool :=
    match p with PTraj sts _ => forallb vstate sts | PSet occs => forallb vshape occs end.
  Definition valid_obstacle (o : obstacle) : bool :=
    match o with
    | OStatic _ init => vstate init
    | ODynamic _ init pred => vstate init && match pred with Some p => valid_prediction p | None => true end
    | OPhantom pred => match pred with Some occs => forallb vshape occs | None => true end
    | OEnv sh => vshape sh
    end.
  Definition valid_scenario (sc : scenario) : bool := forallb valid_obstacle (sc_obstacles sc).
  Definition valid_pproblem (p : pproblem) : bool := vstate (pp_init p) && forallb vstate (pp_goals p).


  (* ------------------------------------------------------------------ the result is valid again *)
  Lemma mapM_valid {A B} (f : A -> res B) (v : B -> bool) l l' :
    (forall x y, f x = Ok y -> v y = true) -> mapM f l = Ok l' -> forallb v l' = true.
  Proof.
    intros K H. apply (Forall2_forallb v l l'). apply (mapM_all f (fun _ y => v y = true) l l'); assumption.
  Qed.

  Lemma tr_occs_valid l l' : mapM (tr_occ tau fuel t a c s) l = Ok l' -> forallb vshape l' = true.
  Proof.
    apply mapM_valid. intros x y E. unfold tr_occ in E. destruct (valid_angle tau a); [|discriminate].
    apply (tr_shape_valid tau fuel t a c s _ _ E).
  Qed.

  Lemma tr_states_valid l l' : mapM (tr_state tau fuel t a c s) l = Ok l' -> forallb vstate l' = true.
  Proof. apply mapM_valid. apply (tr_state_valid tau tau_pos fuel t a c s). Qed.

  Lemma tr_prediction_valid p p' : tr_prediction tau fuel t a c s p = Ok p' -> valid_prediction p' = true.
  Proof.
    unfold tr_prediction. destruct (valid_angle tau a); [|discriminate]. destruct p as [sts sh|occs]; intro H.
    - apply bind_ok in H. destruct H as [sts' [E H]]. inversion H; subst. simpl. apply (tr_states_valid _ _ E).
    - apply bind_ok in H. destruct H as [occs' [E H]]. inversion H; subst. simpl. apply (tr_occs_valid _ _ E).
  Qed.

  Lemma tr_obstacle_valid o o' : tr_obstacle tau fuel t a c s o = Ok o' -> valid_obstacle o' = true.
  Proof.
    destruct o as [sh init|sh init pred|pred|sh]; intro H; unfold tr_obstacle in H;
      destruct (valid_angle tau a) eqn:V; try discriminate.
    - apply bind_ok in H. destruct H as [i' [E H]]. inversion H; subst. simpl.
      apply (tr_state_valid tau tau_pos fuel t a c s _ _ E).
    - apply bind_ok in H. destruct H as [p' [Ep H]]. apply bind_ok in H. destruct H as [i' [Ei H]].
      inversion H; subst. simpl. apply andb_true_iff. split; [apply (tr_state_valid tau tau_pos fuel t a c s _ _ Ei)|].
      apply optM_ok in Ep. destruct pred as [p|], p' as [q|]; try contradiction; auto.
      apply tr_prediction_valid with (1 := Ep).
    - apply bind_ok in H. destruct H as [p' [Ep H]]. inversion H; subst. simpl.
      apply optM_ok in Ep. destruct pred as [p|], p' as [q|]; try contradiction; auto.
      apply (tr_occs_valid _ _ Ep).
    - apply bind_ok in H. destruct H as [sh' [E H]]. inversion H; subst. simpl.
      apply (tr_shape_valid tau fuel t a c s _ _ E).
  Qed.

  Lemma tr_scenario_valid sc sc' : tr_scenario tau fuel t a c s sc = Ok sc' -> valid_scenario sc' = true.
  Proof.
    unfold tr_scenario. destruct (valid_angle tau a); [|discriminate]. intro H.
    apply bind_ok in H. destruct H as [n' [En H]]. apply bind_ok in H. destruct H as [os' [Eo H]].
    inversion H; subst. unfold valid_scenario; cbn [sc_obstacles].
    apply (mapM_valid _ _ _ _ tr_obstacle_valid Eo).
  Qed.

  Lemma tr_pproblem_valid p p' : tr_pproblem tau fuel t a c s p = Ok p' -> valid_pproblem p' = true.
  Proof.
    unfold tr_pproblem. intro H. apply bind_ok in H. destruct H as [i' [Ei H]].
    apply bind_ok in H. destruct H as [g' [Eg H]]. inversion H; subst. unfold valid_pproblem; cbn [pp_init pp_goals].
    apply andb_true_iff. split; [apply (tr_state_valid tau tau_pos fuel t a c s _ _ Ei) | apply (tr_states_valid _ _ Eg)].
  Qed.

  Lemma tr_ppset_valid ps ps' : tr_ppset tau fuel t a c s ps = Ok ps' -> forallb valid_pproblem ps' = true.
  Proof. apply mapM_valid. apply tr_pproblem_valid. Qed.

  Hypothesis fuel_ok : (3 <= fuel)%nat.
  Hypothesis angle_ok : valid_angle tau a = true.

  Lemma mapM_forallb {A B} (f : A -> res B) (v : A -> bool) l :
    (forall x, v x = true -> exists y, f x = Ok y) -> forallb v l = true -> exists l', mapM f l = Ok l'.
  Proof.
    intros H V. apply mapM_total. rewrite forallb_forall in V. apply Forall_forall. intros x Hx. apply H, V, Hx.
  Qed.

  Lemma mapM_always {A B} (f : A -> res B) l : (forall x, exists y, f x = Ok y) -> exists l', mapM f l = Ok l'.
  Proof. intro H. apply mapM_total. apply Forall_forall. intros x _. apply H. Qed.

  Lemma tr_network_total n : exists n', tr_network tau t a c s n = Ok n'.
  Proof.
    unfold tr_network. rewrite angle_ok.
    destruct (mapM_always (tr_lanelet tau t a c s) (n_lanelets n)) as [ls E1].
    { intro l. unfold tr_lanelet. rewrite angle_ok. destruct (l_stop l) as [sl|]; simpl.
      - unfold tr_stop. rewrite angle_ok. simpl. eexists; reflexivity.
      - eexists; reflexivity. }
    destruct (mapM_always (tr_post tau t a c s) (n_signs n)) as [sg E2].
    { intro p. unfold tr_post. rewrite angle_ok. eexists; reflexivity. }
    destruct (mapM_always (tr_post tau t a c s) (n_lights n)) as [lt E3].
    { intro p. unfold tr_post. rewrite angle_ok. eexists; reflexivity. }
    rewrite E1, E2, E3. simpl. eexists; reflexivity.
  Qed.

  Lemma tr_occs_total l : forallb vshape l = true -> exists l', mapM (tr_occ tau fuel t a c s) l = Ok l'.
  Proof.
    apply mapM_forallb. intros x V. unfold tr_occ. rewrite angle_ok.
    apply (tr_shape_total tau tau_pos fuel t a c s fuel_ok angle_ok). exact V.
  Qed.

  Lemma tr_states_total l : forallb vstate l = true -> exists l', mapM (tr_state tau fuel t a c s) l = Ok l'.
  Proof.
    apply mapM_forallb. intros x V. apply (tr_state_total tau tau_pos fuel t a c s fuel_ok angle_ok). exact V.
  Qed.

  Lemma tr_obstacle_total o : valid_obstacle o = true -> exists o', tr_obstacle tau fuel t a c s o = Ok o'.
  Proof.
    destruct o as [sh init|sh init pred|pred|sh]; simpl; rewrite angle_ok; intro V.
    - destruct (tr_state_total tau tau_pos fuel t a c s fuel_ok angle_ok init V) as [i' E]. rewrite E. simpl.
      eexists; reflexivity.
    - apply andb_true_iff in V. destruct V as [Vi Vp].
      destruct (tr_state_total tau tau_pos fuel t a c s fuel_ok angle_ok init Vi) as [i' E].
      assert (Hp : exists p', optM (tr_prediction tau fuel t a c s) pred = Ok p').
      { destruct pred as [[sts sh1|occs]|]; simpl; [| |eexists; reflexivity]; unfold tr_prediction; rewrite angle_ok.
        - destruct (tr_states_total sts Vp) as [x Ex]. rewrite Ex. simpl. eexists; reflexivity.
        - destruct (tr_occs_total occs Vp) as [x Ex]. rewrite Ex. simpl. eexists; reflexivity. }
      destruct Hp as [p' Ep]. rewrite Ep, E. simpl. eexists; reflexivity.
    - destruct pred as [occs|]; simpl; [|eexists; reflexivity].
      destruct (tr_occs_total occs V) as [x Ex]. rewrite Ex. simpl. eexists; reflexivity.
    - destruct (tr_shape_total tau tau_pos fuel t a c s fuel_ok angle_ok sh V) as [sh' E]. rewrite E. simpl.
      eexists; reflexivity.
  Qed.

  (* transforming a scenario that contains any mix of component kinds never fails *)
  Lemma tr_scenario_total sc : valid_scenario sc = true -> exists sc', tr_scenario tau fuel t a c s sc = Ok sc'.
  Proof.
    unfold valid_scenario, tr_scenario. rewrite angle_ok. intro V.
    destruct (tr_network_total (sc_net sc)) as [n' En]. rewrite En. simpl.
    destruct (mapM_forallb (tr_obstacle tau fuel t a c s) valid_obstacle (sc_obstacles sc) tr_obstacle_total V) as [os' Eo].
    rewrite Eo. simpl. eexists; reflexivity.
  Qed.

  Lemma tr_pproblem_total p : valid_pproblem p = true -> exists p', tr_pproblem tau fuel t a c s p = Ok p'.
  Proof.
    unfold valid_pproblem, tr_pproblem. rewrite andb_true_iff. intros [Vi Vg].
    destruct (tr_state_total tau tau_pos fuel t a c s fuel_ok angle_ok _ Vi) as [i' E]. rewrite E. simpl.
    destruct (tr_states_total _ Vg) as [g' Eg]. rewrite Eg. simpl. eexists; reflexivity.
  Qed.

  Lemma tr_ppset_total ps : forallb valid_pproblem ps = true -> exists ps', tr_ppset tau fuel t a c s ps = Ok ps'.
  Proof. apply mapM_forallb. apply tr_pproblem_total. Qed.
End FANP.

(* ---------------------------------------------------------------------- two motions in a row: a transformed
   scenario / planning-problem set can be transformed again, whatever the first (successful) motion was *)
Lemma tr_scenario_chain tau (tau_pos : 0 < tau) fuel t1 a1 c1 s1 t2 a2 c2 s2 sc sc' :
  (3 <= fuel)%nat -> valid_angle tau a2 = true -> tr_scenario tau fuel t1 a1 c1 s1 sc = Ok sc' ->
  exists sc'', tr_scenario tau fuel t2 a2 c2 s2 sc' = Ok sc''.
Proof.
  intros F V H. apply (tr_scenario_total tau tau_pos fuel t2 a2 c2 s2 F V).
  apply (tr_scenario_valid tau tau_pos fuel t1 a1 c1 s1 sc sc' H).
Qed.
Lemma tr_ppset_chain tau (tau_pos : 0 < tau) fuel t1 a1 c1 s1 t2 a2 c2 s2 ps ps' :
  (3 <= fuel)%nat -> valid_angle tau a2 = true -> tr_ppset tau fuel t1 a1 c1 s1 ps = Ok ps' ->
  exists ps'', tr_ppset tau fuel t2 a2 c2 s2 ps' = Ok ps''.
Proof.
  intros F V H. apply (tr_ppset_total tau tau_pos fuel t2 a2 c2 s2 F V).
  apply (tr_ppset_valid tau tau_pos fuel t1 a1 c1 s1 ps ps' H).
Qed.
