(* Proofs/SolXsd.v — static conformance of the writer tables to the schema implies that every written
   document validates (Model/SolXsd.v), for documents listed in schema order. *)
From Coq Require Import String Ascii List ZArith Bool Lia.
From CR Require Import Model.SolTypes Model.SolutionFmt Model.SolXsd Proofs.SolutionFmt.
Import ListNotations.
Open Scope string_scope.
Open Scope list_scope.

Lemma span_spec : forall p l run tl, span p l = (run, tl) ->
  l = run ++ tl /\ forallb p run = true.
Proof.
  induction l as [|x r IH]; simpl; intros run tl H.
  - inversion H; subst. now split.
  - destruct (p x) eqn:E.
    + destruct (span p r) as [a b] eqn:Es. inversion H; subst.
      destruct (IH a tl eq_refl) as [I1 I2]. split; [simpl; now rewrite <- I1|simpl; now rewrite E, I2].
    + inversion H; subst. now split.
Qed.
Lemma span_span_s : forall name l run tl, span (has_tag name) l = (run, tl) ->
  span_s name (map tag_of l) = (length run, map tag_of tl).
Proof.
  induction l as [|x r IH]; simpl; intros run tl H.
  - inversion H; subst. reflexivity.
  - unfold has_tag in H at 1. destruct (String.eqb (tag_of x) name) eqn:E.
    + destruct (span (has_tag name) r) as [a b] eqn:Es. inversion H; subst.
      rewrite (IH a tl eq_refl). reflexivity.
    + inversion H; subst. reflexivity.
Qed.
Lemma span_s_incl : forall name l n tl, span_s name l = (n, tl) -> forall t, In t tl -> In t l.
Proof.
  induction l as [|x r IH]; simpl; intros n tl H t Ht.
  - inversion H; subst. exact Ht.
  - destruct (String.eqb x name).
    + destruct (span_s name r) as [m b] eqn:Es. inversion H; subst. right. eapply IH; eauto.
    + inversion H; subst. exact Ht.
Qed.
Lemma span_s_run : forall name l n tl, span_s name l = (n, tl) -> forall t, In t l -> t = name \/ In t tl.
Proof.
  induction l as [|x r IH]; simpl; intros n tl H t Ht; [easy|].
  destruct (String.eqb_spec x name).
  - destruct (span_s name r) as [m b] eqn:Es. inversion H; subst.
    destruct Ht as [<-|Ht]; [now left|]. eapply IH; eauto.
  - inversion H; subst. right. exact Ht.
Qed.
Lemma seq_ordered_in : forall els tags, seq_ordered els tags = true -> forall t, In t tags -> In t (el_names els).
Proof.
  induction els as [|name mn mx ty rest IH]; simpl; intros tags H t Ht.
  - destruct tags; [easy|discriminate].
  - destruct (span_s name tags) as [n tl] eqn:Es. apply andb_true_iff in H as [_ H].
    destruct (span_s_run _ _ _ _ Es t Ht) as [->|Hin]; [now left|]. right. eapply IH; eauto.
Qed.
Lemma validate_named_find : forall els k,
  validate_named els k = match find_el (tag_of k) els with Some t => validate t k | None => false end.
Proof.
  induction els as [|name mn mx t rest IH]; intros k; [reflexivity|].
  simpl. unfold has_tag. destruct (String.eqb (tag_of k) name); [reflexivity|apply IH].
Qed.
Lemma find_el_in : forall n els, In n (el_names els) -> exists t, find_el n els = Some t.
Proof.
  induction els as [|name mn mx t rest IH]; simpl; intros H; [easy|].
  destruct (String.eqb_spec n name); [eauto|]. destruct H as [H|H]; [congruence|auto].
Qed.

(* sequence matching = tag order + validity of each child against the declaration of its tag *)
Lemma validate_seq_of : forall els kids, NoDup (el_names els) ->
  seq_ordered els (map tag_of kids) = true ->
  (forall k, In k kids -> validate_named els k = true) -> validate_seq els kids = true.
Proof.
  induction els as [|name mn mx t rest IH]; intros kids Hnd Ho Hk.
  - simpl in *. destruct kids; [reflexivity|discriminate].
  - simpl in Ho. simpl. destruct (span (has_tag name) kids) as [run tl] eqn:Es.
    rewrite (span_span_s _ _ _ _ Es) in Ho. apply andb_true_iff in Ho as [Hb Ho].
    destruct (span_spec _ _ _ _ Es) as [Hl Hr]. rewrite Hb. simpl.
    inversion Hnd as [|? ? Hn Hnd']; subst.
    assert (Hrun : forallb (validate t) run = true).
    { apply forallb_forall. intros k Hin. rewrite forallb_forall in Hr. specialize (Hr k Hin).
      specialize (Hk k (in_or_app _ _ _ (or_introl Hin))). simpl in Hk. now rewrite Hr in Hk. }
    rewrite Hrun. simpl. apply IH; auto.
    intros k Hin. specialize (Hk k (in_or_app _ _ _ (or_intror Hin))). simpl in Hk.
    destruct (has_tag name k) eqn:E; [|exact Hk].
    exfalso. apply Hn. unfold has_tag in E. apply String.eqb_eq in E. rewrite <- E.
    eapply seq_ordered_in; [exact Ho|]. apply in_map. exact Hin.
Qed.

Lemma attrs_ok_nil : forall ds, forallb (fun d => negb (xa_required d)) ds = true -> attrs_ok ds [] = true.
Proof.
  intros ds H. unfold attrs_ok. simpl. apply forallb_forall. intros d Hd.
  rewrite forallb_forall in H. rewrite (H d Hd). reflexivity.
Qed.

Section Conf.
  Variable F : Type.
  Variable fstr : F -> string.
  Variable fpos : F -> bool.
  Variable S : Type.
  Variable sid_str : S -> string.
  Variable sid_ver : S -> string.
  Variable D : Type.
  Variable dstr : D -> string.
  Variable cpu : option string.
  Variable T : tables.
  Variable root_name : string.
  Variable root_type : xtype.
  Hypothesis Hconf : conforms T root_name root_type = true.

  (* a state node *)
  Lemma state_node_valid : forall names st stag ps,
    conforms_state names st = true -> map fst ps = names -> forallb pair_lex_ok ps = true ->
    validate st (Node stag [] (map leaf ps) "") = true.
  Proof.
    intros names st stag ps Hc Hn Hl. destruct st as [|[|] els ds]; try discriminate.
    simpl in Hc. apply andb_true_iff in Hc as [Hc H3]. apply andb_true_iff in Hc as [H1 H2].
    simpl. rewrite attrs_ok_nil by exact H1. simpl.
    assert (Ht : map tag_of (map leaf ps) = names).
    { rewrite map_map. rewrite <- Hn. apply map_ext. now intros [a b]. }
    rewrite Ht, H3, andb_true_r.
    apply forallb_forall. intros k Hk. apply in_map_iff in Hk as [[n t] [<- Hin]].
    rewrite validate_named_find. simpl.
    rewrite forallb_forall in H2. assert (Hnn : In n names) by (rewrite <- Hn; apply in_map_iff; now exists (n, t)).
    specialize (H2 n Hnn). destruct (find_el n els) as [t'|]; [|discriminate].
    rewrite forallb_forall in Hl. specialize (Hl _ Hin). unfold pair_lex_ok in Hl. simpl in Hl.
    destruct t' as [[| | |]|]; simpl in H2; try discriminate; simpl; rewrite ?andb_true_r.
    - apply negb_true_iff in H2. now rewrite H2 in Hl.
    - now rewrite H2 in Hl.
    - reflexivity.
  Qed.

  Lemma write_state_shape : forall ty st x, write_state F fstr T ty st = Some x ->
    exists stag xf ps, lookup ty (t_stype T) = Some stag /\ zipped T ty = Some xf /\
      write_pairs F fstr xf st = Some ps /\ x = Node stag [] (map leaf ps) "".
  Proof.
    intros ty st x H. unfold write_state in H.
    destruct (lookup ty (t_stype T)) as [stag|] eqn:E1; [|discriminate].
    destruct (zipped T ty) as [xf|] eqn:E2; [|discriminate].
    destruct (write_pairs F fstr xf st) as [ps|] eqn:E3; [|discriminate].
    inversion H. exists stag, xf, ps. repeat split; auto.
  Qed.

  Lemma write_tuple_names : forall names l ps, write_tuple F fstr names l = Some ps -> map fst ps = names.
  Proof.
    induction names as [|n ns IH]; intros l ps H.
    - destruct l; simpl in H; inversion H; reflexivity.
    - destruct l as [|v vs]; [discriminate|]. simpl in H.
      destruct (write_tuple F fstr ns vs) as [ps'|] eqn:E; [|discriminate].
      inversion H; subst. simpl. now rewrite (IH vs ps' E).
  Qed.
  Lemma write_pairs_names : forall xf st ps, write_pairs F fstr xf st = Some ps ->
    map fst ps = flat_names (map fst xf).
  Proof.
    induction xf as [|[e f] r IH]; intros st ps H.
    - inversion H. reflexivity.
    - simpl in H. destruct (lookup f st) as [v|]; [|discriminate].
      destruct (write_entry F fstr e v) as [pe|] eqn:Ee; [|discriminate].
      destruct (write_pairs F fstr r st) as [pr|] eqn:Er; [|discriminate].
      inversion H; subst. rewrite map_app, (IH st pr Er). simpl. f_equal.
      destruct e as [n|names], v as [x|l]; simpl in Ee; try discriminate.
      + inversion Ee. reflexivity.
      + now apply write_tuple_names in Ee.
  Qed.

  Lemma mapM_inv {A B} : forall (f : A -> option B) l ys, mapM f l = Some ys -> Forall2 (fun a b => f a = Some b) l ys.
  Proof.
    induction l as [|x r IH]; simpl; intros ys H.
    - inversion H. constructor.
    - destruct (f x) eqn:E; [|discriminate]. destruct (mapM f r) eqn:Er; [|discriminate].
      inversion H; subst. constructor; auto.
  Qed.
  Lemma Forall2_in_r {A B} : forall (P : A -> B -> Prop) l ys, Forall2 P l ys ->
    forall y, In y ys -> exists x, In x l /\ P x y.
  Proof.
    induction 1; intros k Hk; [easy|]. destruct Hk as [<-|Hk].
    - exists x. split; [now left|assumption].
    - destruct (IHForall2 k Hk) as [a [Ha Pa]]. exists a. split; [now right|assumption].
  Qed.

  Lemma span_all : forall name l, forallb (has_tag name) l = true -> span (has_tag name) l = (l, []).
  Proof.
    induction l as [|x r IH]; simpl; intros H; [reflexivity|].
    apply andb_true_iff in H as [H1 H2]. now rewrite H1, IH.
  Qed.

  Hypothesis Htab : tables_aligned T = true.

  (* a trajectory node *)
  Lemma traj_node_valid : forall (p : pps F) t' x,
    conforms_traj T (p_ty _ p) t' = true -> pps_ok F T p = true ->
    forallb (state_lex_ok F fstr T (p_ty _ p)) (p_states _ p) = true ->
    write_traj F fstr T p = Some x -> validate t' x = true.
  Proof.
    intros p t' x Hc Hok Hlex Hw.
    unfold conforms_traj in Hc.
    destruct t' as [|[|] [|sname mn [|] st [|]] ds]; try discriminate.
    destruct (lookup (p_ty _ p) (t_stype T)) as [stag|] eqn:Ls; [|discriminate].
    destruct (lookup (p_ty _ p) (t_xml T)) as [xs|] eqn:Lx; [|discriminate].
    repeat (apply andb_true_iff in Hc as [Hc ?]). rename H into Hcs, H0 into Hpp, H1 into Hmn.
    apply String.eqb_eq in Hc. subst sname.
    unfold write_traj in Hw. destruct (lookup (p_ty _ p) (t_ttype T)) as [ttag|]; [|discriminate].
    destruct (mapM (write_state F fstr T (p_ty _ p)) (p_states _ p)) as [ks|] eqn:Em; [|discriminate].
    inversion Hw; subst x. clear Hw. apply mapM_inv in Em.
    unfold pps_ok in Hok. repeat (apply andb_true_iff in Hok as [Hok ?]).
    apply mem_In in Hok.
    destruct (tab_parts T Htab) as (_ & Tal & _). specialize (Tal _ Hok).
    destruct (type_aligned_parts T _ Tal) as (fs & xs' & stag' & ttag' & cls & attrs & L1 & L2 & L3 & L4 & L5 & Hlen & _).
    rewrite Lx in L2. inversion L2; subst xs'.
    (* every child is a valid state node with tag stag *)
    assert (Hks : forall k, In k ks -> has_tag stag k = true /\ validate st k = true).
    { intros k Hk. destruct (Forall2_in_r _ _ _ Em k Hk) as [s0 [Hs0 Hw0]].
      destruct (write_state_shape _ _ _ Hw0) as (stag0 & xf & ps & Z1 & Z2 & Z3 & Z4).
      rewrite Ls in Z1. inversion Z1; subst stag0. subst k.
      split; [unfold has_tag; simpl; apply String.eqb_refl|].
      rewrite forallb_forall in Hlex. specialize (Hlex s0 Hs0). unfold state_lex_ok in Hlex. rewrite Z2, Z3 in Hlex.
      eapply state_node_valid; [exact Hcs| |exact Hlex].
      rewrite (write_pairs_names _ _ _ Z3). unfold zipped in Z2. rewrite L1, Lx in Z2. inversion Z2.
      now rewrite combine_fst. }
    simpl.
    (* attributes *)
    unfold pp_attrs_ok in Hpp. apply andb_true_iff in Hpp as [Hp1 Hp2].
    assert (Ha : attrs_ok ds [("planningProblem", ztext (p_id _ p))] = true).
    { unfold attrs_ok. apply andb_true_iff. split.
      - simpl. unfold attr_is in Hp1. destruct (find_attr "planningProblem" ds) as [d|]; [|discriminate].
        destruct (xa_type d); try discriminate. reflexivity.
      - apply forallb_forall. intros d Hd. rewrite forallb_forall in Hp2. specialize (Hp2 d Hd).
        destruct (xa_required d); [|reflexivity]. simpl in *. apply String.eqb_eq in Hp2. rewrite Hp2.
        reflexivity. }
    rewrite Ha. simpl.
    rewrite span_all.
    2:{ apply forallb_forall. intros k Hk. now apply Hks. }
    assert (Hv : forallb (validate st) ks = true).
    { apply forallb_forall. intros k Hk. now apply Hks. }
    rewrite Hv, andb_true_r.
    unfold in_bounds. rewrite !andb_true_r. apply Nat.leb_le. apply Nat.leb_le in Hmn.
    destruct (p_states _ p) as [|s0 r]; [discriminate|]. inversion Em; subst. simpl. lia.
  Qed.

  (* the whole document *)
  Theorem written_valid : forall (s : solution F S D) x,
    solution_ok F fpos S sid_str sid_ver D T s = true ->
    solution_lex_ok F fstr S D dstr T s = true ->
    seq_ordered (root_els root_type) (traj_tags F S D T s) = true ->
    write_solution F fstr S sid_str sid_ver D dstr cpu T s = Some x ->
    validate_doc root_name root_type x = true.
  Proof.
    intros s x Hok Hlex Hord Hw.
    unfold conforms in Hconf. apply andb_true_iff in Hconf as [Hrn Hc].
    destruct root_type as [|[|] els ds]; try discriminate.
    repeat (apply andb_true_iff in Hc as [Hc ?]). rename H into Htr, H0 into Hra.
    apply nodup_s_NoDup in Hc. simpl in Hord.
    unfold solution_ok in Hok. repeat (apply andb_true_iff in Hok as [Hok ?]). rename H2 into Hpps.
    unfold solution_lex_ok in Hlex. apply andb_true_iff in Hlex as [Hlex Hld].
    apply andb_true_iff in Hlex as [Hls Hlc].
    unfold write_solution in Hw. destruct (s_pps _ _ _ s) as [|p0 ps0] eqn:Eps; [discriminate|]. rewrite <- Eps in *.
    destruct (mapM (write_traj F fstr T) (s_pps _ _ _ s)) as [ks|] eqn:Em; [|discriminate].
    inversion Hw; subst x. clear Hw. apply mapM_inv in Em.
    unfold validate_doc. simpl tag_of. apply String.eqb_eq in Hrn. rewrite Hrn. simpl String.eqb.
    rewrite andb_true_l. cbn [validate attrs_of text_of kids_of]. simpl String.eqb. rewrite andb_true_r.
    apply andb_true_iff. split.
    - (* attributes *)
      unfold root_attrs_ok in Hra. apply andb_true_iff in Hra as [Hra Hreq].
      apply andb_true_iff in Hra as [Hra A4]. apply andb_true_iff in Hra as [Hra A3].
      apply andb_true_iff in Hra as [A1 A2].
      unfold attr_is in *.
      destruct (find_attr "benchmark_id" ds) as [d1|] eqn:F1; [|discriminate].
      destruct (find_attr "computation_time" ds) as [d2|] eqn:F2; [|discriminate].
      destruct (find_attr "date" ds) as [d3|] eqn:F3; [|discriminate].
      destruct (find_attr "processor_name" ds) as [d4|] eqn:F4; [|discriminate].
      unfold attrs_ok. apply andb_true_iff. split.
      + destruct (s_ctime _ _ _ s) as [c|], (s_date _ _ _ s) as [d|], (pname_out cpu (s_pname _ _ _ s)) as [pn|];
          cbn [option_map opt_attr app forallb fst snd]; rewrite ?F1, ?F2, ?F3, ?F4;
          destruct (xa_type d1), (xa_type d2), (xa_type d3), (xa_type d4); try discriminate;
          cbn [simple_ok andb]; rewrite ?Hlc, ?Hld; reflexivity.
      + apply forallb_forall. intros d Hd. rewrite forallb_forall in Hreq. specialize (Hreq d Hd).
        destruct (xa_required d); [|reflexivity]. cbn [negb orb] in *. apply String.eqb_eq in Hreq. rewrite Hreq.
        reflexivity.
    - (* children *)
      assert (Htags : map tag_of ks = traj_tags F S D T s).
      { unfold traj_tags. clear -Em. induction Em as [|p k ps' ks' Hpk _ IH]; [reflexivity|].
        simpl. rewrite IH. f_equal. unfold write_traj in Hpk.
        destruct (lookup (p_ty _ p) (t_ttype T)) as [ttag|]; [|discriminate].
        destruct (mapM _ _); [|discriminate]. inversion Hpk. reflexivity. }
      apply validate_seq_of; auto.
      + now rewrite Htags.
      + intros k Hk. destruct (Forall2_in_r _ _ _ Em k Hk) as [p [Hp Hwp]].
        rewrite validate_named_find.
        assert (Htk : In (tag_of k) (el_names els)).
        { eapply seq_ordered_in; [exact Hord|]. rewrite <- Htags. now apply in_map. }
        destruct (find_el_in _ _ Htk) as [t' Ht']. rewrite Ht'.
        rewrite forallb_forall in Hpps. specialize (Hpps p Hp).
        rewrite forallb_forall in Hls. specialize (Hls p Hp).
        eapply traj_node_valid; eauto.
        (* the declaration found is the one the tables were checked against *)
        unfold write_traj in Hwp. destruct (lookup (p_ty _ p) (t_ttype T)) as [ttag|] eqn:Lt; [|discriminate].
        destruct (mapM _ _); [|discriminate]. inversion Hwp; subst k. simpl in Ht'.
        rewrite forallb_forall in Htr. specialize (Htr (p_ty _ p, ttag) (lookup_In _ _ _ Lt)).
        simpl in Htr. now rewrite Ht' in Htr.
  Qed.
End Conf.
