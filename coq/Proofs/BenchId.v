(* Proofs/BenchId.v — lemmas about Model/BenchId.v (property C13). *)
From Coq Require Import String Ascii List ZArith NArith Bool Lia Decimal DecimalString DecimalFacts DecimalPos DecimalN DecimalZ.
From CR Require Import Gen.Tables_C13 Model.BenchId.
Import ListNotations.
Open Scope list_scope.
Open Scope string_scope.

(* ------------------------------------------------------------------ strings *)
Lemma app_assoc_s (a b c : string) : (a ++ b) ++ c = a ++ (b ++ c).
Proof. induction a; simpl; congruence. Qed.
Lemma app_nil_r_s (a : string) : a ++ "" = a.
Proof. induction a; simpl; congruence. Qed.
Lemma length_app_s (a b : string) : String.length (a ++ b) = (String.length a + String.length b)%nat.
Proof. induction a; simpl; congruence. Qed.

Lemma sforall_app p a b : sforall p (a ++ b) = sforall p a && sforall p b.
Proof. induction a; simpl; [reflexivity|]. rewrite IHa, andb_assoc. reflexivity. Qed.
Lemma sforall_impl (p q : ascii -> bool) s :
  (forall c, p c = true -> q c = true) -> sforall p s = true -> sforall q s = true.
Proof.
  intros H. induction s; simpl; [reflexivity|]. intros E. apply andb_true_iff in E as [E1 E2].
  rewrite (H _ E1), (IHs E2). reflexivity.
Qed.
Lemma sfilter_id p s : sforall p s = true -> sfilter p s = s.
Proof.
  induction s; simpl; [reflexivity|]. intros E. apply andb_true_iff in E as [E1 E2].
  rewrite E1, (IHs E2). reflexivity.
Qed.
Lemma sfilter_app p a b : sfilter p (a ++ b) = sfilter p a ++ sfilter p b.
Proof. induction a; simpl; [reflexivity|]. destruct (p a); simpl; congruence. Qed.
Lemma sfilter_sforall p s : sforall p (sfilter p s) = true.
Proof. induction s; simpl; [reflexivity|]. destruct (p a) eqn:E; simpl; [rewrite E|]; assumption. Qed.

(* b is empty or starts with a character outside p *)
Definition stops (p : ascii -> bool) (b : string) : bool :=
  match b with EmptyString => true | String c _ => negb (p c) end.
Lemma span_app p a b : sforall p a = true -> stops p b = true -> span p (a ++ b) = (a, b).
Proof.
  intros Ha Hb. induction a; simpl in *.
  - destruct b; simpl in *; [reflexivity|]. apply negb_true_iff in Hb. rewrite Hb. reflexivity.
  - apply andb_true_iff in Ha as [E1 E2]. rewrite E1, (IHa E2). reflexivity.
Qed.
Lemma span_spec p s : forall a b, span p s = (a, b) -> s = a ++ b /\ sforall p a = true /\ stops p b = true.
Proof.
  induction s; simpl; intros x y E.
  - inversion E; subst. auto.
  - destruct (p a) eqn:Ep.
    + destruct (span p s) as [u v] eqn:Es. inversion E; subst. destruct (IHs _ _ eq_refl) as (H1 & H2 & H3).
      simpl. rewrite Ep, H2. subst. auto.
    + inversion E; subst. simpl. rewrite Ep. auto.
Qed.

Lemma split_nosep sep a : sforall (not_char sep) a = true -> split sep a = [a].
Proof.
  induction a; simpl; [reflexivity|]. intros E. apply andb_true_iff in E as [E1 E2].
  unfold not_char in E1. apply negb_true_iff in E1. rewrite E1, (IHa E2). reflexivity.
Qed.
Lemma split_app sep a b :
  sforall (not_char sep) a = true -> split sep (a ++ String sep b) = a :: split sep b.
Proof.
  induction a; simpl.
  - intros _. rewrite Ascii.eqb_refl. reflexivity.
  - intros E. apply andb_true_iff in E as [E1 E2].
    unfold not_char in E1. apply negb_true_iff in E1. rewrite E1, (IHa E2). reflexivity.
Qed.

Lemma smem_In x l : smem x l = true <-> In x l.
Proof.
  unfold smem. rewrite existsb_exists. split.
  - intros (y & Hy & E). apply String.eqb_eq in E. subst. assumption.
  - intros H. exists x. split; [assumption|apply String.eqb_refl].
Qed.
Lemma zmem_In x l : zmem x l = true <-> In x l.
Proof.
  unfold zmem. rewrite existsb_exists. split.
  - intros (y & Hy & E). apply Z.eqb_eq in E. subst. assumption.
  - intros H. exists x. split; [assumption|apply Z.eqb_refl].
Qed.

Lemma init_last_app a c : init_last (a ++ String c "") = Some (a, c).
Proof. induction a; simpl; [reflexivity|]. rewrite IHa. reflexivity. Qed.

(* ------------------------------------------------------------------ characters *)
Ltac ascii_cases c :=
  destruct c as [[] [] [] [] [] [] [] []]; vm_compute; try reflexivity; try discriminate; auto.

Lemma upper_not_dash c : is_upper c = true -> Ascii.eqb c "-" = false.
Proof. ascii_cases c. Qed.
Lemma digit_alnum c : is_digit c = true -> is_alnum c = true.
Proof. ascii_cases c. Qed.
Lemma upper_alnum c : is_upper c = true -> is_alnum c = true.
Proof. ascii_cases c. Qed.
Lemma behaviour_alnum c : is_behaviour_char c = true -> is_alnum c = true.
Proof. ascii_cases c. Qed.

(* the characters a printed scenario id consists of *)
Definition tokc (c : ascii) : bool := is_alnum c || Ascii.eqb c "-" || Ascii.eqb c "_".
Lemma alnum_tokc c : is_alnum c = true -> tokc c = true.
Proof. unfold tokc. intros ->. reflexivity. Qed.
Lemma tokc_not_colon c : tokc c = true -> not_char ":" c = true.
Proof. ascii_cases c. Qed.
Lemma tokc_not_space c : tokc c = true -> not_char " " c = true.
Proof. ascii_cases c. Qed.
Lemma alnum_not_comma c : is_alnum c = true -> not_char "," c = true.
Proof. ascii_cases c. Qed.
Lemma alnum_not_bracket c : is_alnum c = true -> not_bracket c = true.
Proof. ascii_cases c. Qed.
Lemma alnum_not_colon c : is_alnum c = true -> not_char ":" c = true.
Proof. ascii_cases c. Qed.
Lemma alnum_not_space c : is_alnum c = true -> not_char " " c = true.
Proof. ascii_cases c. Qed.

(* ------------------------------------------------------------------ decimal numbers *)
Lemma digits_of_uint u : sforall is_digit (NilEmpty.string_of_uint u) = true.
Proof. induction u; simpl; try reflexivity; assumption. Qed.

Lemma unorm_to_uint p : unorm (Pos.to_uint p) = Pos.to_uint p.
Proof.
  rewrite <- (DecimalPos.Unsigned.to_of (Pos.to_uint p)), DecimalPos.Unsigned.of_to. reflexivity.
Qed.
Lemma to_uint_head p : forall u, Pos.to_uint p <> D0 u.
Proof.
  intros u E. pose proof (unorm_to_uint p) as H. rewrite E in H. rewrite unorm_D0 in H.
  destruct (nzhead u) eqn:En;
    [ assert (H0 : unorm u = zero) by (apply unorm_0; assumption); rewrite H0 in H; inversion H; subst;
      apply (DecimalPos.Unsigned.to_uint_nonzero p); assumption
    | rewrite unorm_nzhead in H by (rewrite En; discriminate); exact (nzhead_nonzero _ _ H) .. ].
Qed.

Lemma str_z_pos p : str_z (Zpos p) = NilEmpty.string_of_uint (Pos.to_uint p).
Proof.
  unfold str_z. simpl. unfold NilZero.string_of_uint.
  destruct (Pos.to_uint p) eqn:E; try reflexivity.
  exfalso. exact (DecimalPos.Unsigned.to_uint_nonnil p E).
Qed.

(* str(z) for z > 0: a non-empty digit string not starting with 0 *)
Lemma str_z_shape z : (0 < z)%Z ->
  exists c r, str_z z = String c r /\ is_digit c = true /\ Ascii.eqb c "0" = false /\ sforall is_digit r = true.
Proof.
  intros Hz. destruct z as [|p|p]; try lia. rewrite str_z_pos.
  pose proof (digits_of_uint (Pos.to_uint p)) as Hd.
  pose proof (to_uint_head p) as Hh. pose proof (DecimalPos.Unsigned.to_uint_nonnil p) as Hn.
  destruct (Pos.to_uint p) eqn:E; simpl in *;
    try (eexists; eexists; split; [reflexivity|]; split; [reflexivity|]; split; [reflexivity|]; assumption).
  - congruence.
  - exfalso. exact (Hh u eq_refl).
Qed.
Lemma str_z_digits z : (0 < z)%Z -> sforall is_digit (str_z z) = true.
Proof.
  intros Hz. destruct (str_z_shape z Hz) as (c & r & E & H1 & _ & H2). rewrite E. simpl. rewrite H1, H2. reflexivity.
Qed.
Lemma int_of_digits_str_z z : (0 < z)%Z -> int_of_digits (str_z z) = Some z.
Proof.
  intros Hz. destruct z as [|p|p]; try lia. rewrite str_z_pos. unfold int_of_digits.
  rewrite NilEmpty.usu, DecimalPos.Unsigned.of_to. reflexivity.
Qed.
Lemma number_str_z z rest : (0 < z)%Z -> stops is_digit rest = true ->
  number (str_z z ++ rest) = Some (str_z z, rest).
Proof.
  intros Hz Hr. unfold number. rewrite (span_app _ _ _ (str_z_digits z Hz) Hr).
  destruct (str_z_shape z Hz) as (c & r & E & _ & H0 & _). rewrite E, H0. reflexivity.
Qed.

(* ------------------------------------------------------------------ table side conditions
   (re-proved by vm_compute against the tables generated from the source on every run) *)
Definition country3 (s : string) : bool :=
  match s with
  | String a (String b (String c EmptyString)) => is_upper a && is_upper b && is_upper c
  | _ => false
  end.
Definition beh1 (s : string) : bool :=
  match s with String t EmptyString => is_behaviour_char t | _ => false end.
Definition safe_ver (s : string) : bool := sforall (fun c => not_char ":" c && not_char " " c) s.
Definition model_ok (m : string) : bool :=
  sforall is_alnum m && (Nat.eqb (String.length m) 2 || Nat.eqb (String.length m) 3).
Definition type_ok (t : Z) : bool := (0 <=? t)%Z && (t <=? 9)%Z.
Definition tables_ok : bool :=
  forallb country3 countries && smem default_country countries && forallb beh1 behaviours &&
  forallb safe_ver versions && forallb model_ok vehicle_models && forallb type_ok vehicle_types &&
  forallb (sforall is_alnum) cost_functions.
Lemma tables_ok_true : tables_ok = true.
Proof. vm_compute. reflexivity. Qed.

Lemma tables_parts :
  forallb country3 countries = true /\ smem default_country countries = true /\ forallb beh1 behaviours = true /\
  forallb safe_ver versions = true /\ forallb model_ok vehicle_models = true /\
  forallb type_ok vehicle_types = true /\ forallb (sforall is_alnum) cost_functions = true.
Proof.
  pose proof tables_ok_true as H. unfold tables_ok in H.
  repeat (apply andb_true_iff in H as [H ?]). repeat split; assumption.
Qed.
Lemma country_shape c : smem c countries = true -> country3 c = true.
Proof.
  intros H. apply smem_In in H. destruct tables_parts as (T & _).
  rewrite forallb_forall in T. apply T. assumption.
Qed.
Lemma behaviour_shape b : smem b behaviours = true -> beh1 b = true.
Proof.
  intros H. apply smem_In in H. destruct tables_parts as (_ & _ & T & _).
  rewrite forallb_forall in T. apply T. assumption.
Qed.

(* ------------------------------------------------------------------ the constructor *)
Arguments smem : simpl never.
Arguments zmem : simpl never.
Definition posb (z : Z) : bool := (0 <? z)%Z.
(* the ids the constructor produces (and accepts unchanged) *)
Definition wfb (s : sid) : bool :=
  smem (country s) countries && sforall is_alnum (mname s) && posb (mid s) && smem (ver s) versions &&
  match conf s, beh s, pid s with
  | None, None, PNone => true
  | Some c, None, PNone => posb c
  | Some c, Some b, PInt p => posb c && smem b behaviours && posb p
  | Some c, Some b, PList l => posb c && smem b behaviours && forallb posb l && (2 <=? List.length l)%nat
  | _, _, _ => false
  end.

Lemma ctor_wf a s : ctor a = Ok s -> wfb s = true.
Proof.
  destruct tables_parts as (_ & Tdef & _).
  destruct a as [co cn nm mi cf bh pd vr]. unfold ctor. simpl.
  destruct (smem vr versions) eqn:Ev; simpl; [|discriminate].
  assert (Hc : forall c, set_country cn = Ok c -> smem c countries = true).
  { intros c. destruct cn as [c0|]; simpl.
    - destruct (smem c0 countries) eqn:Ec; [|discriminate]. intros [= <-]. assumption.
    - intros [= <-]. assumption. }
  destruct (set_country cn) as [c|e]; [|discriminate]. specialize (Hc c eq_refl).
  pose proof (sfilter_sforall is_alnum nm) as Hn.
  unfold clean_name.
  destruct cf as [cfz|], bh as [b|], pd as [|z|[|p [|q r]]]; simpl;
    repeat match goal with
           | |- context [if ?x then _ else _] => destruct x eqn:?; simpl
           end; try discriminate; intros [= <-]; unfold wfb, posb; simpl;
    repeat match goal with
           | H : negb _ = false |- _ => apply negb_false_iff in H
           | H : negb _ = true |- _ => apply negb_true_iff in H
           | H : _ && _ = true |- _ => apply andb_true_iff in H as [? ?]
           | H : (_ =? _)%Z = true |- _ => apply Z.eqb_eq in H; subst
           end;
    rewrite ?Hc, ?Hn, ?Ev; simpl;
    repeat match goal with H : _ = true |- _ => rewrite H end; simpl; try reflexivity; try congruence;
    try (simpl in *; assumption).
Qed.

(* constructing an id from the stored fields of an id gives the same id: the constructor's
   defaulting is idempotent *)
Lemma ctor_args_of s : wfb s = true -> ctor (args_of s) = Ok s.
Proof.
  destruct s as [co c nm mi cf bh pd vr]. unfold wfb, posb, ctor, args_of. simpl.
  intros H. repeat (apply andb_true_iff in H as [H ?]).
  rewrite H1. simpl. rewrite H. unfold clean_name. rewrite (sfilter_id _ _ H3).
  destruct cf as [cfz|], bh as [b|], pd as [|z|[|p [|q r]]]; simpl in *; try discriminate;
    repeat match goal with
           | H : _ && _ = true |- _ => apply andb_true_iff in H as [? ?]
           end;
    repeat match goal with H : _ = true |- _ => rewrite H end; simpl; try reflexivity;
    repeat match goal with
           | H : (0 <? ?z)%Z = true |- context [(?z =? 0)%Z] =>
               let E := fresh in destruct (z =? 0)%Z eqn:E; [apply Z.eqb_eq in E; subst; discriminate|]
           end; simpl;
    repeat match goal with H : _ = true |- _ => rewrite H end; simpl; try reflexivity; try discriminate.
Qed.

(* ------------------------------------------------------------------ printed ids are recognised *)
Arguments str_z : simpl never.
Arguments number : simpl never.
Arguments span : simpl never.

Fixpoint pids_str (l : list string) : string :=
  match l with [] => "" | y :: r => "-" ++ y ++ pids_str r end.
Lemma concat_dash x l : String.concat "-" (x :: l) = x ++ pids_str l.
Proof.
  revert x. induction l as [|y r IH]; intros x.
  - simpl. rewrite app_nil_r_s. reflexivity.
  - change (String.concat "-" (x :: y :: r)) with (x ++ "-" ++ String.concat "-" (y :: r)).
    rewrite IH. reflexivity.
Qed.
Lemma pids_len l : (List.length l <= String.length (pids_str l))%nat.
Proof. induction l; simpl; [lia|]. rewrite length_app_s. lia. Qed.

Lemma pred_ids_print l : l <> [] -> forallb posb l = true ->
  forall fuel, (List.length l <= fuel)%nat -> pred_ids fuel (pids_str (map str_z l)) = Some (map str_z l).
Proof.
  induction l as [|p r IH]; [congruence|]. intros _ Hp fuel Hf.
  simpl in Hp. apply andb_true_iff in Hp as [Hp Hr]. unfold posb in Hp. apply Z.ltb_lt in Hp.
  destruct fuel as [|f]; [simpl in Hf; lia|].
  destruct r as [|q r'].
  - simpl. rewrite (number_str_z p "" Hp eq_refl). reflexivity.
  - assert (E : pids_str (map str_z (p :: q :: r')) = String "-" (str_z p ++ pids_str (map str_z (q :: r'))))
      by reflexivity.
    rewrite E. cbn [pred_ids expect]. rewrite Ascii.eqb_refl.
    rewrite (number_str_z p _ Hp) by reflexivity.
    rewrite (IH ltac:(discriminate) Hr f) by (simpl in *; lia).
    reflexivity.
Qed.

(* the prediction ids of a well-formed id with a behaviour *)
Definition pid_list (p : pred) : list Z := match p with PInt z => [z] | PList l => l | PNone => [] end.

Definition tail_str (s : sid) : string :=
  match conf s with
  | None => ""
  | Some c => "_" ++ str_z c ++
              match beh s with
              | None => ""
              | Some b => "_" ++ b ++ pids_str (map str_z (pid_list (pid s)))
              end
  end.
Definition body_str (s : sid) : string :=
  country s ++ "_" ++ mname s ++ "-" ++ str_z (mid s) ++ tail_str s.

Lemma print_shape s : wfb s = true -> print s = (if coop s then "C-" else "") ++ body_str s.
Proof.
  destruct s as [co c nm mi cf bh pd vr]. unfold wfb, print, body_str, tail_str.
  cbn [coop country mname mid conf beh pid ver].
  intros H. repeat (apply andb_true_iff in H as [H ?]).
  assert (G : forall x : string, (if co then "C-" ++ x else x) = (if co then "C-" else "") ++ x) by (destruct co; reflexivity).
  rewrite G. f_equal.
  destruct cf as [cfz|], bh as [b|], pd as [|z|l]; try discriminate; cbn [option_map somes flat_map pid_list pred_strs map List.app].
  all: rewrite ?concat_dash; cbn [String.concat]; repeat rewrite app_assoc_s; rewrite ?app_nil_r_s;
    cbn [append]; reflexivity.
Qed.

Definition tail_groups (s : sid) : option string * option (string * list string) :=
  (option_map str_z (conf s),
   match beh s with Some b => Some (b, map str_z (pid_list (pid s))) | None => None end).

(* what wfb says about configuration / behaviour / prediction ids *)
Lemma wfb_tail s : wfb s = true ->
  match conf s, beh s with
  | None, None => pid s = PNone
  | Some c, None => (0 < c)%Z /\ pid s = PNone
  | Some c, Some b => (0 < c)%Z /\ (exists t, b = String t EmptyString /\ is_behaviour_char t = true) /\
                      pid_list (pid s) <> [] /\ forallb posb (pid_list (pid s)) = true /\
                      pred_strs (pid s) = map str_z (pid_list (pid s))
  | None, Some _ => False
  end.
Proof.
  destruct s as [co c nm mi cf bh pd vr]. unfold wfb. cbn [coop country mname mid conf beh pid ver].
  intros H. repeat (apply andb_true_iff in H as [H ?]). clear H H1 H2 H3. rename H0 into H.
  assert (B : forall b, smem b behaviours = true -> exists t, b = String t EmptyString /\ is_behaviour_char t = true).
  { intros b Hb. apply behaviour_shape in Hb. unfold beh1 in Hb.
    destruct b as [|t [|? ?]]; try discriminate. eauto. }
  destruct cf as [cfz|], bh as [b|], pd as [|z|l]; try discriminate; try reflexivity;
    unfold posb in *; repeat (apply andb_true_iff in H as [H ?]); rewrite ?Z.ltb_lt in *; auto.
  - repeat split; auto. + discriminate. + simpl. unfold posb. rewrite andb_true_r. apply Z.ltb_lt. assumption.
  - repeat split; auto. destruct l as [|? [|? ?]]; simpl in *; discriminate.
Qed.

Lemma rec_tail_print s : wfb s = true -> rec_tail (tail_str s) = Some (tail_groups s).
Proof.
  intros W. pose proof (wfb_tail s W) as T. unfold tail_str, tail_groups.
  destruct (conf s) as [c|], (beh s) as [b|]; try contradiction.
  - destruct T as (Hc & (t & -> & Ht) & Hne & Hpos & _).
    set (l := pid_list (pid s)) in *.
    assert (E : "_" ++ str_z c ++ "_" ++ String t EmptyString ++ pids_str (map str_z l)
                = String "_" (str_z c ++ String "_" (String t (pids_str (map str_z l))))) by reflexivity.
    rewrite E. unfold rec_tail. cbn [expect]. rewrite Ascii.eqb_refl.
    rewrite (number_str_z c _ Hc) by reflexivity.
    cbn [expect]. rewrite Ascii.eqb_refl. rewrite Ht.
    rewrite (pred_ids_print l Hne Hpos).
    + reflexivity.
    + etransitivity; [|apply pids_len]. rewrite map_length. lia.
  - destruct T as (Hc & _).
    assert (E : "_" ++ str_z c ++ "" = String "_" (str_z c ++ "")) by reflexivity.
    rewrite E. unfold rec_tail. cbn [expect]. rewrite Ascii.eqb_refl.
    rewrite (number_str_z c "" Hc) by reflexivity. reflexivity.
  - reflexivity.
Qed.

Lemma tail_stops s : wfb s = true -> stops is_digit (tail_str s) = true.
Proof.
  intros W. unfold tail_str. destruct (conf s); reflexivity.
Qed.

Definition groups_of (s : sid) : groups :=
  {| g_coop := coop s; g_country := country s; g_name := mname s; g_mid := str_z (mid s);
     g_conf := fst (tail_groups s); g_pred := snd (tail_groups s) |}.

Lemma recognise_body (co : bool) s : wfb s = true -> mname s <> "" ->
  strip_coop ((if co then "C-" else "") ++ body_str s) = (co, body_str s) /\
  forall co', (let (co0, s0) := (co', body_str s) in
   match s0 with
  | String c1 (String c2 (String c3 s1')) =>
    if is_upper c1 && is_upper c2 && is_upper c3 then
      match expect "_" s1' with
      | None => None
      | Some s1 =>
        match span is_alnum s1 with
        | (EmptyString, _) => None
        | (nm, s2') =>
          match expect "-" s2' with
          | None => None
          | Some s2 =>
            match number s2 with
            | None => None
            | Some (m, s3) =>
              match rec_tail s3 with
              | None => None
              | Some (cf, pr) =>
                  Some {| g_coop := co0; g_country := String c1 (String c2 (String c3 EmptyString));
                          g_name := nm; g_mid := m; g_conf := cf; g_pred := pr |}
              end
            end
          end
        end
      end
    else None
  | _ => None
  end) = Some {| g_coop := co'; g_country := country s; g_name := mname s; g_mid := str_z (mid s);
                 g_conf := fst (tail_groups s); g_pred := snd (tail_groups s) |}.
Proof.
  intros W Hn. pose proof W as W'. unfold wfb in W'. repeat (apply andb_true_iff in W' as [W' ?]).
  pose proof (country_shape _ W') as Hc. unfold country3 in Hc.
  unfold body_str.
  destruct (country s) as [|c1 [|c2 [|c3 [|? ?]]]]; try discriminate.
  apply andb_true_iff in Hc as [Hc U3]. apply andb_true_iff in Hc as [U1 U2].
  split.
  - destruct co.
    + reflexivity.
    + cbn [append strip_coop]. rewrite (upper_not_dash c2 U2), andb_false_r. reflexivity.
  - intros co'. cbn [append]. rewrite U1, U2, U3. cbn [andb expect]. rewrite Ascii.eqb_refl.
    assert (E : mname s ++ String "-" (str_z (mid s) ++ tail_str s) = mname s ++ (String "-" (str_z (mid s) ++ tail_str s)))
      by reflexivity.
    rewrite (span_app is_alnum (mname s) (String "-" (str_z (mid s) ++ tail_str s)) H2 eq_refl).
    destruct (mname s) as [|n0 n] eqn:En; [congruence|].
    cbn [expect]. rewrite Ascii.eqb_refl.
    unfold posb in H1. apply Z.ltb_lt in H1.
    rewrite (number_str_z (mid s) (tail_str s) H1 (tail_stops s W)).
    rewrite (rec_tail_print s W). destruct (tail_groups s). reflexivity.
Qed.

Lemma recognise_print s : wfb s = true -> mname s <> "" -> recognise (print s) = Some (groups_of s).
Proof.
  intros W Hn. rewrite (print_shape s W). unfold recognise.
  destruct (recognise_body (coop s) s W Hn) as [E1 E2]. rewrite E1. apply E2.
Qed.

(* ------------------------------------------------------------------ parse (print s) = s *)
Lemma all_some_ints l : forallb posb l = true -> all_some (map int_of_digits (map str_z l)) = Some l.
Proof.
  induction l as [|p r IH]; [reflexivity|]. simpl. intros H. apply andb_true_iff in H as [Hp Hr].
  unfold posb in Hp. apply Z.ltb_lt in Hp. rewrite (int_of_digits_str_z p Hp), (IH Hr). reflexivity.
Qed.

Lemma wfb_pid_shape s : wfb s = true -> beh s <> None ->
  match pid_list (pid s) with [p] => PInt p | l => PList l end = pid s.
Proof.
  destruct s as [co c nm mi cf bh pd vr]. unfold wfb. cbn [coop country mname mid conf beh pid ver].
  intros H Hb. repeat (apply andb_true_iff in H as [H ?]).
  destruct cf as [cfz|], bh as [b|], pd as [|z|l]; try discriminate; try congruence; try reflexivity.
  repeat (apply andb_true_iff in H0 as [H0 ?]). destruct l as [|? [|? ?]]; simpl in *; try discriminate; reflexivity.
Qed.

Lemma group_args_print s v : wfb s = true ->
  group_args (groups_of s) v =
  Some {| a_coop := coop s; a_country := Some (country s); a_name := mname s; a_mid := mid s;
          a_conf := conf s; a_beh := beh s; a_pid := pid s; a_ver := v |}.
Proof.
  intros W. pose proof (wfb_tail s W) as T. pose proof (wfb_pid_shape s W) as P.
  pose proof W as W'. unfold wfb in W'. repeat (apply andb_true_iff in W' as [W' ?]).
  unfold posb in H1. apply Z.ltb_lt in H1.
  unfold group_args, groups_of, tail_groups. cbn [g_coop g_country g_name g_mid g_conf g_pred fst snd].
  rewrite (int_of_digits_str_z _ H1).
  destruct (conf s) as [c|], (beh s) as [b|]; try contradiction; cbn [option_map].
  - destruct T as (Hc & _ & _ & Hpos & _). rewrite (int_of_digits_str_z _ Hc). cbn [option_map].
    rewrite (all_some_ints _ Hpos). specialize (P ltac:(discriminate)).
    destruct (pid_list (pid s)) as [|p [|q r]]; rewrite <- P; reflexivity.
  - destruct T as (Hc & ->). rewrite (int_of_digits_str_z _ Hc). reflexivity.
  - rewrite T. reflexivity.
Qed.

Theorem from_print s : wfb s = true -> mname s <> "" ->
  from_benchmark_id (print s) (ver s) = (false, Ok s).
Proof.
  intros W Hn. unfold from_benchmark_id. rewrite (recognise_print s W Hn), (group_args_print s (ver s) W).
  f_equal. exact (ctor_args_of s W).
Qed.

(* for every accepted constructor call *)
Theorem parse_print a s : ctor a = Ok s -> mname s <> "" ->
  from_benchmark_id (print s) (ver s) = (false, Ok s) /\ matches (print s) = true /\ ctor (args_of s) = Ok s.
Proof.
  intros C Hn. pose proof (ctor_wf a s C) as W. split; [exact (from_print s W Hn)|]. split.
  - unfold matches. rewrite (recognise_print s W Hn). reflexivity.
  - exact (ctor_args_of s W).
Qed.

(* the repaired case: a one-element list *)
Example one_element_list :
  let a := {| a_coop := false; a_country := Some "ZAM"; a_name := "Test"; a_mid := 1%Z; a_conf := Some 1%Z;
              a_beh := Some "T"; a_pid := PList [3%Z]; a_ver := "2020a" |} in
  exists s, ctor a = Ok s /\ print s = "ZAM_Test-1_1_T-3" /\ from_benchmark_id (print s) (ver s) = (false, Ok s).
Proof. eexists. split; [vm_compute; reflexivity|]. split; vm_compute; reflexivity. Qed.

(* ------------------------------------------------------------------ solution benchmark ids *)
Lemma sforall_true_app p a b : sforall p a = true -> sforall p b = true -> sforall p (a ++ b) = true.
Proof. intros Ha Hb. rewrite sforall_app, Ha, Hb. reflexivity. Qed.

Lemma pids_tokc l : forallb posb l = true -> sforall tokc (pids_str (map str_z l)) = true.
Proof.
  induction l as [|p r IH]; [reflexivity|]. simpl. intros H. apply andb_true_iff in H as [Hp Hr].
  unfold posb in Hp. apply Z.ltb_lt in Hp. apply sforall_true_app; [|exact (IH Hr)].
  apply (sforall_impl is_digit); [|exact (str_z_digits p Hp)].
  intros c Hc. apply alnum_tokc, digit_alnum, Hc.
Qed.

(* side lemma: a printed scenario id consists of alphanumerics, '-' and '_' only, so it contains
   none of the separators of a solution benchmark id *)
Lemma print_tokc s : wfb s = true -> sforall tokc (print s) = true.
Proof.
  intros W. rewrite (print_shape s W). pose proof (wfb_tail s W) as T.
  pose proof W as W'. unfold wfb in W'. repeat (apply andb_true_iff in W' as [W' ?]).
  pose proof (country_shape _ W') as Hc. unfold country3 in Hc.
  assert (D : forall z, (0 < z)%Z -> sforall tokc (str_z z) = true).
  { intros z Hz. apply (sforall_impl is_digit); [|exact (str_z_digits z Hz)].
    intros c Hd. apply alnum_tokc, digit_alnum, Hd. }
  apply sforall_true_app; [destruct (coop s); reflexivity|]. unfold body_str.
  apply sforall_true_app.
  { destruct (country s) as [|c1 [|c2 [|c3 [|? ?]]]]; try discriminate.
    apply andb_true_iff in Hc as [Hc U3]. apply andb_true_iff in Hc as [U1 U2].
    simpl. rewrite (alnum_tokc _ (upper_alnum _ U1)), (alnum_tokc _ (upper_alnum _ U2)),
      (alnum_tokc _ (upper_alnum _ U3)). reflexivity. }
  apply sforall_true_app; [reflexivity|].
  apply sforall_true_app; [apply (sforall_impl is_alnum); [exact alnum_tokc|assumption]|].
  apply sforall_true_app; [reflexivity|].
  unfold posb in H1. apply Z.ltb_lt in H1.
  apply sforall_true_app; [exact (D _ H1)|].
  unfold tail_str. destruct (conf s) as [c|], (beh s) as [b|]; try contradiction; try reflexivity.
  - destruct T as (Hc' & (t & -> & Ht) & _ & Hpos & _).
    apply sforall_true_app; [reflexivity|]. apply sforall_true_app; [exact (D _ Hc')|].
    apply sforall_true_app; [reflexivity|]. apply sforall_true_app.
    + simpl. rewrite (alnum_tokc _ (behaviour_alnum _ Ht)). reflexivity.
    + exact (pids_tokc _ Hpos).
  - destruct T as (Hc' & _). apply sforall_true_app; [reflexivity|].
    apply sforall_true_app; [exact (D _ Hc')|reflexivity].
Qed.

Definition vs_ok (vs : list (string * Z)) : bool :=
  forallb (fun v => smem (fst v) vehicle_models && zmem (snd v) vehicle_types) vs.
Definition cs_ok (cs : list string) : bool := forallb (fun c => smem c cost_functions) cs.

Lemma vehicle_id_shape m t : smem m vehicle_models = true -> zmem t vehicle_types = true ->
  exists d, vehicle_id (m, t) = m ++ String d "" /\ digit_val d = Some t /\ is_alnum d = true /\
            sforall is_alnum m = true /\ (String.length m = 2 \/ String.length m = 3)%nat.
Proof.
  intros Hm Ht. destruct tables_parts as (_ & _ & _ & _ & Tm & Tt & _).
  rewrite forallb_forall in Tm, Tt. apply smem_In in Hm. apply zmem_In in Ht.
  specialize (Tm _ Hm). specialize (Tt _ Ht). unfold model_ok in Tm. unfold type_ok in Tt.
  apply andb_true_iff in Tm as [Ta Tl]. apply andb_true_iff in Tt as [T0 T9].
  apply Z.leb_le in T0, T9.
  assert (L : (String.length m = 2 \/ String.length m = 3)%nat).
  { apply orb_true_iff in Tl as [E|E]; apply Nat.eqb_eq in E; auto. }
  unfold vehicle_id. cbn [fst snd].
  assert (C : (t = 0 \/ t = 1 \/ t = 2 \/ t = 3 \/ t = 4 \/ t = 5 \/ t = 6 \/ t = 7 \/ t = 8 \/ t = 9)%Z) by lia.
  destruct C as [->|[->|[->|[->|[->|[->|[->|[->|[->| ->]]]]]]]]];
    eexists; (split; [vm_compute str_z; reflexivity|]); repeat split; auto.
Qed.

Lemma parse_vehicle_id_print m t : smem m vehicle_models = true -> zmem t vehicle_types = true ->
  parse_vehicle_id (vehicle_id (m, t)) = Ok (m, t).
Proof.
  intros Hm Ht. destruct (vehicle_id_shape m t Hm Ht) as (d & E & Hd & _ & _ & L).
  rewrite E. unfold parse_vehicle_id. rewrite length_app_s, init_last_app. cbn [String.length].
  rewrite Hm, Hd, Ht. cbn [negb].
  destruct L as [-> | ->]; reflexivity.
Qed.

Lemma vehicle_ids_alnum vs : vs_ok vs = true -> forallb (sforall is_alnum) (map vehicle_id vs) = true.
Proof.
  induction vs as [|[m t] r IH]; [reflexivity|]. simpl. intros H. apply andb_true_iff in H as [H Hr].
  apply andb_true_iff in H as [Hm Ht]. cbn [fst snd] in *.
  destruct (vehicle_id_shape m t Hm Ht) as (d & E & _ & Hd & Ha & _).
  rewrite E, (IH Hr), sforall_app, Ha. simpl. rewrite Hd. reflexivity.
Qed.
Lemma cost_ids_alnum cs : cs_ok cs = true -> forallb (sforall is_alnum) cs = true.
Proof.
  destruct tables_parts as (_ & _ & _ & _ & _ & _ & Tc). rewrite forallb_forall in Tc.
  induction cs as [|c r IH]; [reflexivity|]. simpl. intros H. apply andb_true_iff in H as [Hc Hr].
  apply smem_In in Hc. rewrite (Tc _ Hc), (IH Hr). reflexivity.
Qed.

(* characters of a comma-separated list of alphanumeric items *)
Definition itemc (c : ascii) : bool := is_alnum c || Ascii.eqb c ",".
Lemma itemc_not_bracket c : itemc c = true -> not_bracket c = true.
Proof. ascii_cases c. Qed.
Lemma itemc_not_colon c : itemc c = true -> not_char ":" c = true.
Proof. ascii_cases c. Qed.
Lemma itemc_not_space c : itemc c = true -> not_char " " c = true.
Proof. ascii_cases c. Qed.
Lemma bracketc_not_colon c : (itemc c || Ascii.eqb c "[" || Ascii.eqb c "]") = true -> not_char ":" c = true.
Proof. ascii_cases c. Qed.
Lemma bracketc_not_space c : (itemc c || Ascii.eqb c "[" || Ascii.eqb c "]") = true -> not_char " " c = true.
Proof. ascii_cases c. Qed.

Lemma concat_itemc l : forallb (sforall is_alnum) l = true -> sforall itemc (String.concat "," l) = true.
Proof.
  induction l as [|x r IH]; [reflexivity|]. intros H. simpl in H. apply andb_true_iff in H as [Hx Hr].
  assert (Hx' : sforall itemc x = true).
  { apply (sforall_impl is_alnum); [|assumption]. intros c Hc. unfold itemc. rewrite Hc. reflexivity. }
  destruct r as [|y r']; [exact Hx'|].
  change (String.concat "," (x :: y :: r')) with (x ++ String "," (String.concat "," (y :: r'))).
  apply sforall_true_app; [assumption|]. cbn [sforall]. rewrite (IH Hr). reflexivity.
Qed.
Lemma split_concat l : l <> [] -> forallb (sforall is_alnum) l = true -> split "," (String.concat "," l) = l.
Proof.
  induction l as [|x r IH]; [congruence|]. intros _ H. simpl in H. apply andb_true_iff in H as [Hx Hr].
  assert (Hx' : sforall (not_char ",") x = true).
  { apply (sforall_impl is_alnum); [exact alnum_not_comma|assumption]. }
  destruct r as [|y r'].
  - simpl. apply split_nosep. assumption.
  - change (String.concat "," (x :: y :: r')) with (x ++ String "," (String.concat "," (y :: r'))).
    rewrite (split_app _ _ _ Hx'), (IH ltac:(discriminate) Hr). reflexivity.
Qed.

Definition bracketc (c : ascii) : bool := itemc c || Ascii.eqb c "[" || Ascii.eqb c "]".
Lemma bracket_chars l : forallb (sforall is_alnum) l = true -> sforall bracketc (bracket l) = true.
Proof.
  intros H. pose proof (concat_itemc l H) as C.
  assert (C' : sforall bracketc (String.concat "," l) = true).
  { apply (sforall_impl itemc); [|assumption]. intros c Hc. unfold bracketc. rewrite Hc. reflexivity. }
  assert (G : sforall bracketc ("[" ++ String.concat "," l ++ "]") = true).
  { apply sforall_true_app; [reflexivity|]. apply sforall_true_app; [assumption|reflexivity]. }
  unfold bracket. destruct l as [|x [|y r]]; try assumption.
Qed.
Lemma bracket_strip l : forallb (sforall is_alnum) l = true ->
  sfilter not_bracket (bracket l) = String.concat "," l.
Proof.
  intros H. pose proof (concat_itemc l H) as C.
  assert (C' : sfilter not_bracket (String.concat "," l) = String.concat "," l).
  { apply sfilter_id. apply (sforall_impl itemc); [exact itemc_not_bracket|assumption]. }
  assert (G : sfilter not_bracket ("[" ++ String.concat "," l ++ "]") = String.concat "," l).
  { rewrite sfilter_app, sfilter_app, C'. simpl. apply app_nil_r_s. }
  unfold bracket. destruct l as [|x [|y r]]; try assumption.
Qed.

Theorem parse_print_bid vs cs s :
  wfb s = true -> mname s <> "" -> vs <> [] -> cs <> [] -> vs_ok vs = true -> cs_ok cs = true ->
  parse_benchmark_id (print_bid vs cs s) = Ok (map vehicle_id vs, cs, (false, Ok s)) /\
  map parse_vehicle_id (map vehicle_id vs) = map Ok vs /\ map parse_cost_id cs = map Ok cs.
Proof.
  intros W Hn Hv Hc Vok Cok. split; [|split].
  - pose proof (vehicle_ids_alnum vs Vok) as Va. pose proof (cost_ids_alnum cs Cok) as Ca.
    pose proof (bracket_chars _ Va) as Vb. pose proof (bracket_chars _ Ca) as Cb.
    pose proof (print_tokc s W) as Pt.
    assert (Vs : sforall (fun c => not_char ":" c && not_char " " c) (ver s) = true).
    { destruct tables_parts as (_ & _ & _ & Tv & _). rewrite forallb_forall in Tv. apply Tv.
      unfold wfb in W. repeat (apply andb_true_iff in W as [W ?]). apply smem_In. assumption. }
    assert (Vc : sforall (not_char ":") (ver s) = true).
    { apply (sforall_impl _ _ _ (fun c H => proj1 (proj1 (andb_true_iff _ _) H)) Vs). }
    assert (Vsp : sforall (not_char " ") (ver s) = true).
    { apply (sforall_impl _ _ _ (fun c H => proj2 (proj1 (andb_true_iff _ _) H)) Vs). }
    unfold parse_benchmark_id, print_bid.
    set (A := bracket (map vehicle_id vs)) in *. set (B := bracket cs) in *.
    rewrite sfilter_id.
    2:{ apply sforall_true_app; [apply (sforall_impl bracketc); [exact bracketc_not_space|assumption]|].
        apply sforall_true_app; [reflexivity|].
        apply sforall_true_app; [apply (sforall_impl bracketc); [exact bracketc_not_space|assumption]|].
        apply sforall_true_app; [reflexivity|].
        apply sforall_true_app; [apply (sforall_impl tokc); [exact tokc_not_space|assumption]|].
        apply sforall_true_app; [reflexivity|assumption]. }
    change (A ++ ":" ++ B ++ ":" ++ print s ++ ":" ++ ver s)
      with (A ++ String ":" (B ++ String ":" (print s ++ String ":" (ver s)))).
    rewrite split_app by (apply (sforall_impl bracketc); [exact bracketc_not_colon|assumption]).
    rewrite split_app by (apply (sforall_impl bracketc); [exact bracketc_not_colon|assumption]).
    rewrite split_app by (apply (sforall_impl tokc); [exact tokc_not_colon|assumption]).
    rewrite (split_nosep _ _ Vc).
    unfold A, B. rewrite (bracket_strip _ Va), (bracket_strip _ Ca).
    assert (Hv' : map vehicle_id vs <> []) by (destruct vs; [congruence|discriminate]).
    rewrite (split_concat _ Hv' Va), (split_concat _ Hc Ca).
    rewrite (from_print s W Hn). reflexivity.
  - induction vs as [|[m t] r IH]; [reflexivity|]. simpl in Vok. apply andb_true_iff in Vok as [H Hr].
    apply andb_true_iff in H as [Hm Ht]. cbn [fst snd] in *.
    cbn [map]. rewrite (parse_vehicle_id_print m t Hm Ht). f_equal.
    destruct r; [reflexivity|]. apply IH; [discriminate|assumption].
  - clear Hc. induction cs as [|c r IH]; [reflexivity|]. simpl in Cok. apply andb_true_iff in Cok as [H Hr].
    cbn [map]. unfold parse_cost_id at 1. rewrite H. f_equal. exact (IH Hr).
Qed.

Example solution_id_example :
  exists s, ctor {| a_coop := true; a_country := Some "DEU"; a_name := "A9"; a_mid := 2%Z; a_conf := Some 1%Z;
                    a_beh := Some "T"; a_pid := PList [1%Z; 2%Z]; a_ver := "2020a" |} = Ok s /\
  print_bid [("PM", 1%Z); ("KST", 3%Z)] ["JB1"; "SA1"] s = "[PM1,KST3]:[JB1,SA1]:C-DEU_A9-2_1_T-1-2:2020a" /\
  parse_benchmark_id "[PM1,KST3]:[JB1,SA1]:C-DEU_A9-2_1_T-1-2:2020a" = Ok (["PM1"; "KST3"], ["JB1"; "SA1"], (false, Ok s)).
Proof. eexists. split; [vm_compute; reflexivity|]. split; vm_compute; reflexivity. Qed.
