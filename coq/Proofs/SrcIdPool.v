(* Proofs/SrcIdPool.v — the programs parsed on every run from Scenario._is_object_id_used / _mark_object_id_as_used /
   _mark_object_ids_as_used / generate_object_id (Gen/Src_idpool.v), run by the interpreter of Model/IdPoolSrc.v,
   compute [mark_one], [mark_all] and [generate] of Model/IdPool.v, which the C09 theorems are about.  Two steps: the
   parsed programs are the canonical ones (reflexivity on the generated text), and the canonical programs are related
   to the model functions on every state: same id set, same counter, an exception exactly when the model returns
   ValueError (and the id generated is the model's). *)
From Coq Require Import ZArith List Bool Lia.
Import ListNotations.
From CR Require Import Model.IdPool Model.IdPoolSrc Gen.Src_idpool.
Open Scope Z_scope.

(* the parsed state and the model state agree on what the id bookkeeping touches *)
Definition R (p : pst) (s : st) : Prop := p_ids p = idset s /\ p_ctr p = counter s.
Definition raised (e : option exn) : bool := match e with Some _ => true | None => false end.

Lemma R_of_st s : R (of_st s) s.
Proof. split; reflexivity. Qed.

(* ---------------------------------------------------------------- _mark_object_id_as_used *)
Lemma mark_one_src : forall z p s, R p s ->
  let (p', r) := run_mark_one canon_mark_one z p in
  let (s', e) := mark_one z s in
  R p' s' /\ r = raised e /\ p_new p' = p_new p /\ (e = None \/ e = Some ValueError).
Proof.
  intros z [ids ctr nw] s [Hi Hc]. cbn [p_ids p_ctr] in Hi, Hc. subst ids ctr.
  unfold run_mark_one, canon_mark_one, mark_one.
  cbn [sruns srun ceval aruns arun p_ctr p_ids p_new].
  destruct (counter s) as [c|] eqn:Ec.
  - (* counter set *)
    cbn [p_ctr p_ids p_new]. destruct (mem z (idset s)) eqn:Em.
    + cbn. repeat split; auto.
    + cbn [aruns arun p_ids p_ctr p_new]. rewrite Em. cbn.
      unfold R; cbn. rewrite Ec. repeat split; auto.
  - cbn [p_ctr p_ids p_new].
    assert (Hs : idset (set_counter s (Some z)) = idset s) by reflexivity.
    rewrite Hs. destruct (mem z (idset s)) eqn:Em.
    + cbn. unfold R; cbn. repeat split; auto.
    + cbn [aruns arun p_ids p_ctr p_new]. rewrite Em. cbn. unfold R; cbn. repeat split; auto.
Qed.

(* ---------------------------------------------------------------- the marking loop = IdPool.loop mark_one *)
Lemma body_loop_src : forall ids p s, R p s ->
  let (p', r) := for_ids (run_mark_one canon_mark_one) canon_body ids p in
  let (s', e) := loop mark_one ids s in
  R p' s' /\ r = raised e.
Proof.
  induction ids as [|z ids IH]; intros p s HR.
  - cbn. split; [exact HR | reflexivity].
  - cbn [for_ids canon_body sruns srun arun loop]. unfold seq.
    pose proof (mark_one_src z p s HR) as H.
    destruct (run_mark_one canon_mark_one z p) as [p1 r1].
    destruct (mark_one z s) as [s1 e1].
    destruct H as [HR1 [Hr [_ _]]]. subst r1.
    destruct e1 as [e|]; cbn [raised].
    + split; [exact HR1 | reflexivity].
    + specialize (IH p1 s1 HR1). exact IH.
Qed.

(* ---------------------------------------------------------------- the checking loop = free_all *)
Fixpoint fresh_wrt (used acc ids : list Z) : bool :=
  match ids with
  | [] => true
  | z :: r => negb (mem z used) && negb (mem z acc) && fresh_wrt used (z :: acc) r
  end.

Lemma mem_cons z y l : mem z (y :: l) = (z =? y) || mem z l.
Proof. reflexivity. Qed.

Lemma forallb_not_mem_cons z acc r :
  forallb (fun y => negb (mem y (z :: acc))) r = negb (mem z r) && forallb (fun y => negb (mem y acc)) r.
Proof.
  induction r as [|y r IH]; [reflexivity|].
  cbn [forallb]. rewrite IH, !mem_cons. rewrite (Z.eqb_sym z y).
  destruct (y =? z), (mem y acc), (mem z r), (forallb (fun y0 => negb (mem y0 acc)) r); reflexivity.
Qed.

Lemma fresh_wrt_spec used : forall ids acc,
  fresh_wrt used acc ids =
  forallb (fun z => negb (mem z used)) ids && forallb (fun z => negb (mem z acc)) ids && nodupb ids.
Proof.
  induction ids as [|z r IH]; intro acc; [reflexivity|].
  cbn [fresh_wrt forallb nodupb]. rewrite IH, forallb_not_mem_cons.
  destruct (mem z used), (mem z acc), (mem z r), (forallb (fun z0 => negb (mem z0 used)) r),
    (forallb (fun y => negb (mem y acc)) r), (nodupb r); reflexivity.
Qed.

Lemma fresh_wrt_free_all ids s : fresh_wrt (idset s) [] ids = free_all ids s.
Proof.
  rewrite fresh_wrt_spec. unfold free_all.
  assert (H : forallb (fun z => negb (mem z [])) ids = true) by (induction ids; [reflexivity | exact IHids]).
  rewrite H. destruct (forallb (fun z => negb (mem z (idset s))) ids), (nodupb ids); reflexivity.
Qed.

Lemma check_loop_src mark : forall ids ids0 ctr acc,
  NoDup acc ->
  for_ids mark canon_check ids {| p_ids := ids0; p_ctr := ctr; p_new := acc |} =
  if fresh_wrt ids0 acc ids
  then ({| p_ids := ids0; p_ctr := ctr; p_new := rev ids ++ acc |}, false)
  else (fst (for_ids mark canon_check ids {| p_ids := ids0; p_ctr := ctr; p_new := acc |}), true).
Proof.
  induction ids as [|z r IH]; intros ids0 ctr acc Hnd; [reflexivity|].
  cbn [for_ids canon_check sruns srun ceval aruns arun fresh_wrt p_ids p_ctr p_new].
  destruct (mem z ids0) eqn:Eu; cbn [orb negb andb fst]; [reflexivity|].
  destruct (mem z acc) eqn:Ea; cbn [orb negb andb fst]; [reflexivity|].
  cbn [p_new p_ids p_ctr]. rewrite Ea.
  rewrite (IH ids0 ctr (z :: acc)).
  - destruct (fresh_wrt ids0 (z :: acc) r); [|reflexivity].
    cbn [rev]. rewrite <- app_assoc. reflexivity.
  - constructor; [|exact Hnd]. intro Hin.
    assert (mem z acc = true) by (unfold mem; apply existsb_exists; exists z; split; [exact Hin | apply Z.eqb_refl]).
    congruence.
Qed.

(* ---------------------------------------------------------------- _mark_object_ids_as_used *)
Theorem mark_all_src : forall ids s,
  let (p', r) := run_mark_all canon_mark_one canon_check canon_body ids (of_st s) in
  let (s', e) := mark_all ids s in
  R p' s' /\ r = raised e.
Proof.
  intros ids s. unfold run_mark_all, mark_all, of_st. cbn [p_ids p_ctr].
  rewrite (check_loop_src (run_mark_one canon_mark_one) ids (idset s) (counter s) []) by constructor.
  rewrite fresh_wrt_free_all.
  destruct (free_all ids s) eqn:Ef.
  - pose proof (body_loop_src ids {| p_ids := idset s; p_ctr := counter s; p_new := rev ids ++ [] |} s) as H.
    specialize (H (conj eq_refl eq_refl)). exact H.
  - (* the check raises; nothing was marked: id set and counter are untouched *)
    cbn [fst].
    assert (Hk : forall l acc, let q := fst (for_ids (run_mark_one canon_mark_one) canon_check l
                                               {| p_ids := idset s; p_ctr := counter s; p_new := acc |}) in
                               p_ids q = idset s /\ p_ctr q = counter s).
    { induction l as [|z l IHl]; intro acc; [split; reflexivity|].
      cbn [for_ids canon_check sruns srun ceval aruns arun p_ids p_ctr p_new].
      destruct (mem z (idset s) || mem z acc); cbn [fst]; [split; reflexivity|].
      cbn [p_ids p_ctr p_new].
      destruct (for_ids (run_mark_one canon_mark_one) canon_check l
                  {| p_ids := idset s; p_ctr := counter s; p_new := if mem z acc then acc else z :: acc |})
        as [q b] eqn:Eq.
      specialize (IHl (if mem z acc then acc else z :: acc)). rewrite Eq in IHl. cbn [fst] in IHl.
      destruct b; exact IHl. }
    split; [exact (Hk ids []) | reflexivity].
Qed.

Theorem mark_one_src_top : forall z s,
  let (p', r) := run_mark_one canon_mark_one z (of_st s) in
  let (s', e) := mark_one z s in
  R p' s' /\ r = raised e.
Proof.
  intros z s. pose proof (mark_one_src z (of_st s) s (R_of_st s)) as H.
  destruct (run_mark_one canon_mark_one z (of_st s)) as [p' r]. destruct (mark_one z s) as [s' e].
  destruct H as [H1 [H2 _]]. split; assumption.
Qed.

(* ---------------------------------------------------------------- generate_object_id *)
Theorem generate_src : forall s,
  let (p', ret) := run_generate canon_generate (of_st s) in
  let (s', g) := generate s in
  R p' s' /\ ret = Some g.
Proof.
  intro s. unfold run_generate, canon_generate, generate, of_st. cbn [fold_left grun p_ids p_ctr p_new].
  destruct (counter s) as [c|]; destruct (idset s) as [|x r]; cbn; unfold R; cbn; repeat split; reflexivity.
Qed.

(* ---------------------------------------------------------------- the parsed source *)
Lemma src_is_canon :
  src_is_used = UsedIsMember /\ src_mark_one = canon_mark_one /\ src_mark_all_check = canon_check /\
  src_mark_all_body = canon_body /\ src_generate = canon_generate.
Proof. repeat split; reflexivity. Qed.

Theorem src_mark_one_is_model : forall z s,
  let (p', r) := run_mark_one src_mark_one z (of_st s) in
  let (s', e) := mark_one z s in R p' s' /\ r = raised e.
Proof. exact mark_one_src_top. Qed.
Theorem src_mark_all_is_model : forall ids s,
  let (p', r) := run_mark_all src_mark_one src_mark_all_check src_mark_all_body ids (of_st s) in
  let (s', e) := mark_all ids s in R p' s' /\ r = raised e.
Proof. exact mark_all_src. Qed.
Theorem src_generate_is_model : forall s,
  let (p', ret) := run_generate src_generate (of_st s) in
  let (s', g) := generate s in R p' s' /\ ret = Some g.
Proof. exact generate_src. Qed.
