(* Proofs/Transform.v — lemmas about Model/Transform.v (C05; reused by C04). *)
From Coq Require Import QArith ZArith Bool List Lia Lqa.
From CR Require Import Base.QMod Model.Interval Model.Transform.
Import ListNotations.
Open Scope Q_scope.

Lemma pt_eq_refl p : pt_eq p p.
Proof. split; reflexivity. Qed.
Lemma pt_eq_sym p q : pt_eq p q -> pt_eq q p.
Proof. intros [A B]. split; symmetry; assumption. Qed.
Lemma pt_eq_trans p q r : pt_eq p q -> pt_eq q r -> pt_eq p r.
Proof. intros [A B] [C D]. split; etransitivity; eassumption. Qed.

(* the matrix product as coded is the map p |-> R(c,s)(p + t) *)
Lemma tr_closed_form t a c s p :
  pt_eq (mapply (translation_rotation_matrix t a c s) p) (T c s t p).
Proof.
  destruct p as [x y], t as [tx ty].
  unfold pt_eq, mapply, translation_rotation_matrix, coef_tr, mmul, rotation_matrix, translation_matrix, T, rot, padd,
    px, py; simpl. split; ring.
Qed.

(* rotate_translate: p |-> R(c',s') p + t with the coefficients the code picked *)
Lemma rt_closed_form t a c s p :
  pt_eq (mapply (rotation_translation_matrix t a c s) p)
        (padd (rot (fst (coef_rt a c s)) (snd (coef_rt a c s)) p) t).
Proof.
  destruct p as [x y], t as [tx ty].
  unfold pt_eq, mapply, rotation_translation_matrix, rot, padd, px, py; simpl. split; ring.
Qed.

(* identity that needs no hypothesis on (c,s): squared distances are scaled by c^2 + s^2 *)
Lemma dist2_T c s t p q : dist2 (T c s t p) (T c s t q) == (c * c + s * s) * dist2 p q.
Proof.
  destruct p as [x y], q as [u v], t as [tx ty]. unfold dist2, T, rot, padd, px, py; simpl. ring.
Qed.

Lemma dist2_compat p p' q q' : pt_eq p p' -> pt_eq q q' -> dist2 p q == dist2 p' q'.
Proof. intros [A B] [C D]. unfold dist2. rewrite A, B, C, D. reflexivity. Qed.

Lemma dist2_move t a c s p q :
  dist2 (mapply (translation_rotation_matrix t a c s) p) (mapply (translation_rotation_matrix t a c s) q)
  == (c * c + s * s) * dist2 p q.
Proof.
  rewrite (dist2_compat _ _ _ _ (tr_closed_form t a c s p) (tr_closed_form t a c s q)). apply dist2_T.
Qed.

Lemma isometry t a c s p q : c * c + s * s == 1 ->
  dist2 (mapply (translation_rotation_matrix t a c s) p) (mapply (translation_rotation_matrix t a c s) q)
  == dist2 p q.
Proof. intro H. rewrite dist2_move, H. ring. Qed.

(* the scaling is not an isometry for any other coefficient pair (needed to refute the small-angle branch) *)
Lemma not_isometry_witness a : ~ a == 0 ->
  ~ dist2 (T 1 a (0, 0) (1, 0)) (T 1 a (0, 0) (0, 0)) == dist2 (1, 0) (0, 0).
Proof.
  intros Ha H. unfold dist2, T, rot, padd, px, py in H; simpl in H.
  assert (a * a == 0) by lra. apply Ha. destruct (Qeq_dec a 0) as [E|N]; [exact E|].
  exfalso. assert (0 < a * a) by (destruct (Q_dec a 0) as [[L|G]|E]; [nra|nra|contradiction]). lra.
Qed.

(* free vectors (point-mass velocity): the rotation scales the squared norm by c^2 + s^2 *)
Lemma rot_norm c s v : px (rot c s v) * px (rot c s v) + py (rot c s v) * py (rot c s v)
                       == (c * c + s * s) * (px v * px v + py v * py v).
Proof. destruct v as [x y]. unfold rot, px, py; simpl. ring. Qed.

(* undoing the motion: rotate back by -a (coefficients (c, -s)), then translate back by -t *)
Lemma inverse t a c s p : c * c + s * s == 1 ->
  pt_eq (mapply (translation_rotation_matrix (pneg t) 0 1 0)
          (mapply (translation_rotation_matrix (0, 0) (- a) c (- s))
             (mapply (translation_rotation_matrix t a c s) p))) p.
Proof.
  intro H. destruct p as [x y], t as [tx ty].
  unfold pt_eq, mapply, translation_rotation_matrix, coef_tr, mmul, rotation_matrix, translation_matrix, pneg,
    px, py; simpl.
  split.
  - transitivity ((c * c + s * s) * (x + tx) - tx); [ring | rewrite H; ring].
  - transitivity ((c * c + s * s) * (y + ty) - ty); [ring | rewrite H; ring].
Qed.

(* shoelace: the signed area of a closed vertex chain is scaled by c^2 + s^2 *)
Definition psub (p q : pt) : pt := (px p - px q, py p - py q).

Lemma cross_T c s t p q :
  cross (T c s t p) (T c s t q) == (c * c + s * s) * (cross p q + cross (psub p q) t).
Proof.
  destruct p as [x y], q as [u v], t as [tx ty]. unfold cross, T, rot, padd, psub, px, py; simpl. ring.
Qed.

Lemma shoelace_T_chain c s t : forall vs p0,
  shoelace (map (T c s t) (p0 :: vs)) ==
  (c * c + s * s) * (shoelace (p0 :: vs) + cross (psub p0 (last vs p0)) t).
Proof.
  induction vs as [|q r IH]; intro p0.
  - simpl. destruct p0 as [x y], t as [tx ty]. unfold cross, psub, px, py; simpl. ring.
  - change (shoelace (map (T c s t) (p0 :: q :: r)))
      with (cross (T c s t p0) (T c s t q) + shoelace (map (T c s t) (q :: r))).
    change (shoelace (p0 :: q :: r)) with (cross p0 q + shoelace (q :: r)).
    rewrite IH, cross_T.
    assert (L : last (q :: r) p0 = last r q).
    { clear. revert q p0. induction r as [|x r IH]; intros q p0; [reflexivity|].
      change (last (q :: x :: r) p0) with (last (x :: r) p0). rewrite (IH x p0), (IH x q). reflexivity. }
    rewrite L. generalize (last r q) as z. intro z.
    destruct p0 as [x y], q as [u v], z as [zx zy], t as [tx ty]. unfold cross, psub, px, py; simpl. ring.
Qed.

Lemma shoelace_ext (f g : pt -> pt) : (forall p, pt_eq (f p) (g p)) -> forall vs, shoelace (map f vs) == shoelace (map g vs).
Proof.
  intros H vs. induction vs as [|p r IH]; [reflexivity|].
  destruct r as [|q r']; [reflexivity|].
  change (cross (f p) (f q) + shoelace (map f (q :: r')) == cross (g p) (g q) + shoelace (map g (q :: r'))).
  rewrite IH. destruct (H p) as [A B], (H q) as [C D]. unfold cross. rewrite A, B, C, D. reflexivity.
Qed.

Lemma area_scaled t a c s p0 vs : pt_eq (last vs p0) p0 ->
  shoelace (map (mapply (translation_rotation_matrix t a c s)) (p0 :: vs)) == (c * c + s * s) * shoelace (p0 :: vs).
Proof.
  intros [A B].
  rewrite (shoelace_ext _ (T c s t) (tr_closed_form t a c s)), shoelace_T_chain.
  assert (E : cross (psub p0 (last vs p0)) t == 0).
  { unfold cross, psub; simpl. rewrite A, B. ring. }
  rewrite E. ring.
Qed.

Lemma area_preserved t a c s p0 vs : c * c + s * s == 1 -> pt_eq (last vs p0) p0 ->
  shoelace (map (mapply (translation_rotation_matrix t a c s)) (p0 :: vs)) == shoelace (p0 :: vs).
Proof. intros H L. rewrite (area_scaled t a c s p0 vs L), H. ring. Qed.

(* ------------------------------------------------------------------ make_valid_orientation *)
Section MVO.
  Variable tau : Q.
  Hypothesis tau_pos : 0 < tau.

  Lemma mvo_down_spec fuel : forall x y, mvo_down tau fuel x = Some y ->
    (exists k : Z, y == x + inject_Z k * tau) /\ y <= tau /\ (y == x \/ 0 < y).
  Proof.
    induction fuel as [|f IH]; intros x y H; simpl in H; [discriminate|].
    destruct (Qlt_bool tau x) eqn:E.
    - destruct (IH _ _ H) as [[k A] [B C]]. split; [|split; [exact B|]].
      + exists (k - 1)%Z. unfold Z.sub. rewrite inject_Z_plus, inject_Z_opp. change (inject_Z 1) with 1. lra.
      + apply Qlt_bool_iff in E. destruct C as [C|C]; [right; lra | right; exact C].
    - inversion H; subst. split; [exists 0%Z; change (inject_Z 0) with 0; ring|].
      split; [|left; reflexivity].
      apply Qnot_lt_le. intro L. apply Qlt_bool_iff in L. congruence.
  Qed.

  Lemma mvo_up_spec fuel : forall x y, mvo_up tau fuel x = Some y ->
    (exists k : Z, y == x + inject_Z k * tau) /\ - tau <= y /\ (x <= tau -> y <= tau).
  Proof.
    induction fuel as [|f IH]; intros x y H; simpl in H; [discriminate|].
    destruct (Qlt_bool x (- tau)) eqn:E.
    - destruct (IH _ _ H) as [[k A] [B C]]. apply Qlt_bool_iff in E. split; [|split; [exact B|]].
      + exists (k + 1)%Z. rewrite inject_Z_plus. change (inject_Z 1) with 1. lra.
      + intros _. apply C. lra.
    - inversion H; subst. split; [exists 0%Z; change (inject_Z 0) with 0; ring|].
      split; [|tauto].
      apply Qnot_lt_le. intro L. apply Qlt_bool_iff in L. congruence.
  Qed.

  (* the result is congruent to the argument modulo tau and lies in [-tau, tau] *)
  Lemma mvo_spec fuel x y : make_valid_orientation tau fuel x = Some y ->
    (exists k : Z, y == x + inject_Z k * tau) /\ - tau <= y /\ y <= tau.
  Proof.
    unfold make_valid_orientation. destruct (mvo_down tau fuel x) as [x1|] eqn:E; [|discriminate].
    intro H. destruct (mvo_down_spec _ _ _ E) as [[k A] [B _]].
    destruct (mvo_up_spec _ _ _ H) as [[j C] [D F]].
    split; [|split; [exact D | apply F; exact B]].
    exists (k + j)%Z. rewrite inject_Z_plus. lra.
  Qed.

  Lemma mvo_down_fuel : forall (n : nat) x, x <= tau * inject_Z (Z.of_nat n) + tau -> mvo_down tau (S n) x <> None.
  Proof.
    induction n as [|n IH]; intros x H.
    - simpl. change (inject_Z (Z.of_nat 0)) with 0 in H.
      assert (E : Qlt_bool tau x = false) by (apply not_true_iff_false; rewrite Qlt_bool_iff; lra).
      rewrite E. discriminate.
    - change (mvo_down tau (S (S n)) x) with (if Qlt_bool tau x then mvo_down tau (S n) (x - tau) else Some x).
      destruct (Qlt_bool tau x); [|discriminate].
      apply IH. rewrite Nat2Z.inj_succ in H. unfold Z.succ in H. rewrite inject_Z_plus in H.
      change (inject_Z 1) with 1 in H. lra.
  Qed.

  Lemma mvo_up_fuel : forall (n : nat) x, - (tau * inject_Z (Z.of_nat n) + tau) <= x -> mvo_up tau (S n) x <> None.
  Proof.
    induction n as [|n IH]; intros x H.
    - simpl. change (inject_Z (Z.of_nat 0)) with 0 in H.
      assert (E : Qlt_bool x (- tau) = false) by (apply not_true_iff_false; rewrite Qlt_bool_iff; lra).
      rewrite E. discriminate.
    - change (mvo_up tau (S (S n)) x) with (if Qlt_bool x (- tau) then mvo_up tau (S n) (x + tau) else Some x).
      destruct (Qlt_bool x (- tau)); [|discriminate].
      apply IH. rewrite Nat2Z.inj_succ in H. unfold Z.succ in H. rewrite inject_Z_plus in H.
      change (inject_Z 1) with 1 in H. lra.
  Qed.

  (* the two loops finish within n+1 iterations for |x| <= (n+1) tau *)
  Lemma mvo_fuel (n : nat) x :
    - (tau * inject_Z (Z.of_nat n) + tau) <= x -> x <= tau * inject_Z (Z.of_nat n) + tau ->
    make_valid_orientation tau (S n) x <> None.
  Proof.
    intros Hlo Hhi. unfold make_valid_orientation.
    destruct (mvo_down tau (S n) x) as [x1|] eqn:E; [|exfalso; exact (mvo_down_fuel n x Hhi E)].
    apply mvo_up_fuel.
    destruct (mvo_down_spec _ _ _ E) as [_ [_ [C|C]]].
    - rewrite C. exact Hlo.
    - assert (0 <= tau * inject_Z (Z.of_nat n)).
      { apply Qmult_le_0_compat; [lra|]. change 0 with (inject_Z 0). rewrite <- Zle_Qle. lia. }
      lra.
  Qed.

  Lemma nat_scale (n m : nat) : (n <= m)%nat -> tau * inject_Z (Z.of_nat n) <= tau * inject_Z (Z.of_nat m).
  Proof.
    intro H. apply Qmult_le_l; [exact tau_pos|]. rewrite <- Zle_Qle. lia.
  Qed.

  (* for a valid orientation shifted by a valid angle, any fuel >= 2 suffices *)
  Lemma mvo_fuel2 fuel x : (2 <= fuel)%nat -> - (2 * tau) <= x -> x <= 2 * tau ->
    exists y, make_valid_orientation tau fuel x = Some y.
  Proof.
    intros Hf Hlo Hhi. destruct fuel as [|n]; [lia|].
    pose proof (nat_scale 1 n ltac:(lia)) as Hs. change (inject_Z (Z.of_nat 1)) with 1 in Hs.
    destruct (make_valid_orientation tau (S n) x) as [y|] eqn:E; [exists y; reflexivity|].
    exfalso. apply (mvo_fuel n x); [lra|lra|exact E].
  Qed.
End MVO.
