(* Proofs/ShapeCache.v — Model/ShapeCache.v: with the repaired setters every reachable Rectangle / Circle / Polygon is
   coherent (a filled cache holds what recomputation from the current attribute values gives) and every query answers
   as on the object freshly constructed from those values; with the setters as they were found both statements are
   refuted by a three-step history. *)
From Coq Require Import List Bool.
Import ListNotations.
From CR Require Import Model.ShapeCache.

Section Repaired.
  Variables num pt verts geom : Type.
  Variable rect_verts : num -> num -> pt -> num -> verts.
  Variable poly_geom : verts -> geom.
  Variable circ_geom : num -> pt -> geom.
  Variable box_of : verts -> verts.

  Notation rstepR := (rstep num pt verts geom rect_verts poly_geom true).
  Notation rrunR := (rrun num pt verts geom rect_verts poly_geom true).
  Notation rcoh := (r_coherent num pt verts geom rect_verts poly_geom).
  Notation rnew := (rect_new num pt verts geom).
  Notation rreb := (r_rebuilt num pt verts geom).

  Lemma rect_new_coherent l w c o : rcoh (rnew l w c o).
  Proof. split; intros x H; discriminate H. Qed.

  Lemma r_fill_verts_spec r : rcoh r ->
    snd (r_fill_verts num pt verts geom rect_verts r) = rect_verts (r_l _ _ _ _ r) (r_w _ _ _ _ r) (r_c _ _ _ _ r) (r_o _ _ _ _ r)
    /\ rcoh (fst (r_fill_verts num pt verts geom rect_verts r)).
  Proof.
    intros H. unfold r_fill_verts. destruct (r_verts _ _ _ _ r) as [v|] eqn:E; cbn [fst snd].
    - split; [exact (proj1 H v E) | exact H].
    - split; [reflexivity|]. split; cbn.
      + intros v Hv. injection Hv as Hv. symmetry. exact Hv.
      + exact (proj2 H).
  Qed.

  Lemma r_fill_geom_spec r : rcoh r ->
    snd (r_fill_geom num pt verts geom rect_verts poly_geom r)
      = poly_geom (rect_verts (r_l _ _ _ _ r) (r_w _ _ _ _ r) (r_c _ _ _ _ r) (r_o _ _ _ _ r))
    /\ rcoh (fst (r_fill_geom num pt verts geom rect_verts poly_geom r)).
  Proof.
    intros H. unfold r_fill_geom.
    destruct (r_geom _ _ _ _ r) as [g|] eqn:E; cbn [fst snd].
    - split; [exact (proj2 H g E) | exact H].
    - destruct (r_fill_verts_spec r H) as [Sv [Cv Cg]].
      destruct (r_fill_verts num pt verts geom rect_verts r) as [r1 v] eqn:F. cbn [fst snd] in *.
      assert (Eattr : r_l _ _ _ _ r1 = r_l _ _ _ _ r /\ r_w _ _ _ _ r1 = r_w _ _ _ _ r /\ r_c _ _ _ _ r1 = r_c _ _ _ _ r
                      /\ r_o _ _ _ _ r1 = r_o _ _ _ _ r).
      { unfold r_fill_verts in F. destruct (r_verts _ _ _ _ r); injection F as F1 F2; subst r1; cbn; repeat split. }
      destruct Eattr as [El [Ew [Ec Eo]]].
      cbn [fst snd]. split; [rewrite Sv; reflexivity|].
      split; cbn.
      + intros v' Hv'. exact (Cv v' Hv').
      + intros g' Hg'. injection Hg' as Hg'. subst g'. rewrite Sv, El, Ew, Ec, Eo. reflexivity.
  Qed.

  (* one step keeps coherence *)
  Theorem rstep_coherent r o : rcoh r -> rcoh (fst (rstepR r o)).
  Proof.
    intro H. destruct o; cbn [rstep fst]; unfold r_keep; try apply rect_new_coherent.
    - destruct (r_fill_verts_spec r H) as [_ C].
      destruct (r_fill_verts num pt verts geom rect_verts r) as [r1 v]. exact C.
    - destruct (r_fill_geom_spec r H) as [_ C].
      destruct (r_fill_geom num pt verts geom rect_verts poly_geom r) as [r1 g]. exact C.
  Qed.

  (* every object reachable from a constructed one is coherent *)
  Theorem rrun_coherent : forall ops r, rcoh r -> rcoh (rrunR r ops).
  Proof.
    induction ops as [|o ops IH]; intros r H; [exact H|].
    unfold rrun. cbn [fold_left]. apply IH. apply rstep_coherent. exact H.
  Qed.

  (* a coherent object answers every operation like the object freshly constructed from its current values *)
  Theorem rstep_answers_like_rebuilt r o : rcoh r -> snd (rstepR r o) = snd (rstepR (rreb r) o).
  Proof.
    intro H. destruct o; try reflexivity.
    - cbn [rstep]. destruct (r_fill_verts_spec r H) as [S _].
      destruct (r_fill_verts num pt verts geom rect_verts r) as [r1 v]. cbn [snd] in *. rewrite S. reflexivity.
    - cbn [rstep]. destruct (r_fill_geom_spec r H) as [S _].
      destruct (r_fill_geom num pt verts geom rect_verts poly_geom r) as [r1 g]. cbn [snd] in *. rewrite S. reflexivity.
  Qed.

  Corollary rect_history_answers : forall l w c o ops q,
    snd (rstepR (rrunR (rnew l w c o) ops) q) = snd (rstepR (rreb (rrunR (rnew l w c o) ops)) q).
  Proof. intros. apply rstep_answers_like_rebuilt. apply rrun_coherent. apply rect_new_coherent. Qed.

  (* ---------------------------------------------------------------- Circle *)
  Notation cstepR := (cstep num pt geom circ_geom true).
  Notation crunR := (crun num pt geom circ_geom true).
  Notation ccoh := (c_coherent num pt geom circ_geom).

  Lemma circ_new_coherent r c : ccoh (circ_new num pt geom r c).
  Proof. intros g H. discriminate H. Qed.

  Theorem cstep_coherent s o : ccoh s -> ccoh (fst (cstepR s o)).
  Proof.
    intro H. destruct o; cbn [cstep fst]; unfold c_keep; try apply circ_new_coherent.
    destruct (c_geom _ _ _ s) as [g|] eqn:E; cbn [fst]; [exact H|].
    intros g Hg. cbn in Hg. injection Hg as Hg. symmetry. exact Hg.
  Qed.

  Theorem crun_coherent : forall ops s, ccoh s -> ccoh (crunR s ops).
  Proof.
    induction ops as [|o ops IH]; intros s H; [exact H|].
    unfold crun. cbn [fold_left]. apply IH. apply cstep_coherent. exact H.
  Qed.

  Theorem cstep_answers_like_rebuilt s o : ccoh s -> snd (cstepR s o) = snd (cstepR (c_rebuilt num pt geom s) o).
  Proof.
    intro H. destruct o; try reflexivity. cbn [cstep c_rebuilt circ_new c_geom c_r c_c snd].
    destruct (c_geom _ _ _ s) as [g|] eqn:E; cbn [snd]; [rewrite (H g E)|]; reflexivity.
  Qed.

  (* ---------------------------------------------------------------- Polygon *)
  Notation pstepR := (pstep verts geom poly_geom box_of true).
  Notation prunR := (prun verts geom poly_geom box_of true).
  Notation pcoh := (p_coherent verts geom poly_geom box_of).

  Lemma poly_new_coherent v : pcoh (poly_new verts geom poly_geom box_of v).
  Proof. split; reflexivity. Qed.

  Theorem pstep_coherent s o : pcoh s -> pcoh (fst (pstepR s o)).
  Proof. intro H. destruct o; cbn [pstep fst]; [apply poly_new_coherent | exact H]. Qed.

  Theorem prun_coherent : forall ops s, pcoh s -> pcoh (prunR s ops).
  Proof.
    induction ops as [|o ops IH]; intros s H; [exact H|].
    unfold prun. cbn [fold_left]. apply IH. apply pstep_coherent. exact H.
  Qed.

  Theorem pstep_answers_like_rebuilt s o : pcoh s ->
    snd (pstepR s o) = snd (pstepR (poly_new verts geom poly_geom box_of (p_v _ _ s)) o).
  Proof. intros [Hg _]. destruct o; [reflexivity|]. cbn [pstep snd poly_new p_geom]. rewrite Hg. reflexivity. Qed.
End Repaired.

(* ================================================================ the setters as they were found *)
(* numbers, points, vertices and geometry are all natural-number tokens; vertices of a rectangle = l + w + c + o *)
Definition tok_verts (l w c o : nat) : nat := l + w + c + o.
Definition tok_geom (v : nat) : nat := v.
Definition tok_circ (r c : nat) : nat := r + c.

Lemma rect_unrepaired_refuted :
  let r := rrun nat nat nat nat tok_verts tok_geom false (rect_new nat nat nat nat 4 2 0 0) [RQGeom; RSetL 10] in
  ~ r_coherent nat nat nat nat tok_verts tok_geom r /\
  snd (rstep nat nat nat nat tok_verts tok_geom false r RQVerts) = RVerts 6 /\
  snd (rstep nat nat nat nat tok_verts tok_geom false (r_rebuilt nat nat nat nat r) RQVerts) = RVerts 12.
Proof.
  cbv zeta. split; [|split; reflexivity].
  intros [Hv _]. specialize (Hv 6 eq_refl). vm_compute in Hv. discriminate Hv.
Qed.

Lemma circ_unrepaired_refuted :
  let s := crun nat nat nat tok_circ false (circ_new nat nat nat 1 0) [CQGeom; CSetR 5] in
  ~ c_coherent nat nat nat tok_circ s /\
  snd (cstep nat nat nat tok_circ false s CQGeom) = Some 1 /\
  snd (cstep nat nat nat tok_circ false (c_rebuilt nat nat nat s) CQGeom) = Some 5.
Proof.
  cbv zeta. split; [|split; reflexivity].
  intro H. specialize (H 1 eq_refl). vm_compute in H. discriminate H.
Qed.

Lemma poly_unrepaired_refuted :
  let s := prun nat nat tok_geom (fun v => v) false (poly_new nat nat tok_geom (fun v => v) 3) [PSetV 8] in
  ~ p_coherent nat nat tok_geom (fun v => v) s /\
  snd (pstep nat nat tok_geom (fun v => v) false s PQGeom) = Some 3 /\
  p_box nat nat s = 8.
Proof.
  cbv zeta. split; [|split; reflexivity].
  intros [H _]. vm_compute in H. discriminate H.
Qed.

(* non-vacuity: a repaired rectangle with filled caches that a setter then empties *)
Example rect_repaired_example :
  let r := rrun nat nat nat nat tok_verts tok_geom true (rect_new nat nat nat nat 4 2 0 0) [RQGeom] in
  r_verts nat nat nat nat r = Some 6 /\ r_geom nat nat nat nat r = Some 6 /\
  r_verts nat nat nat nat (fst (rstep nat nat nat nat tok_verts tok_geom true r (RSetL 10))) = None /\
  snd (rstep nat nat nat nat tok_verts tok_geom true
         (rrun nat nat nat nat tok_verts tok_geom true r [RSetL 10]) RQVerts) = RVerts 12.
Proof. cbv zeta. repeat split. Qed.
