(* Model/Occupancy.v — property C04: which occupancy / state an obstacle reports for a time step, how a
   shape is placed at a state, and the enclosing rectangle for uncertain states.
     Trajectory.state_at_time_step                       scenario/trajectory.py:133-143
     Prediction.occupancy_at_time_step                   prediction/prediction.py:121-138
     TrajectoryPrediction._create_occupancy_set          prediction/prediction.py:389-404
     Static / Dynamic / Phantom / EnvironmentObstacle.occupancy_at_time, state_at_time
                                                         scenario/obstacle.py:419-435, 612-642, 797-820, 954-961
     Scenario.occupancies_at_time_step, obstacles_by_role_and_type, obstacles_by_position_intervals,
     obstacle_states_at_time_step                        scenario/scenario.py:1046-1201
     Rectangle / Circle / Polygon / ShapeGroup.rotate_translate_local   geometry/shape.py:178-188, 298-312, 407-426, 515-534
     occupancy_shape_from_state                          geometry/shape.py:554-632 (after fix)
     PMState.orientation                                 scenario/state.py:383-392
   Part (i) is generic in the type [S] of states and [R] of regions; errors of the implementation are [Err]. *)
From Coq Require Import QArith Qabs ZArith Bool List Qminmax.
From CR Require Import Base.QMod Model.Interval Model.Transform Model.Shapes.
Import ListNotations.
Open Scope Z_scope.

(* ================================================================== (i) dispatch over time steps *)
Section Dispatch.
  Variables S R : Type.
  Variable tstep : S -> Z.          (* state.time_step *)
  Variable place : S -> R.          (* occupancy_shape_from_state(shape, state), the obstacle's shape fixed *)

  (* Occupancy.time_step: an int or an Interval *)
  Inductive tkey := TStep (t : Z) | TItv (a b : Z).
  Record occ := { o_time : tkey; o_region : R }.

  Definition key_matches (k : tkey) (t : Z) : bool :=
    match k with TStep u => Z.eqb u t | TItv a b => Z.leb a t && Z.leb t b end.

  (* Prediction.occupancy_at_time_step: the first stored occupancy whose step / interval contains t *)
  Fixpoint lookup (l : list occ) (t : Z) : option occ :=
    match l with
    | [] => None
    | o :: r => if key_matches (o_time o) t then Some o else lookup r t
    end.

  Record traj := { t_init : Z; t_states : list S }.
  (* Trajectory.state_at_time_step: state_list[t - t_init] iff t_init <= t < t_init + len *)
  Definition state_at_time_step (tr : traj) (t : Z) : option S :=
    if Z.leb (t_init tr) t && Z.ltb t (t_init tr + Z.of_nat (List.length (t_states tr)))
    then nth_error (t_states tr) (Z.to_nat (t - t_init tr)) else None.
  (* TrajectoryPrediction._create_occupancy_set *)
  Definition occupancy_set (tr : traj) : list occ :=
    map (fun s => {| o_time := TStep (tstep s); o_region := place s |}) (t_states tr).

  Inductive prediction := PrTraj (tr : traj) | PrSet (occs : list occ).
  Definition pred_occupancy_at (p : prediction) (t : Z) : option occ :=
    match p with PrTraj tr => lookup (occupancy_set tr) t | PrSet l => lookup l t end.

  (* role tags as in ObstacleRole; the obstacle type is an opaque tag *)
  Inductive role := RStatic | RDynamic | REnvironment | RPhantom.
  Definition role_eqb (a b : role) : bool :=
    match a, b with RStatic, RStatic | RDynamic, RDynamic | REnvironment, REnvironment | RPhantom, RPhantom => true
    | _, _ => false end.

  Inductive obstacle :=
  | Static (id otype : Z) (init : S)
  | Dynamic (id otype : Z) (init : S) (pred : option prediction)
  | Phantom (id : Z) (pred : option (list occ))
  | Env (id otype : Z) (region : R).

  Definition ob_id (o : obstacle) : Z :=
    match o with Static i _ _ | Dynamic i _ _ _ | Phantom i _ | Env i _ _ => i end.
  Definition ob_role (o : obstacle) : role :=
    match o with Static _ _ _ => RStatic | Dynamic _ _ _ _ => RDynamic | Phantom _ _ => RPhantom | Env _ _ _ => REnvironment end.
  (* PhantomObstacle has no obstacle_type attribute (None after fix) *)
  Definition ob_type (o : obstacle) : option Z :=
    match o with Static _ ty _ | Dynamic _ ty _ _ | Env _ ty _ => Some ty | Phantom _ _ => None end.

  Definition occupancy_at_time (o : obstacle) (t : Z) : option occ :=
    match o with
    | Static _ _ init => Some {| o_time := TStep t; o_region := place init |}
    | Dynamic _ _ init pred =>
        if Z.eqb t (tstep init) then Some {| o_time := TStep t; o_region := place init |}
        else if Z.ltb (tstep init) t then match pred with Some p => pred_occupancy_at p t | None => None end
        else None
    | Phantom _ pred => match pred with Some l => lookup l t | None => None end
    | Env _ _ reg => Some {| o_time := TStep t; o_region := reg |}
    end.

  (* state_at_time exists for static and dynamic obstacles only *)
  Definition state_at_time (o : obstacle) (t : Z) : option S :=
    match o with
    | Static _ _ init => Some init
    | Dynamic _ _ init pred =>
        if Z.eqb t (tstep init) then Some init
        else match pred with
             | Some (PrSet _) => None
             | Some (PrTraj tr) => if Z.ltb (tstep init) t then state_at_time_step tr t else None
             | None => None
             end
    | _ => None
    end.

  (* ---- what can happen to an obstacle between construction and a query (scenario/obstacle.py: initial_state setter
     240-255 recomputes the initial occupancy, prediction setter 565-572, update_initial_state 663-712 = new initial
     state + prediction invalidated, update_prediction 714-726): an obstacle after any such history answers like a
     freshly constructed obstacle with its current attributes.  obstacle_shape is immutable (the setter only warns). *)
  Definition set_initial_state (o : obstacle) (st : S) : obstacle :=
    match o with Static i ty _ => Static i ty st | Dynamic i ty _ p => Dynamic i ty st p | _ => o end.
  Definition set_prediction (o : obstacle) (p : option prediction) : obstacle :=
    match o with Dynamic i ty init _ => Dynamic i ty init p | _ => o end.
  Definition update_initial_state (o : obstacle) (st : S) : obstacle := set_prediction (set_initial_state o st) None.

  (* ---- scenario level.  Scenario.obstacles = static ++ dynamic ++ phantom ++ environment (dict order) *)
  Definition is_role (r : role) (o : obstacle) : bool := role_eqb (ob_role o) r.
  Definition all_obstacles (obs : list obstacle) : list obstacle :=
    filter (is_role RStatic) obs ++ filter (is_role RDynamic) obs ++ filter (is_role RPhantom) obs
    ++ filter (is_role REnvironment) obs.

  Definition role_ok (r : option role) (o : obstacle) : bool :=
    match r with None => true | Some x => role_eqb (ob_role o) x end.
  Definition type_ok (ty : option Z) (o : obstacle) : bool :=
    match ty with None => true
    | Some x => match ob_type o with Some y => Z.eqb y x | None => false end end.

  (* the loop "for obstacle in self.obstacles: if ...: occupancies.append(...)" *)
  Definition occupancies_at_time_step (obs : list obstacle) (t : Z) (r : option role) : res (list (Z * occ)) :=
    if Z.leb 0 t then     (* assert is_natural_number(time_step) *)
      Ok (fold_left (fun acc o =>
                       if role_ok r o then
                         match occupancy_at_time o t with Some oc => acc ++ [(ob_id o, oc)] | None => acc end
                       else acc) (all_obstacles obs) [])
    else Err.
  Definition obstacles_by_role_and_type (obs : list obstacle) (r : option role) (ty : option Z) : list Z :=
    fold_left (fun acc o => if role_ok r o && type_ok ty o then acc ++ [ob_id o] else acc) (all_obstacles obs) [].

  (* obstacle_states_at_time_step: a dict id -> state filled for the dynamic obstacles first, then the static
     ones; obstacle ids are unique in a scenario (C09), so the dict is the list of insertions *)
  Definition obstacle_states_at_time_step (obs : list obstacle) (t : Z) : res (list (Z * S)) :=
    if Z.leb 0 t then
      let d1 := fold_left (fun d o => match state_at_time o t with Some s => d ++ [(ob_id o, s)] | None => d end)
                          (filter (is_role RDynamic) obs) [] in
      Ok (fold_left (fun d o => match o with Static i _ init => d ++ [(i, init)] | _ => d end)
                    (filter (is_role RStatic) obs) d1)
    else Err.

  (* obstacles_by_position_intervals(position_intervals, obstacle_role, time_step):
     [inside] is the test "x-interval contains c[0] and y-interval contains c[1]", [rcenter] the attribute
     shape.center (None when the shape has none: ShapeGroup), [spos] the centre used for a static obstacle *)
  Variable rcenter : R -> option (Q * Q).
  Variable spos : S -> option (Q * Q).
  Variable inside : Q * Q -> bool.
  Definition centre_ok (oc : occ) : bool :=
    match rcenter (o_region oc) with None => true | Some c => inside c end.
  Definition by_position (obs : list obstacle) (roles : list role) (t : Z) : list Z :=
    let has r := existsb (role_eqb r) roles in
    let pick (r : role) (f : obstacle -> bool) :=
      if has r then fold_left (fun acc o => if f o then acc ++ [ob_id o] else acc) (filter (is_role r) obs) [] else [] in
    pick RDynamic (fun o => match occupancy_at_time o t with Some oc => centre_ok oc | None => false end)
    ++ pick RPhantom (fun o => match occupancy_at_time o t with Some oc => centre_ok oc | None => false end)
    ++ pick RStatic (fun o => match o with
                              | Static _ _ init => match spos init with Some c => inside c | None => true end
                              | _ => false end)
    ++ pick REnvironment (fun o => match o with
                                   | Env _ _ reg => match rcenter reg with None => true | Some c => inside c end
                                   | _ => false end).
End Dispatch.

Arguments Build_occ {R}. Arguments o_time {R}. Arguments o_region {R}.
Arguments Build_traj {S}. Arguments t_init {S}. Arguments t_states {S}.
Arguments PrTraj {S R}. Arguments PrSet {S R}.
Arguments Static {S R}. Arguments Dynamic {S R}. Arguments Phantom {S R}. Arguments Env {S R}.

(* ================================================================== (ii) placement for exact states *)
Open Scope Q_scope.

(* twice the signed area and the area centroid of a closed vertex chain (what shapely's centroid computes
   for a polygon of non-zero area) *)
Fixpoint centroid_sums (vs : list pt) : Q * Q :=
  match vs with
  | p :: ((q :: _) as r) =>
      let k := cross p q in
      let rest := centroid_sums r in
      ((px p + px q) * k + fst rest, (py p + py q) * k + snd rest)
  | _ => (0, 0)
  end.
Definition centroid (vs : list pt) : pt :=
  let a2 := shoelace vs in
  (fst (centroid_sums vs) / (3 * a2), snd (centroid_sums vs) / (3 * a2)).

Section Place.
  Variable tau : Q.
  Variable fuel : nat.

  (* shapely.affinity.rotate(polygon, th, origin=centroid) + translation, vertex by vertex:
     g + R(c,s)(v - g) + pos *)
  Definition place_vertex (g pos : pt) (c s : Q) (v : pt) : pt :=
    padd (padd g (rot c s (padd v (pneg g)))) pos.

  (* shape.rotate_translate_local(pos, th); [c] [s] are cos th, sin th *)
  Fixpoint rotate_translate_local (pos : pt) (th c s : Q) (sh : shape) : res shape :=
    match sh with
    | Rect l w ctr o =>
        do o' <- shift_orient tau fuel th o;
        if valid_orientation tau o' then Ok (Rect l w (padd ctr pos) o') else Err
    | Circ r ctr => Ok (Circ r (padd ctr pos))
    | Poly vs =>
        if valid_orientation tau th then Ok (Poly (map (place_vertex (centroid vs) pos c s) vs)) else Err
    | Group ms =>
        if valid_orientation tau th then
          do ms' <- (fix go (l : list shape) : res (list shape) :=
                       match l with
                       | [] => Ok []
                       | x :: r => do y <- rotate_translate_local pos th c s x; do ys <- go r; Ok (y :: ys)
                       end) ms;
          Ok (Group ms')
        else Err
    end.

  (* Rectangle.vertices: the five corners, rotate_translate(corners, center, orientation);
     [c] [s] are cos / sin of the rectangle's orientation *)
  Definition rect_corners (l w : Q) : list pt :=
    [(- (1 # 2) * l, - (1 # 2) * w); (- (1 # 2) * l, (1 # 2) * w); ((1 # 2) * l, (1 # 2) * w);
     ((1 # 2) * l, - (1 # 2) * w); (- (1 # 2) * l, - (1 # 2) * w)].
  Definition rect_vertices (l w : Q) (ctr : pt) (o c s : Q) : list pt :=
    rotate_translate_pts ctr o c s (rect_corners l w).
End Place.

(* ---- the attributes of a state that occupancy_shape_from_state reads (geometry/shape.py:554-632) *)
Section FromState.
  Variable tau : Q.
  Variable fuel : nat.
  Variables cosf sinf : Q -> Q.       (* math.cos / math.sin as shapely.affinity.rotate calls them *)
  Variable atan2f : Q -> Q -> Q.      (* math.atan2 *)

  (* state.orientation: the stored value; for point-mass states (PMState: the read-only property of state.py:383-392;
     states without the attribute: TrajectoryPrediction._create_occupancy_set, prediction.py:395-398)
     atan2(velocity_y, velocity).  [s_vec] = (velocity, velocity_y) *)
  Definition heading (st : state) : option orientation :=
    match s_ori st with
    | Some o => Some o
    | None => match s_vec st with Some v => Some (OExact (atan2f (py v) (px v))) | None => None end
    end.
  (* state.is_uncertain_position or state.is_uncertain_orientation *)
  Definition is_uncertain (st : state) : bool :=
    match s_pos st with Some (PRegion _) => true | _ => false end
    || match heading st with Some (OItv _) => true | _ => false end.
  (* the else-branch: shape.rotate_translate_local(state.position, state.orientation); a missing attribute is an
     AttributeError *)
  Definition occupancy_exact (sh : shape) (st : state) : res shape :=
    match s_pos st, heading st with
    | Some (PPoint p), Some (OExact th) => rotate_translate_local tau fuel p th (cosf th) (sinf th) sh
    | _, _ => Err
    end.
End FromState.

(* ================================================================== (iii) enclosure for uncertain states *)
(* axis-aligned box as shapely's .bounds returns it *)
Record box := { b_minx : Q; b_miny : Q; b_maxx : Q; b_maxy : Q }.
Definition box_len (b : box) : Q := Qabs (b_maxx b - b_minx b).
Definition box_wid (b : box) : Q := Qabs (b_maxy b - b_miny b).
Definition box_mid (b : box) : pt := ((1 # 2) * (b_minx b + b_maxx b), (1 # 2) * (b_miny b + b_maxy b)).

(* shapely's .bounds of a vertex chain: coordinate-wise min / max *)
Definition bbox1 (p : pt) : box := {| b_minx := px p; b_miny := py p; b_maxx := px p; b_maxy := py p |}.
Definition box_add (b : box) (p : pt) : box :=
  {| b_minx := Qmin (b_minx b) (px p); b_miny := Qmin (b_miny b) (py p);
     b_maxx := Qmax (b_maxx b) (px p); b_maxy := Qmax (b_maxy b) (py p) |}.
Definition bbox (vs : list pt) : option box :=
  match vs with [] => None | p :: r => Some (fold_left box_add r (bbox1 p)) end.

(* values of the transcendental functions at the arguments the formula passes them (oracle inputs) *)
Record enc_oracle := {
  cos_l : Q; sin_l : Q;               (* cos / sin of delta_psi_l = min(delta_psi, arctan(w_v / l_v)) *)
  cos_w : Q; sin_w : Q;               (* cos / sin of delta_psi_w = min(delta_psi, arctan(l_v / w_v)) *)
  cos_d : Q; sin_d : Q;               (* cos / sin of psi_d *)
  norm_off : Q;                       (* |offset_v| *)
  sin_half : Q                        (* sin(delta_psi / 2) *)
}.

(* what the enclosure formula reads off the obstacle's shape: the bounding box (extents l_v, w_v) and the point
   the shape is rotated about by rotate_translate_local (Rectangle / Circle: center, Polygon: centroid).
   A ShapeGroup is handled member by member (after fix), each member with its own oracle values. *)
Inductive shape_meas :=
| SMBox (b : box) (ref : pt)
| SMCirc (r : Q) (ctr : pt)
| SMGroup (ms : list (shape_meas * enc_oracle)).
(* the position: exact point | Rectangle / Polygon region: its center and the bounds of the region rotated by
   -psi_d about that center | Circle region | ShapeGroup region (ValueError) *)
Inductive pos_meas := PMExact (p : pt) | PMBox (ctr : pt) (rotated : box) | PMCirc (ctr : pt) (r : Q) | PMGroup.
(* orientation: exact | interval *)
Inductive ori_meas := OMExact (th : Q) | OMItv (J : itv).

(* what the formula reads off a primitive shape, computed: Rectangle: bounds of its vertices ([co] [so] = cos / sin
   of its orientation), rotated about its centre; Polygon: bounds of its vertices, rotated about its centroid *)
Definition meas_prim (sh : shape) (co so : Q) : option shape_meas :=
  match sh with
  | Rect l w ctr o => option_map (fun b => SMBox b ctr) (bbox (rect_vertices l w ctr o co so))
  | Poly vs => option_map (fun b => SMBox b (centroid vs)) (bbox vs)
  | Circ r ctr => Some (SMCirc r ctr)
  | Group _ => None
  end.
(* the orientation the formula uses, from the state *)
Definition om_of (o : orientation) : ori_meas := match o with OExact th => OMExact th | OItv J => OMItv J end.

Definition psi_of (om : ori_meas) : Q :=
  match om with OMItv J => lo J + (1 # 2) * (hi J - lo J) | OMExact th => th end.

(* the formula for one primitive shape with extents l_v x w_v, centre of rotation ref_v, offset off_v of the
   bounding-box centre from it *)
Definition enclosure1 (l_v w_v : Q) (ref_v off_v : pt) (pm : pos_meas) (om : ori_meas) (orc : enc_oracle) : res shape :=
  match pm with
  | PMGroup => Err
  | _ =>
    let '(l_s, w_s, ctr, off_s) :=
      match pm with
      | PMExact p => (0, 0, p, (0, 0))
      | PMBox c0 b => (box_len b, box_wid b, c0, padd (box_mid b) (pneg c0))
      | PMCirc c0 r => (2 * r, 2 * r, c0, (0, 0))
      | PMGroup => (0, 0, (0, 0), (0, 0))
      end in
    let l_psi := Qabs ((1 - cos_l orc) * l_v - sin_l orc * w_v) in
    let w_psi := Qabs ((1 - cos_w orc) * w_v - sin_w orc * l_v) in
    let arc := 2 * norm_off orc * sin_half orc in
    let l_enc := l_s + l_v + l_psi + 2 * arc in
    let w_enc := w_s + w_v + w_psi + 2 * arc in
    let c1 := padd (padd ctr ref_v) (rot (cos_d orc) (sin_d orc) (padd off_s off_v)) in
    (* Rectangle(...) asserts a valid orientation; psi_d of a valid interval / orientation always is *)
    Ok (Rect l_enc w_enc c1 (psi_of om))
  end.

Fixpoint enclosure (sm : shape_meas) (pm : pos_meas) (om : ori_meas) (orc : enc_oracle) : res shape :=
  match sm with
  | SMBox b ref => enclosure1 (box_len b) (box_wid b) ref (padd (box_mid b) (pneg ref)) pm om orc
  | SMCirc r ctr => enclosure1 (2 * r) (2 * r) ctr (0, 0) pm om orc
  | SMGroup ms =>
      do l <- (fix go (l : list (shape_meas * enc_oracle)) : res (list shape) :=
                 match l with
                 | [] => Ok []
                 | mo :: r => do y <- enclosure (fst mo) pm om (snd mo); do ys <- go r; Ok (y :: ys)
                 end) ms;
      Ok (Group l)
  end.

(* membership of a point in a rectangle given by length, width, centre and (cos, sin) of its orientation *)
Definition in_rect (l w : Q) (ctr : pt) (c s : Q) (x : pt) : Prop :=
  let d := padd x (pneg ctr) in
  Qabs (c * px d + s * py d) <= (1 # 2) * l /\ Qabs (- s * px d + c * py d) <= (1 # 2) * w.
