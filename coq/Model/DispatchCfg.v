(* Model/DispatchCfg.v — the objects of scenario/obstacle.py, scenario/trajectory.py and prediction/prediction.py as
   the translated source sees them (Gen/Src_dispatch.v), one record per static configuration, and their embedding
   into the types of Model/Occupancy.v (part (i), dispatch) that the C04 theorems are about.
     Occupancy with an int time step        = a pair (time_step, shape)             -> occ_of_step
     Occupancy with an Interval time step   = occ_itv (Interval of ints = zitv)     -> occ_of_itv
     SetBasedPrediction                     = its _occupancy_set, of one of the two kinds
     TrajectoryPrediction                   = its _trajectory and the value of the cached property occupancy_set
                                              (traj_pred_src: what _create_occupancy_set reads, _trajectory and _shape)
     StaticObstacle / DynamicObstacle       = _initial_state, _initial_occupancy_shape (, _prediction : P)
   States and shapes are opaque (types S, R); state.time_step is [tstep]. *)
From Coq Require Import ZArith List.
From CR Require Import Model.Interval Model.Occupancy.
Import ListNotations.
Open Scope Z_scope.

Record zitv := { zlo : Z; zhi : Z }.

Section Cfg.
  Variables S R : Type.
  Record occ_itv := { oi_time : zitv; oi_region : R }.
  Record set_pred_step := { sp_occs : list (Z * R) }.
  Record set_pred_itv := { si_occs : list occ_itv }.
  Record traj_pred := { tp_traj : traj S; tp_occs : list (Z * R) }.
  (* TrajectoryPrediction as _create_occupancy_set reads it: _trajectory, _shape; _wheelbase_lengths is None *)
  Record traj_pred_src := { ts_traj : traj S; ts_shape : R; ts_wheelbase : unit }.
  Record static_obs := { so_init : S; so_shape : R }.
  Record dyn_obs (P : Type) := { do_init : S; do_shape : R; do_pred : P }.
  Record env_obs := { eo_shape : R }.                      (* EnvironmentObstacle: _obstacle_shape *)
  Record phantom_obs (P : Type) := { ph_pred : P }.

  Definition occ_of_step (p : Z * R) : occ R := {| o_time := TStep (fst p); o_region := snd p |}.
  Definition occ_of_itv (o : occ_itv) : occ R :=
    {| o_time := TItv (zlo (oi_time o)) (zhi (oi_time o)); o_region := oi_region o |}.
End Cfg.

Arguments oi_time {R}. Arguments oi_region {R}. Arguments Build_occ_itv {R}.
Arguments sp_occs {R}. Arguments si_occs {R}.
Arguments tp_traj {S R}. Arguments tp_occs {S R}.
Arguments ts_traj {S R}. Arguments ts_shape {S R}. Arguments ts_wheelbase {S R}.
Arguments so_init {S R}. Arguments so_shape {S R}.
Arguments eo_shape {R}. Arguments ph_pred {P}.
Arguments do_init {S R P}. Arguments do_shape {S R P}. Arguments do_pred {S R P}.
Arguments occ_of_step {R}. Arguments occ_of_itv {R}.
