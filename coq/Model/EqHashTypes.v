(* Model/EqHashTypes.v — C12, totality of hash(): the types of the constructor-visible attributes.

   A small type language for the values an attribute can hold (the table itself is GENERATED from the type
   annotations of every constructor, Gen/Tables_C12.v: [types_C12]; None is an alternative iff the parameter's
   default is None), a typing check [has_ty] of model values against it, and the static check [hok h t]:
   "the hash preparation h raises for no value of type t". *)
From Coq Require Import List Bool String.
From CR Require Import Model.EqHash.
Import ListNotations.

Inductive ty := TY (alts : list alt)      (* a union of alternatives; TY [] has no values *)
with alt :=
| ANone | ABool | AInt | ANum | AStr | AEnum | AArr
| AList (t : ty)          (* list / tuple of t *)
| ASet (t : ty)           (* set / frozenset of t *)
| ADict (k : ty) (v : ty) (* dict *)
| AObj (c : string).      (* an instance of exactly class c (a class of the type table) *)

(* class -> (attribute -> type, type of every attribute not listed [classes with **kwargs constructors]) *)
Definition ttable := list (string * (list (string * ty) * option ty)).

Definition attr_ty (tt : ttable) (c a : string) : option ty :=
  match assoc c tt with
  | None => None
  | Some (l, d) => match assoc a l with Some t => Some t | None => d end
  end.

Fixpoint has_ty (tt : ttable) (v : value) (t : ty) {struct v} : bool :=
  match t with
  | TY alts =>
      existsb (fun a =>
        match a, v with
        | ANone, VNone => true
        | ABool, VBool _ => true
        | AInt, VInt _ => true
        | AInt, VBool _ => true
        | ANum, VNum _ => true
        | ANum, VInt _ => true
        | AStr, VStr _ => true
        | AEnum, VEnum _ => true
        | AArr, VArr _ _ => true
        | AList t', VList l => forallb (fun x => has_ty tt x t') l
        | ASet t', VSet l => forallb (fun x => has_ty tt x t') l
        | ADict k t', VSet l =>
            forallb (fun p => match p with
                              | VList [kk; vv] => has_ty tt kk k && has_ty tt vv t'
                              | _ => false
                              end) l
        | AObj c, VObj c' fs =>
            String.eqb c c' && (match assoc c tt with Some _ => true | None => false end) &&
            forallb (fun p => match attr_ty tt c (fst p) with
                              | Some t' => has_ty tt (snd p) t'
                              | None => false
                              end) fs
        | _, _ => false
        end) alts
  end.

(* ------------------------------------------------------------------ which types a hash preparation accepts *)
Definition alt_hashable (a : alt) : bool :=
  match a with ANone | ABool | AInt | ANum | AStr | AEnum | AObj _ => true | _ => false end.
Definition ty_alts (t : ty) : list alt := match t with TY l => l end.
Definition is_anone (a : alt) : bool := match a with ANone => true | _ => false end.

Fixpoint hok (h : hkind) (t : ty) {struct h} : bool :=
  match t with
  | TY alts =>
      match h with
      | HPy | HStr => forallb alt_hashable alts
      | HArr10 => forallb (fun a => match a with AArr => true | _ => false end) alts
      | HState => forallb (fun a => match a with AArr => true | _ => alt_hashable a end) alts
      | HIgnored => true
      | HTupleOf h' => forallb (fun a => match a with AList t' => hok h' t' | _ => false end) alts
      | HFrozenOf h' => forallb (fun a => match a with AList t' | ASet t' => hok h' t' | _ => false end) alts
      | HItemsOf h' =>
          forallb (fun a => match a with
                            | ADict k t' => forallb alt_hashable (ty_alts k) && hok h' t'
                            | _ => false
                            end) alts
      | HTupleIfList h' => forallb (fun a => match a with AList t' => hok h' t' | _ => alt_hashable a end) alts
      | HOpt h' => hok h' (TY (filter (fun a => negb (is_anone a)) alts))
      | HNoneEmpty h' => hok h' (TY (map (fun a => if is_anone a then AList (TY []) else a) alts))
      end
  end.

(* side condition on (spec table, type table): every typed class has a spec, and every attribute's hash
   preparation accepts the attribute's type; for per-instance attributes every preparation the spec can choose
   accepts the default type *)
Definition class_hashable (T : table) (e : string * (list (string * ty) * option ty)) : bool :=
  match spec_of T (fst e) with
  | None => false
  | Some sp =>
      forallb (fun p => hok (hkind_of sp (fst p)) (snd p)) (fst (snd e)) &&
      match snd (snd e) with
      | None => true
      | Some d => forallb (fun h => hok h d) (f_hash_default sp :: map snd (f_hash sp))
      end
  end.

Definition types_hashable (T : table) (tt : ttable) : bool := forallb (class_hashable T) tt.
