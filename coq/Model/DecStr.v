(* Model/DecStr.v — commonroad/common/writer/file_writer_xml.py:62-74 float_to_str, on decimal strings.
   str(np.float64 x) without exponent is  [-]ip.fp  (ip, fp digit strings, fp non-empty);
   float_to_str keeps ip, the point and the first d digits of fp.  (The exponent branch calls
   format(x, '.df'), an oracle whose contract |v - x| <= 10^-d / 2 the harness checks on every case.) *)
From Coq Require Import QArith ZArith List Bool.
Import ListNotations.
Open Scope Q_scope.

Record dec := { neg : bool; ip : list Z; fp : list Z }.   (* digits, most significant first *)

Definition is_digit (d : Z) : bool := (0 <=? d)%Z && (d <=? 9)%Z.
Definition digits_ok (l : list Z) : bool := forallb is_digit l.
(* lexical form of xs:decimal: optional sign, digits, optional point followed by digits; never an exponent *)
Definition plain_decimal (x : dec) : bool :=
  digits_ok (ip x) && digits_ok (fp x) && negb (match ip x with [] => true | _ => false end).

(* value of a fractional digit string: sum d_i 10^-(i+1) *)
Fixpoint frac_val (l : list Z) : Q :=
  match l with [] => 0 | d :: r => (inject_Z d + frac_val r) / 10 end.
Fixpoint int_val_acc (acc : Z) (l : list Z) : Z :=
  match l with [] => acc | d :: r => int_val_acc (acc * 10 + d) r end.
Definition abs_val (x : dec) : Q := inject_Z (int_val_acc 0 (ip x)) + frac_val (fp x).
Definition dval (x : dec) : Q := if neg x then - abs_val x else abs_val x.

(* float_to_str, non-exponent branch: f_list[0] + "." + f_list[1][:d] *)
Definition float_to_str (d : nat) (x : dec) : dec := {| neg := neg x; ip := ip x; fp := firstn d (fp x) |}.

Definition pow10 (d : nat) : Q := inject_Z (10 ^ Z.of_nat d).
