(* Model/IdHangSrc.v — Scenario.remove_hanging_lanelet_members (commonroad/scenario/scenario.py) as parsed on every run by
   harness/props/c09_hang_src.py, and its interpreter over the state of Model/IdPool.v.
   The method computes, for signs and for lights, the ids referenced by one collection of lanelets (the lanelets being
   removed / the lanelets that remain) and not referenced by another one, keeps those elements of the network's sign /
   light list, and hands the two lists to remove_traffic_sign / remove_traffic_light (list form, Model/IdRemoveSrc.v):
     X = set().union( *[la.F for la in C])              F = traffic_signs | traffic_lights, C = removed | remaining
     for t in self.lanelet_network.K: if t.id in set(X - Y): L.append(find_K_by_id(t.id))
     self.remove_K(L)
   A selection is (universe K, (C, F) of X, (C, F) of Y); the program is the selection handed to remove_traffic_sign, the
   one handed to remove_traffic_light and the order of the two calls. *)
From Coq Require Import ZArith List Bool.
Import ListNotations.
From CR Require Import Model.IdPool Model.IdRemoveSrc.
Open Scope Z_scope.

Inductive hcoll := HRemoved | HRemaining.
Inductive hfield := HSigns | HLights.
Record hsel := { hs_universe : nkind; hs_del : hcoll * hfield; hs_save : hcoll * hfield }.
Record hprog := { hp_signs : hsel; hp_lights : hsel; hp_calls : list nkind }.

Definition hfld (f : hfield) (l : lanelet) : list Z := match f with HSigns => l_signs l | HLights => l_lights l end.
Definition hcoll_of (c : hcoll) (ls : list lanelet) (n : net) : list lanelet :=
  match c with
  | HRemoved => ls
  | HRemaining => filter (fun l => negb (mem (l_id l) (map l_id ls))) (n_lanelets n)
  end.
Definition huniverse (k : nkind) (n : net) : list Z :=
  match k with KSign => n_signs n | KLight => n_lights n | _ => [] end.
Definition hrefs (cf : hcoll * hfield) (ls : list lanelet) (n : net) : list Z :=
  flat_map (hfld (snd cf)) (hcoll_of (fst cf) ls n).
Definition hsel_run (h : hsel) (ls : list lanelet) (n : net) : list Z :=
  filter (fun z => mem z (hrefs (hs_del h) ls n) && negb (mem z (hrefs (hs_save h) ls n))) (huniverse (hs_universe h) n).

Section Run.
  Variables (P : hprog) (rs rt : rmeth).
  Fixpoint hcalls (sel_s sel_t : list Z) (calls : list nkind) : M :=
    match calls with
    | [] => ret
    | KSign :: r => run_list rs (map (fun z => (z, [])) sel_s) ;; hcalls sel_s sel_t r
    | KLight :: r => run_list rt (map (fun z => (z, [])) sel_t) ;; hcalls sel_s sel_t r
    | _ :: r => fun s => (s, Some OtherError)
    end.
  Definition run_hanging (ls : list lanelet) : M := fun s =>
    hcalls (hsel_run (hp_signs P) ls (network s)) (hsel_run (hp_lights P) ls (network s)) (hp_calls P) s.
  (* remove_lanelet with the parsed remove_hanging_lanelet_members *)
  Definition run_lanelets_full (m : lmeth) (ls : list lanelet) (refs : bool) : M :=
    (if refs && lm_hanging_first m then run_hanging ls else ret) ;;
    loop (fun l => rstmts_run (l_id l) [] (lm_body m)) ls.
End Run.

(* erase_lanelet_network with remove_lanelet executed by parsed methods only (the loop over the lanelets calls
   remove_lanelet, which calls the parsed remove_hanging_lanelet_members) *)
Section EraseFull.
  Variables (H : hprog) (rl : lmeth) (rs rt rx : rmeth).
  Definition erun_full (e : estmt) : M := fun s =>
    match e with
    | ELoop KLanelet =>
        loop (fun l s1 => run_lanelets_full H rs rt rl [current_lanelet l s1] (lm_default_refs rl) s1)
             (n_lanelets (network s)) s
    | _ => erun rl rs rt rx e s
    end.
  Fixpoint eruns_full (l : list estmt) : M :=
    match l with [] => ret | e :: r => erun_full e ;; eruns_full r end.
End EraseFull.

