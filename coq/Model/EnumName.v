(* Model/EnumName.v — enum transport by member NAME in the protobuf format
   (file_writer_protobuf.py: pb.Enum.Value(py_member.name);  file_reader_protobuf.py: PyEnum[pb.Enum.Name(number)]).
   A protobuf enum is a table name -> number (generated from the *_pb2 descriptors). *)
From Coq Require Import ZArith String List Bool.
Import ListNotations.
Open Scope string_scope.

Definition table := list (string * Z).

(* Enum.Value(name): the number, or ValueError (None) when the name is not in the .proto *)
Fixpoint encode (t : table) (name : string) : option Z :=
  match t with
  | [] => None
  | (n, z) :: r => if String.eqb n name then Some z else encode r name
  end.

(* Enum.Name(number): the first name with that number *)
Fixpoint decode (t : table) (z : Z) : option string :=
  match t with
  | [] => None
  | (n, z') :: r => if Z.eqb z' z then Some n else decode r z
  end.

Fixpoint numbers_distinct (t : table) : bool :=
  match t with
  | [] => true
  | (_, z) :: r => negb (existsb (fun p => Z.eqb (snd p) z) r) && numbers_distinct r
  end.
